import PdshVerif.Pcp.Confine
import PdshVerif.Pcp.Frame
import PdshVerif.Pcp.Variant
import PdshVerif.Pcp.Feed
import PdshVerif.Pcp.Spec
import PdshVerif.Pcp.Links
import PdshVerif.Pcp.MultiConfine
import PdshVerif.Pcp.Allocbuf

/-! # C12  A copy peer can only write inside the destination it was given

Theorems about `sink`/`run` (Pcp/Sink.lean), the model of `pcp_server.c:_sink` over the file-system
model Pcp/FS.lean (root, no symbolic links).  All of them quantify over **every** byte stream, every
initial file system and every option setting.

* `confined`             -- the receiver that validates received names (`Opts.rule`: the narrow rule
                           "no `/`, not `..`" of the repair, or the scp rule) hands only paths beneath
                           the destination to `mkdir`/`open`/`chmod`/`utimes`.
* `escape_witness`, `overwrite_witness`
                         -- the same statement is FALSE for the unchanged receiver (DESIGN D13):
                           decided on `C0644 1 ../e` resp. `C0600 0 ../v`.
* `repair_conservative`, `confined_partial`
                         -- on every stream on which the validating receiver rejects no name, the unchanged
                           receiver does exactly the same (file system, replies, paths), hence is confined:
                           the proposed repair changes nothing else.
* `reader_in_bounds`     -- no index leaves `buf[BUFSIZ]`, `namebuf[need]`, `bp->buf[cnt]`.
* `reader_in_bounds_any_blksize`
                         -- the same with `cnt` as `_allocbuf` computes it from ANY `st_blksize` the file system reports
                           (Pcp/Allocbuf.lean: `allocbuf_cntOk`); the check scripts `st_blksize` (512 ... 1 MiB, 9216, 12288)
                           and takes the model's `cnt` from `allocSize`.
* `sink_done`            -- on every stream every level returns: the run ends with `pcp_server()`
                           finished (termination itself is Lean's check: `run` is a fold over the stream).
* `malformed_answered`   -- a record the parser rejects is answered with the corresponding
                           `protocol screwup` error record, which is part of the final reply stream.
* `truncated_answered`   -- a stream that ends inside a record, inside file data or before the
                           response byte is answered with an error record.

* `frame`, `frame_soft`  -- every variant: a path that was not handed to a successful modifying call and is
                           not the parent of a created path is unchanged; parents of created paths change
                           at most in their directory mtime; nothing that existed disappears.
* `only_beneath_dest`, `outside_dest_soft`
                         -- C12 as ONE statement about the final file system (receiver with a name rule):
                           every path not beneath the destination holds exactly what it held before.

* `confined_many`        -- the second entry point, `dsh.c _pcp_server`: the receivers of an rpdcp run are THREADS of one
                           process on one file system.  In the product automaton (Pcp/Multi.lean), whatever the streams
                           and however their bytes interleave, every receiver hands only paths beneath ITS destination
                           to modifying system calls (the invariant does not look at the file system, so the other
                           receivers cannot disturb it).
* `escapes_only_through_links`, `symlink_escape_witness`, `no_link_beneath_no_escape`
                         -- "never follows a received name out of it", with symbolic links that ALREADY EXIST inside
                           the destination (Pcp/Links.lean: the link-free model describes them by translation, `graftAll`
                           / `physicalAll`; the translation is tested against the real kernel by the check): the receiver
                           with a name rule leaves its destination ONLY through such links and then lands beneath the
                           link's target; it DOES follow them (`stat`/`open`/`chmod`/`utimes` follow links: decided
                           witness, finding F12-SYMLINK-FOLLOW, as rcp/scp do); without a link beneath the destination
                           the view is the file system and `confined`/`only_beneath_dest` apply as they are.

## Every array and allocation of pcp_server.c  (the memory-safety clause)

| object                               | where                          | accounted for by |
|--------------------------------------|--------------------------------|------------------|
| `buf = malloc(BUFSIZ)`               | `_sink` record reader          | proved: `reader_in_bounds` (every write index, the terminating NUL included, `< BUFSIZ`; model field `ub`); freed at `end_server` on every path (`sink_done`: every level returns) except the early `return` after a failed `_verifydir` (a leak of one block, no access) |
| `namebuf = malloc(need)`             | `_sink` name join              | proved: `reader_in_bounds` (`strlen(targ)+strlen(cp)+250 >=` joined length + 1; `snprintf` is bounded by `cursize` anyway) |
| `bp->buf = malloc(size)` (`_allocbuf`) | `_sink` data loop             | proved: `reader_in_bounds` (`cp` advances by what `read` returned, `count <= bp->cnt`, reset when `count == bp->cnt`; `CntOk`: `cnt` a positive multiple of BUFSIZ) |
| `char newfmt[1000]` (`_error`)       | error record format            | bounded by construction: `snprintf(newfmt, 1000, ...)`; every format passed in is a string literal shorter than 40 bytes; received names reach `errf` only as ARGUMENTS (names full of `%` directives are pinned cases of every run) -- sanitizer-supported |
| `struct timeval tv[2]`               | `_sink` (`atime`/`mtime`)      | constant indices 0 and 1 only |
| `struct stat stb`, `char ch`, `char resp` | `_sink`, `_verifydir`, `_allocbuf`, `_response` | scalars, written by `stat`/`fstat`/`read(.., 1)` with `sizeof` the object |
| `BUF buffer` (`pcp_server`)          | one per call, automatic        | `memset` to 0, handed down by pointer, `buffer.buf` freed once after `_sink` returned |
| `FILE *fp` (`_error`)                | `fdopen` per call              | never closed (one `FILE` leaked per error record; no access after free); shared by threads only in the code as found (F11-ERRFP-RACE, Props/C11) |
| objects of static storage            | `copyright[]`, `rcsid[]`       | never written; the check lists the object file's data/bss symbols on every run (`nm`, `static_objects`) and fails when there is one the model does not know |

Not proved here: memory safety of the compiled C beyond the index obligations above (ASan/UBSan on the harness
side: every case of the check runs the real `pcp_server()` under both).  System calls that FAIL or are CUT SHORT
(`read` interrupted or short, `write` interrupted or short, `open` EMFILE, `fstat` EIO) are outside the model -- its
`read` delivers the stream, its writes fail only at a file size limit --: the check injects each of them at every
call index of a pinned stream and applies the oracles (no crash, no sanitizer report, no hang, nothing outside DEST,
and nothing acknowledged that was not written); short reads and scripted block sizes are ALSO compared with the model,
which they must not change.
-/
namespace PdshVerif.Props.C12
open PdshVerif.Pcp

/-! ## confinement -/

/-- **C12 for the receiver with name validation** -- either rule: the narrow one that rejects names
containing `/` and the name `..` (the repair), or the stricter scp rule.  Whatever the stream, every path
handed to a successful modifying system call has the canonical destination as a component-wise prefix. -/
theorem confined (o : Opts) (hrep : o.rule ≠ .none) (fs : FS) (stream : Str) :
    Spec.Confined (destPath o) (sink o fs stream).2.2 := by
  intro p hp
  simp only [sink, List.mem_reverse] at hp
  exact (good_run o hrep fs stream).touched p hp

/- The same statement for the unchanged receiver (`o.repaired = false`, `nameOk = fun _ => true`),

     ∀ o fs stream, Spec.Confined (destPath o) (sink o fs stream).2.2,

   is FALSE: witnesses below.  -/

/-- the file system of the witnesses: `/w` is the working directory, `/w/d` the destination,
`/w/v` a file next to it -/
def wfs : FS := fun p =>
  if p = [] then some (.dir 0o755 none)
  else if p = [[119]] then some (.dir 0o755 none)
  else if p = [[119], [100]] then some (.dir 0o755 none)
  else if p = [[119], [118]] then some (.file 0o600 none [115, 101, 99, 114, 101, 116])
  else none

def wopts (rule : NameRule) : Opts :=
  { preserve := false, targetIsDir := false, umask := 0o22, cnt := 8192, rule := rule, dirChmod := false,
    fsize := none, cwd := [[119]], dest := [100] }

/-- `C0644 1 ../e\nX\0` -/
def wstream : Str := [67, 48, 54, 52, 52, 32, 49, 32, 46, 46, 47, 101, 10, 88, 0]
/-- `C0600 0 ../v\n\0` -/
def wstream2 : Str := [67, 48, 54, 48, 48, 32, 48, 32, 46, 46, 47, 118, 10, 0]
/-- `C0644 1 e\nX\0` -/
def wstream3 : Str := [67, 48, 54, 52, 52, 32, 49, 32, 101, 10, 88, 0]

/-- D13: the unchanged receiver creates `/w/e` although its destination is `/w/d` -/
theorem escape_witness :
    destPath (wopts .none) = [[119], [100]] ∧
    (sink (wopts .none) wfs wstream).2.2 = [[[119], [101]]] ∧
    (sink (wopts .none) wfs wstream).1 [[119], [101]] = some (.file 0o644 none [88]) ∧
    ¬ Spec.Confined (destPath (wopts .none)) (sink (wopts .none) wfs wstream).2.2 := by
  refine ⟨by decide +kernel, by decide +kernel, by decide +kernel, ?_⟩
  intro h
  have := h [[119], [101]] (by decide +kernel)
  revert this
  decide +kernel

/-- D13: the unchanged receiver truncates the file `/w/v` next to its destination; the validating
receiver answers the same stream with an error record and touches nothing -/
theorem overwrite_witness :
    wfs [[119], [118]] = some (.file 0o600 none [115, 101, 99, 114, 101, 116]) ∧
    (sink (wopts .none) wfs wstream2).1 [[119], [118]] = some (.file 0o600 none []) ∧
    (sink (wopts .slashDotdot) wfs wstream2).2.1 = [.ack, .err (.screwup .badName)] ∧
    (sink (wopts .slashDotdot) wfs wstream2).2.2 = [] ∧
    (sink (wopts .scp) wfs wstream2).2.1 = [.ack, .err (.screwup .badName)] ∧
    (sink (wopts .scp) wfs wstream2).2.2 = [] := by
  refine ⟨by decide +kernel, by decide +kernel, by decide +kernel, by decide +kernel, by decide +kernel,
    by decide +kernel⟩

/-- **The repair changes nothing else**: on a stream on which the validating receiver rejects no
name, the receiver without validation produces the same file system, replies and paths. -/
theorem repair_conservative (o : Opts) (fs : FS) (stream : Str)
    (h : badNameReply ∉ (sink o fs stream).2.1) : sink o.unchanged fs stream = sink o fs stream := by
  rcases run_variant (o := o) fs stream with he | hb
  · simp only [sink, he]
  · exact absurd (by simpa [sink] using hb) h

/-- **C12 for the unchanged receiver, partial**: confined on every stream on which the scp rule
would reject no name (a decidable hypothesis: run the validating model). -/
theorem confined_partial (o : Opts) (hrep : o.rule ≠ .none) (fs : FS) (stream : Str)
    (h : badNameReply ∉ (sink o fs stream).2.1) :
    Spec.Confined (destPath o.unchanged) (sink o.unchanged fs stream).2.2 := by
  rw [repair_conservative o fs stream h]
  exact confined o hrep fs stream

/-- the hypothesis of `confined_partial` is satisfiable by a stream that does create a file -/
example : badNameReply ∉ (sink (wopts .slashDotdot) wfs wstream3).2.1 ∧
    (sink (wopts .slashDotdot).unchanged wfs wstream3).2.2 = [[[119], [100], [101]]] := by
  refine ⟨by decide +kernel, by decide +kernel⟩

/-! ## the frame: nothing else changes -/

/-- **Frame.**  For every receiver variant, stream, file system and option setting: a path that was
not handed to a successful modifying system call and is not the parent directory of a path that was
created still holds exactly what it held before. -/
theorem frame (o : Opts) (fs : FS) (stream : Str) (q : Path)
    (hq : q ∉ (sink o fs stream).2.2)
    (hpar : ∀ p ∈ (sink o fs stream).2.2, fs p = none → p.dropLast ≠ q) :
    (sink o fs stream).1 q = fs q := by
  simp only [sink, List.mem_reverse] at hq hpar ⊢
  apply (framed_run o fs stream).frame
  rintro (h | ⟨p, hp, h1, h2⟩)
  · exact hq h
  · exact hpar p hp h1 h2

/-- the parent directory of a created path changes at most in its modification time, and **nothing
that existed disappears** -/
theorem frame_soft (o : Opts) (fs : FS) (stream : Str) (q : Path) :
    (q ∉ (sink o fs stream).2.2 → SoftEq (fs q) ((sink o fs stream).1 q)) ∧
    ((fs q).isSome = true → ((sink o fs stream).1 q).isSome = true) := by
  simp only [sink, List.mem_reverse]
  exact ⟨(framed_run o fs stream).soft q, (framed_run o fs stream).keeps q⟩

/-- **C12 as one statement about the final file system** (receiver with a name rule: the repaired
code).  Whatever the stream, every path that does not lie beneath the destination holds after the run
exactly what it held before -- provided the destination exists at the start, or the path is not the
destination's parent directory (creating the destination itself refreshes that directory's
modification time, see `outside_dest_soft`). -/
theorem only_beneath_dest (o : Opts) (hrule : o.rule ≠ .none) (fs : FS) (stream : Str) (p : Path)
    (hp : ¬ destPath o <+: p) (hd : fs (destPath o) ≠ none ∨ p ≠ (destPath o).dropLast) :
    (sink o fs stream).1 p = fs p := by
  have hc := confined o hrule fs stream
  apply frame
  · intro hm; exact hp (hc p hm)
  · intro p' hp' hnone e
    rcases prefix_or_dropLast (hc p' hp') with rfl | hpre
    · rcases hd with h | h
      · exact h hnone
      · exact h e.symm
    · rw [e] at hpre; exact hp hpre

/-- without that proviso: outside the destination nothing is created, removed or modified except
that a directory may get a new modification time (only the destination's parent, only when the
destination itself had to be created) -/
theorem outside_dest_soft (o : Opts) (hrule : o.rule ≠ .none) (fs : FS) (stream : Str) (p : Path)
    (hp : ¬ destPath o <+: p) : SoftEq (fs p) ((sink o fs stream).1 p) := by
  apply (frame_soft o fs stream p).1
  intro hm
  exact hp (confined o hrule fs stream p hm)

/-- the proviso of `only_beneath_dest` is satisfiable and the statement not vacuous: in the witness
file system the neighbour `/w/v` survives the hostile stream `C0600 0 ../v` -/
example : wfs (destPath (wopts .slashDotdot)) ≠ none ∧
    (sink (wopts .slashDotdot) wfs wstream2).1 [[119], [118]] = wfs [[119], [118]] := by
  refine ⟨by decide +kernel, ?_⟩
  exact only_beneath_dest (wopts .slashDotdot) (by decide) wfs wstream2 _ (by decide +kernel)
    (Or.inl (by decide +kernel))

/-! ## several receivers in one process (rpdcp) -/

/-- **C12 for the rpdcp receiver threads.**  `os` are the options of the K receivers of the process (in rpdcp
they all have the same destination, the local directory), every one with a name rule; `sched` is ANY interleaving of
the bytes arriving on the K connections and of their ends.  Every path receiver `i` has handed to a successful
modifying system call lies beneath the destination of receiver `i`. -/
theorem confined_many (os : List Opts) (hr : ∀ o ∈ os, o.rule ≠ .none) (fs : FS) (sched : List Event)
    (i : Nat) (o : Opts) (l : Local) (ho : os[i]? = some o)
    (hl : ((Multi.init os fs).run os sched).conns[i]? = some l) :
    Spec.Confined (destPath o) l.touched := by
  intro p hp
  exact (mgood_run os hr sched _ (mgood_init os fs) i o l ho hl).touched p hp

/-- not vacuous: two receivers, the hostile stream `C0600 0 ../v` on the second connection is refused, the
first connection's file arrives -/
example :
    (((Multi.init [wopts .slashDotdot, wopts .slashDotdot] wfs).run [wopts .slashDotdot, wopts .slashDotdot]
        ((wstream2.map fun b => (1, some b)) ++ (wstream3.map fun b => (0, some b)))).conns.map (·.touched))
      = [[[[119], [100], [101]]], []] := by
  decide +kernel

/-! ## symbolic links that already exist inside the destination -/

/-- **The receiver leaves its destination only through symbolic links that are already there.**  `links` are
the symbolic links of the file system (path of the link, canonical path of its target); the receiver -- any
with a name rule -- sees the view `graftAll fs links`.  Whatever the stream, every path handed to a successful
modifying system call is PHYSICALLY beneath the destination or beneath the target of one of the links. -/
theorem escapes_only_through_links (o : Opts) (hrule : o.rule ≠ .none) (fs : FS) (links : List (Path × Path))
    (stream : Str) :
    ∀ p ∈ (sink o (graftAll fs links) stream).2.2,
      destPath o <+: physicalAll links p ∨ ∃ l ∈ links, l.2 <+: physicalAll links p := by
  intro p hp
  exact physicalAll_beneath links (confined o hrule _ stream p hp)

/-- ... and when no link lies beneath the destination (nor on the way to it) every touched path is where it
appears to be: C12 holds as stated by `confined` -/
theorem no_link_beneath_no_escape (o : Opts) (hrule : o.rule ≠ .none) (fs : FS) (links : List (Path × Path))
    (stream : Str) (hno : ∀ l ∈ links, ¬ destPath o <+: l.1 ∧ ¬ l.1 <+: destPath o) :
    ∀ p ∈ (sink o (graftAll fs links) stream).2.2, physicalAll links p = p ∧ destPath o <+: p := by
  intro p hp
  have hd := confined o hrule _ stream p hp
  refine ⟨?_, hd⟩
  unfold physicalAll
  cases hf : links.find? (fun l => l.1.isPrefixOf p) with
  | none => rfl
  | some l =>
    exfalso
    have hm := List.mem_of_find?_eq_some hf
    have hpre : l.1 <+: p := List.isPrefixOf_iff_prefix.1 (by simpa using List.find?_some hf)
    rcases List.prefix_or_prefix_of_prefix hd hpre with h | h
    · exact (hno l hm).1 h
    · exact (hno l hm).2 h

/-- `/w/d` is the destination, `/w/x` a directory next to it -/
def lfs : FS := fun p =>
  if p = [] then some (.dir 0o755 none)
  else if p = [[119]] then some (.dir 0o755 none)
  else if p = [[119], [100]] then some (.dir 0o755 none)
  else if p = [[119], [120]] then some (.dir 0o700 none)
  else none

/-- `D0755 0 l\nC0644 1 e\nX\0E\n` -/
def lstream : Str := [68, 48, 55, 53, 53, 32, 48, 32, 108, 10, 67, 48, 54, 52, 52, 32, 49, 32, 101, 10, 88, 0, 69, 10]

/-- Finding F12-SYMLINK-FOLLOW mirrored: `/w/d/l` is a symbolic link to the directory `/w/x`.  The directory
record `D0755 0 l` -- a perfectly plain name -- makes the receiver enter it (`stat` follows the link), and the
file `e` is created at `/w/x/e`, which is not beneath the destination `/w/d`. -/
theorem symlink_escape_witness :
    (sink (wopts .slashDotdot) (graft lfs [[119], [100], [108]] [[119], [120]]) lstream).2.2
      = [[[119], [100], [108], [101]]] ∧
    physical [[119], [100], [108]] [[119], [120]] [[119], [100], [108], [101]] = [[119], [120], [101]] ∧
    ¬ destPath (wopts .slashDotdot) <+: [[119], [120], [101]] := by
  refine ⟨by decide +kernel, by decide +kernel, ?_⟩
  have e : destPath (wopts .slashDotdot) = [[119], [100]] := by decide +kernel
  rw [e]
  decide

/-! ## buffers, termination -/

/-- **No index leaves its buffer**: the record reader's `buf[BUFSIZ]` (bytes and the terminating
NUL), the joined name in `namebuf[need]`, the data block in `bp->buf[cnt]`; `cnt` is a positive
multiple of `BUFSIZ` (`_allocbuf`: `roundup(st_blksize, BUFSIZ)`, or `BUFSIZ`). -/
theorem reader_in_bounds (o : Opts) (hc : CntOk o) (fs : FS) (stream : Str) : (run o fs stream).ub = false :=
  (inv_run o hc fs stream).1.ub

/-- **... whatever block size the destination's file system reports**: `bp->cnt` is what `_allocbuf` computes from
`st_blksize` (Pcp/Allocbuf.lean `allocSize`: `roundup(st_blksize, BUFSIZ)`, BUFSIZ when that is 0) -- a positive multiple
of BUFSIZ for EVERY `st_blksize` (0, 512, 4096, 9216, 65536, 1 MiB, ...), so `reader_in_bounds` has no hypothesis left
about the environment.  (`max_is_not_enough`: with `max(st_blksize, BUFSIZ)` it would have.) -/
theorem reader_in_bounds_any_blksize (o : Opts) (blk : Nat) (hcnt : o.cnt = allocSize blk BUFSZ) (fs : FS) (stream : Str) :
    (run o fs stream).ub = false ∧ (run o fs stream).phase = .done :=
  ⟨(inv_run o (allocbuf_cntOk o blk hcnt) fs stream).1.ub, (inv_run o (allocbuf_cntOk o blk hcnt) fs stream).2⟩

example : (wopts .none).cnt = allocSize 4096 BUFSZ := by decide

/-- **Every run ends with all levels returned** (`run` is total by construction: one `step` per
input byte, then `finish`). -/
theorem sink_done (o : Opts) (hc : CntOk o) (fs : FS) (stream : Str) :
    (run o fs stream).phase = .done ∧ (run o fs stream).stack = [] := by
  have h := inv_run o hc fs stream
  exact ⟨h.2, h.1.coh.1 h.2⟩

example : CntOk (wopts .none) := ⟨by decide, by decide⟩

/-- the narrow rule keeps what is harmless: the names `.` and the empty name denote the destination
itself (`D0755 0 .` / `D0755 0 ` enter it, as `pdcp -r dir/ DEST` relies on), the scp rule rejects them -/
example :
    (sink (wopts .slashDotdot) wfs [68, 48, 55, 53, 53, 32, 48, 32, 46, 10, 67, 48, 54, 52, 52, 32, 49, 32, 101, 10, 88, 0]).2.2
      = [[[119], [100], [101]]] ∧
    (sink (wopts .slashDotdot) wfs [68, 48, 55, 53, 53, 32, 48, 32, 10, 67, 48, 54, 52, 52, 32, 49, 32, 101, 10, 88, 0]).2.2
      = [[[119], [100], [101]]] ∧
    (sink (wopts .scp) wfs [68, 48, 55, 53, 53, 32, 48, 32, 46, 10]).2.1 = [.ack, .err (.screwup .badName)] := by
  refine ⟨by decide +kernel, by decide +kernel, by decide +kernel⟩

/-! ## malformed and truncated input -/

/-- **A record the parser rejects is answered**: at a record boundary (`pre` has been consumed), a
line `c :: body ++ "\n"` that is neither a peer message nor `E` and does not parse as `T`/`C`/`D`
record makes the receiver send `protocol screwup: <why>`, and that error record is part of the
final reply stream whatever follows. -/
theorem malformed_answered (o : Opts) (hcnt : CntOk o) (fs : FS) (pre rest : Str) (c : UInt8) (body : Str)
    (w : Why)
    (hstart : (pre.foldl (step o) (enter o (St.init fs) o.dest)).phase = .start)
    (hc : c ≠ cNl) (hnl : cNl ∉ body) (hlen : body.length + 2 < BUFSZ - 1)
    (hbad : classify (c :: body ++ [cNl]) cNl = .bad w ∨ classify (c :: body ++ [cNl]) cNl = .timesBad w) :
    Reply.err (.screwup w) ∈ (sink o fs (pre ++ (c :: body ++ [cNl]) ++ rest)).2.1 := by
  have e : ∀ st0 : St, (pre ++ (c :: body ++ [cNl]) ++ rest).foldl (step o) st0 =
      rest.foldl (step o) ((c :: body ++ [cNl]).foldl (step o) (pre.foldl (step o) st0)) := by
    intro st0; rw [List.foldl_append, List.foldl_append]
  simp only [sink, List.mem_reverse, run, e]
  apply (out_final rest).subset
  have hinv := inv_foldl hcnt pre (inv_enter (o := o) (inv_init fs) o.dest)
  rw [foldl_line _ hstart c body hc hnl hlen]
  generalize pre.foldl (step o) (enter o (St.init fs) o.dest) = st1 at hstart hinv ⊢
  have hs : st1.stack ≠ [] := fun e => by
    have := hinv.coh.2 e; rw [hstart] at this; cases this
  unfold handleRecord
  split
  · rename_i hnil; exact absurd hnil hs
  · rcases hbad with hb | hb
    · simp only [hb]; exact mem_out_screwup _
    · simp only [hb]; exact mem_out_screwup _

/-- a rejected line exists at every position: e.g. `X\n` is "expected control record" -/
example : classify ([88] ++ [cNl]) cNl = .bad .expected := by decide +kernel

/-- **Truncated input is answered**: when the stream ends inside a record, inside the data of a
file, or where the response byte after the data is due, the reply stream contains an error record. -/
theorem truncated_answered (o : Opts) (fs : FS) (stream : Str)
    (h : ∀ st, st = stream.foldl (step o) (enter o (St.init fs) o.dest) →
      st.phase ≠ .start ∧ st.phase ≠ .done) :
    ∃ e, Reply.err e ∈ (sink o fs stream).2.1 := by
  simp only [sink, List.mem_reverse, run]
  generalize hst : stream.foldl (step o) (enter o (St.init fs) o.dest) = st
  obtain ⟨h1, h2⟩ := h st hst.symm
  unfold finish
  simp only
  cases hph : st.phase with
  | start => exact absurd hph h1
  | done => exact absurd hph h2
  | line cp buf =>
    exact ⟨_, (out_unwind _).subset (mem_out_screwup .lost)⟩
  | data p np size left amt count fill pr wr =>
    refine ⟨.read, (out_unwind _).subset ?_⟩
    unfold dataEOF
    exact (out_leave_of (List.suffix_refl _)).subset (by simp)
  | resp np d =>
    refine ⟨.respLost, (out_unwind _).subset ?_⟩
    exact (out_leave_of (List.suffix_refl _)).subset (by simp [St.reply])

end PdshVerif.Props.C12
