import PdshVerif.Pcp.Spec

/-! # C12  A copy peer can only write inside the destination it was given -/
namespace PdshVerif.Props.C12
open PdshVerif.Pcp

/-- the file system of the witness: `/w` is the working directory, `/w/dest` the destination -/
def wfs : FS := fun p =>
  if p = [] then some (.dir 0o755 none)
  else if p = [[119]] then some (.dir 0o755 none)
  else if p = [[119], [100]] then some (.dir 0o755 none)
  else none

def wopts (repaired : Bool) : Opts :=
  { preserve := false, targetIsDir := false, umask := 0o22, cnt := 8192, repaired := repaired,
    cwd := [[119]], dest := [100] }

/-- `C0644 1 ../e\nX\0` -/
def wstream : Str := [67, 48, 54, 52, 52, 32, 49, 32, 46, 46, 47, 101, 10, 88, 0]

/-- D13: the unchanged receiver leaves its destination -/
theorem escape_witness :
    (sink (wopts false) wfs wstream).2.2 = [[[119], [101]]] := by decide +kernel

end PdshVerif.Props.C12
