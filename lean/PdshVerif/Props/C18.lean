/-
  C18  Settings obey command line > environment > default; bad values are refused.
  PROPERTY THEOREMS ONLY (helper lemmas live in PdshVerif/Opt/Lemmas.lean).
-/
import PdshVerif.Opt.Settings
import PdshVerif.Opt.Spec

namespace PdshVerif.C18
open PdshVerif PdshVerif.Opt

/-- unchanged code: `-f 0` is accepted with fanout 0 (and dsh() then waits forever) -/
theorem never_hangs_unchanged_false :
    ∃ c, effective Fixes.none ⟨"root".toList, 256, "/p".toList, ["rsh".toList, "exec".toList]⟩ .dsh []
      ["-f".toList, "0".toList, "-w".toList, "h".toList, "cmd".toList] = .ok c ∧ c.fanout = 0 ∧
      runTerminates c = false := by
  refine ⟨_, rfl, ?_, ?_⟩ <;> decide

end PdshVerif.C18
