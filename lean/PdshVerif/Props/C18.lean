/-
  C18  Settings obey command line > environment > default; bad values are refused.
  PROPERTY THEOREMS ONLY (helper lemmas live in PdshVerif/Opt/{Lemmas,Accept,Table,Command}.lean).

  Model: PdshVerif/Opt/Settings.lean (`mainPlan` = main as a whole: opt_default, opt_env, getopt, opt_args_early,
  opt_args incl. the assembly of the remote command / the file list, opt_verify, and main's decision what to start;
  `effective` = the same up to opt_verify; C conversions of Base/CInt.lean).  `lastArg ch toks` = the argument of the
  last occurrence of option `-ch` among getopt's answers for the command line.

  `Fixes.none` = the code as it was at the pinned commit; a theorem that needs a repair names the switch
  (`fx.d4`, `fx.d5`, `fx.atoi`, `fx.dopt`, `fx.wuser`, `fx.early`).  Statements that are FALSE of the unchanged code
  have a kernel-checked counterexample `..._unchanged_false`; what does hold for it is `..._partial`.

  CLAUSE OF THE PROPERTY TEXT                                   THEOREM(S)
  "every run-time setting (fanout, time-outs, remote user,      precedence (all seven, every variant, environment,
   transport, module selection, remote pdcp path) takes the      command line, option order, personality);
   value given on the command line if present, else the one      env_table_precedence / opt_table_precedence (for every
   from its environment variable, else the built-in default"     row of the table DERIVED FROM THE BEHAVIOUR of opt.c);
                                                                 takes_value_given (valid texts: the very number / text)
  "independent of option order and of which other options        independent, lastArg_other_options, spelling_independent
   are present"                                                  (getopt_spelled: every way getopt lets options be
                                                                 written), precedence_misc (module selection: repaired
                                                                 `early`; unchanged: misc_order_dependent_unchanged_false,
                                                                 open finding C18-EARLY-PASS-MODULE-OPTION)
  "a fanout that is not a positive integer, a negative           rejected (repaired d4 d5 atoi), rejected_partial (every
   time-out, an over-long user name, an unknown transport, a     variant), numeric_exact_or_refused (every int row of the
   malformed numeric environment value is rejected"              generated table), wcoll_refused (values given per target
                                                                 in -w words), witnesses rejected_unchanged_false,
                                                                 rejected_witnesses_repaired, wcoll_user_unchanged_false
  "with a diagnostic and a non-zero exit before anything is      refused_nothing_started, refusal_exits_1 (status 1, or 0
   contacted"                                                    only for -L -V -T); that a diagnostic is printed is
                                                                 observed on the real binary (oracle), not modelled;
                                                                 EVERY statement of main.c / opt.c that ends the process
                                                                 before dsh() — incl. "no hosts", module loading, the
                                                                 program name — is enumerated from the source by a generated
                                                                 probe and mapped to a model outcome: C08.every_refusal_exits_1,
                                                                 C08.exit_sites_all_mapped, C08.battery_agrees (Props/C08.lean,
                                                                 Dsh/ExitRefuse.lean; vlib/exitrefuse.py: one real command
                                                                 line per path, diagnostic and trace-file oracle)
  "pdsh never hangs on it"                                      never_hangs, never_hangs_whole (main as a whole, all
                                                                 three personalities), never_hangs_fanout (composed with
                                                                 the fan-out LTS of C03: no deadlock, bounded executions
                                                                 for the accepted fanout), never_hangs_unchanged_false
  valid values are accepted (the converse the text implies)      accepts_valid, takes_value_given
  the switch of opt_args, letter by letter                       switch_table_agrees, switch_table_complete, switch_rows_act,
                                                                 numeric_options_use_table_conv
  the same at the point where a setting takes effect (the user  contacts_order_independent, contact_user_is_setting,
   every target is contacted with; composed with C09's model)    contacts_witness
  ... the connect / command time-out the watchdog enforces        timeouts_in_force (composed with the timed model of C07:
                                                                 connect_deadline, command_deadline, unlimited_never_interrupted
                                                                 for THE numbers the accepted record carries)
  ... the program every target of a copy is asked to run         remote_program_in_force (composed with C11's pdcpCmd / rpdcpCmd),
                                                                 remote_program_witnesses
  pdsh / pdcp / rpdcp option sets (generated option strings)     personality_letters, dsh_remote_path_default,
                                                                 pcp_no_S_no_k, S_k_iff_on_command_line
  the remote command, the prompt loop (main as a whole)          command_is_operands, command_words_verbatim,
                                                                 command_any_spelling, interactive_iff_no_command,
                                                                 started_run_or_loop, main_witnesses

  NOT PROVED / NOT MODELLED (correspondence only, or outside):
    * glibc getopt / strtol / strtoul / atoi are modelled (Settings.lean, Base/CInt.lean), not verified; tied to the
      real functions by the differential runs of checks/c18.py.
    * that a refusal prints a diagnostic naming the offender: observed on the real binary (oracle clause
      `rejected-without-diagnostic`, evidence `refusal_kinds`), no theorem.
    * WCOLL, `^file` / `/regex/` / `-host` words, `-w -` (targets from stdin, `stdin_unavailable`), `-x`, module-supplied
      target lists: they select TARGETS (C02, C10); here they only matter through "no targets" (a refusal).
    * DSHPATH (row of the generated environment table, member dshpath): part of the command C09 sends.
    * -z / -Z / -y (pdcp server / client modes started by pdcp itself): modelled (optVerifyModes, `plan`) and under
      the correspondence, but the theorems about refusals carry the hypothesis pcpServer = pcpClient = false.
    * what a module's option handler does with its argument; only its arity matters here (`Defaults.modOpts`).
    * point of use: the user every target is contacted with is modelled (Opt/Use.lean, composed with C09's registry
      model) and observed on real runs in every option order; the fanout and the command time-out in force are
      OBSERVED where they take effect (overlapping commands, a command cut short) for every source and position — the
      fanout also under RLIMIT_NOFILE 30 / 33 / 35 / 36 / 37 / 40 (below the 2 * fanout + 32 descriptors dsh() would like) —,
      their use inside dsh() is C03/C04's and C07's model (timeouts_in_force imports C07's deadlines); the connect time-out
      is observed through the REAL rsh module against a scripted peer that answers the handshake late or never
      (vlib/optuse.py), the remote pdcp path through tests/test-modules/pcptest.so with wrapper programs that record their
      own name, each for every source (command line / environment / default) and option position; the theorems about
      them are compositions with C07 / C11's definitions, not with a model of xrcmd.c / pcp_server.c.
-/
import PdshVerif.Opt.Settings
import PdshVerif.Opt.Spec
import PdshVerif.Opt.Lemmas
import PdshVerif.Opt.Accept
import PdshVerif.Opt.Table
import PdshVerif.Opt.Command
import PdshVerif.Props.C03
import PdshVerif.Opt.Use
import PdshVerif.Opt.UseTimed
import PdshVerif.Props.C07

namespace PdshVerif.C18
open PdshVerif PdshVerif.Opt


/-! ## what the tokens are -/

/-- for every structured command line (a list of options, each with its argument if it takes one, all known
    to the option string) written one word per option and argument and closed by `--`, getopt's answers are
    exactly these options in command-line order, and the operands are what follows: `lastArg ch` below therefore
    is "the argument of the last `-ch` on the command line" -/
theorem getopt_render (os : Str) (opts : List OptW) (operands : List Str) (hwf : ∀ o ∈ opts, o.wf os) :
    getopt os (render opts operands) = (opts.map OptW.tok, operands) := by
  unfold getopt render
  induction opts with
  | nil => simp [getoptGo]
  | cons o rest ih =>
    have ho := hwf o (by simp)
    have ih' := ih (fun x hx => hwf x (by simp [hx]))
    obtain ⟨ch, arg⟩ := o
    obtain ⟨hk, hne⟩ := ho
    simp only at hk hne
    cases arg with
    | none =>
      have h1 : (['-', ch] : Str) ≠ ['-', '-'] := by simp [hne]
      simp only [List.flatMap_cons, OptW.words, List.cons_append, List.nil_append, getoptGo, h1, if_false,
        cluster, hk, Option.isSome_none, ih', List.map_cons, OptW.tok]
    | some a =>
      have h1 : (['-', ch] : Str) ≠ ['-', '-'] := by simp [hne]
      simp only [List.flatMap_cons, OptW.words, List.cons_append, List.nil_append, getoptGo, h1, if_false,
        cluster, hk, Option.isSome_some, List.head?_cons, List.map_cons, OptW.tok, ne_eq, not_true_eq_false]
      rw [ih']

/-- THE SCAN ITSELF: every way getopt(3) lets a sequence of options be written — each option a word of its own,
    its argument detached or attached, flags clustered in front of the next option word, the options ended by
    `--`, by the first word that is not option-like, or by the end of the command line — yields exactly that
    sequence of options, in order, and the operands that follow -/
theorem getopt_spelled (os : Str) {opts : List OptW} {ops ws : List Str} (h : Spelled os opts ops ws) :
    getopt os ws = (opts.map OptW.tok, ops) := by
  unfold getopt
  induction h with
  | dashdash ops => simp [getoptGo]
  | empty => simp [getoptGo]
  | stop a rest h =>
    have h1 : a ≠ ['-', '-'] := h '-' []
    rw [getoptGo]
    · simp only [h1, if_false]
      first | rfl | simp
    · intro c cs e; exact h c cs e
  | @flag ch opts ops ws hk hne _ ih =>
    have h1 : (['-', ch] : Str) ≠ ['-', '-'] := by simp [hne]
    simp only [getoptGo, h1, if_false, cluster, hk, ih, List.map_cons, OptW.tok]
    rfl
  | @sep ch a opts ops ws hk hne _ ih =>
    have h1 : (['-', ch] : Str) ≠ ['-', '-'] := by simp [hne]
    simp only [getoptGo, h1, if_false, cluster, hk, List.head?_cons, List.map_cons, OptW.tok, ne_eq,
      not_true_eq_false]
    rw [ih]
    rfl
  | @att ch a opts ops ws hk hne ha _ ih =>
    have h1 : ('-' :: ch :: a : Str) ≠ ['-', '-'] := by simp [hne]
    simp only [getoptGo, h1, if_false, cluster, hk, ha, ne_eq, not_false_eq_true, if_true, ih, List.map_cons,
      OptW.tok]
    simp
  | @glue f w opts ops ws hk hne hw hw' _ ih =>
    obtain ⟨c, cs, rfl⟩ := List.exists_cons_of_ne_nil hw
    have h1 : ('-' :: f :: c :: cs : Str) ≠ ['-', '-'] := by simp [hne]
    have h2 : ('-' :: c :: cs : Str) ≠ ['-', '-'] := by
      intro e; apply hw'; simpa using e
    rw [getoptGo] at ih
    simp only [h2, if_false] at ih
    rw [getoptGo]
    simp only [h1, if_false]
    have hc : cluster os (f :: c :: cs) ws.head? =
        (Tok.opt f none :: (cluster os (c :: cs) ws.head?).1, (cluster os (c :: cs) ws.head?).2) := by
      simp [cluster, hk]
    simp only [hc, List.cons_append, List.map_cons, OptW.tok]
    have ih1 := congrArg Prod.fst ih
    have ih2 := congrArg Prod.snd ih
    simp only at ih1 ih2
    rw [ih1, ih2]


/-- ... hence the SPELLING does not matter: two command lines that spell the same option sequence and operands
    give the same result (accepted with the same settings, or refused alike), in every environment.
    (`hearly`: the early pass scans with the same option string — repaired, or no module registers options.) -/
theorem spelling_independent (fx : Fixes) (d : Defaults) (p : Pers) (env : Env) {opts : List OptW}
    {ops ws ws' : List Str} (hearly : fx.early = true ∨ d.modOpts = [])
    (h : Spelled (fullString d p) opts ops ws) (h' : Spelled (fullString d p) opts ops ws') :
    effective fx d p env ws = effective fx d p env ws' := by
  have hes : earlyString fx d p = fullString d p := by
    unfold earlyString fullString
    rcases hearly with he | he <;> simp [he]
  unfold effective
  rw [hes, getopt_spelled _ h, getopt_spelled _ h']

example : Spelled (optstring .dsh) [⟨'N', none⟩, ⟨'b', none⟩, ⟨'f', some "3".toList⟩, ⟨'w', some "h".toList⟩]
    ["cmd".toList] (["-Nbf3", "-w", "h", "cmd"].map String.toList) :=
  .glue (by decide) (by decide) (by decide) (by decide)
    (.glue (by decide) (by decide) (by decide) (by decide)
      (.att (by decide) (by decide) (by decide) (.sep (by decide) (by decide) (.stop _ _ (by intro c cs e; simp at e)))))

/-! ## precedence -/

/-- PRECEDENCE (every variant of the code, every environment, every command line, every option order):
    in an accepted run each setting is the conversion of the text given by the last occurrence of its
    option if there is one, else of its environment variable if set, else the built-in default. -/
theorem precedence {fx : Fixes} {d : Defaults} {p : Pers} {env : Env} {argv : List Str} {c : Cfg}
    (h : effective fx d p env argv = .ok c) :
    c.fanout = pick ((lastArg 'f' (getopt (fullString d p) argv).1).map (convS fx))
                    ((getenv env "FANOUT").map (convS fx)) DFLT_FANOUT ∧
    c.connectTimeout = pick ((lastArg 't' (getopt (fullString d p) argv).1).map (convT fx))
                    ((getenv env "PDSH_CONNECT_TIMEOUT").map (convS fx)) CONNECT_TIMEOUT ∧
    c.commandTimeout = pick ((lastArg 'u' (getopt (fullString d p) argv).1).map (convT fx))
                    ((getenv env "PDSH_COMMAND_TIMEOUT").map (convS fx)) 0 ∧
    c.ruser = pick (lastArg 'l' (getopt (fullString d p) argv).1) none d.luser ∧
    c.rcmdName = (lastArg 'R' (getopt (fullString d p) argv).1 <|> getenv env "PDSH_RCMD_TYPE" <|> defaultRcmd d) ∧
    c.miscModules = (lastArg 'M' (getopt (earlyString fx d p) argv).1 <|> getenv env "PDSH_MISC_MODULES") ∧
    c.remotePath = pick (lastArg 'e' (getopt (fullString d p) argv).1)
                    (if p.isPcp then getenv env "PDSH_REMOTE_PDCP_PATH" else none) d.progPath := by
  obtain ⟨c1, c3, he, ha, hp, _⟩ := effective_ok_inv h
  obtain ⟨f, ct, ut, hf, hct, hut, hc1⟩ := optEnv_ok he
  obtain ⟨hc, _⟩ := postArgs_ok hp
  obtain ⟨toks, htoks⟩ : ∃ toks, toks = (getopt (fullString d p) argv).1 := ⟨_, rfl⟩
  obtain ⟨etoks, hetoks⟩ : ∃ etoks, etoks = (getopt (earlyString fx d p) argv).1 := ⟨_, rfl⟩
  rw [← htoks, ← hetoks] at ha ⊢
  have e2 := optArgsEarly_other c1 etoks
  have em := optArgsEarly_misc c1 etoks
  have k1 := applyToks_field fx d p (·.fanout) _ (fun c t c1 => step_fanout fx d p c c1 t) toks _ _ ha
  have k2 := applyToks_field fx d p (·.connectTimeout) _ (fun c t c1 => step_ctmo fx d p c c1 t) toks _ _ ha
  have k3 := applyToks_field fx d p (·.commandTimeout) _ (fun c t c1 => step_utmo fx d p c c1 t) toks _ _ ha
  have k4 := applyToks_field fx d p (·.ruser) _ (fun c t c1 => step_ruser fx d p c c1 t) toks _ _ ha
  have k5 := applyToks_field fx d p (·.rcmdName) _ (fun c t c1 => step_rcmd fx d p c c1 t) toks _ _ ha
  have k6 := applyToks_field fx d p (·.miscModules) _ (fun c t c1 => step_misc fx d p c c1 t) toks _ _ ha
  have k7 := applyToks_field fx d p (·.remotePath) _ (fun c t c1 => step_path fx d p c c1 t) toks _ _ ha
  simp only [lastSome_argOf] at k1 k2 k3 k4 k5 k7
  have k6' : c3.miscModules = (optArgsEarly c1 etoks).miscModules := by
    rw [k6, lastSome_none]; rfl
  have v1 := (envNum_ok hf).1
  have v2 := (envNum_ok hct).1
  have v3 := (envNum_ok hut).1
  rw [e2] at k1 k2 k3 k4 k5 k7
  subst hc hc1
  simp only [] at k1 k2 k3 k4 k5 k7 k6' em ⊢
  refine ⟨?_, ?_, ?_, ?_, ?_, ?_, ?_⟩
  · rw [k1, v1]
    cases lastArg 'f' toks <;> cases getenv env "FANOUT" <;> simp [pick, convS, convEnv, optDefault]
  · rw [k2, v2]
    cases lastArg 't' toks <;> cases getenv env "PDSH_CONNECT_TIMEOUT" <;> simp [pick, convS, convT, convEnv, optDefault]
  · rw [k3, v3]
    cases lastArg 'u' toks <;> cases getenv env "PDSH_COMMAND_TIMEOUT" <;> simp [pick, convS, convT, convEnv, optDefault]
  · rw [k4]
    cases lastArg 'l' toks <;> simp [pick, optDefault]
  · rw [k5]
    cases lastArg 'R' toks <;> cases getenv env "PDSH_RCMD_TYPE" <;> simp [optDefault]
  · rw [k6', em]
    cases lastArg 'M' etoks <;> cases getenv env "PDSH_MISC_MODULES" <;> simp [optDefault]
  · rw [k7]
    cases lastArg 'e' toks <;> cases p <;> cases getenv env "PDSH_REMOTE_PDCP_PATH" <;> simp [pick, optDefault, Pers.isPcp]


/-! ## the settings table generated from opt.c -/

theorem letterOf_fanout : letterOf "fanout" = 'f' := by decide
theorem letterOf_ctmo : letterOf "connect_timeout" = 't' := by decide
theorem letterOf_utmo : letterOf "command_timeout" = 'u' := by decide
theorem letterOf_rcmd : letterOf "rcmd_name" = 'R' := by decide
theorem letterOf_misc : letterOf "misc_modules" = 'M' := by decide
theorem letterOf_path : letterOf "remote_program_path" = 'e' := by decide

/-- what the generated ENVIRONMENT table may contain: the rows the model covers (variable, member and behaviour
    class must all fit), in any order and any number -/
def EnvRowKnown (r : String × String × String) : Bool :=
  (r.2.1 = "fanout" && r.1 = "FANOUT" && r.2.2 = "string_to_int") ||
  (r.2.1 = "connect_timeout" && r.1 = "PDSH_CONNECT_TIMEOUT" && r.2.2 = "string_to_int") ||
  (r.2.1 = "command_timeout" && r.1 = "PDSH_COMMAND_TIMEOUT" && r.2.2 = "string_to_int") ||
  (r.2.1 = "rcmd_name" && r.1 = "PDSH_RCMD_TYPE" && r.2.2 = "strdup") ||
  (r.2.1 = "misc_modules" && r.1 = "PDSH_MISC_MODULES" && r.2.2 = "strdup") ||
  (r.2.1 = "remote_program_path" && r.1 = "PDSH_REMOTE_PDCP_PATH" && r.2.2 = "strdup") ||
  r.2.1 = "dshpath"

/-- SETTINGS TABLE, environment side: for EVERY row (variable, opt_t member, behaviour class) that harness/consts/
    optable.c derives from the BEHAVIOUR of opt_env() of the tree under test (getenv interposed: every name asked for
    is set to a sentinel, the members that change give the rows) — not a typed list, not a reading of the source
    text — an accepted configuration obeys command line > that variable > default, the option letter being the one
    the generated switch table gives for the member and the environment conversion the one named in the row.
    A variable added to opt_env changes the generated table and this theorem stops checking until the model covers
    it; a refactoring that keeps the behaviour leaves the table, and this proof, untouched (the proof does not
    depend on the order or number of rows). -/
theorem env_table_precedence {fx : Fixes} {d : Defaults} {p : Pers} {env : Env} {argv : List Str} {c : Cfg}
    (h : effective fx d p env argv = .ok c) : ∀ r ∈ Gen.OT_ENVS, EnvRowHolds fx d p env argv c r := by
  obtain ⟨a1, a2, a3, _, a5, a6, a7⟩ := precedence h
  have cs : ∀ t, (convByName fx "string_to_int" t).getD 0 = convS fx t := fun t => by simp [convByName, convS]
  have known : ∀ r ∈ Gen.OT_ENVS, EnvRowKnown r = true := by decide
  intro r hr
  have hk := known r hr
  obtain ⟨v, f, cv⟩ := r
  simp only [EnvRowKnown, Bool.or_eq_true, Bool.and_eq_true, decide_eq_true_eq] at hk
  rcases hk with (((((⟨⟨rfl, rfl⟩, rfl⟩ | ⟨⟨rfl, rfl⟩, rfl⟩) | ⟨⟨rfl, rfl⟩, rfl⟩) | ⟨⟨rfl, rfl⟩, rfl⟩) | ⟨⟨rfl, rfl⟩, rfl⟩) |
    ⟨⟨rfl, rfl⟩, rfl⟩) | rfl
  · simp only [EnvRowHolds, if_true, letterOf_fanout, cs]; exact a1
  · simp only [EnvRowHolds, letterOf_ctmo, cs]; simpa using a2
  · simp only [EnvRowHolds, letterOf_utmo, cs]; simpa using a3
  · simp only [EnvRowHolds, letterOf_rcmd]; simpa using a5
  · simp only [EnvRowHolds, letterOf_misc]; simpa using a6
  · simp only [EnvRowHolds, letterOf_path]; simpa using a7
  · simp [EnvRowHolds]

/-- SETTINGS TABLE, option side: every `case` of the generated switch table of opt_args is accounted for — the
    remote user (no variable) obeys command line > default; the fields with a variable are the rows above; what
    remains sets a flag or touches no field. -/
theorem opt_table_precedence {fx : Fixes} {d : Defaults} {p : Pers} {env : Env} {argv : List Str} {c : Cfg}
    (h : effective fx d p env argv = .ok c) : ∀ r ∈ Gen.OT_OPTS, OptRowHolds d p argv c r := by
  obtain ⟨_, _, _, a4, _, _, _⟩ := precedence h
  intro r hr
  by_cases hru : r.2.1 = "ruser"
  · have : r.1.toList.headD ' ' = 'l' := by
      revert hru; revert r
      decide
    simp only [OptRowHolds, hru, if_true, this]
    exact a4
  · have : (Gen.OT_ENVS.any (fun e => e.2.1 = r.2.1)) = true ∨
        (r.2.2 = "flag" ∨ r.2.2 = "none" ∨ r.2.2 = "exit0" ∨ r.2.2 = "exit1") ∨ r.2.1 = "wcoll" := by
      revert hru; revert r
      decide
    simp only [OptRowHolds, hru, if_false]
    by_cases h1 : (Gen.OT_ENVS.any (fun e => e.2.1 = r.2.1)) = true
    · simp [h1]
    · rcases this with h0 | h2 | h3
      · exact absurd h0 h1
      · simp [h1, h2]
      · by_cases h2 : (r.2.2 = "flag" ∨ r.2.2 = "none" ∨ r.2.2 = "exit0" ∨ r.2.2 = "exit1")
        · simp [h1, h2]
        · simp [h1, h2, h3]

/-- THE SWITCH, letter by letter: every row (letter, opt_t member, behaviour class) that the probe derives from the
    BEHAVIOUR of opt_args of the tree under test is the `case` the model's switch has for that letter — the letters
    that end the program (exit 0: -L -V -T; exit 1: -h and the letters of the option string nobody handles), the
    flags with the member they set, the numeric settings with their member, the texts kept verbatim, the bounded
    text (-l), the target list.  A new letter, a letter that starts to set another member, or a changed conversion
    (atoi for string_to_int) changes the table and this theorem stops checking. -/
theorem switch_table_agrees : ∀ r ∈ Gen.OT_OPTS, SwitchRowAgrees r = true := by decide

/-- ... and every letter of the three generated option strings has a row: no `case` of the real switch is missing
    from the table the theorems range over -/
theorem switch_table_complete :
    ∀ ch ∈ (Gen.OT_GEN_ARGS ++ Gen.OT_DSH_ARGS ++ Gen.OT_PCP_ARGS).toList, ch = ':' ∨
      Gen.OT_OPTS.any (fun r => r.1.toList.headD ' ' = ch) = true := by decide

/-- what `switch_table_agrees` means for the model's ACTION, class by class (every variant of the code, every module
    option text, every argument) -/
theorem switch_rows_act (fx : Fixes) (d : Defaults) (arg : Option Str) : ∀ r ∈ Gen.OT_OPTS,
    let ch := r.1.toList.headD ' '
    (r.2.2 = "exit0" → action fx d (.opt ch arg) = .exit 0) ∧
    (r.2.2 = "exit1" → modOpt d ch = false → fx.dopt = false → action fx d (.opt ch arg) = .exit 1) ∧
    (r.2.2 = "none" → fx.dopt = true → action fx d (.opt ch arg) = .keep) ∧
    (r.2.2 = "bounded_text" → action fx d (.opt ch arg) =
      if (arg.getD []).length > d.loginMax then .exit 1 else .ruser (arg.getD [])) := by
  intro r hr
  have hk := switch_table_agrees r hr
  obtain ⟨l, f, cv⟩ := r
  simp only [List.headD_eq_head?_getD]
  refine ⟨?_, ?_, ?_, ?_⟩
  · intro h; subst h
    simp [SwitchRowAgrees, caseOfRow] at hk
    simp [action, hk]
  · intro h hm hd; subst h
    simp [SwitchRowAgrees, caseOfRow] at hk
    rcases hk with hk | hk <;> simp [action, hk, hm, hd]
  · intro h hd; subst h
    simp [SwitchRowAgrees, caseOfRow] at hk
    rcases hk with hk | hk <;> simp [action, hk, hd]
  · intro h; subst h
    simp only [SwitchRowAgrees, caseOfRow] at hk
    by_cases hf : f = "ruser"
    · simp [hf] at hk
      simp [action, hk]
    · simp [hf] at hk

/-- NUMERIC SETTINGS, one theorem over the generated tables: every row of the option and environment tables whose
    opt_t field is an `int` (OT_INT_FIELDS, read off opt.h) converts with string_to_int — no atoi is left — and that
    conversion (repaired D5) either refuses a text or yields exactly the integer the text denotes, within int
    range: no truncation, wrap or clamp for ANY numeric option or variable. -/
theorem numeric_exact_or_refused (fx : Fixes) (hd5 : fx.d5 = true) :
    ∀ r ∈ Gen.OT_OPTS ++ Gen.OT_ENVS, r.2.1 ∈ Gen.OT_INT_FIELDS →
      r.2.2 = "string_to_int" ∧
      ∀ s v, convByName fx r.2.2 s = some v → CInt.denotes s = some v ∧ CInt.INT_MIN ≤ v ∧ v ≤ CInt.INT_MAX := by
  intro r hr hf
  have hc : r.2.2 = "string_to_int" := by
    revert hf; revert r
    decide
  refine ⟨hc, ?_⟩
  intro s v hv
  rw [hc] at hv
  simp only [convByName, if_true] at hv
  exact stringToInt_denotes fx hd5 s v hv

/-- ... and the model's switch applies exactly that conversion to the argument of each of these options
    (`atoi` repaired, as the generated table says of the code) -/
theorem numeric_options_use_table_conv (fx : Fixes) (hat : fx.atoi = true) (d : Defaults) (arg : Option Str) :
    action fx d (.opt (letterOf "fanout") arg) = (convByName fx "string_to_int" (arg.getD [])).elim (.exit 1) .fanout ∧
    action fx d (.opt (letterOf "connect_timeout") arg) = (convByName fx "string_to_int" (arg.getD [])).elim (.exit 1) .ctmo ∧
    action fx d (.opt (letterOf "command_timeout") arg) = (convByName fx "string_to_int" (arg.getD [])).elim (.exit 1) .utmo := by
  rw [letterOf_fanout, letterOf_ctmo, letterOf_utmo, action_f, action_t, action_u]
  simp [convByName, timeoutArg, hat]

/-! ## independence -/

/-- `lastArg ch` sees only the `-ch` tokens: inserting, deleting or permuting *other* options leaves it alone -/
theorem lastArg_other_options (ch : Char) (toks toks' : List Tok)
    (hsame : toks.filter (isOpt ch) = toks'.filter (isOpt ch)) : lastArg ch toks = lastArg ch toks' := by
  rw [lastArg_filter ch toks, lastArg_filter ch toks', hsame]

/-- INDEPENDENCE: two accepted runs (any environments, command lines, option orders, other options, even
    different personalities) whose command lines contain the same `-f` occurrences and whose environments agree
    on FANOUT have the same fanout; likewise for every other setting. -/
theorem independent {fx : Fixes} {d d' : Defaults} {p p' : Pers} {env env' : Env} {argv argv' : List Str}
    {c c' : Cfg} (h : effective fx d p env argv = .ok c) (h' : effective fx d' p' env' argv' = .ok c') :
    (((getopt (fullString d p) argv).1.filter (isOpt 'f') = (getopt (fullString d' p') argv').1.filter (isOpt 'f') →
      getenv env "FANOUT" = getenv env' "FANOUT" → c.fanout = c'.fanout) ∧
     ((getopt (fullString d p) argv).1.filter (isOpt 't') = (getopt (fullString d' p') argv').1.filter (isOpt 't') →
      getenv env "PDSH_CONNECT_TIMEOUT" = getenv env' "PDSH_CONNECT_TIMEOUT" → c.connectTimeout = c'.connectTimeout) ∧
     ((getopt (fullString d p) argv).1.filter (isOpt 'u') = (getopt (fullString d' p') argv').1.filter (isOpt 'u') →
      getenv env "PDSH_COMMAND_TIMEOUT" = getenv env' "PDSH_COMMAND_TIMEOUT" → c.commandTimeout = c'.commandTimeout) ∧
     ((getopt (fullString d p) argv).1.filter (isOpt 'l') = (getopt (fullString d' p') argv').1.filter (isOpt 'l') →
      d.luser = d'.luser → c.ruser = c'.ruser) ∧
     ((getopt (fullString d p) argv).1.filter (isOpt 'R') = (getopt (fullString d' p') argv').1.filter (isOpt 'R') →
      getenv env "PDSH_RCMD_TYPE" = getenv env' "PDSH_RCMD_TYPE" → defaultRcmd d = defaultRcmd d' →
      c.rcmdName = c'.rcmdName) ∧
     ((getopt (earlyString fx d p) argv).1.filter (isOpt 'M') = (getopt (earlyString fx d' p') argv').1.filter (isOpt 'M') →
      getenv env "PDSH_MISC_MODULES" = getenv env' "PDSH_MISC_MODULES" → c.miscModules = c'.miscModules) ∧
     ((getopt (fullString d p) argv).1.filter (isOpt 'e') = (getopt (fullString d' p') argv').1.filter (isOpt 'e') →
      getenv env "PDSH_REMOTE_PDCP_PATH" = getenv env' "PDSH_REMOTE_PDCP_PATH" → p.isPcp = p'.isPcp →
      d.progPath = d'.progPath → c.remotePath = c'.remotePath)) := by
  obtain ⟨a1, a2, a3, a4, a5, a6, a7⟩ := precedence h
  obtain ⟨b1, b2, b3, b4, b5, b6, b7⟩ := precedence h'
  refine ⟨?_, ?_, ?_, ?_, ?_, ?_, ?_⟩
  · intro ht he; rw [a1, b1, lastArg_other_options _ _ _ ht, he]
  · intro ht he; rw [a2, b2, lastArg_other_options _ _ _ ht, he]
  · intro ht he; rw [a3, b3, lastArg_other_options _ _ _ ht, he]
  · intro ht hd; rw [a4, b4, lastArg_other_options _ _ _ ht, hd]
  · intro ht he hd; rw [a5, b5, lastArg_other_options _ _ _ ht, he, hd]
  · intro ht he; rw [a6, b6, lastArg_other_options _ _ _ ht, he]
  · intro ht he hp hd; rw [a7, b7, lastArg_other_options _ _ _ ht, he, hp, hd]

/-! ## bad values are refused -/

/-- the text that is in force for a setting: command line, else environment -/
def chosenText (toks : List Tok) (env : Env) (ch : Char) (var : String) : Option Str :=
  lastArg ch toks <|> getenv env var

/-- what holds for EVERY variant, also the unchanged code: an accepted run (not in pdcp server/client mode) has
    non-negative time-outs (as the int they were truncated to), a remote user name within the limit and an
    existing transport -/
theorem rejected_partial {fx : Fixes} {d : Defaults} {p : Pers} {env : Env} {argv : List Str} {c : Cfg}
    (h : effective fx d p env argv = .ok c) (hl : d.luser.length ≤ d.loginMax)
    (hplain : c.pcpServer = false ∧ c.pcpClient = false) :
    c.connectTimeout ≥ 0 ∧ c.commandTimeout ≥ 0 ∧ c.ruser.length ≤ d.loginMax ∧
    (∀ n, c.rcmdName = some n → n ∈ d.rcmdModules) := by
  obtain ⟨c1, c3, he, ha, hp, hv⟩ := effective_ok_inv h
  obtain ⟨_, hr⟩ := postArgs_ok hp
  obtain ⟨_, _, _, a4, _, _, _⟩ := precedence h
  rw [optVerify_plain _ _ _ _ _ hplain.1 hplain.2] at hv
  unfold optVerifyPlain at hv
  simp only [hplain.1, hplain.2, Bool.not_false, Bool.and_self, Bool.not_true, Bool.false_or,
    Bool.and_eq_true, decide_eq_true_eq] at hv
  refine ⟨hv.1.2.1.1.2, hv.1.2.1.2, ?_, hr⟩
  rw [a4]
  cases hla : lastArg 'l' (getopt (fullString d p) argv).1 with
  | none => simpa [pick] using hl
  | some a =>
    obtain ⟨arg, hm, hg⟩ := lastArg_mem hla
    have hne := applyToks_no_exit ha _ hm 1
    rw [action_l, hg] at hne
    simp only [pick]
    simp
    by_cases hlen : a.length > d.loginMax
    · simp [hlen] at hne
    · simpa using hlen

/-- BAD VALUES ARE REFUSED (repaired variant D4 + D5 + ATOI): in an accepted run the fanout is what the text
    in force denotes and is >= 1, each time-out is what its text denotes and is >= 0 — so a text that is empty,
    not a number, out of int range, zero or negative (fanout), negative (time-out) is never accepted — the user
    name is within the limit and the transport exists. -/
theorem rejected {fx : Fixes} {d : Defaults} {p : Pers} {env : Env} {argv : List Str} {c : Cfg}
    (hd4 : fx.d4 = true) (hd5 : fx.d5 = true) (hat : fx.atoi = true)
    (h : effective fx d p env argv = .ok c) (hl : d.luser.length ≤ d.loginMax)
    (hplain : c.pcpServer = false ∧ c.pcpClient = false) :
    c.fanout ≥ 1 ∧
    (∀ t, chosenText (getopt (fullString d p) argv).1 env 'f' "FANOUT" = some t → CInt.denotes t = some c.fanout) ∧
    c.connectTimeout ≥ 0 ∧
    (∀ t, chosenText (getopt (fullString d p) argv).1 env 't' "PDSH_CONNECT_TIMEOUT" = some t →
      CInt.denotes t = some c.connectTimeout) ∧
    c.commandTimeout ≥ 0 ∧
    (∀ t, chosenText (getopt (fullString d p) argv).1 env 'u' "PDSH_COMMAND_TIMEOUT" = some t →
      CInt.denotes t = some c.commandTimeout) ∧
    c.ruser.length ≤ d.loginMax ∧ (∀ n, c.rcmdName = some n → n ∈ d.rcmdModules) := by
  obtain ⟨p1, p2, p3, p4⟩ := rejected_partial h hl hplain
  obtain ⟨c1, c3, he, ha, hp, hv⟩ := effective_ok_inv h
  obtain ⟨f, ct, ut, hf, hct, hut, _⟩ := optEnv_ok he
  obtain ⟨a1, a2, a3, _, _, _, _⟩ := precedence h
  rw [optVerify_plain _ _ _ _ _ hplain.1 hplain.2] at hv
  unfold optVerifyPlain at hv
  simp only [hplain.1, hplain.2, hd4, Bool.not_false, Bool.and_self, Bool.not_true, Bool.false_or,
    Bool.and_eq_true, decide_eq_true_eq] at hv
  have cmdOk : ∀ ch a, lastArg ch (getopt (fullString d p) argv).1 = some a →
      ∃ arg, action fx d (.opt ch arg) ≠ .exit 1 ∧ arg.getD [] = a := by
    intro ch a hla
    obtain ⟨arg, hm, hg⟩ := lastArg_mem hla
    exact ⟨arg, applyToks_no_exit ha _ hm 1, hg⟩
  refine ⟨hv.1.2.2, ?_, p1, ?_, p2, ?_, p3, p4⟩
  · intro t ht
    unfold chosenText at ht
    rw [a1]
    cases hla : lastArg 'f' (getopt (fullString d p) argv).1 with
    | some a =>
      simp [hla] at ht
      subst ht
      obtain ⟨arg, hne, hg⟩ := cmdOk 'f' a hla
      rw [action_f, hg] at hne
      cases hs : stringToInt fx a with
      | none => simp [hs, Option.elim] at hne
      | some v => simp [pick, convS, hs, (stringToInt_denotes fx hd5 a v hs).1]
    | none =>
      simp [hla] at ht
      have := (envNum_ok hf).2 t ht
      simp [pick, ht, convS, this, (stringToInt_denotes fx hd5 t f this).1]
  · intro t ht
    unfold chosenText at ht
    rw [a2]
    cases hla : lastArg 't' (getopt (fullString d p) argv).1 with
    | some a =>
      simp [hla] at ht
      subst ht
      obtain ⟨arg, hne, hg⟩ := cmdOk 't' a hla
      rw [action_t, hg] at hne
      cases hs : timeoutArg fx a with
      | none => simp [hs, Option.elim] at hne
      | some v =>
        have hs' : stringToInt fx a = some v := by simpa [timeoutArg, hat] using hs
        simp [pick, convT, hs, (stringToInt_denotes fx hd5 a v hs').1]
    | none =>
      simp [hla] at ht
      have := (envNum_ok hct).2 t ht
      simp [pick, ht, convS, this, (stringToInt_denotes fx hd5 t ct this).1]
  · intro t ht
    unfold chosenText at ht
    rw [a3]
    cases hla : lastArg 'u' (getopt (fullString d p) argv).1 with
    | some a =>
      simp [hla] at ht
      subst ht
      obtain ⟨arg, hne, hg⟩ := cmdOk 'u' a hla
      rw [action_u, hg] at hne
      cases hs : timeoutArg fx a with
      | none => simp [hs, Option.elim] at hne
      | some v =>
        have hs' : stringToInt fx a = some v := by simpa [timeoutArg, hat] using hs
        simp [pick, convT, hs, (stringToInt_denotes fx hd5 a v hs').1]
    | none =>
      simp [hla] at ht
      have := (envNum_ok hut).2 t ht
      simp [pick, ht, convS, this, (stringToInt_denotes fx hd5 t ut this).1]

/-- NEVER HANGS (repaired D4): an accepted configuration has fanout >= 1, so the dispatcher's
    `fanout == threadcount` wait is never entered with nobody to signal it (C03's `f >= 1`) -/
theorem never_hangs {fx : Fixes} {d : Defaults} {p : Pers} {env : Env} {argv : List Str} {c : Cfg}
    (hd4 : fx.d4 = true) (h : effective fx d p env argv = .ok c)
    (hplain : c.pcpServer = false ∧ c.pcpClient = false) : c.fanout ≥ 1 ∧ runTerminates c = true := by
  obtain ⟨_, _, _, _, _, hv⟩ := effective_ok_inv h
  rw [optVerify_plain _ _ _ _ _ hplain.1 hplain.2] at hv
  unfold optVerifyPlain at hv
  simp only [hplain.1, hplain.2, hd4, Bool.not_false, Bool.and_self, Bool.not_true, Bool.false_or,
    Bool.and_eq_true, decide_eq_true_eq] at hv
  have : c.fanout ≥ 1 := hv.1.2.2
  refine ⟨this, ?_⟩
  simp [runTerminates]
  omega


/-! ## valid settings are accepted and take effect -/

/-- every numeric variable the environment sets is in canonical valid form -/
def envValid (env : Env) : Prop :=
  (∀ t, getenv env "FANOUT" = some t → validNum 1 t) ∧
  (∀ t, getenv env "PDSH_CONNECT_TIMEOUT" = some t → validNum 0 t) ∧
  (∀ t, getenv env "PDSH_COMMAND_TIMEOUT" = some t → validNum 0 t)

/-- the transport in force: command line, else environment, else the first loaded module of the ranking -/
def rcmdInForce (d : Defaults) (env : Env) (toks : List Tok) : Option Str :=
  lastArg 'R' toks <|> getenv env "PDSH_RCMD_TYPE" <|> defaultRcmd d

/-- the connect time-out in force -/
def ctmoInForce (fx : Fixes) (env : Env) (toks : List Tok) : Int :=
  pick ((lastArg 't' toks).map (convT fx)) ((getenv env "PDSH_CONNECT_TIMEOUT").map (convS fx)) CONNECT_TIMEOUT

/-- ACCEPTS VALID (every variant of the code, unchanged or repaired): a command line whose options are all known
    (`wf`), each given in valid form (`goodOpt`: fanout a plain decimal in 1..INT_MAX, time-outs plain decimals in
    0..INT_MAX, user name within the limit, no option that ends the program or switches to another mode), with a
    target list, an environment whose numeric variables are valid, a transport in force that is loaded, not the
    documented exec / connect-time-out conflict, and (pdcp) at least two operands, is ACCEPTED. -/
theorem accepts_valid (fx : Fixes) (d : Defaults) (p : Pers) (env : Env) (opts : List OptW) (operands : List Str)
    (hwf : ∀ o ∈ opts, o.wf (fullString d p)) (hgood : ∀ o ∈ opts, goodOpt fx d o) (henv : envValid env)
    (hw : ∃ o ∈ opts, o.ch = 'w')
    (hrcmd : ∃ n, rcmdInForce d env (opts.map OptW.tok) = some n ∧ n ∈ d.rcmdModules)
    (hexec : execLoaded d = true → rcmdInForce d env (opts.map OptW.tok) = some "exec".toList →
      ctmoInForce fx env (opts.map OptW.tok) = CONNECT_TIMEOUT)
    (hops : p.isPcp = true → operands.length ≥ 2) :
    ∃ c, effective fx d p env (render opts operands) = .ok c := by
  have hg := getopt_render (fullString d p) opts operands hwf
  obtain ⟨toks, htoks⟩ : ∃ toks, toks = opts.map OptW.tok := ⟨_, rfl⟩
  rw [← htoks] at hg hrcmd hexec
  obtain ⟨hef, hect, heut⟩ := henv
  -- opt_env
  obtain ⟨c1, he⟩ : ∃ c1, optEnv fx p env (optDefault d) = .ok c1 := by
    unfold optEnv
    rw [envNum_valid fx env "FANOUT" _ 1 hef, envNum_valid fx env "PDSH_CONNECT_TIMEOUT" _ 0 hect,
      envNum_valid fx env "PDSH_COMMAND_TIMEOUT" _ 0 heut]
    exact ⟨_, rfl⟩
  obtain ⟨f, ct, ut, hf, hct, hut, hc1⟩ := optEnv_ok he
  -- opt_args
  have hmem : ∀ t ∈ toks, ∃ o ∈ opts, o.tok = t := by
    intro t ht; rw [htoks] at ht; obtain ⟨o, ho, rfl⟩ := List.mem_map.mp ht; exact ⟨o, ho, rfl⟩
  have hnoexit : ∀ t ∈ toks, ∀ n, action fx d t ≠ .exit n := by
    intro t ht; obtain ⟨o, ho, rfl⟩ := hmem t ht; exact (good_action fx d o (hgood o ho)).1
  have hflags : ∀ t ∈ toks, ∀ fl, action fx d t = .flag fl → fl = .S ∨ fl = .k ∨ fl = .q ∨ fl = .w := by
    intro t ht; obtain ⟨o, ho, rfl⟩ := hmem t ht; exact (good_action fx d o (hgood o ho)).2
  obtain ⟨c3, ha⟩ := applyToks_ok_of_no_exit fx d p toks hnoexit
    (optArgsEarly c1 (getopt (earlyString fx d p) (render opts operands)).1)
  have e2 := optArgsEarly_other c1 (getopt (earlyString fx d p) (render opts operands)).1
  have k1 := applyToks_field fx d p (·.fanout) _ (fun c t c1 => step_fanout fx d p c c1 t) toks _ _ ha
  have k2 := applyToks_field fx d p (·.connectTimeout) _ (fun c t c1 => step_ctmo fx d p c c1 t) toks _ _ ha
  have k3 := applyToks_field fx d p (·.commandTimeout) _ (fun c t c1 => step_utmo fx d p c c1 t) toks _ _ ha
  have k5 := applyToks_field fx d p (·.rcmdName) _ (fun c t c1 => step_rcmd fx d p c c1 t) toks _ _ ha
  simp only [lastSome_argOf] at k1 k2 k3 k5
  obtain ⟨g1, g2, g3, g4⟩ := applyToks_flags fx d p toks hflags _ _ ha
  rw [e2] at k1 k2 k3 k5 g1 g2 g3
  have hwc : c3.hasWcoll = true := by
    apply g4
    right
    obtain ⟨o, ho, hch⟩ := hw
    refine ⟨o.tok, by rw [htoks]; exact List.mem_map.mpr ⟨o, ho, rfl⟩, ?_⟩
    have hgo := hgood o ho
    unfold goodOpt at hgo
    rw [hch, caseOf_w] at hgo
    simp only at hgo
    unfold OptW.tok action
    simp [hch, caseOf_w, hgo, Option.elim]
  subst hc1
  simp only [optDefault] at k1 k2 k3 k5 g1 g2 g3
  -- the values
  have v1 := (envNum_ok hf).1
  have v2 := (envNum_ok hct).1
  have v3 := (envNum_ok hut).1
  simp only [optDefault] at v1 v2 v3
  have argValid : ∀ ch a, lastArg ch toks = some a → ∃ o ∈ opts, o.ch = ch ∧ o.arg.getD [] = a := by
    intro ch a h; rw [htoks] at h; exact lastArg_map_tok h
  have hfan : c3.fanout ≥ 1 := by
    rw [k1]
    cases hla : lastArg 'f' toks with
    | some a =>
      obtain ⟨o, ho, hch, harg⟩ := argValid 'f' a hla
      have hgo := hgood o ho
      unfold goodOpt at hgo
      rw [hch, caseOf_f] at hgo
      simp only [harg] at hgo
      have := hgo.2.1
      simp [validNum_stringToInt fx hgo] <;> omega
    | none =>
      simp only [Option.map_none, Option.getD_none, v1]
      cases hge : getenv env "FANOUT" with
      | none => simp [Option.elim] <;> decide
      | some t =>
        have hv := hef t hge
        have := hv.2.1
        simp [Option.elim, convEnv, validNum_stringToInt fx hv] <;> omega
  have hctv : c3.connectTimeout = ctmoInForce fx env toks := by
    rw [k2, v2]
    unfold ctmoInForce
    cases lastArg 't' toks <;> cases getenv env "PDSH_CONNECT_TIMEOUT" <;> simp [pick, convS, convT, convEnv]
  have hct0 : c3.connectTimeout ≥ 0 := by
    rw [k2]
    cases hla : lastArg 't' toks with
    | some a =>
      obtain ⟨o, ho, hch, harg⟩ := argValid 't' a hla
      have hgo := hgood o ho
      unfold goodOpt at hgo
      rw [hch, caseOf_t] at hgo
      simp only [harg] at hgo
      simp [validNum_timeoutArg fx hgo] <;> omega
    | none =>
      simp only [Option.map_none, Option.getD_none, v2]
      cases hge : getenv env "PDSH_CONNECT_TIMEOUT" with
      | none => simp [Option.elim] <;> decide
      | some t =>
        have hv := hect t hge
        simp [Option.elim, convEnv, validNum_stringToInt fx hv] <;> omega
  have hut0 : c3.commandTimeout ≥ 0 := by
    rw [k3]
    cases hla : lastArg 'u' toks with
    | some a =>
      obtain ⟨o, ho, hch, harg⟩ := argValid 'u' a hla
      have hgo := hgood o ho
      unfold goodOpt at hgo
      rw [hch, caseOf_u] at hgo
      simp only [harg] at hgo
      simp [validNum_timeoutArg fx hgo] <;> omega
    | none =>
      simp only [Option.map_none, Option.getD_none, v3]
      cases hge : getenv env "PDSH_COMMAND_TIMEOUT" with
      | none => simp [Option.elim]
      | some t =>
        have hv := heut t hge
        simp [Option.elim, convEnv, validNum_stringToInt fx hv] <;> omega
  -- the transport
  obtain ⟨n, hn, hnm⟩ := hrcmd
  have hname : (c3.rcmdName <|> defaultRcmd d) = some n := by
    rw [k5, ← hn]
    unfold rcmdInForce
    cases lastArg 'R' toks <;> cases getenv env "PDSH_RCMD_TYPE" <;> simp
  obtain ⟨c4, hp4, hc4⟩ : ∃ c4, postArgs d c3 = .ok c4 ∧ c4 = { c3 with rcmdName := some n } := by
    unfold postArgs
    simp only [hname, hnm, if_true]
    exact ⟨_, rfl, rfl⟩
  -- opt_verify
  have hver : optVerify fx d p c4 operands.length = true := by
    subst hc4
    rw [optVerify_plain _ _ _ _ _ (by simpa using g2) (by simpa using g3)]
    unfold optVerifyPlain
    simp only [g2, g3, g1, hwc, Bool.not_false, Bool.and_self, Bool.not_true, Bool.false_or, Bool.true_and,
      Bool.and_eq_true, Bool.or_eq_true, decide_eq_true_eq, Bool.not_eq_true', Bool.and_true]
    refine ⟨⟨?_, ⟨⟨hct0, hut0⟩, Or.inr hfan⟩⟩, ?_⟩
    · by_cases hx : execLoaded d = true
      · by_cases hnx : n = "exec".toList
        · subst hnx
          have := hexec hx hn
          simp [hctv, this]
        · have hd : decide (some n = some "exec".toList) = false :=
            decide_eq_false (fun h => hnx (Option.some.inj h))
          rw [hd]
          simp
      · simp [hx]
    · by_cases hpcp : p.isPcp = true
      · right; exact hops hpcp
      · left; simpa using hpcp
  refine ⟨c4, ?_⟩
  unfold effective
  simp only [he, hg, ha, hp4, hver, if_true]

/-- TAKES THE VALUE GIVEN: in that accepted run every numeric setting IS the number written — the argument of the
    last occurrence of its option, else its environment variable, else the default — and the textual settings are
    the texts themselves (`precedence`); no truncation, wrap or clamp can interfere with valid values, in any
    variant of the code.  (`hearly`: for the module selection the early pass must know the option string of the
    second pass — repaired, or no module registers options; otherwise see `misc_order_dependent`.) -/
theorem takes_value_given {fx : Fixes} {d : Defaults} {p : Pers} {env : Env} {opts : List OptW}
    {operands : List Str} {c : Cfg}
    (hwf : ∀ o ∈ opts, o.wf (fullString d p)) (hgood : ∀ o ∈ opts, goodOpt fx d o) (henv : envValid env)
    (hearly : fx.early = true ∨ d.modOpts = [])
    (h : effective fx d p env (render opts operands) = .ok c) :
    c.fanout = pick ((lastArg 'f' (opts.map OptW.tok)).map fun a => (CInt.digitsVal a : Int))
                    ((getenv env "FANOUT").map fun a => (CInt.digitsVal a : Int)) DFLT_FANOUT ∧
    c.connectTimeout = pick ((lastArg 't' (opts.map OptW.tok)).map fun a => (CInt.digitsVal a : Int))
                    ((getenv env "PDSH_CONNECT_TIMEOUT").map fun a => (CInt.digitsVal a : Int)) CONNECT_TIMEOUT ∧
    c.commandTimeout = pick ((lastArg 'u' (opts.map OptW.tok)).map fun a => (CInt.digitsVal a : Int))
                    ((getenv env "PDSH_COMMAND_TIMEOUT").map fun a => (CInt.digitsVal a : Int)) 0 ∧
    c.ruser = pick (lastArg 'l' (opts.map OptW.tok)) none d.luser ∧
    c.rcmdName = rcmdInForce d env (opts.map OptW.tok) ∧
    c.miscModules = (lastArg 'M' (opts.map OptW.tok) <|> getenv env "PDSH_MISC_MODULES") ∧
    c.remotePath = pick (lastArg 'e' (opts.map OptW.tok))
                    (if p.isPcp then getenv env "PDSH_REMOTE_PDCP_PATH" else none) d.progPath := by
  obtain ⟨a1, a2, a3, a4, a5, a6, a7⟩ := precedence h
  have hes : earlyString fx d p = fullString d p := by
    unfold earlyString fullString
    rcases hearly with he | he
    · simp [he]
    · simp [he]
  rw [hes] at a6
  rw [getopt_render (fullString d p) opts operands hwf] at a1 a2 a3 a4 a5 a6 a7
  simp only at a1 a2 a3 a4 a5 a6 a7
  obtain ⟨hef, hect, heut⟩ := henv
  have argGood : ∀ ch a, lastArg ch (opts.map OptW.tok) = some a → ∃ o ∈ opts, o.ch = ch ∧ o.arg.getD [] = a :=
    fun ch a h => lastArg_map_tok h
  refine ⟨?_, ?_, ?_, a4, a5, a6, a7⟩
  · rw [a1]
    cases hla : lastArg 'f' (opts.map OptW.tok) with
    | some a =>
      obtain ⟨o, ho, hch, harg⟩ := argGood 'f' a hla
      have hgo := hgood o ho
      unfold goodOpt at hgo
      rw [hch, caseOf_f] at hgo
      simp only [harg] at hgo
      simp [pick, convS, validNum_stringToInt fx hgo]
    | none =>
      cases hge : getenv env "FANOUT" with
      | none => simp [pick]
      | some t => simp [pick, convS, validNum_stringToInt fx (hef t hge)]
  · rw [a2]
    cases hla : lastArg 't' (opts.map OptW.tok) with
    | some a =>
      obtain ⟨o, ho, hch, harg⟩ := argGood 't' a hla
      have hgo := hgood o ho
      unfold goodOpt at hgo
      rw [hch, caseOf_t] at hgo
      simp only [harg] at hgo
      simp [pick, convT, validNum_timeoutArg fx hgo]
    | none =>
      cases hge : getenv env "PDSH_CONNECT_TIMEOUT" with
      | none => simp [pick]
      | some t => simp [pick, convS, validNum_stringToInt fx (hect t hge)]
  · rw [a3]
    cases hla : lastArg 'u' (opts.map OptW.tok) with
    | some a =>
      obtain ⟨o, ho, hch, harg⟩ := argGood 'u' a hla
      have hgo := hgood o ho
      unfold goodOpt at hgo
      rw [hch, caseOf_u] at hgo
      simp only [harg] at hgo
      simp [pick, convT, validNum_timeoutArg fx hgo]
    | none =>
      cases hge : getenv env "PDSH_COMMAND_TIMEOUT" with
      | none => simp [pick]
      | some t => simp [pick, convS, validNum_stringToInt fx (heut t hge)]

/-! ## the unchanged code: kernel-checked counterexamples -/

def d0 : Defaults := ⟨"root".toList, 256, "/p".toList, ["exec".toList, "rsh".toList], []⟩
def words (l : List String) : List Str := l.map String.toList
def fanoutOf : Result → Option Int
  | .ok c => some c.fanout
  | .exit _ => none
def ctmoOf : Result → Option Int
  | .ok c => some c.connectTimeout
  | .exit _ => none
def utmoOf : Result → Option Int
  | .ok c => some c.commandTimeout
  | .exit _ => none

/-- `never_hangs` is FALSE of the unchanged code: `-f 0` and `FANOUT=` are accepted with fanout 0 -/
theorem never_hangs_unchanged_false :
    fanoutOf (effective Fixes.none d0 .dsh [] (words ["-f", "0", "-w", "h", "cmd"])) = some 0 ∧
    fanoutOf (effective Fixes.none d0 .dsh [("FANOUT".toList, [])] (words ["-w", "h", "cmd"])) = some 0 := by
  decide

/-- `rejected` is FALSE of the unchanged code: values that cannot work are accepted, workable ones replaced -/
theorem rejected_unchanged_false :
    fanoutOf (effective Fixes.none d0 .dsh [] (words ["-f", "-1", "-w", "h", "cmd"])) = some (-1) ∧
    fanoutOf (effective Fixes.none d0 .dsh [] (words ["-f", "", "-w", "h", "cmd"])) = some 0 ∧
    fanoutOf (effective Fixes.none d0 .dsh [] (words ["-f", "4294967297", "-w", "h", "cmd"])) = some 1 ∧
    fanoutOf (effective Fixes.none d0 .dsh [] (words ["-f", "-4294967295", "-w", "h", "cmd"])) = some 1 ∧
    ctmoOf (effective Fixes.none d0 .dsh [] (words ["-t", "-4294967295", "-w", "h", "cmd"])) = some 1 ∧
    utmoOf (effective Fixes.none d0 .dsh [] (words ["-u", "99999999999", "-w", "h", "cmd"])) = some 1215752191 ∧
    utmoOf (effective Fixes.none d0 .dsh [("PDSH_COMMAND_TIMEOUT".toList, "4294967297".toList)]
      (words ["-w", "h", "cmd"])) = some 1 ∧
    ctmoOf (effective Fixes.none d0 .dsh [("PDSH_CONNECT_TIMEOUT".toList, [])] (words ["-w", "h", "cmd"])) = some 0 := by
  decide

/-- the repaired variant refuses every one of them -/
theorem rejected_witnesses_repaired :
    effective Fixes.all d0 .dsh [] (words ["-f", "0", "-w", "h", "cmd"]) = .exit 1 ∧
    effective Fixes.all d0 .dsh [("FANOUT".toList, [])] (words ["-w", "h", "cmd"]) = .exit 1 ∧
    effective Fixes.all d0 .dsh [] (words ["-f", "-1", "-w", "h", "cmd"]) = .exit 1 ∧
    effective Fixes.all d0 .dsh [] (words ["-f", "4294967297", "-w", "h", "cmd"]) = .exit 1 ∧
    effective Fixes.all d0 .dsh [] (words ["-t", "-4294967295", "-w", "h", "cmd"]) = .exit 1 ∧
    effective Fixes.all d0 .dsh [] (words ["-u", "99999999999", "-w", "h", "cmd"]) = .exit 1 := by
  decide

/-- the documented -d is refused by the unchanged opt_args (no `case 'd'`), accepted once repaired -/
theorem d_option_unchanged_false :
    effective Fixes.none d0 .dsh [] (words ["-d", "-w", "h", "cmd"]) = .exit 1 ∧
    fanoutOf (effective Fixes.none d0 .dsh [] (words ["-w", "h", "cmd"])) = some 32 ∧
    fanoutOf (effective Fixes.all d0 .dsh [] (words ["-d", "-w", "h", "cmd"])) = some 32 := by
  decide

/-- hypotheses of the theorems above are satisfiable: a non-trivial accepted configuration -/
example : ∃ c, effective Fixes.all d0 .dsh [("FANOUT".toList, "8".toList), ("PDSH_RCMD_TYPE".toList, "rsh".toList)]
    (words ["-Nf", "3", "-R", "exec", "-u7", "-w", "h", "--", "cmd"]) = .ok c ∧ c.fanout = 3 ∧
    c.rcmdName = some "exec".toList ∧ c.commandTimeout = 7 ∧ c.pcpServer = false ∧ c.pcpClient = false := by
  refine ⟨_, rfl, ?_⟩
  decide


/-! ## values given per target in the target list, options of modules -/

/-- a -w argument that opt_args accepted: every word was accepted -/
theorem wcollArg_some_all {fx : Fixes} {d : Defaults} {a : Str} {b : Bool} (h : wcollArg fx d a = some b) :
    ∀ w ∈ splitWords a, ∃ b', wcollWord fx d w = some b' := by
  unfold wcollArg at h
  generalize splitWords a = ws at h ⊢
  have key : ∀ (ws : List Str) (acc : Option Bool) (b : Bool),
      ws.foldl (fun acc w => match acc with
        | none => none
        | some b => (wcollWord fx d w).map (b || ·)) acc = some b →
      (∃ b0, acc = some b0) ∧ ∀ w ∈ ws, ∃ b', wcollWord fx d w = some b' := by
    intro ws
    induction ws with
    | nil => intro acc b h; exact ⟨⟨b, h⟩, fun w hw => by simp at hw⟩
    | cons w t ih =>
      intro acc b h
      simp only [List.foldl_cons] at h
      obtain ⟨⟨b1, hb1⟩, ht⟩ := ih _ b h
      cases acc with
      | none => simp at hb1
      | some b0 =>
        simp only at hb1
        cases hw : wcollWord fx d w with
        | none => simp [hw] at hb1
        | some b' =>
          refine ⟨⟨b0, rfl⟩, ?_⟩
          intro x hx
          rcases List.mem_cons.mp hx with rfl | hin
          · exact ⟨b', hw⟩
          · exact ht x hin
  exact (key ws (some false) b h).2

/-- PER-TARGET VALUES ARE CHECKED TOO: in an accepted run every word `[rcmd_type:][user@]hosts` of every -w
    argument is well-formed and names a loaded transport (every variant), and — repaired `wuser` — a user name
    within the limit -/
theorem wcoll_refused {fx : Fixes} {d : Defaults} {p : Pers} {env : Env} {argv : List Str} {c : Cfg}
    (h : effective fx d p env argv = .ok c) (arg : Option Str)
    (hin : Tok.opt 'w' arg ∈ (getopt (fullString d p) argv).1)
    (w : Str) (hw : w ∈ splitWords (arg.getD [])) (hplain : specialWord w = none) :
    ∃ hs, parseHostSpec (w.dropWhile isBlank) = some hs ∧
      (∀ t, hs.ty = some t → d.rcmdModules.contains t = true) ∧
      (fx.wuser = true → ∀ u, hs.user = some u → u.length ≤ d.loginMax) := by
  obtain ⟨c1, c3, _, ha, _, _⟩ := effective_ok_inv h
  have hne := applyToks_no_exit ha _ hin 1
  unfold action at hne
  simp only [caseOf_w] at hne
  cases hwa : wcollArg fx d (arg.getD []) with
  | none => simp [hwa, Option.elim] at hne
  | some b =>
    obtain ⟨b', hb'⟩ := wcollArg_some_all hwa w hw
    unfold wcollWord at hb'
    simp only [hplain] at hb'
    cases hp : parseHostSpec (w.dropWhile isBlank) with
    | none => simp [hp] at hb'
    | some hs =>
      simp only [hp] at hb'
      refine ⟨hs, rfl, ?_, ?_⟩
      · intro t ht
        simp only [ht] at hb'
        simp at hb'
        simpa using hb'.1
      · intro hwu u hu
        simp only [hu, hwu, Bool.true_and] at hb'
        by_cases hl : u.length > d.loginMax
        · have hl' : decide (u.length > d.loginMax) = true := by simpa using hl
          simp [hl'] at hb'
        · omega

def d8 : Defaults := ⟨"root".toList, 8, "/p".toList, ["exec".toList, "rsh".toList], "g:".toList⟩

/-- FALSE of the unchanged code: an over-long user name given as `user@hosts` is accepted (limit 8 here);
    repaired, the same command line is refused -/
theorem wcoll_user_unchanged_false :
    (∃ c, effective Fixes.none d8 .dsh [] ["-w".toList, "exec:verylonguser@h".toList, "cmd".toList] = .ok c) ∧
    effective Fixes.all d8 .dsh [] ["-w".toList, "exec:verylonguser@h".toList, "cmd".toList] = .exit 1 ∧
    effective Fixes.none d8 .dsh [] ["-w".toList, "nosuch:h".toList, "cmd".toList] = .exit 1 := by
  refine ⟨⟨_, rfl⟩, ?_, ?_⟩ <;> decide

def miscOf : Result → Option (Option Str)
  | .ok c => some c.miscModules
  | .exit _ => none

/-- FALSE of the unchanged code (module selection is not independent of the other options): module G registers
    `-g name`; opt_args_early, which runs before the modules are loaded, does not know it, takes `name` for the
    first operand and stops: a -M after it is lost; written `-gM` the argument is even read as the option -M.
    Repaired (`early`), all three command lines select B. -/
theorem misc_order_dependent_unchanged_false :
    miscOf (effective Fixes.none d8 .dsh [] (["-M", "B", "-g", "x", "-w", "h", "cmd"].map String.toList)) = some (some ['B']) ∧
    miscOf (effective Fixes.none d8 .dsh [] (["-g", "x", "-M", "B", "-w", "h", "cmd"].map String.toList)) = some none ∧
    miscOf (effective Fixes.none d8 .dsh [] (["-M", "B", "-gM", "-w", "h", "cmd"].map String.toList)) = some (some "-w".toList) ∧
    miscOf (effective Fixes.all d8 .dsh [] (["-g", "x", "-M", "B", "-w", "h", "cmd"].map String.toList)) = some (some ['B']) ∧
    miscOf (effective Fixes.all d8 .dsh [] (["-M", "B", "-gM", "-w", "h", "cmd"].map String.toList)) = some (some ['B']) := by
  decide

/-- repaired `early` (or no module registers options): the module selection obeys the same rule as every other
    setting, on the tokens of the full option string -/
theorem precedence_misc {fx : Fixes} {d : Defaults} {p : Pers} {env : Env} {argv : List Str} {c : Cfg}
    (hearly : fx.early = true ∨ d.modOpts = []) (h : effective fx d p env argv = .ok c) :
    c.miscModules = (lastArg 'M' (getopt (fullString d p) argv).1 <|> getenv env "PDSH_MISC_MODULES") := by
  obtain ⟨_, _, _, _, _, a6, _⟩ := precedence h
  have hes : earlyString fx d p = fullString d p := by
    unfold earlyString fullString
    rcases hearly with he | he <;> simp [he]
  rw [hes] at a6
  exact a6

/-- the hypotheses of `accepts_valid` are satisfiable by a non-trivial command line and environment -/
example : ∃ c, effective Fixes.none d0 .dsh [("FANOUT".toList, "8".toList)]
    (render [⟨'N', none⟩, ⟨'f', some "3".toList⟩, ⟨'R', some "exec".toList⟩, ⟨'u', some "7".toList⟩,
             ⟨'w', some "h".toList⟩] [ "cmd".toList ]) = .ok c ∧ c.fanout = 3 ∧ c.commandTimeout = 7 := by
  refine ⟨_, rfl, ?_⟩
  decide


/-! ## the whole of main: the remote command, the prompt loop, what is started -/

theorem mainPlan_ok_inv {fx : Fixes} {d : Defaults} {p : Pers} {env : Env} {argv : List Str} {c : Cfg} {nx : Next}
    (h : mainPlan fx d p env argv = .ok (c, nx)) :
    effective fx d p env argv = .ok c ∧ nx = plan p c (getopt (fullString d p) argv).2 := by
  unfold mainPlan at h
  cases he : effective fx d p env argv with
  | exit n => simp [he] at h
  | ok c' =>
    simp only [he, Except.ok.injEq, Prod.mk.injEq] at h
    obtain ⟨rfl, rfl⟩ := h
    exact ⟨rfl, rfl⟩

/-- REFUSED MEANS NOTHING IS STARTED: main's result is "exit n" exactly when opt_env / opt_args / opt_verify
    refused, and then there is no `Next` — neither dsh() nor the prompt loop is entered, nothing is contacted -/
theorem refused_nothing_started (fx : Fixes) (d : Defaults) (p : Pers) (env : Env) (argv : List Str) (n : Nat) :
    mainPlan fx d p env argv = .error n ↔ effective fx d p env argv = .exit n := by
  unfold mainPlan
  cases effective fx d p env argv <;> simp

/-- THE REMOTE COMMAND (every variant, every environment, every command line): when main starts a DSH run, the
    command it runs is exactly the words that remain after the options, in order, joined by single blanks — no
    option, no option argument and no environment value is part of it — and there is at least one such word -/
theorem command_is_operands {fx : Fixes} {d : Defaults} {p : Pers} {env : Env} {argv : List Str} {c : Cfg} {cmd : Str}
    (h : mainPlan fx d p env argv = .ok (c, .run (some cmd))) :
    p.isPcp = false ∧ (getopt (fullString d p) argv).2 ≠ [] ∧ cmd = joinWords (getopt (fullString d p) argv).2 := by
  obtain ⟨_, hn⟩ := mainPlan_ok_inv h
  unfold plan at hn
  split at hn
  · cases hn
  · split at hn
    · cases hn
    · split at hn
      · cases hn
      · split at hn
        · cases hn
        · rename_i hp
          split at hn
          · rename_i cmd' hc
            simp only [Next.run.injEq, Option.some.injEq] at hn
            subst hn
            obtain ⟨h1, h2⟩ := assembleCmd_some hc
            exact ⟨by simpa using hp, h1, h2⟩
          · cases hn

/-- ... so the words of the command can be read back verbatim (blank-free words: what C09's per-host argument
    vector is built from) -/
theorem command_words_verbatim {fx : Fixes} {d : Defaults} {p : Pers} {env : Env} {argv : List Str} {c : Cfg}
    {cmd : Str} (h : mainPlan fx d p env argv = .ok (c, .run (some cmd)))
    (hnb : ∀ w ∈ (getopt (fullString d p) argv).2, ' ' ∉ w) :
    splitBlank cmd = (getopt (fullString d p) argv).2 := by
  obtain ⟨_, hne, rfl⟩ := command_is_operands h
  exact splitBlank_joinWords _ hne hnb

/-- ... and it does not depend on how the options are SPELLED, nor on which options there are: for every way of
    writing the option sequence `opts` in front of the operands `ops` (attached / detached arguments, clusters,
    `--` or not), the command is `ops` joined by blanks; words after the first operand are never taken for
    options (`pdsh -w h ls -l`: `-l` belongs to the command) -/
theorem command_any_spelling {fx : Fixes} {d : Defaults} {p : Pers} {env : Env} {opts : List OptW} {ops ws : List Str}
    {c : Cfg} {cmd : Str} (hs : Spelled (fullString d p) opts ops ws)
    (h : mainPlan fx d p env ws = .ok (c, .run (some cmd))) : cmd = joinWords ops := by
  obtain ⟨_, _, hc⟩ := command_is_operands h
  rw [getopt_spelled _ hs] at hc
  exact hc

/-- THE PROMPT LOOP: an accepted pdsh (not pdcp) command line that is not a listing reads its commands from stdin
    exactly when no word is left after the options ("no command ⇒ interactive") -/
theorem interactive_iff_no_command {fx : Fixes} {d : Defaults} {p : Pers} {env : Env} {argv : List Str} {c : Cfg}
    (h : effective fx d p env argv = .ok c) (hp : p.isPcp = false) (hq : c.infoOnly = false) :
    mainPlan fx d p env argv = .ok (c, .interactive) ↔ (getopt (fullString d p) argv).2 = [] := by
  unfold mainPlan plan
  simp only [h, hp, hq, Bool.false_and, Bool.false_eq_true, if_false]
  cases hc : assembleCmd (getopt (fullString d p) argv).2 with
  | none => simp [assembleCmd_none.mp hc]
  | some cmd =>
    have := (assembleCmd_some hc).1
    simp [this]

/-- what main starts is a function of the accepted configuration and the operands only -/
theorem started_run_or_loop {fx : Fixes} {d : Defaults} {p : Pers} {env : Env} {argv : List Str} {c : Cfg} {nx : Next}
    (h : mainPlan fx d p env argv = .ok (c, nx)) (hq : c.infoOnly = false) (hz : c.pcpServer = false)
    (hZ : c.pcpClient = false) : (∃ cmd, nx = .run cmd) ∨ (nx = .interactive ∧ p.isPcp = false) := by
  obtain ⟨_, hn⟩ := mainPlan_ok_inv h
  subst hn
  unfold plan
  simp only [hq, hz, hZ, Bool.and_false, Bool.false_eq_true, if_false]
  cases hp : p.isPcp with
  | true => simp
  | false =>
    simp only [Bool.false_eq_true, if_false]
    cases assembleCmd (getopt (fullString d p) argv).2 <;> simp

/-- NEVER HANGS, the whole of main (repaired D4): whenever main goes on to dsh() or to the prompt loop — from any
    environment and command line, for pdsh, pdcp and rpdcp — the fanout is >= 1, so the dispatcher's wait
    `fanout == threadcount` is never entered with nobody to signal it -/
theorem never_hangs_whole {fx : Fixes} {d : Defaults} {p : Pers} {env : Env} {argv : List Str} {c : Cfg} {nx : Next}
    (hd4 : fx.d4 = true) (h : mainPlan fx d p env argv = .ok (c, nx))
    (hplain : c.pcpServer = false ∧ c.pcpClient = false) : c.fanout ≥ 1 ∧ runTerminates c = true :=
  never_hangs hd4 (mainPlan_ok_inv h).1 hplain

/-- NEVER HANGS, composed with the fan-out LTS of C03 (by import of `C03.progress` and `C03.steps_bounded`, whose
    only hypothesis about the configuration is `0 < f`): whenever main goes on to dsh() (repaired D4), the fanout it
    hands to the dispatcher is a natural number f >= 1, and for THAT f — for every variant of the dispatcher, every
    number of targets, every reachable state of dispatcher and workers in which dsh() has not returned — some
    operation other than a spurious wake-up is enabled (no deadlock, no lost wake-up), and every execution with k
    spurious wake-ups has at most 18 n + 13 + 3 k steps.  The accepted settings of C18 are exactly the domain of C03. -/
theorem never_hangs_fanout {fx : Fixes} {d : Defaults} {p : Pers} {env : Env} {argv : List Str} {c : Cfg} {nx : Next}
    (hd4 : fx.d4 = true) (h : mainPlan fx d p env argv = .ok (c, nx))
    (hplain : c.pcpServer = false ∧ c.pcpClient = false) :
    ∃ f : Nat, (f : Int) = c.fanout ∧ 0 < f ∧
      (∀ (v : Dsh.Fan.Variant) (n : Nat) (s : Dsh.Fan.St), Dsh.Fan.Reach v f n s → ¬ Dsh.Fan.Final s →
        ∃ l s', l.spurious = false ∧ Dsh.Fan.step s l = some s') ∧
      (∀ (v : Dsh.Fan.Variant) (n : Nat) (ls : List Dsh.Fan.Label) (s : Dsh.Fan.St),
        Dsh.Fan.Exec (Dsh.Fan.init v f n) ls s → ls.length ≤ 18 * n + 13 + 3 * ls.countP Dsh.Fan.Label.spurious) := by
  have hf := (never_hangs_whole hd4 h hplain).1
  refine ⟨c.fanout.toNat, by omega, by omega, ?_, ?_⟩
  · intro v n s hr hnf
    exact Props.C03.progress (by omega) hr hnf
  · intro v n ls s he
    have := Props.C03.steps_bounded he
    omega

/-! ## the settings where they take effect: what every target is contacted with -/

/-- INDEPENDENT OF OPTION ORDER AT THE POINT OF USE (composition with the registry model of C09, Opt/Rcmd.lean:
    wcoll_arg_process, rcmd_register_defaults, rcmd_create, rcmd_connect): the transport, user and rank EVERY target
    is contacted with depend on the command line only through its -w words (in their order), the last -l and the
    last -R — wherever these stand relative to each other and whatever other options are present.  In particular a
    `-l` AFTER a `-w type:hosts` word applies to those hosts exactly as one before it. -/
theorem contacts_order_independent (d : Defaults) (env : Env) (toks toks' : List Tok)
    (hw : toks.filter (isOpt 'w') = toks'.filter (isOpt 'w'))
    (hl : toks.filter (isOpt 'l') = toks'.filter (isOpt 'l'))
    (hR : toks.filter (isOpt 'R') = toks'.filter (isOpt 'R')) :
    contacts d env toks = contacts d env toks' := by
  have h1 : wWords toks = wWords toks' := by rw [← wWords_filter toks, ← wWords_filter toks', hw]
  have h2 := lastArg_other_options 'l' toks toks' hl
  have h3 := lastArg_other_options 'R' toks toks' hR
  unfold contacts rcmdCfg
  rw [h1, h2, h3]

/-- THE REMOTE-USER SETTING IS THE USER THAT IS USED: in an accepted run every target is contacted either as the
    user it names itself (`user@host`: an entry of the registry built from the -w words) or as the remote user of
    the accepted configuration — `precedence`'s value: the last -l, else the local user -/
theorem contact_user_is_setting {fx : Fixes} {d : Defaults} {p : Pers} {env : Env} {argv : List Str} {c : Cfg}
    {ls : List Rcmd.Line} (h : effective fx d p env argv = .ok c)
    (hc : contacts d env (getopt (fullString d p) argv).1 = .lines ls) :
    ∀ ln ∈ ls, ln.user = c.ruser ∨
      ∃ reg e, Rcmd.processWords (rcmdCfg d env (getopt (fullString d p) argv).1)
                 (wWords (getopt (fullString d p) argv).1) [] = some reg ∧
               Rcmd.lookup reg ln.host = some e ∧ e.user = some ln.user := by
  obtain ⟨_, _, _, a4, _, _, _⟩ := precedence h
  obtain ⟨reg, dflt, hreg, hls⟩ := lines_of_run hc
  intro ln hln
  rw [hls] at hln
  obtain ⟨host, r, rfl⟩ := mem_connectAll _ _ hln
  unfold Rcmd.connect
  simp only
  cases hlk : Rcmd.lookup reg host with
  | none =>
    left
    simp only [Option.bind_none, rcmdCfg]
    rw [a4]
    cases lastArg 'l' (getopt (fullString d p) argv).1 <;> simp [pick]
  | some e =>
    cases hu : e.user with
    | none =>
      left
      simp only [Option.bind_some, hu, rcmdCfg]
      rw [a4]
      cases lastArg 'l' (getopt (fullString d p) argv).1 <;> simp [pick]
    | some u =>
      right
      exact ⟨reg, e, hreg, hlk, by simp [hu]⟩

def usersOf : Rcmd.Outcome → List (Str × Str)
  | .lines ls => ls.map fun l => (l.host, l.user)
  | .fatal => []

/-- the command lines of the seeded change C18-10, and a target with a user of its own: both orders contact h1 as bar -/
theorem contacts_witness :
    usersOf (contacts d0 [] (getopt (fullString d0 .dsh) (words ["-w", "exec:h1", "-l", "bar", "cmd"])).1) =
      [("h1".toList, "bar".toList)] ∧
    usersOf (contacts d0 [] (getopt (fullString d0 .dsh) (words ["-l", "bar", "-w", "exec:h1", "cmd"])).1) =
      [("h1".toList, "bar".toList)] ∧
    usersOf (contacts d0 [] (getopt (fullString d0 .dsh) (words ["-w", "exec:h1,exec:u2@h3", "-l", "bar", "cmd"])).1) =
      [("h1".toList, "bar".toList), ("h3".toList, "u2".toList)] ∧
    usersOf (contacts d0 [] (getopt (fullString d0 .dsh) (words ["-R", "exec", "-w", "h2", "cmd"])).1) =
      [("h2".toList, "root".toList)] := by
  decide

/-! ## the personalities: pdsh / pdcp / rpdcp have different option sets -/

/-- the generated option strings: `-e` (remote pdcp path) exists for pdcp / rpdcp only, `-S` and `-k` for pdsh only;
    the valued settings f t u l R M exist for all three -/
theorem personality_letters :
    optKind (optstring .dsh) 'e' = none ∧ optKind (optstring .pdcp) 'e' = some true ∧
    optKind (optstring .rpdcp) 'e' = some true ∧
    optKind (optstring .dsh) 'S' = some false ∧ optKind (optstring .dsh) 'k' = some false ∧
    optKind (optstring .pdcp) 'S' = none ∧ optKind (optstring .pdcp) 'k' = none ∧
    optKind (optstring .rpdcp) 'S' = none ∧ optKind (optstring .rpdcp) 'k' = none ∧
    (∀ p : Pers, ∀ ch ∈ ['f', 't', 'u', 'l', 'R', 'M', 'w', 'x'], optKind (optstring p) ch = some true) := by
  refine ⟨by decide, by decide, by decide, by decide, by decide, by decide, by decide, by decide, by decide, ?_⟩
  intro p; cases p <;> decide

/-- PDSH HAS NO REMOTE-PATH SETTING: under the pdsh personality neither PDSH_REMOTE_PDCP_PATH (ignored by opt_env)
    nor `-e` (not in its option string: such a command line is refused) can change the remote program path: an
    accepted run has the default.  (`hm`: no module registers an option `-e`.) -/
theorem dsh_remote_path_default {fx : Fixes} {d : Defaults} {env : Env} {argv : List Str} {c : Cfg}
    (hm : optKind (fullString d .dsh) 'e' = none) (h : effective fx d .dsh env argv = .ok c) :
    c.remotePath = d.progPath := by
  obtain ⟨_, _, _, _, _, _, a7⟩ := precedence h
  rw [a7, lastArg_none_of_unknown _ _ _ hm]
  simp [pick, Pers.isPcp]

/-- PDCP / RPDCP HAVE NO -S / -k: their option string lacks both letters, so in an accepted copy run both flags
    are off (a command line that mentions them is refused) — which is why a copy run that was started exits 0
    (C08.pcp_exit0).  (`hm`: no module registers `-S` / `-k`.) -/
theorem pcp_no_S_no_k {fx : Fixes} {d : Defaults} {p : Pers} {env : Env} {argv : List Str} {c : Cfg}
    (hmS : optKind (fullString d p) 'S' = none) (hmk : optKind (fullString d p) 'k' = none)
    (h : effective fx d p env argv = .ok c) : c.retRemoteRc = false ∧ c.killOnFail = false :=
  pcp_flags_off hmS hmk h

/-- -S and -k have no variable and no default other than "off": they are in force exactly when the command line
    has the option, wherever it stands (C08's "with -S" / "with -k" are these two flags) -/
theorem S_k_iff_on_command_line {fx : Fixes} {d : Defaults} {p : Pers} {env : Env} {argv : List Str} {c : Cfg}
    (h : effective fx d p env argv = .ok c) :
    (c.retRemoteRc = true ↔ ∃ arg, Tok.opt 'S' arg ∈ (getopt (fullString d p) argv).1) ∧
    (c.killOnFail = true ↔ ∃ arg, Tok.opt 'k' arg ∈ (getopt (fullString d p) argv).1) :=
  flag_S_iff h

/-- A REFUSAL EXITS 1: when main ends before dsh(), the status is 1 (C08's "1 when it refuses its arguments") —
    unless an option that only asks for information (-L, -V, -T) is on the command line, which ends with 0 -/
theorem refusal_exits_1 {fx : Fixes} {d : Defaults} {p : Pers} {env : Env} {argv : List Str} {n : Nat}
    (h : mainPlan fx d p env argv = .error n) :
    n = 1 ∨ (n = 0 ∧ ∃ t ∈ (getopt (fullString d p) argv).1, action fx d t = .exit 0) :=
  effective_exit_code ((refused_nothing_started fx d p env argv n).mp h)

/-- the shipped build (no module registers options): the hypotheses `hm` above hold -/
example (d : Defaults) (h : d.modOpts = []) :
    optKind (fullString d .dsh) 'e' = none ∧ optKind (fullString d .pdcp) 'S' = none ∧
    optKind (fullString d .rpdcp) 'k' = none := by
  simp only [fullString, h, List.append_nil]
  decide

def nextOf : Except Nat (Cfg × Next) → Option Next
  | .ok (_, n) => some n
  | .error _ => none
def exitOf : Except Nat (Cfg × Next) → Option Nat
  | .ok _ => none
  | .error n => some n
def pathOf : Except Nat (Cfg × Next) → Option Str
  | .ok (c, _) => some c.remotePath
  | .error _ => none

/-- the statements above are not vacuous: a pdsh command line with a two-word command (the second word looks like
    an option), one without a command, a copy, and the letters of the other personality refused -/
theorem main_witnesses :
    nextOf (mainPlan Fixes.all d0 .dsh [] (words ["-w", "h", "-f", "3", "ls", "-l"])) = some (.run (some "ls -l".toList)) ∧
    nextOf (mainPlan Fixes.all d0 .dsh [] (words ["-w", "h"])) = some .interactive ∧
    nextOf (mainPlan Fixes.all d0 .dsh [] (words ["-w", "h", "-q", "ls"])) = some .info ∧
    nextOf (mainPlan Fixes.all d0 .pdcp [("PDSH_REMOTE_PDCP_PATH".toList, "/x".toList)]
      (words ["-w", "h", "a", "b"])) = some (.run none) ∧
    pathOf (mainPlan Fixes.all d0 .pdcp [("PDSH_REMOTE_PDCP_PATH".toList, "/x".toList)]
      (words ["-w", "h", "a", "b"])) = some "/x".toList ∧
    pathOf (mainPlan Fixes.all d0 .dsh [("PDSH_REMOTE_PDCP_PATH".toList, "/x".toList)]
      (words ["-w", "h", "ls"])) = some "/p".toList ∧
    exitOf (mainPlan Fixes.all d0 .dsh [] (words ["-w", "h", "-e", "/x", "ls"])) = some 1 ∧
    exitOf (mainPlan Fixes.all d0 .pdcp [] (words ["-w", "h", "-S", "a", "b"])) = some 1 := by
  decide

/-! ## the time-outs and the remote pdcp path where they take effect -/

/-- TIME-OUTS IN FORCE, composed with the timed model of C07 (Dsh/Timed.lean, by import of `C07.connect_deadline`,
    `C07.command_deadline`, `C07.unlimited_never_interrupted`): in an accepted run (repaired d4 d5 atoi) the two limits
    are natural numbers `ct`, `ut` that are exactly what the text in force denotes — command line, else environment —
    or the built-in default (10 s, resp. none), and for the timed system started WITH THESE numbers — every variant of
    the dispatcher, every fanout, every vector of scripted hosts, every reachable state — a target that is still
    connecting is at most `ct + WDOG_POLL` seconds past its start, a running command at most `ut + WDOG_POLL` seconds
    past its connect, and a limit of 0 never interrupts anything.  The accepted settings of C18 are the parameters
    C07's theorems are about. -/
theorem timeouts_in_force {fx : Fixes} {d : Defaults} {p : Pers} {env : Env} {argv : List Str} {c : Cfg}
    (hd4 : fx.d4 = true) (hd5 : fx.d5 = true) (hat : fx.atoi = true)
    (h : effective fx d p env argv = .ok c) (hl : d.luser.length ≤ d.loginMax)
    (hplain : c.pcpServer = false ∧ c.pcpClient = false) :
    ∃ ct ut : Nat, (ct : Int) = c.connectTimeout ∧ (ut : Int) = c.commandTimeout ∧
      (∀ t, chosenText (getopt (fullString d p) argv).1 env 't' "PDSH_CONNECT_TIMEOUT" = some t →
        CInt.denotes t = some (ct : Int)) ∧
      (chosenText (getopt (fullString d p) argv).1 env 't' "PDSH_CONNECT_TIMEOUT" = none → (ct : Int) = CONNECT_TIMEOUT) ∧
      (∀ t, chosenText (getopt (fullString d p) argv).1 env 'u' "PDSH_COMMAND_TIMEOUT" = some t →
        CInt.denotes t = some (ut : Int)) ∧
      (chosenText (getopt (fullString d p) argv).1 env 'u' "PDSH_COMMAND_TIMEOUT" = none → ut = 0) ∧
      ∀ (sopt sc sw : Bool) (v : Dsh.FanG.Variant) (f : Nat) (scripts : List Dsh.Timed.Script) (s : Dsh.Timed.St),
        Dsh.Timed.Reach v f (timedCfg c sopt sc sw) scripts s → ∀ j, j < s.hs.length →
          ((s.host j).ph = .connecting → 0 < ct → s.now ≤ (s.host j).start + ct + Dsh.Timed.WDOG_POLL) ∧
          ((s.host j).ph = .reading → 0 < ut → s.now ≤ (s.host j).conn + ut + Dsh.Timed.WDOG_POLL) ∧
          ((s.host j).ph = .connecting → ct = 0 → (s.host j).intr = false) ∧
          ((s.host j).ph = .reading → ut = 0 → (s.host j).intr = false) := by
  obtain ⟨_, _, hct, hctt, hut, hutt, _, _⟩ := rejected hd4 hd5 hat h hl hplain
  obtain ⟨_, p2, p3, _, _, _, _⟩ := precedence h
  refine ⟨c.connectTimeout.toNat, c.commandTimeout.toNat, by omega, by omega, ?_, ?_, ?_, ?_, ?_⟩
  · intro t ht
    rw [hctt t ht]
    congr 1
    omega
  · intro hn
    rw [Int.toNat_of_nonneg hct, p2]
    unfold chosenText at hn
    cases h1 : lastArg 't' (getopt (fullString d p) argv).1 <;> cases h2 : getenv env "PDSH_CONNECT_TIMEOUT" <;>
      simp [h1, h2] at hn
    simp [pick, h1, h2]
  · intro t ht
    rw [hutt t ht]
    congr 1
    omega
  · intro hn
    have : c.commandTimeout = 0 := by
      rw [p3]
      unfold chosenText at hn
      cases h1 : lastArg 'u' (getopt (fullString d p) argv).1 <;> cases h2 : getenv env "PDSH_COMMAND_TIMEOUT" <;>
        simp [h1, h2] at hn
      simp [pick, h1, h2]
    omega
  · intro sopt sc sw v f scripts s hr j hj
    have hcfg := timed_reach_cfg hr
    have e1 : s.cfg.ct = c.connectTimeout.toNat := by rw [hcfg]; rfl
    have e2 : s.cfg.ut = c.commandTimeout.toNat := by rw [hcfg]; rfl
    refine ⟨fun hph hpos => ?_, fun hph hpos => ?_, fun hph hz => ?_, fun hph hz => ?_⟩
    · have := Props.C07.connect_deadline hr hj hph (by rw [e1]; exact hpos)
      rwa [e1] at this
    · have := Props.C07.command_deadline hr hj hph (by rw [e2]; exact hpos)
      rwa [e2] at this
    · exact (Props.C07.unlimited_never_interrupted hr hj).2 hph (by rw [e1]; exact hz)
    · exact (Props.C07.unlimited_never_interrupted hr hj).1 hph (by rw [e2]; exact hz)

/-- REMOTE PROGRAM IN FORCE, composed with the command builders of C11 (Pcp/Send.lean: `pdcpCmd`, `rpdcpCmd`, the
    strings dsh() assembles for a copy and which C11's end-to-end runs compare with the real ones): in an accepted
    pdcp / rpdcp run the program EVERY target is asked to execute — the first word of the command line the remote shell
    gets — is the text of the last -e, else of PDSH_REMOTE_PDCP_PATH, else the program's own path, whatever the other
    options (-r -p, the number of sources, the destination) and wherever -e stands.  (A path without blanks; a blank
    would split it for the remote shell: C09/C11's business.) -/
theorem remote_program_in_force {fx : Fixes} {d : Defaults} {p : Pers} {env : Env} {argv : List Str} {c : Cfg}
    (h : effective fx d p env argv = .ok c) (hp : p.isPcp = true) (hb : Pcp.cSp ∉ bytes c.remotePath) :
    c.remotePath = pick (lastArg 'e' (getopt (fullString d p) argv).1) (getenv env "PDSH_REMOTE_PDCP_PATH") d.progPath ∧
    (∀ (r pp : Bool) (n : Nat) (dest : Pcp.Str), firstWord (copyCommand c r pp n dest) = bytes c.remotePath) ∧
    (∀ (r pp : Bool) (files : List Pcp.Str) (host : Pcp.Str),
      firstWord (reverseCopyCommand c r pp files host) = bytes c.remotePath) := by
  obtain ⟨_, _, _, _, _, _, p7⟩ := precedence h
  rw [hp] at p7
  refine ⟨p7, fun r pp n dest => ?_, fun r pp files host => ?_⟩
  · unfold copyCommand Pcp.pdcpCmd
    simp only [List.append_assoc]
    apply firstWord_append _ _ hb
    cases r <;> cases pp <;> by_cases hn : 1 < n <;> simp [hn, strBytes_r, strBytes_p, strBytes_y, strBytes_z, Pcp.cSp]
  · unfold reverseCopyCommand Pcp.rpdcpCmd
    simp only [List.append_assoc]
    apply firstWord_append _ _ hb
    cases r <;> cases pp <;> simp [strBytes_r, strBytes_p, strBytes_Z, Pcp.cSp]

/-- the hypotheses are satisfiable, and the three sources are told apart: -e over the variable over the own path -/
theorem remote_program_witnesses :
    pathOf (mainPlan Fixes.all d0 .pdcp [("PDSH_REMOTE_PDCP_PATH".toList, "/env/pdcp".toList)]
      (words ["-w", "h", "-e", "/cmd/pdcp", "a", "b"])) = some "/cmd/pdcp".toList ∧
    pathOf (mainPlan Fixes.all d0 .pdcp [("PDSH_REMOTE_PDCP_PATH".toList, "/env/pdcp".toList)]
      (words ["-e", "/first", "-w", "h", "-e", "/cmd/pdcp", "a", "b"])) = some "/cmd/pdcp".toList ∧
    pathOf (mainPlan Fixes.all d0 .rpdcp [("PDSH_REMOTE_PDCP_PATH".toList, "/env/pdcp".toList)]
      (words ["-w", "h", "a", "b"])) = some "/env/pdcp".toList ∧
    pathOf (mainPlan Fixes.all d0 .pdcp [] (words ["-w", "h", "a", "b"])) = some "/p".toList ∧
    ctmoOf (effective Fixes.all d0 .dsh [("PDSH_CONNECT_TIMEOUT".toList, "7".toList)] (words ["-w", "h", "-R", "rsh", "-t", "3", "ls"])) = some 3 ∧
    ctmoOf (effective Fixes.all d0 .dsh [("PDSH_CONNECT_TIMEOUT".toList, "7".toList)] (words ["-w", "h", "-R", "rsh", "ls"])) = some 7 ∧
    ctmoOf (effective Fixes.all d0 .dsh [] (words ["-w", "h", "-R", "rsh", "ls"])) = some 10 := by
  decide

end PdshVerif.C18
