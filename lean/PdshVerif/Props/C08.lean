/-
  C08  Exit status faithfully summarises the run.
  PROPERTY THEOREMS ONLY (helper lemmas live in PdshVerif/Dsh/Exit{Lemmas,Refine,Relay,Fan}.lean).

  Model: PdshVerif/Dsh/Exit.lean (mirror of _extract_rc, _flush_lines' rc update, rcmd_destroy fallback,
  exec_destroy, the -S loop of dsh(), main's mapping).  Spec: PdshVerif/Dsh/ExitSpec.lean.

  `Fixes.none` = the code as it was at the pinned commit; a theorem that needs a repair says which switch
  (`fx.d7/d8/d9/late/canc = true`).  Where the statement is FALSE of the unchanged code there is a
  kernel-checked counterexample `..._unchanged_false` and, where useful, a `..._partial` form.

  CLAUSE OF THE PROPERTY TEXT                                   THEOREM(S)
  "without -S or -k pdsh exits 0 after a run it was able to      noS_exit0; pcp_exit0 (pdcp / rpdcp have neither option:
   start"                                                         composed with C18's generated option strings)
  "and 1 when it refuses its arguments"                          refused_exit1, option_refusal_exit1 (composed with C18's
                                                                 `effective`: every refusal of the option stage is 1),
                                                                 every_refusal_exits_1 / every_info_exits_0 (EVERY statement of
                                                                 main.c / opt.c / module loading / dsh()'s prologue that ends
                                                                 the process before a target is contacted: Dsh/ExitRefuse.lean),
                                                                 tied to the source by the generated call-site probe:
                                                                 exit_sites_all_mapped, battery_agrees, every_refusal_probed,
                                                                 refusal_all_complete;
                                                                 abort_exit1 / sigint_abort_nonzero (^C, composed with C20)
  "with -S the exit status is the largest return code of any     S_is_max (repaired D8; S_is_max_unchanged_false,
   remote command, raised to 254 if any host could not be        S_is_max_partial), aggregate_perm, mainExit_perm,
   reached or timed out"                                         timeout_failed, timeout_nonzero
  "so it is 0 only if every command on every target ran and      S_zero_iff (repaired `canc`), S_zero_iff_seen,
   succeeded"                                                    S_zero_iff_unchanged, canceled_counts_as_success /
                                                                 canceled_counts_as_failure (F08-CANCELED)
  "a command that terminates abnormally never counts as          abnormal_nonzero (repaired D7; _unchanged_false)
   success"
  "with -k any failure makes the exit status non-zero"           k_any_failure_nonzero, k_out_of_band_failure (the -k test
                                                                 reads the status AFTER the teardown merge),
                                                                 out_of_band_rc_before_teardown;
                                                                 -k AS A TRANSITION SYSTEM (Dsh/ExitKill.lean: the poll-loop
                                                                 iterations, `_die_if_signalled`, the teardown test, `_fwd_signal`):
                                                                 kill_any_failure_every_schedule, kill_failing_host_completes,
                                                                 kill_exit_every_schedule (= mainExit, every schedule),
                                                                 kill_exec_every_schedule, kill_inband_every_schedule
                                                                 (noEarlyDeath_inband), kill_siblings, kill_returned_all_done,
                                                                 kill_witnesses, kill_early_death_witness
  quantifier "in any completion order"                           one_status_per_target, exit_any_schedule (composed with
                                                                 the fan-out LTS of C03: every schedule of every fanout)
  mechanism "marker appended to command"                         marker_requested, sent_command_keeps_command
  quantifier "status in-band (marker line)"                      extractRc_correct (D9; _unchanged_false, _partial),
                                                                 hostRc_inband (LATE; late_line_unchanged_false),
                                                                 inband_host_faithful, inband_exit_admissible,
                                                                 inband_rc_any_chunking(_index), inband_end_to_end(_max)
                                                                 (composed with the relay model of C05/C06 and cbuf of C13)
                                                                 through the REAL transport's handshake (xrcmd.c reads exactly one
                                                                 status byte; Dsh/ExitHandshake.lean): rsh_handshake_any_chunking,
                                                                 rsh_handshake_faithful (the marker survives sharing a read with
                                                                 the status byte), rsh_buffered_handshake_witness (class C08-14)
  "-S" x "-k" x a target that fails WITHOUT a return code        rsh_denied_Sk_exit1 (denied rsh target: failed, rc 0, yet -S -k
                                                                 exits 1 wherever it stands; class C08-13), rsh_denied_S_exit254
  quantifier "or out-of-band (child wait status)"                exec_exit_admissible
  the whole statement, both channels                             faithful_exit_admissible

  "a command that terminates abnormally never counts as          sigchld_ignored_status_lost / sigchld_ignored_exit0 (OPEN finding
   success", started with SIGCHLD inherited as ignored            C08-SIGCHLD-IGNORED-STATUS-LOST: pipecmd_wait's waitpid fails, status
                                                                 word 0: FALSE of the unchanged code for every command that ran),
                                                                 sigchld_restored_faithful (repaired: dsh() restores SIG_DFL; the
                                                                 channel is then exactly `execScript`, codes and signals survive)
                                                                 (Dsh/ExitChld.lean; driven on the real binary by vlib/exitchld.py)

  NOT PROVED / NOT MODELLED:
    * `pipecmd_wait` / `waitpid`: that exec_destroy blocks until the child is gone (real children in the harness (`xd`,
      late-exit children) and the real binary, no theorem); the status word it delivers is modelled only as far as the
      disposition of SIGCHLD decides it (Dsh/ExitChld.lean: ECHILD leaves 0).
    * -k: the transition system of Dsh/ExitKill.lean is the fanout-UNCONSTRAINED one (any target may be started at any
      time); the executions of the real dispatcher are a subset, so the every-schedule theorems cover them, but "at most
      fanout siblings are in flight when the run is ended" is C04's statement, not repeated here.  Two threads calling
      exit() at the same instant (two failures noticed at once) are one `exited` state of the model: the first wins;
      exit() is atomic in the model, in the real process the other threads run on until it has finished (a pending target
      may still be started in that interval: recorded by the check, `k_started_during_exit`, not judged).
      `pthread_create` failing (dsh(): errx, with -k after `_fwd_signal`) needs fault injection: not modelled, not driven.
    * outside the domain (two marker lines for one target) the exit status of a -k run depends on how the output is cut
      into poll-loop iterations: kill_early_death_witness; the generator keeps to one marker line per target.
    * the refusal paths inside mod.c / wcoll.c / rcmd.c (module directory checks, the target file reader, the transport
      registry) are driven on the real binary (vlib/exitrefuse.py), their call sites are not enumerated by the probe
      (harness/consts/exitsites.c covers opt.c and main.c); sites only a failing system call reaches (getcwd, getpwuid,
      fork, malloc) are listed by the probe (XS_SYSFAIL), not exercised.  `stdin_unavailable` is never set in this tree,
      so the `_usage` call of opt_verify ("no command and stdin taken by -w -") is dead code: `pdsh -w -` without a
      command enters the prompt loop at end of file (battery entry stdin-taken-no-command).
    * the Linux wait-status encoding, glibc atoi / strstr: modelled (Exit.lean, Base/CInt.lean), not verified.
    * pdcp / rpdcp: the exit status of a copy run is 0 whatever was copied (pcp_exit0); whether files arrived is C11.
-/
import PdshVerif.Dsh.Exit
import PdshVerif.Dsh.ExitSpec
import PdshVerif.Dsh.ExitLemmas
import PdshVerif.Dsh.ExitRefine
import PdshVerif.Dsh.ExitRelay
import PdshVerif.Relay.IndexSim
import PdshVerif.Dsh.SignalsAbort
import PdshVerif.Dsh.ExitFan
import PdshVerif.Dsh.FanExec
import PdshVerif.Opt.Command
import PdshVerif.Dsh.ExitKillLemmas
import PdshVerif.Dsh.ExitRefuse
import PdshVerif.Dsh.ExitChld
import PdshVerif.Dsh.ExitHandshake

namespace PdshVerif.C08
open PdshVerif PdshVerif.Dsh PdshVerif.Dsh.Exit

/-! ## without -S / -k, refused arguments -/

/-- without -S and -k a run that was started exits 0, whatever happened on the targets (any variant) -/
theorem noS_exit0 (fx : Fixes) (hs : List Host) :
    mainExit fx { S := false, k := false } (.started hs) = 0 := by
  simp [mainExit, dshReturn, exitStatus]

/-- refused arguments exit 1, whatever the flags -/
theorem refused_exit1 (fx : Fixes) (fl : Flags) : mainExit fx fl .refused = 1 := rfl

/-! ## the -S loop -/

/-- repaired loop (D8): -S returns the largest code, raised to RC_FAILED (254) if a target is seen as failed
    (`seen`: a failed one, and with the `canc` repair also a canceled one) -/
theorem S_is_max (fx : Fixes) (hd8 : fx.d8 = true) (hs : List Host) :
    aggregate fx hs = specAgg (hs.map (seen fx)) :=
  aggLoop_specAgg fx hd8 _

/-- FALSE of the unchanged loop: `rc = RC_FAILED` overwrites the larger 255 seen before -/
theorem S_is_max_unchanged_false : ¬ ∀ hs, aggregate Fixes.none hs = specAgg (hs.map (seen Fixes.none)) := by
  intro h
  have := h [⟨.done, 255⟩, ⟨.failed, 0⟩]
  revert this
  decide

/-- the unchanged loop is right as long as no code exceeds RC_FAILED -/
theorem S_is_max_partial (fx : Fixes) (hs : List Host) (h : ∀ x ∈ hs, x.rc ≤ RC_FAILED) :
    aggregate fx hs = specAgg (hs.map (seen fx)) := by
  rw [← aggLoop_specAgg Fixes.all rfl]
  refine aggLoop_unchanged_eq fx Fixes.all rfl 0 _ (by decide) ?_
  intro x hx
  obtain ⟨y, hy, rfl⟩ := List.mem_map.mp hx
  rw [seen_rc]
  exact h y hy

example : ∃ hs : List Host, (∀ x ∈ hs, x.rc ≤ RC_FAILED) ∧ hs.length = 2 ∧ specAgg hs = 254 :=
  ⟨[⟨.done, 7⟩, ⟨.failed, 1⟩], by decide⟩

/-- repaired loop: the result does not depend on the order of the targets -/
theorem aggregate_perm (fx : Fixes) (hd8 : fx.d8 = true) {hs hs' : List Host} (p : hs.Perm hs') :
    aggregate fx hs = aggregate fx hs' := by
  rw [S_is_max fx hd8, S_is_max fx hd8]
  have p' := p.map (seen fx)
  generalize hs.map (seen fx) = l at p' ⊢
  generalize hs'.map (seen fx) = l' at p' ⊢
  unfold specAgg maxRc maxRcFrom anyFailed
  have h1 : l.foldl (fun a h => max a h.rc) 0 = l'.foldl (fun a h => max a h.rc) 0 :=
    p'.foldl_eq' (fun x _ y _ z => by omega) 0
  have h2 : (l.any fun h => decide (h.state = State.failed)) = (l'.any fun h => decide (h.state = State.failed)) := by
    rw [Bool.eq_iff_iff]
    simp only [List.any_eq_true]
    exact ⟨fun ⟨x, hx, hp⟩ => ⟨x, p'.mem_iff.mp hx, hp⟩, fun ⟨x, hx, hp⟩ => ⟨x, p'.mem_iff.mpr hx, hp⟩⟩
  rw [h1, h2]

/-- FALSE of the unchanged loop: the same two targets in the other order give another status -/
theorem aggregate_perm_unchanged_false :
    ¬ ∀ hs hs' : List Host, hs.Perm hs' → aggregate Fixes.none hs = aggregate Fixes.none hs' := by
  intro h
  have := h [⟨.done, 255⟩, ⟨.failed, 0⟩] [⟨.failed, 0⟩, ⟨.done, 255⟩] (List.Perm.swap _ _ _)
  revert this
  decide

/-- every variant: -S is 0 exactly when no target is seen as failed and no code is positive -/
theorem S_zero_iff_seen (fx : Fixes) (hs : List Host) :
    aggregate fx hs = 0 ↔ ∀ h ∈ hs, (seen fx h).state ≠ .failed ∧ h.rc ≤ 0 := by
  unfold aggregate
  rw [aggLoop_zero_iff]
  constructor
  · intro h x hx
    have := h (seen fx x) (List.mem_map.mpr ⟨x, hx, rfl⟩)
    rwa [seen_rc] at this
  · intro h y hy
    obtain ⟨x, hx, rfl⟩ := List.mem_map.mp hy
    rw [seen_rc]
    exact h x hx

/-- S_ZERO_IFF at full strength (repair `canc`, canceledCountsAsFailure): with remote codes >= 0, -S is 0
    exactly when EVERY target's command ran to its end (state DONE) and returned 0 -/
theorem S_zero_iff (fx : Fixes) (hc : fx.canc = true) (hs : List Host) (hnn : ∀ h ∈ hs, 0 ≤ h.rc) :
    aggregate fx hs = 0 ↔ ∀ h ∈ hs, h.state = .done ∧ h.rc = 0 := by
  rw [S_zero_iff_seen]
  constructor
  · intro h x hx
    obtain ⟨h1, h2⟩ := h x hx
    exact ⟨(seen_not_failed_iff fx hc x).mp h1, by have := hnn x hx; omega⟩
  · intro h x hx
    obtain ⟨h1, h2⟩ := h x hx
    exact ⟨(seen_not_failed_iff fx hc x).mpr h1, by omega⟩

/-- what holds of the code WITHOUT the `canc` repair: 0 iff no target FAILED and no code is positive —
    `≠ failed`, not `= done` -/
theorem S_zero_iff_unchanged (fx : Fixes) (hc : fx.canc = false) (hs : List Host) :
    aggregate fx hs = 0 ↔ ∀ h ∈ hs, h.state ≠ .failed ∧ h.rc ≤ 0 := by
  rw [S_zero_iff_seen]
  simp only [seen_unrepaired fx hc]

/-- F08-CANCELED: `S_zero_iff` is FALSE without the `canc` repair — a target canceled by ^C^Z never ran, yet the
    status is 0; with the repair the same run gives 254 -/
theorem canceled_counts_as_success (fx : Fixes) (hc : fx.canc = false) : aggregate fx [⟨.canceled, 0⟩] = 0 := by
  simp [aggregate, aggLoop, seen, hc]

theorem canceled_counts_as_failure (fx : Fixes) (hc : fx.canc = true) :
    aggregate fx [⟨.done, 0⟩, ⟨.canceled, 0⟩] = 254 := by
  have : RC_FAILED = 254 := by decide
  cases hd : fx.d8 <;> simp [aggregate, aggLoop, seen, hc, hd, this] <;> omega

/-! ## the request for the status: "marker appended to command" -/

/-- THE STATUS IS ASKED FOR exactly when it is needed: with -S or with -k the command string handed to the transport
    is the user's command followed by `;echo XXRETCODE:$?` (so that an in-band transport's remote shell prints the
    marker line `extractRc_correct` reads); without both flags it is the user's command, verbatim -/
theorem marker_requested (fl : Flags) (cmd : Str) :
    ((fl.S = true ∨ fl.k = true) → sentCommand fl cmd = cmd ++ ";echo XXRETCODE:$?".toList) ∧
    (fl.S = false → fl.k = false → sentCommand fl cmd = cmd) := by
  have hg : getstat = ";echo XXRETCODE:$?".toList := by decide
  constructor
  · intro h
    unfold sentCommand
    rcases h with h | h <;> simp [h, hg]
  · intro h1 h2
    simp [sentCommand, h1, h2]

/-- the user's command is a prefix of what is sent in every case: nothing is inserted in front or inside -/
theorem sent_command_keeps_command (fl : Flags) (cmd : Str) : cmd <+: sentCommand fl cmd := by
  unfold sentCommand
  split
  · exact List.prefix_append _ _
  · exact List.prefix_refl _

/-! ## marker extraction -/

/-- repaired `_extract_rc` (D9): on the marker line `pre ++ "XXRETCODE:" ++ decimal c ++ "\n"` whose `pre`
    does not contain the marker's first character it returns `c` and leaves `pre` (re-terminated) -/
theorem extractRc_correct (fx : Fixes) (hd9 : fx.d9 = true) (pre : Str) (c : Nat) (hc : c < CInt.I31)
    (hpre : 'X' ∉ pre) :
    extractRc fx (markerLine pre c) = ((c : Int), if pre = [] then [] else pre ++ [NL]) := by
  unfold markerLine
  rw [extractRc_marker fx pre (digits c) hpre]
  have ha : CInt.atoi (digits c ++ [NL]) = c :=
    atoi_digits c [NL] hc (by intro x hx; simp at hx; subst hx; decide)
  by_cases hp : pre = []
  · simp [hp, ha]
  · simp [hp, hd9, ha]

/-- FALSE of the unchanged code when text precedes the marker: it parses from one past the first digit -/
theorem extractRc_correct_unchanged_false :
    extractRc Fixes.none "fooXXRETCODE:3\n".toList = (0, "foo\n".toList) ∧
    extractRc Fixes.none "fooXXRETCODE:255\n".toList = (55, "foo\n".toList) := by
  decide

/-- the unchanged code is right when the marker starts the line (the remote output ended in a newline) -/
theorem extractRc_correct_partial (fx : Fixes) (c : Nat) (hc : c < CInt.I31) :
    extractRc fx (markerLine [] c) = ((c : Int), []) := by
  unfold markerLine
  rw [extractRc_marker fx [] (digits c) (by simp)]
  simp [atoi_digits c [NL] hc (by intro x hx; simp at hx; subst hx; decide)]

/-- repaired in-band channel (D9 + LATE): after the command's own lines `out`, the marker line and any later
    lines `late` (none containing 'X'), th->rc is the code `c` the marker line carries -/
theorem hostRc_inband (fx : Fixes) (hd9 : fx.d9 = true) (hl : fx.late = true) (out late : List Str) (pre : Str)
    (c : Nat) (hc : c < CInt.I31) (hout : ∀ l ∈ out, 'X' ∉ l) (hlate : ∀ l ∈ late, 'X' ∉ l)
    (hpre : 'X' ∉ pre) (hnul : NUL ∉ pre) :
    rcAfterLines fx (out ++ [markerLine pre c] ++ late) = c := by
  unfold rcAfterLines
  rw [List.foldl_append, List.foldl_append, foldl_lineStep_noX fx hl 0 out hout]
  simp only [List.foldl_cons, List.foldl_nil]
  rw [foldl_lineStep_noX fx hl _ late hlate]
  have hn : NUL ∉ markerLine pre c := by
    unfold markerLine
    simp only [List.mem_append, not_or, List.mem_singleton]
    exact ⟨⟨⟨hnul, by decide⟩, digits_no_NUL c⟩, by decide⟩
  have hf : findSub MAGIC (markerLine pre c) = some pre.length := by
    unfold markerLine
    rw [MAGIC_eq, List.append_assoc (pre ++ _)]
    exact findSub_skip 'X' _ pre _ hpre
  unfold lineStep
  simp only [cstr_eq_self _ hn, hl, hf, if_true, Option.isSome_some, extractRc_correct fx hd9 pre c hc hpre]

/-- FALSE of the unchanged code: any line after the marker line resets the code to 0 -/
theorem late_line_unchanged_false :
    rcAfterLines Fixes.none ["XXRETCODE:3\n".toList, "late\n".toList] = 0 := by
  decide

/-! ## abnormal termination, -k -/

/-- repaired exec_destroy (D7): a child killed by signal s is reported as 128+s, never 0 -/
theorem abnormal_nonzero (fx : Fixes) (hd7 : fx.d7 = true) (s : Nat) (h1 : 1 ≤ s) (h2 : s ≤ 64) :
    (hostOf fx (execScript fx (.killed s))).rc = 128 + s ∧ (hostOf fx (execScript fx (.killed s))).rc ≠ 0 := by
  have hw : wifsignaled (s % 128) = true := by
    simp [wifsignaled, wtermsig]
    omega
  have hrc : (hostOf fx (execScript fx (.killed s))).rc = 128 + s := by
    simp only [hostOf, execScript, execDestroy, hd7, hw, Bool.and_self, if_true, Bool.not_true,
      Bool.false_eq_true, if_false, splitLines_nil, rcAfterLines, List.foldl_nil, wtermsig]
    rw [finalRc_zero _ (by omega)]
    have : s % 128 % 128 = s := by omega
    simp [this]
  exact ⟨hrc, by rw [hrc]; omega⟩

/-- OPEN FINDING C08-SIGCHLD-IGNORED-STATUS-LOST, every variant of the other repairs: started with SIGCHLD inherited as
    ignored (and dsh() not restoring the default), the code of EVERY target whose command ran is 0 — whatever it
    returned, whichever signal killed it (`pipecmd_wait`: waitpid fails with ECHILD, the status word stays 0) -/
theorem sigchld_ignored_status_lost (fx : Fixes) (e : ChldEnv) (h : e.ignored = true) (o : Outcome)
    (hran : o ≠ .connectFailed) : (hostOf fx (execScriptChld fx e o)).rc = 0 :=
  chld_ignored_status_lost fx e h o hran

/-- ... so `pdsh -S` (and `-S -k`) exits 0 for a command that returned 3 or was killed by signal 9: FALSE of the
    property text, in every variant -/
theorem sigchld_ignored_exit0 (fx : Fixes) (e : ChldEnv) (h : e.ignored = true) (k : Bool) :
    mainExit fx ⟨true, k⟩ (.started [hostOf fx (execScriptChld fx e (.exited 3))]) = 0 ∧
    mainExit fx ⟨true, k⟩ (.started [hostOf fx (execScriptChld fx e (.killed 9))]) = 0 :=
  chld_ignored_exit0 fx e h k

/-- REPAIRED (dsh() restores SIG_DFL for SIGCHLD): whatever disposition was inherited, the out-of-band channel is
    exactly the one all other theorems are about; a returned code c is the target's code, and (with D7) a signal s is
    reported as 128+s -/
theorem sigchld_restored_faithful (fx : Fixes) (e : ChldEnv) (hr : e.restored = true) :
    (∀ o, execScriptChld fx e o = execScript fx o) ∧
    (∀ c, c ≤ 255 → (hostOf fx (execScriptChld fx e (.exited c))).rc = c) ∧
    (fx.d7 = true → ∀ s, 1 ≤ s → s ≤ 64 → (hostOf fx (execScriptChld fx e (.killed s))).rc = 128 + s) :=
  ⟨execScriptChld_eq fx e (restored_not_ignored e hr), fun c hc => chld_restored_code fx e hr c hc,
   fun hd7 s h1 h2 => chld_restored_abnormal_nonzero fx hd7 e hr s h1 h2⟩

/-- FALSE of the unchanged code: the killed child counts as code 0; `pdsh -S` exits 0 and `-k` does not fire -/
theorem abnormal_nonzero_unchanged_false :
    (hostOf Fixes.none (execScript Fixes.none (.killed 9))).rc = 0 ∧
    mainExit Fixes.none ⟨true, false⟩ (.started [hostOf Fixes.none (execScript Fixes.none (.killed 9))]) = 0 ∧
    mainExit Fixes.none ⟨false, true⟩ (.started [hostOf Fixes.none (execScript Fixes.none (.killed 9))]) = 0 := by
  decide

/-- -k: if any target failed or has a positive code the exit status is 1, with or without -S (any variant) -/
theorem k_any_failure_nonzero (fx : Fixes) (S : Bool) (hs : List Host) (h : ∃ x ∈ hs, kFails x = true) :
    mainExit fx ⟨S, true⟩ (.started hs) = 1 := by
  have : hs.any kFails = true := by simpa [List.any_eq_true] using h
  simp [mainExit, this]

/-- -k SEES THE TEARDOWN STATUS (repaired D7): for the out-of-band channel the status of a target arrives only at
    its teardown (`rv = rcmd_destroy`, merged into `rc` by `finalRc`); the -k test reads the merged value, so EVERY
    failure in the property's domain — a non-zero code, death by a signal, an unreachable host, a time-out — fires it,
    in whatever position the target stands, and the exit status is 1.  (A -k test placed before the merge would see
    `rc = 0` for each of them: the class of the seeded changes C08-3 / -5 / -8.) -/
theorem k_out_of_band_failure (fx : Fixes) (hd7 : fx.d7 = true) (S : Bool) (outs : List Outcome)
    (hok : ∀ o ∈ outs, okOutcome o) (hfail : ∃ o ∈ outs, o.isFailure = true) :
    mainExit fx ⟨S, true⟩ (.started (outs.map fun o => hostOf fx (execScript fx o))) = 1 := by
  obtain ⟨o, ho, hf⟩ := hfail
  apply k_any_failure_nonzero
  refine ⟨hostOf fx (execScript fx o), List.mem_map.mpr ⟨o, ho, rfl⟩, ?_⟩
  rw [execHost_eq fx hd7 o (hok o ho)]
  cases o with
  | exited c =>
    cases c with
    | zero => simp [ExitSpec.Outcome.isFailure] at hf
    | succ c => simp [kFails, execHostSpec] <;> omega
  | killed s => simp [kFails, execHostSpec] <;> omega
  | connectFailed => simp [kFails, execHostSpec]
  | timedOut => simp [kFails, execHostSpec]

/-- ... while the value BEFORE the merge is 0 for every out-of-band failure that is reachable: the teardown status
    is the only carrier -/
theorem out_of_band_rc_before_teardown (fx : Fixes) (o : Outcome) :
    rcAfterLines fx (splitLines (execScript fx o).stdout) = 0 := by
  cases o <;> simp [execScript, splitLines_nil, rcAfterLines]

/-! ## the repaired model refines the specification, for every status channel -/

/-- MAIN REFINEMENT (repaired -S loop, D8): whatever the channel, if what the loop sees of every target is
    faithful to its outcome (`Faithful`: the code of a command that ran, a non-zero code for a killed one,
    state FAILED for an unreachable / timed-out one), then for every outcome vector in the domain, in any
    order, with and without -S / -k, the exit status is one the specification admits. -/
theorem faithful_exit_admissible (fx : Fixes) (hd8 : fx.d8 = true) (S k : Bool)
    (outs : List Outcome) (hs : List Host) (hrel : AllFaithful outs hs) (hok : ∀ o ∈ outs, okOutcome o) :
    ExitSpec.admissible S k false outs (mainExit fx ⟨S, k⟩ (.started hs)) = true := by
  obtain ⟨hF, hK, m1, m2, m3, m4⟩ := faithful_invariants outs hs hrel hok
  have hagg := S_is_max fx hd8 hs
  rw [map_seen_of_no_canceled fx hs (allFaithful_not_canceled hrel)] at hagg
  have hR : RC_FAILED = 254 := by decide
  have m0 := maxRcFrom_ge 0 hs
  unfold ExitSpec.admissible mainExit dshReturn
  simp only [hK, Bool.false_eq_true, if_false]
  by_cases hk : (k && outs.any ExitSpec.Outcome.isFailure) = true
  · simp [hk]
  · simp only [hk, if_false, Bool.false_eq_true]
    cases S with
    | false => simp [exitStatus]
    | true =>
      simp only [Bool.not_true, Bool.false_eq_true, if_false, if_true, hagg]
      unfold specAgg ExitSpec.base exitStatus
      rw [hF]
      unfold maxRc at *
      by_cases hkl : outs.any ExitSpec.Outcome.isKilled = true
      · have := m3 hkl
        simp only [hkl, if_true, Bool.and_eq_true, decide_eq_true_eq]
        by_cases hu : outs.any ExitSpec.Outcome.unreachable = true
        · simp only [hu, if_true, hR]; omega
        · simp only [hu, if_false, Bool.false_eq_true]; omega
      · have hkl' : outs.any ExitSpec.Outcome.isKilled = false := by simpa using hkl
        obtain ⟨j1, j2⟩ := m4 hkl'
        simp only [hkl, if_false, Bool.false_eq_true, decide_eq_true_eq]
        by_cases hu : outs.any ExitSpec.Outcome.unreachable = true
        · simp only [hu, if_true, hR]; omega
        · have hu' : outs.any ExitSpec.Outcome.unreachable = false := by simpa using hu
          have := j2 hu'
          simp only [hu, if_false, Bool.false_eq_true]; omega

/-! ## the repaired model refines the specification (out-of-band channel) -/

/-- for every vector of outcomes in the property's domain (exit codes 0..255, signals 1..64, connect
    failure, time-out), in any order, with and without -S / -k, the exit status the repaired model (D7, D8)
    computes for `-R exec` is one the specification admits -/
theorem exec_exit_admissible (fx : Fixes) (hd7 : fx.d7 = true) (hd8 : fx.d8 = true) (S k : Bool)
    (outs : List Outcome) (hok : ∀ o ∈ outs, okOutcome o) :
    ExitSpec.admissible S k false outs
      (mainExit fx ⟨S, k⟩ (.started (outs.map fun o => hostOf fx (execScript fx o)))) = true := by
  rw [map_execHost fx hd7 outs hok]
  exact faithful_exit_admissible fx hd8 S k outs _
    (allFaithful_map execHostSpec outs (fun o ho => execHostSpec_faithful o (hok o ho))) hok

example : ∀ o ∈ [ExitSpec.Outcome.exited 255, .killed 9, .connectFailed, .timedOut], okOutcome o := by
  simp [okOutcome]

/-- repaired in-band channel (D9 + LATE): what the -S loop sees of a target is faithful to its outcome -/
theorem inband_host_faithful (fx : Fixes) (hd9 : fx.d9 = true) (hl : fx.late = true) (o : Outcome)
    (hok : okOutcome o) (x : InbandData) (hx : x.ok) :
    Faithful o (hostOf fx (inbandScript x.out.flatten x.pre x.late.flatten o)) := by
  obtain ⟨ho, hla, hpx, hpn, hpl⟩ := hx
  have lines : ∀ c : Nat, splitLines (x.out.flatten ++ markerLine x.pre c ++ x.late.flatten) =
      x.out ++ [markerLine x.pre c] ++ x.late := by
    intro c
    have := splitLines_flatten (x.out ++ [markerLine x.pre c] ++ x.late) [] (by
      intro l hl'
      simp only [List.mem_append, List.mem_singleton] at hl'
      rcases hl' with (h1 | h1) | h1
      · exact (ho l h1).1
      · subst h1; exact markerLine_isLine _ _ hpl
      · exact (hla l h1).1) (by simp)
    simpa using this
  have rc : ∀ c : Nat, c < CInt.I31 →
      rcAfterLines fx (splitLines (x.out.flatten ++ markerLine x.pre c ++ x.late.flatten)) = c := by
    intro c hc
    rw [lines c]
    exact hostRc_inband fx hd9 hl x.out x.late x.pre c hc (fun l h => (ho l h).2) (fun l h => (hla l h).2) hpx hpn
  cases o with
  | exited c =>
    have hc : c ≤ 255 := hok
    simp only [Faithful, hostOf, inbandScript, Bool.not_true, Bool.false_eq_true, if_false]
    rw [rc c (by unfold CInt.I31; omega)]
    simp [finalRc]
  | killed s =>
    have hs : 1 ≤ s ∧ s ≤ 64 := hok
    simp only [Faithful, hostOf, inbandScript, Bool.not_true, Bool.false_eq_true, if_false]
    rw [rc (128 + s) (by unfold CInt.I31; omega)]
    simp [finalRc]
    omega
  | connectFailed => simp [Faithful, hostOf, inbandScript, finalRc]
  | timedOut =>
    have : splitLines (x.out.flatten ++ x.pre) = x.out :=
      splitLines_flatten x.out x.pre (fun l h => (ho l h).1) hpl
    simp only [Faithful, hostOf, inbandScript, Bool.not_true, Bool.false_eq_true, if_false, if_true, this]
    unfold rcAfterLines
    rw [foldl_lineStep_noX fx hl 0 x.out (fun l h => (ho l h).2)]
    simp [finalRc]

/-- in-band channel, whole run: outcome vector with per-target output data, repaired D8 + D9 + LATE -/
theorem inband_exit_admissible (fx : Fixes) (hd8 : fx.d8 = true) (hd9 : fx.d9 = true) (hl : fx.late = true)
    (S k : Bool) (run : List (Outcome × InbandData)) (hok : ∀ ox ∈ run, okOutcome ox.1 ∧ ox.2.ok) :
    ExitSpec.admissible S k false (run.map (·.1))
      (mainExit fx ⟨S, k⟩ (.started (run.map fun ox =>
        hostOf fx (inbandScript ox.2.out.flatten ox.2.pre ox.2.late.flatten ox.1)))) = true := by
  apply faithful_exit_admissible fx hd8
  · clear S k
    induction run with
    | nil => exact .nil
    | cons ox rest ih =>
      exact .cons (inband_host_faithful fx hd9 hl ox.1 (hok ox (by simp)).1 ox.2 (hok ox (by simp)).2)
        (ih (fun y hy => hok y (by simp [hy])))
  · intro o ho
    simp only [List.mem_map] at ho
    obtain ⟨ox, hm, rfl⟩ := ho
    exact (hok ox hm).1

example : (⟨["hello\n".toList], "no newline".toList, ["late\n".toList]⟩ : InbandData).ok := by
  refine ⟨?_, ?_, by decide, by decide, by decide⟩
  · intro l hl; simp at hl; subst hl; exact ⟨⟨"hello".toList, by decide, by decide⟩, by decide⟩
  · intro l hl; simp at hl; subst hl; exact ⟨⟨"late".toList, by decide, by decide⟩, by decide⟩

/-! ## runs that are cut short: command time-out, connect failure -/

/-- a command that was cut short by the command time-out leaves its target FAILED — for BOTH ways the expiry is
    noticed (`viaLoopTop`: by the worker itself at the top of its poll loop while the command keeps it busy, or
    through the watchdog's SIGALRM interrupting xpoll), whatever the command printed and whatever it returns
    after SIGTERM (0 when it traps TERM, 143, anything) -/
theorem timeout_failed (fx : Fixes) (sc : Script) (hc : sc.connectOk = true) (ht : sc.timedOut = true) :
    (hostOf fx sc).state = .failed := by
  simp [hostOf, hc, ht]

/-- TIMEOUT_NONZERO (every variant of the code; -S, or -k, or both): a run in which some command was cut short
    by a time-out (either detection path) or some target could not be reached cannot report success: the exit
    status is non-zero; under -S without -k it is RC_FAILED (254) or 255.  (Codes within 0..255.) -/
theorem timeout_nonzero (fx : Fixes) (fl : Flags) (hfl : fl.S = true ∨ fl.k = true) (scs : List Script)
    (hb : ∀ x ∈ scs, 0 ≤ (hostOf fx x).rc ∧ (hostOf fx x).rc ≤ 255)
    (hcut : ∃ sc ∈ scs, (sc.connectOk = true ∧ sc.timedOut = true) ∨ sc.connectOk = false) :
    mainExit fx fl (.started (scs.map (hostOf fx))) ≠ 0 ∧
    (fl.S = true → fl.k = false → 254 ≤ mainExit fx fl (.started (scs.map (hostOf fx)))) := by
  obtain ⟨sc, hsc, hwhy⟩ := hcut
  have hfailed : (hostOf fx sc).state = .failed := by
    rcases hwhy with ⟨hc, ht⟩ | hc
    · exact timeout_failed fx sc hc ht
    · simp [hostOf, hc]
  have hmem : hostOf fx sc ∈ scs.map (hostOf fx) := List.mem_map.mpr ⟨sc, hsc, rfl⟩
  have hseen : ∃ x ∈ (scs.map (hostOf fx)).map (seen fx), x.state = .failed := by
    refine ⟨seen fx (hostOf fx sc), List.mem_map.mpr ⟨_, hmem, rfl⟩, ?_⟩
    unfold seen; split <;> simp [hfailed]
  have hR : RC_FAILED = 254 := by decide
  have hlo := aggLoop_ge_failed fx 0 _ hseen
  have hhi : aggLoop fx 0 ((scs.map (hostOf fx)).map (seen fx)) ≤ 255 := by
    apply aggLoop_le fx 0 _ (by omega)
    intro x hx
    obtain ⟨y, hy, rfl⟩ := List.mem_map.mp hx
    obtain ⟨z, hz, rfl⟩ := List.mem_map.mp hy
    rw [seen_rc]
    exact (hb z hz).2
  have hkf : (scs.map (hostOf fx)).any kFails = true := by
    rw [List.any_eq_true]
    exact ⟨_, hmem, by simp [kFails, hfailed]⟩
  unfold mainExit dshReturn aggregate
  cases hk : fl.k with
  | true => simp [hkf]
  | false =>
    have hS : fl.S = true := by rcases hfl with h | h; exact h; simp [hk] at h
    simp only [Bool.false_and, Bool.false_eq_true, if_false, hS, if_true, exitStatus]
    constructor
    · omega
    · intro _ _; omega

/-- a run aborted by ^C (batch mode, or a second ^C within a second) exits 1, whatever the flags -/
theorem abort_exit1 (fx : Fixes) (fl : Flags) : mainExit fx fl .aborted = 1 := rfl

/-- SIGINT ABORT, composed with the signals model of C20 (Dsh/Signals.lean, all interleavings of dispatcher,
    workers, signals thread and deliveries): in every reachable state in which exit() has been called, its status
    is the one this model gives for an aborted run — 1, never 0 -/
theorem sigint_abort_nonzero {v : Fan.Variant} {g sw : Bool} {f n t0 : Nat} {b : Bool} {s : Sig.St} {c : Nat}
    (h : Sig.Reach v g sw f n b t0 s) (hx : s.exited = some c) (fx : Fixes) (fl : Flags) :
    c = mainExit fx fl .aborted ∧ c ≠ 0 := by
  have := (Sig.ainv_reach h).ex (by rw [hx]; rfl)
  rw [hx] at this
  have hc : c = 1 := by simpa using this.2
  exact ⟨by rw [hc]; rfl, by omega⟩

/-! ## end to end through the relay model: any chunking of every host's stdout -/

/-- IN-BAND RC, ANY CHUNKING (repaired D9 + late line; the relay model of Relay/Model.lean over the FIFO buffer,
    i.e. `_rsh_thread`'s read loop, `_do_output`, `_flush_lines`, `_extract_rc`, the drain and `_flush_output`):
    however the bytes of a host's stdout are cut into arrivals, if the command printed marker-free text and the
    remote shell then printed the marker line for exit code k (and marker-free output may still follow), the rc
    dsh() has for that host when its thread ends is k. -/
theorem inband_rc_any_chunking (cfg : Relay.Cfg) (hsk : cfg.rcSkipDigit = false) (hev : cfg.rcEveryLine = false)
    (t0host : Relay.Bytes) (t : ExitRelay.RelayTarget) (ht : t.ok) :
    (Relay.runStream Relay.fifoOps cfg t.host t0host 1 true t.b0 t.script).rc = t.code := by
  obtain ⟨hg, hb, hS, hroom, hU, hL, h0, hk⟩ := ht
  rw [(Relay.runStream_fifo_ok cfg t.host 1 true hg t0host hb t.script hroom).2, hS]
  exact ExitRelay.afterLines_marker cfg hsk hev t.host 1 t.user t.late t.code hk hU hL h0

/-- the same over the INDEX-level model of cbuf.c (the relay instance that is run against the real cbuf.c and
    dsh.c by the C05/C06 correspondence), via the simulation `runStream_index_eq_fifo` -/
theorem inband_rc_any_chunking_index (cfg : Relay.Cfg) (hsk : cfg.rcSkipDigit = false)
    (hev : cfg.rcEveryLine = false) (t0host : Relay.Bytes) (t : ExitRelay.RelayTarget) (ht : t.ok)
    (a0 : Cbuf.Cbuf) (ha : Relay.mkIndexBuf t.sizeMeta = some a0) :
    (Relay.runStream Relay.indexOps cfg t.host t0host 1 true a0 t.script).rc = t.code := by
  have hm : 0 < t.sizeMeta := Relay.growthOk_pos ht.1
  have h := Relay.runStream_index_eq_fifo cfg t.host t0host 1 true hm ha ht.2.1 t.script
  rw [h.2]
  exact inband_rc_any_chunking cfg hsk hev t0host t ht

/-- END TO END (repaired D8 + D9 + late line): for every vector of targets whose commands ran and returned
    their codes, every chunking of every host's stdout, with and without -S / -k, the process exit status is one
    the specification admits — the relay's per-line processing, `_extract_rc`, the `rcmd_destroy` fallback, the -S
    loop and main composed. -/
theorem inband_end_to_end (fx : Fixes) (hd8 : fx.d8 = true) (cfg : Relay.Cfg)
    (hsk : cfg.rcSkipDigit = false) (hev : cfg.rcEveryLine = false) (t0host : Relay.Bytes) (S k : Bool)
    (ts : List ExitRelay.RelayTarget) (hok : ∀ t ∈ ts, t.ok) :
    ExitSpec.admissible S k false (ts.map fun t => ExitSpec.Outcome.exited t.code)
      (mainExit fx ⟨S, k⟩ (.started (ts.map (ExitRelay.RelayTarget.seenBy cfg t0host)))) = true := by
  apply faithful_exit_admissible fx hd8
  · clear S k
    induction ts with
    | nil => exact .nil
    | cons t rest ih =>
      refine .cons ?_ (ih (fun y hy => hok y (by simp [hy])))
      have hrc := inband_rc_any_chunking cfg hsk hev t0host t (hok t (by simp))
      show ExitRelay.RelayTarget.seenBy cfg t0host t = ⟨.done, (t.code : Int)⟩
      unfold ExitRelay.RelayTarget.seenBy
      rw [hrc]
      simp [finalRc]
  · intro o ho
    simp only [List.mem_map] at ho
    obtain ⟨t, hm, rfl⟩ := ho
    have := (hok t hm).2.2.2.2.2.2.2
    show t.code ≤ 255
    omega

/-- ... and under -S that status IS the largest code -/
theorem inband_end_to_end_max (fx : Fixes) (hd8 : fx.d8 = true) (cfg : Relay.Cfg)
    (hsk : cfg.rcSkipDigit = false) (hev : cfg.rcEveryLine = false) (t0host : Relay.Bytes)
    (ts : List ExitRelay.RelayTarget) (hok : ∀ t ∈ ts, t.ok) :
    mainExit fx ⟨true, false⟩ (.started (ts.map (ExitRelay.RelayTarget.seenBy cfg t0host))) =
      ExitSpec.maxCode (ts.map fun t => ExitSpec.Outcome.exited t.code) := by
  have h := inband_end_to_end fx hd8 cfg hsk hev t0host true false ts hok
  unfold ExitSpec.admissible at h
  have hk : (ts.map fun t => ExitSpec.Outcome.exited t.code).any ExitSpec.Outcome.isKilled = false := by
    simp [List.any_eq_false, ExitSpec.Outcome.isKilled]
  have hu : (ts.map fun t => ExitSpec.Outcome.exited t.code).any ExitSpec.Outcome.unreachable = false := by
    simp [List.any_eq_false, ExitSpec.Outcome.unreachable]
  simp only [Bool.false_eq_true, if_false, Bool.false_and, Bool.not_true, hk, decide_eq_true_eq] at h
  rw [h]
  simp [ExitSpec.base, hu]

/-! ## composed with the fan-out LTS of C03 (every schedule) and with the option model of C18 -/

/-- repaired -S loop (D8): the exit status does not depend on the order of the targets, with or without -S / -k -/
theorem mainExit_perm (fx : Fixes) (hd8 : fx.d8 = true) (fl : Flags) {hs hs' : List Host} (p : hs.Perm hs') :
    mainExit fx fl (.started hs) = mainExit fx fl (.started hs') := by
  have hk : hs.any kFails = hs'.any kFails := by
    rw [Bool.eq_iff_iff]
    simp only [List.any_eq_true]
    exact ⟨fun ⟨x, hx, hp⟩ => ⟨x, p.mem_iff.mp hx, hp⟩, fun ⟨x, hx, hp⟩ => ⟨x, p.mem_iff.mpr hx, hp⟩⟩
  unfold mainExit dshReturn
  simp only [hk, aggregate_perm fx hd8 p]

/-- ONE STATUS PER TARGET, EVERY SCHEDULE (imported from the fan-out LTS of C03, `Hist` / `Inv.fin`): when dsh()
    has returned — for every fanout, every variant of the dispatcher, every interleaving of dispatcher and workers —
    the teardowns (`rcmd_destroy`, after which `t[i].rc` is final) that happened are exactly one for each of the
    `n` targets: `finished ls`, the completion order of the schedule, is a permutation of `0 .. n-1` -/
theorem one_status_per_target {v : Fan.Variant} {f n : Nat} {ls : List Fan.Label} {s : Fan.St}
    (he : Fan.Exec (Fan.init v f n) ls s) (hf : Fan.Final s) : (ExitFan.finished ls).Perm (List.range n) :=
  ExitFan.finished_perm_range he hf

/-- EXIT STATUS OVER THE FAN-OUT, ANY COMPLETION ORDER (repaired D8): take any terminated execution of the fan-out
    LTS over `n` targets and statuses `hs` faithful to the outcome vector `outs`.  The statuses in the order the
    schedule PRODUCED them are a permutation of the array the -S loop reads (one per target, none twice, none
    missing), the exit status computed from either is the same, and it is one the specification admits —
    "in any completion order, with and without -S / -k". -/
theorem exit_any_schedule (fx : Fixes) (hd8 : fx.d8 = true) (S k : Bool)
    {v : Fan.Variant} {f n : Nat} {ls : List Fan.Label} {s : Fan.St}
    (he : Fan.Exec (Fan.init v f n) ls s) (hf : Fan.Final s)
    (outs : List Outcome) (hs : List Host) (hn : hs.length = n) (hrel : AllFaithful outs hs)
    (hok : ∀ o ∈ outs, okOutcome o) :
    ((ExitFan.finished ls).map fun i => hs.getD i ⟨.done, 0⟩).Perm hs ∧
    mainExit fx ⟨S, k⟩ (.started ((ExitFan.finished ls).map fun i => hs.getD i ⟨.done, 0⟩)) =
      mainExit fx ⟨S, k⟩ (.started hs) ∧
    ExitSpec.admissible S k false outs
      (mainExit fx ⟨S, k⟩ (.started ((ExitFan.finished ls).map fun i => hs.getD i ⟨.done, 0⟩))) = true := by
  have hp : ((ExitFan.finished ls).map fun i => hs.getD i ⟨.done, 0⟩).Perm hs := by
    have := (one_status_per_target he hf).map (fun i => hs.getD i (⟨.done, 0⟩ : Host))
    rw [← hn, ExitFan.map_range_getD] at this
    exact this
  have he' := mainExit_perm fx hd8 ⟨S, k⟩ hp
  exact ⟨hp, he', by rw [he']; exact faithful_exit_admissible fx hd8 S k outs hs hrel hok⟩

/-- the hypotheses of `exit_any_schedule` are satisfiable: a complete schedule of two targets with fanout 1 (one
    spurious wake-up), second target's teardown after the first's -/
def witnessRun : List Fan.Label :=
  [.d .lock, .d (.create 0), .d .unlock, .d .lock, .d .wait,
   .w 0 .connectBegin, .w 0 .connectEnd, .w 0 .destroyBegin, .w 0 .destroyEnd, .w 0 .lock, .w 0 .signal,
   .d (.wake false), .w 0 .unlock, .d .relock, .d (.create 1), .d .unlock, .d .lock, .d .wait,
   .d (.wake true), .d .relock, .d .wait,
   .w 1 .connectBegin, .w 1 .connectEnd, .w 1 .destroyBegin, .w 1 .destroyEnd, .w 1 .lock, .w 1 .signal,
   .w 1 .unlock, .d (.wake false), .d .relock, .d .unlock, .d .ret]

example : ∃ s, Fan.Exec (Fan.init .whileWait 1 2) witnessRun s ∧ Fan.Final s ∧ ExitFan.finished witnessRun = [0, 1] := by
  have hd : (Fan.run (Fan.init .whileWait 1 2) witnessRun).map (·.dpc) = some .returned := by decide
  cases h : Fan.run (Fan.init .whileWait 1 2) witnessRun with
  | none => rw [h] at hd; cases hd
  | some s =>
    rw [h] at hd
    exact ⟨s, Fan.exec_of_run h, by simpa [Fan.Final] using hd, by decide⟩

/-- PDCP / RPDCP (the property's -S / -k clauses are about pdsh): the generated option strings of the copy
    personalities contain neither `S` nor `k` (C18.personality_letters), so in every accepted copy run both flags
    are off and a copy run that was started exits 0 whatever happened on the targets — the first clause of the
    property ("without -S or -k pdsh exits 0 after a run it was able to start") is the only one that applies.
    (`hm*`: no module registers an option -S / -k.) -/
theorem pcp_exit0 {ofx : Opt.Fixes} {d : Opt.Defaults} {p : Opt.Pers} {env : Opt.Env} {argv : List Opt.Str}
    {c : Opt.Cfg} (hmS : Opt.optKind (Opt.fullString d p) 'S' = none) (hmk : Opt.optKind (Opt.fullString d p) 'k' = none)
    (h : Opt.effective ofx d p env argv = .ok c) (fx : Fixes) (hs : List Host) :
    mainExit fx ⟨c.retRemoteRc, c.killOnFail⟩ (.started hs) = 0 := by
  obtain ⟨h1, h2⟩ := Opt.pcp_flags_off hmS hmk h
  rw [h1, h2]
  exact noS_exit0 fx hs

/-- REFUSED ARGUMENTS, composed with the option model of C18: whenever main ends before dsh() — a malformed
    variable, a bad option value, an unknown transport, opt_verify — and no information-only option (-L -V -T) is on
    the command line, the status the option model gives is the `refused` status of this model: 1 -/
theorem option_refusal_exit1 {ofx : Opt.Fixes} {d : Opt.Defaults} {p : Opt.Pers} {env : Opt.Env} {argv : List Opt.Str}
    {n : Nat} (h : Opt.effective ofx d p env argv = .exit n)
    (hinfo : ∀ t ∈ (Opt.getopt (Opt.fullString d p) argv).1, Opt.action ofx d t ≠ .exit 0) (fx : Fixes) (fl : Flags) :
    n = mainExit fx fl .refused := by
  rcases Opt.effective_exit_code h with h1 | ⟨_, t, hm, ha⟩
  · rw [h1]; rfl
  · exact absurd ha (hinfo t hm)

/-! ## every refusal path of main / opt.c / module loading / dsh()'s prologue -/

/-- EVERY REFUSAL EXITS 1: whichever statement ends the process before a target is contacted — `errx` (err.c: exit 1),
    a literal `exit (1)`, `_usage`, or main returning the `retval = 1` of a failed opt_verify — the status is 1, the
    status this model gives a refused run, whatever the flags (-S / -k play no part before dsh() is entered) -/
theorem every_refusal_exits_1 (r : Refusal) (fx : Fixes) (fl : Flags) :
    r.ending.status = 1 ∧ r.ending.status = mainExit fx fl .refused := by
  cases r <;> exact ⟨rfl, rfl⟩

/-- ... and every information-only ending (-L -V -T -q) exits 0 -/
theorem every_info_exits_0 (i : Info) : i.ending.status = 0 := by
  cases i <;> rfl

/-- the enumeration is complete as a type: every refusal is in `Refusal.all` (so a constructor added to the model
    must be given an ending, a name and a probe entry before this file builds) -/
theorem refusal_all_complete (r : Refusal) : r ∈ Refusal.all := by
  cases r <;> simp [Refusal.all]

/-- THE TIE TO THE SOURCE (Gen/Exitsites.lean is regenerated from the tree under check on every run by
    harness/consts/exitsites.c): every `errx` / `exit` call site of opt.c and main.c is reached by an entry of the
    probe's battery (or is one of the listed sites only a failing system call reaches).  A NEW exit path in opt.c /
    main.c that no known refusal reaches makes this list non-empty: the theorem no longer builds. -/
theorem exit_sites_all_mapped : Gen.XS_UNREACHED = [] := by decide

/-- every entry of the battery — run through the REAL main() of the tree under check — ended with the status the model
    gives for the outcome it stands for: each refusal 1, each information-only ending 0, a started run 0 -/
theorem battery_agrees :
    Gen.XS_BATTERY.all (fun e => statusOfName e.2.1 = some e.2.2.2) = true := by decide

/-- every refusal of the model (but the two in dsh()'s prologue, which the probe's stub of dsh() cannot reach: they
    are driven on the real binary) is exercised by at least one entry of the battery -/
theorem every_refusal_probed :
    (Refusal.all.filter (· ∉ Refusal.beyondProbe)).all
      (fun r => Gen.XS_BATTERY.any (fun e => e.2.1 = r.name)) = true := by decide

/-! ## -k as a transition system (Dsh/ExitKill.lean): where the process ends, in every schedule -/

section KillSchedules
open Kill

/-- -K, EVERY SCHEDULE (any variant of the code): take any schedule of a -k run — any interleaving of the workers, any
    cutting of every target's output into poll-loop iterations, any number of targets in flight — that ends the
    process.  If some target's command failed (a positive code through either channel, an unreachable host, a
    time-out), the exit status is 1 and the process was NOT ended by dsh() returning: it was ended by a worker's -k
    test.  (The executions of the real dispatcher are a subset of the schedules quantified over here.) -/
theorem kill_any_failure_every_schedule (fx : Fixes) (S : Bool) (ts : List Target) (evs : List Ev)
    {c : Nat} {how : How} {ps : List Phase} {sg : List Nat}
    (hx : exec fx ⟨S, true⟩ ts (init ts) evs = some (.exited c how ps sg))
    (hfail : ∃ t ∈ ts, kFails (hostOfT fx t) = true) : c = 1 ∧ how ≠ .returned := by
  have hi := sinv_reach fx ⟨S, true⟩ ts evs _ hx
  obtain ⟨hinv, hhow⟩ := hi
  cases how with
  | midstream i => exact ⟨hhow.1, by simp⟩
  | teardown i => exact ⟨hhow.1, by simp⟩
  | returned =>
    exfalso
    obtain ⟨hall, _, _⟩ := hhow
    obtain ⟨e1, e2⟩ := hostsOf_all_finished fx ⟨S, true⟩ ts ps hinv hall
    have hnone := e2 rfl
    rw [e1, List.any_eq_false] at hnone
    obtain ⟨t, ht, hk⟩ := hfail
    exact hnone (hostOfT fx t) (List.mem_map.mpr ⟨t, ht, rfl⟩) hk

/-- THE FAILING HOST CANNOT COMPLETE SILENTLY: in whatever reachable state of a -k run the teardown of a target whose
    final status fails is executed, that step ends the process with status 1, right there: the schedules "in which
    the failing host completes" all end in `exited 1 (teardown i)` at that step (or ended before it) -/
theorem kill_failing_host_completes (fx : Fixes) (S : Bool) (ts : List Target) (evs : List Ev) (ps : List Phase)
    (i : Nat) (sc : Script) (hx : exec fx ⟨S, true⟩ ts (init ts) evs = some (.run ps))
    (hi : ts[i]? = some (some sc)) (hk : kFails (hostOf fx sc) = true) (s' : St)
    (hs : step fx ⟨S, true⟩ ts (.run ps) (.teardown i) = some s') :
    s' = .exited 1 (.teardown i) ps (readingIdx ps) := by
  have hinv : Inv fx ⟨S, true⟩ ts ps := sinv_reach fx ⟨S, true⟩ ts evs _ hx
  simp only [step, hi] at hs
  split at hs
  · next st rc sc' h1 h2 =>
    simp only [Option.some.injEq] at h2; subst h2
    obtain ⟨hp, e1⟩ := getElem_of_getElem? h1
    obtain ⟨ht, e2⟩ := getElem_of_getElem? hi
    have hok := hinv.2 i hp ht
    rw [e1, e2] at hok
    have hok' : (⟨st, finalRc rc sc.rv⟩ : Host) = hostOf fx sc := hok
    rw [hok', hk] at hs
    simpa using hs.symm
  · cases hs

/-- THE EXIT STATUS DOES NOT DEPEND ON THE SCHEDULE, and it is `mainExit` (the function every other theorem of this
    file is about, the one the driver runs): for every flag combination and every schedule that ends the process —
    by a mid-stream death, by a teardown test, or by dsh() returning — the status is
    `mainExit fx fl (.started (statuses of the targets))`, provided no target dies in mid-stream although its final
    status is a success (`NoEarlyDeath`: true of every out-of-band target and of every target whose output carries
    one marker line, see `noEarlyDeath_of_no_lines`, `noEarlyDeath_of_prefix_stable`; FALSE e.g. for an output with a
    marker line > 128 followed by a marker line 0: `kill_early_death_witness`) -/
theorem kill_exit_every_schedule (fx : Fixes) (fl : Flags) (ts : List Target) (evs : List Ev)
    {c : Nat} {how : How} {ps : List Phase} {sg : List Nat}
    (hx : exec fx fl ts (init ts) evs = some (.exited c how ps sg)) (hne : NoEarlyDeath fx ts) :
    c = mainExit fx fl (.started (ts.map (hostOfT fx))) :=
  exited_code fx fl ts c how ps sg (sinv_reach fx fl ts evs _ hx) hne

/-- out-of-band status (`-R exec`): every schedule of every outcome vector ends with the status `mainExit` gives,
    which the specification admits (composition with `exec_exit_admissible`) -/
theorem kill_exec_every_schedule (fx : Fixes) (hd7 : fx.d7 = true) (hd8 : fx.d8 = true) (S k : Bool)
    (outs : List Outcome) (hok : ∀ o ∈ outs, okOutcome o) (evs : List Ev)
    {c : Nat} {how : How} {ps : List Phase} {sg : List Nat}
    (hx : exec fx ⟨S, k⟩ (outs.map fun o => some (execScript fx o))
      (init (outs.map fun o => some (execScript fx o))) evs = some (.exited c how ps sg)) :
    ExitSpec.admissible S k false outs c = true := by
  have hne : NoEarlyDeath fx (outs.map fun o => some (execScript fx o)) := by
    apply noEarlyDeath_of_no_lines
    intro sc hm
    simp only [List.mem_map, Option.some.injEq] at hm
    obtain ⟨o, _, rfl⟩ := hm
    cases o <;> simp [linesOf, execScript, splitLines_nil]
  have := kill_exit_every_schedule fx ⟨S, k⟩ _ evs hx hne
  rw [this, List.map_map]
  exact exec_exit_admissible fx hd7 hd8 S k outs hok

/-- in-band data of the property's domain: after every prefix of the lines `th->rc` is 0 or already the marker's code -/
theorem rcAfter_prefix_inband (fx : Fixes) (hd9 : fx.d9 = true) (hl : fx.late = true) (out late : List Str) (pre : Str)
    (c : Nat) (hc : c < CInt.I31) (hout : ∀ l ∈ out, 'X' ∉ l) (hlate : ∀ l ∈ late, 'X' ∉ l)
    (hpre : 'X' ∉ pre) (hnul : NUL ∉ pre) (m : Nat) :
    rcAfter fx 0 (out ++ [markerLine pre c] ++ late) 0 m = 0 ∨
    rcAfter fx 0 (out ++ [markerLine pre c] ++ late) 0 m = c := by
  unfold rcAfter
  simp only [List.drop_zero]
  by_cases hm : m ≤ out.length
  · left
    rw [List.append_assoc, List.take_append_of_le_length hm]
    exact foldl_lineStep_noX fx hl 0 _ (fun l h => hout l (List.mem_of_mem_take h))
  · right
    rw [List.take_append, List.take_of_length_le (by simp; omega)]
    exact hostRc_inband fx hd9 hl out _ pre c hc hout (fun l h => hlate l (List.mem_of_mem_take h)) hpre hnul

/-- IN-BAND TARGETS OF THE PROPERTY'S DOMAIN NEVER DIE EARLY WITHOUT FAILING (repaired D9 + late line): the hypothesis
    of `kill_exit_every_schedule` holds for every vector of outcomes with in-band data -/
theorem noEarlyDeath_inband (fx : Fixes) (hd9 : fx.d9 = true) (hl : fx.late = true)
    (run : List (Outcome × InbandData)) (hok : ∀ ox ∈ run, okOutcome ox.1 ∧ ox.2.ok) :
    NoEarlyDeath fx (run.map fun ox => some (inbandScript ox.2.out.flatten ox.2.pre ox.2.late.flatten ox.1)) := by
  intro sc hm m hle hrc
  simp only [List.mem_map, Option.some.injEq] at hm
  obtain ⟨⟨o, x⟩, hmem, rfl⟩ := hm
  obtain ⟨hoo, hx⟩ := hok _ hmem
  have hF := inband_host_faithful fx hd9 hl o hoo x hx
  cases o with
  | connectFailed => simp [kFails, hF.1]
  | timedOut => simp [kFails, hF.1]
  | killed s =>
    have := hF.2.1
    simp only [kFails, Bool.or_eq_true, decide_eq_true_eq]
    right; omega
  | exited c =>
    cases c with
    | succ c =>
      have : hostOf fx (inbandScript x.out.flatten x.pre x.late.flatten (.exited (c + 1))) = ⟨.done, ((c + 1 : Nat) : Int)⟩ := hF
      rw [this]
      simp only [kFails, Bool.or_eq_true, decide_eq_true_eq]
      right; omega
    | zero =>
      exfalso
      obtain ⟨ho, hla, hpx, hpn, hpl⟩ := hx
      have lines : linesOf (inbandScript x.out.flatten x.pre x.late.flatten (.exited 0)) =
          x.out ++ [markerLine x.pre 0] ++ x.late := by
        have := splitLines_flatten (x.out ++ [markerLine x.pre 0] ++ x.late) [] (by
          intro l hl'
          simp only [List.mem_append, List.mem_singleton] at hl'
          rcases hl' with (h1 | h1) | h1
          · exact (ho l h1).1
          · subst h1; exact markerLine_isLine _ _ hpl
          · exact (hla l h1).1) (by simp)
        simpa [linesOf, inbandScript] using this
      rw [lines] at hrc
      rcases rcAfter_prefix_inband fx hd9 hl x.out x.late x.pre 0 (by unfold CInt.I31; omega)
        (fun l h => (ho l h).2) (fun l h => (hla l h).2) hpx hpn m with h0 | h0 <;> rw [h0] at hrc <;> omega

/-- IN-BAND CHANNEL, EVERY SCHEDULE (repaired D8 + D9 + late line): for every vector of outcomes with in-band data of
    the property's domain, every flag combination and EVERY schedule that ends the process — however the output of
    every target is cut into poll-loop iterations, whichever worker's -k test fires first — the exit status is one the
    specification admits -/
theorem kill_inband_every_schedule (fx : Fixes) (hd8 : fx.d8 = true) (hd9 : fx.d9 = true) (hl : fx.late = true)
    (S k : Bool) (run : List (Outcome × InbandData)) (hok : ∀ ox ∈ run, okOutcome ox.1 ∧ ox.2.ok) (evs : List Ev)
    {c : Nat} {how : How} {ps : List Phase} {sg : List Nat}
    (hx : exec fx ⟨S, k⟩ (run.map fun ox => some (inbandScript ox.2.out.flatten ox.2.pre ox.2.late.flatten ox.1))
      (init (run.map fun ox => some (inbandScript ox.2.out.flatten ox.2.pre ox.2.late.flatten ox.1))) evs =
      some (.exited c how ps sg)) :
    ExitSpec.admissible S k false (run.map (·.1)) c = true := by
  have := kill_exit_every_schedule fx ⟨S, k⟩ _ evs hx (noEarlyDeath_inband fx hd9 hl run hok)
  rw [this, List.map_map]
  exact inband_exit_admissible fx hd8 hd9 hl S k run hok

/-- WHAT HAS BECOME OF THE SIBLINGS when a -k test ends the process (every reachable such state):
    (1) every target is in exactly one phase (the record has one entry per target);
    (2) SIGTERM is forwarded (`_fwd_signal`) to exactly the targets inside their poll loop — state DSH_READING: the
        commands that are running — and to no other: not to targets still connecting, not to those whose loop has
        ended, not to those never started; in a mid-stream death that includes the dying target itself, in a teardown
        death it does not;
    (3) a sibling that had completed has its full final status, and it had succeeded (else IT would have ended the run);
    (4) the model takes no step afterwards.  NOTE: `exited` is the moment exit() is CALLED.  In the real process the other
        threads run on until exit() has finished: a signalled sibling's worker ends and frees its slot, and the dispatcher
        may still call rcmd_connect for a pending target (observed on the scripted transport, evidence
        `k_started_during_exit`; the connection is cut off when the process ends).  (4) is a statement about the model
        only; nothing in the property speaks about that interval. -/
theorem kill_siblings (fx : Fixes) (fl : Flags) (ts : List Target) (evs : List Ev)
    {c : Nat} {how : How} {ps : List Phase} {sg : List Nat}
    (hx : exec fx fl ts (init ts) evs = some (.exited c how ps sg)) (hhow : how ≠ .returned) :
    ps.length = ts.length ∧
    (∀ j : Nat, j ∈ sg ↔ ∃ seen rc, ps[j]? = some (Phase.reading seen rc)) ∧
    (∀ (j : Nat) (h : Host), ps[j]? = some (Phase.finished h) → ts[j]?.map (hostOfT fx) = some h ∧ kFails h = false) ∧
    (∀ e, step fx fl ts (.exited c how ps sg) e = none) ∧
    (∀ i, how = .midstream i → i ∈ sg) ∧ (∀ i, how = .teardown i → i ∉ sg) := by
  have hi := sinv_reach fx fl ts evs _ hx
  obtain ⟨hinv, hh⟩ := hi
  have hk : fl.k = true ∧ sg = readingIdx ps := by
    cases how with
    | midstream i => exact ⟨hh.2.1, hh.2.2.1⟩
    | teardown i => exact ⟨hh.2.1, hh.2.2.1⟩
    | returned => exact absurd rfl hhow
  refine ⟨hinv.1, fun j => by rw [hk.2]; exact mem_readingIdx ps j, ?_, fun e => by cases e <;> rfl, ?_, ?_⟩
  · intro j h hj
    obtain ⟨hp, e1⟩ := getElem_of_getElem? hj
    have ht : j < ts.length := by rw [← hinv.1]; exact hp
    have hok := hinv.2 j hp ht
    rw [e1] at hok
    rw [List.getElem?_eq_getElem ht]
    cases htj : ts[j] with
    | none =>
      rw [htj] at hok
      have : h = ⟨.canceled, 0⟩ := by simpa [Ok] using hok
      subst this
      simp [hostOfT, kFails]
    | some sc =>
      rw [htj] at hok
      obtain ⟨e2, e3⟩ : h = hostOf fx sc ∧ (fl.k = true → kFails h = false) := hok
      exact ⟨by simp [hostOfT, e2], e3 hk.1⟩
  · intro i hm
    subst hm
    obtain ⟨_, _, _, seen, rc, sc, h1, _, _⟩ := hh
    rw [hk.2, mem_readingIdx]
    exact ⟨seen, rc, h1⟩
  · intro i hm
    subst hm
    obtain ⟨_, _, _, st, rc, sc, h1, _, _⟩ := hh
    rw [hk.2, mem_readingIdx]
    rintro ⟨seen, rc', h2⟩
    rw [h1] at h2
    cases h2

/-- ... and when dsh() returns, every target has completed, none was signalled, and under -k all of them succeeded -/
theorem kill_returned_all_done (fx : Fixes) (fl : Flags) (ts : List Target) (evs : List Ev)
    {c : Nat} {ps : List Phase} {sg : List Nat}
    (hx : exec fx fl ts (init ts) evs = some (.exited c .returned ps sg)) :
    sg = [] ∧ hostsOf ps = ts.map (hostOfT fx) ∧ (fl.k = true → (ts.map (hostOfT fx)).any kFails = false) := by
  obtain ⟨hinv, hall, _, hsg⟩ := sinv_reach fx fl ts evs _ hx
  obtain ⟨e1, e2⟩ := hostsOf_all_finished fx fl ts ps hinv hall
  exact ⟨hsg, e1, fun hk => by rw [← e1]; exact e2 hk⟩

/-- four targets: 0 prints the marker line of a command killed by signal 9 and keeps its stream open, 1 is a healthy
    command that is still running, 2 is a healthy one that has completed, 3 ends with code 3 (out of band) -/
def killWitness : List Target :=
  [some { connectOk := true, stdout := "XXRETCODE:137\n".toList, timedOut := false, rv := 0 },
   some { connectOk := true, stdout := "hello\n".toList, timedOut := false, rv := 0 },
   some { connectOk := true, stdout := [], timedOut := false, rv := 0 },
   some { connectOk := true, stdout := [], timedOut := false, rv := 3 }]

/-- EVERY SIBLING FATE IS REACHABLE, and both -k tests are: a schedule in which target 0 dies in mid-stream while
    sibling 1 is in its poll loop (signalled, with the dying target itself), sibling 2 has completed and sibling 3 was
    never started; a schedule of the same run in which target 3 (exit code 3 through the teardown) ends it while
    0 has not been polled yet; and, without -k, the sequential schedule in which dsh() returns -/
theorem kill_witnesses :
    exec Fixes.all ⟨false, true⟩ killWitness (init killWitness)
      [.start 2, .connected 2, .leave 2, .teardown 2, .start 0, .start 1, .connected 1, .connected 0, .poll 1 1, .poll 0 1] =
      some (.exited 1 (.midstream 0)
        [.reading 1 137, .reading 1 0, .finished ⟨.done, 0⟩, .new] [0, 1]) ∧
    exec Fixes.all ⟨false, true⟩ killWitness (init killWitness)
      [.start 0, .connected 0, .start 3, .connected 3, .leave 3, .teardown 3] =
      some (.exited 1 (.teardown 3) [.reading 0 0, .new, .new, .atEnd .done 0] [0]) ∧
    exec Fixes.all ⟨false, false⟩ killWitness (init killWitness) (sequential killWitness) =
      some (.exited 0 .returned
        [.finished ⟨.done, 137⟩, .finished ⟨.done, 0⟩, .finished ⟨.done, 0⟩, .finished ⟨.done, 3⟩] []) := by
  decide

/-- OUTSIDE the domain (two marker lines): whether the process ends in mid-stream depends on how the output is cut
    into poll-loop iterations — both lines in one iteration: the later marker has reset `th->rc` before
    `_die_if_signalled` looks, the run ends 0; one line per iteration: it dies with 1.  (`NoEarlyDeath` excludes
    exactly this; the generator of checks/c08.py keeps clear of it, as the remote shell prints ONE marker line.) -/
theorem kill_early_death_witness :
    exec Fixes.all ⟨false, true⟩
      [some { connectOk := true, stdout := "XXRETCODE:137\nXXRETCODE:0\n".toList, timedOut := false, rv := 0 }]
      (init [some { connectOk := true, stdout := "XXRETCODE:137\nXXRETCODE:0\n".toList, timedOut := false, rv := 0 }])
      [.start 0, .connected 0, .poll 0 2, .leave 0, .teardown 0, .ret] =
      some (.exited 0 .returned [.finished ⟨.done, 0⟩] []) ∧
    exec Fixes.all ⟨false, true⟩
      [some { connectOk := true, stdout := "XXRETCODE:137\nXXRETCODE:0\n".toList, timedOut := false, rv := 0 }]
      (init [some { connectOk := true, stdout := "XXRETCODE:137\nXXRETCODE:0\n".toList, timedOut := false, rv := 0 }])
      [.start 0, .connected 0, .poll 0 1] =
      some (.exited 1 (.midstream 0) [.reading 1 137] [0]) := by
  decide

end KillSchedules

/-! ## the in-band channel through the real transport's handshake (Dsh/ExitHandshake.lean) -/

/-- however the rsh server's answer (status byte, then the command's output) is cut into read()s, the relay is handed
    the same bytes: xrcmd consumes exactly the status byte -/
theorem rsh_handshake_any_chunking (cs₁ cs₂ : List Str) (h : cs₁.flatten = cs₂.flatten) :
    afterHandshake cs₁ = afterHandshake cs₂ := handshake_any_chunking cs₁ cs₂ h

/-- repaired in-band channel (D9 + LATE) BEHIND THE HANDSHAKE: for a command that ran, in every chunking of
    `status byte 0 ++ output ++ marker line ++ later lines` -- the marker line sharing a read() with the status byte
    included -- what the -S loop sees of the target is faithful to its outcome -/
theorem rsh_handshake_faithful (fx : Fixes) (hd9 : fx.d9 = true) (hl : fx.late = true) (o : Outcome)
    (hok : okOutcome o) (hran : ∃ n, o = .exited n ∨ o = .killed n) (x : InbandData) (hx : x.ok) (cs : List Str)
    (hcs : cs.flatten = NUL :: (inbandScript x.out.flatten x.pre x.late.flatten o).stdout) :
    Faithful o (hostOf fx (rshScript cs)) := by
  have : rshScript cs = inbandScript x.out.flatten x.pre x.late.flatten o := by
    obtain ⟨n, rfl | rfl⟩ := hran <;> exact rshScript_eq cs _ hcs rfl rfl rfl rfl
  rw [this]
  exact inband_host_faithful fx hd9 hl o hok x hx

/-- the class of the seeded change C08-14: a handshake that keeps only the first byte of what one read() returned makes
    the relayed bytes depend on the cut; the real one does not -/
theorem rsh_buffered_handshake_witness :
    ([[NUL, '3', NL]] : List Str).flatten = ([[NUL], ['3', NL]] : List Str).flatten ∧
    afterHandshakeBuffered [[NUL, '3', NL]] = some [] ∧
    afterHandshakeBuffered [[NUL], ['3', NL]] = some ['3', NL] ∧
    afterHandshake [[NUL, '3', NL]] = some ['3', NL] ∧
    afterHandshake [[NUL], ['3', NL]] = some ['3', NL] := buffered_depends_on_chunking

/-- -S x -k x A TARGET THAT FAILS WITHOUT ANY RETURN CODE (a denied rsh target: state failed, rc 0): the run ends with 1,
    with or without -S, wherever the target stands, in every chunking of the server's refusal (any variant) -/
theorem rsh_denied_Sk_exit1 (fx : Fixes) (S : Bool) (cs : List Str) (c : Char) (txt : Str) (hc : c ≠ NUL)
    (h : cs.flatten = c :: txt) (before after : List Host) :
    (hostOf fx (rshScript cs)).rc = 0 ∧
    mainExit fx ⟨S, true⟩ (.started (before ++ hostOf fx (rshScript cs) :: after)) = 1 := by
  have hh := rshScript_denied fx cs c txt hc h
  refine ⟨by rw [hh], ?_⟩
  apply k_any_failure_nonzero
  exact ⟨hostOf fx (rshScript cs), by simp, by rw [hh]; decide⟩

/-- ... and with -S alone a denied target alone gives RC_FAILED (254) -/
theorem rsh_denied_S_exit254 (fx : Fixes) (cs : List Str) (c : Char) (txt : Str) (hc : c ≠ NUL)
    (h : cs.flatten = c :: txt) :
    mainExit fx ⟨true, false⟩ (.started [hostOf fx (rshScript cs)]) = 254 := by
  rw [rshScript_denied fx cs c txt hc h]
  cases fx with
  | mk d7 d8 d9 late canc => cases d7 <;> cases d8 <;> cases d9 <;> cases late <;> cases canc <;> decide

/-- non-vacuity: a refusal `\x01 Permission denied.` cut into three pieces -/
example : ([[Char.ofNat 1], ['P', 'e'], ['r', NL]] : List Str).flatten = Char.ofNat 1 :: ['P', 'e', 'r', NL] ∧
    Char.ofNat 1 ≠ NUL := by decide

end PdshVerif.C08
