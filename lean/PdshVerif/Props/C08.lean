/-
  C08  Exit status faithfully summarises the run.
  PROPERTY THEOREMS ONLY (helper lemmas live in PdshVerif/Dsh/Exit{Lemmas,Refine,Relay,Fan}.lean).

  Model: PdshVerif/Dsh/Exit.lean (mirror of _extract_rc, _flush_lines' rc update, rcmd_destroy fallback,
  exec_destroy, the -S loop of dsh(), main's mapping).  Spec: PdshVerif/Dsh/ExitSpec.lean.

  `Fixes.none` = the code as it was at the pinned commit; a theorem that needs a repair says which switch
  (`fx.d7/d8/d9/late/canc = true`).  Where the statement is FALSE of the unchanged code there is a
  kernel-checked counterexample `..._unchanged_false` and, where useful, a `..._partial` form.

  CLAUSE OF THE PROPERTY TEXT                                   THEOREM(S)
  "without -S or -k pdsh exits 0 after a run it was able to      noS_exit0; pcp_exit0 (pdcp / rpdcp have neither option:
   start"                                                         composed with C18's generated option strings)
  "and 1 when it refuses its arguments"                          refused_exit1, option_refusal_exit1 (composed with C18's
                                                                 `effective`: every refusal of the option stage is 1),
                                                                 abort_exit1 / sigint_abort_nonzero (^C, composed with C20)
  "with -S the exit status is the largest return code of any     S_is_max (repaired D8; S_is_max_unchanged_false,
   remote command, raised to 254 if any host could not be        S_is_max_partial), aggregate_perm, mainExit_perm,
   reached or timed out"                                         timeout_failed, timeout_nonzero
  "so it is 0 only if every command on every target ran and      S_zero_iff (repaired `canc`), S_zero_iff_seen,
   succeeded"                                                    S_zero_iff_unchanged, canceled_counts_as_success /
                                                                 canceled_counts_as_failure (F08-CANCELED)
  "a command that terminates abnormally never counts as          abnormal_nonzero (repaired D7; _unchanged_false)
   success"
  "with -k any failure makes the exit status non-zero"           k_any_failure_nonzero, k_out_of_band_failure (the -k test
                                                                 reads the status AFTER the teardown merge),
                                                                 out_of_band_rc_before_teardown
  quantifier "in any completion order"                           one_status_per_target, exit_any_schedule (composed with
                                                                 the fan-out LTS of C03: every schedule of every fanout)
  mechanism "marker appended to command"                         marker_requested, sent_command_keeps_command
  quantifier "status in-band (marker line)"                      extractRc_correct (D9; _unchanged_false, _partial),
                                                                 hostRc_inband (LATE; late_line_unchanged_false),
                                                                 inband_host_faithful, inband_exit_admissible,
                                                                 inband_rc_any_chunking(_index), inband_end_to_end(_max)
                                                                 (composed with the relay model of C05/C06 and cbuf of C13)
  quantifier "or out-of-band (child wait status)"                exec_exit_admissible
  the whole statement, both channels                             faithful_exit_admissible

  NOT PROVED / NOT MODELLED:
    * `pipecmd_wait` / `waitpid` (that exec_destroy blocks until the child is gone and returns its real status): real
      children in the harness (`xd`, late-exit children) and the real binary, no theorem.
    * the -k fail-fast is modelled by its effect on the exit status (`kFails` on the per-target data AFTER the teardown
      merge: k_out_of_band_failure), not as a transition of the fan-out LTS (which sibling is killed when): the real
      dsh() (scripted transport) and the real binary run out-of-band failure x -k x position in every quick run.
    * `_die_if_signalled` (a marker code > 128 in mid-stream under -k): time dependent; generator keeps clear of it.
    * the Linux wait-status encoding, glibc atoi / strstr: modelled (Exit.lean, Base/CInt.lean), not verified.
    * pdcp / rpdcp: the exit status of a copy run is 0 whatever was copied (pcp_exit0); whether files arrived is C11.
-/
import PdshVerif.Dsh.Exit
import PdshVerif.Dsh.ExitSpec
import PdshVerif.Dsh.ExitLemmas
import PdshVerif.Dsh.ExitRefine
import PdshVerif.Dsh.ExitRelay
import PdshVerif.Relay.IndexSim
import PdshVerif.Dsh.SignalsAbort
import PdshVerif.Dsh.ExitFan
import PdshVerif.Dsh.FanExec
import PdshVerif.Opt.Command

namespace PdshVerif.C08
open PdshVerif PdshVerif.Dsh PdshVerif.Dsh.Exit

/-! ## without -S / -k, refused arguments -/

/-- without -S and -k a run that was started exits 0, whatever happened on the targets (any variant) -/
theorem noS_exit0 (fx : Fixes) (hs : List Host) :
    mainExit fx { S := false, k := false } (.started hs) = 0 := by
  simp [mainExit, dshReturn, exitStatus]

/-- refused arguments exit 1, whatever the flags -/
theorem refused_exit1 (fx : Fixes) (fl : Flags) : mainExit fx fl .refused = 1 := rfl

/-! ## the -S loop -/

/-- repaired loop (D8): -S returns the largest code, raised to RC_FAILED (254) if a target is seen as failed
    (`seen`: a failed one, and with the `canc` repair also a canceled one) -/
theorem S_is_max (fx : Fixes) (hd8 : fx.d8 = true) (hs : List Host) :
    aggregate fx hs = specAgg (hs.map (seen fx)) :=
  aggLoop_specAgg fx hd8 _

/-- FALSE of the unchanged loop: `rc = RC_FAILED` overwrites the larger 255 seen before -/
theorem S_is_max_unchanged_false : ¬ ∀ hs, aggregate Fixes.none hs = specAgg (hs.map (seen Fixes.none)) := by
  intro h
  have := h [⟨.done, 255⟩, ⟨.failed, 0⟩]
  revert this
  decide

/-- the unchanged loop is right as long as no code exceeds RC_FAILED -/
theorem S_is_max_partial (fx : Fixes) (hs : List Host) (h : ∀ x ∈ hs, x.rc ≤ RC_FAILED) :
    aggregate fx hs = specAgg (hs.map (seen fx)) := by
  rw [← aggLoop_specAgg Fixes.all rfl]
  refine aggLoop_unchanged_eq fx Fixes.all rfl 0 _ (by decide) ?_
  intro x hx
  obtain ⟨y, hy, rfl⟩ := List.mem_map.mp hx
  rw [seen_rc]
  exact h y hy

example : ∃ hs : List Host, (∀ x ∈ hs, x.rc ≤ RC_FAILED) ∧ hs.length = 2 ∧ specAgg hs = 254 :=
  ⟨[⟨.done, 7⟩, ⟨.failed, 1⟩], by decide⟩

/-- repaired loop: the result does not depend on the order of the targets -/
theorem aggregate_perm (fx : Fixes) (hd8 : fx.d8 = true) {hs hs' : List Host} (p : hs.Perm hs') :
    aggregate fx hs = aggregate fx hs' := by
  rw [S_is_max fx hd8, S_is_max fx hd8]
  have p' := p.map (seen fx)
  generalize hs.map (seen fx) = l at p' ⊢
  generalize hs'.map (seen fx) = l' at p' ⊢
  unfold specAgg maxRc maxRcFrom anyFailed
  have h1 : l.foldl (fun a h => max a h.rc) 0 = l'.foldl (fun a h => max a h.rc) 0 :=
    p'.foldl_eq' (fun x _ y _ z => by omega) 0
  have h2 : (l.any fun h => decide (h.state = State.failed)) = (l'.any fun h => decide (h.state = State.failed)) := by
    rw [Bool.eq_iff_iff]
    simp only [List.any_eq_true]
    exact ⟨fun ⟨x, hx, hp⟩ => ⟨x, p'.mem_iff.mp hx, hp⟩, fun ⟨x, hx, hp⟩ => ⟨x, p'.mem_iff.mpr hx, hp⟩⟩
  rw [h1, h2]

/-- FALSE of the unchanged loop: the same two targets in the other order give another status -/
theorem aggregate_perm_unchanged_false :
    ¬ ∀ hs hs' : List Host, hs.Perm hs' → aggregate Fixes.none hs = aggregate Fixes.none hs' := by
  intro h
  have := h [⟨.done, 255⟩, ⟨.failed, 0⟩] [⟨.failed, 0⟩, ⟨.done, 255⟩] (List.Perm.swap _ _ _)
  revert this
  decide

/-- every variant: -S is 0 exactly when no target is seen as failed and no code is positive -/
theorem S_zero_iff_seen (fx : Fixes) (hs : List Host) :
    aggregate fx hs = 0 ↔ ∀ h ∈ hs, (seen fx h).state ≠ .failed ∧ h.rc ≤ 0 := by
  unfold aggregate
  rw [aggLoop_zero_iff]
  constructor
  · intro h x hx
    have := h (seen fx x) (List.mem_map.mpr ⟨x, hx, rfl⟩)
    rwa [seen_rc] at this
  · intro h y hy
    obtain ⟨x, hx, rfl⟩ := List.mem_map.mp hy
    rw [seen_rc]
    exact h x hx

/-- S_ZERO_IFF at full strength (repair `canc`, canceledCountsAsFailure): with remote codes >= 0, -S is 0
    exactly when EVERY target's command ran to its end (state DONE) and returned 0 -/
theorem S_zero_iff (fx : Fixes) (hc : fx.canc = true) (hs : List Host) (hnn : ∀ h ∈ hs, 0 ≤ h.rc) :
    aggregate fx hs = 0 ↔ ∀ h ∈ hs, h.state = .done ∧ h.rc = 0 := by
  rw [S_zero_iff_seen]
  constructor
  · intro h x hx
    obtain ⟨h1, h2⟩ := h x hx
    exact ⟨(seen_not_failed_iff fx hc x).mp h1, by have := hnn x hx; omega⟩
  · intro h x hx
    obtain ⟨h1, h2⟩ := h x hx
    exact ⟨(seen_not_failed_iff fx hc x).mpr h1, by omega⟩

/-- what holds of the code WITHOUT the `canc` repair: 0 iff no target FAILED and no code is positive —
    `≠ failed`, not `= done` -/
theorem S_zero_iff_unchanged (fx : Fixes) (hc : fx.canc = false) (hs : List Host) :
    aggregate fx hs = 0 ↔ ∀ h ∈ hs, h.state ≠ .failed ∧ h.rc ≤ 0 := by
  rw [S_zero_iff_seen]
  simp only [seen_unrepaired fx hc]

/-- F08-CANCELED: `S_zero_iff` is FALSE without the `canc` repair — a target canceled by ^C^Z never ran, yet the
    status is 0; with the repair the same run gives 254 -/
theorem canceled_counts_as_success (fx : Fixes) (hc : fx.canc = false) : aggregate fx [⟨.canceled, 0⟩] = 0 := by
  simp [aggregate, aggLoop, seen, hc]

theorem canceled_counts_as_failure (fx : Fixes) (hc : fx.canc = true) :
    aggregate fx [⟨.done, 0⟩, ⟨.canceled, 0⟩] = 254 := by
  have : RC_FAILED = 254 := by decide
  cases hd : fx.d8 <;> simp [aggregate, aggLoop, seen, hc, hd, this] <;> omega

/-! ## the request for the status: "marker appended to command" -/

/-- THE STATUS IS ASKED FOR exactly when it is needed: with -S or with -k the command string handed to the transport
    is the user's command followed by `;echo XXRETCODE:$?` (so that an in-band transport's remote shell prints the
    marker line `extractRc_correct` reads); without both flags it is the user's command, verbatim -/
theorem marker_requested (fl : Flags) (cmd : Str) :
    ((fl.S = true ∨ fl.k = true) → sentCommand fl cmd = cmd ++ ";echo XXRETCODE:$?".toList) ∧
    (fl.S = false → fl.k = false → sentCommand fl cmd = cmd) := by
  have hg : getstat = ";echo XXRETCODE:$?".toList := by decide
  constructor
  · intro h
    unfold sentCommand
    rcases h with h | h <;> simp [h, hg]
  · intro h1 h2
    simp [sentCommand, h1, h2]

/-- the user's command is a prefix of what is sent in every case: nothing is inserted in front or inside -/
theorem sent_command_keeps_command (fl : Flags) (cmd : Str) : cmd <+: sentCommand fl cmd := by
  unfold sentCommand
  split
  · exact List.prefix_append _ _
  · exact List.prefix_refl _

/-! ## marker extraction -/

/-- repaired `_extract_rc` (D9): on the marker line `pre ++ "XXRETCODE:" ++ decimal c ++ "\n"` whose `pre`
    does not contain the marker's first character it returns `c` and leaves `pre` (re-terminated) -/
theorem extractRc_correct (fx : Fixes) (hd9 : fx.d9 = true) (pre : Str) (c : Nat) (hc : c < CInt.I31)
    (hpre : 'X' ∉ pre) :
    extractRc fx (markerLine pre c) = ((c : Int), if pre = [] then [] else pre ++ [NL]) := by
  unfold markerLine
  rw [extractRc_marker fx pre (digits c) hpre]
  have ha : CInt.atoi (digits c ++ [NL]) = c :=
    atoi_digits c [NL] hc (by intro x hx; simp at hx; subst hx; decide)
  by_cases hp : pre = []
  · simp [hp, ha]
  · simp [hp, hd9, ha]

/-- FALSE of the unchanged code when text precedes the marker: it parses from one past the first digit -/
theorem extractRc_correct_unchanged_false :
    extractRc Fixes.none "fooXXRETCODE:3\n".toList = (0, "foo\n".toList) ∧
    extractRc Fixes.none "fooXXRETCODE:255\n".toList = (55, "foo\n".toList) := by
  decide

/-- the unchanged code is right when the marker starts the line (the remote output ended in a newline) -/
theorem extractRc_correct_partial (fx : Fixes) (c : Nat) (hc : c < CInt.I31) :
    extractRc fx (markerLine [] c) = ((c : Int), []) := by
  unfold markerLine
  rw [extractRc_marker fx [] (digits c) (by simp)]
  simp [atoi_digits c [NL] hc (by intro x hx; simp at hx; subst hx; decide)]

/-- repaired in-band channel (D9 + LATE): after the command's own lines `out`, the marker line and any later
    lines `late` (none containing 'X'), th->rc is the code `c` the marker line carries -/
theorem hostRc_inband (fx : Fixes) (hd9 : fx.d9 = true) (hl : fx.late = true) (out late : List Str) (pre : Str)
    (c : Nat) (hc : c < CInt.I31) (hout : ∀ l ∈ out, 'X' ∉ l) (hlate : ∀ l ∈ late, 'X' ∉ l)
    (hpre : 'X' ∉ pre) (hnul : NUL ∉ pre) :
    rcAfterLines fx (out ++ [markerLine pre c] ++ late) = c := by
  unfold rcAfterLines
  rw [List.foldl_append, List.foldl_append, foldl_lineStep_noX fx hl 0 out hout]
  simp only [List.foldl_cons, List.foldl_nil]
  rw [foldl_lineStep_noX fx hl _ late hlate]
  have hn : NUL ∉ markerLine pre c := by
    unfold markerLine
    simp only [List.mem_append, not_or, List.mem_singleton]
    exact ⟨⟨⟨hnul, by decide⟩, digits_no_NUL c⟩, by decide⟩
  have hf : findSub MAGIC (markerLine pre c) = some pre.length := by
    unfold markerLine
    rw [MAGIC_eq, List.append_assoc (pre ++ _)]
    exact findSub_skip 'X' _ pre _ hpre
  unfold lineStep
  simp only [cstr_eq_self _ hn, hl, hf, if_true, Option.isSome_some, extractRc_correct fx hd9 pre c hc hpre]

/-- FALSE of the unchanged code: any line after the marker line resets the code to 0 -/
theorem late_line_unchanged_false :
    rcAfterLines Fixes.none ["XXRETCODE:3\n".toList, "late\n".toList] = 0 := by
  decide

/-! ## abnormal termination, -k -/

/-- repaired exec_destroy (D7): a child killed by signal s is reported as 128+s, never 0 -/
theorem abnormal_nonzero (fx : Fixes) (hd7 : fx.d7 = true) (s : Nat) (h1 : 1 ≤ s) (h2 : s ≤ 64) :
    (hostOf fx (execScript fx (.killed s))).rc = 128 + s ∧ (hostOf fx (execScript fx (.killed s))).rc ≠ 0 := by
  have hw : wifsignaled (s % 128) = true := by
    simp [wifsignaled, wtermsig]
    omega
  have hrc : (hostOf fx (execScript fx (.killed s))).rc = 128 + s := by
    simp only [hostOf, execScript, execDestroy, hd7, hw, Bool.and_self, if_true, Bool.not_true,
      Bool.false_eq_true, if_false, splitLines_nil, rcAfterLines, List.foldl_nil, wtermsig]
    rw [finalRc_zero _ (by omega)]
    have : s % 128 % 128 = s := by omega
    simp [this]
  exact ⟨hrc, by rw [hrc]; omega⟩

/-- FALSE of the unchanged code: the killed child counts as code 0; `pdsh -S` exits 0 and `-k` does not fire -/
theorem abnormal_nonzero_unchanged_false :
    (hostOf Fixes.none (execScript Fixes.none (.killed 9))).rc = 0 ∧
    mainExit Fixes.none ⟨true, false⟩ (.started [hostOf Fixes.none (execScript Fixes.none (.killed 9))]) = 0 ∧
    mainExit Fixes.none ⟨false, true⟩ (.started [hostOf Fixes.none (execScript Fixes.none (.killed 9))]) = 0 := by
  decide

/-- -k: if any target failed or has a positive code the exit status is 1, with or without -S (any variant) -/
theorem k_any_failure_nonzero (fx : Fixes) (S : Bool) (hs : List Host) (h : ∃ x ∈ hs, kFails x = true) :
    mainExit fx ⟨S, true⟩ (.started hs) = 1 := by
  have : hs.any kFails = true := by simpa [List.any_eq_true] using h
  simp [mainExit, this]

/-- -k SEES THE TEARDOWN STATUS (repaired D7): for the out-of-band channel the status of a target arrives only at
    its teardown (`rv = rcmd_destroy`, merged into `rc` by `finalRc`); the -k test reads the merged value, so EVERY
    failure in the property's domain — a non-zero code, death by a signal, an unreachable host, a time-out — fires it,
    in whatever position the target stands, and the exit status is 1.  (A -k test placed before the merge would see
    `rc = 0` for each of them: the class of the seeded changes C08-3 / -5 / -8.) -/
theorem k_out_of_band_failure (fx : Fixes) (hd7 : fx.d7 = true) (S : Bool) (outs : List Outcome)
    (hok : ∀ o ∈ outs, okOutcome o) (hfail : ∃ o ∈ outs, o.isFailure = true) :
    mainExit fx ⟨S, true⟩ (.started (outs.map fun o => hostOf fx (execScript fx o))) = 1 := by
  obtain ⟨o, ho, hf⟩ := hfail
  apply k_any_failure_nonzero
  refine ⟨hostOf fx (execScript fx o), List.mem_map.mpr ⟨o, ho, rfl⟩, ?_⟩
  rw [execHost_eq fx hd7 o (hok o ho)]
  cases o with
  | exited c =>
    cases c with
    | zero => simp [ExitSpec.Outcome.isFailure] at hf
    | succ c => simp [kFails, execHostSpec] <;> omega
  | killed s => simp [kFails, execHostSpec] <;> omega
  | connectFailed => simp [kFails, execHostSpec]
  | timedOut => simp [kFails, execHostSpec]

/-- ... while the value BEFORE the merge is 0 for every out-of-band failure that is reachable: the teardown status
    is the only carrier -/
theorem out_of_band_rc_before_teardown (fx : Fixes) (o : Outcome) :
    rcAfterLines fx (splitLines (execScript fx o).stdout) = 0 := by
  cases o <;> simp [execScript, splitLines_nil, rcAfterLines]

/-! ## the repaired model refines the specification, for every status channel -/

/-- MAIN REFINEMENT (repaired -S loop, D8): whatever the channel, if what the loop sees of every target is
    faithful to its outcome (`Faithful`: the code of a command that ran, a non-zero code for a killed one,
    state FAILED for an unreachable / timed-out one), then for every outcome vector in the domain, in any
    order, with and without -S / -k, the exit status is one the specification admits. -/
theorem faithful_exit_admissible (fx : Fixes) (hd8 : fx.d8 = true) (S k : Bool)
    (outs : List Outcome) (hs : List Host) (hrel : AllFaithful outs hs) (hok : ∀ o ∈ outs, okOutcome o) :
    ExitSpec.admissible S k false outs (mainExit fx ⟨S, k⟩ (.started hs)) = true := by
  obtain ⟨hF, hK, m1, m2, m3, m4⟩ := faithful_invariants outs hs hrel hok
  have hagg := S_is_max fx hd8 hs
  rw [map_seen_of_no_canceled fx hs (allFaithful_not_canceled hrel)] at hagg
  have hR : RC_FAILED = 254 := by decide
  have m0 := maxRcFrom_ge 0 hs
  unfold ExitSpec.admissible mainExit dshReturn
  simp only [hK, Bool.false_eq_true, if_false]
  by_cases hk : (k && outs.any ExitSpec.Outcome.isFailure) = true
  · simp [hk]
  · simp only [hk, if_false, Bool.false_eq_true]
    cases S with
    | false => simp [exitStatus]
    | true =>
      simp only [Bool.not_true, Bool.false_eq_true, if_false, if_true, hagg]
      unfold specAgg ExitSpec.base exitStatus
      rw [hF]
      unfold maxRc at *
      by_cases hkl : outs.any ExitSpec.Outcome.isKilled = true
      · have := m3 hkl
        simp only [hkl, if_true, Bool.and_eq_true, decide_eq_true_eq]
        by_cases hu : outs.any ExitSpec.Outcome.unreachable = true
        · simp only [hu, if_true, hR]; omega
        · simp only [hu, if_false, Bool.false_eq_true]; omega
      · have hkl' : outs.any ExitSpec.Outcome.isKilled = false := by simpa using hkl
        obtain ⟨j1, j2⟩ := m4 hkl'
        simp only [hkl, if_false, Bool.false_eq_true, decide_eq_true_eq]
        by_cases hu : outs.any ExitSpec.Outcome.unreachable = true
        · simp only [hu, if_true, hR]; omega
        · have hu' : outs.any ExitSpec.Outcome.unreachable = false := by simpa using hu
          have := j2 hu'
          simp only [hu, if_false, Bool.false_eq_true]; omega

/-! ## the repaired model refines the specification (out-of-band channel) -/

/-- for every vector of outcomes in the property's domain (exit codes 0..255, signals 1..64, connect
    failure, time-out), in any order, with and without -S / -k, the exit status the repaired model (D7, D8)
    computes for `-R exec` is one the specification admits -/
theorem exec_exit_admissible (fx : Fixes) (hd7 : fx.d7 = true) (hd8 : fx.d8 = true) (S k : Bool)
    (outs : List Outcome) (hok : ∀ o ∈ outs, okOutcome o) :
    ExitSpec.admissible S k false outs
      (mainExit fx ⟨S, k⟩ (.started (outs.map fun o => hostOf fx (execScript fx o)))) = true := by
  rw [map_execHost fx hd7 outs hok]
  exact faithful_exit_admissible fx hd8 S k outs _
    (allFaithful_map execHostSpec outs (fun o ho => execHostSpec_faithful o (hok o ho))) hok

example : ∀ o ∈ [ExitSpec.Outcome.exited 255, .killed 9, .connectFailed, .timedOut], okOutcome o := by
  simp [okOutcome]

/-- repaired in-band channel (D9 + LATE): what the -S loop sees of a target is faithful to its outcome -/
theorem inband_host_faithful (fx : Fixes) (hd9 : fx.d9 = true) (hl : fx.late = true) (o : Outcome)
    (hok : okOutcome o) (x : InbandData) (hx : x.ok) :
    Faithful o (hostOf fx (inbandScript x.out.flatten x.pre x.late.flatten o)) := by
  obtain ⟨ho, hla, hpx, hpn, hpl⟩ := hx
  have lines : ∀ c : Nat, splitLines (x.out.flatten ++ markerLine x.pre c ++ x.late.flatten) =
      x.out ++ [markerLine x.pre c] ++ x.late := by
    intro c
    have := splitLines_flatten (x.out ++ [markerLine x.pre c] ++ x.late) [] (by
      intro l hl'
      simp only [List.mem_append, List.mem_singleton] at hl'
      rcases hl' with (h1 | h1) | h1
      · exact (ho l h1).1
      · subst h1; exact markerLine_isLine _ _ hpl
      · exact (hla l h1).1) (by simp)
    simpa using this
  have rc : ∀ c : Nat, c < CInt.I31 →
      rcAfterLines fx (splitLines (x.out.flatten ++ markerLine x.pre c ++ x.late.flatten)) = c := by
    intro c hc
    rw [lines c]
    exact hostRc_inband fx hd9 hl x.out x.late x.pre c hc (fun l h => (ho l h).2) (fun l h => (hla l h).2) hpx hpn
  cases o with
  | exited c =>
    have hc : c ≤ 255 := hok
    simp only [Faithful, hostOf, inbandScript, Bool.not_true, Bool.false_eq_true, if_false]
    rw [rc c (by unfold CInt.I31; omega)]
    simp [finalRc]
  | killed s =>
    have hs : 1 ≤ s ∧ s ≤ 64 := hok
    simp only [Faithful, hostOf, inbandScript, Bool.not_true, Bool.false_eq_true, if_false]
    rw [rc (128 + s) (by unfold CInt.I31; omega)]
    simp [finalRc]
    omega
  | connectFailed => simp [Faithful, hostOf, inbandScript, finalRc]
  | timedOut =>
    have : splitLines (x.out.flatten ++ x.pre) = x.out :=
      splitLines_flatten x.out x.pre (fun l h => (ho l h).1) hpl
    simp only [Faithful, hostOf, inbandScript, Bool.not_true, Bool.false_eq_true, if_false, if_true, this]
    unfold rcAfterLines
    rw [foldl_lineStep_noX fx hl 0 x.out (fun l h => (ho l h).2)]
    simp [finalRc]

/-- in-band channel, whole run: outcome vector with per-target output data, repaired D8 + D9 + LATE -/
theorem inband_exit_admissible (fx : Fixes) (hd8 : fx.d8 = true) (hd9 : fx.d9 = true) (hl : fx.late = true)
    (S k : Bool) (run : List (Outcome × InbandData)) (hok : ∀ ox ∈ run, okOutcome ox.1 ∧ ox.2.ok) :
    ExitSpec.admissible S k false (run.map (·.1))
      (mainExit fx ⟨S, k⟩ (.started (run.map fun ox =>
        hostOf fx (inbandScript ox.2.out.flatten ox.2.pre ox.2.late.flatten ox.1)))) = true := by
  apply faithful_exit_admissible fx hd8
  · clear S k
    induction run with
    | nil => exact .nil
    | cons ox rest ih =>
      exact .cons (inband_host_faithful fx hd9 hl ox.1 (hok ox (by simp)).1 ox.2 (hok ox (by simp)).2)
        (ih (fun y hy => hok y (by simp [hy])))
  · intro o ho
    simp only [List.mem_map] at ho
    obtain ⟨ox, hm, rfl⟩ := ho
    exact (hok ox hm).1

example : (⟨["hello\n".toList], "no newline".toList, ["late\n".toList]⟩ : InbandData).ok := by
  refine ⟨?_, ?_, by decide, by decide, by decide⟩
  · intro l hl; simp at hl; subst hl; exact ⟨⟨"hello".toList, by decide, by decide⟩, by decide⟩
  · intro l hl; simp at hl; subst hl; exact ⟨⟨"late".toList, by decide, by decide⟩, by decide⟩

/-! ## runs that are cut short: command time-out, connect failure -/

/-- a command that was cut short by the command time-out leaves its target FAILED — for BOTH ways the expiry is
    noticed (`viaLoopTop`: by the worker itself at the top of its poll loop while the command keeps it busy, or
    through the watchdog's SIGALRM interrupting xpoll), whatever the command printed and whatever it returns
    after SIGTERM (0 when it traps TERM, 143, anything) -/
theorem timeout_failed (fx : Fixes) (sc : Script) (hc : sc.connectOk = true) (ht : sc.timedOut = true) :
    (hostOf fx sc).state = .failed := by
  simp [hostOf, hc, ht]

/-- TIMEOUT_NONZERO (every variant of the code; -S, or -k, or both): a run in which some command was cut short
    by a time-out (either detection path) or some target could not be reached cannot report success: the exit
    status is non-zero; under -S without -k it is RC_FAILED (254) or 255.  (Codes within 0..255.) -/
theorem timeout_nonzero (fx : Fixes) (fl : Flags) (hfl : fl.S = true ∨ fl.k = true) (scs : List Script)
    (hb : ∀ x ∈ scs, 0 ≤ (hostOf fx x).rc ∧ (hostOf fx x).rc ≤ 255)
    (hcut : ∃ sc ∈ scs, (sc.connectOk = true ∧ sc.timedOut = true) ∨ sc.connectOk = false) :
    mainExit fx fl (.started (scs.map (hostOf fx))) ≠ 0 ∧
    (fl.S = true → fl.k = false → 254 ≤ mainExit fx fl (.started (scs.map (hostOf fx)))) := by
  obtain ⟨sc, hsc, hwhy⟩ := hcut
  have hfailed : (hostOf fx sc).state = .failed := by
    rcases hwhy with ⟨hc, ht⟩ | hc
    · exact timeout_failed fx sc hc ht
    · simp [hostOf, hc]
  have hmem : hostOf fx sc ∈ scs.map (hostOf fx) := List.mem_map.mpr ⟨sc, hsc, rfl⟩
  have hseen : ∃ x ∈ (scs.map (hostOf fx)).map (seen fx), x.state = .failed := by
    refine ⟨seen fx (hostOf fx sc), List.mem_map.mpr ⟨_, hmem, rfl⟩, ?_⟩
    unfold seen; split <;> simp [hfailed]
  have hR : RC_FAILED = 254 := by decide
  have hlo := aggLoop_ge_failed fx 0 _ hseen
  have hhi : aggLoop fx 0 ((scs.map (hostOf fx)).map (seen fx)) ≤ 255 := by
    apply aggLoop_le fx 0 _ (by omega)
    intro x hx
    obtain ⟨y, hy, rfl⟩ := List.mem_map.mp hx
    obtain ⟨z, hz, rfl⟩ := List.mem_map.mp hy
    rw [seen_rc]
    exact (hb z hz).2
  have hkf : (scs.map (hostOf fx)).any kFails = true := by
    rw [List.any_eq_true]
    exact ⟨_, hmem, by simp [kFails, hfailed]⟩
  unfold mainExit dshReturn aggregate
  cases hk : fl.k with
  | true => simp [hkf]
  | false =>
    have hS : fl.S = true := by rcases hfl with h | h; exact h; simp [hk] at h
    simp only [Bool.false_and, Bool.false_eq_true, if_false, hS, if_true, exitStatus]
    constructor
    · omega
    · intro _ _; omega

/-- a run aborted by ^C (batch mode, or a second ^C within a second) exits 1, whatever the flags -/
theorem abort_exit1 (fx : Fixes) (fl : Flags) : mainExit fx fl .aborted = 1 := rfl

/-- SIGINT ABORT, composed with the signals model of C20 (Dsh/Signals.lean, all interleavings of dispatcher,
    workers, signals thread and deliveries): in every reachable state in which exit() has been called, its status
    is the one this model gives for an aborted run — 1, never 0 -/
theorem sigint_abort_nonzero {v : Fan.Variant} {g sw : Bool} {f n t0 : Nat} {b : Bool} {s : Sig.St} {c : Nat}
    (h : Sig.Reach v g sw f n b t0 s) (hx : s.exited = some c) (fx : Fixes) (fl : Flags) :
    c = mainExit fx fl .aborted ∧ c ≠ 0 := by
  have := (Sig.ainv_reach h).ex (by rw [hx]; rfl)
  rw [hx] at this
  have hc : c = 1 := by simpa using this.2
  exact ⟨by rw [hc]; rfl, by omega⟩

/-! ## end to end through the relay model: any chunking of every host's stdout -/

/-- IN-BAND RC, ANY CHUNKING (repaired D9 + late line; the relay model of Relay/Model.lean over the FIFO buffer,
    i.e. `_rsh_thread`'s read loop, `_do_output`, `_flush_lines`, `_extract_rc`, the drain and `_flush_output`):
    however the bytes of a host's stdout are cut into arrivals, if the command printed marker-free text and the
    remote shell then printed the marker line for exit code k (and marker-free output may still follow), the rc
    dsh() has for that host when its thread ends is k. -/
theorem inband_rc_any_chunking (cfg : Relay.Cfg) (hsk : cfg.rcSkipDigit = false) (hev : cfg.rcEveryLine = false)
    (t0host : Relay.Bytes) (t : ExitRelay.RelayTarget) (ht : t.ok) :
    (Relay.runStream Relay.fifoOps cfg t.host t0host 1 true t.b0 t.script).rc = t.code := by
  obtain ⟨hg, hb, hS, hroom, hU, hL, h0, hk⟩ := ht
  rw [(Relay.runStream_fifo_ok cfg t.host 1 true hg t0host hb t.script hroom).2, hS]
  exact ExitRelay.afterLines_marker cfg hsk hev t.host 1 t.user t.late t.code hk hU hL h0

/-- the same over the INDEX-level model of cbuf.c (the relay instance that is run against the real cbuf.c and
    dsh.c by the C05/C06 correspondence), via the simulation `runStream_index_eq_fifo` -/
theorem inband_rc_any_chunking_index (cfg : Relay.Cfg) (hsk : cfg.rcSkipDigit = false)
    (hev : cfg.rcEveryLine = false) (t0host : Relay.Bytes) (t : ExitRelay.RelayTarget) (ht : t.ok)
    (a0 : Cbuf.Cbuf) (ha : Relay.mkIndexBuf t.sizeMeta = some a0) :
    (Relay.runStream Relay.indexOps cfg t.host t0host 1 true a0 t.script).rc = t.code := by
  have hm : 0 < t.sizeMeta := Relay.growthOk_pos ht.1
  have h := Relay.runStream_index_eq_fifo cfg t.host t0host 1 true hm ha ht.2.1 t.script
  rw [h.2]
  exact inband_rc_any_chunking cfg hsk hev t0host t ht

/-- END TO END (repaired D8 + D9 + late line): for every vector of targets whose commands ran and returned
    their codes, every chunking of every host's stdout, with and without -S / -k, the process exit status is one
    the specification admits — the relay's per-line processing, `_extract_rc`, the `rcmd_destroy` fallback, the -S
    loop and main composed. -/
theorem inband_end_to_end (fx : Fixes) (hd8 : fx.d8 = true) (cfg : Relay.Cfg)
    (hsk : cfg.rcSkipDigit = false) (hev : cfg.rcEveryLine = false) (t0host : Relay.Bytes) (S k : Bool)
    (ts : List ExitRelay.RelayTarget) (hok : ∀ t ∈ ts, t.ok) :
    ExitSpec.admissible S k false (ts.map fun t => ExitSpec.Outcome.exited t.code)
      (mainExit fx ⟨S, k⟩ (.started (ts.map (ExitRelay.RelayTarget.seenBy cfg t0host)))) = true := by
  apply faithful_exit_admissible fx hd8
  · clear S k
    induction ts with
    | nil => exact .nil
    | cons t rest ih =>
      refine .cons ?_ (ih (fun y hy => hok y (by simp [hy])))
      have hrc := inband_rc_any_chunking cfg hsk hev t0host t (hok t (by simp))
      show ExitRelay.RelayTarget.seenBy cfg t0host t = ⟨.done, (t.code : Int)⟩
      unfold ExitRelay.RelayTarget.seenBy
      rw [hrc]
      simp [finalRc]
  · intro o ho
    simp only [List.mem_map] at ho
    obtain ⟨t, hm, rfl⟩ := ho
    have := (hok t hm).2.2.2.2.2.2.2
    show t.code ≤ 255
    omega

/-- ... and under -S that status IS the largest code -/
theorem inband_end_to_end_max (fx : Fixes) (hd8 : fx.d8 = true) (cfg : Relay.Cfg)
    (hsk : cfg.rcSkipDigit = false) (hev : cfg.rcEveryLine = false) (t0host : Relay.Bytes)
    (ts : List ExitRelay.RelayTarget) (hok : ∀ t ∈ ts, t.ok) :
    mainExit fx ⟨true, false⟩ (.started (ts.map (ExitRelay.RelayTarget.seenBy cfg t0host))) =
      ExitSpec.maxCode (ts.map fun t => ExitSpec.Outcome.exited t.code) := by
  have h := inband_end_to_end fx hd8 cfg hsk hev t0host true false ts hok
  unfold ExitSpec.admissible at h
  have hk : (ts.map fun t => ExitSpec.Outcome.exited t.code).any ExitSpec.Outcome.isKilled = false := by
    simp [List.any_eq_false, ExitSpec.Outcome.isKilled]
  have hu : (ts.map fun t => ExitSpec.Outcome.exited t.code).any ExitSpec.Outcome.unreachable = false := by
    simp [List.any_eq_false, ExitSpec.Outcome.unreachable]
  simp only [Bool.false_eq_true, if_false, Bool.false_and, Bool.not_true, hk, decide_eq_true_eq] at h
  rw [h]
  simp [ExitSpec.base, hu]

/-! ## composed with the fan-out LTS of C03 (every schedule) and with the option model of C18 -/

/-- repaired -S loop (D8): the exit status does not depend on the order of the targets, with or without -S / -k -/
theorem mainExit_perm (fx : Fixes) (hd8 : fx.d8 = true) (fl : Flags) {hs hs' : List Host} (p : hs.Perm hs') :
    mainExit fx fl (.started hs) = mainExit fx fl (.started hs') := by
  have hk : hs.any kFails = hs'.any kFails := by
    rw [Bool.eq_iff_iff]
    simp only [List.any_eq_true]
    exact ⟨fun ⟨x, hx, hp⟩ => ⟨x, p.mem_iff.mp hx, hp⟩, fun ⟨x, hx, hp⟩ => ⟨x, p.mem_iff.mpr hx, hp⟩⟩
  unfold mainExit dshReturn
  simp only [hk, aggregate_perm fx hd8 p]

/-- ONE STATUS PER TARGET, EVERY SCHEDULE (imported from the fan-out LTS of C03, `Hist` / `Inv.fin`): when dsh()
    has returned — for every fanout, every variant of the dispatcher, every interleaving of dispatcher and workers —
    the teardowns (`rcmd_destroy`, after which `t[i].rc` is final) that happened are exactly one for each of the
    `n` targets: `finished ls`, the completion order of the schedule, is a permutation of `0 .. n-1` -/
theorem one_status_per_target {v : Fan.Variant} {f n : Nat} {ls : List Fan.Label} {s : Fan.St}
    (he : Fan.Exec (Fan.init v f n) ls s) (hf : Fan.Final s) : (ExitFan.finished ls).Perm (List.range n) :=
  ExitFan.finished_perm_range he hf

/-- EXIT STATUS OVER THE FAN-OUT, ANY COMPLETION ORDER (repaired D8): take any terminated execution of the fan-out
    LTS over `n` targets and statuses `hs` faithful to the outcome vector `outs`.  The statuses in the order the
    schedule PRODUCED them are a permutation of the array the -S loop reads (one per target, none twice, none
    missing), the exit status computed from either is the same, and it is one the specification admits —
    "in any completion order, with and without -S / -k". -/
theorem exit_any_schedule (fx : Fixes) (hd8 : fx.d8 = true) (S k : Bool)
    {v : Fan.Variant} {f n : Nat} {ls : List Fan.Label} {s : Fan.St}
    (he : Fan.Exec (Fan.init v f n) ls s) (hf : Fan.Final s)
    (outs : List Outcome) (hs : List Host) (hn : hs.length = n) (hrel : AllFaithful outs hs)
    (hok : ∀ o ∈ outs, okOutcome o) :
    ((ExitFan.finished ls).map fun i => hs.getD i ⟨.done, 0⟩).Perm hs ∧
    mainExit fx ⟨S, k⟩ (.started ((ExitFan.finished ls).map fun i => hs.getD i ⟨.done, 0⟩)) =
      mainExit fx ⟨S, k⟩ (.started hs) ∧
    ExitSpec.admissible S k false outs
      (mainExit fx ⟨S, k⟩ (.started ((ExitFan.finished ls).map fun i => hs.getD i ⟨.done, 0⟩))) = true := by
  have hp : ((ExitFan.finished ls).map fun i => hs.getD i ⟨.done, 0⟩).Perm hs := by
    have := (one_status_per_target he hf).map (fun i => hs.getD i (⟨.done, 0⟩ : Host))
    rw [← hn, ExitFan.map_range_getD] at this
    exact this
  have he' := mainExit_perm fx hd8 ⟨S, k⟩ hp
  exact ⟨hp, he', by rw [he']; exact faithful_exit_admissible fx hd8 S k outs hs hrel hok⟩

/-- the hypotheses of `exit_any_schedule` are satisfiable: a complete schedule of two targets with fanout 1 (one
    spurious wake-up), second target's teardown after the first's -/
def witnessRun : List Fan.Label :=
  [.d .lock, .d (.create 0), .d .unlock, .d .lock, .d .wait,
   .w 0 .connectBegin, .w 0 .connectEnd, .w 0 .destroyBegin, .w 0 .destroyEnd, .w 0 .lock, .w 0 .signal,
   .d (.wake false), .w 0 .unlock, .d .relock, .d (.create 1), .d .unlock, .d .lock, .d .wait,
   .d (.wake true), .d .relock, .d .wait,
   .w 1 .connectBegin, .w 1 .connectEnd, .w 1 .destroyBegin, .w 1 .destroyEnd, .w 1 .lock, .w 1 .signal,
   .w 1 .unlock, .d (.wake false), .d .relock, .d .unlock, .d .ret]

example : ∃ s, Fan.Exec (Fan.init .whileWait 1 2) witnessRun s ∧ Fan.Final s ∧ ExitFan.finished witnessRun = [0, 1] := by
  have hd : (Fan.run (Fan.init .whileWait 1 2) witnessRun).map (·.dpc) = some .returned := by decide
  cases h : Fan.run (Fan.init .whileWait 1 2) witnessRun with
  | none => rw [h] at hd; cases hd
  | some s =>
    rw [h] at hd
    exact ⟨s, Fan.exec_of_run h, by simpa [Fan.Final] using hd, by decide⟩

/-- PDCP / RPDCP (the property's -S / -k clauses are about pdsh): the generated option strings of the copy
    personalities contain neither `S` nor `k` (C18.personality_letters), so in every accepted copy run both flags
    are off and a copy run that was started exits 0 whatever happened on the targets — the first clause of the
    property ("without -S or -k pdsh exits 0 after a run it was able to start") is the only one that applies.
    (`hm*`: no module registers an option -S / -k.) -/
theorem pcp_exit0 {ofx : Opt.Fixes} {d : Opt.Defaults} {p : Opt.Pers} {env : Opt.Env} {argv : List Opt.Str}
    {c : Opt.Cfg} (hmS : Opt.optKind (Opt.fullString d p) 'S' = none) (hmk : Opt.optKind (Opt.fullString d p) 'k' = none)
    (h : Opt.effective ofx d p env argv = .ok c) (fx : Fixes) (hs : List Host) :
    mainExit fx ⟨c.retRemoteRc, c.killOnFail⟩ (.started hs) = 0 := by
  obtain ⟨h1, h2⟩ := Opt.pcp_flags_off hmS hmk h
  rw [h1, h2]
  exact noS_exit0 fx hs

/-- REFUSED ARGUMENTS, composed with the option model of C18: whenever main ends before dsh() — a malformed
    variable, a bad option value, an unknown transport, opt_verify — and no information-only option (-L -V -T) is on
    the command line, the status the option model gives is the `refused` status of this model: 1 -/
theorem option_refusal_exit1 {ofx : Opt.Fixes} {d : Opt.Defaults} {p : Opt.Pers} {env : Opt.Env} {argv : List Opt.Str}
    {n : Nat} (h : Opt.effective ofx d p env argv = .exit n)
    (hinfo : ∀ t ∈ (Opt.getopt (Opt.fullString d p) argv).1, Opt.action ofx d t ≠ .exit 0) (fx : Fixes) (fl : Flags) :
    n = mainExit fx fl .refused := by
  rcases Opt.effective_exit_code h with h1 | ⟨_, t, hm, ha⟩
  · rw [h1]; rfl
  · exact absurd ha (hinfo t hm)

end PdshVerif.C08
