/-
  C08  Exit status faithfully summarises the run.
  PROPERTY THEOREMS ONLY (helper lemmas live in PdshVerif/Dsh/ExitLemmas.lean).
-/
import PdshVerif.Dsh.Exit
import PdshVerif.Dsh.ExitSpec

namespace PdshVerif.C08
open PdshVerif.Dsh PdshVerif.Dsh.Exit

/-- without -S and -k a run that was started exits 0, whatever happened on the targets -/
theorem noS_exit0 (fx : Fixes) (hs : List Host) :
    mainExit fx { S := false, k := false } (.started hs) = 0 := by
  simp [mainExit, dshReturn, exitStatus]

/-- refused arguments exit 1, whatever the flags -/
theorem refused_exit1 (fx : Fixes) (fl : Flags) : mainExit fx fl .refused = 1 := rfl

end PdshVerif.C08
