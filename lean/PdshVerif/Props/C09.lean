/-
  C09  Each host gets the right user, transport, rank and the verbatim command.
  PROPERTY THEOREMS ONLY (helper lemmas: PdshVerif/Exec/{Lemmas,XrcmdLemmas,XrcmdThms,XrcmdSpec}.lean,
  PdshVerif/Opt/RcmdLemmas.lean).

  Models: Exec/Format.lean (pipecmd_format_arg / cmd_args_create char loop with explicit C memory),
          Exec/EndToEnd.lean (execcmd + pipecmd call, xrcmd's writes), Exec/Xrcmd.lean (xrcmd's connection
          set-up: privileged-port loop, EADDRINUSE / ECONNREFUSED handling with back-off, stderr back-connection,
          request, peer's verdict -- the network is a parameter), Exec/Ssh.lean (sshcmd.c),
          Opt/Rcmd.lean (get_host_rcmd_type, first-wins registry, defaults, rank).
  Specs:  Exec/Spec.lean (greedy tokenisation + per-token rendering; four NUL-terminated fields),
          Exec/XrcmdSpec.lean (what an observer of the sockets demands of the handshake),
          Opt/RcmdSpec.lean (first annotated word naming the host, else the defaults chain).

  clause of the property text                          theorem(s)
  ---------------------------------------------------  -------------------------------------------------------
  type/user of the FIRST `type:user@hosts` word         first_word_wins(_reexpand), run_eq_spec(_reexpand),
    naming the host                                       rcmd_lookup_exact (whole-name key: n1 / n10)
  the user name arrives whole (or the run is refused)   user_whole_or_refused, every_l_is_tested (each -l, not only the last)
  otherwise -R / PDSH_RCMD_TYPE and -l, otherwise       defaults_chain, defaultName_eq, last_R_wins_R_over_env,
    the documented defaults                               last_l_wins (composed with C18.precedence)
  rank = zero-based position in the FINAL list          rank_is_position, contacted_as_specified (composed with
                                                          C02/C10: the list after exclusions and filters)
  command text reaches the transport unchanged          exec_end_to_end, rsh_end_to_end, ssh_command_verbatim(_repaired)
  rsh: request = port, luser, ruser, cmd, NUL each      rshRequest_roundtrip, xrcmd_writes_request, wire_request_exact,
                                                          request_length; with the connection set-up:
                                                          xrcmd_meets_spec, xrcmd_request_stderr (the port announced is
                                                          the port that is listening), xrcmd_request_plain (no stderr
                                                          channel), xrcmd_unconnected_silent, xrcmd_backoff_bounded
  exec: %h %u %n %% replaced, everything else kept      formatArg_spec(_partial), escapes_replaced, unknown_preserved,
                                                          no_percent_id, argv_length_preserved, exec_argv_exact,
                                                          exec_argv_interactive; witnesses d10_*, d11_witness
  host expansion (hostlist.c)                            NOT re-proved here: imported -- contacted_as_specified takes
                                                          the final list from C02's cliWords_correct (and C10 for files)

  a refused request: the server's text is relayed    rsh_error_text_bounded (xrcmd.c since e2d5199: never a byte beyond
    without harm (memory safety of the rsh path)         tmpbuf, the first line cut to LINEBUFSIZE - 2 bytes);
                                                          witness of the code before: XrcmdErr.rsherr_witness_unchanged (F09-RSHERR)

  The models are the code AS IT IS NOW (/repo HEAD: D10, D11, F09-2BR, F09-SSHPCT, F09-RSHERR repaired); the older form
  of each function stays selectable (`unchanged`, `first`, `noesc`, `XrcmdErr.errText false`), the check probes the
  binary and a revert of a repair is reported with a replay.

  NOT proved: that the C code equals the models (correspondence checks (a)-(f) of checks/c09.py); rresvport(),
  connect(), xpoll(), accept() themselves (parameters of Exec/Xrcmd.lean: `World`); write(2) failing or being
  short (xrcmd.c ignores the result of its write calls: a short write would send a truncated request -- on a
  stream socket in blocking mode write(2) of a few KiB is not short unless a signal handler without SA_RESTART
  interrupts it; pdsh blocks its signals in the worker threads, see C20).
-/
import PdshVerif.Exec.Lemmas
import PdshVerif.Exec.EndToEnd
import PdshVerif.Exec.Ssh
import PdshVerif.Exec.XrcmdSpec
import PdshVerif.Opt.RcmdBridge
import PdshVerif.Props.C18
import PdshVerif.Opt.RcmdLemmas
import PdshVerif.Opt.RcmdUser
import PdshVerif.Exec.XrcmdErr

namespace PdshVerif.C09
open PdshVerif.Exec PdshVerif.Exec.Spec

/-! ## exec argument substitution -/

/-
  The full statement
      ∀ e a tail, nul ∉ a → formatArg unchanged e (a ++ nul :: tail) = .ok (some (expected e a))
  is FALSE of the unchanged code (D10: `a` ends in a lone '%'; D11: `a = []`), see the witnesses
  below.  It is proved for the repaired variant (`formatArg_spec`) and, for the unchanged code,
  under the two decidable guards (`formatArg_spec_partial`).
-/

/-- unchanged code: every non-empty argument that does not end in a lone '%' is rendered exactly as
    specified (every %h %u %n %% replaced, everything else -- unknown %x included -- byte for byte),
    whatever lies behind its terminator in memory -/
theorem formatArg_spec_partial (e : Env) (a tail : List Char)
    (hnul : nul ∉ a) (hne : a ≠ []) (hpct : endsUnpaired a = false) :
    formatArg unchanged e (a ++ nul :: tail) = .ok (some (expected e a)) := by
  simp only [formatArg, unchanged]
  exact fmtLoop_none _ e tail a hne hnul (Or.inr hpct)

/-- repaired code (both switches on): the specification holds for EVERY NUL-free argument -/
theorem formatArg_spec (e : Env) (a tail : List Char) (hnul : nul ∉ a) :
    formatArg repaired e (a ++ nul :: tail) = .ok (some (expected e a)) := by
  simp only [formatArg, repaired]
  have := fmtLoop_some ⟨true, true⟩ e tail a [] hnul (Or.inl rfl)
  simpa using this

/-- each repair on its own removes exactly its defect: with D10 repaired only emptiness is excluded -/
theorem formatArg_spec_d10_repaired (e : Env) (a tail : List Char) (hnul : nul ∉ a) (hne : a ≠ []) :
    formatArg ⟨true, false⟩ e (a ++ nul :: tail) = .ok (some (expected e a)) := by
  simp only [formatArg]
  exact fmtLoop_none _ e tail a hne hnul (Or.inl rfl)

/-- D10 witness: on "x%" the loop steps over the terminator: out-of-bounds read when nothing
    readable follows ... -/
theorem d10_witness_overread (e : Env) :
    formatArg unchanged e ['x', '%', nul] = .ub := by
  simp [formatArg, unchanged, fmtLoop_cons, fmtLoop, nul_ne_pct, nul_ne_h, nul_ne_u, nul_ne_n]
  decide

/-- ... and absorption of the NEXT argument when one follows (`echo 'x%' y` prints `x%y y`) -/
theorem d10_witness_runs_on :
    formatArg unchanged ⟨['h'], ['u'], 0⟩ ['x', '%', nul, 'y', nul] = .ok (some ['x', '%', 'y'])
    ∧ expected ⟨['h'], ['u'], 0⟩ ['x', '%'] = ['x', '%'] := by
  decide

/-- D11 witness: the empty argument comes back as NULL and ends the argv of the helper early
    (`echo a '' b` prints `a`) -/
theorem d11_witness :
    formatArg unchanged ⟨['h'], ['u'], 0⟩ [nul] = .ok none
    ∧ (cmdArgs unchanged ⟨['h'], ['u'], 0⟩ ['e'] [['a'], [], ['b']] []).map execArgv = some [['e'], ['a']]
    ∧ expectedArgv ⟨['h'], ['u'], 0⟩ ['e'] [['a'], [], ['b']] = [['e'], ['a'], [], ['b']] := by
  decide

/-- text without '%' is passed through unchanged -/
theorem no_percent_id (e : Env) (a : List Char) (h : '%' ∉ a) : expected e a = a := by
  simp [expected, tokens_no_pct a h, List.flatMap_map, render]

/-- ... by the unchanged C code as well -/
theorem no_percent_id_impl (e : Env) (a tail : List Char) (hnul : nul ∉ a) (hne : a ≠ [])
    (h : '%' ∉ a) : formatArg unchanged e (a ++ nul :: tail) = .ok (some a) := by
  rw [formatArg_spec_partial e a tail hnul hne (endsUnpaired_no_pct a h), no_percent_id e a h]

/-- an unknown escape %x is preserved byte for byte wherever it stands (as long as the text before
    it does not end in a lone '%', which would pair with its '%') -/
theorem unknown_preserved (e : Env) (pre post : List Char) (x : Char)
    (hpre : endsUnpaired pre = false)
    (hx : x ≠ 'h' ∧ x ≠ 'u' ∧ x ≠ 'n' ∧ x ≠ '%') :
    expected e (pre ++ '%' :: x :: post) = expected e pre ++ '%' :: x :: expected e post := by
  rw [expected_append e pre _ hpre, expected_esc]
  simp [escTok, hx.1, hx.2.1, hx.2.2.1, hx.2.2.2, render]

/-- the four escapes are replaced by exactly host, user, rank, '%'; the substituted text is never
    scanned again (it may itself contain '%') -/
theorem escapes_replaced (e : Env) (pre post : List Char) (hpre : endsUnpaired pre = false) :
    expected e (pre ++ '%' :: 'h' :: post) = expected e pre ++ e.host ++ expected e post
    ∧ expected e (pre ++ '%' :: 'u' :: post) = expected e pre ++ e.user ++ expected e post
    ∧ expected e (pre ++ '%' :: 'n' :: post) = expected e pre ++ Nat.toDigits 10 e.rank ++ expected e post
    ∧ expected e (pre ++ '%' :: '%' :: post) = expected e pre ++ '%' :: expected e post := by
  refine ⟨?_, ?_, ?_, ?_⟩ <;>
    · rw [expected_append e pre _ hpre, expected_esc]
      simp [escTok, render]

/-- cmd_args_create, repaired: the helper sees the command name and one argument per given
    argument, each as specified -- in particular argv keeps its length -/
theorem argv_length_preserved (e : Env) (cmd : List Char) (argv : List (List Char)) (tail : List Char)
    (hnul : ∀ a ∈ argv, nul ∉ a) :
    ∃ l, cmdArgs repaired e cmd argv tail = some l ∧ execArgv l = expectedArgv e cmd argv
      ∧ (execArgv l).length = argv.length + 1 := by
  have key : ∀ (argv : List (List Char)), (∀ a ∈ argv, nul ∉ a) →
      fmtAll repaired e argv tail = some (argv.map fun a => some (expected e a)) := by
    intro argv
    induction argv with
    | nil => intro _; simp [fmtAll]
    | cons a rest ih =>
      intro h
      have ha : nul ∉ a := h a (by simp)
      have hr : ∀ b ∈ rest, nul ∉ b := fun b hb => h b (by simp [hb])
      simp [fmtAll, flatMem, formatArg_spec e a _ ha, ih hr]
  refine ⟨some cmd :: argv.map fun a => some (expected e a), ?_, ?_, ?_⟩
  · simp [cmdArgs, key argv hnul]
  · have : ∀ (l : List (List Char)),
        (List.takeWhile Option.isSome (l.map some)).filterMap id = l := by
      intro l; induction l with
      | nil => simp
      | cons x r ih => simp [List.takeWhile_cons, ih]
    simp only [execArgv, expectedArgv, List.takeWhile_cons, Option.isSome_some, if_true,
      List.filterMap_cons, id]
    have h2 := this (argv.map (expected e))
    simp only [List.map_map] at h2
    simpa [Function.comp_def] using h2
  · have : ∀ (l : List (List Char)),
        (List.takeWhile Option.isSome (l.map some)).filterMap id = l := by
      intro l; induction l with
      | nil => simp
      | cons x r ih => simp [List.takeWhile_cons, ih]
    simp only [execArgv, List.takeWhile_cons, Option.isSome_some, if_true, List.filterMap_cons, id]
    have h2 := this (argv.map (expected e))
    simp only [List.map_map] at h2
    have h3 : (List.filterMap id (List.takeWhile Option.isSome
        (List.map (fun a => some (expected e a)) argv))).length = argv.length := by
      have := congrArg List.length h2
      simpa [Function.comp_def] using this
    simp [h3]

/-- unchanged code: the same under the two guards on every argument (false without them: `d11_witness`) -/
theorem argv_length_preserved_partial (e : Env) (cmd : List Char) (argv : List (List Char))
    (tail : List Char)
    (hok : ∀ a ∈ argv, nul ∉ a ∧ a ≠ [] ∧ endsUnpaired a = false) :
    cmdArgs unchanged e cmd argv tail = some (some cmd :: argv.map fun a => some (expected e a)) := by
  have key : ∀ (argv : List (List Char)), (∀ a ∈ argv, nul ∉ a ∧ a ≠ [] ∧ endsUnpaired a = false) →
      fmtAll unchanged e argv tail = some (argv.map fun a => some (expected e a)) := by
    intro argv
    induction argv with
    | nil => intro _; simp [fmtAll]
    | cons a rest ih =>
      intro h
      have ha := h a (by simp)
      have hr : ∀ b ∈ rest, nul ∉ b ∧ b ≠ [] ∧ endsUnpaired b = false :=
        fun b hb => h b (by simp [hb])
      simp [fmtAll, flatMem, formatArg_spec_partial e a _ ha.1 ha.2.1 ha.2.2, ih hr]
  simp [cmdArgs, key argv hok]

/-! ## rsh wire request -/

/-- the bytes xrcmd writes before its first read parse back into exactly
    (stderr port, local user, remote user, command), for NUL-free fields -/
theorem rshRequest_roundtrip (port : Option Nat) (luser ruser cmd : List Char)
    (hl : nul ∉ luser) (hr : nul ∉ ruser) (hc : nul ∉ cmd) :
    parseRequest (rshRequest port luser ruser cmd) = some (portField port, luser, ruser, cmd) := by
  have hp : nul ∉ portField port := by
    cases port with
    | none => simp [portField]
    | some p =>
      intro h
      have := Nat.isDigit_of_mem_toDigits (by decide) (by decide) h
      revert this; decide
  simp only [rshRequest, parseRequest]
  rw [splitNul_append _ _ hp]
  simp only
  rw [splitNul_append _ _ hl]
  simp only
  rw [splitNul_append _ _ hr]
  simp only
  rw [splitNul_append _ _ hc]

/-! ## transport / user / rank -/
open PdshVerif.Opt.Rcmd PdshVerif.Opt.Rcmd.Spec

/-- words whose registry names are their final names (no second bracket pair) -/
def OneLevel (words : List Word) : Prop := ∀ w ∈ words, w.first = w.full

/-- first registration wins: after all words are processed, the registry entry of `h` carries the
    type and user of the FIRST annotated word naming `h` (and there is no entry iff no annotated
    word names it) -/
theorem first_word_wins (cfg : Cfg) (words : List Word) (reg : List Entry) (h : Str)
    (hrun : processWords cfg words [] = some reg) (hone : OneLevel words) :
    (lookup reg h).map (fun e => (e.rtype, e.user)) =
      (firstNaming words h).map (fun p => (p.rtype, p.user)) := by
  have gen : ∀ (words : List Word) (reg0 reg : List Entry),
      processWords cfg words reg0 = some reg → (∀ w ∈ words, w.first = w.full) →
      (lookup reg h).map (fun e => (e.rtype, e.user)) =
        match lookup reg0 h with
        | some e => some (e.rtype, e.user)
        | none => (firstNaming words h).map (fun p => (p.rtype, p.user)) := by
    intro words
    induction words with
    | nil =>
      intro reg0 reg hr _
      simp [processWords] at hr; subst hr
      cases lookup reg0 h <;> simp [firstNaming]
    | cons w ws ih =>
      intro reg0 reg hr ho
      have hw : w.first = w.full := ho w (by simp)
      have hws : ∀ x ∈ ws, x.first = x.full := fun x hx => ho x (by simp [hx])
      simp only [processWords] at hr
      cases hpw : processWord cfg reg0 w with
      | none => simp [hpw] at hr
      | some reg1 =>
        simp only [hpw] at hr
        rw [ih reg1 reg hr hws]
        -- what did this word do to the registry?
        simp only [processWord, splitWord_eq_parse] at hpw
        cases hp : parse w.text with
        | none => simp [hp] at hpw
        | some p =>
          simp only [hp] at hpw
          by_cases hann : (p.rtype.isNone && p.user.isNone) = true
          · -- not annotated: registry untouched, the word is skipped by the specification
            simp only [hann, if_true, Option.some.injEq] at hpw; subst hpw
            have hna : annotated w = false := by
              simp only [annotated, hp]
              cases hr1 : p.rtype <;> cases hu1 : p.user <;> simp_all
            simp [firstNaming, List.find?_cons, hna]
          · simp only [hann] at hpw
            have hann' : annotated w = true := by
              simp only [annotated, hp]
              cases hr1 : p.rtype <;> cases hu1 : p.user <;> simp_all
            have hreg : reg1 = register reg0 w.first p.user p.rtype := by
              cases hr1 : p.rtype with
              | none => simp [hr1] at hpw; exact hpw.symm
              | some t =>
                simp [hr1] at hpw
                exact hpw.2.symm
            subst hreg
            rw [lookup_register]
            cases hl0 : lookup reg0 h with
            | some e => simp
            | none =>
              simp only [hw]
              by_cases hin : h ∈ w.full
              · simp [hin, firstNaming, List.find?_cons, hann', hp]
              · simp [hin, firstNaming, List.find?_cons, hann']
  have := gen words [] reg hrun hone
  simpa [lookup] using this

/-- the model's default transport is the documented chain -R | PDSH_RCMD_TYPE | first loaded module
    of the rank list -/
theorem defaultName_eq (cfg : Cfg) : defaultName cfg = defaultType cfg := by
  unfold defaultName defaultType
  cases cfg.optR <;> cases cfg.envType <;> simp [Option.orElse]

/-- every connection of a run that takes place is the one the specification demands: transport and
    user from the first annotated word naming the host, else the defaults chain; rank = position -/
theorem run_eq_spec (cfg : Cfg) (words : List Word) (targets : List Str) (ls : List Line)
    (hrun : run cfg words targets = .lines ls) (hone : OneLevel words) :
    ls = expectedLines cfg words targets := by
  unfold run at hrun
  cases hpw : processWords cfg words [] with
  | none => simp [hpw] at hrun
  | some reg =>
    simp only [hpw] at hrun
    have hconn : ∀ (d : Option Str), d = defaultType cfg →
        connectAll cfg reg d targets 0 = expectedLines cfg words targets := by
      intro d hd
      rw [connectAll_eq]
      unfold expectedLines
      apply List.map_congr_left
      rintro ⟨h, i⟩ _
      have hf := first_word_wins cfg words reg h hpw hone
      simp only [connect, hostInfo, defaultUser, hd]
      cases hl : lookup reg h with
      | none =>
        simp only [hl, Option.map_none] at hf
        cases hfn : firstNaming words h with
        | none => simp
        | some p => simp [hfn] at hf
      | some en =>
        simp only [hl, Option.map_some] at hf
        cases hfn : firstNaming words h with
        | none => simp [hfn] at hf
        | some p =>
          simp only [hfn, Option.map_some, Option.some.injEq, Prod.mk.injEq] at hf
          simp only [Option.bind_some, hf.1, hf.2]
          cases p.rtype <;> cases p.user <;> simp [Option.orElse]
    have hdn := defaultName_eq cfg
    cases hd : defaultName cfg with
    | some d =>
      simp only [hd] at hrun
      split at hrun
      · simp only [Outcome.lines.injEq] at hrun
        rw [← hrun]; exact hconn (some d) (by rw [← hdn, hd])
      · simp at hrun
    | none =>
      simp only [hd] at hrun
      split at hrun
      · simp only [Outcome.lines.injEq] at hrun
        rw [← hrun]; exact hconn none (by rw [← hdn, hd])
      · simp at hrun

/-- a host that no annotated word names is contacted through the defaults chain:
    transport -R | PDSH_RCMD_TYPE | first loaded of the rank list, user -l | local user -/
theorem defaults_chain (cfg : Cfg) (words : List Word) (reg : List Entry) (h : Str) (i : Nat)
    (hrun : processWords cfg words [] = some reg) (hone : OneLevel words)
    (hno : firstNaming words h = none) :
    connect cfg reg (defaultName cfg) h i =
      ⟨(match cfg.optR with
        | some r => some r
        | none => match cfg.envType with
          | some r => some r
          | none => cfg.rankList.find? (cfg.loaded.contains ·)),
       h, (match cfg.optL with | some u => u | none => cfg.luser), i⟩ := by
  have hf := first_word_wins cfg words reg h hrun hone
  rw [hno] at hf
  cases hl : lookup reg h with
  | some e => simp [hl] at hf
  | none =>
    simp only [connect, hl, defaultName]
    cases cfg.optR <;> cases cfg.envType <;> cases cfg.optL <;> simp

/-- rank = zero-based position in the final target list, one connection per target, in order
    (no hypothesis on the words) -/
theorem rank_is_position (cfg : Cfg) (words : List Word) (targets : List Str) (ls : List Line)
    (hrun : run cfg words targets = .lines ls) :
    ls.length = targets.length ∧
      ∀ (i : Nat) (hi : i < ls.length) (ht : i < targets.length),
        ls[i].rank = i ∧ ls[i].host = targets[i] := by
  have key : ∀ (reg : List Entry) (d : Option Str) (ts : List Str) (k : Nat),
      (connectAll cfg reg d ts k).length = ts.length ∧
      ∀ (i : Nat) (hi : i < (connectAll cfg reg d ts k).length) (ht : i < ts.length),
        (connectAll cfg reg d ts k)[i].rank = k + i ∧ (connectAll cfg reg d ts k)[i].host = ts[i] := by
    intro reg d ts
    induction ts with
    | nil => intro k; simp [connectAll]
    | cons t rest ih =>
      intro k
      refine ⟨by simp [connectAll, (ih (k + 1)).1], ?_⟩
      intro i hi ht
      cases i with
      | zero => simp [connectAll, connect]
      | succ j =>
        have hj : j < (connectAll cfg reg d rest (k + 1)).length := by
          simp [connectAll] at hi; omega
        have := (ih (k + 1)).2 j hj (by simp at ht; omega)
        simp only [connectAll, List.getElem_cons_succ]
        constructor
        · rw [this.1]; omega
        · exact this.2
  unfold run at hrun
  cases hpw : processWords cfg words [] with
  | none => simp [hpw] at hrun
  | some reg =>
    simp only [hpw] at hrun
    cases hd : defaultName cfg with
    | some d =>
      simp only [hd] at hrun
      split at hrun
      · simp only [Outcome.lines.injEq] at hrun
        subst hrun
        have := key reg (some d) targets 0
        refine ⟨this.1, fun i hi ht => ?_⟩
        have h2 := this.2 i hi ht
        simpa using h2
      · simp at hrun
    | none =>
      simp only [hd] at hrun
      split at hrun
      · simp only [Outcome.lines.injEq] at hrun
        subst hrun
        have := key reg none targets 0
        refine ⟨this.1, fun i hi ht => ?_⟩
        have h2 := this.2 i hi ht
        simpa using h2
      · simp at hrun

/-! with the proposed repair of F09-2BR (findings/C09.patch, `reExpand`) the restriction to words
    with one bracket pair disappears -/

theorem firstNaming_reExpand (words : List Word) (h : Str) :
    firstNaming (words.map reExpand) h = firstNaming words h := by
  unfold firstNaming
  induction words with
  | nil => rfl
  | cons w ws ih =>
    have ha : annotated (reExpand w) = annotated w := rfl
    have hf : (reExpand w).full = w.full := rfl
    have ht : (reExpand w).text = w.text := rfl
    by_cases hc : (annotated w && w.full.contains h) = true
    · simp only [List.map_cons, List.find?_cons, ha, hf, hc, ht]
    · have hc' : (annotated w && w.full.contains h) = false := by simpa using hc
      simp only [List.map_cons, List.find?_cons, ha, hf, hc']
      exact ih

/-- first registration wins, for EVERY word (two-bracket words included), once the registered names
    are expanded like the target list -/
theorem first_word_wins_reexpand (cfg : Cfg) (words : List Word) (reg : List Entry) (h : Str)
    (hrun : processWords cfg (words.map reExpand) [] = some reg) :
    (lookup reg h).map (fun e => (e.rtype, e.user)) =
      (firstNaming words h).map (fun p => (p.rtype, p.user)) := by
  rw [← firstNaming_reExpand]
  apply first_word_wins cfg _ reg h hrun
  intro w hw
  simp only [List.mem_map] at hw
  obtain ⟨w0, _, rfl⟩ := hw
  rfl

/-- ... and every connection of a run is the one the specification demands, without restriction -/
theorem run_eq_spec_reexpand (cfg : Cfg) (words : List Word) (targets : List Str) (ls : List Line)
    (hrun : runRe cfg words targets = .lines ls) :
    ls = expectedLines cfg words targets := by
  have h1 := run_eq_spec cfg (words.map reExpand) targets ls hrun (by
    intro w hw
    simp only [List.mem_map] at hw
    obtain ⟨w0, _, rfl⟩ := hw
    rfl)
  rw [h1]
  unfold expectedLines hostInfo
  simp only [firstNaming_reExpand]

/-- the witness below is gone: the two-bracket word is honoured -/
theorem f09_2br_repaired :
    let w : Word := ⟨"u@foo[1-2]-[0-1]".toList,
                     ["foo1-[0-1]".toList, "foo2-[0-1]".toList],
                     ["foo1-0".toList, "foo1-1".toList, "foo2-0".toList, "foo2-1".toList]⟩
    let cfg : Cfg := ⟨["exec".toList], ["exec".toList], none, none, none, "me".toList⟩
    runRe cfg [w] w.full = .lines (expectedLines cfg [w] w.full) := by
  decide

/-- the registry is keyed by the WHOLE host name: an entry found for `h` is an entry registered under
    exactly `h`, and there is one iff some annotated word's expansion contains exactly `h` -- a name
    that is a prefix (or an extension) of a registered name is a different host -/
theorem rcmd_lookup_exact (cfg : Cfg) (words : List Word) (reg : List Entry) (h : Str)
    (hrun : processWords cfg (words.map reExpand) [] = some reg) :
    (∀ e, lookup reg h = some e → e.host = h) ∧
    ((lookup reg h).isSome = true ↔ ∃ w ∈ words, annotated w = true ∧ h ∈ w.full) := by
  constructor
  · intro e he
    unfold lookup at he
    have := List.find?_some he
    simpa using this
  · have hf := first_word_wins_reexpand cfg words reg h hrun
    have hiff : (lookup reg h).isSome = (firstNaming words h).isSome := by
      have := congrArg Option.isSome hf
      simpa using this
    rw [hiff]
    unfold firstNaming
    constructor
    · intro hs
      cases hfind : words.find? (fun w => annotated w && w.full.contains h) with
      | none => rw [hfind] at hs; cases hs
      | some w =>
        have hm := List.mem_of_find?_eq_some hfind
        have hp := List.find?_some hfind
        simp only [Bool.and_eq_true, List.contains_eq_mem, decide_eq_true_eq] at hp
        exact ⟨w, hm, hp.1, hp.2⟩
    · rintro ⟨w, hw, ha, hh⟩
      cases hfind : words.find? (fun w => annotated w && w.full.contains h) with
      | none =>
        have := List.find?_eq_none.mp hfind w hw
        simp [ha, hh] at this
      | some w' =>
        have hp := List.find?_some hfind
        simp only [Bool.and_eq_true] at hp
        -- an annotated word parses
        simp only
        unfold annotated at hp
        cases hpar : parse w'.text with
        | none => rw [hpar] at hp; simp at hp
        | some p => rfl

/-- n1 and n10 (one name a string prefix of the other) are different hosts: `alice@n1,n10` contacts
    n10 as the default user, `alice@n10,bob@n1` keeps both registrations -/
example :
    let cfg : Cfg := ⟨["exec".toList], ["exec".toList], none, none, none, "me".toList⟩
    let w (t : String) (hs : List String) : Word := ⟨t.toList, hs.map String.toList, hs.map String.toList⟩
    (match runRe cfg [w "alice@n1" ["n1"], w "n10" ["n10"]] ["n1".toList, "n10".toList] with
     | .lines ls => ls.map (fun l => String.ofList l.user) | .fatal => []) = ["alice", "me"] ∧
    (match runRe cfg [w "alice@n10" ["n10"], w "bob@n1" ["n1"]] ["n10".toList, "n1".toList] with
     | .lines ls => ls.map (fun l => String.ofList l.user) | .fatal => []) = ["alice", "bob"] := by
  decide

/-- F09-2BR witness: a two-bracket word is registered under its first-level names, so the final
    hosts are not found and fall back to the defaults although the word names them
    (`-w u@foo[1-2]-[0-1]`: foo1-0 is contacted as the local user) -/
theorem f09_2br_witness :
    let w : Word := ⟨"u@foo[1-2]-[0-1]".toList,
                     ["foo1-[0-1]".toList, "foo2-[0-1]".toList],
                     ["foo1-0".toList, "foo1-1".toList, "foo2-0".toList, "foo2-1".toList]⟩
    let cfg : Cfg := ⟨["exec".toList], ["exec".toList], none, none, none, "me".toList⟩
    run cfg [w] w.full ≠ .lines (expectedLines cfg [w] w.full)
    ∧ (expectedLines cfg [w] w.full).map (·.user) = List.replicate 4 "u".toList := by
  decide

/-! ## end to end: from the command line to what the transport does -/

/-- what xrcmd writes before its first read, write by write, is the request of the specification -/
theorem xrcmd_writes_request (port : Option Nat) (luser ruser cmd : List Char) :
    (xrcmdWrites port luser ruser cmd).flatten = rshRequest port luser ruser cmd := by
  cases port <;> simp [xrcmdWrites, rshRequest, portField]

/-- ... so the peer reads exactly (stderr port, local user, remote user, command), and nothing else
    parses out of those bytes -/
theorem wire_request_exact (port : Option Nat) (luser ruser cmd : List Char)
    (hl : nul ∉ luser) (hr : nul ∉ ruser) (hc : nul ∉ cmd) :
    parseRequest (xrcmdWrites port luser ruser cmd).flatten = some (portField port, luser, ruser, cmd) ∧
    ∀ t, parseRequest (xrcmdWrites port luser ruser cmd).flatten = some t →
      t = (portField port, luser, ruser, cmd) := by
  have h := rshRequest_roundtrip port luser ruser cmd hl hr hc
  rw [xrcmd_writes_request]
  refine ⟨h, ?_⟩
  intro t ht
  rw [h] at ht
  exact (Option.some.inj ht).symm

/-- nothing is clamped: the request is as long as its four fields plus their terminators, for
    every command length -/
theorem request_length (port : Option Nat) (luser ruser cmd : List Char) :
    (xrcmdWrites port luser ruser cmd).flatten.length =
      (portField port).length + luser.length + ruser.length + cmd.length + 4 := by
  cases port <;> simp [xrcmdWrites, portField] <;> omega

theorem joinCmd_nul_free (argv : List Str) (h : ∀ a ∈ argv, nul ∉ a) : nul ∉ joinCmd argv := by
  induction argv with
  | nil => simp [joinCmd]
  | cons a rest ih =>
    cases rest with
    | nil => simpa [joinCmd] using h a (by simp)
    | cons b r =>
      simp only [joinCmd, List.mem_append, List.mem_cons, not_or]
      refine ⟨h a (by simp), by decide, ?_⟩
      exact ih (fun x hx => h x (by simp [hx]))

/-- -R exec: the helper is started as the first command word, its argv is the basename of that word
    followed by every further command word with exactly %h %u %n %% replaced -- the words as they
    stand on pdsh's command line, never re-split -/
theorem exec_argv_exact (e : Env) (w0 : List Char) (rest : List (List Char)) (cmd tail : List Char)
    (hn : ∀ a ∈ rest, nul ∉ a) :
    execCall repaired e (w0 :: rest) cmd tail = some ⟨w0, xbasename w0 :: rest.map (expected e)⟩ := by
  obtain ⟨l, hl, hv, _⟩ := argv_length_preserved e (xbasename w0) rest tail hn
  simp [execCall, execWords, hl, hv, expectedArgv]

/-- interactive mode (no command words): `sh -c <command line>`, the escapes replaced inside the line -/
theorem exec_argv_interactive (e : Env) (cmd tail : List Char) (hc : nul ∉ cmd) :
    execCall repaired e [] cmd tail =
      some ⟨"sh".toList, ["sh".toList, "-c".toList, expected e cmd]⟩ := by
  have hn : ∀ a ∈ ["-c".toList, cmd], nul ∉ a := by
    intro a ha
    simp only [List.mem_cons, List.mem_nil_iff, or_false] at ha
    rcases ha with ha | ha
    · subst ha; decide
    · subst ha; exact hc
  obtain ⟨l, hl, hv, _⟩ := argv_length_preserved e (xbasename "sh".toList) ["-c".toList, cmd] tail hn
  have hb : xbasename "sh".toList = "sh".toList := by decide
  have hd : expected e "-c".toList = "-c".toList := no_percent_id e _ (by decide)
  rw [hb] at hl hv
  simp only [execCall, execWords, hb, hl, Option.map_some, hv, expectedArgv, List.map_cons, List.map_nil, hd]

theorem expectedLines_get (cfg : Cfg) (words : List Word) (targets : List Str) (i : Nat)
    (hi : i < targets.length) :
    ∃ hi' : i < (expectedLines cfg words targets).length,
      (expectedLines cfg words targets)[i] =
        ⟨(hostInfo cfg words targets[i]).1, targets[i], (hostInfo cfg words targets[i]).2, i⟩ := by
  refine ⟨by simp [expectedLines, hi], ?_⟩
  simp [expectedLines]

/-- the whole chain for exec: in a run that takes place (`ls` = its connections, equal to the
    specified ones by `run_eq_spec` / `run_eq_spec_reexpand`), the helper for the i-th target gets
    the command words with host = that target, user = what the first annotated word naming it (or
    -l, or the local user) says, rank = i -/
theorem exec_end_to_end (cfg : Cfg) (words : List Word) (targets : List Str) (ls : List Line)
    (hls : ls = expectedLines cfg words targets) (i : Nat) (hi : i < targets.length)
    (w0 : List Char) (rest : List (List Char)) (cmd tail : List Char) (hn : ∀ a ∈ rest, nul ∉ a) :
    ∃ hi' : i < ls.length,
      execCall repaired ⟨ls[i].host, ls[i].user, ls[i].rank⟩ (w0 :: rest) cmd tail =
        some ⟨w0, xbasename w0 ::
          rest.map (expected ⟨targets[i], (hostInfo cfg words targets[i]).2, i⟩)⟩ := by
  subst hls
  obtain ⟨hi', hg⟩ := expectedLines_get cfg words targets i hi
  refine ⟨hi', ?_⟩
  rw [hg]
  exact exec_argv_exact _ w0 rest cmd tail hn

/-- the whole chain for rsh: the request for the i-th target is (stderr port, local user, the
    specified remote user, the command words joined by single blanks) -/
theorem rsh_end_to_end (cfg : Cfg) (words : List Word) (targets : List Str) (ls : List Line)
    (hls : ls = expectedLines cfg words targets) (i : Nat) (hi : i < targets.length)
    (port : Option Nat) (argv : List Str) (hargv : ∀ a ∈ argv, nul ∉ a) (hlu : nul ∉ cfg.luser)
    (hru : nul ∉ (hostInfo cfg words targets[i]).2) :
    ∃ hi' : i < ls.length,
      parseRequest (xrcmdWrites port cfg.luser ls[i].user (joinCmd argv)).flatten =
        some (portField port, cfg.luser, (hostInfo cfg words targets[i]).2, joinCmd argv) := by
  subst hls
  obtain ⟨hi', hg⟩ := expectedLines_get cfg words targets i hi
  refine ⟨hi', ?_⟩
  rw [hg]
  exact (wire_request_exact port cfg.luser _ (joinCmd argv) hlu hru (joinCmd_nul_free argv hargv)).1

/-! ## the limit on user names (opt.c login_name_max_len / copy_username / wcoll_arg_process) -/

/-- A REMOTE USER NAME IS EITHER PASSED ON WHOLE OR REFUSES THE RUN: with the limit `m` of the machine
    (`Gen.MO_LOGIN_NAME_MAX`), a name longer than `m` -- from -l or from any `user@hosts` word -- ends the run
    before any connection; when all names are within the limit the run is exactly the run the theorems above
    speak about (so each host gets the name as typed, never a truncated one) -/
theorem user_whole_or_refused (m : Nat) (re : Bool) (cfg : Cfg) (words : List Word) (targets : List Str) :
    ((∃ u, cfg.optL = some u ∧ u.length > m) ∨ (∃ w ∈ words, ∃ u, wordUser w = some u ∧ u.length > m) →
      runChecked (some m) re cfg words targets = .fatal) ∧
    ((∀ u, cfg.optL = some u → u.length ≤ m) → (∀ w ∈ words, ∀ u, wordUser w = some u → u.length ≤ m) →
      runChecked (some m) re cfg words targets = (if re then runRe cfg words targets else run cfg words targets)) :=
  ⟨long_user_refused m re cfg words targets, runChecked_eq m re cfg words targets⟩

/-- a 5-byte name against a limit of 4: refused; the 4-byte name: contacted under exactly that name -/
example :
    let cfg : Cfg := ⟨["exec".toList], ["exec".toList], none, none, none, "me".toList⟩
    runChecked (some 4) true cfg [⟨"abcde@h1".toList, [['h', '1']], [['h', '1']]⟩] [['h', '1']] = .fatal ∧
    runChecked (some 4) true cfg [⟨"abcd@h1".toList, [['h', '1']], [['h', '1']]⟩] [['h', '1']] =
      .lines [⟨some "exec".toList, ['h', '1'], "abcd".toList, 0⟩] := by
  decide

/-- EVERY -l is tested when it is read (opt.c copy_username inside the option loop): a name beyond the limit refuses
    the run wherever it stands -- also when a later -l replaces it -- and -l options within the limit other than the
    last one have no influence at all -/
theorem every_l_is_tested (m : Nat) (re : Bool) (cfg : Cfg) (earlierL : List Str) (words : List Word)
    (targets : List Str) :
    ((∃ u ∈ earlierL, u.length > m) → runCheckedAll (some m) re cfg earlierL words targets = .fatal) ∧
    ((∀ u ∈ earlierL, u.length ≤ m) →
      runCheckedAll (some m) re cfg earlierL words targets = runChecked (some m) re cfg words targets) :=
  ⟨long_l_anywhere_refused m re cfg earlierL words targets, runCheckedAll_eq m re cfg earlierL words targets⟩

example :
    let cfg : Cfg := ⟨["exec".toList], ["exec".toList], none, none, some "bob".toList, "me".toList⟩
    runCheckedAll (some 4) true cfg ["abcde".toList] [⟨"h1".toList, [['h', '1']], [['h', '1']]⟩] [['h', '1']] = .fatal ∧
    runCheckedAll (some 4) true cfg ["abcd".toList] [⟨"h1".toList, [['h', '1']], [['h', '1']]⟩] [['h', '1']] =
      .lines [⟨some "exec".toList, ['h', '1'], "bob".toList, 0⟩] := by
  decide

/-! ## the rsh handshake: privileged-port loop, stderr back-connection, request (src/modules/xrcmd.c) -/

/-- a server that REFUSES the request sends a text behind its non-NUL verdict byte; xrcmd copies it into a stack
    buffer of `cap` = LINEBUFSIZE bytes for the diagnostic.  The code as it is now (e2d5199) is memory safe and exact
    for EVERY reply: the buffer receives the first line of the text without its newline, cut to cap - 2 bytes,
    followed by "\n\0", and never more than cap bytes (before the repair: `XrcmdErr.rsherr_witness_unchanged`) -/
theorem rsh_error_text_bounded (cap : Nat) (hcap : cap ≥ 2) (verdict : Char) (rest : List Char) :
    XrcmdErr.errText true cap verdict rest =
      some ((rest.takeWhile (· != XrcmdErr.nl)).take (cap - 2) ++ [XrcmdErr.nl, nul]) ∧
    ∃ t, XrcmdErr.errText true cap verdict rest = some t ∧ t.length ≤ cap :=
  ⟨XrcmdErr.errText_repaired cap hcap verdict rest, XrcmdErr.errText_repaired_fits cap hcap verdict rest⟩

example : XrcmdErr.errText true 6 'x' "Permission denied.\nmore".toList = some ("Perm".toList ++ [XrcmdErr.nl, nul]) ∧
    XrcmdErr.errText true 60 'x' "no\nmore".toList = some ("no".toList ++ [XrcmdErr.nl, nul]) := by decide

/-- THE HANDSHAKE MEETS ITS SPECIFICATION IN EVERY WORLD (Exec/XrcmdSpec.lean `meets`): whichever reserved
    ports are busy, however often and with whichever error connect() fails, whether or not sleep() is
    interrupted, whatever xpoll()/accept() report about the back-connection and whatever the peer answers --
    no byte is written before a connect() has succeeded, and a call that returns a socket has written exactly
    port NUL luser NUL ruser NUL cmd NUL, `port` being the number of a socket of this call that IS LISTENING
    when the first byte goes out (empty when no stderr channel was asked for). -/
theorem xrcmd_meets_spec (w : Xrcmd.World) (errCh : Bool) (luser ruser cmd : List Char) :
    Xrcmd.Spec.meets errCh luser ruser cmd (Xrcmd.xrcmd w errCh luser ruser cmd).ok
      (Xrcmd.xrcmd w errCh luser ruser cmd).evs = true :=
  Xrcmd.Spec.xrcmd_meets w errCh luser ruser cmd

/-- ... in terms of what the peer parses: with the stderr channel the first field is the decimal number of the
    port rresvport() bound when started DIRECTLY BELOW the port of the connected socket -- skipping busy ports
    is rresvport's business, the number announced is the one it returned -- and that socket was bound and put
    into the listening state immediately before the number was written -/
theorem xrcmd_request_stderr (w : Xrcmd.World) (luser ruser cmd : List Char)
    (hl : nul ∉ luser) (hr : nul ∉ ruser) (hc : nul ∉ cmd)
    (h : (Xrcmd.xrcmd w true luser ruser cmd).ok = true) :
    ∃ p p2 pre post,
      (Xrcmd.connectLoop w w.conns (Xrcmd.IPPORT_RESERVED - 1) 1 []).1 = some p ∧ w.resv (p - 1) = some p2 ∧
      (Xrcmd.xrcmd w true luser ruser cmd).evs =
        pre ++ [Xrcmd.Ev.bind p2, Xrcmd.Ev.listen p2, Xrcmd.Ev.write (Nat.toDigits 10 p2 ++ [nul])] ++ post ∧
      (∀ e ∈ pre, e.isWrite = false) ∧
      parseRequest (Xrcmd.writesOf (Xrcmd.xrcmd w true luser ruser cmd).evs).flatten =
        some (Nat.toDigits 10 p2, luser, ruser, cmd) := by
  obtain ⟨p, p2, src, pre, hloop, hnw, hres, _, _, _, _, he⟩ := Xrcmd.xrcmd_ok_stderr w luser ruser cmd h
  refine ⟨p, p2, pre, [Xrcmd.Ev.accept src, Xrcmd.Ev.close p2, Xrcmd.Ev.write (luser ++ [nul]),
    Xrcmd.Ev.write (ruser ++ [nul]), Xrcmd.Ev.write (cmd ++ [nul])], by rw [hloop], hres, ?_, hnw, ?_⟩
  · rw [he]; simp [List.append_assoc]
  · rw [he, Xrcmd.writesOf_append, Xrcmd.writesOf_no_write pre hnw]
    simp only [Xrcmd.writesOf, List.filterMap_cons, List.filterMap_nil, List.nil_append]
    rw [Xrcmd.Spec.writes_flatten_stderr]
    exact rshRequest_roundtrip (some p2) luser ruser cmd hl hr hc

/-- without the stderr channel (fd2p == NULL) the port field is empty -/
theorem xrcmd_request_plain (w : Xrcmd.World) (luser ruser cmd : List Char)
    (hl : nul ∉ luser) (hr : nul ∉ ruser) (hc : nul ∉ cmd)
    (h : (Xrcmd.xrcmd w false luser ruser cmd).ok = true) :
    parseRequest (Xrcmd.writesOf (Xrcmd.xrcmd w false luser ruser cmd).evs).flatten =
      some ([], luser, ruser, cmd) := by
  obtain ⟨p, pre, _, hnw, he⟩ := Xrcmd.xrcmd_ok_plain w luser ruser cmd h
  rw [he, Xrcmd.writesOf_append, Xrcmd.writesOf_no_write pre hnw]
  simp only [Xrcmd.writesOf, List.filterMap_cons, List.filterMap_nil, List.nil_append]
  rw [Xrcmd.Spec.writes_flatten_plain]
  exact rshRequest_roundtrip none luser ruser cmd hl hr hc

/-- a call that never got a connection fails and has written nothing: no user name and no command text
    reaches anybody -/
theorem xrcmd_unconnected_silent (w : Xrcmd.World) (errCh : Bool) (luser ruser cmd : List Char)
    (h : (Xrcmd.connectLoop w w.conns (Xrcmd.IPPORT_RESERVED - 1) 1 []).1 = none) :
    (Xrcmd.xrcmd w errCh luser ruser cmd).ok = false ∧
    Xrcmd.writesOf (Xrcmd.xrcmd w errCh luser ruser cmd).evs = [] :=
  Xrcmd.xrcmd_unconnected w errCh luser ruser cmd h

/-- the retries on ECONNREFUSED are bounded: pauses of 1, 2, 4, 8, 16 seconds at most, 31 seconds in all, in
    every world (the connect time-out of C07 interrupts them earlier) -/
theorem xrcmd_backoff_bounded (w : Xrcmd.World) (errCh : Bool) (luser ruser cmd : List Char) :
    Xrcmd.Spec.sleepSum (Xrcmd.xrcmd w errCh luser ruser cmd).evs ≤ 31 :=
  Xrcmd.Spec.xrcmd_sleeps_at_most_31 w errCh luser ruser cmd

/-- non-vacuity, and the situation of a busy port: 1023 answers EADDRINUSE, 1022 connects, 1021 is taken by
    somebody else, so the stderr socket is 1020 -- and 1020 is what the request says -/
example :
    let w : Xrcmd.World := ⟨fun s => if s = 1021 then some 1020 else some s, [.addrInUse, .ok], true, true,
                            some 1000, some [nul]⟩
    (Xrcmd.xrcmd w true "me".toList "you".toList "id".toList).ok = true ∧
    Xrcmd.mergeWrites (Xrcmd.xrcmd w true "me".toList "you".toList "id".toList).evs =
      [.bind 1023, .connect 1023 .addrInUse, .close 1023, .bind 1022, .connect 1022 .ok, .bind 1020, .listen 1020,
       .write "1020\x00".toList, .accept 1000, .close 1020, .write "me\x00you\x00id\x00".toList] := by
  decide

/-! ## from the command line: option precedence (C18's table), target assembly and exclusion (C10, C02) -/

/-- LAST -R WINS, -R OVER PDSH_RCMD_TYPE (corollary of C18.precedence, which is proved over the option table
    generated from opt.c): in every accepted run the default transport of the C09 model, fed with the
    last -R, the variable and the loaded modules, is the `rcmd_name` opt.c ends up with -/
theorem last_R_wins_R_over_env {fx : Opt.Fixes} {d : Opt.Defaults} {p : Opt.Pers} {env : Opt.Env}
    {argv : List Str} {c : Opt.Cfg} (h : Opt.effective fx d p env argv = .ok c) :
    defaultName (cfgOfSettings d p env argv) = c.rcmdName ∧
    c.rcmdName = (Opt.lastArg 'R' (Opt.getopt (Opt.fullString d p) argv).1 <|>
                  Opt.getenv env "PDSH_RCMD_TYPE" <|> Opt.defaultRcmd d) := by
  obtain ⟨_, _, _, _, a5, _, _⟩ := C18.precedence h
  refine ⟨?_, a5⟩
  rw [a5]
  unfold defaultName cfgOfSettings Opt.defaultRcmd
  have hfun : (fun x => d.rcmdModules.contains x) = (fun x => decide (x ∈ d.rcmdModules)) := by
    funext x; simp
  cases Opt.lastArg 'R' (Opt.getopt (Opt.fullString d p) argv).1 <;>
    cases Opt.getenv env "PDSH_RCMD_TYPE" <;> simp [hfun]

/-- LAST -l WINS (same source): the user the C09 model falls back to is opt.c's `ruser` -/
theorem last_l_wins {fx : Opt.Fixes} {d : Opt.Defaults} {p : Opt.Pers} {env : Opt.Env}
    {argv : List Str} {c : Opt.Cfg} (h : Opt.effective fx d p env argv = .ok c) :
    defaultUser (cfgOfSettings d p env argv) = c.ruser := by
  obtain ⟨_, _, _, a4, _, _, _⟩ := C18.precedence h
  rw [a4]
  unfold defaultUser cfgOfSettings Opt.pick
  cases Opt.lastArg 'l' (Opt.getopt (Opt.fullString d p) argv).1 <;> simp

/-- CONTACTED AS SPECIFIED.  `items`: the comma words of the command line by meaning, in order --
    target words `[type:][user@]word` and C02's exclusion / filter words anywhere among them.  Inside
    C02's domain (repairs D1, D17, D19; one-bracket target words ...) and when every annotation splits
    off as written (`hsplit`, decidable per word):
     * get_host_rcmd_type hands hostlist exactly the unannotated word C02's model processes,
     * pdsh goes on with `T` = targets minus exclusions, filtered (C02.exclusion_correct), and
     * in every run that takes place, for EVERY host of that final list the transport is given the
       type and user of the first annotated word whose hosts contain it (else the defaults chain), the
       rank = its position in `T` -- i.e. AFTER -x removed hosts -- and the command words joined by blanks. -/
theorem contacted_as_specified (xc : Hostlist.Cfg) (hD1 : xc.fixDeleteAll = true) (hD17 : xc.fixIterSuffix = true)
    (hD19 : xc.fixRemoveDepth = true) (xenv : Opt.Exclude.Env) (items : List Item)
    (hd : Opt.Exclude.Domain xc xenv (items.map Item.cw))
    (hsplit : ∀ a ∈ awords items, parse a.text = some ⟨a.rtype, a.user, Hostlist.Spec.renderWord a.w⟩)
    (cfg : Cfg) (argv : List Str) :
    let T := Opt.Exclude.specWords xenv (items.map Item.cw)
    (∀ a ∈ awords items, splitWord a.text = .ok a.rtype a.user (Opt.Exclude.CW.text (.tgt a.w))) ∧
    Opt.Exclude.cliWords xc xenv ((items.map Item.cw).map Opt.Exclude.CW.text) = .ok T ∧
    ∀ ls, runRe cfg ((awords items).map AWord.toWord) T = .lines ls →
      ls.length = T.length ∧
      ∀ (i : Nat) (hi : i < T.length), ∃ hi' : i < ls.length,
        ls[i] = ⟨(hostInfo cfg ((awords items).map AWord.toWord) T[i]).1, T[i],
                 (hostInfo cfg ((awords items).map AWord.toWord) T[i]).2, i⟩ ∧
        rshRequest none cfg.luser ls[i].user (joinCmd argv) =
          rshRequest none cfg.luser (hostInfo cfg ((awords items).map AWord.toWord) T[i]).2 (joinCmd argv) := by
  intro T
  refine ⟨?_, Opt.Exclude.cliWords_correct xc hD1 hD17 hD19 xenv _ hd, ?_⟩
  · intro a ha
    rw [splitWord_eq_parse, hsplit a ha]
    rfl
  · intro ls hrun
    have hls := run_eq_spec_reexpand cfg _ T ls hrun
    subst hls
    refine ⟨by simp [expectedLines], ?_⟩
    intro i hi
    obtain ⟨hi', hg⟩ := expectedLines_get cfg ((awords items).map AWord.toWord) T i hi
    exact ⟨hi', hg, by rw [hg]⟩

/-- rank is counted AFTER exclusion: `-w u1@n[1-3] -x n2` contacts n1 with rank 0 and n3 with rank 1 -/
example :
    let w : Word := ⟨"u1@n[1-3]".toList, ["n1", "n2", "n3"].map String.toList, ["n1", "n2", "n3"].map String.toList⟩
    let cfg : Cfg := ⟨["exec".toList], ["exec".toList], none, none, none, "me".toList⟩
    (match runRe cfg [w] (["n1", "n3"].map String.toList) with
     | .lines ls => ls.map (fun l => (String.ofList l.host, String.ofList l.user, l.rank)) | .fatal => []) =
      [("n1", "u1", 0), ("n3", "u1", 1)] := by
  decide

/-! ## the ssh transport (src/modules/sshcmd.c; not built in the verified configuration) -/

/-- ssh is started with argv = "ssh", then the template (PDSH_SSH_ARGS[_APPEND] split at blanks and
    completed with "-l%u" / "%h" as `fixup` says), then the command words -- every one of them with
    %h %u %n %% replaced and everything else byte for byte: quotes, backslashes (also trailing ones)
    and unknown %x sequences are not touched -/
theorem ssh_argv_exact (esc : Bool) (e : Env) (append args dshpath : Option Ssh.Str) (luser : Ssh.Str) (pcp : Bool)
    (words : List Ssh.Str) (cmd tail : Ssh.Str)
    (hn : ∀ a ∈ Ssh.sshArgv esc append args dshpath luser e.user pcp words cmd, nul ∉ a) :
    Ssh.sshCall repaired esc e append args dshpath luser pcp words cmd tail =
      some ("ssh".toList :: (Ssh.sshArgv esc append args dshpath luser e.user pcp words cmd).map (expected e)) := by
  obtain ⟨l, hl, hv, _⟩ := argv_length_preserved e "ssh".toList _ tail hn
  simp only [Ssh.sshCall, hl, Option.map_some, hv, expectedArgv]

/-- ... hence command words without '%' reach ssh verbatim, whatever else they contain -/
theorem ssh_command_verbatim (e : Env) (append args dshpath : Option Ssh.Str) (luser : Ssh.Str)
    (w0 : Ssh.Str) (rest : List Ssh.Str) (cmd : Ssh.Str) (hp : ∀ w ∈ w0 :: rest, '%' ∉ w) :
    (Ssh.sshArgv false append args dshpath luser e.user false (w0 :: rest) cmd).map (expected e) =
      (Ssh.fixup (Ssh.template append args dshpath) (luser != e.user)).map (expected e) ++ (w0 :: rest) := by
  have : (w0 :: rest).map (expected e) = w0 :: rest := by
    have gen : ∀ (l : List Ssh.Str), (∀ w ∈ l, '%' ∉ w) → l.map (expected e) = l := by
      intro l
      induction l with
      | nil => intro _; rfl
      | cons a r ih =>
        intro h
        simp only [List.map_cons]
        rw [no_percent_id e a (h a (by simp)), ih (fun w hw => h w (by simp [hw]))]
    exact gen _ hp
  simp only [Ssh.sshArgv, Bool.false_or, List.isEmpty_cons, Bool.false_eq_true, if_false, List.map_append,
    List.map_map, Function.comp_def, List.map_id', this]

/-- doubling the '%' is the inverse of the formatting, for every string and every (host, user, rank) -/
theorem expected_escapePct (e : Env) (w : Ssh.Str) : expected e (Ssh.escapePct w) = w := by
  induction w with
  | nil => simp [Ssh.escapePct, expected_nil]
  | cons c rest ih =>
    by_cases hc : c = '%'
    · subst hc
      simp only [Ssh.escapePct, if_true]
      rw [expected_esc, ih]
      simp [escTok, render]
    · simp only [Ssh.escapePct, hc, if_false]
      rw [expected_cons_lit e c _ hc, ih]

/-- WITH findings/C09-sshpct.patch the command words reach ssh byte for byte -- `%h`, `%%`, a lone
    trailing '%', quotes, backslashes, anything -- behind the expanded template -/
theorem ssh_command_verbatim_repaired (e : Env) (append args dshpath : Option Ssh.Str) (luser : Ssh.Str)
    (w0 : Ssh.Str) (rest : List Ssh.Str) (cmd : Ssh.Str) :
    (Ssh.sshArgv true append args dshpath luser e.user false (w0 :: rest) cmd).map (expected e) =
      (Ssh.fixup (Ssh.template append args dshpath) (luser != e.user)).map (expected e) ++ (w0 :: rest) := by
  have gen : ∀ (l : List Ssh.Str), (l.map fun w => Ssh.escapePct w).map (expected e) = l := by
    intro l
    induction l with
    | nil => rfl
    | cons a r ih => simp only [List.map_cons, expected_escapePct, ih]
  simp only [Ssh.sshArgv, Bool.false_or, List.isEmpty_cons, Bool.false_eq_true, if_false, if_true, List.map_append]
  rw [gen]

/-- the default template "-2 -a -x %h" for a remote user that differs from the local one -/
theorem ssh_default_fixup :
    Ssh.fixup (["-2", "-a", "-x", "%h"].map String.toList) true =
      ["-2", "-a", "-x", "-l%u", "%h"].map String.toList := by
  decide

/-- a command word is NOT exempt from the substitution: `pdsh -R ssh -w n1 -l bob echo %h` makes ssh
    run `echo n1` (finding F09-SSHPCT; `echo %%h` is the way to say %h) -/
theorem ssh_percent_witness :
    (["echo", "%h", "100%%"].map String.toList).map (expected ⟨"n1".toList, "bob".toList, 0⟩) =
      ["echo", "n1", "100%"].map String.toList := by
  decide

/-- the hypotheses of the theorems above are satisfiable by a non-trivial run: two overlapping
    annotated words, -l, and a default from the rank list -/
example :
    let w1 : Word := ⟨"t1:u1@h[1-2]".toList, ["h1".toList, "h2".toList], ["h1".toList, "h2".toList]⟩
    let w2 : Word := ⟨"u2@h[2-3]".toList, ["h2".toList, "h3".toList], ["h2".toList, "h3".toList]⟩
    let w3 : Word := ⟨"h4".toList, ["h4".toList], ["h4".toList]⟩
    let cfg : Cfg := ⟨["t1".toList, "exec".toList], ["rsh".toList, "exec".toList], none, none,
                      some "lu".toList, "me".toList⟩
    let ts := ["h1", "h2", "h2", "h3", "h4"].map String.toList
    run cfg [w1, w2, w3] ts = .lines (expectedLines cfg [w1, w2, w3] ts)
    ∧ (expectedLines cfg [w1, w2, w3] ts).map (fun l => (l.rtype, l.user)) =
        [(some "t1".toList, "u1".toList), (some "t1".toList, "u1".toList), (some "t1".toList, "u1".toList),
         (some "exec".toList, "u2".toList), (some "exec".toList, "lu".toList)] := by
  decide

example : endsUnpaired "a%%b%h".toList = false ∧ endsUnpaired "a%%%".toList = true := by decide

end PdshVerif.C09
