import PdshVerif.Dsh.TimedHealthy
import PdshVerif.Dsh.TimedBound
import PdshVerif.Dsh.TimedK

/-!
# C07 — a failing or slow host never harms the others; timeouts bound the run

Model: `Dsh/Timed.lean` = the fan-out LTS of C03/C04 in its general form `Dsh/FanG.lean` (dispatcher, workers,
mutex/condvar; EVERY signalling discipline: wake-up call inside or after the critical section, signal | broadcast —
so every theorem below holds for each of them) + an integer
clock + one record per target (phase NEW/RCMD/connecting/READING/finished, `start`, `connect`,
pending SIGALRM, the two streams, outcome, what dsh.c printed about it) + the watchdog (`scan` every
WDOG_POLL seconds, SIGALRM to overdue targets, effective iff the target is blocked in connect or
xpoll).  A target's *script* (connect ok/refuse after d seconds or hang; per stream, items at fixed
delays after the connect, `never` = the stream hangs) is the fault model of the property: refuse,
hang in connect, hang mid-command, early close of one stream, read error; exit codes / death of the
remote command do not change the protocol (they are C08's).  Time passes (`tick`) only when no
thread can run (maximal progress).  `Reach v f c scripts s`: `s` is reachable for wait construct `v`,
fanout `f`, timeouts and -s flag `c`, under ANY schedule and any number of spurious wake-ups.

THE TEARDOWN IS A PHASE OF ITS OWN.  A script also says how long the remote command lives by itself (`life`
seconds after the connect, whatever its streams do; `none` = for ever) and what a SIGTERM does to it (`grace`:
gone that many seconds later; `none` = it ignores SIGTERM).  When the worker gives up on a target at the command
timeout it forwards SIGTERM (`rcmd_signal`); then, as after a normal end of the streams, it sits in `rcmd_destroy`
until the command is gone (`death ≤ now`), and only the return of `rcmd_destroy` (`reaped`) lets it go on to
release its fanout slot.  A wait interrupted by a signal would give the command up un-reaped (the EINTR branch of
`hostStep .. destEnd`); `teardown_uninterrupted` shows that the branch is dead on this code: the watchdog only
signals targets that are connecting or reading.

What is proved (all fanouts, all numbers of targets, all fault vectors, all schedules):
* `fan_refinement`: a timed execution is a `FanG` execution — C03/C04 (`Props/C03 G.*`, `Props/C04 G.*`) carry over
  (`inflight_le_fanout_timed`, `each_target_connected_once`);
* `non_interference_step` / `non_interference`: a target's record evolves as a function of the record,
  its OWN script, the timeouts and the clock only;
* `healthy_never_interrupted`, `healthy_complete`: a target that accepts within the connect timeout and
  whose streams end within the command timeout is never hit by SIGALRM and, when dsh() has returned,
  is DONE with every byte of both streams read, having been connected exactly once — whatever the other
  targets do;
* `connect_deadline`, `command_deadline`, `interrupted_is_abandoned_now`, `unlimited_never_interrupted`;
* `failed_reported` (command timeout; connect-time messages are the transport module's);
* `inflight_le_fanout` (in flight = connect begun … `rcmd_destroy` returned, in terms of the target records),
  `alive_le_fanout` (remote commands alive at the same instant ≤ fanout — across timeouts, for commands that
  outlive their streams or ignore SIGTERM), `alive_holds_slot`, `teardown_waits`, `teardown_uninterrupted`;
* `terminates_with_timeouts` (both timeouts set, every command ends — `Td`: it exits by itself within K of its
  connect, or it holds stdout open and is gone within K of the forwarded SIGTERM: virtual time ≤
  n·(ct+ut+2·WDOG_POLL+K) until dsh() returns), `terminates_no_hang_ut0` (no command timeout but no stream hangs:
  ≤ n·(ct+WDOG_POLL+K) + Σ scripted stream ends) and `never_stuck`;
* the two bounds and `immortal_never_returns` are about the tree as it is (`Cfg.killAfter = false`, stated); the
  repair of F07-TEARDOWN-WAIT (a) is a SWITCH of the model (`Cfg.killAfter`: `Host.giveUp` = SIGTERM, one watchdog
  period of grace, SIGKILL, only then `rcmd_destroy`), probed by behaviour, and the acceptor runs the variant the tree
  shows: `kill_after_teardown_does_not_wait`, `kill_after_grace_is_one_period` + witness (the immortal target's run
  returns at second 4); all other theorems hold for both values;
* `immortal_never_returns`: WITHOUT the hypothesis `Td` the bound fails — once a command that neither exits nor
  reacts to SIGTERM has been started, dsh() never returns, command timeout or not (the teardown waits for it:
  witness below; on the real `pdsh -R exec -u 1` this is finding F07-TEARDOWN-WAIT).
The connect outcome of the model is success / failure (`Conn.ok` / `refuse` / interrupted), not a descriptor:
the correspondence maps `rcmd_connect() ≥ 0` to success, and the descriptor VALUE the scripted transport returns is
generated over {0, 1, 2, ≥ 3} (harness key `lowfds`).

* `-k` (section `K`, LTS `Dsh/TimedK.lean` = the timed LTS + the fail-fast exit): `K.failfast_enabled` (the exit is
  enabled as soon as a failed target's worker has left `rcmd_destroy`, whatever everybody else does),
  `K.failfast_now` (no time passes and the failed worker does not give its slot back while the exit is pending),
  `K.exit_is_end`, `K.abort_signals_reading` (SIGTERM to every READING target, nobody else's record touched),
  `K.refines_timed` (until the exit a -k run IS a timed run: all of the above applies),
  `K.without_k_is_timed` (fail-fast only if asked).
The pdcp worker `_rcp_thread` runs the same slot protocol; its connect phase (refuse, hang, delays straddling the
deadline) is under this correspondence too (pinned cases `pers pcp`).

Not proved here: that dsh.c refines the LTS (trace correspondence of `checks/c07.py`; `pdshmodel timed` runs
`TimedK.step` = `Timed.step` over `FanG.step`, plus the -k exit); anything below the granularity "operations +
blocking calls" (a SIGALRM that finds the worker between two xpoll calls is lost — finding F07-LOSTALRM — the
model's workers are always inside xpoll while READING); scheduling latency of real threads; `pthread_create`
failure under -k; that `_fwd_signal` leaves targets that are already in their teardown unsignalled when pdsh exits
(they are: only DSH_READING slots are signalled — not constrained by the property); DNS.
-/
namespace PdshVerif.Props.C07
open PdshVerif.Dsh PdshVerif.Dsh.Timed

/-- every timed execution, with clock, watchdog and reads forgotten, is an execution of the fan-out
    LTS of C03/C04 -/
theorem fan_refinement {v f c scripts} {ls : List Label} {s : St} (he : Exec (init v f c scripts) ls s) :
    FanG.Exec (FanG.init v f scripts.length) (ls.filterMap projLabel) s.fan := by
  simpa [init] using exec_proj he

/-- C04 for the timed system: faults and timeouts never push the number of connections in flight
    beyond the fanout (`while` construct) -/
theorem inflight_le_fanout_timed {f c scripts} {s : St} (h : Reach .whileWait f c scripts s) :
    FanG.inflight s.fan ≤ f := by
  have hr := reach_proj h
  obtain ⟨ls, he⟩ := hr
  have hb := FanG.bound_exec (s0 := FanG.init .whileWait f scripts.length) rfl (FanG.inv_init _ _ _)
    (FanG.bound_init _ _ _) he
  have hf := (FanG.exec_params he).2.1
  simp [FanG.init] at hf
  have h2 := (FanG.inv_exec (FanG.inv_init _ _ _) he).cnt
  have h3 := FanG.flying_le_counted s.fan.ws
  have := hb.le
  unfold FanG.inflight; omega

/-- C04 ACROSS TIMEOUTS, in terms of the target records: the number of targets whose connect has begun and whose
    `rcmd_destroy` has not returned never exceeds the fanout — whatever refuses, hangs, is given up on at a
    timeout, outlives its streams or ignores SIGTERM (`while` construct; any schedule, any spurious wake-ups) -/
theorem inflight_le_fanout {f c scripts} {s : St} (h : Reach .whileWait f c scripts s) : s.inflight ≤ f := by
  obtain ⟨ls, he⟩ := h
  rw [inflight_eq_fan (tinv_exec (tinv_init _ _ _ _) he) (dinv_exec he)]
  exact inflight_le_fanout_timed ⟨ls, he⟩

/-- a remote command that is alive belongs to a worker that still holds its fanout slot (it is between
    `rcmd_connect` and the return of `rcmd_destroy`): the slot is released only after the command is gone -/
theorem alive_holds_slot {v f c scripts} {s : St} (h : Reach v f c scripts s) {j : Nat} (hj : j < s.hs.length)
    (ha : (s.host j).alive s.now = true) : FanG.flying (FanG.pc s.fan j) = true := by
  obtain ⟨ls, he⟩ := h
  have hti := tinv_exec (tinv_init _ _ _ _) he
  have hdi := dinv_exec he
  rw [← inflight_iff_flying hti hdi hj]
  exact alive_inflight (hdi.host j hj) ha

/-- the number of remote commands alive at the same instant never exceeds the fanout -/
theorem alive_le_fanout {f c scripts} {s : St} (h : Reach .whileWait f c scripts s) : s.alive ≤ f := by
  have hle : s.alive ≤ s.inflight := by
    obtain ⟨ls, he⟩ := h
    have hdi := dinv_exec he
    unfold St.alive St.inflight
    apply List.countP_mono_left
    intro x hx hax
    obtain ⟨j, hj, rfl⟩ := List.getElem_of_mem hx
    have : s.host j = s.hs[j] := by
      simp [St.host, List.getD_eq_getElem?_getD, List.getElem?_eq_getElem hj]
    rw [← this] at hax ⊢
    exact alive_inflight (hdi.host j hj) hax
  exact Nat.le_trans hle (inflight_le_fanout h)

/-- while the command is not gone the worker stays in `rcmd_destroy` -/
theorem teardown_waits {v f c scripts} {s : St} (h : Reach v f c scripts s) {j : Nat} (hj : j < s.hs.length)
    (hpc : FanG.pc s.fan j = .tearing) (ha : (s.host j).alive s.now = true) :
    step s (.fan (.w j .destroyEnd)) = none := by
  have hti := tinv_reach h
  have hfin : (s.host j).ph = .finished := by
    have := hti.sync j hj; rw [hpc] at this; simpa [phOK] using this
  have hint : (s.host j).intr = false := by
    cases hh : (s.host j).intr with
    | false => rfl
    | true => have := (hti.hosts j hj).intrPh hh; rw [hfin] at this; simp at this
  have hng : (s.host j).gone s.now = false := by simpa [Host.alive] using ha
  simp only [step, dstep]
  cases FanG.step s.fan (.w j .destroyEnd) <;> simp [fanGuard, hint, hng]

/-- no signal is ever pending for a target that is being torn down: the wait in `rcmd_destroy` is never
    interrupted, so a command is never given up un-reaped -/
theorem teardown_uninterrupted {v f c scripts} {s : St} (h : Reach v f c scripts s) {j : Nat} (hj : j < s.hs.length)
    (hph : (s.host j).ph = .finished) : (s.host j).intr = false := by
  cases hh : (s.host j).intr with
  | false => rfl
  | true => have := ((tinv_reach h).hosts j hj).intrPh hh; rw [hph] at this; simp at this

/-- C03 for the timed system: whatever fails, when dsh() has returned every target was connected
    exactly once and torn down exactly once -/
theorem each_target_connected_once {v f c scripts} {ls : List Label} {s : St}
    (he : Exec (init v f c scripts) ls s) (hf : Final s) (i : Nat) (hi : i < scripts.length) :
    (ls.filterMap projLabel).count (.w i .connectBegin) = 1 ∧
    (ls.filterMap projLabel).count (.w i .destroyEnd) = 1 := by
  have hfe := fan_refinement he
  have hinv := FanG.inv_exec (FanG.inv_init v f scripts.length) hfe
  have hlen : s.fan.ws.length = scripts.length := by
    have := (FanG.exec_params hfe).2.2; simpa [FanG.init] using this
  have hout : FanG.isOut (FanG.pc s.fan i) = true := hinv.fin (by rw [hf]; rfl) i (by omega)
  constructor <;> rw [(FanG.hist_exec hfe).common i _ rfl] <;> revert hout <;>
    cases FanG.pc s.fan i <;> simp [FanG.isOut, FanG.ord, FanG.WAct.post]

/-- NON-INTERFERENCE (one step): target `j`'s record after any step is `hostStep` of its record before:
    a function of the record, `j`'s own script, the timeouts and the clock — nothing else -/
theorem non_interference_step {s s' : St} {l : Label} (h : step s l = some s') {j : Nat} (hj : j < s.hs.length) :
    s'.host j = hostStep s.cfg (s.script j) s.now (s.host j) (localOf j l) :=
  host_local' h hj

/-- NON-INTERFERENCE (two runs): take two systems that may differ in everything — number of targets,
    the other targets' scripts and fates, fanout, schedule — but agree on the timeouts, on target `j`'s
    script, on `j`'s current record and on the time.  If in both the same kind of thing happens to `j`
    (its own operation, a watchdog pass, or nothing), `j`'s records agree afterwards. -/
theorem non_interference {s1 s1' s2 s2' : St} {l1 l2 : Label} {j1 j2 : Nat}
    (h1 : step s1 l1 = some s1') (h2 : step s2 l2 = some s2') (hj1 : j1 < s1.hs.length) (hj2 : j2 < s2.hs.length)
    (hc : s1.cfg = s2.cfg) (hs : s1.script j1 = s2.script j2) (hn : s1.now = s2.now)
    (hh : s1.host j1 = s2.host j2) (hl : localOf j1 l1 = localOf j2 l2) :
    s1'.host j1 = s2'.host j2 := by
  rw [host_local' h1 hj1, host_local' h2 hj2, hc, hs, hn, hh, hl]

/-- a healthy target is never hit by the watchdog's SIGALRM, whatever the other targets do -/
theorem healthy_never_interrupted {v f c scripts} {ls : List Label} {s : St} (he : Exec (init v f c scripts) ls s)
    {j d : Nat} (hj : j < scripts.length) (hh : Healthy c (scripts.getD j defaultScript) d) :
    (s.host j).intr = false :=
  (hh_exec he hj hh).2.2.2.intr

/-- a healthy target, when dsh() has returned: DONE, every byte of stdout (and of stderr with -s) read,
    no report about it -/
theorem healthy_complete {v f c scripts} {ls : List Label} {s : St} (he : Exec (init v f c scripts) ls s)
    (hf : Final s) {j d : Nat} (hj : j < scripts.length) (hh : Healthy c (scripts.getD j defaultScript) d) :
    (s.host j).res = .done ∧ (s.host j).out.got = dataBefore (scripts.getD j defaultScript).out ∧
    (c.sopt = true → (s.host j).err.got = dataBefore (scripts.getD j defaultScript).err) := by
  obtain ⟨hc, hs, hl, h4⟩ := hh_exec he hj hh
  have hti := tinv_exec (tinv_init v f c scripts) he
  have hj' : j < s.hs.length := by rw [hl]; exact hj
  -- the worker is done, so the target is finished
  have hout : FanG.isOut (FanG.pc s.fan j) = true :=
    hti.fan.fin (by rw [hf]; rfl) j (by rw [← hti.lenH]; exact hj')
  have hph : (s.host j).ph = .finished := by
    have := hti.sync j hj'; revert hout this
    cases FanG.pc s.fan j <;> simp [phOK, FanG.isOut]
  obtain ⟨hres, hoc, hec⟩ := h4.fin hph
  have hscr : s.script j = scripts.getD j defaultScript := by simp [St.script, hs]
  refine ⟨hres, ?_, ?_⟩
  · have := h4.out.cons; rw [h4.out.nil hoc] at this; simp [dataBefore] at this; rw [← hscr]; exact this
  · intro hso
    have hso' : s.cfg.sopt = true := by rw [hc]; exact hso
    have := (h4.err hso').cons; rw [(h4.err hso').nil hec] at this; simp [dataBefore] at this
    rw [← hscr]; exact this

/-- a target that is still connecting and has not been interrupted yet: at most
    connect_timeout + WDOG_POLL seconds after its start -/
theorem connect_deadline {v f c scripts} {s : St} (h : Reach v f c scripts s) {j : Nat} (hj : j < s.hs.length)
    (hph : (s.host j).ph = .connecting) (hct : 0 < s.cfg.ct) :
    s.now ≤ (s.host j).start + s.cfg.ct + WDOG_POLL := by
  have hti := tinv_reach h
  have hho := hti.hosts j hj
  cases hint : (s.host j).intr with
  | false => have := hho.connDl hph hint hct; have := hti.nowWake; omega
  | true => exact (hho.connIntr hph hint).2

/-- a target whose command is still running (its worker sits in xpoll): at most
    command_timeout + WDOG_POLL seconds after the connect, if the command timeout is not 0 -/
theorem command_deadline {v f c scripts} {s : St} (h : Reach v f c scripts s) {j : Nat} (hj : j < s.hs.length)
    (hph : (s.host j).ph = .reading) (hut : 0 < s.cfg.ut) :
    s.now ≤ (s.host j).conn + s.cfg.ut + WDOG_POLL := by
  have hti := tinv_reach h
  have hho := hti.hosts j hj
  cases hint : (s.host j).intr with
  | false => have := hho.readDl hph hint hut; have := hti.nowWake; omega
  | true => exact (hho.readIntr hph hint).2

/-- command_timeout = 0: a running command is never interrupted; connect_timeout = 0: neither is a connect -/
theorem unlimited_never_interrupted {v f c scripts} {s : St} (h : Reach v f c scripts s) {j : Nat}
    (hj : j < s.hs.length) :
    ((s.host j).ph = .reading → s.cfg.ut = 0 → (s.host j).intr = false) ∧
    ((s.host j).ph = .connecting → s.cfg.ct = 0 → (s.host j).intr = false) := by
  have hho := (tinv_reach h).hosts j hj
  constructor
  · intro hph hz
    cases hint : (s.host j).intr with
    | false => rfl
    | true => have := (hho.readIntr hph hint).1; omega
  · intro hph hz
    cases hint : (s.host j).intr with
    | false => rfl
    | true => have := (hho.connIntr hph hint).1; omega

/-- an interrupted target is abandoned in the same instant: the clock cannot advance before its worker
    has returned from connect / xpoll (and then fails the target: `hostStep`) -/
theorem interrupted_is_abandoned_now {v f c scripts} {s : St} (h : Reach v f c scripts s) {j : Nat}
    (hj : j < s.hs.length) (hint : (s.host j).intr = true) : step s .tick = none := by
  have hti := tinv_reach h
  have hsy := hti.sync j hj
  cases hq : quiescent s with
  | false => simp [step, hq]
  | true =>
    exfalso
    rcases (hti.hosts j hj).intrPh hint with hph | hph
    · have hpc := pc_of_connecting hsy hph
      obtain ⟨f', hf⟩ := fan_step_w_some (a := .connectEnd) (by rw [hpc]; rfl) (by simp)
      have := dstep_fan_some (s := s) hf (by simp [fanGuard, hint])
      rw [quiescent_none hq (mem_cands_w s hj _)] at this; cases this
    · have : (dstep s (.wake j)).isSome = true := by simp [dstep, hj, hph, hint]
      rw [quiescent_none hq (mem_cands_wake s hj)] at this; cases this

/-- the failure dsh.c reports itself: a target failed by the command timeout has "command timeout" on
    standard error under its name -/
theorem failed_reported {v f c scripts} {s : St} (h : Reach v f c scripts s) {j : Nat} (hj : j < s.hs.length)
    (hres : (s.host j).res = .cmdTimedOut) : Rep.cmdTimeout ∈ (s.host j).reps :=
  ((tinv_reach h).hosts j hj).resRep hres

/-- TIMEOUTS BOUND THE RUN: with both timeouts set (and fanout ≥ 1) and every command ending (`Td c K`: it exits
    by itself within K seconds of its connect — whatever it does with signals —, or it holds stdout open for ever
    and is gone within K seconds of the SIGTERM forwarded at the command timeout), as long as dsh() has not
    returned the virtual clock is at most n · (connect_timeout + command_timeout + 2 · WDOG_POLL + K) — whatever
    the targets do and however the threads are scheduled. -/
theorem terminates_with_timeouts {v f c scripts} {K : Nat} {ls : List Label} {s : St}
    (he : Exec (init v f c scripts) ls s) (hka : c.killAfter = false) (hf : 0 < f) (hct : 0 < c.ct) (hut : 0 < c.ut)
    (htd : ∀ j, j < scripts.length → Td c K (scripts.getD j defaultScript)) (hnf : ¬ Final s) :
    s.now ≤ scripts.length * (c.ct + c.ut + 2 * WDOG_POLL + K) := by
  have := (time_bounded he hka hf hct (Or.inl hut) htd).2.2 hnf
  have hsum : ∀ l : List Script, (l.map (budget c K)).sum = l.length * (c.ct + c.ut + 2 * WDOG_POLL + K) := by
    intro l; induction l with
    | nil => simp
    | cons x xs ih =>
      simp only [List.map_cons, List.sum_cons, List.length_cons, ih, budget, readB, hut, if_true, Nat.succ_mul]
      omega
  rw [hsum] at this; omega

/-- the hypothesis `Td` for the commands the SIGTERM clause is about: a command that would run for ever, holding
    stdout open, but dies within K of SIGTERM -/
theorem td_of_sigterm_obeyed {c : Cfg} {K k : Nat} {sc : Script} (hut : 0 < c.ut) (hl : sc.life = none)
    (hh : hangsItems sc.out = true) (hg : sc.grace = some k) (hk : k ≤ K) : Td c K sc :=
  Or.inr ⟨hl, hh, ⟨k, hg, hk⟩, hut⟩

/-- WITHOUT `Td` THE RUN IS NOT BOUNDED: a command that neither exits by itself nor reacts to SIGTERM, once
    started (its connect succeeded: the target is reading, or done, or failed by the command timeout), keeps
    dsh() from returning for ever — with or without a command timeout, whatever the schedule: the worker sits in
    `rcmd_destroy` (`teardown_waits`), which nothing interrupts (`teardown_uninterrupted`).  By `never_stuck` the
    run goes on, i.e. the clock runs on. -/
theorem immortal_never_returns {v f c scripts} {ls : List Label} {s : St} (he : Exec (init v f c scripts) ls s)
    (hka : c.killAfter = false) {j : Nat} (hj : j < scripts.length) (hl : (scripts.getD j defaultScript).life = none)
    (hg : (scripts.getD j defaultScript).grace = none)
    (hst : (s.host j).ph = .reading ∨ (s.host j).res = .done ∨ (s.host j).res = .cmdTimedOut) : ¬ Final s := by
  intro hfin
  have him := imm_exec he hka hj hl hg
  have hti := tinv_exec (tinv_init v f c scripts) he
  have hdi := dinv_exec he
  obtain ⟨_, _, hlen, _⟩ := ginv_exec he
  have hj' : j < s.hs.length := by rw [hlen]; exact hj
  have hout : FanG.isOut (FanG.pc s.fan j) = true :=
    hti.fan.fin (by rw [hfin]; rfl) j (by rw [← hti.lenH]; exact hj')
  have hr : (s.host j).reaped = true := by
    have := hdi.reap j hj'; revert hout this
    cases FanG.pc s.fan j <;> simp [rpOK, FanG.isOut]
  have hgone := (hdi.host j hj').gone hr
  simp [Host.gone, him.started hst] at hgone

/-- THE REMAINING TERMINATION CASE: connect timeout set, NO command timeout, and no target whose polled
    streams hang after the connect (every item arrives at a finite scripted instant, then EOF / error /
    end of script), every command exiting by itself within K of its connect (`Td`; without a command timeout
    no SIGTERM is ever sent).  Then, as long as dsh() has not returned, the virtual clock is at most
    n · (connect_timeout + WDOG_POLL + K) + Σ over the targets of the scripted end of their streams — whatever
    refuses, hangs in connect or dies, and however the threads are scheduled. -/
theorem terminates_no_hang_ut0 {v f c scripts} {K : Nat} {ls : List Label} {s : St}
    (he : Exec (init v f c scripts) ls s) (hka : c.killAfter = false) (hf : 0 < f) (hct : 0 < c.ct) (hut : c.ut = 0)
    (hnh : ∀ j, j < scripts.length → NoHang c (scripts.getD j defaultScript))
    (htd : ∀ j, j < scripts.length → Td c K (scripts.getD j defaultScript)) (hnf : ¬ Final s) :
    s.now ≤ scripts.length * (c.ct + WDOG_POLL + K) + (scripts.map (lastT c)).sum := by
  have := (time_bounded he hka hf hct (Or.inr hnh) htd).2.2 hnf
  have hsum : ∀ l : List Script,
      (l.map (budget c K)).sum = l.length * (c.ct + WDOG_POLL + K) + (l.map (lastT c)).sum := by
    intro l; induction l with
    | nil => simp
    | cons x xs ih =>
      simp only [List.map_cons, List.sum_cons, List.length_cons, ih, budget, readB, hut, Nat.lt_irrefl, if_false,
        Nat.succ_mul]
      omega
  rw [hsum] at this; omega

/-- the timed system never gets stuck: in every state before the return of dsh() some operation other than a spurious wake-up is
    possible — a thread can run, or (only then) a second passes.  With `terminates_with_timeouts`: seconds
    cannot pass for ever, so the run is driven to the return of dsh(). -/
theorem never_stuck (s : St) (hnf : ¬ Final s) : ∃ l, l.spurious = false ∧ (step s l).isSome = true := by
  have hnr : s.fan.dpc ≠ .returned := hnf
  cases hq : quiescent s with
  | true => exact ⟨.tick, rfl, by simp [step, hq, hnr]⟩
  | false =>
    have := hq
    simp only [quiescent, List.all_eq_false] at this
    obtain ⟨l, hl, hsome⟩ := this
    have hs : (dstep s l).isSome = true := by
      cases h : dstep s l with
      | none => simp [h] at hsome
      | some x => rfl
    have hnt : l ≠ .tick := by intro hc; subst hc; simp [dstep] at hs
    refine ⟨l, ?_, by rw [step_eq_dstep hnt]; exact hs⟩
    -- the operations that block the clock are not spurious
    simp only [cands, List.mem_cons, List.mem_append, List.mem_map, List.mem_flatMap, List.mem_range] at hl
    rcases hl with (rfl | ⟨a, ha, rfl⟩) | ⟨i, _, rfl | ⟨a, _, rfl⟩⟩
    · rfl
    · simp only [FanG.dActs, List.mem_cons, List.mem_nil_iff, or_false] at ha
      rcases ha with rfl | rfl | rfl | rfl | rfl | rfl | rfl <;> rfl
    · rfl
    · rfl

/-- non-vacuity: fanout 1, connect timeout 1, command timeout 1; target 0 hangs in connect, target 1 is
    healthy.  The run ends at second 2 with target 0 timed out and target 1 done, 3 bytes read. -/
example :
    let scripts : List Script := [{ conn := .hang, out := [], err := [] },
                                   { conn := .ok 0, out := [⟨some 0, .data 3⟩, ⟨some 0, .eof⟩], err := [] }]
    let ls : List Label :=
      [.fan (.d .lock), .fan (.d (.create 0)), .fan (.d .unlock), .fan (.w 0 .connectBegin), .fan (.d .lock),
       .fan (.d .wait), .tick, .tick, .scan, .fan (.w 0 .connectEnd),
       .fan (.w 0 .destroyBegin), .fan (.w 0 .destroyEnd), .fan (.w 0 .lock), .fan (.w 0 .signal),
       .fan (.w 0 .unlock), .fan (.d (.wake false)), .fan (.d .relock), .fan (.d (.create 1)), .fan (.d .unlock),
       .fan (.w 1 .connectBegin), .fan (.w 1 .connectEnd), .fan (.w 1 .destroyBegin), .fan (.w 1 .destroyEnd),
       .fan (.w 1 .lock), .fan (.w 1 .signal), .fan (.w 1 .unlock), .fan (.d .lock), .fan (.d .unlock),
       .fan (.d .ret)]
    (ls.foldlM (fun s l => step s l) (init .whileWait 1 { ct := 1, ut := 1, sopt := false, selfCheck := false, stopWdog := false } scripts)).map
      (fun s => (s.now, (s.host 0).res, (s.host 1).res, (s.host 1).out.got, s.fan.dpc)) =
      some (2, Res.connTimedOut, Res.done, 3, FanG.DPC.returned) := by
  decide

/-- witness for `immortal_never_returns` (and for the teardown phase): fanout 1, both timeouts 1, one target whose
    command writes nothing, never exits and ignores SIGTERM.  It is given up on at second 2 ("command timeout",
    SIGTERM forwarded); at second 7 its worker is still inside `rcmd_destroy`, the return of `rcmd_destroy` is
    not possible, one connection is in flight, one command alive, and another second can pass. -/
example :
    let scripts : List Script := [{ conn := .ok 0, out := [⟨none, .data 1⟩], err := [], life := none, grace := none }]
    let ls : List Label :=
      [.fan (.d .lock), .fan (.d (.create 0)), .fan (.d .unlock), .fan (.w 0 .connectBegin),
       .fan (.w 0 .connectEnd), .fan (.d .lock), .fan (.d .wait),
       .tick, .tick, .scan, .wake 0, .fan (.w 0 .destroyBegin),
       .tick, .tick, .scan, .tick, .tick, .scan, .tick]
    (ls.foldlM (fun s l => step s l) (init .whileWait 1 { ct := 1, ut := 1, sopt := false, selfCheck := false, stopWdog := false } scripts)).map
      (fun s => (s.now, (s.host 0).res, FanG.pc s.fan 0,
                 (step s (.fan (.w 0 .destroyEnd))).isNone && s.inflight == 1 && s.alive == 1 &&
                 (step s .tick).isSome)) =
      some (7, Res.cmdTimedOut, FanG.W.tearing, true) := by
  decide

/-- the same target, but it dies 1 s after SIGTERM (`grace = some 1`, `Td c 1`): given up on at second 2, gone at
    second 3, dsh() returns at second 3 ≤ 1·(1+1+2·2+1) -/
example :
    let scripts : List Script := [{ conn := .ok 0, out := [⟨none, .data 1⟩], err := [], life := none, grace := some 1 }]
    let ls : List Label :=
      [.fan (.d .lock), .fan (.d (.create 0)), .fan (.d .unlock), .fan (.w 0 .connectBegin),
       .fan (.w 0 .connectEnd), .fan (.d .lock), .fan (.d .wait),
       .tick, .tick, .scan, .wake 0, .fan (.w 0 .destroyBegin), .tick, .fan (.w 0 .destroyEnd),
       .fan (.w 0 .lock), .fan (.w 0 .signal), .fan (.w 0 .unlock), .fan (.d (.wake false)), .fan (.d .relock),
       .fan (.d .unlock), .fan (.d .ret)]
    (ls.foldlM (fun s l => step s l) (init .whileWait 1 { ct := 1, ut := 1, sopt := false, selfCheck := false, stopWdog := false } scripts)).map
      (fun s => (s.now, (s.host 0).res, (s.host 0).reaped, s.inflight, s.fan.dpc)) =
      some (3, Res.cmdTimedOut, true, 0, FanG.DPC.returned) := by
  decide


/-! ## the repair of F07-TEARDOWN-WAIT (a) as a switch of the model: `Cfg.killAfter`

On a tree in which a worker that gives its target up at the command timeout waits one watchdog period and sends
SIGKILL before it calls `rcmd_destroy` (findings/C07-TEARDOWN-WAIT.patch), the check detects that by behaviour and the
acceptor runs the LTS with `killAfter = true`.  Everything above that does not mention `killAfter` holds for both
values (refinement, non-interference, healthy targets, deadlines, in-flight / alive bounds, `never_stuck`); the two
run bounds and `immortal_never_returns` are about the tree as it is (`killAfter = false`: they say so).  With the
repair, `immortal_never_returns` is FALSE -- that is its purpose: -/

/-- WITH THE REPAIR THE TEARDOWN OF A TARGET THAT WAS GIVEN UP ON DOES NOT WAIT: in every execution, for every script
    (a command that never exits and ignores SIGTERM included), a target failed by the command timeout is finished,
    and once its worker's grace wait is over (`hold ≤ now`: only then can `rcmd_destroy` begin) the remote command
    is gone -- `rcmd_destroy` returns at once. -/
theorem kill_after_teardown_does_not_wait {v f c scripts} {ls : List Label} {s : St}
    (he : Exec (init v f c scripts) ls s) (hka : c.killAfter = true) {j : Nat} (hj : j < scripts.length)
    (hres : (s.host j).res = .cmdTimedOut) (hhold : (s.host j).hold ≤ s.now) :
    (s.host j).ph = .finished ∧ (s.host j).gone s.now = true := by
  obtain ⟨hp, d, hd, hle⟩ := kinv_exec he hka hj hres
  refine ⟨hp, ?_⟩
  simp only [Host.gone, hd, decide_eq_true_eq]; omega

/-- and the grace wait is one watchdog period: at the instant a target is given up on, its command's end is fixed at
    most `WDOG_POLL` seconds ahead, whatever it does with SIGTERM -/
theorem kill_after_grace_is_one_period {c : Cfg} (hka : c.killAfter = true) (now : Nat) (h : Host) :
    ∃ d, (Host.giveUp c now h).death = some d ∧ d ≤ now + WDOG_POLL ∧ (Host.giveUp c now h).hold = now + WDOG_POLL :=
  Host.giveUp_kills hka now h

/-- witness: the immortal target of the example above (never exits, ignores SIGTERM), fanout 1, both timeouts 1,
    on the repaired tree: given up on at second 2, its worker waits until second 4 (no operation of it is enabled
    at second 3), SIGKILL, `rcmd_destroy` returns at once, dsh() returns at second 4 -/
example :
    let scripts : List Script := [{ conn := .ok 0, out := [⟨none, .data 1⟩], err := [], life := none, grace := none }]
    let c : Cfg := { ct := 1, ut := 1, sopt := false, selfCheck := false, stopWdog := false, killAfter := true }
    let pre : List Label :=
      [.fan (.d .lock), .fan (.d (.create 0)), .fan (.d .unlock), .fan (.w 0 .connectBegin),
       .fan (.w 0 .connectEnd), .fan (.d .lock), .fan (.d .wait), .tick, .tick, .scan, .wake 0]
    let post : List Label :=
      [.tick, .tick, .scan, .fan (.w 0 .destroyBegin), .fan (.w 0 .destroyEnd),
       .fan (.w 0 .lock), .fan (.w 0 .signal), .fan (.w 0 .unlock), .fan (.d (.wake false)), .fan (.d .relock),
       .fan (.d .unlock), .fan (.d .ret)]
    ((pre.foldlM (fun s l => step s l) (init .whileWait 1 c scripts)).map
      (fun s => (s.now, (s.host 0).res, (s.host 0).hold, (step s (.fan (.w 0 .destroyBegin))).isNone))) =
      some (2, Res.cmdTimedOut, 4, true) ∧
    (((pre ++ post).foldlM (fun s l => step s l) (init .whileWait 1 c scripts)).map
      (fun s => (s.now, (s.host 0).reaped, s.inflight, s.fan.dpc))) = some (4, true, 0, FanG.DPC.returned) := by
  decide


/-! ## `-k`: fail-fast (`Dsh/TimedK.lean`)

The property's exception clause.  With `-k`, a worker whose target failed (connect refused / timed out, command
timed out, or remote exit status > 0) and that has left `rcmd_destroy` ends the whole run: it forwards SIGTERM to
every target that is READING and pdsh exits.  Without `-k`, and in `-k` runs up to that moment, the system IS the
timed LTS above. -/
namespace K
open PdshVerif.Dsh.TimedK

/-- FAIL-FAST, enabled: under `-k` the exit of pdsh is enabled as soon as a failed target's worker has left
    `rcmd_destroy` -- whatever the other workers, the dispatcher, the mutex and the watchdog are doing -/
theorem failfast_enabled {s : TimedK.St} (hne : s.exited = false) {i : Nat} (ha : aborting s i = true) :
    ∃ s', TimedK.step s (.abort i) = some s' ∧ s'.exited = true :=
  ⟨{ s with exited := true, t := sigtermAll s.t }, by simp [TimedK.step, hne, ha], rfl⟩

/-- FAIL-FAST, now: while that exit is pending the clock cannot advance (no waiting for any other host, hanging
    or not, timeout or not), and the failed worker does not go on to give its slot back -/
theorem failfast_now {s : TimedK.St} {i : Nat} (ha : aborting s i = true) :
    TimedK.step s (.t .tick) = none ∧ TimedK.step s (.t (.fan (.w i .lock))) = none := by
  have hany := mem_range_aborting ha
  constructor
  · simp [TimedK.step, hany]
  · simp [TimedK.step, ha]

/-- after the exit nothing happens -/
theorem exit_is_end {s : TimedK.St} (he : s.exited = true) (l : TimedK.Label) : TimedK.step s l = none := by
  cases l with
  | t l => simp [TimedK.step, he]
  | abort i => simp [TimedK.step, he]

/-- the exit forwards SIGTERM to every target that is READING (`_fwd_signal`): its command is gone `grace` seconds
    later at the latest (unless it ignores SIGTERM) -- and touches no other target's record -/
theorem abort_signals_reading {s s' : TimedK.St} {i : Nat} (h : TimedK.step s (.abort i) = some s') (j : Nat)
    (hj : j < s.t.hs.length) :
    s'.t.host j =
      if (s.t.host j).ph = .reading then
        { s.t.host j with death := termDeath (s.t.host j).grace s.t.now (s.t.host j).death }
      else s.t.host j := by
  obtain ⟨_, _, rfl⟩ := step_abort h
  exact host_sigtermAll s.t j hj

/-- until pdsh exits a `-k` run is a run of the timed LTS (same labels): every theorem above -- non-interference,
    healthy targets never interrupted, both deadlines, the fanout bound -- holds of it -/
theorem refines_timed {v f c scripts k nz} {ls : List TimedK.Label} {s : TimedK.St}
    (he : TimedK.Exec (TimedK.init v f c scripts k nz) ls s) (hne : s.exited = false) :
    Timed.Exec (Timed.init v f c scripts) (ls.filterMap TimedK.projLabel) s.t :=
  TimedK.refines_timed he hne

/-- fail-fast ONLY IF ASKED: without `-k` there is no exit, and every step is exactly the timed LTS's step -/
theorem without_k_is_timed {v f c scripts nz} {ls : List TimedK.Label} {s : TimedK.St}
    (he : TimedK.Exec (TimedK.init v f c scripts false nz) ls s) :
    s.exited = false ∧ (∀ i, TimedK.step s (.abort i) = none) ∧
      ∀ l, TimedK.step s (.t l) = TimedK.lift s l := by
  have hk := (flags_const he).1
  have hex : s.exited = false := by
    induction he with
    | nil => rfl
    | snoc he0 hs ih =>
      rename_i ls0 s0 l0 s1
      cases l0 with
      | t l => exact (step_t hs).2.2.2.2
      | abort i =>
        obtain ⟨_, ha, _⟩ := step_abort hs
        rw [aborting_of_not_k (flags_const he0).1 i] at ha; cases ha
  refine ⟨hex, ?_, ?_⟩
  · intro i; simp [TimedK.step, aborting_of_not_k hk i]
  · intro l
    simp only [TimedK.step, hex]
    cases l with
    | tick => simp [anyAborting_of_not_k hk]
    | scan => simp
    | wake i => simp
    | fan fl =>
      cases fl with
      | d a => simp
      | w i a => cases a <;> simp [aborting_of_not_k hk i]

/-- non-vacuity: fanout 2, `-k`, connect timeout 5, no command timeout; target 0 refuses the connection, target 1
    accepts and then hangs for ever (nothing would ever end this run without `-k`).  Worker 0's connect fails, it
    tears down, and pdsh exits -- at virtual time 0, with SIGTERM forwarded to the reading target 1 -/
example : (TimedK.run (TimedK.init .whileWait 2 { ct := 5, ut := 0, sopt := false, selfCheck := true, stopWdog := true }
      [{ conn := .refuse 0, out := [], err := [] },
       { conn := .ok 0, out := [⟨none, .eof⟩], err := [], life := none, grace := some 0 }] true [false, false])
    [.t (.fan (.d .lock)), .t (.fan (.d (.create 0))), .t (.fan (.d .unlock)),
     .t (.fan (.d .lock)), .t (.fan (.d (.create 1))), .t (.fan (.d .unlock)),
     .t (.fan (.w 1 .connectBegin)), .t (.fan (.w 1 .connectEnd)),
     .t (.fan (.w 0 .connectBegin)), .t (.fan (.w 0 .connectEnd)),
     .t (.fan (.w 0 .destroyBegin)), .t (.fan (.w 0 .destroyEnd)), .abort 0]).map
    (fun s => (s.exited, s.t.now, (s.t.host 1).death)) = some (true, 0, some 0) := by decide

end K

end PdshVerif.Props.C07
