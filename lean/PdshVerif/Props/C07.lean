import PdshVerif.Dsh.Timed
namespace PdshVerif.Props.C07
open PdshVerif.Dsh.Timed
theorem placeholder : WDOG_POLL = 2 := rfl
end PdshVerif.Props.C07
