/-
  C06  Output records are atomic and carry the label of the host that produced them.
  PROPERTY THEOREMS ONLY (helper lemmas live in PdshVerif/Relay/*.lean).
-/
import PdshVerif.Relay.Model
import PdshVerif.Relay.Spec

namespace PdshVerif.C06
open PdshVerif.Relay

/-- placeholder while the lemma library is being built -/
theorem sep_len : sep.length = 2 := rfl

end PdshVerif.C06
