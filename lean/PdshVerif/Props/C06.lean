/-
  C06  Output records are atomic and carry the label of the host that produced them.
  PROPERTY THEOREMS ONLY (helper lemmas live in PdshVerif/Relay/*.lean).

  One element of `(runStream ...).ems` = one stdio call (`fputs` at the end of err.c `_verr`)
  = one atomic write under the FILE lock (POSIX stdio locking: trusted base).  "Records are
  atomic" therefore reads: every stdio call of a host is one whole record.  The statements are
  about the same model as C05 (see Props/C05.lean for `sizeMeta`, `script`, `markerOf`), in
  the domain of C05.

  FULL STATEMENT, FALSE OF THE UNCHANGED CODE (defect D6, finding F06-TAILSPLIT):
      "every stdio call is one whole record; the final unterminated fragment -- label and the
       bytes that follow it -- is ONE call"
  dsh.c `_flush_output` (before the repair 449f4a4) wrote the label by `out("%S: ", host)` and the fragment by a second
  call `out("%s", buf)`.  The model carries that as the switch `Cfg.tailSplit`:
    * `records_atomic_partial`   proves the full statement under `cfg.tailSplit = false`
                                 (the repaired form: one `out("%S: %s", host, buf)`);
    * `tail_split_is_the_defect` proves that with `cfg.tailSplit = true` (the code before 449f4a4)
                                 every stream with labels on and a non-empty final fragment violates
                                 it, in exactly one way: bare label, then the data;
    * `line_records_atomic`      holds for both forms: all LINE records are whole and come first.

  CLAUSE OF THE STATEMENT                                   THEOREM
  each line = one contiguous record `label: line`           line_records_atomic, records_atomic_partial (+ _index)
  (just the line with -N)                                   same theorems with `cfg.labels = false` (`pfx = []`)
  final fragment after all lines, label + bytes one record  records_atomic_partial (`Spec.tailOk`), tail_split_is_the_defect (D6)
  "(the whole fragment when it is shorter than 8 KiB)"      final_fragment_cut_exactly, final_fragment_whole_iff: ONE call iff
                                                              length <= RELAY_TAILBUF-1 (regenerated; `tail_piece_covers_8KiB`: >= 8192);
                                                              longer: labelled piece of T-1 bytes, then unlabelled T-1-byte pieces
  no byte of one host's record inside another's,            records_atomic_any_schedule, records_atomic_index_any_schedule
    records of one host keep their order                      (LogOk: the global call sequence restricted to a stream is its own)
  label = the host's own name, shortened only if ...        label_correct, domain_flag_correct, records_carry_own_label,
                                                              records_own_label_any_schedule (target list, -N and -K, any schedule)
  `_flush_output` hands `_flush_lines` the global `t`       flush_lines_in_flush_output_noop
  from stdio calls to the bytes a consumer reads            consumer_sees_calls (one FILE), records_reach_consumer_any_schedule
                                                              (any number of workers, both FILEs, any buffering/flush schedule;
                                                              2>&1: per FILE only -- Stdio.shared_descriptor_witness)
  a forked transport child must not re-send the buffer      forked_child_exit_reemits_witness (seeded C06-5)

  NOT PROVED: that glibc's fputs is atomic per call w.r.t. other threads (POSIX stdio locking) and buffers like
  the writer of Relay/Stdio.lean -- the two assumptions, made explicit there as an interleaving semantics; labels of
  LINEBUFSIZE bytes or more (`_verr` truncates: outside the domain, `NameOk`); dsh()'s domain loop is modelled
  (`domainLoop`) and proved equal to the property's `spansDomains`, its correspondence with the real dsh() is by the
  pinned real runs (the in-process harness replicates the 8-line loop).
-/
import PdshVerif.Relay.TailLemmas
import PdshVerif.Relay.LabelLemmas
import PdshVerif.Relay.Interleave
import PdshVerif.Relay.Simulation
import PdshVerif.Relay.IndexSim
import PdshVerif.Relay.Stdio

namespace PdshVerif.C06
open PdshVerif.Relay

/-- the record prefix the code uses for `host`: `"label: "`, nothing with -N -/
abbrev pfx (cfg : Cfg) (host : Bytes) : Bytes := labelPrefix cfg.labels cfg.keep host

/-- `label_correct`: the label err.c prints for a host -- with `keep_host_domain` as -K (opt.c)
    and the domain loop of dsh() leave it -- is the label of the property: the host's own name,
    shortened at the first dot only when the name does not start with a digit, -K was not given
    and the targets do not span different domains.  (Names: C strings shorter than
    LINEBUFSIZE; longer ones are truncated by `_verr`'s tmpstr -- outside the domain.) -/
theorem label_correct (labels optK : Bool) (targets : List Bytes) (host : Bytes) (hn : NameOk host)
    (ht : ∀ t ∈ targets, ∀ b ∈ t, b ≠ 0) :
    labelPrefix labels (keepDomain optK targets) host = Spec.recPrefix labels optK targets host :=
  labelPrefix_eq_recPrefix labels optK targets host hn ht

/-- the loop in dsh() computes the property's "targets span different domains" -/
theorem domain_flag_correct (targets : List Bytes) (ht : ∀ t ∈ targets, ∀ b ∈ t, b ≠ 0) :
    domainLoop targets none = Spec.spansDomains targets :=
  domainLoop_eq_spans targets ht

/-- THE PIECE SIZE OF THE FINAL FLUSH COVERS THE PROPERTY'S 8 KiB.  `RELAY_TAILBUF` - 1 = the number of bytes the
    first stdio call of `_flush_output` carries at most, learnt on every run from what the code under test does
    with a rest that fills the buffer.  The lemmas of Relay/TailLemmas.lean hold for EVERY piece size and take this
    inequality as a hypothesis; it is discharged here for the regenerated value.  A larger piece size -- up to
    "the whole rest in one call" -- keeps it true; a smaller one (seeded C06-7 and C06-10: 2048) makes it false, and
    then fragments of 2048..8191 bytes do come out in several calls on the real code. -/
theorem tail_piece_covers_8KiB : Spec.wholeTailBelow ≤ Gen.RELAY_TAILBUF := by decide

/-- `emission_is_record` for lines, BOTH forms of the code: the first `#lines` stdio calls are
    exactly the records `prefix ++ line`, one whole record per call, in order -- for every
    chunking -- and whatever follows them (the tail calls) comes after ALL line records
    (`tail_last`). -/
theorem line_records_atomic (cfg : Cfg) (host t0host : Bytes) (strm : Nat) (readRc : Bool)
    {sizeMeta : Nat} (hg : growthOk sizeMeta = true) {b0 : PBuf}
    (hb0 : mkFifoBuf sizeMeta = some b0) (script : List Bytes)
    (hdom : Spec.Dom05 (markerOf readRc) script.flatten = true) :
    ((runStream fifoOps cfg host t0host strm readRc b0 script).ems.map Em.bytes).take
        (Spec.lines script.flatten).length =
      (Spec.lines script.flatten).map (pfx cfg host ++ ·) ∧
    ((runStream fifoOps cfg host t0host strm readRc b0 script).ems.map Em.bytes).drop
        (Spec.lines script.flatten).length =
      (tailEms cfg host strm ((Spec.tail script.flatten).length + 1) (Spec.tail script.flatten) false).map
        Em.bytes := by
  obtain ⟨h1, _⟩ := runStream_closed cfg host strm readRc t0host hg hb0 script hdom
  rw [h1, List.map_append, List.map_map]
  have hlen : ((Spec.lines script.flatten).map
      (Em.bytes ∘ fun l => (⟨strm, labelPrefix cfg.labels cfg.keep host ++ l⟩ : Em))).length =
      (Spec.lines script.flatten).length := by simp
  constructor
  · rw [List.take_left' hlen]
    rfl
  · rw [List.drop_left' hlen]

/-- `records_atomic_partial` (`emission_is_record` + `tail_last` for the REPAIRED tail form):
    every stdio call is one whole record -- one call `prefix ++ line` per line, in order, then
    the final fragment as one call `prefix ++ fragment` (continuation pieces, unlabelled, only
    for a fragment of 8 KiB or more) -- i.e. the specification's verdict `c06Ok` holds, for
    every stream in the domain and every chunking. -/
theorem records_atomic_partial (cfg : Cfg) (hfix : cfg.tailSplit = false) (host t0host : Bytes) (strm : Nat)
    (readRc : Bool) {sizeMeta : Nat} (hg : growthOk sizeMeta = true) {b0 : PBuf}
    (hb0 : mkFifoBuf sizeMeta = some b0) (script : List Bytes)
    (hdom : Spec.Dom05 (markerOf readRc) script.flatten = true) :
    Spec.c06Ok (pfx cfg host) script.flatten
      ((runStream fifoOps cfg host t0host strm readRc b0 script).ems.map Em.bytes) = true := by
  obtain ⟨h1, h2⟩ := line_records_atomic cfg host t0host strm readRc hg hb0 script hdom
  have h0 : ∀ b ∈ Spec.tail script.flatten, b ≠ 0 := fun b hb => dom_noNul hdom b (mem_of_mem_rest hb)
  have ht := tailEms_ok cfg host strm tail_piece_covers_8KiB hfix _ (Spec.tail script.flatten) (Nat.lt_succ_self _) h0
  unfold Spec.c06Ok
  simp only [h1, h2, beq_self_eq_true, Bool.true_and]
  exact ht

/-- THE 8 KiB CLAUSE, EXACTLY.  The property promises "the whole fragment when it is shorter than 8 KiB".
    What the code does with a final fragment `t` of ANY length (stream in the domain, every chunking,
    repaired tail form): after the line records, the first stdio call carries the label and the first
    T-1 bytes of `t`, each further call the next T-1 bytes WITHOUT a label, the last one the remainder,
    where T = RELAY_TAILBUF is `sizeof buf` in `_flush_output`, regenerated from dsh.c on every run
    (`tail_piece_covers_8KiB`: T >= 8192 is all the proofs use).  So ... -/
theorem final_fragment_cut_exactly (cfg : Cfg) (hfix : cfg.tailSplit = false) (host t0host : Bytes) (strm : Nat)
    (readRc : Bool) {sizeMeta : Nat} (hg : growthOk sizeMeta = true) {b0 : PBuf}
    (hb0 : mkFifoBuf sizeMeta = some b0) (script : List Bytes)
    (hdom : Spec.Dom05 (markerOf readRc) script.flatten = true) (ht : Spec.tail script.flatten ≠ []) :
    ((runStream fifoOps cfg host t0host strm readRc b0 script).ems.map Em.bytes).drop
        (Spec.lines script.flatten).length =
      (pfx cfg host ++ (Spec.tail script.flatten).take (Gen.RELAY_TAILBUF - 1)) ::
        cutEvery (Gen.RELAY_TAILBUF - 1) (Spec.tail script.flatten).length
          ((Spec.tail script.flatten).drop (Gen.RELAY_TAILBUF - 1)) := by
  obtain ⟨_, h2⟩ := line_records_atomic cfg host t0host strm readRc hg hb0 script hdom
  have h0 : ∀ b ∈ Spec.tail script.flatten, b ≠ 0 := fun b hb => dom_noNul hdom b (mem_of_mem_rest hb)
  rw [h2]
  exact tailEms_exact cfg host strm hfix _ _ h0 ht

/-- ... the fragment is ONE record (label and all its bytes in one stdio call) if and only if it is at most
    T-1 bytes long -- in particular whenever it is shorter than 8 KiB (T >= 8192) -- and a fragment of T-1+k bytes
    (k > 0) is one labelled record of T-1 bytes followed by unlabelled pieces: between those pieces another
    host's record can land (nothing the property forbids: its clause ends at 8 KiB). -/
theorem final_fragment_whole_iff (cfg : Cfg) (hfix : cfg.tailSplit = false) (host t0host : Bytes) (strm : Nat)
    (readRc : Bool) {sizeMeta : Nat} (hg : growthOk sizeMeta = true) {b0 : PBuf}
    (hb0 : mkFifoBuf sizeMeta = some b0) (script : List Bytes)
    (hdom : Spec.Dom05 (markerOf readRc) script.flatten = true) (ht : Spec.tail script.flatten ≠ []) :
    ((((runStream fifoOps cfg host t0host strm readRc b0 script).ems.map Em.bytes).drop
        (Spec.lines script.flatten).length).length = 1 ↔
      (Spec.tail script.flatten).length ≤ Gen.RELAY_TAILBUF - 1) ∧
    ((Spec.tail script.flatten).length < 8192 → (Spec.tail script.flatten).length ≤ Gen.RELAY_TAILBUF - 1) := by
  rw [final_fragment_cut_exactly cfg hfix host t0host strm readRc hg hb0 script hdom ht]
  refine ⟨?_, fun h => by have := tail_piece_covers_8KiB; simp only [Spec.wholeTailBelow] at this; omega⟩
  simp only [List.length_cons]
  by_cases hd : (Spec.tail script.flatten).drop (Gen.RELAY_TAILBUF - 1) = []
  · have hle : (Spec.tail script.flatten).length ≤ Gen.RELAY_TAILBUF - 1 := by simpa using hd
    have hl : 0 < (Spec.tail script.flatten).length := List.length_pos_iff.mpr ht
    have : cutEvery (Gen.RELAY_TAILBUF - 1) (Spec.tail script.flatten).length
        ((Spec.tail script.flatten).drop (Gen.RELAY_TAILBUF - 1)) = [] := by
      rw [hd]
      cases (Spec.tail script.flatten).length <;> simp [cutEvery]
    simp [this, hle]
  · have hgt : ¬ (Spec.tail script.flatten).length ≤ Gen.RELAY_TAILBUF - 1 := by
      intro h; apply hd; simpa using h
    have hl : 0 < (Spec.tail script.flatten).length := List.length_pos_iff.mpr ht
    obtain ⟨f, hf⟩ : ∃ f, (Spec.tail script.flatten).length = f + 1 := ⟨_, (Nat.succ_pred_eq_of_pos hl).symm⟩
    rw [hf]
    simp [cutEvery, hd]
    omega

/-- `tail_split_is_the_defect` (D6, the code as it stands): with labels on, EVERY stream that
    ends in an unterminated fragment is written with the label as a stdio call of its own,
    followed by the fragment's bytes by further calls -- the specification's `tailSplitForm` --
    and hence is not a sequence of whole records (`c06Ok` fails). -/
theorem tail_split_is_the_defect (cfg : Cfg) (hsplit : cfg.tailSplit = true) (hlab : cfg.labels = true)
    (host t0host : Bytes) (strm : Nat) (readRc : Bool) {sizeMeta : Nat} (hg : growthOk sizeMeta = true) {b0 : PBuf} (hb0 : mkFifoBuf sizeMeta = some b0) (script : List Bytes)
    (hdom : Spec.Dom05 (markerOf readRc) script.flatten = true) (htail : Spec.tail script.flatten ≠ []) :
    Spec.tailSplitForm (pfx cfg host) script.flatten
      ((runStream fifoOps cfg host t0host strm readRc b0 script).ems.map Em.bytes) = true ∧
    Spec.c06Ok (pfx cfg host) script.flatten
      ((runStream fifoOps cfg host t0host strm readRc b0 script).ems.map Em.bytes) = false := by
  obtain ⟨h1, h2⟩ := line_records_atomic cfg host t0host strm readRc hg hb0 script hdom
  have h0 : ∀ b ∈ Spec.tail script.flatten, b ≠ 0 := fun b hb => dom_noNul hdom b (mem_of_mem_rest hb)
  obtain ⟨d, rest, he, hok⟩ :=
    tailEms_split cfg host strm tail_piece_covers_8KiB hsplit hlab _ (Spec.tail script.flatten) (Nat.lt_succ_self _) h0 htail
  have hp : pfx cfg host ≠ [] := by simp [pfx, labelPrefix, hlab, sep]
  have hte : (Spec.tail script.flatten).isEmpty = false := by simpa using htail
  have hpe : (pfx cfg host).isEmpty = false := by simpa using hp
  constructor
  · unfold Spec.tailSplitForm
    simp only [h1, h2, he, beq_self_eq_true, Bool.true_and, hte, hpe, Bool.not_false, hok]
  · unfold Spec.c06Ok
    simp only [h1, h2, he, beq_self_eq_true, Bool.true_and]
    -- the first tail call is the bare prefix: it carries no byte of the fragment
    simp [Spec.tailOk, pfx]

/-- D6 at its smallest: host "h", stream "x" -> the two stdio calls "h: " and "x" -/
theorem tail_split_witness : ∀ b0, mkFifoBuf 1 = some b0 →
    (runStream fifoOps ⟨true, false, true, false, false⟩ [104] [104] 1 true b0 [[120]]).ems =
      [⟨1, [104, 58, 32]⟩, ⟨1, [120]⟩] := by
  intro b0 h
  simp [mkFifoBuf, Cbuf.Spec.create, Gen.RELAY_CBUF_MIN, Gen.RELAY_CBUF_MAX] at h
  subst h
  decide

/-- `flush_lines_in_flush_output_noop`: `_flush_output` hands its `_flush_lines` call the global
    thread array `t` (the FIRST target's thd_t) instead of `th`.  It cannot matter: no complete
    line survives `_do_output`, so that call never emits -- the whole run is independent of
    which host's thd_t it is given. -/
theorem flush_lines_in_flush_output_noop (cfg : Cfg) (host t0host t0host' : Bytes) (strm : Nat) (readRc : Bool)
    {sizeMeta : Nat} (hg : growthOk sizeMeta = true) {b0 : PBuf}
    (hb0 : mkFifoBuf sizeMeta = some b0) (script : List Bytes)
    (hdom : Spec.Dom05 (markerOf readRc) script.flatten = true) :
    (runStream fifoOps cfg host t0host strm readRc b0 script).ems =
      (runStream fifoOps cfg host t0host' strm readRc b0 script).ems := by
  obtain ⟨h1, _⟩ := runStream_closed cfg host strm readRc t0host hg hb0 script hdom
  obtain ⟨h2, _⟩ := runStream_closed cfg host strm readRc t0host' hg hb0 script hdom
  rw [h1, h2]

/-- everything together for one host of a target list, in the property's own terms: with the
    flag computed as dsh()/opt.c do, the repaired code's stdio calls are whole records carrying
    the property's label for that host -/
theorem records_carry_own_label (labels optK : Bool) (targets : List Bytes) (host t0host : Bytes)
    (hn : NameOk host) (ht : ∀ t ∈ targets, ∀ b ∈ t, b ≠ 0) (strm : Nat) (readRc : Bool)
    {sizeMeta : Nat} (hg : growthOk sizeMeta = true) {b0 : PBuf}
    (hb0 : mkFifoBuf sizeMeta = some b0) (script : List Bytes)
    (hdom : Spec.Dom05 (markerOf readRc) script.flatten = true) :
    Spec.c06Ok (Spec.recPrefix labels optK targets host) script.flatten
      ((runStream fifoOps ⟨labels, keepDomain optK targets, false, false, false⟩ host t0host strm readRc b0 script).ems.map
        Em.bytes) = true := by
  have h := records_atomic_partial ⟨labels, keepDomain optK targets, false, false, false⟩ rfl host t0host strm readRc
    hg hb0 script hdom
  simp only [pfx] at h
  rw [label_correct labels optK targets host hn ht] at h
  exact h

/-- `records_atomic` for many hosts and EVERY schedule (repaired tail form): `evs` is any global
    interleaving of the streams' events.  The global sequence of stdio calls is a shuffle of the
    per-stream sequences (`log_is_shuffle`: restricted to a stream it is that stream's own
    sequence, in order), and for every stream `k` that receives a cutting of a stream in the
    domain and finishes, that sequence consists of whole records of host `k.1` in order, tail
    last.  With one stdio call = one atomic write, the output of every schedule therefore is a
    concatenation of whole records, no byte of one host's record inside another's. -/
theorem records_atomic_any_schedule (cfg : Cfg) (hfix : cfg.tailSplit = false) (names : Nat → Bytes)
    {sizeMeta : Nat} (hg : growthOk sizeMeta = true) {b0 : PBuf}
    (hb0 : mkFifoBuf sizeMeta = some b0) (evs : List (Key × LEv)) :
    LogOk (evs.foldl (gstep fifoOps cfg names) (ginit b0)) ∧
    ∀ (k : Key) (script : List Bytes),
      (evs.filter (fun e => e.1 = k)).map (·.2) = script.map LEv.feed ++ [LEv.finish] →
      Spec.Dom05 (markerOf (!k.2)) script.flatten = true →
      Spec.c06Ok (pfx cfg (names k.1)) script.flatten
        ((logOf (evs.foldl (gstep fifoOps cfg names) (ginit b0)) k).map Em.bytes) = true := by
  refine ⟨log_is_shuffle fifoOps cfg names evs (ginit b0) (by intro k; simp [logOf, ginit]), ?_⟩
  intro k script hk hdom
  rw [global_stream_is_runStream fifoOps cfg names b0 evs k script hk]
  exact records_atomic_partial cfg hfix (names k.1) (names 0) (strmNo k) (!k.2) hg hb0 script hdom

/-- the same for the INDEX-LEVEL relay (the instance run against the real cbuf.c),
    unconditionally: it simulates the FIFO+policy instance (`Relay.idx_sim`) -/
theorem records_atomic_partial_index (cfg : Cfg) (hfix : cfg.tailSplit = false) (host t0host : Bytes)
    (strm : Nat) (readRc : Bool) {sizeMeta : Nat} (hg : growthOk sizeMeta = true)
    {a0 : Cbuf.Cbuf} (ha0 : mkIndexBuf sizeMeta = some a0) (script : List Bytes)
    (hdom : Spec.Dom05 (markerOf readRc) script.flatten = true) :
    Spec.c06Ok (pfx cfg host) script.flatten
      ((runStream indexOps cfg host t0host strm readRc a0 script).ems.map Em.bytes) = true := by
  obtain ⟨b0, hb0⟩ := mkFifoBuf_some sizeMeta
  rw [(runStream_index_eq_fifo cfg host t0host strm readRc (growthOk_pos hg) ha0 hb0 script).1]
  exact records_atomic_partial cfg hfix host t0host strm readRc hg hb0 script hdom

/-- index-level relay, many hosts, every schedule: the global sequence of stdio calls is a
    shuffle of the per-stream sequences, each consisting of whole records of its host -/
theorem records_atomic_index_any_schedule (cfg : Cfg) (hfix : cfg.tailSplit = false) (names : Nat → Bytes)
    {sizeMeta : Nat} (hg : growthOk sizeMeta = true) {a0 : Cbuf.Cbuf}
    (ha0 : mkIndexBuf sizeMeta = some a0) (evs : List (Key × LEv)) :
    LogOk (evs.foldl (gstep indexOps cfg names) (ginit a0)) ∧
    ∀ (k : Key) (script : List Bytes),
      (evs.filter (fun e => e.1 = k)).map (·.2) = script.map LEv.feed ++ [LEv.finish] →
      Spec.Dom05 (markerOf (!k.2)) script.flatten = true →
      Spec.c06Ok (pfx cfg (names k.1)) script.flatten
        ((logOf (evs.foldl (gstep indexOps cfg names) (ginit a0)) k).map Em.bytes) = true := by
  refine ⟨log_is_shuffle indexOps cfg names evs (ginit a0) (by intro k; simp [logOf, ginit]), ?_⟩
  intro k script hk hdom
  rw [global_stream_is_runStream indexOps cfg names a0 evs k script hk]
  exact records_atomic_partial_index cfg hfix (names k.1) (names 0) (strmNo k) (!k.2) hg ha0 script hdom

/-- C06 IN THE PROPERTY'S OWN TERMS, TOP LEVEL: a run of pdsh on the target list `targets` with
    options -N / -K as given (`labels`, `optK`), the domain flag computed as dsh() does, index-level
    relay (the model run against the real cbuf.c), ANY interleaving `evs` of the events of all
    streams of all targets.  Then the global sequence of stdio calls is a shuffle of the per-stream
    sequences, and for every stream of target #i that carried a stream in the domain, its calls
    are whole records `label: line` in order, tail last -- with `label` = the property's label of
    `targets[i]` (own name; shortened at the first dot only if it does not start with a digit, no
    -K, and the targets do not span domains).  (`rs`, `re`: the two C08 switches, irrelevant here.) -/
theorem records_own_label_any_schedule (labels optK rs re : Bool) (targets : List Bytes)
    (hn : ∀ t ∈ targets, NameOk t) {sizeMeta : Nat} (hg : growthOk sizeMeta = true)
    {a0 : Cbuf.Cbuf} (ha0 : mkIndexBuf sizeMeta = some a0) (evs : List (Key × LEv)) :
    LogOk (evs.foldl (gstep indexOps ⟨labels, keepDomain optK targets, false, rs, re⟩
      (fun i => targets.getD i [])) (ginit a0)) ∧
    ∀ (k : Key) (script : List Bytes), k.1 < targets.length →
      (evs.filter (fun e => e.1 = k)).map (·.2) = script.map LEv.feed ++ [LEv.finish] →
      Spec.Dom05 (markerOf (!k.2)) script.flatten = true →
      Spec.c06Ok (Spec.recPrefix labels optK targets (targets.getD k.1 [])) script.flatten
        ((logOf (evs.foldl (gstep indexOps ⟨labels, keepDomain optK targets, false, rs, re⟩
          (fun i => targets.getD i [])) (ginit a0)) k).map Em.bytes) = true := by
  obtain ⟨h1, h2⟩ := records_atomic_index_any_schedule ⟨labels, keepDomain optK targets, false, rs, re⟩ rfl
    (fun i => targets.getD i []) hg ha0 evs
  refine ⟨h1, ?_⟩
  intro k script hk hfeed hdom
  have hmem : targets.getD k.1 [] ∈ targets := by
    have hg : targets.getD k.1 [] = targets[k.1] := by simp [List.getD, hk]
    rw [hg]
    exact List.getElem_mem hk
  have h := h2 k script hfeed hdom
  simp only [pfx] at h
  rw [label_correct labels optK targets _ (hn _ hmem) (fun t ht => (hn t ht).1)] at h
  exact h

/-! ### the stdio layer below fputs (Relay/Stdio.lean)

  ASSUMPTION: glibc's FILE behaves like the buffered writer `Stdio.File` (any capacity; full
  buffering for a pipe/file, line buffering for a tty; written when full, on fflush, at exit()). -/

open Stdio in
/-- `consumer_sees_calls`: whatever the buffer size, the buffering mode and the flush schedule
    (`ops` = the stdio calls of pdsh on one FILE in call order, with flushes -- the program's
    fflush(NULL) after each line, or any other -- interspersed ANYWHERE), once pdsh has ended
    through exit() the consumer of the descriptor has received exactly the concatenation of the
    calls in call order: nothing lost, duplicated or reordered below fputs. -/
theorem consumer_sees_calls (mode : Stdio.Mode) (cap : Nat) (ops : List Stdio.Op) :
    consumerSees ⟨mode, cap, []⟩ ops = calls ops := by
  have h := run_concat ops ⟨mode, cap, []⟩
  simpa [consumerSees, atExit] using h

open Stdio in
/-- ... in particular for the relay: if the fputs operations among `ops` are the stdio calls
    `ems` of a run (e.g. the global log of any schedule restricted to one FILE), the consumer
    receives `ems` concatenated -- so the record structure proved for the calls is the record
    structure of the byte stream -/
theorem consumer_sees_relay_calls (mode : Stdio.Mode) (cap : Nat) (ops : List Stdio.Op) (ems : List Em)
    (h : ops.filterMap (fun o => match o with | .fputs s => some s | .flush => none) = ems.map Em.bytes) :
    consumerSees ⟨mode, cap, []⟩ ops = (ems.map Em.bytes).flatten := by
  rw [consumer_sees_calls, ← h]
  clear h
  induction ops with
  | nil => rfl
  | cons o os ih => cases o <;> simp [calls, List.filterMap_cons, ih]

/-- FROM THE SCHEDULE OF THE WORKERS TO THE BYTES THE CONSUMER READS -- any number of hosts, any schedule, any
    stdio buffering.  `evs` = any interleaving of the relay events of all streams of all targets (index-level
    relay); its global log `G` is the sequence of stdio calls of all workers in the order they were made.
    `ops` = ANY run of the stdio layer below (Relay/Stdio.lean `IOp`: calls as atomic steps -- the per-call
    atomicity assumption made explicit -- interleaved with arbitrary write(2)s of arbitrary size from either
    FILE's buffer) whose calls are exactly `G` (FILE = 1 for out(), 2 for err()).  Then, once pdsh has ended
    through exit():
      (a) the consumer of FILE f has received the calls made on f concatenated in the order of `G` -- so on
          stdout a concatenation of the workers' stdout calls, on stderr of their stderr calls;
      (b) `G` restricted to one (target, stream) is that stream's own call sequence (`LogOk`), and
      (c) that sequence consists of whole records `label: line` of THAT target, in order, tail last.
    Hence pdsh's stdout, and its stderr, each read as a concatenation of whole records, every record under its
    own host's label, per host in order.  What is NOT claimed: any order between a stdout and a stderr record, and
    -- when both FILEs are redirected to one descriptor (2>&1) -- that records of the two FILEs do not cut into
    each other (`Stdio.shared_descriptor_witness`); per FILE (a) still holds for the chunks of that FILE. -/
theorem records_reach_consumer_any_schedule (labels optK rs re : Bool) (targets : List Relay.Bytes)
    (hn : ∀ t ∈ targets, NameOk t) {sizeMeta : Nat} (hg : growthOk sizeMeta = true)
    {a0 : Cbuf.Cbuf} (ha0 : mkIndexBuf sizeMeta = some a0) (evs : List (Key × LEv)) (ops : List Stdio.IOp)
    (hcalls : Stdio.callSeq ops =
      (evs.foldl (gstep indexOps ⟨labels, keepDomain optK targets, false, rs, re⟩
        (fun i => targets.getD i [])) (ginit a0)).log.map (fun x => (x.2.stream, x.2.bytes))) (f : Nat) :
    Stdio.delivered f (Stdio.iorun ops) ++ (Stdio.iorun ops).bufs f =
      (((evs.foldl (gstep indexOps ⟨labels, keepDomain optK targets, false, rs, re⟩
        (fun i => targets.getD i [])) (ginit a0)).log.filter (fun x => x.2.stream = f)).map (·.2.bytes)).flatten ∧
    LogOk (evs.foldl (gstep indexOps ⟨labels, keepDomain optK targets, false, rs, re⟩
      (fun i => targets.getD i [])) (ginit a0)) ∧
    ∀ (k : Key) (script : List Relay.Bytes), k.1 < targets.length →
      (evs.filter (fun e => e.1 = k)).map (·.2) = script.map LEv.feed ++ [LEv.finish] →
      Spec.Dom05 (markerOf (!k.2)) script.flatten = true →
      Spec.c06Ok (Spec.recPrefix labels optK targets (targets.getD k.1 [])) script.flatten
        ((logOf (evs.foldl (gstep indexOps ⟨labels, keepDomain optK targets, false, rs, re⟩
          (fun i => targets.getD i [])) (ginit a0)) k).map Em.bytes) = true := by
  obtain ⟨h1, h2⟩ := records_own_label_any_schedule labels optK rs re targets hn hg ha0 evs
  refine ⟨?_, h1, h2⟩
  rw [Stdio.io_consumer_sees_calls, Stdio.callsOn_eq_callSeq, hcalls]
  congr 1
  generalize (evs.foldl (gstep indexOps ⟨labels, keepDomain optK targets, false, rs, re⟩
    (fun i => targets.getD i [])) (ginit a0)).log = G
  induction G with
  | nil => rfl
  | cons x xs ih =>
    by_cases h : x.2.stream = f <;> simp [h, ih]

open Stdio in
/-- what fork() copies: in full-buffering mode, as long as the calls made since the last flush fit
    the buffer, ALL of them are still in the FILE (nothing has reached the descriptor) -/
theorem unflushed_calls_stay_buffered (cap : Nat) : ∀ (ops : List Stdio.Op) (buf : Relay.Bytes),
    (∀ o ∈ ops, ∃ s, o = .fputs s) → (buf ++ calls ops).length ≤ cap →
    (run ⟨.full, cap, buf⟩ ops).1.buf = buf ++ calls ops ∧ (run ⟨.full, cap, buf⟩ ops).2 = []
  | [], buf, _, _ => by simp [run, calls]
  | o :: os, buf, hall, hlen => by
    obtain ⟨s, rfl⟩ := hall o (by simp)
    have hfit : ¬ (buf ++ s).length > cap := by
      simp only [calls, List.length_append] at hlen ⊢; omega
    have ih := unflushed_calls_stay_buffered cap os (buf ++ s) (fun o ho => hall o (by simp [ho]))
      (by simpa [calls, List.append_assoc] using hlen)
    simp only [run, step, settle, hfit, ↓reduceIte, calls]
    exact ⟨by rw [ih.1, List.append_assoc], by rw [ih.2]; rfl⟩

open Stdio in
/-- SEEDED C06-5, the mechanism: pdsh has written host h1's unterminated tail record "h1: t"
    (`_flush_output` does not fflush, stdout is a pipe: the record is still in the FILE) and then
    forks the transport's child for h2, whose execvp fails.  A child that leaves with exit()
    writes the inherited record AGAIN -- to its own fd 1, the socket pdsh reads h2's output from --
    and the relay prints it as h2's output: "h2: h1: t".  A child that leaves with `_exit()`
    writes nothing (`at_Exit`), and `unstarted_host_writes_nothing` applies. -/
theorem forked_child_exit_reemits_witness :
    let parent := (run ⟨.full, 4096, []⟩ [.fputs [104, 49, 58, 32, 116]]).1      -- after fputs("h1: t")
    atExit parent = [104, 49, 58, 32, 116] ∧ at_Exit parent = [] ∧
    ∀ b0, mkFifoBuf 1 = some b0 →
      (runStream fifoOps ⟨true, false, false, false, false⟩ [104, 50] [104, 49] 1 true b0 [atExit parent]).ems =
        [⟨1, [104, 50, 58, 32, 104, 49, 58, 32, 116]⟩] ∧
      (runStream fifoOps ⟨true, false, false, false, false⟩ [104, 50] [104, 49] 1 true b0 [at_Exit parent]).ems = [] := by
  refine ⟨by decide, by decide, ?_⟩
  intro b0 h
  simp [mkFifoBuf, Cbuf.Spec.create, Gen.RELAY_CBUF_MIN, Gen.RELAY_CBUF_MAX] at h
  subst h
  exact ⟨by decide, by decide⟩

/-! ### non-vacuity -/

/-- label examples: same domain -> stripped; different domains -> kept; digit-first -> kept -/
example :
    labelPrefix true (keepDomain false [[97, 46, 120], [98, 46, 120]]) [97, 46, 120] = [97, 58, 32] ∧
    labelPrefix true (keepDomain false [[97, 46, 120], [98, 46, 121]]) [97, 46, 120] = [97, 46, 120, 58, 32] ∧
    labelPrefix true (keepDomain false [[49, 46, 50]]) [49, 46, 50] = [49, 46, 50, 58, 32] := by decide

example : NameOk [97, 46, 120] := ⟨by decide, by decide⟩

end PdshVerif.C06
