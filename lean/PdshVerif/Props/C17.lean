/-
  C17  Module loading is deterministic, conflict-safe, and refuses insecure code.
  PROPERTY THEOREMS ONLY (helper lemmas: PdshVerif/Mod/{Lemmas,SortLemmas,RegLemmas,Determinism}.lean).

  Model: Mod/Load.lean (main.c's directory choice; mod.c's path and file permission tests,
  _mod_load_dynamic/_mod_register, _cmp_f, the two initialisation passes; list.c's list_sort as
  written; opt.c's opt_register).  The file system and the dynamic loader are parameters.

  The forms of _mod_register / _cmp_f / _mod_load_dynamic that are covered:
    `Now.loadAll`                THE CODE AS IT IS NOW (/repo HEAD fde0027; what `pdshmodel mod model` runs): personality
                                 first, ties broken by type / file name, priorities COMPARED (no arithmetic: every int),
                                 a directory maps NAMES to OBJECTS (`oid`) and a name whose object is already in the
                                 module list is skipped.  `Now.loadDirG_eq_of_distinct_objects` + `Now.loadDirG_cmp`:
                                 on names that denote distinct objects it IS `Tie.loadDir` on the rewritten directory,
                                 for all priorities -- so every theorem below speaks about it
    `Now.loadAllRename`          ... with findings/C17-sameobj-tie.patch (F17-SAMEOBJ-TIE, open)
    `loadDir` / `loadAll`        the pinned code (personality tested after the eviction; F17-PERS, F17-TIE)
    `loadAllPF`                  the code since commit 59829e8 (personality first): `loadAll` on the
                                 rewritten directory, justified by `Mod.registerPF_eq`
    `Tie.loadDir` / `Tie.loadAllPF`  the code since c80ee4f (F17-TIE repaired), priorities subtracted in ℤ
    `PrioWrap.cmpFWrap`          _cmp_f before 930abcb (32-bit subtraction; F17-PRIO-OVERFLOW)
  All theorems below that speak about `loadDir e d` hold for every directory, hence also for the
  rewritten one; `perm_invariant_current` and `perm_invariant_tiefix` state determinism for the newer forms.

  NOT proved here: that the C code equals the model (correspondence check), anything about dlopen
  itself, the MAXPATHLEN guard of the ancestor walk (a module directory nested so deep that `dir/../../..` no longer
  fits MAXPATHLEN: _path_permissions_ok gives up and nothing is loaded -- the safe side), determinism for directories in
  which one object has several names AND an equal-priority duplicate lies between them (false of the code:
  `sameobj_tie_witness`, finding F17-SAMEOBJ-TIE; true again with `rename`, not proved in general).

  THE LOADER'S I/O, exactly.  The model takes the world as parameters of `Env`/`Dir`/`File`; the
  correspondence check runs the real binary under harness/preload_shim.c, which makes the world BE
  those parameters for the calls the binary really imports (verified with `nm -D` on every run):
    CONTROLLED by the shim, hence exercised for every value the generator draws
      getuid / geteuid                  -> Env.uid, Env.euid (set*id become no-ops)
      opendir / readdir / closedir      -> Dir.files in the prescribed enumeration order (names only;
                                           "." / ".." / names that do not exist included), for the
                                           module directory in use; closedir never fails
      stat (the only stat-family import)-> File.st and Dir.path: st_uid / st_mode (type bits included)
                                           of every entry, of every ancestor up to "/", and of the
                                           pdsh binary (Env.owner); failure (ENOENT) per path
      dlopen                            -> only LOGGED (Result.opened); the call itself is real
      getenv PDSH_MODULE_DIR / PDSH_MISC_MODULES, argv[0] (pdsh / pdcp) -> Env.envDir, Env.misc, Env.pers
    REAL and TRUSTED (parameters of the model whose values come from real files the check builds)
      dlopen / dlsym / dlclose          : that a generated module yields the descriptor compiled into
                                           it (`Obj.mod d`), that a text file / directory does not load
                                           (`Obj.noload`), that RTLD_GLOBAL does not make one pool
                                           module's symbols shadow another's (the pool exports only
                                           pdsh_module_info / pdsh_module_priority via a version script)
      the kernel's path resolution      : `dir/..` chains reach "/" (st_ino / st_dev of the real
                                           directories decide where the ancestor walk stops)
      getpwuid (local user), getcwd / chdir in the error path, glibc getopt (for option dispatch)
    NOT MODELLED: ACLs, races between stat and dlopen (TOCTOU), MAXPATHLEN.
      st_gid / group permission bits: mod.c does not look at them and neither does the model -- stated as
      `decisions_ignore_other_bits`.  Symbolic links: stat follows them, so a linked module file carries
      the attributes of its target and a PDSH_MODULE_DIR that names a link is judged by the ancestors of
      the link's target (the check builds both situations).  opendir failing after the path test passed
      and an empty directory are the same thing for the loader -- no entry, exit 1 -- and are run as the
      directory without entries.  ONE OBJECT UNDER TWO NAMES (symbolic or hard link inside the directory):
      MODELLED (Mod/Now.lean): the directory maps names to objects, the loader gets the same handle for
      both names and, since fde0027, skips a name whose handle is in the module list (`no_object_registered_twice`;
      before: F17-SAMEOBJ, SIGSEGV).  The check builds such directories (pool links s01, a19, a20) in every order.

  clause of the property text                           theorem(s)
  ----------------------------------------------------  ------------------------------------------------------
  active set is a function of contents and -M only      contents_determine_outcome (as a SET of entries),
                                                           perm_invariant(_current,_tiefix), dispatch_deterministic;
                                                           witnesses tie_witness, dup_equal_witness, dup_personality_witness
  ... and of -M / PDSH_MISC_MODULES only                misc_list_from_command_line (composed with C18.precedence)
  -M first, then priority-then-name order               forced_first, spec_sound (clause `order`), list_sort correct
                                                           (Mod/SortLemmas.lean); list_sort's POINTER LOOP (cursors ppPrev /
                                                           pp / ppPos on links, Mod/SortCursor.lean) computes the modelled
                                                           sort: list_sort_loop_as_written, loader_runs_pointer_loop (the
                                                           driver runs that form); the cursor re-basing test is
                                                           needed: list_sort_rebase_witness (seeded change C17-13)
  a module with a taken option is inactive as a whole   conflict_all_or_nothing, initialize_all_or_nothing,
                                                           inactive_options_not_accepted
  same type and name: only the higher priority          dup_higher_priority_only
  no code from an insecure file                         insecure_file_never_opened, file_decision, opened_decision(_current),
                                                           decisions_ignore_other_bits
  nor below an insecure ancestor                        insecure_path_loads_nothing, path_decision, unknown_owner_loads_nothing
  root and set-uid runs ignore PDSH_MODULE_DIR          root_ignores_env, dir_decision
  all clauses at once, code as it is now                spec_sound
  "for all priorities"                                   priority_order_all_priorities, loader_compares_as_modelled;
                                                           the code before 930abcb: priorities_in_range_sort_as_modelled,
                                                           prio_overflow_witness_unchanged
  one object under several names                        no_object_registered_twice, contents_determine_outcome_now
                                                           (distinct objects); sameobj_tie_witness (F17-SAMEOBJ-TIE, open)
-/
import PdshVerif.Mod.Determinism
import PdshVerif.Mod.TieLemmas
import PdshVerif.Mod.Spec
import PdshVerif.Mod.SpecSound
import PdshVerif.Mod.SplitLemmas
import PdshVerif.Mod.PrioWrap
import PdshVerif.Mod.Now
import PdshVerif.Mod.SortCursor
import PdshVerif.Props.C18

namespace PdshVerif.C17
open PdshVerif.Mod

/-! ## the caller cannot redirect a privileged run -/

/-- root and set-uid runs ignore PDSH_MODULE_DIR: the result is that of the built-in directory,
    whatever the environment names -/
theorem root_ignores_env (e : Env) (h : e.uid = 0 ∨ e.uid ≠ e.euid) :
    loadAll e = loadDir e e.builtin := by
  unfold loadAll chooseDir
  cases e.envDir with
  | none => rfl
  | some d => simp [h]

/-! ## no insecure code is loaded -/

/-- every file handed to dlopen is a directory entry that could be stat'ed, is a regular file, is
    owned by root, the caller or the owner of the pdsh binary, and is not world-writable -/
theorem insecure_file_never_opened (e : Env) (d : Dir) (name : Str) (h : name ∈ (loadDir e d).opened) :
    ∃ owner f st, e.owner = some owner ∧ f ∈ d.files ∧ f.fname = name ∧ f.st = some st ∧
      isReg st.mode = true ∧ (st.uid = 0 ∨ st.uid = e.uid ∨ st.uid = owner) ∧ st.mode &&& S_IWOTH = 0 := by
  have h : name ∈ (loadDirG beatsPrio cmpF e d).opened := h
  have sub : ∃ owner, e.owner = some owner ∧
      name ∈ (loadFilesG beatsPrio e.uid owner e.pers d.files).opened := by
    cases ho : e.owner with
    | none => rw [loadDir_fatal_owner _ _ e d ho] at h; simp at h
    | some owner =>
      cases hp : pathOk e.uid owner d.path with
      | false => rw [loadDir_fatal_path _ _ e d owner ho hp] at h; simp at h
      | true =>
        by_cases hc : (loadFilesG beatsPrio e.uid owner e.pers d.files).count = 0
        · rw [loadDir_fatal_count _ _ e d owner ho hp hc] at h; exact ⟨owner, rfl, h⟩
        · rw [loadDir_ok _ _ e d owner ho hp hc] at h; exact ⟨owner, rfl, h⟩
  obtain ⟨owner, ho, hn⟩ := sub
  unfold loadFilesG at hn
  rcases foldl_opened beatsPrio e.uid owner e.pers d.files _ name hn with h0 | ⟨f, hf, hfn, st, hst, hok⟩
  · simp at h0
  · refine ⟨owner, f, st, ho, hf, hfn, hst, ?_⟩
    simp only [fileOk, ownerOk, Bool.and_eq_true, Bool.or_eq_true, beq_iff_eq] at hok
    exact ⟨hok.1.1, by rcases hok.1.2 with (h1 | h1) | h1 <;> simp [h1], hok.2⟩

/-- an ancestor of the module directory that cannot be stat'ed, is not a directory, has an owner
    other than root / the caller / the owner of the pdsh binary, or is world-writable without the
    sticky bit makes the run fail before anything is opened, registered or initialised -/
theorem insecure_path_loads_nothing (e : Env) (d : Dir) (owner : Nat) (ho : e.owner = some owner)
    (x : Option FStat) (hx : x ∈ d.path)
    (hbad : x = none ∨ ∃ st, x = some st ∧
      (isDir st.mode = false ∨ ¬ (st.uid = 0 ∨ st.uid = e.uid ∨ st.uid = owner) ∨
       (st.mode &&& S_IWOTH ≠ 0 ∧ st.mode &&& S_ISVTX = 0))) :
    (loadDir e d).fatal = true ∧ (loadDir e d).opened = [] ∧ (loadDir e d).mods = [] ∧
      (loadDir e d).calls = [] ∧ (loadDir e d).regs = [] := by
  have hp : pathOk e.uid owner d.path = false := by
    apply pathOk_of_bad e.uid owner d.path x hx
    rcases hbad with h | ⟨st, hst, hb⟩
    · exact Or.inl h
    · refine Or.inr ⟨st, hst, ?_⟩
      unfold dirOk ownerOk
      rcases hb with hb | hb | hb
      · simp [hb]
      · have : (st.uid == 0 || st.uid == e.uid || st.uid == owner) = false := by
          cases hh : (st.uid == 0 || st.uid == e.uid || st.uid == owner) with
          | false => rfl
          | true =>
            exfalso; apply hb
            simp only [Bool.or_eq_true, beq_iff_eq] at hh
            rcases hh with (h1 | h1) | h1 <;> simp [h1]
        simp [this]
      · have h1 : (st.mode &&& S_IWOTH != 0) = true := by simp [hb.1]
        have h2 : (st.mode &&& S_ISVTX == 0) = true := by simp [hb.2]
        simp [h1, h2]
  rw [show loadDir e d = loadDirG beatsPrio cmpF e d from rfl, loadDir_fatal_path _ _ e d owner ho hp]
  simp

/-- the same when the owner of the pdsh binary cannot be determined -/
theorem unknown_owner_loads_nothing (e : Env) (d : Dir) (ho : e.owner = none) :
    (loadDir e d).fatal = true ∧ (loadDir e d).opened = [] ∧ (loadDir e d).mods = [] := by
  rw [show loadDir e d = loadDirG beatsPrio cmpF e d from rfl, loadDir_fatal_owner _ _ e d ho]; simp

/-! small concrete directories for the witness theorems -/

def wStat : Option FStat := some ⟨0, 33188⟩          -- root, 0100644
def wOpt (c : Char) : Option (List OptRow) := some [⟨c, false, 3⟩]
def wMod (file type name : String) (prio : Int) (pers : Nat) (c : Char) : File :=
  ⟨file.toList, wStat, .mod ⟨some type.toList, some name.toList, prio, pers, wOpt c, some true⟩⟩
def wEnv (fs : List File) : Env := ⟨1000, 1000, some ⟨[], fs⟩, ⟨[], []⟩, some 0, 1, none⟩
def wView (r : Result) : List (String × Bool) := r.mods.map fun m => (String.ofList m.file, m.active)

/-! ## the refusal decision table -/

/-- which directory: PDSH_MODULE_DIR is used iff it is set and the caller is neither root nor set-uid -/
theorem dir_decision (e : Env) :
    chooseDir e = if e.uid ≠ 0 ∧ e.uid = e.euid then e.envDir.getD e.builtin else e.builtin := by
  unfold chooseDir
  cases e.envDir with
  | none => simp
  | some d =>
    by_cases h : e.uid = 0 ∨ e.uid ≠ e.euid
    · have : ¬ (e.uid ≠ 0 ∧ e.uid = e.euid) := by
        rcases h with h | h
        · exact fun x => x.1 h
        · exact fun x => h x.2
      simp [h, this]
    · have : e.uid ≠ 0 ∧ e.uid = e.euid := by
        constructor
        · exact fun x => h (Or.inl x)
        · exact Classical.byContradiction fun x => h (Or.inr x)
      simp [h, this]

/-- the path test as a table over every ancestor's stat result: accepted iff EVERY ancestor (up to
    and including "/") can be stat'ed, is a directory, is owned by root, the caller or the owner of
    the pdsh binary, and is not world-writable unless sticky -- for every uid, owner and list of
    (st_uid, st_mode) -/
theorem path_decision (uid owner : Nat) (path : List (Option FStat)) :
    pathOk uid owner path = true ↔
      ∀ x ∈ path, ∃ st, x = some st ∧ isDir st.mode = true ∧
        (st.uid = 0 ∨ st.uid = uid ∨ st.uid = owner) ∧
        (st.mode &&& S_IWOTH = 0 ∨ st.mode &&& S_ISVTX ≠ 0) := by
  induction path with
  | nil => simp [pathOk]
  | cons x rest ih =>
    cases x with
    | none =>
      simp only [pathOk, Bool.false_eq_true, false_iff]
      intro h
      obtain ⟨st, hst, _⟩ := h none (by simp)
      cases hst
    | some st =>
      simp only [pathOk, Bool.and_eq_true, ih, List.mem_cons, forall_eq_or_imp]
      constructor
      · rintro ⟨hd, hr⟩
        refine ⟨⟨st, rfl, ?_⟩, hr⟩
        simp only [dirOk, ownerOk, Bool.and_eq_true, Bool.or_eq_true, beq_iff_eq, Bool.not_eq_true',
          Bool.and_eq_false_iff, bne_eq_false_iff_eq, beq_eq_false_iff_ne] at hd
        refine ⟨hd.1.1, ?_, hd.2⟩
        rcases hd.1.2 with (h1 | h1) | h1 <;> simp [h1]
      · rintro ⟨⟨st', hst', hdir, hown, hww⟩, hr⟩
        cases hst'
        refine ⟨?_, hr⟩
        simp only [dirOk, ownerOk, Bool.and_eq_true, Bool.or_eq_true, beq_iff_eq, Bool.not_eq_true',
          Bool.and_eq_false_iff, bne_eq_false_iff_eq, beq_eq_false_iff_ne]
        refine ⟨⟨hdir, ?_⟩, hww⟩
        rcases hown with h1 | h1 | h1
        · exact Or.inl (Or.inl h1)
        · exact Or.inl (Or.inr h1)
        · exact Or.inr h1

/-- the per-file test as a table: a file is handed to dlopen iff it can be stat'ed, is a regular
    file, is owned by root, the caller or the owner of the pdsh binary, and is not world-writable -/
theorem file_decision (uid owner : Nat) (f : File) :
    secure uid owner f = true ↔
      ∃ st, f.st = some st ∧ isReg st.mode = true ∧ (st.uid = 0 ∨ st.uid = uid ∨ st.uid = owner) ∧
        st.mode &&& S_IWOTH = 0 := by
  unfold secure
  cases f.st with
  | none => simp
  | some st =>
    simp only [fileOk, ownerOk, Bool.and_eq_true, Bool.or_eq_true, beq_iff_eq, Option.some.injEq, exists_eq_left']
    constructor
    · rintro ⟨⟨h1, h2⟩, h3⟩
      exact ⟨h1, by rcases h2 with (h | h) | h <;> simp [h], h3⟩
    · rintro ⟨h1, h2, h3⟩
      refine ⟨⟨h1, ?_⟩, h3⟩
      rcases h2 with h | h | h
      · exact Or.inl (Or.inl h)
      · exact Or.inl (Or.inr h)
      · exact Or.inr h

/-- THE TABLES LOOK AT NOTHING ELSE: the verdict on a file and on a directory depends on st_uid and, of
    st_mode, only on the type bits, the world-write bit and the sticky bit.  Group ownership, group and
    owner permission bits, set-uid/set-gid bits do not enter (mod.c does not read st_gid; the property text
    does not mention the group either): a group-writable module file or ancestor is accepted like any other -/
theorem decisions_ignore_other_bits (uid owner u m m' : Nat)
    (ht : m &&& Gen.MO_S_IFMT = m' &&& Gen.MO_S_IFMT) (hw : m &&& S_IWOTH = m' &&& S_IWOTH)
    (hs : m &&& S_ISVTX = m' &&& S_ISVTX) :
    fileOk uid owner ⟨u, m⟩ = fileOk uid owner ⟨u, m'⟩ ∧ dirOk uid owner ⟨u, m⟩ = dirOk uid owner ⟨u, m'⟩ := by
  simp only [fileOk, dirOk, isReg, isDir, ownerOk, ht, hw, hs, and_self]

/-- 0664 / 0775 (group-writable) against 0644 / 0755, owner root -/
example : fileOk 1000 500 ⟨0, 0o100664⟩ = fileOk 1000 500 ⟨0, 0o100644⟩ ∧ fileOk 1000 500 ⟨0, 0o100664⟩ = true ∧
    dirOk 1000 500 ⟨0, 0o40775⟩ = true ∧ dirOk 1000 500 ⟨0, 0o40777⟩ = false ∧ dirOk 1000 500 ⟨0, 0o41777⟩ = true := by
  decide

/-- the complete decision: WHAT is handed to dlopen, for every environment and directory -- nothing
    when the owner of the binary is unknown or the path test fails, else exactly the directory
    entries that pass the per-file test, in enumeration order, whatever they contain -/
theorem opened_decision (e : Env) (d : Dir) :
    (loadDir e d).opened =
      match e.owner with
      | none => []
      | some owner =>
        if pathOk e.uid owner d.path then (d.files.filter (secure e.uid owner)).map (·.fname) else [] := by
  rw [show loadDir e d = loadDirG beatsPrio cmpF e d from rfl]
  cases ho : e.owner with
  | none => rw [loadDir_fatal_owner _ _ e d ho]
  | some owner =>
    cases hp : pathOk e.uid owner d.path with
    | false => rw [loadDir_fatal_path _ _ e d owner ho hp]; simp [hp]
    | true =>
      by_cases hc : (loadFilesG beatsPrio e.uid owner e.pers d.files).count = 0
      · rw [loadDir_fatal_count _ _ e d owner ho hp hc]; simp [opened_eq, hp]
      · rw [loadDir_ok _ _ e d owner ho hp hc]; simp [opened_eq, hp]

/-- the same table for the code as it is now (personality first, ties broken): rewriting and the new
    replacement rule change nothing about what is opened -/
theorem opened_decision_current (e : Env) :
    (Tie.loadAllPF e).opened =
      match e.owner with
      | none => []
      | some owner =>
        if pathOk e.uid owner (chooseDir e).path then
          ((chooseDir e).files.filter (secure e.uid owner)).map (·.fname)
        else [] := by
  rw [loadAllPF_eq]
  have hown : (persFirstEnv e).owner = e.owner := rfl
  have hpath : (persFirstDir e.pers (chooseDir e)).path = (chooseDir e).path := rfl
  cases ho : e.owner with
  | none => rw [loadDir_fatal_owner _ _ _ _ (by rw [hown]; exact ho)]
  | some owner =>
    cases hp : pathOk e.uid owner (chooseDir e).path with
    | false =>
      rw [loadDir_fatal_path _ _ _ _ owner (by rw [hown]; exact ho) (by rw [hpath]; exact hp)]; simp [hp]
    | true =>
      have hop : (loadFilesG Tie.beats (persFirstEnv e).uid owner (persFirstEnv e).pers
          (persFirstDir e.pers (chooseDir e)).files).opened =
          ((chooseDir e).files.filter (secure e.uid owner)).map (·.fname) := by
        rw [opened_eq]; exact opened_persFirst e.uid owner e.pers (chooseDir e).files
      by_cases hc : (loadFilesG Tie.beats (persFirstEnv e).uid owner (persFirstEnv e).pers
          (persFirstDir e.pers (chooseDir e)).files).count = 0
      · rw [loadDir_fatal_count _ _ _ _ owner (by rw [hown]; exact ho) (by rw [hpath]; exact hp) hc]
        simp [hop, hp]
      · rw [loadDir_ok _ _ _ _ owner (by rw [hown]; exact ho) (by rw [hpath]; exact hp) hc]
        simp [hop, hp]

/-! ## determinism -/

/-
  The unconditional statement
      fs₁.Perm fs₂ → loadDir e ⟨p, fs₁⟩ = loadDir e ⟨p, fs₂⟩   (up to the order of the dlopen log)
  is FALSE of the code: see `tie_witness`, `dup_equal_witness` (finding F17-TIE) and
  `dup_personality_witness` (finding F17-PERS).  It holds under `Distinct`: distinct file names,
  no module of another personality sharing (type, name) with a loadable one, no two loadable modules
  with equal priority and name.
-/

/-- the outcome -- exit status, the module list with its active flags, the initialisers run and
    their order, the option string -- is a function of the SET of directory entries: it is the same
    for every enumeration order (the dlopen log is the same up to order) -/
theorem perm_invariant (e : Env) (p : List (Option FStat)) (fs₁ fs₂ : List File) (hp : fs₁.Perm fs₂)
    (hd : ∀ owner, e.owner = some owner → Distinct e.uid owner e.pers fs₁) :
    (loadDir e ⟨p, fs₁⟩).fatal = (loadDir e ⟨p, fs₂⟩).fatal ∧
    (loadDir e ⟨p, fs₁⟩).mods = (loadDir e ⟨p, fs₂⟩).mods ∧
    (loadDir e ⟨p, fs₁⟩).calls = (loadDir e ⟨p, fs₂⟩).calls ∧
    (loadDir e ⟨p, fs₁⟩).opts = (loadDir e ⟨p, fs₂⟩).opts ∧
    (loadDir e ⟨p, fs₁⟩).regs = (loadDir e ⟨p, fs₂⟩).regs ∧
    (loadDir e ⟨p, fs₁⟩).opened.Perm (loadDir e ⟨p, fs₂⟩).opened :=
  perm_invariantG beatsPrio_ord cmpF_totalPre e p fs₁ fs₂ hp (fun o ho => (hd o ho).toG)

/-- the code as it is since commit 59829e8 (personality tested first; modelled as the pinned code on
    the rewritten directory, `Mod.registerPF_eq`): a module of another personality can no longer
    matter, so distinct file names and the absence of ties suffice -/
theorem perm_invariant_current (e : Env) (p : List (Option FStat)) (fs₁ fs₂ : List File) (hp : fs₁.Perm fs₂)
    (hn : (fs₁.map (·.fname)).Nodup)
    (ht : ∀ owner, e.owner = some owner → ∀ f ∈ fs₁, ∀ g ∈ fs₁, ∀ c c',
      cand e.uid owner e.pers (persFirstFile e.pers f) = some c →
      cand e.uid owner e.pers (persFirstFile e.pers g) = some c' →
      c.prio = c'.prio → c.name = c'.name → c = c') :
    let d₁ : Dir := ⟨p, fs₁.map (persFirstFile e.pers)⟩
    let d₂ : Dir := ⟨p, fs₂.map (persFirstFile e.pers)⟩
    (loadDir e d₁).fatal = (loadDir e d₂).fatal ∧ (loadDir e d₁).mods = (loadDir e d₂).mods ∧
    (loadDir e d₁).calls = (loadDir e d₂).calls ∧ (loadDir e d₁).opts = (loadDir e d₂).opts ∧
    (loadDir e d₁).regs = (loadDir e d₂).regs ∧ (loadDir e d₁).opened.Perm (loadDir e d₂).opened := by
  intro d₁ d₂
  apply perm_invariant e p _ _ (hp.map _)
  intro owner ho
  refine ⟨regHyp_persFirst e.uid owner e.pers fs₁ hn, ?_⟩
  intro f hf g hg c c' hc hc'
  simp only [List.mem_map] at hf hg
  obtain ⟨f0, hf0, rfl⟩ := hf
  obtain ⟨g0, hg0, rfl⟩ := hg
  exact ht owner ho f0 hf0 g0 hg0 c c' hc hc'

/-- with the proposed repair of F17-TIE (findings/C17.patch) on top of the personality-first code the
    outcome is a function of the set of directory entries under the sole assumption that file names
    are distinct -- which directory entries are -/
theorem perm_invariant_tiefix (e : Env) (p : List (Option FStat)) (fs₁ fs₂ : List File) (hp : fs₁.Perm fs₂)
    (hn : (fs₁.map (·.fname)).Nodup) :
    let d₁ : Dir := ⟨p, fs₁.map (persFirstFile e.pers)⟩
    let d₂ : Dir := ⟨p, fs₂.map (persFirstFile e.pers)⟩
    (Tie.loadDir e d₁).fatal = (Tie.loadDir e d₂).fatal ∧ (Tie.loadDir e d₁).mods = (Tie.loadDir e d₂).mods ∧
    (Tie.loadDir e d₁).calls = (Tie.loadDir e d₂).calls ∧ (Tie.loadDir e d₁).opts = (Tie.loadDir e d₂).opts ∧
    (Tie.loadDir e d₁).regs = (Tie.loadDir e d₂).regs ∧
    (Tie.loadDir e d₁).opened.Perm (Tie.loadDir e d₂).opened := by
  intro d₁ d₂
  exact perm_invariantG Tie.beats_ord Tie.cmpF_totalPre e p _ _ (hp.map _)
    (fun owner _ => Tie.distinctG_of_regHyp (regHyp_persFirst e.uid owner e.pers fs₁ hn))

/-- the three witnesses below no longer show under the repaired rules -/
theorem tiefix_witnesses_gone :
    wView (Tie.loadAllPF (wEnv [wMod "a.so" "misc" "tie" 100 3 'Y', wMod "b.so" "rcmd" "tie" 100 3 'Y']))
      = wView (Tie.loadAllPF (wEnv [wMod "b.so" "rcmd" "tie" 100 3 'Y', wMod "a.so" "misc" "tie" 100 3 'Y'])) ∧
    wView (Tie.loadAllPF (wEnv [wMod "a.so" "misc" "alpha" 100 3 'a', wMod "b.so" "misc" "alpha" 100 3 'D']))
      = wView (Tie.loadAllPF (wEnv [wMod "b.so" "misc" "alpha" 100 3 'D', wMod "a.so" "misc" "alpha" 100 3 'a'])) ∧
    wView (loadAllPF (wEnv [wMod "lo.so" "misc" "phi" 90 3 'G', wMod "hi.so" "misc" "phi" 120 2 'G',
                            wMod "z.so" "misc" "zeta" 50 3 'm']))
      = wView (loadAllPF (wEnv [wMod "hi.so" "misc" "phi" 120 2 'G', wMod "lo.so" "misc" "phi" 90 3 'G',
                                wMod "z.so" "misc" "zeta" 50 3 'm'])) := by
  decide

/-! witnesses: the three ways the enumeration order shows (all on a directory of two files) -/

/-- F17-TIE (a): misc/tie and rcmd/tie, same priority, same option: whichever is enumerated LAST
    is initialised first and wins the option -/
theorem tie_witness :
    wView (loadAll (wEnv [wMod "a.so" "misc" "tie" 100 3 'Y', wMod "b.so" "rcmd" "tie" 100 3 'Y']))
      = [("b.so", true), ("a.so", false)] ∧
    wView (loadAll (wEnv [wMod "b.so" "rcmd" "tie" 100 3 'Y', wMod "a.so" "misc" "tie" 100 3 'Y']))
      = [("a.so", true), ("b.so", false)] := by
  decide

/-- F17-TIE (b): two misc/alpha of equal priority: the one enumerated FIRST is kept -/
theorem dup_equal_witness :
    wView (loadAll (wEnv [wMod "a.so" "misc" "alpha" 100 3 'a', wMod "b.so" "misc" "alpha" 100 3 'D']))
      = [("a.so", true)] ∧
    wView (loadAll (wEnv [wMod "b.so" "misc" "alpha" 100 3 'D', wMod "a.so" "misc" "alpha" 100 3 'a']))
      = [("b.so", true)] := by
  decide

/-- F17-PERS: misc/phi priority 90 (pdsh and pdcp) and misc/phi priority 120 (pdcp only), run as
    pdsh, with an unrelated module so that the run goes on: enumerated [90, 120] the better
    duplicate evicts the loadable one and is then dropped itself; enumerated [120, 90] the loadable
    one is kept -/
theorem dup_personality_witness :
    wView (loadAll (wEnv [wMod "lo.so" "misc" "phi" 90 3 'G', wMod "hi.so" "misc" "phi" 120 2 'G',
                          wMod "z.so" "misc" "zeta" 50 3 'm']))
      = [("z.so", true)] ∧
    wView (loadAll (wEnv [wMod "hi.so" "misc" "phi" 120 2 'G', wMod "lo.so" "misc" "phi" 90 3 'G',
                          wMod "z.so" "misc" "zeta" 50 3 'm']))
      = [("lo.so", true), ("z.so", true)] := by
  decide

/-- mod_process_opt: what happens to an option character on the command line -- refused by getopt,
    accepted without an active owner, or handed to a module -- and WHICH module gets it is the same
    for every enumeration order of the directory (current code with findings/C17.patch, distinct
    file names); together with `inactive_options_not_accepted` (the receiver is active and owns the
    character) this is the dispatch clause -/
theorem dispatch_deterministic (e : Env) (p : List (Option FStat)) (fs₁ fs₂ : List File) (hp : fs₁.Perm fs₂)
    (hn : (fs₁.map (·.fname)).Nodup) (c : Char) :
    optUse (Tie.loadDir e ⟨p, fs₁.map (persFirstFile e.pers)⟩) c =
      optUse (Tie.loadDir e ⟨p, fs₂.map (persFirstFile e.pers)⟩) c := by
  obtain ⟨_, hm, _, ho, _, _⟩ := perm_invariant_tiefix e p fs₁ fs₂ hp hn
  unfold optUse
  rw [hm, ho]

/-- THE OUTCOME IS A FUNCTION OF THE DIRECTORY CONTENTS AS A SET (code as it is now, with findings/C17.patch):
    two enumerations that deliver the same entries -- in any order -- give the same exit status, module
    list with active flags, initialiser calls in the same order, option string and registrations; entries
    are (name, stat result, object), names are distinct as directory entries are, and nothing is assumed
    about duplicates of (type, name), ties of priority or personalities -/
theorem contents_determine_outcome (e : Env) (p : List (Option FStat)) (fs₁ fs₂ : List File)
    (hn₁ : (fs₁.map (·.fname)).Nodup) (hn₂ : (fs₂.map (·.fname)).Nodup)
    (hset : ∀ f, f ∈ fs₁ ↔ f ∈ fs₂) :
    let d₁ : Dir := ⟨p, fs₁.map (persFirstFile e.pers)⟩
    let d₂ : Dir := ⟨p, fs₂.map (persFirstFile e.pers)⟩
    (Tie.loadDir e d₁).fatal = (Tie.loadDir e d₂).fatal ∧ (Tie.loadDir e d₁).mods = (Tie.loadDir e d₂).mods ∧
    (Tie.loadDir e d₁).calls = (Tie.loadDir e d₂).calls ∧ (Tie.loadDir e d₁).opts = (Tie.loadDir e d₂).opts ∧
    (Tie.loadDir e d₁).regs = (Tie.loadDir e d₂).regs ∧
    (Tie.loadDir e d₁).opened.Perm (Tie.loadDir e d₂).opened ∧
    ∀ c, optUse (Tie.loadDir e d₁) c = optUse (Tie.loadDir e d₂) c := by
  intro d₁ d₂
  have nd : ∀ {fs : List File}, (fs.map (·.fname)).Nodup → fs.Nodup := by
    intro fs h
    induction fs with
    | nil => simp
    | cons f rest ih =>
      simp only [List.map_cons, List.nodup_cons, List.mem_map] at h ⊢
      exact ⟨fun hm => h.1 ⟨f, hm, rfl⟩, ih h.2⟩
  have hp : fs₁.Perm fs₂ := (List.perm_ext_iff_of_nodup (nd hn₁) (nd hn₂)).mpr hset
  obtain ⟨h1, h2, h3, h4, h5, h6⟩ := perm_invariant_tiefix e p fs₁ fs₂ hp hn₁
  exact ⟨h1, h2, h3, h4, h5, h6, fun c => dispatch_deterministic e p fs₁ fs₂ hp hn₁ c⟩

/-- non-vacuity: a directory with a tie (misc/tie, rcmd/tie), an equal-priority duplicate and a conflict,
    enumerated in two different orders -/
example :
    let fs₁ := [wMod "a.so" "misc" "tie" 100 3 'Y', wMod "b.so" "rcmd" "tie" 100 3 'Y',
                wMod "c.so" "misc" "alpha" 100 3 'a', wMod "d.so" "misc" "alpha" 100 3 'Y']
    let fs₂ := [fs₁[3]!, fs₁[1]!, fs₁[0]!, fs₁[2]!]
    (fs₁.map (·.fname)).Nodup ∧ (fs₂.map (·.fname)).Nodup ∧ (∀ f, f ∈ fs₁ ↔ f ∈ fs₂) ∧
    wView (Tie.loadAllPF (wEnv fs₁)) = wView (Tie.loadAllPF (wEnv fs₂)) := by
  refine ⟨by decide, by decide, ?_, by decide⟩
  intro f
  simp only [List.mem_cons, List.mem_nil_iff, or_false, List.getElem!_eq_getElem?_getD]
  constructor <;> (intro h; rcases h with h | h | h | h <;> subst h <;> simp)

/-! ## where the -M list comes from (composed with C18) -/

/-- "...a function of its contents and of -M/PDSH_MISC_MODULES only": the list of forced modules the loader
    model takes (`Env.misc`) is, in every accepted run, what C18's model of opt.c delivers (C18.precedence, proved
    over the option table generated from opt.c): the LAST -M of the command line as the early option pass reads
    it, else PDSH_MISC_MODULES, else nothing -- so the outcome of module loading is the same for any two command
    lines and environments that agree on that one value (and on the directory) -/
theorem misc_list_from_command_line {fx : Opt.Fixes} {d : Opt.Defaults} {p : Opt.Pers} {env : Opt.Env}
    {argv : List Opt.Str} {c : Opt.Cfg} (h : Opt.effective fx d p env argv = .ok c) (e : Env) :
    Tie.loadAllPF { e with misc := c.miscModules } =
      Tie.loadAllPF { e with misc := (Opt.lastArg 'M' (Opt.getopt (Opt.earlyString fx d p) argv).1 <|>
                                      Opt.getenv env "PDSH_MISC_MODULES") } := by
  obtain ⟨_, _, _, _, _, a6, _⟩ := C18.precedence h
  rw [a6]

/-! ## priorities: every int -/

/-- "-M first, then priority-then-name order", FOR ALL PRIORITIES.  `_cmp_f` as it is now (930abcb) COMPARES the two
    ints (`Now.cmpF` is the C expression, no arithmetic, so nothing can overflow); list_sort looks at the sign of the
    comparison only, hence sorts every module list exactly like the model that subtracts in ℤ (`Now.listSort_eq`), and
    the result is a permutation of the registered modules in descending priority order, name then type breaking
    ties -- whatever the priorities are (INT_MIN and INT_MAX included) -/
theorem priority_order_all_priorities (l : List Mod) :
    listSort Now.cmpF l = listSort Tie.cmpF l ∧
    (listSort Now.cmpF l).Perm l ∧
    SortedBy Tie.cmpF (listSort Now.cmpF l) ∧
    (listSort Now.cmpF l).Pairwise (fun a b => a.prio ≥ b.prio) := by
  rw [Now.listSort_eq]
  refine ⟨rfl, listSort_perm Tie.cmpF_totalPre l, listSort_sorted Tie.cmpF_totalPre l, ?_⟩
  have hs := listSort_sorted Tie.cmpF_totalPre l
  unfold SortedBy at hs
  refine hs.imp ?_
  intro a b h
  rw [Tie.cmpF_le_iff] at h
  unfold Tie.le3 at h
  omega

/-- list.c's list_sort AS WRITTEN, with its three link cursors (`ppPrev`, `pp`, `ppPos`) and the re-basing of `ppPrev`
    after a move (`listSortCursor`, Mod/SortCursor.lean), is the `listSort` the loader model and every theorem here use --
    for every comparison function and every list; so module_list after mod_load_modules_from_dir is a permutation of the
    registered modules in descending priority order (name, then type breaking ties), whatever the initial (readdir)
    order and however many modules there are -/
theorem list_sort_loop_as_written (l : List Mod) :
    (∀ (cmp : Mod → Mod → Int), listSortCursor cmp l = listSort cmp l) ∧
    (listSortCursor Now.cmpF l).Perm l ∧
    SortedBy Tie.cmpF (listSortCursor Now.cmpF l) ∧
    (listSortCursor Now.cmpF l).Pairwise (fun a b => a.prio ≥ b.prio) ∧
    (∀ l₂ : List Mod, l.Nodup → l₂.Perm l → (∀ a ∈ l₂, ∀ b ∈ l₂, a ≠ b → Tie.cmpF a b ≠ 0) →
      listSortCursor Now.cmpF l₂ = listSortCursor Now.cmpF l) := by
  obtain ⟨_, h2, h3, h4⟩ := priority_order_all_priorities l
  refine ⟨fun cmp => listSortCursor_eq cmp l, ?_, ?_, ?_, ?_⟩
  · rw [listSortCursor_eq]; exact h2
  · rw [listSortCursor_eq]; exact h3
  · rw [listSortCursor_eq]; exact h4
  · intro l₂ hn hp hd
    rw [listSortCursor_eq, listSortCursor_eq, Now.listSort_eq, Now.listSort_eq]
    exact listSort_unique Tie.cmpF_totalPre l₂ l (hp.nodup_iff.mpr hn) hn (fun a => hp.mem_iff) hd

/-- what `pdshmodel mod model cursor` runs -- the loader with list_sort's pointer loop inside -- is the loader of the
    theorems of this file (`Now.loadAll`, and `Now.loadAllRename` with findings/C17-sameobj-tie.patch), for every
    environment; the check compares THAT form with pdsh on every case -/
theorem loader_runs_pointer_loop (oid : Str → Nat) (e : Env) :
    Now.loadAllCursor false oid e = Now.loadAll oid e ∧ Now.loadAllCursor true oid e = Now.loadAllRename oid e :=
  Now.loadAllCursor_eq oid e

/-- non-vacuity: five modules' worth of keys in a bad initial order -/
example : listSortCursor (fun a b : Int => a - b) [3, 2, 0, 1, 2] = [0, 1, 2, 2, 3] := by decide

/-- the re-basing test of the loop is load-bearing (named witness): with `if (ppPos == &l->head)` in place of
    `if (ppPrev == ppPos)` (seeded change C17-13) lists of up to three still sort, the list 0 3 1 2 does not -/
theorem list_sort_rebase_witness :
    listSortCursorG rebaseHeadOnly (fun a b : Int => a - b) [0, 3, 1, 2] = [0, 1, 3, 2]
    ∧ listSortCursorG rebaseAsWritten (fun a b : Int => a - b) [0, 3, 1, 2] = [0, 1, 2, 3] :=
  rebase_head_only_witness

/-- the whole loader with the code's comparison is the loader of the theorems above, for every directory -/
theorem loader_compares_as_modelled (e : Env) (d : Dir) :
    loadDirG Tie.beats Now.cmpF e d = Tie.loadDir e d :=
  Now.loadDirG_cmp Tie.beats e d

/-- the code BEFORE 930abcb returned `y->priority - x->priority` in int arithmetic (`cmpFWrap`: the difference wrapped
    into 32 bits).  Below 2^30 in magnitude that sorted like the model -/
theorem priorities_in_range_sort_as_modelled (l : List Mod) (h : ∀ m ∈ l, PrioWrap.small m) :
    listSort PrioWrap.cmpFWrap l = listSort Tie.cmpF l :=
  PrioWrap.listSort_wrap_eq l h

/-- F17-PRIO-OVERFLOW (repaired by 930abcb), witness of the UNCHANGED code: priorities 100 and INT_MIN.  100 - INT_MIN
    does not fit an int, the wrapped difference is negative and the module with the LOWEST possible priority came
    first; the code as it is now puts it last, in both enumeration orders (a revert of 930abcb is reported by the
    check with exactly this directory: pool modules m36, m01) -/
theorem prio_overflow_witness_unchanged :
    let a : Mod := ⟨"a.so".toList, miscType, "alpha".toList, 100, ⟨some miscType, some "alpha".toList, 100, 3, some [], none⟩, false⟩
    let b : Mod := ⟨"b.so".toList, miscType, "beta".toList, -2147483648,
                    ⟨some miscType, some "beta".toList, -2147483648, 3, some [], none⟩, false⟩
    (listSort PrioWrap.cmpFWrap [a, b]).map (·.prio) = [-2147483648, 100] ∧
    (listSort PrioWrap.cmpFWrap [b, a]).map (·.prio) = [-2147483648, 100] ∧
    (listSort Now.cmpF [a, b]).map (·.prio) = [100, -2147483648] ∧
    (listSort Now.cmpF [b, a]).map (·.prio) = [100, -2147483648] := by
  decide

/-! ## one object under several names -/

/-- a module directory maps NAMES to OBJECTS (`oid`: which object a name denotes), and two names may share one
    (symbolic or hard link).  Since fde0027 the loader never has one object in the module list twice, whatever the
    directory, the enumeration order and the sharing: this is what F17-SAMEOBJ violated (two list entries shared one
    pdsh_module_info, and destroying one of them cleared the type and name of the other: SIGSEGV) -/
theorem no_object_registered_twice (rename : Bool) (oid : Str → Nat) (beats : Beats) (uid owner pers : Nat)
    (files : List File) :
    ((Now.loadFiles rename oid beats uid owner pers files).mods.map (fun m => oid m.file)).Nodup := by
  unfold Now.loadFiles
  exact Now.foldl_oids_nodup rename oid beats uid owner pers files ⟨[], [], 0⟩ (by simp)

/-- THE OUTCOME IS A FUNCTION OF THE DIRECTORY CONTENTS AS A SET, for the code as it is now (personality first,
    ties broken, priorities compared, an object already in the list skipped), all priorities, when the names of the
    directory denote pairwise distinct objects -/
theorem contents_determine_outcome_now (rename : Bool) (oid : Str → Nat) (e : Env) (p : List (Option FStat))
    (fs₁ fs₂ : List File)
    (hn₁ : (fs₁.map (·.fname)).Nodup) (hn₂ : (fs₂.map (·.fname)).Nodup)
    (hset : ∀ f, f ∈ fs₁ ↔ f ∈ fs₂)
    (hobj : ∀ f ∈ fs₁, ∀ g ∈ fs₁, oid f.fname = oid g.fname → f.fname = g.fname) :
    let d₁ : Dir := ⟨p, fs₁.map (persFirstFile e.pers)⟩
    let d₂ : Dir := ⟨p, fs₂.map (persFirstFile e.pers)⟩
    let L := Now.loadDirG rename oid Tie.beats Now.cmpF e
    (L d₁).fatal = (L d₂).fatal ∧ (L d₁).mods = (L d₂).mods ∧ (L d₁).calls = (L d₂).calls ∧
    (L d₁).opts = (L d₂).opts ∧ (L d₁).regs = (L d₂).regs ∧ (L d₁).opened.Perm (L d₂).opened ∧
    ∀ c, optUse (L d₁) c = optUse (L d₂) c := by
  intro d₁ d₂ L
  have inj : ∀ fs : List File, (∀ f ∈ fs, f ∈ fs₁) →
      ∀ f ∈ fs.map (persFirstFile e.pers), ∀ g ∈ fs.map (persFirstFile e.pers),
        oid f.fname = oid g.fname → f.fname = g.fname := by
    intro fs hsub f hf g hg he
    obtain ⟨f0, hf0, rfl⟩ := List.mem_map.mp hf
    obtain ⟨g0, hg0, rfl⟩ := List.mem_map.mp hg
    rw [fname_persFirst, fname_persFirst] at he ⊢
    exact hobj f0 (hsub f0 hf0) g0 (hsub g0 hg0) he
  have e1 : L d₁ = Tie.loadDir e d₁ := by
    show Now.loadDirG rename oid Tie.beats Now.cmpF e d₁ = _
    rw [Now.loadDirG_eq_of_distinct_objects rename oid Tie.beats Now.cmpF e d₁ (inj fs₁ (fun f h => h))]
    exact Now.loadDirG_cmp Tie.beats e d₁
  have e2 : L d₂ = Tie.loadDir e d₂ := by
    show Now.loadDirG rename oid Tie.beats Now.cmpF e d₂ = _
    rw [Now.loadDirG_eq_of_distinct_objects rename oid Tie.beats Now.cmpF e d₂
      (inj fs₂ (fun f h => (hset f).mpr h))]
    exact Now.loadDirG_cmp Tie.beats e d₂
  rw [e1, e2]
  exact contents_determine_outcome e p fs₁ fs₂ hn₁ hn₂ hset

def wOid : Str → Nat := fun s =>
  if s = "a19.so".toList ∨ s = "m19.so".toList then 1 else if s = "m01.so".toList then 2 else 3

/-- non-vacuity of `hobj`, and the hypothesis cannot simply be dropped: F17-SAMEOBJ-TIE (open).  One object
    (misc/alpha, priority 100) under the names a19.so and m19.so, and another misc/alpha of priority 100 in m01.so:
    enumerated [m19, a19, m01] the object is registered as m19.so, its second name is skipped, and m01.so -- the
    smaller file name -- replaces it; enumerated [a19, m19, m01] the object is registered as a19.so and stays.
    Reproduced on the real loader; with findings/C17-sameobj-tie.patch (`rename`) both orders keep the object -/
theorem sameobj_tie_witness :
    let x := fun (f : String) => wMod f "misc" "alpha" 100 3 'D'
    let y := wMod "m01.so" "misc" "alpha" 100 3 'a'
    (Now.loadAll wOid (wEnv [x "m19.so", x "a19.so", y])).mods.map (fun m => (wOid m.file, m.active)) = [(2, true)] ∧
    (Now.loadAll wOid (wEnv [x "a19.so", x "m19.so", y])).mods.map (fun m => (wOid m.file, m.active)) = [(1, true)] ∧
    (Now.loadAllRename wOid (wEnv [x "m19.so", x "a19.so", y])).mods.map (fun m => (wOid m.file, m.active)) = [(1, true)] ∧
    (Now.loadAllRename wOid (wEnv [x "a19.so", x "m19.so", y])).mods.map (fun m => (wOid m.file, m.active)) = [(1, true)] ∧
    (Now.loadAllRename wOid (wEnv [y, x "m19.so", x "a19.so"])).mods.map (fun m => (wOid m.file, m.active)) = [(1, true)] := by
  decide

/-! ## duplicates -/

/-- after the directory was read no two modules of the list have the same type and name, and each
    one has at least the priority of every loadable file with its type and name: of two loadable
    modules with the same type and name only the one with the higher priority is in the list -/
theorem dup_higher_priority_only (uid owner pers : Nat) (files : List File)
    (hyp : RegHyp uid owner pers files) :
    ((loadFiles uid owner pers files).mods.map Mod.key).Nodup ∧
    (∀ m ∈ (loadFiles uid owner pers files).mods, ∀ g ∈ files, ∀ c, cand uid owner pers g = some c →
      c.type = m.type → c.name = m.name → c.prio ≤ m.prio) ∧
    (∀ g ∈ files, ∀ c, cand uid owner pers g = some c →
      ∃ m ∈ (loadFiles uid owner pers files).mods, m.type = c.type ∧ m.name = c.name ∧ c.prio ≤ m.prio) := by
  have inv : RegInv beatsPrio uid owner pers files (loadFiles uid owner pers files) :=
    regInv_final beatsPrio_ord uid owner pers files hyp
  have le_of : ∀ c m : Mod, ¬ Beats.rel beatsPrio c m → c.prio ≤ m.prio := by
    intro c m h
    simp only [Beats.rel, beatsPrio, decide_eq_true_eq] at h
    omega
  refine ⟨inv.r3, ?_, ?_⟩
  · intro m hm g hg c hc ht hn
    obtain ⟨m', hm', hk', hle⟩ := inv.r2 g hg c hc
    have hk : m'.key = m.key := by
      rw [hk']; simp [Mod.key, ht, hn]
    have : m' = m := key_unique inv.r3 hm' hm hk
    subst this; exact le_of _ _ hle
  · intro g hg c hc
    obtain ⟨m, hm, hk, hle⟩ := inv.r2 g hg c hc
    have h1 := congrArg Prod.fst hk
    have h2 := congrArg Prod.snd hk
    exact ⟨m, hm, by simpa [Mod.key] using h1, by simpa [Mod.key] using h2, le_of _ _ hle⟩

/-! ## conflicts: all or nothing -/

/-- one _mod_initialize: either the module is refused as a whole -- some applicable option character
    already occurs in the option string; then NOTHING changes: no character registered, initialiser
    not run, flag untouched -- or ALL its applicable characters are appended -/
theorem initialize_all_or_nothing (pers : Nat) (m : Mod) (s : InitSt) :
    ((initOne pers m s).2 = s ∧ (initOne pers m s).1 = m ∧
      ∃ rows, m.d.opts = some rows ∧ ∃ r ∈ rows, r.pers &&& pers ≠ 0 ∧ r.c ∈ s.opts) ∨
    ((initOne pers m s).2.opts = s.opts ++ rowChars pers (m.d.opts.getD []) ∧
      ∀ rows, m.d.opts = some rows → ∀ r ∈ rows, r.pers &&& pers ≠ 0 → r.c ∉ s.opts) := by
  rcases (initOne_ok pers m s).cases with ⟨h1, h2, rows, hr, hc⟩ | ⟨added, hadd, hopts, _⟩
  · left
    refine ⟨h1, h2, rows, hr, ?_⟩
    simp only [rowsClash, List.any_eq_true, Bool.and_eq_true, bne_iff_ne, ne_eq,
      List.contains_eq_mem, decide_eq_true_eq] at hc
    obtain ⟨r, hr1, hr2, hr3⟩ := hc
    exact ⟨r, hr1, hr2, hr3⟩
  · right
    refine ⟨by rw [hopts, optRegister_some hadd], ?_⟩
    intro rows hr r hrm hp hin
    unfold optRegister at hadd
    rw [hr] at hadd
    simp only at hadd
    split at hadd
    · simp at hadd
    · rename_i hnc
      apply hnc
      simp only [rowsClash, List.any_eq_true, Bool.and_eq_true, bne_iff_ne, ne_eq,
        List.contains_eq_mem, decide_eq_true_eq]
      exact ⟨r, hrm, hp, hin⟩

/-- for a whole run that goes through: the option string is the built-in string followed by what the
    successful registrations appended, in order; whoever registered appended exactly its applicable
    characters and is active (or has a failing initialiser); a module that is not active (and whose
    initialiser does not fail) registered nothing and its initialiser did not run; every active
    module registered -/
theorem conflict_all_or_nothing (e : Env) (d : Dir) (hnf : (loadDir e d).fatal = false)
    (hyp : ∀ owner, e.owner = some owner → RegHyp e.uid owner e.pers d.files) :
    (loadDir e d).opts = baseOpts e.pers ++ (loadDir e d).regs.flatMap (·.2) ∧
    (∀ p ∈ (loadDir e d).regs, ∃ m ∈ (loadDir e d).mods, m.file = p.1 ∧
        p.2 = rowChars e.pers (m.d.opts.getD []) ∧ (m.active = true ∨ m.d.init = some false)) ∧
    (∀ m ∈ (loadDir e d).mods, m.active = false → m.d.init ≠ some false →
        m.file ∉ (loadDir e d).calls ∧ ∀ p ∈ (loadDir e d).regs, p.1 ≠ m.file) ∧
    (∀ m ∈ (loadDir e d).mods, m.active = true → ∃ p ∈ (loadDir e d).regs, p.1 = m.file) := by
  obtain ⟨owner, ho, hp, hc⟩ := loadDir_nonfatal beatsPrio cmpF e d hnf
  have hreg := hyp owner ho
  have hperm := listSort_perm cmpF_totalPre (loadFilesG beatsPrio e.uid owner e.pers d.files).mods
  have hnd : ((listSort cmpF (loadFilesG beatsPrio e.uid owner e.pers d.files).mods).map (·.file)).Nodup :=
    (hperm.map _).nodup_iff.mpr (mods_files_nodup beatsPrio_ord hreg)
  have hin : ∀ m ∈ listSort cmpF (loadFilesG beatsPrio e.uid owner e.pers d.files).mods, m.active = false :=
    fun m hm => mods_inactive beatsPrio_ord hreg m (hperm.mem_iff.mp hm)
  have inv := initPhase_inv e.pers e.misc _ hnd hin
  have hfiles := files_of_static (initPhase_static e.pers e.misc
    (listSort cmpF (loadFilesG beatsPrio e.uid owner e.pers d.files).mods))
  rw [show loadDir e d = loadDirG beatsPrio cmpF e d from rfl, loadDir_ok _ _ e d owner ho hp hc]
  simp only
  refine ⟨inv.opts, inv.regs, ?_, inv.act⟩
  intro m hm hia hif
  have hno : ∀ p ∈ (initPhase e.pers e.misc
      (listSort cmpF (loadFilesG beatsPrio e.uid owner e.pers d.files).mods)).2.regs, p.1 ≠ m.file := by
    intro p hp' hpf
    obtain ⟨x, hx, hxf, _, hxa⟩ := inv.regs p hp'
    have : x = m := eq_of_nodup_map (·.file) (by rw [hfiles]; exact hnd) x hx m hm (hxf.trans hpf)
    subst this
    rcases hxa with h1 | h1
    · rw [hia] at h1; cases h1
    · exact hif h1
  refine ⟨?_, hno⟩
  intro hcall
  obtain ⟨p, hp', hpf⟩ := inv.calls m.file hcall
  exact hno p hp' hpf

/-- "none of its options is accepted": an option character on the command line is only ever handled
    by a module that is active and has that character in its table -/
theorem inactive_options_not_accepted (r : Result) (c : Char) (f : Str) (a : Bool)
    (h : optUse r c = .handled f a) :
    ∃ m ∈ r.mods, m.file = f ∧ m.active = true ∧ ∃ row ∈ m.d.opts.getD [], row.c = c := by
  unfold optUse at h
  split at h
  · simp at h
  · split at h
    · rename_i m hf
      simp only [OptUse.handled.injEq] at h
      have hm := List.mem_of_find?_eq_some hf
      have hp := List.find?_some hf
      simp only [Bool.and_eq_true, List.any_eq_true, beq_iff_eq] at hp
      obtain ⟨row, hrow, hc⟩ := hp.2
      exact ⟨m, hm, h.1, hp.1, row, hrow, hc⟩
    · simp at h

/-! ## -M first -/

/-- the first module named with -M (the first `misc` module of that name in the list, wherever its
    priority puts it) is the first to register: if its options do not clash with pdsh's own, its
    characters directly follow the built-in string, before those of every other module -/
theorem forced_first (pers : Nat) (misc : Str) (l : List Mod) (nm : Str) (rest : List Str) (m : Mod)
    (added : Str) (hn : splitNames misc = nm :: rest) (hfind : l.find? (isMisc nm) = some m)
    (hreg : optRegister pers (baseOpts pers) m.d.opts = some added) :
    ∃ t, (initPhase pers (some misc) l).2.regs = (m.file, added) :: t ∧
      (initPhase pers (some misc) l).2.opts = baseOpts pers ++ added ++ t.flatMap (·.2) := by
  have key : ∃ t, (initPhase pers (some misc) l).2.regs = (m.file, added) :: t := by
    unfold initPhase
    simp only [miscNames, hn, initByNames]
    have h1 : (initFirst pers (isMisc nm) l ⟨baseOpts pers, [], []⟩).2.regs = [(m.file, added)] := by
      rw [initFirst_found pers (isMisc nm) l _ m hfind]
      rcases (initOne_ok pers m ⟨baseOpts pers, [], []⟩).cases with ⟨_, _, rows, hr, hcl⟩ | ⟨a', ha', _, hrg, _⟩
      · exfalso
        unfold optRegister at hreg
        simp only at hcl
        rw [hr] at hreg
        simp [hcl] at hreg
      · simp only at ha'
        rw [hreg] at ha'
        simp only [Option.some.injEq] at ha'
        subst ha'
        simpa using hrg
    obtain ⟨t1, ht1⟩ := initByNames_regs pers rest
      (initFirst pers (isMisc nm) l ⟨baseOpts pers, [], []⟩).1
      (initFirst pers (isMisc nm) l ⟨baseOpts pers, [], []⟩).2
    obtain ⟨t2, ht2⟩ := initAll_regs pers
      (initByNames pers rest (initFirst pers (isMisc nm) l ⟨baseOpts pers, [], []⟩).1
        (initFirst pers (isMisc nm) l ⟨baseOpts pers, [], []⟩).2).1
      (initByNames pers rest (initFirst pers (isMisc nm) l ⟨baseOpts pers, [], []⟩).1
        (initFirst pers (isMisc nm) l ⟨baseOpts pers, [], []⟩).2).2
    exact ⟨t1 ++ t2, by rw [ht2, ht1, h1]; simp⟩
  obtain ⟨t, ht⟩ := key
  refine ⟨t, ht, ?_⟩
  -- the option string is the base followed by the registrations (invariant without hypotheses on l
  -- is not available: use the step-wise accumulation instead)
  have hopts : ∀ (l : List Mod) (s : InitSt), s.opts = baseOpts pers ++ s.regs.flatMap (·.2) →
      (initAll pers l s).2.opts = baseOpts pers ++ (initAll pers l s).2.regs.flatMap (·.2) := by
    intro l
    induction l with
    | nil => intro s h; simpa [initAll] using h
    | cons x xs ih =>
      intro s h
      simp only [initAll]
      apply ih
      rcases (initOne_ok pers x s).cases with ⟨h1, _, _⟩ | ⟨a', _, ho, hr, _⟩
      · rw [h1]; exact h
      · rw [ho, hr, h]; simp [List.flatMap_append]
  have hoptsF : ∀ (p : Mod → Bool) (l : List Mod) (s : InitSt),
      s.opts = baseOpts pers ++ s.regs.flatMap (·.2) →
      (initFirst pers p l s).2.opts = baseOpts pers ++ (initFirst pers p l s).2.regs.flatMap (·.2) := by
    intro p l
    induction l with
    | nil => intro s h; simpa [initFirst] using h
    | cons x xs ih =>
      intro s h
      simp only [initFirst]
      split
      · rcases (initOne_ok pers x s).cases with ⟨h1, _, _⟩ | ⟨a', _, ho, hr, _⟩
        · rw [h1]; exact h
        · rw [ho, hr, h]; simp [List.flatMap_append]
      · exact ih s h
  have hoptsN : ∀ (names : List Str) (l : List Mod) (s : InitSt),
      s.opts = baseOpts pers ++ s.regs.flatMap (·.2) →
      (initByNames pers names l s).2.opts =
        baseOpts pers ++ (initByNames pers names l s).2.regs.flatMap (·.2) := by
    intro names
    induction names with
    | nil => intro l s h; simpa [initByNames] using h
    | cons n ns ih =>
      intro l s h
      simp only [initByNames]
      exact ih _ _ (hoptsF (isMisc n) l s h)
  have hall : (initPhase pers (some misc) l).2.opts =
      baseOpts pers ++ (initPhase pers (some misc) l).2.regs.flatMap (·.2) := by
    unfold initPhase
    exact hopts _ _ (hoptsN _ _ _ (by simp))
  rw [hall, ht]
  simp [List.append_assoc]

/-! ## all clauses at once -/

/-- The model of the code as it is now (`Tie.loadAllPF`: personality tested first, ties broken by
    type / file name) satisfies EVERY clause of the specification Mod/Spec.lean simultaneously --
    directory choice, secure path, secure files, only loadable modules listed, duplicates resolved by
    priority, priority-then-name order, forced-first greedy activation with all-or-nothing option
    registration, initialisers run exactly for the activated modules, option characters handled only
    by active owners -- for every environment, every directory whose entry names are distinct (they
    are directory entries), every -M list without brackets and every set of option characters tried:
    what an observer sees of the model (`obsOf`) passes `Spec.check`. -/
theorem spec_sound (e : Env) (letters : List Char)
    (hn : ((chooseDir e).files.map (·.fname)).Nodup)
    (hmisc : ∀ s, e.misc = some s → NoBrackets s) :
    Spec.check e (obsOf (Tie.loadAllPF e) letters) = [] :=
  check_obsOf_nil e letters hn (fun s hs => splitNames_eq_splitComma s (hmisc s hs))

/-- the hypotheses of `spec_sound` are satisfiable by a directory with a conflict, a duplicate, a
    module of the other personality and a forced module -/
example :
    let fs := [wMod "a.so" "misc" "alpha" 100 3 'a', wMod "b.so" "misc" "alpha" 150 3 'a',
               wMod "c.so" "misc" "beta" 100 3 'a', wMod "d.so" "rcmd" "t1" 100 2 'W']
    let e : Env := { wEnv fs with misc := some "beta".toList }
    ((chooseDir e).files.map (·.fname)).Nodup ∧ (∀ s, e.misc = some s → NoBrackets s) ∧
    wView (Tie.loadAllPF e) = [("b.so", false), ("c.so", true)] := by
  refine ⟨by decide, ?_, by decide⟩
  intro s hs
  simp only [Option.some.injEq] at hs
  subst hs
  intro c hc
  revert c
  decide

/-! the hypotheses are satisfiable: a directory with a duplicate (higher priority wins), a conflict
    and an unrelated module is `Distinct`, and loading it in two orders gives the same module list -/

example :
    let fs := [wMod "a.so" "misc" "alpha" 100 3 'a', wMod "b.so" "misc" "alpha" 150 3 'a',
               wMod "c.so" "misc" "beta" 100 3 'a', wMod "d.so" "rcmd" "t1" 100 3 'W']
    wView (loadAll (wEnv fs)) = [("b.so", true), ("c.so", false), ("d.so", true)] ∧
    wView (loadAll (wEnv fs.reverse)) = [("b.so", true), ("c.so", false), ("d.so", true)] := by
  decide

end PdshVerif.C17
