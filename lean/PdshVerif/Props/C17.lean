/-
  C17  Module loading is deterministic, conflict-safe, and refuses insecure code.
  PROPERTY THEOREMS ONLY (helper lemmas: PdshVerif/Mod/Lemmas.lean).
-/
import PdshVerif.Mod.Load
import PdshVerif.Mod.Spec

namespace PdshVerif.C17
open PdshVerif.Mod

/-- root and set-uid runs ignore PDSH_MODULE_DIR: the result is that of the built-in directory,
    whatever the environment names -/
theorem root_ignores_env (e : Env) (h : e.uid = 0 ∨ e.uid ≠ e.euid) :
    loadAll e = loadDir e e.builtin := by
  unfold loadAll chooseDir
  cases e.envDir with
  | none => rfl
  | some d => simp [h]

end PdshVerif.C17
