/-
  C17  Module loading is deterministic, conflict-safe, and refuses insecure code.
  PROPERTY THEOREMS ONLY (helper lemmas: PdshVerif/Mod/{Lemmas,SortLemmas,RegLemmas,Determinism}.lean).

  Model: Mod/Load.lean (main.c's directory choice; mod.c's path and file permission tests,
  _mod_load_dynamic/_mod_register, _cmp_f, the two initialisation passes; list.c's list_sort as
  written; opt.c's opt_register).  The file system and the dynamic loader are parameters.

  NOT proved here: that the C code equals the model (correspondence check), anything about dlopen
  itself, int overflow in _cmp_f, the MAXPATHLEN guard of the ancestor walk.
-/
import PdshVerif.Mod.Determinism
import PdshVerif.Mod.Spec

namespace PdshVerif.C17
open PdshVerif.Mod

/-! ## the caller cannot redirect a privileged run -/

/-- root and set-uid runs ignore PDSH_MODULE_DIR: the result is that of the built-in directory,
    whatever the environment names -/
theorem root_ignores_env (e : Env) (h : e.uid = 0 ∨ e.uid ≠ e.euid) :
    loadAll e = loadDir e e.builtin := by
  unfold loadAll chooseDir
  cases e.envDir with
  | none => rfl
  | some d => simp [h]

/-! ## no insecure code is loaded -/

/-- every file handed to dlopen is a directory entry that could be stat'ed, is a regular file, is
    owned by root, the caller or the owner of the pdsh binary, and is not world-writable -/
theorem insecure_file_never_opened (e : Env) (d : Dir) (name : Str) (h : name ∈ (loadDir e d).opened) :
    ∃ owner f st, e.owner = some owner ∧ f ∈ d.files ∧ f.fname = name ∧ f.st = some st ∧
      isReg st.mode = true ∧ (st.uid = 0 ∨ st.uid = e.uid ∨ st.uid = owner) ∧ st.mode &&& S_IWOTH = 0 := by
  have sub : ∃ owner, e.owner = some owner ∧ name ∈ (loadFiles e.uid owner e.pers d.files).opened := by
    cases ho : e.owner with
    | none => rw [loadDir_fatal_owner e d ho] at h; simp at h
    | some owner =>
      cases hp : pathOk e.uid owner d.path with
      | false => rw [loadDir_fatal_path e d owner ho hp] at h; simp at h
      | true =>
        by_cases hc : (loadFiles e.uid owner e.pers d.files).count = 0
        · rw [loadDir_fatal_count e d owner ho hp hc] at h; exact ⟨owner, rfl, h⟩
        · rw [loadDir_ok e d owner ho hp hc] at h; exact ⟨owner, rfl, h⟩
  obtain ⟨owner, ho, hn⟩ := sub
  unfold loadFiles at hn
  rcases foldl_opened e.uid owner e.pers d.files _ name hn with h0 | ⟨f, hf, hfn, st, hst, hok⟩
  · simp at h0
  · refine ⟨owner, f, st, ho, hf, hfn, hst, ?_⟩
    simp only [fileOk, ownerOk, Bool.and_eq_true, Bool.or_eq_true, beq_iff_eq] at hok
    exact ⟨hok.1.1, by rcases hok.1.2 with (h1 | h1) | h1 <;> simp [h1], hok.2⟩

/-- an ancestor of the module directory that cannot be stat'ed, is not a directory, has an owner
    other than root / the caller / the owner of the pdsh binary, or is world-writable without the
    sticky bit makes the run fail before anything is opened, registered or initialised -/
theorem insecure_path_loads_nothing (e : Env) (d : Dir) (owner : Nat) (ho : e.owner = some owner)
    (x : Option FStat) (hx : x ∈ d.path)
    (hbad : x = none ∨ ∃ st, x = some st ∧
      (isDir st.mode = false ∨ ¬ (st.uid = 0 ∨ st.uid = e.uid ∨ st.uid = owner) ∨
       (st.mode &&& S_IWOTH ≠ 0 ∧ st.mode &&& S_ISVTX = 0))) :
    (loadDir e d).fatal = true ∧ (loadDir e d).opened = [] ∧ (loadDir e d).mods = [] ∧
      (loadDir e d).calls = [] ∧ (loadDir e d).regs = [] := by
  have hp : pathOk e.uid owner d.path = false := by
    apply pathOk_of_bad e.uid owner d.path x hx
    rcases hbad with h | ⟨st, hst, hb⟩
    · exact Or.inl h
    · refine Or.inr ⟨st, hst, ?_⟩
      unfold dirOk ownerOk
      rcases hb with hb | hb | hb
      · simp [hb]
      · have : (st.uid == 0 || st.uid == e.uid || st.uid == owner) = false := by
          cases hh : (st.uid == 0 || st.uid == e.uid || st.uid == owner) with
          | false => rfl
          | true =>
            exfalso; apply hb
            simp only [Bool.or_eq_true, beq_iff_eq] at hh
            rcases hh with (h1 | h1) | h1 <;> simp [h1]
        simp [this]
      · have h1 : (st.mode &&& S_IWOTH != 0) = true := by simp [hb.1]
        have h2 : (st.mode &&& S_ISVTX == 0) = true := by simp [hb.2]
        simp [h1, h2]
  rw [loadDir_fatal_path e d owner ho hp]
  simp

/-- the same when the owner of the pdsh binary cannot be determined -/
theorem unknown_owner_loads_nothing (e : Env) (d : Dir) (ho : e.owner = none) :
    (loadDir e d).fatal = true ∧ (loadDir e d).opened = [] ∧ (loadDir e d).mods = [] := by
  rw [loadDir_fatal_owner e d ho]; simp

/-! ## determinism -/

/-
  The unconditional statement
      fs₁.Perm fs₂ → loadDir e ⟨p, fs₁⟩ = loadDir e ⟨p, fs₂⟩   (up to the order of the dlopen log)
  is FALSE of the code: see `tie_witness`, `dup_equal_witness` (finding F17-TIE) and
  `dup_personality_witness` (finding F17-PERS).  It holds under `Distinct`: distinct file names,
  no module of another personality sharing (type, name) with a loadable one, no two loadable modules
  with equal priority and name.
-/

/-- the outcome -- exit status, the module list with its active flags, the initialisers run and
    their order, the option string -- is a function of the SET of directory entries: it is the same
    for every enumeration order (the dlopen log is the same up to order) -/
theorem perm_invariant (e : Env) (p : List (Option FStat)) (fs₁ fs₂ : List File) (hp : fs₁.Perm fs₂)
    (hd : ∀ owner, e.owner = some owner → Distinct e.uid owner e.pers fs₁) :
    (loadDir e ⟨p, fs₁⟩).fatal = (loadDir e ⟨p, fs₂⟩).fatal ∧
    (loadDir e ⟨p, fs₁⟩).mods = (loadDir e ⟨p, fs₂⟩).mods ∧
    (loadDir e ⟨p, fs₁⟩).calls = (loadDir e ⟨p, fs₂⟩).calls ∧
    (loadDir e ⟨p, fs₁⟩).opts = (loadDir e ⟨p, fs₂⟩).opts ∧
    (loadDir e ⟨p, fs₁⟩).regs = (loadDir e ⟨p, fs₂⟩).regs ∧
    (loadDir e ⟨p, fs₁⟩).opened.Perm (loadDir e ⟨p, fs₂⟩).opened := by
  cases ho : e.owner with
  | none =>
    rw [loadDir_fatal_owner e _ ho, loadDir_fatal_owner e _ ho]; simp
  | some owner =>
    have hdist := hd owner ho
    cases hpo : pathOk e.uid owner p with
    | false =>
      rw [loadDir_fatal_path e ⟨p, fs₁⟩ owner ho hpo, loadDir_fatal_path e ⟨p, fs₂⟩ owner ho hpo]; simp
    | true =>
      have hcnt := count_perm_invariant hp hdist.toRegHyp
      have hop := opened_perm_invariant hp hdist.toRegHyp
      by_cases hc : (loadFiles e.uid owner e.pers fs₁).count = 0
      · rw [loadDir_fatal_count e ⟨p, fs₁⟩ owner ho hpo hc,
          loadDir_fatal_count e ⟨p, fs₂⟩ owner ho hpo (hcnt.mp hc)]
        simp [hop]
      · have hc2 : (loadFiles e.uid owner e.pers fs₂).count ≠ 0 := fun h => hc (hcnt.mpr h)
        rw [loadDir_ok e ⟨p, fs₁⟩ owner ho hpo hc, loadDir_ok e ⟨p, fs₂⟩ owner ho hpo hc2]
        simp only [sorted_perm_invariant hp hdist]
        simp [hop]

/-! witnesses: the three ways the enumeration order shows (all on a directory of two files) -/

def wStat : Option FStat := some ⟨0, 33188⟩          -- root, 0100644
def wOpt (c : Char) : Option (List OptRow) := some [⟨c, false, 3⟩]
def wMod (file type name : String) (prio : Int) (pers : Nat) (c : Char) : File :=
  ⟨file.toList, wStat, .mod ⟨some type.toList, some name.toList, prio, pers, wOpt c, some true⟩⟩
def wEnv (fs : List File) : Env := ⟨1000, 1000, some ⟨[], fs⟩, ⟨[], []⟩, some 0, 1, none⟩
def wView (r : Result) : List (String × Bool) := r.mods.map fun m => (String.ofList m.file, m.active)

/-- F17-TIE (a): misc/tie and rcmd/tie, same priority, same option: whichever is enumerated LAST
    is initialised first and wins the option -/
theorem tie_witness :
    wView (loadAll (wEnv [wMod "a.so" "misc" "tie" 100 3 'Y', wMod "b.so" "rcmd" "tie" 100 3 'Y']))
      = [("b.so", true), ("a.so", false)] ∧
    wView (loadAll (wEnv [wMod "b.so" "rcmd" "tie" 100 3 'Y', wMod "a.so" "misc" "tie" 100 3 'Y']))
      = [("a.so", true), ("b.so", false)] := by
  decide

/-- F17-TIE (b): two misc/alpha of equal priority: the one enumerated FIRST is kept -/
theorem dup_equal_witness :
    wView (loadAll (wEnv [wMod "a.so" "misc" "alpha" 100 3 'a', wMod "b.so" "misc" "alpha" 100 3 'D']))
      = [("a.so", true)] ∧
    wView (loadAll (wEnv [wMod "b.so" "misc" "alpha" 100 3 'D', wMod "a.so" "misc" "alpha" 100 3 'a']))
      = [("b.so", true)] := by
  decide

/-- F17-PERS: misc/phi priority 90 (pdsh and pdcp) and misc/phi priority 120 (pdcp only), run as
    pdsh, with an unrelated module so that the run goes on: enumerated [90, 120] the better
    duplicate evicts the loadable one and is then dropped itself; enumerated [120, 90] the loadable
    one is kept -/
theorem dup_personality_witness :
    wView (loadAll (wEnv [wMod "lo.so" "misc" "phi" 90 3 'G', wMod "hi.so" "misc" "phi" 120 2 'G',
                          wMod "z.so" "misc" "zeta" 50 3 'm']))
      = [("z.so", true)] ∧
    wView (loadAll (wEnv [wMod "hi.so" "misc" "phi" 120 2 'G', wMod "lo.so" "misc" "phi" 90 3 'G',
                          wMod "z.so" "misc" "zeta" 50 3 'm']))
      = [("lo.so", true), ("z.so", true)] := by
  decide

/-! ## duplicates -/

/-- after the directory was read no two modules of the list have the same type and name, and each
    one has at least the priority of every loadable file with its type and name: of two loadable
    modules with the same type and name only the one with the higher priority is in the list -/
theorem dup_higher_priority_only (uid owner pers : Nat) (files : List File)
    (hyp : RegHyp uid owner pers files) :
    ((loadFiles uid owner pers files).mods.map Mod.key).Nodup ∧
    (∀ m ∈ (loadFiles uid owner pers files).mods, ∀ g ∈ files, ∀ c, cand uid owner pers g = some c →
      c.type = m.type → c.name = m.name → c.prio ≤ m.prio) ∧
    (∀ g ∈ files, ∀ c, cand uid owner pers g = some c →
      ∃ m ∈ (loadFiles uid owner pers files).mods, m.type = c.type ∧ m.name = c.name ∧ c.prio ≤ m.prio) := by
  have inv := regInv_final uid owner pers files hyp
  refine ⟨inv.r3, ?_, ?_⟩
  · intro m hm g hg c hc ht hn
    obtain ⟨m', hm', hk', hle⟩ := inv.r2 g hg c hc
    have hk : m'.key = m.key := by
      rw [hk']; simp [Mod.key, ht, hn]
    have : m' = m := key_unique inv.r3 hm' hm hk
    subst this; exact hle
  · intro g hg c hc
    obtain ⟨m, hm, hk, hle⟩ := inv.r2 g hg c hc
    have h1 := congrArg Prod.fst hk
    have h2 := congrArg Prod.snd hk
    exact ⟨m, hm, by simpa [Mod.key] using h1, by simpa [Mod.key] using h2, hle⟩

/-! ## conflicts: all or nothing -/

/-- one _mod_initialize: either the module is refused as a whole -- some applicable option character
    already occurs in the option string; then NOTHING changes: no character registered, initialiser
    not run, flag untouched -- or ALL its applicable characters are appended -/
theorem initialize_all_or_nothing (pers : Nat) (m : Mod) (s : InitSt) :
    ((initOne pers m s).2 = s ∧ (initOne pers m s).1 = m ∧
      ∃ rows, m.d.opts = some rows ∧ ∃ r ∈ rows, r.pers &&& pers ≠ 0 ∧ r.c ∈ s.opts) ∨
    ((initOne pers m s).2.opts = s.opts ++ rowChars pers (m.d.opts.getD []) ∧
      ∀ rows, m.d.opts = some rows → ∀ r ∈ rows, r.pers &&& pers ≠ 0 → r.c ∉ s.opts) := by
  rcases (initOne_ok pers m s).cases with ⟨h1, h2, rows, hr, hc⟩ | ⟨added, hadd, hopts, _⟩
  · left
    refine ⟨h1, h2, rows, hr, ?_⟩
    simp only [rowsClash, List.any_eq_true, Bool.and_eq_true, bne_iff_ne, ne_eq,
      List.contains_eq_mem, decide_eq_true_eq] at hc
    obtain ⟨r, hr1, hr2, hr3⟩ := hc
    exact ⟨r, hr1, hr2, hr3⟩
  · right
    refine ⟨by rw [hopts, optRegister_some hadd], ?_⟩
    intro rows hr r hrm hp hin
    unfold optRegister at hadd
    rw [hr] at hadd
    simp only at hadd
    split at hadd
    · simp at hadd
    · rename_i hnc
      apply hnc
      simp only [rowsClash, List.any_eq_true, Bool.and_eq_true, bne_iff_ne, ne_eq,
        List.contains_eq_mem, decide_eq_true_eq]
      exact ⟨r, hrm, hp, hin⟩

/-- for a whole run that goes through: the option string is the built-in string followed by what the
    successful registrations appended, in order; whoever registered appended exactly its applicable
    characters and is active (or has a failing initialiser); a module that is not active (and whose
    initialiser does not fail) registered nothing and its initialiser did not run; every active
    module registered -/
theorem conflict_all_or_nothing (e : Env) (d : Dir) (hnf : (loadDir e d).fatal = false)
    (hyp : ∀ owner, e.owner = some owner → RegHyp e.uid owner e.pers d.files) :
    (loadDir e d).opts = baseOpts e.pers ++ (loadDir e d).regs.flatMap (·.2) ∧
    (∀ p ∈ (loadDir e d).regs, ∃ m ∈ (loadDir e d).mods, m.file = p.1 ∧
        p.2 = rowChars e.pers (m.d.opts.getD []) ∧ (m.active = true ∨ m.d.init = some false)) ∧
    (∀ m ∈ (loadDir e d).mods, m.active = false → m.d.init ≠ some false →
        m.file ∉ (loadDir e d).calls ∧ ∀ p ∈ (loadDir e d).regs, p.1 ≠ m.file) ∧
    (∀ m ∈ (loadDir e d).mods, m.active = true → ∃ p ∈ (loadDir e d).regs, p.1 = m.file) := by
  obtain ⟨owner, ho, hp, hc⟩ := loadDir_nonfatal e d hnf
  have hreg := hyp owner ho
  have hperm := listSort_perm cmpF_totalPre (loadFiles e.uid owner e.pers d.files).mods
  have hnd : ((listSort cmpF (loadFiles e.uid owner e.pers d.files).mods).map (·.file)).Nodup :=
    (hperm.map _).nodup_iff.mpr (mods_files_nodup hreg)
  have hin : ∀ m ∈ listSort cmpF (loadFiles e.uid owner e.pers d.files).mods, m.active = false :=
    fun m hm => mods_inactive hreg m (hperm.mem_iff.mp hm)
  have inv := initPhase_inv e.pers e.misc _ hnd hin
  have hfiles := files_of_static (initPhase_static e.pers e.misc
    (listSort cmpF (loadFiles e.uid owner e.pers d.files).mods))
  rw [loadDir_ok e d owner ho hp hc]
  simp only
  refine ⟨inv.opts, inv.regs, ?_, inv.act⟩
  intro m hm hia hif
  have hno : ∀ p ∈ (initPhase e.pers e.misc
      (listSort cmpF (loadFiles e.uid owner e.pers d.files).mods)).2.regs, p.1 ≠ m.file := by
    intro p hp' hpf
    obtain ⟨x, hx, hxf, _, hxa⟩ := inv.regs p hp'
    have : x = m := eq_of_nodup_map (·.file) (by rw [hfiles]; exact hnd) x hx m hm (hxf.trans hpf)
    subst this
    rcases hxa with h1 | h1
    · rw [hia] at h1; cases h1
    · exact hif h1
  refine ⟨?_, hno⟩
  intro hcall
  obtain ⟨p, hp', hpf⟩ := inv.calls m.file hcall
  exact hno p hp' hpf

/-- "none of its options is accepted": an option character on the command line is only ever handled
    by a module that is active and has that character in its table -/
theorem inactive_options_not_accepted (r : Result) (c : Char) (f : Str) (a : Bool)
    (h : optUse r c = .handled f a) :
    ∃ m ∈ r.mods, m.file = f ∧ m.active = true ∧ ∃ row ∈ m.d.opts.getD [], row.c = c := by
  unfold optUse at h
  split at h
  · simp at h
  · split at h
    · rename_i m hf
      simp only [OptUse.handled.injEq] at h
      have hm := List.mem_of_find?_eq_some hf
      have hp := List.find?_some hf
      simp only [Bool.and_eq_true, List.any_eq_true, beq_iff_eq] at hp
      obtain ⟨row, hrow, hc⟩ := hp.2
      exact ⟨m, hm, h.1, hp.1, row, hrow, hc⟩
    · simp at h

/-! ## -M first -/

/-- the first module named with -M (the first `misc` module of that name in the list, wherever its
    priority puts it) is the first to register: if its options do not clash with pdsh's own, its
    characters directly follow the built-in string, before those of every other module -/
theorem forced_first (pers : Nat) (misc : Str) (l : List Mod) (nm : Str) (rest : List Str) (m : Mod)
    (added : Str) (hn : splitNames misc = nm :: rest) (hfind : l.find? (isMisc nm) = some m)
    (hreg : optRegister pers (baseOpts pers) m.d.opts = some added) :
    ∃ t, (initPhase pers (some misc) l).2.regs = (m.file, added) :: t ∧
      (initPhase pers (some misc) l).2.opts = baseOpts pers ++ added ++ t.flatMap (·.2) := by
  have key : ∃ t, (initPhase pers (some misc) l).2.regs = (m.file, added) :: t := by
    unfold initPhase
    simp only [miscNames, hn, initByNames]
    have h1 : (initFirst pers (isMisc nm) l ⟨baseOpts pers, [], []⟩).2.regs = [(m.file, added)] := by
      rw [initFirst_found pers (isMisc nm) l _ m hfind]
      rcases (initOne_ok pers m ⟨baseOpts pers, [], []⟩).cases with ⟨_, _, rows, hr, hcl⟩ | ⟨a', ha', _, hrg, _⟩
      · exfalso
        unfold optRegister at hreg
        simp only at hcl
        rw [hr] at hreg
        simp [hcl] at hreg
      · simp only at ha'
        rw [hreg] at ha'
        simp only [Option.some.injEq] at ha'
        subst ha'
        simpa using hrg
    obtain ⟨t1, ht1⟩ := initByNames_regs pers rest
      (initFirst pers (isMisc nm) l ⟨baseOpts pers, [], []⟩).1
      (initFirst pers (isMisc nm) l ⟨baseOpts pers, [], []⟩).2
    obtain ⟨t2, ht2⟩ := initAll_regs pers
      (initByNames pers rest (initFirst pers (isMisc nm) l ⟨baseOpts pers, [], []⟩).1
        (initFirst pers (isMisc nm) l ⟨baseOpts pers, [], []⟩).2).1
      (initByNames pers rest (initFirst pers (isMisc nm) l ⟨baseOpts pers, [], []⟩).1
        (initFirst pers (isMisc nm) l ⟨baseOpts pers, [], []⟩).2).2
    exact ⟨t1 ++ t2, by rw [ht2, ht1, h1]; simp⟩
  obtain ⟨t, ht⟩ := key
  refine ⟨t, ht, ?_⟩
  -- the option string is the base followed by the registrations (invariant without hypotheses on l
  -- is not available: use the step-wise accumulation instead)
  have hopts : ∀ (l : List Mod) (s : InitSt), s.opts = baseOpts pers ++ s.regs.flatMap (·.2) →
      (initAll pers l s).2.opts = baseOpts pers ++ (initAll pers l s).2.regs.flatMap (·.2) := by
    intro l
    induction l with
    | nil => intro s h; simpa [initAll] using h
    | cons x xs ih =>
      intro s h
      simp only [initAll]
      apply ih
      rcases (initOne_ok pers x s).cases with ⟨h1, _, _⟩ | ⟨a', _, ho, hr, _⟩
      · rw [h1]; exact h
      · rw [ho, hr, h]; simp [List.flatMap_append]
  have hoptsF : ∀ (p : Mod → Bool) (l : List Mod) (s : InitSt),
      s.opts = baseOpts pers ++ s.regs.flatMap (·.2) →
      (initFirst pers p l s).2.opts = baseOpts pers ++ (initFirst pers p l s).2.regs.flatMap (·.2) := by
    intro p l
    induction l with
    | nil => intro s h; simpa [initFirst] using h
    | cons x xs ih =>
      intro s h
      simp only [initFirst]
      split
      · rcases (initOne_ok pers x s).cases with ⟨h1, _, _⟩ | ⟨a', _, ho, hr, _⟩
        · rw [h1]; exact h
        · rw [ho, hr, h]; simp [List.flatMap_append]
      · exact ih s h
  have hoptsN : ∀ (names : List Str) (l : List Mod) (s : InitSt),
      s.opts = baseOpts pers ++ s.regs.flatMap (·.2) →
      (initByNames pers names l s).2.opts =
        baseOpts pers ++ (initByNames pers names l s).2.regs.flatMap (·.2) := by
    intro names
    induction names with
    | nil => intro l s h; simpa [initByNames] using h
    | cons n ns ih =>
      intro l s h
      simp only [initByNames]
      exact ih _ _ (hoptsF (isMisc n) l s h)
  have hall : (initPhase pers (some misc) l).2.opts =
      baseOpts pers ++ (initPhase pers (some misc) l).2.regs.flatMap (·.2) := by
    unfold initPhase
    exact hopts _ _ (hoptsN _ _ _ (by simp))
  rw [hall, ht]
  simp [List.append_assoc]

/-! the hypotheses are satisfiable: a directory with a duplicate (higher priority wins), a conflict
    and an unrelated module is `Distinct`, and loading it in two orders gives the same module list -/

example :
    let fs := [wMod "a.so" "misc" "alpha" 100 3 'a', wMod "b.so" "misc" "alpha" 150 3 'a',
               wMod "c.so" "misc" "beta" 100 3 'a', wMod "d.so" "rcmd" "t1" 100 3 'W']
    wView (loadAll (wEnv fs)) = [("b.so", true), ("c.so", false), ("d.so", true)] ∧
    wView (loadAll (wEnv fs.reverse)) = [("b.so", true), ("c.so", false), ("d.so", true)] := by
  decide

end PdshVerif.C17
