/-
  C14  Printing a host list is lossless when it fits and safe when it does not.
  PROPERTY THEOREMS ONLY (helper lemmas live in PdshVerif/Hostlist/Print*.lean).
-/
import PdshVerif.Hostlist.Print
import PdshVerif.Hostlist.PrintSpec

namespace PdshVerif.C14
open PdshVerif.Hostlist PdshVerif.Hostlist.Print

/-- the list `aaaaaaa,b,c` -/
def d14List : List HRange :=
  [HRange.mkSingle "aaaaaaa".toList, HRange.mkSingle "b".toList, HRange.mkSingle "c".toList]

/-- D14 witness: the unchanged `hostlist_deranged_string` given 8 bytes for `aaaaaaa,b,c` (11 bytes)
    stores at `buf[8]` and `buf[9]` and returns 9 instead of −1 -/
theorem deranged_writes_in_bounds_false :
    (derangedStringL false 8 d14List).2 = .ok 9 ∧
    (derangedStringL false 8 d14List).1.oob 8 = [9, 9, 8] := by
  decide

end PdshVerif.C14
