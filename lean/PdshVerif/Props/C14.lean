/-
  C14  Printing a host list is lossless when it fits and safe when it does not.
  PROPERTY THEOREMS ONLY (helper lemmas live in PdshVerif/Hostlist/Print*.lean).

  Model: PdshVerif/Hostlist/Print.lean (`hostrange_to_string`, `hostrange_numstr`,
  `_get_bracketed_list`, `_is_bracket_needed`, `hostlist_ranged_string`, `hostlist_deranged_string`
  of hostlist.c and the two fixed callers of opt.c; the caller's buffer is its write log).
  Spec: PdshVerif/Hostlist/PrintSpec.lean (`rangedText`, `derangedText`, `Verdict`), written without
  the model.

  What is proved, for EVERY list of well-formed range records and EVERY buffer size n ≥ 1
  (induction over the record list, no bound on anything):
  * every store of `hostlist_ranged_string`, and of `hostlist_deranged_string` with the repaired
    truncation test (`ret >= m`), has an index < n                       (`*_writes_in_bounds`)
  * a NUL is left inside the n bytes                                      (`*_nul_terminated`)
  * truncation is reported iff text + NUL do not fit; a reported length is the text's length
                                                        (`*_truncation_iff`, `*_reported_length`)
  * the caller reads the text itself when it fits and its first n−1 characters when it does not
    (`*_verdict`: the specification's `Verdict`, which also restates the three facts above)
  * the printed text, given to the parser model of C01 (`create cfg`, for EVERY variant `cfg` of the
    parser), yields the same host sequence (`ranged_roundtrip`, `deranged_roundtrip`; domain
    `RoundDom cfg`: no limit on name lengths once D18/D23 are repaired, `RoundDom.of_repaired`)
  * NARROWER for the expanded form (`deranged_roundtrip_any_size`): no size hypothesis at all — records of
    any size, bracket groups of any length (F14-BIGRANGE concerns the compressed form only, where the two
    limits are the parser's own: `roundtrip_bigrange_false`); `NoMeta` is needed by both forms
    (`roundtrip_meta_false`) and is exactly "no `,` blank tab `[` `]` in a name, single-host names non-empty"
  * `list_push_hostlist`: the unchanged retry loop diverges iff the text needs ≥ 4095 bytes
    (`listPushHostlist_diverges_iff`, D2/F14-XLOOP); the repaired loop always ends and hands on the
    whole text (`listPushHostlist_repaired_terminates`, `_repaired_text`)
  The unchanged `hostlist_deranged_string` (`ret > m`) violates the first, third and fourth point:
  `deranged_writes_in_bounds_false`, `deranged_truncation_iff_false` (kernel-decided witness D14).
  * CALLERS, POLICY-FREE (Hostlist/PrintPolicy.lean): how big a caller's buffer is and whether it retries
    with a bigger one is the caller's business, not the property's.  For EVERY retry policy (any sequence
    of sizes ≥ 1, a fixed buffer included) every attempt stays inside the size it was given
    (`caller_any_policy_in_bounds`), and what `opt_list` finally prints is what one call with the policy's
    DISPLAY CAPACITY prints (`caller_any_policy_result`) — the one thing of the policy that is observable,
    read off the real `pdsh -q` and `-Q` by the check; `list_push_hostlist` as it is now (no ceiling, fix b20e58e)
    hands on the whole text of every list (`listPushGrow_text`)
  * `opt_list` (`-q`, `-Q`) with the literal buffer: nothing is stored outside `wcoll_str[1024]`, for every list
    (`optList_ranged_in_bounds`, `optList_deranged_in_bounds`; these and `list_push_hostlist` are the
    only callers of the printing functions in src/pdsh and src/modules)
  * `hostlist_shift_range` / `hostlist_pop_range` with their RECORD bookkeeping (`shiftRangeRun`,
    `popRangeRun`): as written they take a list apart group by group exactly when no moved group is
    joined by `hostlist_push_range` — in particular on every list whose joinable neighbours are joined
    (`rangeMove_joined`); otherwise the array is left broken (finding F14-RANGEMOVE,
    `rangeMove_miscount_witness`; such lists arise from the public API: `rangeMove_reachable`); with the
    records moved counted (findings/C14-rangemove.patch) every list is fine (`rangeMove_repaired`)
  What is not proved: anything about the compiled C code (tied to the model by the
  correspondence of checks/c14.py); lengths are mathematical integers (the C code uses `int`).
-/
import PdshVerif.Hostlist.PrintRound2
import PdshVerif.Hostlist.PrintCallers
import PdshVerif.Hostlist.PrintMore
import PdshVerif.Hostlist.PrintRangeMove
import PdshVerif.Hostlist.PrintPolicy
import PdshVerif.Hostlist.Edit

namespace PdshVerif.C14
open PdshVerif.Hostlist PdshVerif.Hostlist.Print

/-- the invariant of the data structure: every range record is well formed -/
def GoodRecords (h : HL) : Prop := ∀ r ∈ h.ranges.toList, r.Good

instance (h : HL) : Decidable (GoodRecords h) := by unfold GoodRecords; exact inferInstance

/-! ### no byte outside the size given -/

/-- `hostlist_ranged_string`: every store lies inside the `n` bytes given - for ANY record list
    (well formed or not) and any n ≥ 1 -/
theorem ranged_writes_in_bounds (h : HL) (n : Nat) (hn : 1 ≤ n) :
    (∀ w ∈ (rangedString n h).1.log, w.1 < n) ∧ (rangedString n h).1.neg = false := by
  obtain ⟨hw, _, _⟩ := rangedStringL_spec n hn h.ranges.toList
  obtain ⟨W, hl, hW⟩ := hw.log
  refine ⟨fun w hm => ?_, hw.neg⟩
  unfold rangedString at hm
  rw [hl] at hm
  simp only [Buf.empty, List.append_nil] at hm
  exact (hW w hm).2

/-- `hostlist_deranged_string` with the repaired test `ret >= m`: every store lies inside the `n`
    bytes given -/
theorem deranged_writes_in_bounds (h : HL) (hg : GoodRecords h) (n : Nat) (hn : 1 ≤ n) :
    (∀ w ∈ (derangedString true n h).1.log, w.1 < n) ∧ (derangedString true n h).1.neg = false := by
  obtain ⟨hw, _, _⟩ := derangedStringL_spec n hn h.ranges.toList hg
  obtain ⟨W, hl, hW⟩ := hw.log
  refine ⟨fun w hm => ?_, hw.neg⟩
  unfold derangedString at hm
  rw [hl] at hm
  simp only [Buf.empty, List.append_nil] at hm
  exact (hW w hm).2

/-
  FULL STATEMENT of `deranged_writes_in_bounds` for the unchanged code
  (`derangedString false`, test `ret > m`) is FALSE (D14):
-/
/-- the list `aaaaaaa,b,c` -/
def d14List : HL :=
  ⟨#[HRange.mkSingle "aaaaaaa".toList, HRange.mkSingle "b".toList, HRange.mkSingle "c".toList], 3⟩

/-- D14 witness: the unchanged `hostlist_deranged_string` given 8 bytes for `aaaaaaa,b,c`
    (11 bytes) stores at `buf[8]` and `buf[9]` -/
theorem deranged_writes_in_bounds_false :
    GoodRecords d14List ∧ (derangedString false 8 d14List).1.oob 8 = [9, 9, 8] := by
  decide

/-- D14 witness, second half: the same call returns 9 - not −1 - although 11 + 1 bytes do not fit
    8, and it leaves no NUL inside the 8 bytes; with exactly 7 bytes for the single name `aaaaaaa`
    truncation IS reported but `buf[7]` is stored to -/
theorem deranged_truncation_iff_false :
    (derangedString false 8 d14List).2 = .ok 9 ∧ (PrintSpec.derangedText d14List).length = 11 ∧
    (derangedString false 8 d14List).1.text 8 = none ∧
    (derangedString false 7 ⟨#[HRange.mkSingle "aaaaaaa".toList], 1⟩).2 = .trunc ∧
    (derangedString false 7 ⟨#[HRange.mkSingle "aaaaaaa".toList], 1⟩).1.oob 7 = [7, 7] := by
  decide

/-! ### a terminator is left -/
theorem ranged_nul_terminated (h : HL) (n : Nat) (hn : 1 ≤ n) :
    ∃ k, k < n ∧ (rangedString n h).1.mem k = some NUL := by
  obtain ⟨_, h1, h2⟩ := rangedStringL_spec n hn h.ranges.toList
  by_cases hf : (rangedTextM h.ranges.toList.length 0 h.ranges.toList).length < n
  · exact ⟨_, hf, (h1 hf).2⟩
  · exact ⟨n - 1, by omega, (h2 (by omega)).2⟩

theorem deranged_nul_terminated (h : HL) (hg : GoodRecords h) (n : Nat) (hn : 1 ≤ n) :
    ∃ k, k < n ∧ (derangedString true n h).1.mem k = some NUL := by
  obtain ⟨_, h1, h2⟩ := derangedStringL_spec n hn h.ranges.toList hg
  by_cases hf : (derangedT h.ranges.toList).length < n
  · exact ⟨_, hf, (h1 hf).2⟩
  · exact ⟨n - 1, by omega, (h2 (by omega)).2⟩

/-! ### truncation is reported iff the text does not fit; the reported length is the text's -/
/-- the model's compressed text is the specification's -/
theorem rangedText_eq (h : HL) (hg : GoodRecords h) (hne : NoEmptyName h.ranges.toList) :
    rangedTextM h.ranges.toList.length 0 h.ranges.toList = PrintSpec.rangedText h :=
  rangedTextM_eq _ 0 _ (Nat.le_refl _) hg hne

theorem ranged_truncation_iff (h : HL) (hg : GoodRecords h) (hne : NoEmptyName h.ranges.toList) (n : Nat)
    (hn : 1 ≤ n) : (rangedString n h).2 = .trunc ↔ (PrintSpec.rangedText h).length ≥ n := by
  obtain ⟨_, h1, h2⟩ := rangedStringL_spec n hn h.ranges.toList
  rw [rangedText_eq h hg hne] at h1 h2
  constructor
  · intro ht
    by_cases hf : (PrintSpec.rangedText h).length < n
    · have := (h1 hf).1
      unfold rangedString at ht
      rw [this] at ht
      exact absurd ht (by simp)
    · omega
  · intro hge
    exact (h2 hge).1

theorem ranged_reported_length (h : HL) (hg : GoodRecords h) (hne : NoEmptyName h.ranges.toList) (n : Nat)
    (hn : 1 ≤ n) (k : Nat) (hk : (rangedString n h).2 = .ok k) : k = (PrintSpec.rangedText h).length := by
  obtain ⟨_, h1, h2⟩ := rangedStringL_spec n hn h.ranges.toList
  rw [rangedText_eq h hg hne] at h1 h2
  unfold rangedString at hk
  by_cases hf : (PrintSpec.rangedText h).length < n
  · rw [(h1 hf).1] at hk
    exact (Res.ok.inj hk).symm
  · rw [(h2 (by omega)).1] at hk
    exact absurd hk (by simp)

theorem deranged_truncation_iff (h : HL) (hg : GoodRecords h) (n : Nat) (hn : 1 ≤ n) :
    (derangedString true n h).2 = .trunc ↔ (PrintSpec.derangedText h).length ≥ n := by
  obtain ⟨_, h1, h2⟩ := derangedStringL_spec n hn h.ranges.toList hg
  change (derangedString true n h).2 = .trunc ↔ (derangedT h.ranges.toList).length ≥ n
  constructor
  · intro ht
    by_cases hf : (derangedT h.ranges.toList).length < n
    · have := (h1 hf).1
      unfold derangedString at ht
      rw [this] at ht
      exact absurd ht (by simp)
    · omega
  · intro hge
    exact (h2 hge).1

theorem deranged_reported_length (h : HL) (hg : GoodRecords h) (n : Nat) (hn : 1 ≤ n) (k : Nat)
    (hk : (derangedString true n h).2 = .ok k) : k = (PrintSpec.derangedText h).length := by
  obtain ⟨_, h1, h2⟩ := derangedStringL_spec n hn h.ranges.toList hg
  change k = (derangedT h.ranges.toList).length
  unfold derangedString at hk
  by_cases hf : (derangedT h.ranges.toList).length < n
  · rw [(h1 hf).1] at hk
    exact (Res.ok.inj hk).symm
  · rw [(h2 (by omega)).1] at hk
    exact absurd hk (by simp)

/-! ### the whole verdict of the specification, on what the caller observes -/
/-- COMPRESSED FORM.  For every list of well-formed records without an empty or NUL-holding name and
    every n ≥ 1, the observables of `hostlist_ranged_string(hl, n, buf)` - return value, indices
    stored to, the C string in `buf` - satisfy `PrintSpec.Verdict` for the specification's text:
    no store outside `[0,n)`; fits ⇒ the length is returned and `buf` holds the text; does not
    fit ⇒ −1 is returned and `buf` holds a NUL-terminated proper prefix (its first n−1 characters) -/
theorem ranged_verdict (h : HL) (hg : GoodRecords h) (hne : NoEmptyName h.ranges.toList)
    (hz : NoNul h.ranges.toList) (n : Nat) (hn : 1 ≤ n) :
    PrintSpec.Verdict (PrintSpec.rangedText h) n (obsOf (rangedString n h) n) := by
  obtain ⟨hw, h1, h2⟩ := rangedStringL_spec n hn h.ranges.toList
  have hnz := rangedTextM_no_nul hz h.ranges.toList.length 0
  rw [rangedText_eq h hg hne] at hw h1 h2 hnz
  exact verdict_of_wrote hn hw h1 h2 hnz

/-- EXPANDED FORM, repaired truncation test: the same verdict for `hostlist_deranged_string` -/
theorem deranged_verdict (h : HL) (hg : GoodRecords h) (hz : NoNul h.ranges.toList) (n : Nat) (hn : 1 ≤ n) :
    PrintSpec.Verdict (PrintSpec.derangedText h) n (obsOf (derangedString true n h) n) := by
  obtain ⟨hw, h1, h2⟩ := derangedStringL_spec n hn h.ranges.toList hg
  exact verdict_of_wrote hn hw h1 h2 (derangedT_no_nul hz)

/-! ### lossless when it fits: the text reads back as the same host sequence -/
/-- domain of the round trip, for the variant `cfg` of the parser (Basic.lean: which of its recorded
    defects are repaired): every record `RecOK cfg` (well formed; name text free of `[ ] ,` blank tab
    - `NoMeta` -; single-host names non-empty; at most 16384 hosts per range record; names shorter
    than 1023 bytes ONLY where the parser still has D18 / D23) and at most 10240 ranges per bracket
    (the parser's limits: a list beyond them is finding F14-BIGRANGE) -/
structure RoundDom (cfg : Cfg) (h : HL) : Prop where
  recs : ∀ r ∈ h.ranges.toList, RecOK cfg r
  groups : ∀ g ∈ PrintSpec.groups h.ranges.toList, g.length ≤ Spec.RANGES_LIMIT

theorem RoundDom.good {cfg : Cfg} {h : HL} (hd : RoundDom cfg h) : GoodRecords h :=
  fun r hr => (hd.recs r hr).good
theorem RoundDom.noEmpty {cfg : Cfg} {h : HL} (hd : RoundDom cfg h) : NoEmptyName h.ranges.toList :=
  fun r hr => (hd.recs r hr).nonempty
theorem RoundDom.noMeta {cfg : Cfg} {h : HL} (hd : RoundDom cfg h) : PrintSpec.NoMeta h :=
  fun r hr => ⟨(hd.recs r hr).chars, (hd.recs r hr).nonempty⟩

/-- with D18 and D23 repaired (the code /repo carries now) the domain has NO limit on name lengths:
    well-formed records, `NoMeta`, and the parser's two size limits -/
theorem RoundDom.of_repaired {cfg : Cfg} (h18 : cfg.fixCurTok = true) (h23 : cfg.fixHostBuf = true) {h : HL}
    (hg : GoodRecords h) (hm : PrintSpec.NoMeta h)
    (hsz : ∀ r ∈ h.ranges.toList, r.single = false → r.hi - r.lo < Spec.RANGE_LIMIT)
    (hgs : ∀ g ∈ PrintSpec.groups h.ranges.toList, g.length ≤ Spec.RANGES_LIMIT) : RoundDom cfg h :=
  ⟨fun r hr => ⟨hg r hr, (hm r hr).1, (hm r hr).2, Or.inl ⟨h18, h23⟩, hsz r hr⟩, hgs⟩

/-- COMPRESSED FORM.  Whenever `hostlist_ranged_string` reports a length, the caller's buffer holds
    the specification's compressed text, and `hostlist_create` (parser model of C01, ANY variant `cfg`
    of it) applied to that text succeeds with a list that denotes exactly the hosts of the printed
    list, in order, repeats kept -/
theorem ranged_roundtrip (cfg : Cfg) (h : HL) (hd : RoundDom cfg h) (hz : NoNul h.ranges.toList) (n : Nat)
    (hn : 1 ≤ n) (k : Nat) (hk : (rangedString n h).2 = .ok k) :
    (rangedString n h).1.text n = some (PrintSpec.rangedText h) ∧
    ∃ h', create cfg (PrintSpec.rangedText h) = .ok h' ∧ h'.Good ∧ h'.hosts = h.hosts := by
  constructor
  · obtain ⟨_, s, hs, hfit, hcut⟩ := ranged_verdict h hd.good hd.noEmpty hz n hn
    by_cases hf : PrintSpec.Fits (PrintSpec.rangedText h) n
    · rw [← (hfit hf).2]; exact hs
    · have := (hcut hf).1
      simp only [obsOf, hk] at this
      exact absurd this (by simp)
  · exact ranged_roundtrip_L cfg h.ranges.toList hd.recs hd.groups

/-- EXPANDED FORM, repaired truncation test: the same for `hostlist_deranged_string` -/
theorem deranged_roundtrip (cfg : Cfg) (h : HL) (hd : RoundDom cfg h) (hz : NoNul h.ranges.toList) (n : Nat)
    (hn : 1 ≤ n) (k : Nat) (hk : (derangedString true n h).2 = .ok k) :
    (derangedString true n h).1.text n = some (PrintSpec.derangedText h) ∧
    ∃ h', create cfg (PrintSpec.derangedText h) = .ok h' ∧ h'.Good ∧ h'.hosts = h.hosts := by
  constructor
  · obtain ⟨_, s, hs, hfit, hcut⟩ := deranged_verdict h hd.good hz n hn
    by_cases hf : PrintSpec.Fits (PrintSpec.derangedText h) n
    · rw [← (hfit hf).2]; exact hs
    · have := (hcut hf).1
      simp only [obsOf, hk] at this
      exact absurd this (by simp)
  · exact deranged_roundtrip_L cfg h.ranges.toList hd.good hd.noMeta (fun r hr => (hd.recs r hr).fits)

/-- EXPANDED FORM, NARROWER DOMAIN: the expanded text names every host on its own, so neither of the
    parser's size limits matters — the round trip holds for records of ANY size and bracket groups of any
    length (F14-BIGRANGE concerns the compressed form only); what remains is well-formed records and
    `NoMeta` (with D18 / D23 repaired; `NoMeta` cannot go: `roundtrip_meta_false`) -/
theorem deranged_roundtrip_any_size (cfg : Cfg) (h18 : cfg.fixCurTok = true) (h23 : cfg.fixHostBuf = true) (h : HL)
    (hg : GoodRecords h) (hm : PrintSpec.NoMeta h) (hz : NoNul h.ranges.toList) (n : Nat)
    (hn : 1 ≤ n) (k : Nat) (hk : (derangedString true n h).2 = .ok k) :
    (derangedString true n h).1.text n = some (PrintSpec.derangedText h) ∧
    ∃ h', create cfg (PrintSpec.derangedText h) = .ok h' ∧ h'.Good ∧ h'.hosts = h.hosts := by
  constructor
  · obtain ⟨_, s, hs, hfit, hcut⟩ := deranged_verdict h hg hz n hn
    by_cases hf : PrintSpec.Fits (PrintSpec.derangedText h) n
    · rw [← (hfit hf).2]; exact hs
    · have := (hcut hf).1
      simp only [obsOf, hk] at this
      exact absurd this (by simp)
  · exact deranged_roundtrip_L cfg h.ranges.toList hg hm (fun _ _ => Or.inl ⟨h18, h23⟩)

/-- non-vacuity beyond `RoundDom`: `a[1-20000]` (what `a[1-16384],a[16385-20000]` coalesces to, F14-BIGRANGE)
    lies in the narrower domain -/
example : GoodRecords ⟨#[HRange.mk' ['a'] 1 20000 1], 20000⟩ ∧ PrintSpec.NoMeta ⟨#[HRange.mk' ['a'] 1 20000 1], 20000⟩ ∧
    ¬ ((20000 : Nat) - 1 < Spec.RANGE_LIMIT) := by decide

/-
  FULL STATEMENT of the round trip without `NoMeta` is FALSE (F14-META): the first-level names of a
  two-bracket word are single hosts whose names hold brackets.
-/
/-- the hosts `hostlist_create` (parser model) reads from a text -/
def parsedHosts (cfg : Cfg) (s : Str) : Option (List String) :=
  match create cfg s with
  | .ok h' => some (h'.hosts.map String.ofList)
  | _ => none

/-- what `hostlist_create("foo[1-2]-[0-1]")` holds -/
def metaList : HL := ⟨#[HRange.mkSingle "foo1-[0-1]".toList, HRange.mkSingle "foo2-[0-1]".toList], 2⟩

/-- F14-META witness: both forms print `foo1-[0-1],foo2-[0-1]`, which reads back as FOUR hosts
    (unchanged and repaired parser alike) -/
theorem roundtrip_meta_false :
    GoodRecords metaList ∧
    PrintSpec.rangedText metaList = "foo1-[0-1],foo2-[0-1]".toList ∧
    PrintSpec.derangedText metaList = "foo1-[0-1],foo2-[0-1]".toList ∧
    (rangedString 64 metaList).2 = .ok 21 ∧
    parsedHosts Cfg.repaired "foo1-[0-1],foo2-[0-1]".toList = some ["foo1-0", "foo1-1", "foo2-0", "foo2-1"] ∧
    parsedHosts Cfg.unchanged "foo1-[0-1],foo2-[0-1]".toList = some ["foo1-0", "foo1-1", "foo2-0", "foo2-1"] := by
  decide

/-- F14-BIGRANGE witness: tail coalescing builds a range record of 20000 hosts; its compressed text
    `a[1-20000]` fits 11 bytes and is refused by the parser ("too many hosts") -/
theorem roundtrip_bigrange_false :
    GoodRecords ⟨#[HRange.mk' ['a'] 1 20000 1], 20000⟩ ∧
    (rangedString 11 ⟨#[HRange.mk' ['a'] 1 20000 1], 20000⟩).2 = .ok 10 ∧
    PrintSpec.rangedText ⟨#[HRange.mk' ['a'] 1 20000 1], 20000⟩ = "a[1-20000]".toList ∧
    create Cfg.repaired "a[1-20000]".toList = .null ERANGE .tooMany ∧
    create Cfg.unchanged "a[1-20000]".toList = .null ERANGE .tooMany := by
  decide

/-! ### the two fixed callers in opt.c -/
/-- `opt_list` (`-q`): nothing is stored outside `wcoll_str[1024]` -/
theorem optList_ranged_in_bounds (fixed : Bool) (h : HL) :
    ∀ w ∈ (optList fixed false h).1.log, w.1 < WCOLL_STR := by
  have := (ranged_writes_in_bounds h WCOLL_STR (by decide)).1
  unfold optList
  simp only [Bool.false_eq_true, ↓reduceIte]
  split <;> rename_i b _ he <;> (rw [he] at this; exact this)

/-- `opt_list` (`-Q`, the expanded form, with the repaired truncation test D14): nothing is stored
    outside `wcoll_str[1024]` either - for every list of well-formed records -/
theorem optList_deranged_in_bounds (h : HL) (hg : GoodRecords h) :
    ∀ w ∈ (optList true true h).1.log, w.1 < WCOLL_STR := by
  have := (deranged_writes_in_bounds h hg WCOLL_STR (by decide)).1
  unfold optList
  simp only [↓reduceIte]
  split <;> rename_i b _ he <;> (rw [he] at this; exact this)

/-! ### callers, whatever their buffer policy -/
/-- ANY retry policy of `opt_list` (`-q` compressed / `-Q` expanded with the repaired D14): a first size
    and any sequence of further sizes tried while truncation is reported — every attempt stores only inside
    the size it announced (which is the size of the block the caller holds at that moment) -/
theorem caller_any_policy_in_bounds (expand : Bool) (h : HL) (hg : GoodRecords h) (n : Nat) (rest : List Nat)
    (hpos : ∀ m ∈ n :: rest, 1 ≤ m) :
    ∀ a ∈ callerGrow (printCall true expand h) n rest, ∀ w ∈ a.2.1.log, w.1 < a.1 := by
  intro a ha w hw
  obtain ⟨hm, hc⟩ := callerGrow_sizes _ n rest a ha
  have hn := hpos a.1 hm
  have hb : a.2.1 = (printCall true expand h a.1).1 := by rw [← hc]
  rw [hb] at hw
  unfold printCall at hw
  cases expand with
  | true => exact (deranged_writes_in_bounds h hg a.1 hn).1 w hw
  | false => exact (ranged_writes_in_bounds h a.1 hn).1 w hw

/-- ... and the last attempt — what gets printed — is the one call made with the policy's display capacity
    (the first size at which the function does not report truncation, else the last size): a growing
    caller prints what a fixed buffer of that capacity prints -/
theorem caller_any_policy_result (fixed expand : Bool) (h : HL) (n : Nat) (rest : List Nat) :
    (callerGrow (printCall fixed expand h) n rest).getLast? =
      some (capacity (printCall fixed expand h) n rest,
            printCall fixed expand h (capacity (printCall fixed expand h) n rest)) :=
  callerGrow_eq _ n rest

/-- `opt_list` with a display buffer of ANY size n ≥ 1: nothing is stored outside it -/
theorem optListN_in_bounds (n : Nat) (hn : 1 ≤ n) (expand : Bool) (h : HL) (hg : GoodRecords h) :
    ∀ w ∈ (optListN n true expand h).1.log, w.1 < n := by
  have hr := (ranged_writes_in_bounds h n hn).1
  have hd := (deranged_writes_in_bounds h hg n hn).1
  unfold optListN shown printCall
  cases expand with
  | true => simp only [↓reduceIte]; split <;> rename_i b _ he <;> (rw [he] at hd; exact hd)
  | false => simp only [Bool.false_eq_true, ↓reduceIte]; split <;> rename_i b _ he <;> (rw [he] at hr; exact hr)

/-- the capacity matters only when the text does not fit: EVERY display buffer that holds the text shows the
    same thing, the whole text without a marker (what lets the check run the model with the smallest such
    buffer when the caller's observed capacity is huge) -/
theorem optListN_whole_when_fits (n : Nat) (expand : Bool) (h : HL) (hg : GoodRecords h)
    (hne : NoEmptyName h.ranges.toList) (hz : NoNul h.ranges.toList)
    (hfit : (if expand then PrintSpec.derangedText h else PrintSpec.rangedText h).length < n) :
    (optListN n true expand h).2 = some (if expand then PrintSpec.derangedText h else PrintSpec.rangedText h) := by
  have hn : 1 ≤ n := by omega
  unfold optListN shown printCall
  cases expand with
  | false =>
    simp only [Bool.false_eq_true, ↓reduceIte] at hfit ⊢
    obtain ⟨r1, _⟩ := ranged_read h hg hne hz n hn
    obtain ⟨e1, e2⟩ := r1 hfit
    rw [show rangedString n h = ((rangedString n h).1, .ok (PrintSpec.rangedText h).length) from by rw [← e1]]
    exact e2
  | true =>
    simp only [↓reduceIte] at hfit ⊢
    obtain ⟨_, s, hs, hf, _⟩ := deranged_verdict h hg hz n hn
    have hnt : (derangedString true n h).2 ≠ .trunc := by
      intro ht
      have := (deranged_truncation_iff h hg n hn).mp ht
      omega
    have htext : (derangedString true n h).1.text n = some (PrintSpec.derangedText h) := by
      rw [← (hf hfit).2]; exact hs
    cases hr : derangedString true n h with
    | mk b r =>
      rw [hr] at hnt htext
      cases r with
      | trunc => exact absurd rfl hnt
      | ok k => exact htext

/-- `list_push_hostlist` as /repo has it now (fix b20e58e: double until the text fits, no ceiling): with
    enough rounds for the text (`|text| + 1 < n·2^f`) the WHOLE compressed text is handed on, whatever its
    length — no list is cut any more -/
theorem listPushGrow_text (h : HL) (hg : GoodRecords h) (hne : NoEmptyName h.ranges.toList)
    (hz : NoNul h.ranges.toList) : ∀ (f n : Nat), 2 ≤ n → (PrintSpec.rangedText h).length + 1 < n * 2 ^ f →
    ∃ b, listPushGrow h (f + 1) n = some (b, PrintSpec.rangedText h)
  | 0, n, hn, hf => by
    obtain ⟨r1, _⟩ := ranged_read h hg hne hz (n - 1) (by omega)
    obtain ⟨e1, e2⟩ := r1 (by simp only [Nat.pow_zero, Nat.mul_one] at hf; omega)
    refine ⟨(rangedString (n - 1) h).1, ?_⟩
    simp only [listPushGrow]
    rw [show rangedString (n - 1) h = ((rangedString (n - 1) h).1, .ok (PrintSpec.rangedText h).length) from by
      rw [← e1]]
    simp only [e2, Option.map_some]
  | f + 1, n, hn, hf => by
    obtain ⟨r1, r2⟩ := ranged_read h hg hne hz (n - 1) (by omega)
    by_cases hfit : (PrintSpec.rangedText h).length < n - 1
    · obtain ⟨e1, e2⟩ := r1 hfit
      refine ⟨(rangedString (n - 1) h).1, ?_⟩
      rw [listPushGrow]
      rw [show rangedString (n - 1) h = ((rangedString (n - 1) h).1, .ok (PrintSpec.rangedText h).length) from by
        rw [← e1]]
      simp only [e2, Option.map_some]
    · obtain ⟨e1, _⟩ := r2 (by omega)
      have e : n * 2 ^ (f + 1) = 2 * n * 2 ^ f := by
        rw [Nat.pow_succ, Nat.mul_comm (2 ^ f) 2, ← Nat.mul_assoc, Nat.mul_comm n 2]
      obtain ⟨b, hb⟩ := listPushGrow_text h hg hne hz f (2 * n) (by omega) (by rw [← e]; exact hf)
      refine ⟨b, ?_⟩
      rw [listPushGrow]
      rw [show rangedString (n - 1) h = ((rangedString (n - 1) h).1, .trunc) from by rw [← e1]]
      exact hb

/-- non-vacuity: a policy that doubles from 4 to 16 bytes shows `a[1-3],b5` (9 characters) in full -/
example : capacity (printCall true false ⟨#[HRange.mk' ['a'] 1 3 1, HRange.mk' ['b'] 5 5 1], 4⟩) 4 [8, 16] = 16 := by decide

/-- `list_push_hostlist`, UNCHANGED retry condition `(n*=2 < 0x7fffff)` (D2 / F14-XLOOP): the loop
    never ends exactly when the excluded list's compressed text needs 4095 bytes or more -/
theorem listPushHostlist_diverges_iff (h : HL) (hg : GoodRecords h) (hne : NoEmptyName h.ranges.toList)
    (hz : NoNul h.ranges.toList) :
    (listPushHostlist false h).2 = none ↔ (PrintSpec.rangedText h).length ≥ XLIST_BUF - 1 := by
  obtain ⟨r1, r2⟩ := ranged_read h hg hne hz (XLIST_BUF - 1) (by decide)
  simp only [listPushHostlist, Bool.false_eq_true, ↓reduceIte]
  by_cases hf : (PrintSpec.rangedText h).length < XLIST_BUF - 1
  · obtain ⟨e1, e2⟩ := r1 hf
    rw [show rangedString (XLIST_BUF - 1) h =
      ((rangedString (XLIST_BUF - 1) h).1, .ok (PrintSpec.rangedText h).length) from by rw [← e1]]
    simp only [e2]
    constructor
    · intro hc; exact absurd hc (by simp)
    · intro hc; omega
  · obtain ⟨e1, _⟩ := r2 (by omega)
    rw [show rangedString (XLIST_BUF - 1) h = ((rangedString (XLIST_BUF - 1) h).1, .trunc) from by rw [← e1]]
    simp only [true_iff]
    omega

/-- `list_push_hostlist`, REPAIRED retry condition `((n *= 2) < 0x7fffff)`: the loop always ends
    with a string in the buffer ... -/
theorem listPushHostlist_repaired_terminates (h : HL) (hg : GoodRecords h)
    (hne : NoEmptyName h.ranges.toList) (hz : NoNul h.ranges.toList) :
    ∃ s, (listPushHostlist true h).2 = some s := by
  simp only [listPushHostlist, ↓reduceIte]
  exact listPushLoop_total h hg hne hz 12 XLIST_BUF (by decide)

/-- ... and that string is the WHOLE compressed text of the excluded list, whatever its length below
    4 MiB − 1 (beyond that the ceiling `0x7fffff` stops the doubling and a truncated text is pushed) -/
theorem listPushHostlist_repaired_text (h : HL) (hg : GoodRecords h) (hne : NoEmptyName h.ranges.toList)
    (hz : NoNul h.ranges.toList) (hlen : (PrintSpec.rangedText h).length + 1 < 2 ^ 22) :
    (listPushHostlist true h).2 = some (PrintSpec.rangedText h) := by
  simp only [listPushHostlist, ↓reduceIte]
  exact listPushLoop_text h hg hne hz hlen 12 XLIST_BUF (by decide) (by decide)

/-- `list_push_hostlist`, repaired loop, with the heap block made explicit: EVERY call of
    `hostlist_ranged_string` in the retry loop - whatever the list, however often the buffer was
    doubled - is entered with a block of exactly `n` bytes (`Realloc` follows `n *= 2`), announces
    `n − 1`, and stores only at indices below that -/
theorem listPushHostlist_in_capacity (h : HL) :
    ∀ a ∈ listPushTrace h 12 XLIST_BUF XLIST_BUF,
      a.cap = a.n + 1 ∧ (∀ w ∈ a.buf.log, w.1 < a.n) ∧ a.buf.neg = false :=
  listPushTrace_in_capacity h 12 XLIST_BUF (by decide)

/-! ### bracket grouping as a function of the record list -/
/-- GROUPING.  The groups the specification renders (and, by `rangedText_eq`, the model prints one
    `_get_bracketed_list` call each) are THE partition of the record list into maximal runs: their
    concatenation is the list; inside a group every record may share a bracket with its successor
    (both range records, same prefix); across a boundary the two neighbours may not -/
theorem groups_are_maximal_runs (h : HL) :
    PrintSpec.MaximalRuns h.ranges.toList (PrintSpec.groups h.ranges.toList) :=
  groups_maximalRuns h.ranges.toList

/-- `_is_bracket_needed(hl, i)` answers yes exactly when the group starting at `hr[i]` (the records
    one `_get_bracketed_list` call prints) stands for more than one host -/
theorem bracket_iff_several_hosts (cur : HRange) (rest : List HRange) (hg : ∀ x ∈ cur :: rest, x.Good) :
    isBracketNeeded cur rest.head? = true ↔ ((loopRun cur rest).flatMap HRange.hosts).length > 1 :=
  isBracketNeeded_iff cur rest hg

/-- `hostrange_numstr` never hides a truncation: it returns at most the length of the text it was
    asked to print, exactly that length whenever the value is below the size it was given, and it
    stores only inside `[p, p+m)` -/
theorem numstr_reports_untruncated_length (b : Buf) (p m : Nat) (r : HRange) :
    (hostrangeNumstr b p m r).2 ≤ (numText r).length ∧
    ((hostrangeNumstr b p m r).2 < m → (hostrangeNumstr b p m r).2 = (numText r).length) ∧
    (∀ w ∈ (hostrangeNumstr b p m r).1.log, w ∈ b.log ∨ (p ≤ w.1 ∧ w.1 < p + m)) :=
  numstr_honest b p m r

/-! ### the fixed buffers inside hostlist.c that are filled by the same functions -/
/-- `hostlist_pop_range` (`char buf[MAXHOSTRANGELEN+1]`, size given MAXHOSTRANGELEN): in bounds and
    NUL-terminated (the `strdup(buf)` that follows reads a terminated string), for ANY records -/
theorem popRange_in_bounds (rs : List HRange) :
    (∀ w ∈ (popRangeBuf rs).1.log, w.1 < RANGEBUF) ∧
    ∃ k, k < RANGEBUF ∧ (popRangeBuf rs).1.mem k = some NUL := by
  obtain ⟨h1, _, k, hk, h3⟩ := rangedStringL_safe PdshVerif.Gen.MAXHOSTRANGELEN (by decide) rs
  refine ⟨fun w hw => ?_, k, ?_, h3⟩
  · have := h1 w hw; unfold RANGEBUF; omega
  · unfold RANGEBUF; omega

/-- `hostlist_shift_range` (`char buf[1024]`, size given 1024) -/
theorem shiftRange_in_bounds (rs : List HRange) :
    (∀ w ∈ (shiftRangeBuf rs).1.log, w.1 < SHIFTRANGEBUF) ∧
    ∃ k, k < SHIFTRANGEBUF ∧ (shiftRangeBuf rs).1.mem k = some NUL := by
  obtain ⟨h1, _, h3⟩ := rangedStringL_safe SHIFTRANGEBUF (by decide) rs
  exact ⟨h1, h3⟩

/-- `hostlist_next_range` (`_get_bracketed_list` straight into `char buf[MAXHOSTRANGELEN+1]`) -/
theorem nextRange_in_bounds (cur : HRange) (rest : List HRange) :
    (∀ w ∈ (nextRangeBuf cur rest).1.log, w.1 < RANGEBUF) ∧
    ∃ k, k < RANGEBUF ∧ (nextRangeBuf cur rest).1.mem k = some NUL := by
  obtain ⟨h1, k, hk, h3⟩ := nextRangeBuf_safe cur rest
  refine ⟨fun w hw => ?_, k, ?_, h3⟩
  · have := h1 w hw; unfold RANGEBUF; omega
  · unfold RANGEBUF; omega

/-! ### `hostlist_shift_range` / `hostlist_pop_range`: the record bookkeeping (finding F14-RANGEMOVE) -/
/-- REPAIRED (the records moved are counted): on EVERY record list both functions, called until NULL,
    hand out the bracket groups one by one (`shiftRangeCalls` / `popRangeCalls`: each call's text is that
    of the group joined, printed in bounds by `shiftRange_in_bounds` / `popRange_in_bounds`) and never
    leave a broken array -/
theorem rangeMove_repaired (f : Nat) (rs : List HRange) :
    shiftRangeRun true f rs = (shiftRangeCalls f rs, false) ∧ popRangeRun true f rs = (popRangeCalls f rs, false) :=
  ⟨shiftRangeRun_fixed f rs, popRangeRun_fixed f rs⟩

/-- AS WRITTEN (books kept with `hltmp->nranges`): the same holds on every list in which no record
    continues its predecessor (`Joined`: joinable neighbours are joined) -/
theorem rangeMove_joined (f : Nat) (rs : List HRange) (hj : Joined rs) :
    shiftRangeRun false f rs = (shiftRangeCalls f rs, false) ∧ popRangeRun false f rs = (popRangeCalls f rs, false) :=
  ⟨shiftRangeRun_joined f rs hj, popRangeRun_joined f rs hj⟩

example : Joined [HRange.mk' ['f'] 1 2 1, HRange.mk' ['g'] 3 4 1, HRange.mk' ['g'] 6 7 1] := by decide

/-- F14-RANGEMOVE witness: `foo[1-2]`, `foo[3-4]` side by side (what `foo[1-2],x,foo[3-4]` minus `x` leaves):
    as written the first call of either function leaves a broken array; repaired, one call returns the group -/
theorem rangeMove_miscount_witness :
    (shiftRangeRun false 3 [HRange.mk' ['f'] 1 2 1, HRange.mk' ['f'] 3 4 1]).2 = true ∧
    (popRangeRun false 3 [HRange.mk' ['f'] 1 2 1, HRange.mk' ['f'] 3 4 1]).2 = true ∧
    ((shiftRangeRun true 3 [HRange.mk' ['f'] 1 2 1, HRange.mk' ['f'] 3 4 1]).1.map (·.1)) =
      [[HRange.mk' ['f'] 1 4 1]] ∧
    (shiftRangeRun true 3 [HRange.mk' ['f'] 1 2 1, HRange.mk' ['f'] 3 4 1]).2 = false ∧
    ¬ Joined [HRange.mk' ['f'] 1 2 1, HRange.mk' ['f'] 3 4 1] := by
  decide


/-- such a list comes out of the PUBLIC API: `hostlist_create("f[1-2],x,f[3-4]")`, then
    `hostlist_delete_host(hl, "x")` — `hostlist_delete_range` closes the gap and the two records that
    `hostlist_push` would have joined lie side by side (for every variant of the parser this is what
    the repaired tree gives; stated for `Cfg.repaired`) -/
theorem rangeMove_reachable :
    (match pushE Cfg.repaired EL.new "f[1-2],x,f[3-4]".toList with
     | .ok (_, _, e) => some (deleteHostE Cfg.repaired e ['x']).2.ranges
     | .error _ => none) = some [HRange.mk' ['f'] 1 2 1, HRange.mk' ['f'] 3 4 1] := by
  decide

/-! ### one host name into a heap block -/
/-- `hostlist_next` / `_hostrange_string` (`hostlist_nth`), repaired D17 / D24: the block of
    `strlen(prefix) + max(width, 20) + 1` bytes is never overrun and - every number below 2^64 having
    at most 20 digits - always holds the WHOLE name -/
theorem hostlist_next_whole_name (r : HRange) (k : Nat) (hk : k < U64) (hz : NUL ∉ r.pre) :
    (∀ w ∈ (formatHost (nextSize r) r k).1.log, w.1 < nextSize r) ∧
    (formatHost (nextSize r) r k).1.text (nextSize r) = some (r.pre ++ fmtPad r.width k) := by
  obtain ⟨h1, h2⟩ := formatHost_safe (nextSize r) r k
  refine ⟨h1, ?_⟩
  have h20 := ndig_le_20 hk
  rcases h2 (by unfold nextSize; split <;> omega) with h | h
  · exact h
  · rcases List.mem_append.mp h with h | h
    · exact absurd h hz
    · exact absurd (fmtPad_allDigits _ _ _ h) (by decide)

/-- `hostrange_shift` / `hostrange_pop` (`hostlist_shift`, `hostlist_pop`): the block of
    `strlen(prefix) + width + 16` bytes is never overrun; it holds the whole name when the number has
    at most `width + 15` digits (every record the parser creates: `ShiftFits` of C01) -/
theorem hostrange_shift_in_bounds (r : HRange) (k : Nat) (hz : NUL ∉ r.pre) :
    (∀ w ∈ (formatHost (shiftSize r) r k).1.log, w.1 < shiftSize r) ∧
    (ndig k ≤ r.width + 15 →
      (formatHost (shiftSize r) r k).1.text (shiftSize r) = some (r.pre ++ fmtPad r.width k)) := by
  obtain ⟨h1, h2⟩ := formatHost_safe (shiftSize r) r k
  refine ⟨h1, fun hd => ?_⟩
  rcases h2 (by unfold shiftSize; omega) with h | h
  · exact h
  · rcases List.mem_append.mp h with h | h
    · exact absurd h hz
    · exact absurd (fmtPad_allDigits _ _ _ h) (by decide)

end PdshVerif.C14

/-! non-vacuity: the list `a[1-3,07-09],b5,login` (what `hostlist_create` builds for that text) lies in
    the domain of every theorem above; its two texts -/
section Examples
open PdshVerif.Hostlist PdshVerif.Hostlist.Print PdshVerif.C14

def exampleList : HL :=
  ⟨#[HRange.mk' ['a'] 1 3 1, HRange.mk' ['a'] 7 9 2, HRange.mk' ['b'] 5 5 1, HRange.mkSingle "login".toList], 8⟩

example : RoundDom Cfg.unchanged exampleList := by
  refine ⟨?_, by decide⟩
  intro r hr
  simp only [exampleList, List.mem_cons, List.not_mem_nil, or_false] at hr
  rcases hr with rfl | rfl | rfl | rfl <;> exact ⟨by decide, by decide, by decide, by decide, by decide⟩

example : RoundDom Cfg.repaired exampleList :=
  RoundDom.of_repaired rfl rfl (by decide) (by decide) (by decide) (by decide)

example : NoNul exampleList.ranges.toList := by
  intro r hr
  simp only [exampleList, List.mem_cons, List.not_mem_nil, or_false] at hr
  rcases hr with rfl | rfl | rfl | rfl <;> decide

example : String.ofList (PrintSpec.rangedText exampleList) = "a[1-3,07-09],b5,login" := by decide
example : String.ofList (PrintSpec.derangedText exampleList) = "a1,a2,a3,a07,a08,a09,b5,login" := by decide
example : (rangedString 22 exampleList).2 = .ok 21 ∧ (rangedString 21 exampleList).2 = .trunc := by decide
example : (rangedString 21 exampleList).1.text 21 = some "a[1-3,07-09],b5,logi".toList := by decide
end Examples
