/-
  C01  A host expression targets exactly its mathematical expansion.
  PROPERTY THEOREMS ONLY (helper lemmas live in PdshVerif/Hostlist/Lemmas*.lean).

  Model: PdshVerif/Hostlist/{Basic,Push,Parse,Iter,Cli}.lean (hostlist.c, opt.c wcoll_expand and
  wcoll_arg_process, split.c list_split).  Spec: PdshVerif/Hostlist/Spec.lean (`expand₁`,
  `expand₂`, written without the model).

  The model is parametrised by `cfg : Cfg` (which recorded defects the source still carries; the
  driver uses the variant PROBED from /repo on every run).  Every theorem holds for ALL variants;
  a domain restriction that is a defect is an explicit hypothesis of the form
  "the repairing switch is on ∨ the input avoids the defect" (`wordDom cfg`, `PrintsFull cfg`),
  so for the repaired variant (= /repo HEAD) the statement is the full one (`iter_all_repaired`,
  `create_render_repaired`), and for `Cfg.unchanged` a `decide`d witness shows it fails without it.

  clause of the property text                       theorem(s)
  ------------------------------------------------  ------------------------------------------------
  prefix[a-b,c]suffix = prefix+n+suffix, order      create_words (token level), create_render (TEXT
   written, width of the low bound as typed,         level: any separator runs; tokenizer proved),
   repeats kept                                      create_render_repaired
  foo1 / foo01 are different hosts                  padding_is_identity, widthEquiv_sound
  plain names pass through unchanged (any name:     plain_name_unchanged
   digit-ending prefixes, purely numeric, > 2^25)
  a second bracket pair is expanded too             wcoll_expand₂, text_expand₂
  "accepted by -w": the WHOLE -w argument           cli_first_split (split.c's comma split never
   (list_split + wcoll_arg_process +                 changes the tokens — EVERY text),
   hostlist_push per comma-word + wcoll_expand)      cli_first_level (= expand₁), cli_targets (= expand₂)
  the hosts dsh() walks / wcoll_expand shifts out   iter_all(_repaired), shift_all
  coalescing push keeps sequence and count          pushRange_hosts, nhosts_eq, pushList_hosts

  EVERY TEXT (no well-formedness hypothesis): the list      create_text (hosts = the independent reader's
   `hostlist_create` returns denotes the spec's expansion    `Spec.classify s`.hosts₁; C15.create_iff_classify
                                                             says exactly which texts are accepted)
  EVERY TEXT, second level: `hostlist_create` then          expand_text (hosts = `Spec.classify s`.hosts₂ when
   `wcoll_expand`; what `dsh()` then walks                   the spec finds no problem at either level), walk_text
  EVERY `-w ARG` TEXT through the real path (`list_split`,  cli_text (= hosts₂ of the argument text)
   `wcoll_arg_process`, per-word push, `wcoll_expand`)
  `ShiftFits` (buffer of `hostrange_shift`) DISCHARGED     create_shift_fits, cli_shift_fits (every text of at
   under a bound on the text length                          most 10^15/16384 ≈ 6·10^10 bytes),
                                                             shift_fits_violation (which lists violate it: one
                                                             record over > 10^15 numbers), text_expand₂_bounded,
                                                             cli_targets_bounded (= expand₂, NO `hf` hypothesis)
  "in -x": `pdsh -w W -x X` from the two TEXTS             w_x_from_texts (= expand₂ W minus the names of
                                                             expand₁ X; through C02's exclusion model)
  "in WCOLL / ^file lines"                                  wfile_from_texts, options_from_texts (any mix of
                                                             words and ^files in -w and -x, WCOLL; through C10's
                                                             reader ∘ C02 ∘ C01 = C10.target_list_end_to_end)
  look-up by name                                           find_of_text (`hostlist_find` = index of the first
                                                             occurrence in the spec's expansion, -1 iff absent)

  NOT PROVED: the -x / ^file theorems hold inside the decidable domain `Targets.targetDomain` of
  C10 ∘ C02 ∘ C01's end-to-end theorem (exclusion names with digit tails ≤ 2^25 — beyond: open
  finding F01-X-BIGSUFFIX —, readable files of well-formed words); `find_of_text` likewise needs
  `SmallName`; `cli_text` asks that the only white space in the argument is blank / tab (a
  comma-word starting with \n \v \f \r loses it in `wcoll_arg_process` but not in
  `hostlist_create`) and that the comma-words are plain target words; when the spec DOES find a
  second-level problem the outcome (exit, or a name silently dropped for > 10240 ranges) is
  correspondence only;
  words with `:` / `@` / leading `-` `^` `/` are other options' syntax (C02, C09, C10).
-/
import PdshVerif.Hostlist.Lemmas
import PdshVerif.Hostlist.LemmasParse
import PdshVerif.Hostlist.LemmasIter
import PdshVerif.Hostlist.LemmasCreate
import PdshVerif.Hostlist.LemmasTok
import PdshVerif.Hostlist.LemmasShift
import PdshVerif.Hostlist.LemmasExpand
import PdshVerif.Hostlist.LemmasCli
import PdshVerif.Hostlist.LemmasClassify
import PdshVerif.Hostlist.LemmasClassify2
import PdshVerif.Hostlist.LemmasShiftFits
import PdshVerif.Hostlist.LemmasContexts
import PdshVerif.Hostlist.LemmasFindText

namespace PdshVerif.C01
open PdshVerif.Hostlist PdshVerif.Gen

/-- `_width_equiv`: when two widths are declared compatible they are made equal, and the in-place
    rewrite changes the printed form of no number ≥ n (first range) resp. ≥ m (second range):
    coalescing never renames a host, so foo1 / foo01 are never identified. -/
theorem widthEquiv_sound {n wn m wm wn' wm' : Nat} (h : widthEquiv n wn m wm = (true, wn', wm')) :
    (∀ k, n ≤ k → fmtPad wn' k = fmtPad wn k) ∧ (∀ k, m ≤ k → fmtPad wm' k = fmtPad wm k) ∧
      wn' = wm' :=
  Hostlist.widthEquiv_sound h

/-- zero padding is part of the name: two printed numbers are equal only if the numbers are equal
    (and then the padded lengths agree), so `foo1` and `foo01` denote different hosts everywhere -/
theorem padding_is_identity {w w' n n' : Nat} (h : fmtPad w n = fmtPad w' n') :
    n = n' ∧ max w (ndig n) = max w' (ndig n') := by
  constructor
  · have := congrArg dval h
    rwa [dval_fmtPad, dval_fmtPad] at this
  · have := congrArg List.length h
    rwa [fmtPad_length, fmtPad_length] at this

/-- `hostlist_push_range`: with or without tail coalescing, pushing a record appends exactly the
    hosts that record denotes — order kept, repeats kept. -/
theorem pushRange_hosts (h : HL) (r : HRange) (hg : h.Good) (hr : r.Good) :
    (pushRange h r).hosts = h.hosts ++ r.hosts :=
  Hostlist.pushRange_hosts h r hg.1 hr

/-- the cached counter `nhosts` (`hostlist_count`) stays equal to the number of denoted hosts -/
theorem nhosts_eq (h : HL) (r : HRange) (hg : h.Good) (hr : r.Good) :
    (pushRange h r).Good ∧ (pushRange h r).count = (h.hosts ++ r.hosts).length := by
  have g := pushRange_good h r hg hr
  refine ⟨g, ?_⟩
  rw [← Hostlist.pushRange_hosts h r hg.1 hr]
  exact g.2

/-- `hostlist_push_list` (what `hostlist_push` does with a parsed expression): concatenation -/
theorem pushList_hosts (h1 h2 : HL) (g1 : h1.Good) (g2 : h2.Good) :
    (pushList h1 h2).Good ∧ (pushList h1 h2).hosts = h1.hosts ++ h2.hosts :=
  Hostlist.pushList_hosts h1 h2 g1 g2

/-- plain names pass through unchanged — for EVERY name: digit tails ≤ 2^25 become a one-element
    range that re-prints exactly as typed (leading zeros included), names that end in a larger
    number, purely numeric names and names without digits are kept verbatim -/
theorem plain_name_unchanged (h : HL) (hg : h.Good) (name : Str) :
    (pushHost h name).Good ∧ (pushHost h name).hosts = h.hosts ++ [name] := by
  have hr := hostRecord_spec name
  exact ⟨pushRange_good _ _ hg hr.1, by rw [pushHost, Hostlist.pushRange_hosts _ _ hg.1 hr.1, hr.2]⟩

/-- TOKEN-LEVEL REFINEMENT.  For every well-formed expression (C01's quantifier: any words, any
    prefix/suffix text, any list of ranges lo ≤ hi, hi − lo < 16384, any widths, overlaps,
    repeats; `wordDom` = outside the recorded defects D18/D23/D25) the parser loop of
    `hostlist_create` over the rendered words succeeds and the list it builds denotes exactly
    `expand₁`: prefix+n+suffix for every n of every range in the order written, each n printed
    with the zero-padded width of the low bound as typed, repeats kept. -/
theorem create_words (cfg : Cfg) (e : Spec.Expr) (hw : Spec.WF e = true) (hd : ∀ w ∈ e, wordDom cfg w) :
    ∃ st, createToks cfg ⟨HL.new, 0⟩ (e.map Spec.renderWord) = .ok st ∧ st.hl.Good ∧
      st.hl.hosts = Spec.expand₁ e ∧ st.hl.count = (Spec.expand₁ e).length := by
  have hw' : ∀ w ∈ e, w.WF = true := by
    unfold Spec.WF at hw; simpa [List.all_eq_true] using hw
  obtain ⟨st, h1, h2, h3⟩ := createToks_words cfg e ⟨HL.new, 0⟩ hw' hd HL.new_good
  rw [HL.new_hosts, List.nil_append] at h3
  exact ⟨st, h1, h2, h3, by rw [HL.count, h2.2, h3]⟩

/-- STRING LEVEL.  `hostlist_create` on the TEXT of a well-formed expression — words rendered as
    `pre[lo-hi,..]suffix`, separated by arbitrary non-empty runs of `,` blank tab, optional runs at
    both ends — returns a list that denotes exactly the mathematical expansion `expand₁`. -/
theorem create_render (cfg : Cfg) (lead : Str) (items : List (Spec.Word × Str))
    (hl : lead.all Spec.sepChar = true) (hok : Spec.sepsOK items = true)
    (hw : ∀ p ∈ items, p.1.WF = true) (hd : ∀ p ∈ items, wordDom cfg p.1) :
    ∃ h, create cfg (Spec.render lead items) = .ok h ∧ h.Good ∧
      h.hosts = Spec.expand₁ (items.map (·.1)) ∧
      h.count = (Spec.expand₁ (items.map (·.1))).length := by
  obtain ⟨st, h1, h2, h3⟩ := createToks_words cfg (items.map (·.1)) ⟨HL.new, 0⟩
    (fun w hw' => by obtain ⟨p, hp, rfl⟩ := List.mem_map.mp hw'; exact hw p hp)
    (fun w hw' => by obtain ⟨p, hp, rfl⟩ := List.mem_map.mp hw'; exact hd p hp) HL.new_good
  rw [HL.new_hosts, List.nil_append] at h3
  refine ⟨st.hl, ?_, h2, h3, by rw [HL.count, h2.2, h3]⟩
  unfold create createFrom
  rw [tokens_render items lead hl hok hw]
  have : (items.map fun p => Spec.renderWord p.1) = (items.map (·.1)).map Spec.renderWord := by
    rw [List.map_map]; rfl
  rw [this, h1]

/-- SECOND LEVEL.  opt.c `wcoll_expand` — shift every host out, push it again as an expression of
    its own — turns a working collective that denotes the FIRST-level expansion of a well-formed
    expression into one that denotes its full mathematical expansion `expand₂` (a second bracket
    pair in a word is expanded for every name of the first; plain names come back as themselves).
    `hd2`: the first-level names are inside the domain of the parser theorem again (`reword w` are
    those names as words: D18 plain names shorter than 1023 bytes, D23/D25 for the second group);
    `ShiftFits`: numbers fit the buffer `hostrange_shift` allocates. -/
theorem wcoll_expand₂ (cfg : Cfg) (e : Spec.Expr) (hw : Spec.WF e = true)
    (hd2 : ∀ w ∈ e, ∀ w' ∈ reword w, wordDom cfg w') (h : HL) (hg : h.Good)
    (hf : ∀ r ∈ h.ranges.toList, r.ShiftFits) (hh : h.hosts = Spec.expand₁ e) :
    ∃ h', wcollExpand cfg h = .ok h' ∧ h'.Good ∧ h'.hosts = Spec.expand₂ e :=
  wcollExpand_expand₂ cfg e hw hd2 h hg hf hh

/-- TEXT TO TARGETS: `hostlist_create` on the text of a well-formed expression followed by
    `wcoll_expand` yields exactly `expand₂` of the expression -/
theorem text_expand₂ (cfg : Cfg) (lead : Str) (items : List (Spec.Word × Str))
    (hl : lead.all Spec.sepChar = true) (hok : Spec.sepsOK items = true)
    (hw : ∀ p ∈ items, p.1.WF = true) (hd : ∀ p ∈ items, wordDom cfg p.1)
    (hd2 : ∀ p ∈ items, ∀ w' ∈ reword p.1, wordDom cfg w')
    (hf : ∀ h, create cfg (Spec.render lead items) = .ok h → ∀ r ∈ h.ranges.toList, r.ShiftFits) :
    ∃ h h', create cfg (Spec.render lead items) = .ok h ∧ wcollExpand cfg h = .ok h' ∧ h'.Good ∧
      h'.hosts = Spec.expand₂ (items.map (·.1)) := by
  obtain ⟨h, hc, hg, hh, _⟩ := create_render cfg lead items hl hok hw hd
  have hwf : Spec.WF (items.map (·.1)) = true := by
    unfold Spec.WF
    simp only [List.all_map, List.all_eq_true]
    intro p hp; exact hw p hp
  obtain ⟨h', h1, h2, h3⟩ := wcoll_expand₂ cfg (items.map (·.1)) hwf
    (fun w hw' w' hw'' => by obtain ⟨p, hp, rfl⟩ := List.mem_map.mp hw'; exact hd2 p hp w' hw'')
    h hg (hf h hc) hh
  exact ⟨h, h', hc, h1, h2, h3⟩

/-- THE COMMAND LINE'S FIRST SPLIT IS INVISIBLE — for EVERY text: split.c `list_split(",", arg)`
    (the same `_next_tok`, separator ",") followed by `hostlist_create`'s tokenizer on every
    comma-word finds exactly the tokens `hostlist_create` finds in the whole argument -/
theorem cli_first_split (arg : Str) :
    (tokens [','] arg).flatMap (tokens hlSep) = tokens hlSep arg :=
  split_then_tokens arg

/-- FIRST LEVEL OF `-w ARG`: on the TEXT of a well-formed expression, `list_split` +
    `wcoll_arg_process` + `hostlist_push` of every comma-word build a working collective that
    denotes `expand₁` (`cliWord`: the words are plain target words — no `:` `@`, not starting with
    white space, `-`, `^`, `/`, which is other options' syntax) -/
theorem cli_first_level (cfg : Cfg) (lead : Str) (items : List (Spec.Word × Str))
    (hl : lead.all Spec.sepChar = true) (hok : Spec.sepsOK items = true)
    (hw : ∀ p ∈ items, p.1.WF = true) (hd : ∀ p ∈ items, wordDom cfg p.1)
    (hcl : ∀ p ∈ items, cliWord p.1) :
    ∃ h, cliPushWords cfg HL.new (tokens [','] (Spec.render lead items)) = .ok (some h) ∧ h.Good ∧
      h.hosts = Spec.expand₁ (items.map (·.1)) :=
  cliPushWords_render cfg lead items hl hok hw hd hcl

/-- THE WHOLE `-w ARG` PATH (first split ∘ per-word `hostlist_create` ∘ `wcoll_expand`): the
    working collective pdsh ends up with for the text of a well-formed expression denotes exactly
    its mathematical expansion `expand₂` -/
theorem cli_targets (cfg : Cfg) (lead : Str) (items : List (Spec.Word × Str))
    (hl : lead.all Spec.sepChar = true) (hok : Spec.sepsOK items = true)
    (hw : ∀ p ∈ items, p.1.WF = true) (hd : ∀ p ∈ items, wordDom cfg p.1)
    (hcl : ∀ p ∈ items, cliWord p.1)
    (hd2 : ∀ p ∈ items, ∀ w' ∈ reword p.1, wordDom cfg w')
    (hf : ∀ h, cliPushWords cfg HL.new (tokens [','] (Spec.render lead items)) = .ok (some h) →
      ∀ r ∈ h.ranges.toList, r.ShiftFits) :
    ∃ h', cliTargets cfg (Spec.render lead items) = .ok (some h') ∧ h'.Good ∧
      h'.hosts = Spec.expand₂ (items.map (·.1)) :=
  cliTargets_render cfg lead items hl hok hw hd hcl hd2 hf

/-- STRING LEVEL, REPAIRED VARIANT: with D18 and D23 repaired the only restriction left is that no
    range reaches 2^64-1 (such a range is refused there, see C15.range_limit) -/
theorem create_render_repaired (cfg : Cfg) (h18 : cfg.fixCurTok = true) (h23 : cfg.fixHostBuf = true)
    (lead : Str) (items : List (Spec.Word × Str))
    (hl : lead.all Spec.sepChar = true) (hok : Spec.sepsOK items = true)
    (hw : ∀ p ∈ items, p.1.WF = true)
    (hd : ∀ p ∈ items, ∀ pre g1 mid g2, p.1 = .br pre g1 mid g2 → ∀ r ∈ g1, r.hi < ULONG_MAX) :
    ∃ h, create cfg (Spec.render lead items) = .ok h ∧ h.Good ∧
      h.hosts = Spec.expand₁ (items.map (·.1)) := by
  obtain ⟨h, e1, e2, e3, _⟩ := create_render cfg lead items hl hok hw (fun p hp => by
    cases hpw : p.1 with
    | plain n => simp [wordDom, h18]
    | br pre g1 mid g2 => exact ⟨hd p hp pre g1 mid g2 hpw, fun _ _ => Or.inl h23⟩)
  exact ⟨h, e1, e2, e3⟩

/-- ITERATION.  A fresh iterator (`hostlist_next` until NULL — what `dsh()` walks) over a good
    list yields exactly the denoted hosts, provided `hostlist_next` prints the numbers in full:
    the repaired variant (D17), or numbers of at most 14 characters. -/
theorem iter_all (cfg : Cfg) (h : HL) (hg : h.Good) (hn : ∀ r ∈ h.ranges.toList, r.PrintsFull cfg)
    (n : Nat) (hlen : h.hosts.length ≤ n) : iterAll cfg h n = h.hosts := by
  rw [iterAll_eq cfg h hg.1 hn n, List.take_of_length_le hlen]

/-- ITERATION, REPAIRED VARIANT (full strength, no restriction on widths) -/
theorem iter_all_repaired (cfg : Cfg) (h17 : cfg.fixIterSuffix = true) (h : HL) (hg : h.Good) (n : Nat)
    (hlen : h.hosts.length ≤ n) : iterAll cfg h n = h.hosts :=
  iter_all cfg h hg (fun _ _ => Or.inl h17) n hlen

/-- SHIFT.  `hostlist_shift` until NULL (the loop of `wcoll_expand`) on a good list hands out
    exactly the denoted hosts, in order, and never meets the NULL range record (`ShiftFits`: the
    numbers fit the `strlen(prefix)+width+16` bytes `hostrange_shift` allocates — true of every
    record whose number has at most width+15 digits) -/
theorem shift_all (h : HL) (hg : h.Good) (hf : ∀ r ∈ h.ranges.toList, r.ShiftFits) (n : Nat)
    (hlen : h.hosts.length ≤ n) : shiftAll h n = some h.hosts := by
  rw [shiftAll_eq h hg hf n, List.take_of_length_le hlen]

/-
  `iter_all` without `PrintsFull` is FALSE of the unchanged code (D17):
  `hostlist_next` keeps 14 characters of the number (`char suffix[16]; snprintf(suffix, 15, ..)`).
-/
/-- D17 witness: `a[000000000000001-2]` (width 15) iterates `a00000000000000` twice although the
    list denotes a000000000000001, a000000000000002 -/
theorem iter_all_false :
    (⟨#[HRange.mk' ['a'] 1 2 15], 2⟩ : HL).Good ∧
    (⟨#[HRange.mk' ['a'] 1 2 15], 2⟩ : HL).hosts =
      ["a000000000000001".toList, "a000000000000002".toList] ∧
    iterAll Cfg.unchanged ⟨#[HRange.mk' ['a'] 1 2 15], 2⟩ 5 =
      ["a00000000000000".toList, "a00000000000000".toList] := by
  decide

/-- D18 (unrepaired variants): EVERY bracket-less word of ≥ 1023 bytes is read from an
    unterminated `cur_tok` (`strncpy(cur_tok, tok, 1023)` writes no terminator) -/
theorem plain_word_long_ub (cfg : Cfg) (h18 : cfg.fixCurTok = false) (st : PSt) (tok : Str)
    (h1 : '[' ∉ tok) (h2 : ']' ∉ tok)
    (hlen : CURTOK - 1 ≤ tok.length) : pushTok cfg st tok = .ub "cur_tok unterminated" := by
  unfold pushTok
  rw [cutAt_none h1]
  have : tok.contains ']' = false := by simpa using h2
  have hc : ¬ tok.length < CURTOK - 1 := by omega
  simp only [this, Bool.false_eq_true, ↓reduceIte, curTok, hc, h18, Bool.false_or, decide_false]

/-- D25 witness: a list built from `a[18446744073709551614-18446744073709551615]` (two hosts)
    loses its only range record at the first `hostlist_shift` while one host is still counted:
    the next shift dereferences `hl->hr[0] == NULL` -/
theorem shift_crash_witness :
    shiftCrashes (shift ⟨#[HRange.mk' ['a'] (ULONG_MAX - 1) ULONG_MAX 20], 2⟩).2 = true := by
  decide

/-! ## every text; `ShiftFits` discharged; the other contexts; look-up by name -/

/-- EVERY TEXT.  Whatever byte string `hostlist_create` accepts (which ones: C15.create_iff_classify),
    the list it returns is well formed and denotes exactly the expansion the independent reader
    `Spec.classify` computes from the text: every word in the order written, prefix + each number
    of each range (width of the low bound as typed, repeats kept) + the rest of the word verbatim -/
theorem create_text (cfg : Cfg) (h15 : cfg.fixUlongMax = true) (h16 : cfg.fixDigits = true)
    (h18 : cfg.fixCurTok = true) (h22 : cfg.fixSuffixBal = true) (h23 : cfg.fixHostBuf = true)
    (s : Str) (h : HL) (hc : create cfg s = .ok h) :
    h.Good ∧ h.hosts = Spec.expandStr₁ s ∧ h.count = (Spec.expandStr₁ s).length :=
  create_hosts_classify cfg h15 h16 h18 h22 h23 s h hc

/-- EVERY TEXT, SECOND LEVEL.  Whatever byte string `hostlist_create` accepted: if the independent
    reader finds no problem in the first-level names either (`problems₂`) and no bound of a range
    within the limits reaches 2^64-1 (`note64`), `wcoll_expand` (shift every host out, push it
    again as an expression of its own) leaves a well-formed list that denotes exactly the spec's
    FULL expansion `hosts₂` — a second pair of brackets expanded for every name of the first, in
    order, plain names unchanged.  (`hlen`: the text is at most 10^15/16384 bytes, which gives
    `ShiftFits`.) -/
theorem expand_text (cfg : Cfg) (h15 : cfg.fixUlongMax = true) (h16 : cfg.fixDigits = true)
    (h18 : cfg.fixCurTok = true) (h22 : cfg.fixSuffixBal = true) (h23 : cfg.fixHostBuf = true)
    (s : Str) (h : HL) (hc : create cfg s = .ok h) (hlen : MAX_RANGE * s.length ≤ 10 ^ 15)
    (hp2 : (Spec.classify s).problems₂ = []) (h64 : (Spec.classify s).note64 = false) :
    ∃ h', wcollExpand cfg h = .ok h' ∧ h'.Good ∧ h'.hosts = Spec.expandStr₂ s :=
  Hostlist.expand_text cfg h15 h16 h18 h22 h23 s h hc hlen hp2 h64

/-- EVERY TEXT, WHAT `dsh()` WALKS: under the hypotheses of `expand_text` (and D17 repaired) the
    iterator over the working collective (`hostlist_next` until NULL) hands out exactly the spec's
    full expansion of the text, in order, and then stops -/
theorem walk_text (cfg : Cfg) (h15 : cfg.fixUlongMax = true) (h16 : cfg.fixDigits = true)
    (h17 : cfg.fixIterSuffix = true)
    (h18 : cfg.fixCurTok = true) (h22 : cfg.fixSuffixBal = true) (h23 : cfg.fixHostBuf = true)
    (s : Str) (h : HL) (hc : create cfg s = .ok h) (hlen : MAX_RANGE * s.length ≤ 10 ^ 15)
    (hp2 : (Spec.classify s).problems₂ = []) (h64 : (Spec.classify s).note64 = false)
    (n : Nat) (hn : (Spec.expandStr₂ s).length ≤ n) :
    ∃ h', wcollExpand cfg h = .ok h' ∧ iterAll cfg h' n = Spec.expandStr₂ s := by
  obtain ⟨h', e, g, hh⟩ := expand_text cfg h15 h16 h18 h22 h23 s h hc hlen hp2 h64
  refine ⟨h', e, ?_⟩
  rw [iter_all_repaired cfg h17 h' g n (by rw [hh]; exact hn), hh]

/-- EVERY `-w ARGUMENT`, THE WHOLE PATH: split.c `list_split`, opt.c `wcoll_arg_process` (leading
    `isspace` skipped), `hostlist_push` of every comma-word, `wcoll_expand`.  `hpl`: the comma-words
    are plain target words (no `:` `@`, no leading `-` `^` `/`: other options' syntax); `hsp`: the
    only white space in the argument is blank / tab.  If the independent reader finds no problem
    at either level and no bound reaches 2^64-1, the working collective denotes exactly the spec's
    full expansion of the ARGUMENT TEXT — no AST, no well-formedness hypothesis on the text. -/
theorem cli_text (cfg : Cfg) (h15 : cfg.fixUlongMax = true) (h16 : cfg.fixDigits = true)
    (h18 : cfg.fixCurTok = true) (h22 : cfg.fixSuffixBal = true) (h23 : cfg.fixHostBuf = true)
    (arg : Str) (hpl : ∀ cw ∈ tokens [','] arg, plainWord cw = true)
    (hsp : ∀ c ∈ arg, isSpace c = true → isSep hlSep c = true)
    (hlen : MAX_RANGE * arg.length ≤ 10 ^ 15)
    (h0 : (Spec.classify arg).problems = []) (hp2 : (Spec.classify arg).problems₂ = [])
    (h64 : (Spec.classify arg).note64 = false) :
    ∃ h', cliTargets cfg arg = .ok (some h') ∧ h'.Good ∧ h'.hosts = Spec.expandStr₂ arg :=
  cliTargets_text cfg h15 h16 h18 h22 h23 arg hpl hsp hlen h0 hp2 h64

/-- `ShiftFits` DISCHARGED: every record of every list `hostlist_create` builds from a text of at
    most 10^15/16384 (≈ 6.1·10^10) bytes fits the buffer `hostrange_shift` allocates
    (argv strings are ≤ 128 KiB, WCOLL lines ≤ 2 KiB) -/
theorem create_shift_fits (cfg : Cfg) (h15 : cfg.fixUlongMax = true) (h16 : cfg.fixDigits = true)
    (s : Str) (h : HL) (hc : create cfg s = .ok h) (hlen : MAX_RANGE * s.length ≤ 10 ^ 15) :
    ∀ r ∈ h.ranges.toList, r.ShiftFits :=
  create_shiftFits cfg h15 h16 s h hc hlen

/-- the same for the working collective of `-w ARG` (what `wcoll_expand` shifts) -/
theorem cli_shift_fits (cfg : Cfg) (h15 : cfg.fixUlongMax = true) (h16 : cfg.fixDigits = true)
    (arg : Str) (h : HL) (hp : cliPushWords cfg HL.new (tokens [','] arg) = .ok (some h))
    (hlen : MAX_RANGE * arg.length ≤ 10 ^ 15) : h.Good ∧ ∀ r ∈ h.ranges.toList, r.ShiftFits :=
  cli_shiftFits cfg h15 h16 arg h hp hlen

/-- PRECISELY WHICH LISTS VIOLATE `ShiftFits`: among the well-formed lists whose widths cover their
    low bounds (`Tight`: all the parser builds, `create_tight`) only those with ONE record spanning
    at least 10^15 numbers — more than 10^15 hosts, a chain of > 6·10^10 coalescing ranges -/
theorem shift_fits_violation (h : HL) (hg : h.Good) (ht : h.Tight) (r : HRange)
    (hr : r ∈ h.ranges.toList) (hv : ¬ r.ShiftFits) :
    r.single = false ∧ 10 ^ 15 ≤ r.hi - r.lo ∧ 10 ^ 15 < h.hosts.length :=
  shiftFits_violation_needs h hg ht r hr hv

/-- TEXT TO TARGETS without the `ShiftFits` hypothesis (D15/D25, D16 repaired; text ≤ 6·10^10 bytes) -/
theorem text_expand₂_bounded (cfg : Cfg) (h15 : cfg.fixUlongMax = true) (h16 : cfg.fixDigits = true)
    (lead : Str) (items : List (Spec.Word × Str))
    (hl : lead.all Spec.sepChar = true) (hok : Spec.sepsOK items = true)
    (hw : ∀ p ∈ items, p.1.WF = true) (hd : ∀ p ∈ items, wordDom cfg p.1)
    (hd2 : ∀ p ∈ items, ∀ w' ∈ reword p.1, wordDom cfg w')
    (hlen : MAX_RANGE * (Spec.render lead items).length ≤ 10 ^ 15) :
    ∃ h h', create cfg (Spec.render lead items) = .ok h ∧ wcollExpand cfg h = .ok h' ∧ h'.Good ∧
      h'.hosts = Spec.expand₂ (items.map (·.1)) :=
  text_expand₂ cfg lead items hl hok hw hd hd2
    (fun h hc => create_shiftFits cfg h15 h16 _ h hc hlen)

/-- THE WHOLE `-w ARG` PATH without the `ShiftFits` hypothesis: `cli_targets` for every argument of
    at most 6·10^10 bytes -/
theorem cli_targets_bounded (cfg : Cfg) (h15 : cfg.fixUlongMax = true) (h16 : cfg.fixDigits = true)
    (lead : Str) (items : List (Spec.Word × Str))
    (hl : lead.all Spec.sepChar = true) (hok : Spec.sepsOK items = true)
    (hw : ∀ p ∈ items, p.1.WF = true) (hd : ∀ p ∈ items, wordDom cfg p.1)
    (hcl : ∀ p ∈ items, cliWord p.1)
    (hd2 : ∀ p ∈ items, ∀ w' ∈ reword p.1, wordDom cfg w')
    (hlen : MAX_RANGE * (Spec.render lead items).length ≤ 10 ^ 15) :
    ∃ h', cliTargets cfg (Spec.render lead items) = .ok (some h') ∧ h'.Good ∧
      h'.hosts = Spec.expand₂ (items.map (·.1)) :=
  cli_targets cfg lead items hl hok hw hd hcl hd2
    (fun h hp => (cli_shiftFits cfg h15 h16 _ h hp hlen).2)

open PdshVerif.Opt PdshVerif.Opt.Exclude PdshVerif.Opt.Targets in
/-- THE `-x` CONTEXT, FROM THE TEXTS: `pdsh -w W -x X` (W, X: words joined by commas; W well
    formed, one or two pairs of brackets) goes on with exactly expansion(W) minus the names of
    expansion(X): `list_split` of both option texts, `wcoll_arg_process` word by word,
    `hostlist_create`, `wcoll_expand`, `wcoll_apply_excluded` (C02's model, D1/D17/D19/F02-2BR
    repaired = /repo HEAD).  `hdom`: the decidable domain of C10 ∘ C02 ∘ C01's end-to-end theorem -/
theorem w_x_from_texts (cfg : Cfg) (hD1 : cfg.fixDeleteAll = true) (hD17 : cfg.fixIterSuffix = true)
    (hD19 : cfg.fixRemoveDepth = true) (h2Br : cfg.fix2Br = true) (W X : List Spec.Word)
    (hW : ∀ w ∈ W, w.WF = true) (hne : W ≠ [])
    (hpX : ∀ w ∈ X, Wcoll.pieceOK (Spec.renderWord w) = true)
    (hd : Spec.joinComma (W.map Spec.renderWord) ≠ ['-'])
    (hdom : targetDomain cfg .whole [] [] (fun _ _ => none) (fun _ => false) (wSegs W ++ xSegs X) none = true) :
    cliFinal cfg (envOf .whole [] [] (fun _ _ => none) (fun _ => false) (wSegs W ++ xSegs X) none)
        [.w (Spec.joinComma (W.map Spec.renderWord)), .x (Spec.joinComma (X.map Spec.renderWord))] =
      .ok ((Spec.expand₂ W).filter fun h => !(Spec.expand₁ X).contains h) :=
  Hostlist.w_x_from_texts cfg hD1 hD17 hD19 h2Br W X hW hne hpX hd hdom

open PdshVerif.Opt PdshVerif.Opt.Exclude PdshVerif.Opt.Targets in
/-- THE FILE CONTEXT, FROM THE TEXTS: `pdsh -w ^PATH -x X` — the words C10's reader finds in the
    file (includes inlined) expand exactly like `-w` words -/
theorem wfile_from_texts (cfg : Cfg) (hD1 : cfg.fixDeleteAll = true) (hD17 : cfg.fixIterSuffix = true)
    (hD19 : cfg.fixRemoveDepth = true) (h2Br : cfg.fix2Br = true) (mode : Wcoll.LineMode) (fs : Wcoll.FS)
    (path : Str) (ws X : List Spec.Word) (hpp : Wcoll.pieceOK ('^' :: path) = true)
    (hpX : ∀ w ∈ X, Wcoll.pieceOK (Spec.renderWord w) = true)
    (hdom : targetDomain cfg mode fs [] (fun _ _ => none) (fun _ => false) ([Seg.tfile path ws] ++ xSegs X) none = true) :
    cliFinal cfg (envOf mode fs [] (fun _ _ => none) (fun _ => false) ([Seg.tfile path ws] ++ xSegs X) none)
        [.w ('^' :: path), .x (Spec.joinComma (X.map Spec.renderWord))] =
      .ok ((Spec.expand₂ ws).filter fun h => !(Spec.expand₁ X).contains h) :=
  Hostlist.wfile_from_texts cfg hD1 hD17 hD19 h2Br mode fs path ws X hpp hpX hdom

open PdshVerif.Opt PdshVerif.Opt.Exclude PdshVerif.Opt.Targets in
/-- ALL CONTEXTS AT ONCE, FROM THE TEXTS: `-w` naming any mix of words and `^file`s, `-x` any mix
    of words and `^file`s, WCOLL: targets in source order (files' words inlined) fully expanded,
    minus every excluded name, filtered -/
theorem options_from_texts (cfg : Cfg) (hD1 : cfg.fixDeleteAll = true) (hD17 : cfg.fixIterSuffix = true)
    (hD19 : cfg.fixRemoveDepth = true) (h2Br : cfg.fix2Br = true) (mode : Wcoll.LineMode) (fs : Wcoll.FS) (stdin : Str)
    (rematch : Str → Str → Option Bool) (badre : Str → Bool) (segsW segsX : List Seg)
    (wenv : Option (Str × List Spec.Word))
    (hX : ∀ s ∈ segsX, segIsX s = true)
    (hpW : ∀ s ∈ segsW, Wcoll.pieceOK s.text = true) (hpX : ∀ s ∈ segsX, Wcoll.pieceOK (segXText s) = true)
    (hd : Spec.joinComma (segsW.map Seg.text) ≠ ['-'])
    (hdom : targetDomain cfg mode fs stdin rematch badre (segsW ++ segsX) wenv = true) :
    cliFinalW cfg (envOf mode fs stdin rematch badre (segsW ++ segsX) wenv) (wenv.map (·.1))
        [.w (Spec.joinComma (segsW.map Seg.text)), .x (Spec.joinComma (segsX.map segXText))] =
      .ok (targetSpec (envOf mode fs stdin rematch badre (segsW ++ segsX) wenv) (segsW ++ segsX) wenv) :=
  Hostlist.options_from_texts cfg hD1 hD17 hD19 h2Br mode fs stdin rematch badre segsW segsX wenv hX hpW hpX hd hdom

/-- LOOK-UP BY NAME: in the list built from ANY accepted text, `hostlist_find(name)` answers the
    index of the FIRST occurrence of `name` in the spec's expansion of the text, and -1 exactly
    when `name` is not in it (`SmallName`: trailing digit run ≤ 2^25; beyond: F16-BIGSUFFIX) -/
theorem find_of_text (cfg : Cfg) (h15 : cfg.fixUlongMax = true) (h16 : cfg.fixDigits = true)
    (h18 : cfg.fixCurTok = true) (h22 : cfg.fixSuffixBal = true) (h23 : cfg.fixHostBuf = true)
    (s : Str) (h : HL) (hc : create cfg s = .ok h) (name : Str) (hsm : SmallName name) :
    (find h name).1 =
      if name ∈ Spec.expandStr₁ s then some ((Spec.expandStr₁ s).idxOf name) else none :=
  Hostlist.find_of_text cfg h15 h16 h18 h22 h23 s h hc name hsm

end PdshVerif.C01

/-! non-vacuity: a concrete well-formed expression inside the domain of `create_words`,
    ⟦foo[9-11,007]-[0-1] 12 a3⟧, and its expansions -/
section Examples
open PdshVerif.Hostlist PdshVerif.Hostlist.Spec

def exW1 : Word :=
  .br "foo".toList [⟨"9".toList, some "11".toList⟩, ⟨"007".toList, none⟩] "-".toList
      (some ([⟨"0".toList, some "1".toList⟩], []))
def exW2 : Word := .plain "12".toList
def exW3 : Word := .plain "a3".toList
def exampleExpr : Expr := [exW1, exW2, exW3]

/-- its text with a mix of separator runs -/
def exampleItems : List (Word × Spec.Str) :=
  [(exW1, ", ".toList), (exW2, " ".toList), (exW3, [])]

example : String.ofList (render [] exampleItems) = "foo[9-11,007]-[0-1], 12 a3" := by decide
example : sepsOK exampleItems = true := by decide
example : WF exampleExpr = true := by decide
example : ∀ w ∈ exampleExpr, wordDom Cfg.unchanged w := by
  intro w hw
  simp only [exampleExpr, List.mem_cons, List.not_mem_nil, or_false] at hw
  rcases hw with rfl | rfl | rfl <;> decide
example : exampleItems.map (·.1) = exampleExpr := rfl
example : (expand₁ exampleExpr).map String.ofList =
    ["foo9-[0-1]", "foo10-[0-1]", "foo11-[0-1]", "foo007-[0-1]", "12", "a3"] := by decide
example : (expand₂ exampleExpr).map String.ofList =
    ["foo9-0", "foo9-1", "foo10-0", "foo10-1", "foo11-0", "foo11-1", "foo007-0", "foo007-1", "12", "a3"] := by
  decide
instance (w : Word) : Decidable (cliWord w) := by unfold cliWord; exact inferInstance
/-- non-vacuity of `cli_targets`: every hypothesis holds of the example (for the code as found,
    `Cfg.unchanged`), and the instance is derived THROUGH the theorem -/
example : ∃ h', cliTargets Cfg.unchanged (render [] exampleItems) = .ok (some h') ∧
    h'.hosts = expand₂ exampleExpr := by
  obtain ⟨h', a, _, c⟩ := PdshVerif.C01.cli_targets Cfg.unchanged [] exampleItems (by decide) (by decide)
    (by decide) (by decide) (by decide) (by decide)
    (by
      intro h hh
      have key : (match cliPushWords Cfg.unchanged HL.new (tokens [','] (render [] exampleItems)) with
          | .ok (some h) => h.ranges.toList.all (fun r => decide r.ShiftFits)
          | _ => false) = true := by decide
      rw [hh] at key
      simp only [List.all_eq_true, decide_eq_true_eq] at key
      exact key)
  exact ⟨h', a, c⟩
example : tokens [','] "a b, c[1,2] d".toList = ["a b".toList, " c[1,2] d".toList] := by decide
/-- non-vacuity of `cli_targets_bounded` (no `ShiftFits` hypothesis left) -/
example : ∃ h', cliTargets Cfg.repaired (render [] exampleItems) = .ok (some h') ∧
    h'.hosts = expand₂ exampleExpr := by
  obtain ⟨h', a, _, c⟩ := PdshVerif.C01.cli_targets_bounded Cfg.repaired rfl rfl [] exampleItems
    (by decide) (by decide) (by decide) (by decide) (by decide) (by decide) (by decide)
  exact ⟨h', a, c⟩
/-- non-vacuity of `create_text` and `find_of_text`: an arbitrary text, through the theorems -/
example : ∃ h, create Cfg.repaired "n[08-10]-ib  n9-ib".toList = .ok h ∧
    h.hosts = ["n08-ib".toList, "n09-ib".toList, "n10-ib".toList, "n9-ib".toList] ∧
    (find h "n9-ib".toList).1 = some 3 ∧ (find h "n8-ib".toList).1 = none := by
  obtain ⟨h, hc⟩ := (PdshVerif.Hostlist.create_iff_classify Cfg.repaired rfl rfl rfl rfl
    "n[08-10]-ib  n9-ib".toList).mpr (by decide)
  have ht := PdshVerif.C01.create_text Cfg.repaired rfl rfl rfl rfl rfl _ h hc
  refine ⟨h, hc, by rw [ht.2.1]; decide, ?_, ?_⟩
  · rw [PdshVerif.C01.find_of_text Cfg.repaired rfl rfl rfl rfl rfl _ h hc _ (by unfold SmallName; decide)]
    decide
  · rw [PdshVerif.C01.find_of_text Cfg.repaired rfl rfl rfl rfl rfl _ h hc _ (by unfold SmallName; decide)]
    decide
/-- non-vacuity of `expand_text`: an arbitrary text (blank/comma runs, padding, a second pair of
    brackets), through the theorems -/
example : ∃ h h', create Cfg.repaired " r[1-2]n[08-09],,x7 ".toList = .ok h ∧
    wcollExpand Cfg.repaired h = .ok h' ∧
    h'.hosts = ["r1n08".toList, "r1n09".toList, "r2n08".toList, "r2n09".toList, "x7".toList] := by
  obtain ⟨h, hc⟩ := (PdshVerif.Hostlist.create_iff_classify Cfg.repaired rfl rfl rfl rfl
    " r[1-2]n[08-09],,x7 ".toList).mpr (by decide)
  obtain ⟨h', e, _, hh⟩ := PdshVerif.C01.expand_text Cfg.repaired rfl rfl rfl rfl rfl _ h hc
    (by decide) (by decide) (by decide)
  exact ⟨h, h', hc, e, by rw [hh]; decide⟩
/-- non-vacuity of `cli_text`: the argument text of `-w ' r[1-2]n[08-09], x7'` through the whole
    `-w` path (a comma-word that starts with a blank) -/
example : ∃ h', cliTargets Cfg.repaired " r[1-2]n[08-09], x7".toList = .ok (some h') ∧
    h'.hosts = ["r1n08".toList, "r1n09".toList, "r2n08".toList, "r2n09".toList, "x7".toList] := by
  obtain ⟨h', e, _, hh⟩ := PdshVerif.C01.cli_text Cfg.repaired rfl rfl rfl rfl rfl
    " r[1-2]n[08-09], x7".toList (by decide) (by decide) (by decide) (by decide) (by decide) (by decide)
  exact ⟨h', e, by rw [hh]; decide⟩
/-- non-vacuity of `w_x_from_texts`: `pdsh -w foo[1-2]-[0-1],bar -x foo1-0,bar` (a word with TWO
    pairs of brackets; an exclusion that names a second-level host) goes on with foo1-1 foo2-0
    foo2-1 — through the theorem, the domain decided -/
def exW : List Word :=
  [.br "foo".toList [⟨"1".toList, some "2".toList⟩] "-".toList (some ([⟨"0".toList, some "1".toList⟩], [])),
   .plain "bar".toList]
def exX : List Word := [.plain "foo1-0".toList, .plain "bar".toList]
example : PdshVerif.Opt.Exclude.cliFinal Cfg.repaired
    (PdshVerif.Opt.Targets.envOf .whole [] [] (fun _ _ => none) (fun _ => false) (wSegs exW ++ xSegs exX) none)
    [.w "foo[1-2]-[0-1],bar".toList, .x "foo1-0,bar".toList] =
    .ok ["foo1-1".toList, "foo2-0".toList, "foo2-1".toList] := by
  have h := PdshVerif.C01.w_x_from_texts Cfg.repaired rfl rfl rfl rfl exW exX (by decide) (by decide)
    (by decide) (by decide) (by decide)
  exact h.trans (by decide)
end Examples
