/-
  C01  A host expression targets exactly its mathematical expansion.
  PROPERTY THEOREMS ONLY (helper lemmas live in PdshVerif/Hostlist/Lemmas*.lean).

  Model: PdshVerif/Hostlist/{Basic,Push,Parse,Iter,Cli}.lean (hostlist.c, opt.c wcoll_expand,
  split.c).  Spec: PdshVerif/Hostlist/Spec.lean (`expand₁`, `expand₂`, written without the model).
-/
import PdshVerif.Hostlist.Lemmas
import PdshVerif.Hostlist.LemmasParse

namespace PdshVerif.C01
open PdshVerif.Hostlist PdshVerif.Gen

/-- `_width_equiv`: when two widths are declared compatible they are made equal, and the in-place
    rewrite changes the printed form of no number ≥ n (first range) resp. ≥ m (second range):
    coalescing never renames a host, so foo1 / foo01 are never identified. -/
theorem widthEquiv_sound {n wn m wm wn' wm' : Nat} (h : widthEquiv n wn m wm = (true, wn', wm')) :
    (∀ k, n ≤ k → fmtPad wn' k = fmtPad wn k) ∧ (∀ k, m ≤ k → fmtPad wm' k = fmtPad wm k) ∧
      wn' = wm' :=
  Hostlist.widthEquiv_sound h

/-- `hostlist_push_range`: with or without tail coalescing, pushing a record appends exactly the
    hosts that record denotes — order kept, repeats kept. -/
theorem pushRange_hosts (h : HL) (r : HRange) (hg : h.Good) (hr : r.Good) :
    (pushRange h r).hosts = h.hosts ++ r.hosts :=
  Hostlist.pushRange_hosts h r hg.1 hr

/-- the cached counter `nhosts` (`hostlist_count`) stays equal to the number of denoted hosts -/
theorem nhosts_eq (h : HL) (r : HRange) (hg : h.Good) (hr : r.Good) :
    (pushRange h r).Good ∧ (pushRange h r).count = (h.hosts ++ r.hosts).length := by
  have g := pushRange_good h r hg hr
  refine ⟨g, ?_⟩
  rw [← Hostlist.pushRange_hosts h r hg.1 hr]
  exact g.2

end PdshVerif.C01
