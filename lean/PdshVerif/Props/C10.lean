import PdshVerif.Opt.Wcoll
import PdshVerif.Opt.WcollSpec

namespace PdshVerif.Props.C10
open PdshVerif.Opt.Wcoll

/-- D12 witness (small buffer for readability): `fgets` with an 8-byte buffer cuts `node0454` -/
theorem fgets_splits_witness_small :
    chunks (.fgets 8) "n1,node0454\n".toList = ["n1,node".toList, "0454\n".toList] := by decide

end PdshVerif.Props.C10
