import PdshVerif.Opt.Wcoll
import PdshVerif.Opt.WcollSpec
import PdshVerif.Opt.WcollLemmas
import PdshVerif.Opt.WcollSources
import PdshVerif.Opt.WcollRefine
import PdshVerif.Opt.WcollPaths
import PdshVerif.Opt.WcollAssemble
import PdshVerif.Opt.WcollSplit
import PdshVerif.Opt.WcollTargets
import PdshVerif.Opt.WcollFd
import PdshVerif.Opt.WcollBytes
import PdshVerif.Opt.WcollLookup
import PdshVerif.Opt.WcollTopFd
import PdshVerif.Opt.WcollLongName
import PdshVerif.Opt.WcollStdinAgain
import PdshVerif.Opt.Settings
import PdshVerif.Dsh.Exit

/-!
# C10  The target list is assembled faithfully from every source

Theorems about the model `Opt/Wcoll.lean` of wcoll.c and of the `-w` / `^file` / `-` / WCOLL part of
opt.c (tied to the code by checks/c10.py).  The model's result is the ordered list of expressions
handed to the hostlist parser; what an expression expands to is not part of these statements (it is in the
END-TO-END section, through C01's theorems).

clause of the property text                              theorem(s)
-------------------------------------------------------  -----------------------------------------------------------
concatenation, in command-line order, of every source    `order_of_sources`, `assemble_refines`, `command_line_split`,
                                                         `rendered_options_stand_for_sources`, `x_option_is_dash_args`
every `^file`: one expression per line, `#` comments     `file_hosts_spec_partial`, `file_source_spec_partial` (reader =
and surrounding blanks ignored                           `WcollSpec`), `include_line_restriction_forced` (why partial)
`#include F` replaced in place by F's hosts              same (order of `exprs`), non-vacuity `demoFS`
F looked up in the directory of the COMMAND-LINE file    `bare_include_in_top_directory`, `dot_names_are_bare`,
                                                         `nested_includes_in_command_line_directory` (every depth),
                                                         `stdin_includes_in_current_directory`, `dirname_is_dirOf`
standard input for `-`                                   `assemble_refines` (`Source.stdin`; consumed once), `stdin_read_once`,
                                                         `later_stdin_sources_are_empty_files`, `stdin_stays_consumed`
WCOLL when no other source is given                      `wcoll_only_without_other_source`, `wcoll_fallback`,
                                                         `no_source_no_list`, `empty_list_exit1`
lines of ANY length read whole (no name split)           BYTE LEVEL: `glued_pieces_whole`, `whole_lines_bytes`,
                                                         `byte_reader_is_line_reader` (fgets pieces of any buffer size,
                                                         glued, = whole lines, for every content); `whole_lines`,
                                                         `short_lines_whole`; as found: `fgets_splits(_witness)` (D12)
a file reached a second time is skipped with a warning   `include_terminates`, `included_once`, `second_spelling_skipped`,
rather than looping                                      `spellings_resolve_alike`, `opened_in_cache`
an unreadable source is an error, not an empty list      `unreadable_is_error`, `unreadable_include_is_error`,
                                                         `unresolved_include_is_error`, `error_is_final`
include names and the path buffer fq_path[PATHBUF]      `resolved_path_fits`, `long_explicit_name_is_cut` (F10-LONGNAME, open: an
                                                         explicit name of ≥ PATHBUF bytes IS its first PATHBUF-1 bytes),
                                                         `explicit_name_as_written_or_error` (with the patch),
                                                         `bare_name_too_long_is_error`
(resources) no descriptor leaks                          `descriptors_balanced`, `open_files_le_depth`, `open_files_le_files`,
                                                         `top_streams_closed` (THE CODE since /repo 8d15944: `read_wcoll`
                                                         closes what it opened; `top_streams_leak_witness` = before)
end to end (C10 ∘ C02 ∘ C01)                             `target_list_end_to_end` (+ `_is_cliWords`, `_is_cliFinalW`)

The reader comes in three forms (`LineMode`): `.fgets n` (as found: every fgets piece parsed on its own),
`.glued n` (as repaired, byte level: pieces glued until one holds a newline) and `.whole` (the specification's
whole lines).  Every theorem with a `mode` parameter holds for all three; the length hypotheses mention
`mode.cap`, which is `none` for `.glued` and `.whole`.  The compiled model the real pdsh is compared with
executes `.glued LINEBUFSIZE` (or `.fgets LINEBUFSIZE` when the probe finds the old reader).

Proved:  reading terminates for EVERY file system and include graph (`include_terminates`: the
recursion fuel `|fs|+1` is never exhausted — well-founded on the number of files not yet in the
include cache);  every resolved path is opened at most once per source (`included_once`);  the
arguments' contributions are appended in command-line order and do not depend on one another except
for stdin being consumed (`order_of_sources`);  WCOLL is consulted only when no other source created
the list (`wcoll_only_without_other_source`);  an unreadable or missing source or included file is an
error, and errors are final (`unreadable_is_error`, `unreadable_include_is_error`,
`unresolved_include_is_error`);  lines that fit the buffer are handed over whole
(`short_lines_whole`), with the repaired reader every line is (`whole_lines`, `whole_lines_bytes`).
The full statement "file lines of any length are read whole" is FALSE of the code as found:
`fgets_splits` (general) and `fgets_splits_witness` (D12).
`file_hosts_spec_partial` / `file_source_spec_partial`: on well-formed files whose lines fit the buffer
the reader IS the specification `Opt/WcollSpec.lean` (same expressions in the same order, one warning
per skipped second reach, same error status); for the repaired reader without any length condition.
END TO END (`target_list_end_to_end`): with C02's model of `wcoll_arg_process` / exclusion / regex filters and
C01's `hostlist_create` / re-expansion, the hosts pdsh goes on with are the expansion of every target word in
source order (files and standard input inlined, WCOLL iff no target source) minus the excluded names, filtered — in ONE decidable
domain `targetDomain`; starts from the argument TEXTS (`Seg.text`), the file BYTES (`fs`, any `mode` incl. the
byte-level `.glued`) and the environment (`wenv`); the empty list is refused with exit 1 (`no_source_no_list`,
`empty_list_exit1`).
DESCRIPTORS (`descriptors_balanced`, `open_files_le_depth`): every stream the reader opens is closed when
`wcoll_ctx_read_file` returns, one stream per include level at most (ghost counter, erasable).
A SECOND stdin source: `targetDomain` asks for at most one `-` (C02's file table is a static lookup);
`later_stdin_sources_are_empty_files` reduces every command line with more (any positions, also `-^-`) to one
with a single stdin source and empty files `^E` in place of the later ones — identical option-processing state —
and `target_list_end_to_end` then speaks about the reduced line.
Not proved here:  dirname(3)/access(2)/fgets(3) themselves (modelled);  NUL bytes in files;  the
`:`-split of the command-line file's directory (`colon_dir_witness`, outside the domain).
-/
namespace PdshVerif.Props.C10
open PdshVerif.Opt hiding Str Cfg Env Fixes
open PdshVerif.Opt.Wcoll

/-- for every file system, include graph (cycles, diamonds, self-includes), source list, stdin and
environment, the reader never runs out of its fuel `|fs|+1`: reading terminates -/
theorem include_terminates (mode : LineMode) (fs : FS) (stdin : Str) (opts : List Opt)
    (env : Option Str) : (assembleOpts mode fs stdin opts env).starved = false := by
  have hread : ∀ s f, (readWcoll mode fs s f).1.starved = false := by
    intro s f
    unfold readWcoll
    split
    · exact (readStream_step mode fs _ _).fed
    · split
      · rfl
      · split
        · exact (readStream_step mode fs _ _).fed
        · rfl
  have habs : ∀ (st : St) (ex : Bool) (r : Ctx × Str), st.starved = false → r.1.starved = false →
      (absorb st ex r).starved = false := by
    intro st ex r h1 h2
    unfold absorb
    simp only
    split
    · simp [h1, h2]
    · split <;> simp [h1, h2]
  have harg : ∀ (st : St) (a : Str), st.starved = false → (argProcess mode fs st a).starved = false := by
    intro st a h
    unfold argProcess
    split
    · exact h
    · dsimp only
      split
      · exact habs _ _ _ h (hread _ _)
      · exact h
      · split
        · exact h
        · split <;> exact h
  have hfold : ∀ (args : List Str) (st : St), st.starved = false →
      (args.foldl (argProcess mode fs) st).starved = false := by
    intro args
    induction args with
    | nil => intro st h; exact h
    | cons a as ih => intro st h; exact ih _ (harg st a h)
  unfold assembleOpts
  rw [fold_opts]
  have h0 := hfold (opts.flatMap optArgs) { stdin := stdin } rfl
  simp only
  split
  · exact h0
  · split
    · exact h0
    · exact habs _ _ _ h0 (hread _ _)

/-- reading a stream opens every resolved path at most once through includes, whatever the graph -/
theorem included_once (mode : LineMode) (fs : FS) (dirs : List Str) (content : Str) :
    (readStream mode fs dirs content).opened.Nodup :=
  (readStream_step mode fs dirs content).once

/-- the guard keys on the RESOLVED path, not on the spelling: whatever an include line calls a file
(`B`, `./B`, `/abs/dir/B`), once its resolved path is in the cache the file is skipped with one
warning and nothing else changes -/
theorem second_spelling_skipped (mode : LineMode) (fs : FS) (dirs : List Str) (k : Nat) (f fq : Str)
    (c : Ctx) (h : resolve fs dirs f = some fq) (hc : fq ∈ c.cache) :
    readFile mode fs dirs (k + 1) f c = { c with nwarn := c.nwarn + 1 } := by
  simp [readFile, h, hc]

/-- two spellings of the same file: a bare name and the same name written out with the directory of
the command-line file resolve to the same path (so `included_once` — no RESOLVED path is opened
twice — covers every spelling) -/
theorem spellings_resolve_alike (fs : FS) (d f : Str) (hb : isExplicit f = false)
    (he : isExplicit (d ++ '/' :: f) = true) (hr : canRead fs (d ++ '/' :: f) = true)
    (hlen : (d ++ '/' :: f).length < PATHBUF - 1) :
    resolve fs [d] f = some (d ++ '/' :: f) ∧ resolve fs [d] (d ++ '/' :: f) = some (d ++ '/' :: f) := by
  constructor
  · have : ¬ (d ++ '/' :: f).length ≥ PATHBUF := by simp only [PATHBUF] at hlen ⊢; omega
    simp only [resolve, hb, Bool.false_eq_true, if_false, pathLookup, this, hr, if_true]
  · simp only [resolve, he, if_true]
    rw [List.take_of_length_le (by omega)]

/-- ... and what was opened is exactly what went into the include cache by way of a successful open -/
theorem opened_in_cache (mode : LineMode) (fs : FS) (dirs : List Str) (content : Str) :
    ∀ x ∈ (readStream mode fs dirs content).opened, x ∈ (readStream mode fs dirs content).cache :=
  (readStream_step mode fs dirs content).seen

/-- the expressions of a command line are the concatenation, in command-line order, of what each
argument contributes on its own (given the stdin its predecessors left) -/
theorem order_of_sources (mode : LineMode) (fs : FS) (stdin : Str) (wargs : List Str)
    (h : ((wargs.flatMap argsOf).foldl (argProcess mode fs) { stdin := stdin }).fatal = false) :
    (wargs.foldl (optargProcess mode fs) { stdin := stdin }).exprs =
      (contribs mode fs stdin (wargs.flatMap argsOf)).flatten := by
  rw [fold_optargs, fold_args_exprs mode fs _ _ h]
  simp

/-- WCOLL is looked at only if no `-w` argument created the list (and nothing failed) -/
theorem wcoll_only_without_other_source (mode : LineMode) (fs : FS) (stdin : Str) (wargs : List Str)
    (env : Option Str)
    (h : (wargs.foldl (optargProcess mode fs) { stdin := stdin }).created = true) :
    assemble mode fs stdin wargs env = wargs.foldl (optargProcess mode fs) { stdin := stdin } := by
  simp [assemble, h]

/-- with no `-w` at all, WCOLL names the file that is read -/
theorem wcoll_fallback (mode : LineMode) (fs : FS) (stdin f : Str) :
    (assemble mode fs stdin [] (some f)).exprs = (readWcoll mode fs stdin f).1.exprs ∨
    (assemble mode fs stdin [] (some f)).fatal = true := by
  simp only [assemble, List.foldl_nil, Bool.or_self, Bool.false_eq_true, if_false, absorb]
  split
  · right; rfl
  · left; simp

/-- an unreadable or missing `^file` makes the whole command line an error, wherever it stands -/
theorem unreadable_is_error (mode : LineMode) (fs : FS) (pre post : List Str) (st : St) (file : Str)
    (h1 : file ≠ ['-']) (h2 : canRead fs file = false) :
    ((pre ++ ('^' :: file) :: post).foldl (argProcess mode fs) st).fatal = true :=
  fold_args_unreadable mode fs pre post st file h1 h2

/-- an include that resolves to an unreadable or missing file is an error -/
theorem unreadable_include_is_error (mode : LineMode) (fs : FS) (dirs : List Str) (k : Nat) (f fq : Str)
    (c : Ctx) (h : resolve fs dirs f = some fq) (hc : fq ∉ c.cache) (hr : canRead fs fq = false) :
    (readFile mode fs dirs (k + 1) f c).fatal = true :=
  readFile_unreadable mode fs dirs k f fq c h hc hr

/-- an include that cannot be found in the directory of the command-line file is an error -/
theorem unresolved_include_is_error (mode : LineMode) (fs : FS) (dirs : List Str) (k : Nat) (f : Str)
    (c : Ctx) (h : resolve fs dirs f = none) : (readFile mode fs dirs (k + 1) f c).fatal = true :=
  readFile_unresolved mode fs dirs k f c h

/-- an error is final: nothing is read after it -/
theorem error_is_final (inc : Str → Ctx → Ctx) (chs : List Str) (c : Ctx) (h : c.fatal = true) :
    chs.foldl (fun c ch => readLine inc ch c) c = c := foldl_fatal inc chs c h

/-- `file lines are read whole` — the part that holds of the unchanged code: lines that fit the
buffer (at most `size-2` bytes before the newline) are handed over exactly as they are -/
theorem short_lines_whole (size : Nat) (ls : List Str) (last : Str)
    (h : ∀ l ∈ ls, '\n' ∉ l ∧ l.length + 1 ≤ size - 1) (hl : '\n' ∉ last) (hlast : last.length < size - 1) :
    chunks (.fgets size) (joinLines ls last) =
      ls.map (· ++ ['\n']) ++ (if last.isEmpty then [] else [last]) :=
  chunks_lines (some (size - 1)) ls last
    (fun l hl' => ⟨(h l hl').1, fun n hn => by simp only [Option.some.injEq] at hn; rw [← hn]; exact (h l hl').2⟩)
    hl (fun n hn => by simp only [Option.some.injEq] at hn; rw [← hn]; exact hlast)

/-- the repaired reader hands over every line whole, whatever its length -/
theorem whole_lines (ls : List Str) (last : Str) (h : ∀ l ∈ ls, '\n' ∉ l) (hl : '\n' ∉ last) :
    chunks .whole (joinLines ls last) = ls.map (· ++ ['\n']) ++ (if last.isEmpty then [] else [last]) :=
  chunks_lines none ls last (fun l hl' => ⟨h l hl', fun n hn => by simp at hn⟩) hl
    (fun n hn => by simp at hn)

/-- the full statement is false of the unchanged code (D12): whatever follows, the first `size-1`
bytes of a longer line are handed to the parser on their own -/
theorem fgets_splits (size : Nat) (a b : Str) (ha : '\n' ∉ a) (hne : a ≠ []) (hlen : a.length = size - 1) :
    chunks (.fgets size) (a ++ b) = a :: chunks (.fgets size) b := by
  have := chunksGo_full (size - 1) a [] b ha hne (by simpa using hlen)
  simpa [chunks, LineMode.cap, LineMode.glues] using this

/-- D12 witness, end to end (8-byte buffer for readability): the name `node0454` straddling the
buffer boundary reaches the parser as `n1,node` and `0454`; the repaired reader keeps it whole -/
theorem fgets_splits_witness :
    ((readStream (.fgets 8) [] [".".toList] "n1,node0454\n".toList).exprs =
        ["n1,node".toList, "0454".toList]) ∧
    ((readStream .whole [] [".".toList] "n1,node0454\n".toList).exprs = ["n1,node0454".toList]) := by
  decide

/-- FULL statement (kept visible; FALSE of the unchanged code because of D12):
`∀ fs topdir content, (lines well formed) → reader = specification`, for lines of ANY length.
What holds: the reader is the specification for well-formed files whose lines fit the buffer
(`mode = shipped`: at most 2046 bytes before the newline); for the repaired reader (`mode = .whole`)
the length hypotheses are vacuous and the statement is the full one. -/
theorem file_hosts_spec_partial (mode : LineMode) (fs : FS) (topdir : Str)
    (hfs : FsOK mode.cap topdir fs) (content : Str) (hc : ContentOK mode.cap topdir content) :
    (readStream mode fs [topdir] content).exprs = (WcollSpec.streamHosts fs topdir content).exprs ∧
    (readStream mode fs [topdir] content).nwarn = (WcollSpec.streamHosts fs topdir content).skipped ∧
    (readStream mode fs [topdir] content).fatal = (WcollSpec.streamHosts fs topdir content).error :=
  file_hosts_spec_partial' mode fs topdir hfs content hc

/-- the same for a `^file` source: hosts, skip warnings and error status of the reader are those of
the specification's `fileHosts`, for a plain command-line path (see `dirname_is_dirOf`) -/
theorem file_source_spec_partial (mode : LineMode) (fs : FS) (stdin file : Str) (h1 : file ≠ ['-'])
    (hp : PlainPath file) (hc : ':' ∉ WcollSpec.dirOf file)
    (hfs : FsOK mode.cap (WcollSpec.dirOf file) fs) :
    (readWcoll mode fs stdin file).1.exprs = (WcollSpec.fileHosts fs file).exprs ∧
    (readWcoll mode fs stdin file).1.nwarn = (WcollSpec.fileHosts fs file).skipped ∧
    (readWcoll mode fs stdin file).1.fatal = (WcollSpec.fileHosts fs file).error :=
  file_source_spec_partial' mode fs stdin file h1 (search_path_of_plain file hp hc) hfs

/-- WHAT KEEPS `file_hosts_spec_partial` PARTIAL, and why it cannot go away.
(1) line length: only for the unchanged `fgets` reader (`fgets_splits`); for the repaired reader
    `mode = .whole` the hypothesis is vacuous — the statement is the full one.
(2) a line that starts with `#include` must be exactly `#include` blanks+ F blanks*, without CR:
    forced by the code, which is more liberal than the property text — three witnesses below on a
    two-file system (each is also run against the real pdsh by checks/c10.py, stream `malformed`,
    where the real binary agrees with the reader side):
    `#includeB` (no blank) is honoured by the reader; `#include B C` costs a warning;
    `#include B<CR>` (a CRLF file) includes B although the name as written is `B<CR>`.
    Every other line — host expressions, comments, blanks, CR included — is unrestricted.
(3) include names must fit `fq_path[4096]` (the code truncates / fails beyond). -/
theorem include_line_restriction_forced :
    let fs : FS := [⟨"d/A".toList, true, "#includeB\n".toList⟩, ⟨"d/B".toList, true, "b1\n".toList⟩]
    let fs2 : FS := [⟨"d/A".toList, true, "#include B C\n".toList⟩, ⟨"d/B".toList, true, "b1\n".toList⟩]
    let fs3 : FS := [⟨"d/A".toList, true, "#include B\r\n".toList⟩, ⟨"d/B".toList, true, "b1\n".toList⟩]
    -- no blank after #include: the reader includes B, the specification sees a comment
    ((readWcoll .whole fs [] "d/A".toList).1.exprs = ["b1".toList] ∧
      (WcollSpec.fileHosts fs "d/A".toList).exprs = []) ∧
    -- a second token: one warning from the reader, none in the specification
    ((readWcoll .whole fs2 [] "d/A".toList).1.nwarn = 1 ∧
      (WcollSpec.fileHosts fs2 "d/A".toList).skipped = 0) ∧
    -- CR before the newline: the reader includes B, the specification looks for `B<CR>` (an error)
    ((readWcoll .whole fs3 [] "d/A".toList).1.exprs = ["b1".toList] ∧
      (readWcoll .whole fs3 [] "d/A".toList).1.fatal = false ∧
      (WcollSpec.fileHosts fs3 "d/A".toList).error = true) := by
  decide

/-- ... while CR in an ordinary line is inside the theorem's domain: reader and specification both
hand `foo<CR>` to the parser (xstrcln strips blank, tab and newline only) -/
example : LineOK "d".toList "foo\r".toList := ⟨by decide, by decide, by decide⟩

/-- `get_file_path`: for every plain path (it does not end in a slash, its last slash is not
doubled) glibc's `dirname` is the directory the specification means, and — when that directory holds
no colon — the reader's search path is exactly that one directory -/
theorem dirname_is_dirOf (p : Str) (hp : PlainPath p) :
    dirname p = WcollSpec.dirOf p ∧
    (':' ∉ WcollSpec.dirOf p → listSplit [':'] (dirname p) = [WcollSpec.dirOf p]) :=
  ⟨dirname_eq_dirOf p hp, search_path_of_plain p hp⟩

/-- ASSEMBLY REFINEMENT (opt.c against `WcollSpec.assemble`): if the `-w` / `-x` options stand for
the sources `srcs` — plain words, `^file`, `-`, exclusion files, each in C10's domain — then the
option processing including the WCOLL fallback yields the specification's result: same error status,
same number of skip warnings and, without error, the same target expressions in the same order and
the same exclusion expressions.  (`hcap`: the reader's buffer holds at least one byte.) -/
theorem assemble_refines (mode : LineMode) (fs : FS) (hcap : ∀ n, mode.cap = some n → 0 < n)
    (stdin : Str) (hstd : ContentOK mode.cap ['.'] stdin) (opts : List Opt)
    (srcs : List WcollSpec.Source) (hargs : opts.flatMap optArgs = srcs.map argOf)
    (hok : ∀ s ∈ srcs, SrcOK mode fs s) (env : Option Str)
    (henv : ∀ f, env = some f → SrcOK mode fs (if f = ['-'] then .stdin else .file f)) :
    (assembleOpts mode fs stdin opts env).fatal = (WcollSpec.assemble fs stdin srcs env).error ∧
    (assembleOpts mode fs stdin opts env).nwarn = (WcollSpec.assemble fs stdin srcs env).skipped ∧
    ((assembleOpts mode fs stdin opts env).fatal = false →
      (assembleOpts mode fs stdin opts env).exprs = (WcollSpec.assemble fs stdin srcs env).exprs ∧
      (assembleOpts mode fs stdin opts env).excl = (WcollSpec.assemble fs stdin srcs env).excluded) :=
  assembleOpts_refines mode fs hcap stdin hstd opts srcs hargs hok env henv

/-- `list_split (",", optarg)` (split.c): a comma-joined list of arguments — each non-empty, without
a comma outside brackets, brackets balanced (`pieceOK`, decidable) — is split back into exactly
those arguments; commas inside brackets (`n[1,3]`) do not split -/
theorem command_line_split (ps : List Str) (h : ∀ p ∈ ps, pieceOK p = true) :
    listSplit [','] (joinComma ps) = ps :=
  listSplit_join ps h

/-- hence the hypothesis `opts.flatMap optArgs = srcs.map argOf` of `assemble_refines` holds for
every command line written as `-w a,b,c -w d ...` over the arguments of its sources (an exclusion
file inside such a list is `-^F`; `-x ^F,^G` is `optArgs_x_join`) -/
theorem rendered_options_stand_for_sources (groups : List (List WcollSpec.Source))
    (hok : ∀ ss ∈ groups, ∀ s ∈ ss, pieceOK (argOf s) = true)
    (hd : ∀ ss ∈ groups, joinComma (ss.map argOf) ≠ ['-']) :
    (groups.map fun ss => Opt.w (joinComma (ss.map argOf))).flatMap optArgs =
      groups.flatten.map argOf := by
  induction groups with
  | nil => rfl
  | cons ss rest ih =>
    simp only [List.map_cons, List.flatMap_cons, List.flatten_cons, List.map_append]
    rw [ih (fun x hx => hok x (by simp [hx])) (fun x hx => hd x (by simp [hx])),
      optArgs_w_join _ (fun p hp => by
        obtain ⟨s, hs, rfl⟩ := List.mem_map.mp hp
        exact hok ss (by simp) s hs) (hd ss (by simp))]

example : pieceOK "v[1,4]z".toList = true ∧ pieceOK "^t/A".toList = true ∧ pieceOK "-^t/B".toList = true ∧
    pieceOK "a,b".toList = false ∧ pieceOK "n[1".toList = false := by decide

/-- `every ^file`: an exclusion file (`-x ^F`, or `-^F` inside a `-w` list) goes through the very
same reader as a target file; its expressions go to the exclusion list, the target list is
untouched, and an unreadable one is an error just the same -/
theorem excluded_file_same_reader (mode : LineMode) (fs : FS) (st : St) (file : Str)
    (hst : st.fatal = false) :
    (argProcess mode fs st ('-' :: '^' :: file)) = absorb st true (readWcoll mode fs st.stdin file) ∧
    ((readWcoll mode fs st.stdin file).1.fatal = false →
      (argProcess mode fs st ('-' :: '^' :: file)).excl =
        st.excl ++ (readWcoll mode fs st.stdin file).1.exprs ∧
      (argProcess mode fs st ('-' :: '^' :: file)).exprs = st.exprs) ∧
    ((readWcoll mode fs st.stdin file).1.fatal = true →
      (argProcess mode fs st ('-' :: '^' :: file)).fatal = true) := by
  have harg : argProcess mode fs st ('-' :: '^' :: file) =
      absorb st true (readWcoll mode fs st.stdin file) := by
    simp [argProcess, hst, isspaceC]
  refine ⟨harg, fun h => ?_, fun h => ?_⟩
  · rw [harg]; simp [absorb, h]
  · rw [harg]; simp [absorb, h]

/-- `-x LIST` is processed piece by piece as `-piece` (so `-x ^F` is `-^F`) -/
theorem x_option_is_dash_args (mode : LineMode) (fs : FS) (st : St) (optarg : Str) :
    optProcess mode fs st (.x optarg) =
      ((listSplit [','] optarg).map ('-' :: ·)).foldl (argProcess mode fs) st := by
  simp only [optProcess, xargProcess, List.foldl_map]

/-- `F being looked up in the directory of the file named on the command line`: an include name that
is not absolute and does not start with `./` or `../` can only resolve to that directory's entry —
never to a file relative to the current directory -/
theorem bare_include_in_top_directory (fs : FS) (d f p : Str) (h : isExplicit f = false)
    (hr : resolve fs [d] f = some p) : p = d ++ '/' :: f ∧ canRead fs p = true := by
  unfold resolve at hr
  simp only [h, Bool.false_eq_true, if_false, pathLookup] at hr
  split at hr
  · simp at hr
  · split at hr
    · rename_i hc
      simp only [Option.some.injEq] at hr
      subst hr
      exact ⟨rfl, hc⟩
    · simp at hr

/-- names that merely START with dots (hidden files, hidden sub-directories) are such bare names;
only `/…`, `./…` and `../…` are used as given (the exact test of `wcoll_ctx_resolve_path`) -/
theorem dot_names_are_bare :
    isExplicit ".extra".toList = false ∧ isExplicit "..racks".toList = false ∧
    isExplicit ".d/list".toList = false ∧ isExplicit "..".toList = false ∧ isExplicit ".".toList = false ∧
    isExplicit "./x".toList = true ∧ isExplicit "../x".toList = true ∧ isExplicit "/x".toList = true := by
  decide

/-- quirk outside the property's domain, mirrored by the model: the directory of the command-line
file is split at ':' (it is handed to `list_split (":", ...)` as if it were a search path) -/
theorem colon_dir_witness :
    listSplit [':'] (dirname "c:d/A".toList) = ["c".toList, "d".toList] := by decide

/-! ### non-vacuity: a cyclic include graph with a diamond, read to the end -/

def demoFS : FS :=
  [⟨"d/A".toList, true, "a1\n#include B\n#include C\na9\n".toList⟩,
   ⟨"d/B".toList, true, "b1\n#include C\n#include A\n".toList⟩,
   ⟨"d/C".toList, true, "c1\n#include B\n".toList⟩]

example : PlainPath "t/u/A".toList := ⟨by decide, fun B name h hn => by
  have : B = "t/u".toList := by
    have h1 := rev_dropWhile_last_slash B name hn
    rw [← h] at h1
    have : ("t/u/A".toList).reverse.dropWhile (· != '/') = '/' :: ("t/u".toList).reverse := by decide
    rw [this] at h1
    have h2 := congrArg List.reverse (List.cons.inj h1).2
    simpa using h2.symm
  rw [this]; decide⟩

example : (assemble shipped demoFS [] ["^d/A".toList] none).exprs =
    ["a1", "b1", "c1", "a1", "a9", "a9"].map String.toList ∧
    (assemble shipped demoFS [] ["^d/A".toList] none).nwarn = 4 ∧
    (assemble shipped demoFS [] ["^d/A".toList] none).fatal = false := by decide

example : listSplit [':'] (dirname "t/u/A".toList) = [WcollSpec.dirOf "t/u/A".toList] := by decide
example : listSplit [':'] (dirname "./A".toList) = [WcollSpec.dirOf "./A".toList] := by decide
example : listSplit [':'] (dirname "A".toList) = [WcollSpec.dirOf "A".toList] := by decide
example : listSplit [':'] (dirname "/abs/d/A".toList) = [WcollSpec.dirOf "/abs/d/A".toList] := by decide

example : LineOK "d".toList "#include \tB ".toList := ⟨by decide, by decide, by decide⟩
example : LineOK "d".toList " n[1-3] # comment".toList := ⟨by decide, by decide, by decide⟩

/-! ## byte level: `fgets` pieces of any size, glued, are the whole lines -/

/-- THE REPAIRED READER AS WRITTEN (`LineMode.glued size`: `fgets (buf, size, fp)` pieces appended with
`xstrcat` until a piece holds a newline, the rest at EOF handed over as a last line) calls
`wcoll_ctx_read_line` with exactly the whole lines of the stream — for EVERY content (lines of any length, with
or without a final newline, empty lines, the empty stream; NUL bytes are outside the model) and EVERY buffer
size -/
theorem glued_pieces_whole (size : Nat) (s : Str) : chunks (.glued size) s = chunks .whole s :=
  glued_eq_whole size s

/-- ... so no host name is ever split or truncated: every line, whatever its length, reaches the parser whole -/
theorem whole_lines_bytes (size : Nat) (ls : List Str) (last : Str) (h : ∀ l ∈ ls, '\n' ∉ l) (hl : '\n' ∉ last) :
    chunks (.glued size) (joinLines ls last) = ls.map (· ++ ['\n']) ++ (if last.isEmpty then [] else [last]) := by
  rw [glued_pieces_whole]; exact whole_lines ls last h hl

/-- ... and the whole option processing of the byte-level reader is that of the line-level reader: every theorem
of this file stated for a `mode` holds of `repairedReader` (= `.glued LINEBUFSIZE`, LINEBUFSIZE regenerated from
/repo) with the length hypotheses vacuous (`(.glued size).cap = none`), and the compiled model the real pdsh is
compared with executes `.glued` -/
theorem byte_reader_is_line_reader (size : Nat) (fs : FS) (stdin : Str) (opts : List Opt) (env : Option Str) :
    assembleOpts (.glued size) fs stdin opts env = assembleOpts .whole fs stdin opts env :=
  assembleOpts_glued size fs stdin opts env

/-- the same name straddling the boundary of an 8-byte buffer, a line of exactly one buffer followed by another
line, and an unterminated last line of exactly one buffer: all whole (cf. `fgets_splits_witness`) -/
example : (readStream (.glued 8) [] [".".toList] "n1,node0454\n".toList).exprs = ["n1,node0454".toList] ∧
    (readStream (.glued 8) [] [".".toList] "abcdef\nnext\n".toList).exprs = ["abcdef".toList, "next".toList] ∧
    (readStream (.glued 8) [] [".".toList] "x\nabcdefg".toList).exprs = ["x".toList, "abcdefg".toList] := by decide

/-- END TO END FROM BYTES: `target_list_end_to_end` below is stated for every `mode`; its domain predicate
mentions the mode only through `mode.cap`, which is `none` for the byte-level reader — the instance for the
reader as repaired needs no length condition on any file -/
example : repairedReader.cap = none := rfl

/-! ## standard input: `-w -`, `^-`, and what a lone `-` inside a list is -/

/-- `-w -` IS `-w ^-` (the `case 'w'` of `opt_args` rewrites the lone dash) -/
theorem dash_is_caret_dash (mode : LineMode) (fs : FS) (st : St) :
    optargProcess mode fs st ['-'] = optargProcess mode fs st ['^', '-'] := by
  have : listSplit [','] ['^', '-'] = [['^', '-']] := by decide
  simp [optargProcess, this]

/-- STDIN IS READ ONCE: the first stdin source takes everything (whatever the reader does with it), a second one
— `-w - -w -`, `-w ^-,^-`, `-w - ` then WCOLL=`-` — finds end of file: it contributes no expression, no warning
and no error (it still counts as a source: the list exists) -/
theorem stdin_read_once (mode : LineMode) (fs : FS) (st : St) (hf : st.fatal = false) :
    (argProcess mode fs st ['^', '-']).stdin = [] ∧
    (st.stdin = [] → (argProcess mode fs st ['^', '-']).exprs = st.exprs ∧
      (argProcess mode fs st ['^', '-']).nwarn = st.nwarn ∧ (argProcess mode fs st ['^', '-']).fatal = false ∧
      (argProcess mode fs st ['^', '-']).created = true) := by
  have harg : argProcess mode fs st ['^', '-'] = absorb st false (readWcoll mode fs st.stdin ['-']) := by
    simp [argProcess, hf, isspaceC]
  have hempty : (readWcoll mode fs [] ['-']).1 = {} := by
    have hch : chunks mode [] = [] := by
      rw [chunks_eq]; simp [chunksGo]
    simp [readWcoll, readStream, hch]
  refine ⟨?_, fun he => ?_⟩
  · rw [harg]
    simp only [absorb, readWcoll, if_true]
    split <;> simp
  · rw [harg, he]
    simp [absorb, hempty, hf]

/-- A SECOND STDIN SOURCE IS AN EMPTY FILE.  Once standard input has been read (`pre`: the arguments up to and
including the first stdin source — `stdin_read_once` says its `stdin` is `[]` afterwards), every later stdin source
(`^-`, `-^-`), wherever it stands among the remaining arguments `post`, may be replaced by `^E` / `-^E` for an empty
readable file `E` without changing ANYTHING the option processing computes: list, exclusions, filters, warnings,
errors.  This reduces a command line with any number of stdin sources to one with a single stdin source — the form
`targetDomain` asks for — so `target_list_end_to_end` speaks about it through the reduced line. -/
theorem later_stdin_sources_are_empty_files (mode : LineMode) (fs : FS) (e : Str) (he : e ≠ ['-'])
    (hl : lookup fs e = some ⟨e, true, []⟩) (pre post : List Str) (st : St)
    (h : (pre.foldl (argProcess mode fs) st).stdin = []) :
    (pre ++ post.map (stdinAsFile e)).foldl (argProcess mode fs) st =
      (pre ++ post).foldl (argProcess mode fs) st :=
  Wcoll.later_stdin_sources_are_empty_files mode fs e he hl pre post st h

/-- consumed stays consumed: no later argument brings standard input back -/
theorem stdin_stays_consumed (mode : LineMode) (fs : FS) (st : St) (arg : Str) (h : st.stdin = []) :
    (argProcess mode fs st arg).stdin = [] :=
  argProcess_stdin_nil mode fs st arg h

/-- `printf 's1\n' | pdsh -w ^-,w1,^-,-^-` = `... -w ^-,w1,^E,-^E` with `E` empty (decided; pinned on the real pdsh by
checks/c10.py `src:ss:*`, `word-forms:3`, `stdin-twice:*`) -/
example :
    let fs : FS := [⟨"E".toList, true, []⟩]
    let args := ["^-", "w1", "^-", "-^-"].map String.toList
    (args.foldl (argProcess .whole fs) { stdin := "s1\n".toList }).exprs = ["s1".toList, "w1".toList] ∧
    (["^-", "w1", "^E", "-^E"].map String.toList).foldl (argProcess .whole fs) { stdin := "s1\n".toList } =
      args.foldl (argProcess .whole fs) { stdin := "s1\n".toList } := by
  refine ⟨by decide, ?_⟩
  exact later_stdin_sources_are_empty_files .whole _ "E".toList (by decide) rfl
    ["^-".toList] (["w1", "^-", "-^-"].map String.toList) _ (by decide)

/-- a lone `-` INSIDE a comma-separated list is not standard input: it is the exclusion of the empty word
(`-w a,-` = target `a`, exclusion ``); only the whole option argument `-` and the word `^-` mean stdin -/
theorem dash_inside_list_is_not_stdin :
    (optargProcess .whole [] { stdin := "s1\n".toList } "a,-".toList).exprs = ["a".toList] ∧
    (optargProcess .whole [] { stdin := "s1\n".toList } "a,-".toList).excl = [[]] ∧
    (optargProcess .whole [] { stdin := "s1\n".toList } "a,-".toList).stdin = "s1\n".toList ∧
    (optargProcess .whole [] { stdin := "s1\n".toList } "a,^-".toList).exprs = ["a".toList, "s1".toList] := by
  decide

/-! ## where included files are looked up -/

/-- THE DIRECTORY OF THE FILE NAMED ON THE COMMAND LINE, AT EVERY DEPTH.  Every file the reader opens through
`#include` lines — directly or through any chain of included files — is either named explicitly (absolute,
`./…`, `../…`: used as written, relative to the current directory) or is the readable file `D/NAME` with
`D` = the directory of the command-line file and NAME the name as written: never a file found relative to the
INCLUDING file's directory, never one found in the current directory. -/
theorem nested_includes_in_command_line_directory (mode : LineMode) (fs : FS) (stdin file : Str)
    (h1 : file ≠ ['-']) (hp : PlainPath file) (hc : ':' ∉ WcollSpec.dirOf file) :
    ∀ x ∈ (readWcoll mode fs stdin file).1.opened, InDirOrExplicit fs (WcollSpec.dirOf file) x := by
  unfold readWcoll
  rw [if_neg h1, search_path_of_plain file hp hc]
  split
  · intro x hx; simp at hx
  · split
    · exact readStream_opened mode fs _ _ (fun f fq h => resolve_inDir fs _ f fq h) _
    · intro x hx; simp at hx

/-- for standard input (`-`, `^-`, WCOLL=-) the directory is `.` -/
theorem stdin_includes_in_current_directory (mode : LineMode) (fs : FS) (stdin : Str) :
    ∀ x ∈ (readWcoll mode fs stdin ['-']).1.opened, InDirOrExplicit fs ['.'] x := by
  have : listSplit [':'] ['.'] = [['.']] := by decide
  simp only [readWcoll, if_true, this]
  exact readStream_opened mode fs _ _ (fun f fq h => resolve_inDir fs _ f fq h) _

/-- pinned on the real pdsh by checks/c10.py (`nested-lookup:*`): `t/A` includes `s/B`; `t/s/B` includes `C` and
`s/D`; a file `C` exists in `t` (right), next to the including file in `t/s` (decoy) and in the current
directory (decoy); `s/D` exists as `t/s/D` (right) and `t/s/s/D` (decoy) -/
example :
    let fs : FS := [⟨"t/A".toList, true, "a1\n#include s/B\na2\n".toList⟩,
      ⟨"t/s/B".toList, true, "b1\n#include C\n#include s/D\nb2\n".toList⟩,
      ⟨"t/C".toList, true, "c-right\n".toList⟩, ⟨"t/s/C".toList, true, "c-decoy\n".toList⟩,
      ⟨"C".toList, true, "c-decoy-cwd\n".toList⟩, ⟨"./C".toList, true, "c-decoy-cwd\n".toList⟩,
      ⟨"t/s/D".toList, true, "d-right\n#include C\n".toList⟩, ⟨"t/s/s/D".toList, true, "d-decoy\n".toList⟩]
    (readWcoll repairedReader fs [] "t/A".toList).1.exprs =
        ["a1", "b1", "c-right", "d-right", "b2", "a2"].map String.toList ∧
      (readWcoll repairedReader fs [] "t/A".toList).1.nwarn = 1 ∧
      (WcollSpec.fileHosts fs "t/A".toList).exprs = ["a1", "b1", "c-right", "d-right", "b2", "a2"].map String.toList := by
  decide

/-! ## include names and the reader's path buffer (`fq_path [PATHBUF]`; F10-LONGNAME, open) -/

/-- whatever an include line says, the path handed to `access` / `fopen` fits the buffer -/
theorem resolved_path_fits (fs : FS) (dirs : List (List Char)) (f fq : List Char) (h : resolve fs dirs f = some fq) :
    fq.length < PATHBUF :=
  resolve_fits fs dirs f fq h

/-- F10-LONGNAME, AS FOUND (`strncpy (buf, file, len - 1)`): for EVERY file system, search path, reader state and
depth, including an explicit name of `PATHBUF` bytes or more IS including ANOTHER name — its first `PATHBUF - 1` bytes:
the file system is never asked about the name that was written (which cannot exist: PATH_MAX), the hosts of the file
at the cut name are targeted, and no error is raised.  Pinned on the real pdsh by checks/c10.py `longname:*`. -/
theorem long_explicit_name_is_cut (mode : LineMode) (fs : FS) (dirs : List (List Char)) (k : Nat) (f : List Char)
    (c : Ctx) (he : isExplicit f = true) (hl : PATHBUF ≤ f.length) :
    f.take (PATHBUF - 1) ≠ f ∧
    readFile mode fs dirs (k + 1) f c = readFile mode fs dirs (k + 1) (f.take (PATHBUF - 1)) c := by
  have h1 := resolve_cuts_long fs dirs f he hl
  have h2 : resolve fs dirs (f.take (PATHBUF - 1)) = some (f.take (PATHBUF - 1)) := by
    have he' : isExplicit (f.take (PATHBUF - 1)) = true := by rw [isExplicit_take]; exact he
    simp [resolve, he', List.take_take]
  refine ⟨h1.2, ?_⟩
  conv => lhs; unfold readFile
  conv => rhs; unfold readFile
  rw [h1.1, h2]

/-- WITH findings/C10-LONGNAME.patch (`resolveR`): an explicit name is used exactly as written or it is an error
(never another name); names that fit the buffer — every name a file can have — and all bare names resolve as before -/
theorem explicit_name_as_written_or_error (fs : FS) (dirs : List (List Char)) (f : List Char)
    (he : isExplicit f = true) :
    (PATHBUF ≤ f.length → resolveR fs dirs f = none) ∧ (∀ fq, resolveR fs dirs f = some fq → fq = f) ∧
    (f.length < PATHBUF → resolveR fs dirs f = resolve fs dirs f) :=
  ⟨resolveR_refuses_long fs dirs f he, fun fq h => resolveR_as_written fs dirs f fq he h,
   fun h => (resolve_eq_resolveR fs dirs f h).symm⟩

/-- a bare name is looked up as `DIR/NAME`; when that does not fit the buffer it is an error in both forms
(`snprintf` + length test → ENOSPC) -/
theorem bare_name_too_long_is_error (fs : FS) (d name : List Char) (h : PATHBUF ≤ (d ++ '/' :: name).length)
    (hb : isExplicit name = false) : resolve fs [d] name = none ∧ resolveR fs [d] name = none := by
  have : pathLookup fs [d] name = none := by
    unfold pathLookup
    rw [if_pos h]
  simp [resolve, resolveR, hb, this]

example : isExplicit ("./".toList ++ List.replicate 5000 'a') = true ∧
    PATHBUF ≤ ("./".toList ++ List.replicate 5000 'a').length := by
  refine ⟨rfl, ?_⟩
  rw [List.length_append, List.length_replicate]
  decide

/-! ## descriptors: what the reader holds open (ghost `Fd` threaded through the reader, Opt/WcollFd.lean) -/

/-- the ghost does not influence the reader: erasing it gives `readFile` back -/
theorem fd_ghost_erasable (mode : LineMode) (fs : FS) (dirs : List (List Char)) (k : Nat) (f : List Char)
    (s : Ctx × Fd) : (readFileG mode fs dirs k f s).1 = readFile mode fs dirs k f s.1 :=
  readFileG_erase mode fs dirs k f s

/-- EVERY STREAM IS CLOSED AGAIN: when `wcoll_ctx_read_file` returns — file read, skipped as a duplicate
(the guard comes before `fopen`), missing or unreadable — the reader holds exactly the streams it held before,
for every file system and include graph.  (A reader that opens first and then returns from the guard without
`fclose` breaks this by one descriptor per skipped duplicate; checks/c10.py runs the real pdsh under a low
RLIMIT_NOFILE with more skipped duplicates than descriptors.) -/
theorem descriptors_balanced (mode : LineMode) (fs : FS) (dirs : List (List Char)) (k : Nat) (f : List Char)
    (s : Ctx × Fd) : (readFileG mode fs dirs k f s).2.nopen = s.2.nopen :=
  (readFileG_fd mode fs dirs k f s).1

/-- ONE STREAM PER INCLUDE LEVEL: the number of files open at the same time never exceeds the include depth -/
theorem open_files_le_depth (mode : LineMode) (fs : FS) (dirs : List (List Char)) (k : Nat) (f : List Char)
    (s : Ctx × Fd) : (readFileG mode fs dirs k f s).2.peak ≤ max s.2.peak (s.2.nopen + k) :=
  (readFileG_fd mode fs dirs k f s).2

/-- ... hence never the number of files + 1, however often files name one another -/
theorem open_files_le_files (mode : LineMode) (fs : FS) (dirs : List (List Char)) (f : List Char) (c : Ctx) :
    (readFileG mode fs dirs (fuelFor fs) f (c, {})).2.peak ≤ fs.length + 1 := by
  have h := (readFileG_fd mode fs dirs (fuelFor fs) f (c, {})).2
  simpa [fuelFor] using h

/-! ### the streams `read_wcoll` opens itself (closed again since 8d15944; F10-TOPFD was their leak) -/

/-- the ghost count next to the option processing does not influence it -/
theorem top_stream_ghost_erasable (leak : Bool) (mode : LineMode) (fs : FS) (stdin : List Char)
    (opts : List Opt) (env : Option (List Char)) :
    (assembleOptsT leak mode fs stdin opts env).1 = assembleOpts mode fs stdin opts env :=
  assembleOptsT_fst leak mode fs stdin opts env

/-- THE CODE (`read_wcoll` since /repo 8d15944: `if (f == NULL) fclose (fp)`): no stream opened for a `^file`,
an exclusion file or WCOLL is left open, whatever the command line -/
theorem top_streams_closed (mode : LineMode) (fs : FS) (stdin : List Char) (opts : List Opt)
    (env : Option (List Char)) : (assembleOptsT false mode fs stdin opts env).2 = 0 := by
  simp only [assembleOptsT]
  have h := foldl_optProcessT_closed mode fs opts ({ stdin := stdin }, 0)
  split
  · exact h
  · split
    · exact h
    · simp [h]

/-- F10-TOPFD (witness; repaired by /repo 8d15944): BEFORE that commit `read_wcoll` never closed the stream it
opened — `-w ^d/A,^d/B -x ^d/C` left three descriptors open (stdin `-` none); 60 file sources under `ulimit -n 40`
ended in "Too many open files" on the real pdsh.  checks/c10.py pins those command lines in every run: a tree
that loses the `fclose` again is reported with them -/
theorem top_streams_leak_witness :
    (assembleOptsT true repairedReader demoFS [] [.w "^d/A,^-,^d/B".toList, .x "^d/C".toList] none).2 = 3 ∧
    (assembleOptsT true repairedReader demoFS [] [] (some "d/A".toList)).2 = 1 := by decide

/-- three files that name one another in every way (cycle, diamond): three streams at most, none left open -/
example : (readFileG shipped demoFS ["d".toList] (fuelFor demoFS) "A".toList ({}, {})).2 = ⟨0, 3⟩ := by decide

/-! ## C10 ∘ C02 ∘ C01: from the command line to the hosts pdsh goes on with -/
section EndToEnd
open PdshVerif.Hostlist PdshVerif.Opt.Targets

/-- TARGET LIST, END TO END.  The command line is a list of segments in the order `wcoll_arg_process` sees
them: `-w` words (plain, one or TWO pairs of brackets), `^file` (its expressions, includes inlined, standing
where the file stands), standard input (`-w -` = `^-`: the segment `tfile "-"`, its bytes = `stdin`, includes
looked up in `.`), `-x` words, the exclusion files (`-x ^file`, dash `^file`), the regex words (`/re/`, and
the same behind a dash); `wenv` = WCOLL.  In the domain `targetDomain` (ONE decidable predicate: the conjunction
of the domains of C01's `create_word` / `wcoll_expand₂`, C02's `exclusion_correct` and C10's
`file_source_spec_partial`), with D1, D17, D19 and F02-2BR repaired (the order of /repo: `wcoll_expand` before
the exclusions and filters), the composition of
  * C10's reader (`readWcoll`, which fills the file table `Env.files` of C02's model — `envOf`) and the
    WCOLL step of `opt_args` (consulted iff no target segment — `targetList`, C02's `cliFinalW` on words),
  * C02's `wcoll_arg_process`, `wcoll_apply_excluded`, `wcoll_apply_regex` (`Exclude.argsProcess`, `finish`),
  * C01's `hostlist_create` and the re-expansion `wcoll_expand` (`wcoll_expand₂`, applied as it stands)
yields exactly: the expansion (C01's `expand₂`) of every target word in source order, the files' words inlined
(`WcollSpec.fileHosts`, the property-level reading with includes), minus every excluded name, filtered by every
regex. -/
theorem target_list_end_to_end (cfg : Cfg) (hD1 : cfg.fixDeleteAll = true) (hD17 : cfg.fixIterSuffix = true)
    (hD19 : cfg.fixRemoveDepth = true) (h2Br : cfg.fix2Br = true) (mode : LineMode) (fs : FS) (stdin : List Char)
    (rematch : List Char → List Char → Option Bool)
    (badre : List Char → Bool) (segs : List Seg) (wenv : Option (List Char × List Spec.Word))
    (hdom : targetDomain cfg mode fs stdin rematch badre segs wenv = true) :
    targetList cfg (envOf mode fs stdin rematch badre segs wenv) (wenv.map (·.1)) (segs.map Seg.text) =
      .ok ((((Spec.expand₂ (tgtWords segs wenv)).filter
              fun h => !(segs.flatMap Seg.xnames).contains h).filter
            (Exclude.keepAll (envOf mode fs stdin rematch badre segs wenv) (segs.flatMap Seg.reg)))) :=
  targetList_correct cfg hD1 hD17 hD19 h2Br mode fs stdin rematch badre segs wenv hdom

/-- without WCOLL the composed function IS C02's `cliWords` (the function `exclusion_correct` speaks about) -/
theorem target_list_is_cliWords (cfg : Cfg) (env : Exclude.Env) (words : List (List Char)) :
    targetList cfg env none words = Exclude.cliWords cfg env words :=
  targetList_no_env cfg env words

/-- with WCOLL it IS C02's `cliFinalW` on the words of the options -/
theorem target_list_is_cliFinalW (cfg : Cfg) (env : Exclude.Env) (wcollEnv : Option (List Char))
    (evs : List Exclude.Ev) :
    Exclude.cliFinalW cfg env wcollEnv evs = targetList cfg env wcollEnv (evs.flatMap Exclude.evWords) := rfl

/-- a site: `d/all` names a rack and includes `d/more`; `d/down` (hosts out of service) includes `d/more` too -/
def siteFS : FS :=
  [⟨"d/all".toList, true, "n[1-3]\n#include more\n".toList⟩,
   ⟨"d/more".toList, true, "m7 # spare\n".toList⟩,
   ⟨"d/down".toList, true, "#include more\nr1n2\n".toList⟩]

/-- `pdsh -w ^d/all,r[1-2]n[1-2] -x ^d/down -w WORD`, WORD = dash slash 3 slash (drop the names matching 3):
    a file with an include, a word with TWO pairs of brackets, an exclusion file with the same include -/
def siteSegs : List Seg :=
  [.tfile "d/all".toList [.br "n".toList [⟨"1".toList, some "3".toList⟩] [] none, .plain "m7".toList],
   .cw (.tgt (.br "r".toList [⟨"1".toList, some "2".toList⟩] "n".toList
     (some ([⟨"1".toList, some "2".toList⟩], [])))),
   .xfile "d/down".toList [.plain "m7".toList, .plain "r1n2".toList],
   .cw (.re true "3".toList)]

def siteMatch : List Char → List Char → Option Bool := fun p h => if p = "3".toList then some (h.contains '3') else none

/-- the domain is inhabited by a command line with an include file and an exclusion file (decided) -/
example : targetDomain Cfg.repaired .whole siteFS [] siteMatch (fun _ => false) siteSegs none = true := by decide

/-- ... and through the theorem: n[1-3] and m7 from the file, r[1-2]n[1-2]; m7 and r1n2 excluded by the exclusion
    file, n3 dropped by the regex -/
example : targetList Cfg.repaired (envOf .whole siteFS [] siteMatch (fun _ => false) siteSegs none) none
    (siteSegs.map Seg.text) =
    .ok ["n1".toList, "n2".toList, "r1n1".toList, "r2n1".toList, "r2n2".toList] := by
  have h := target_list_end_to_end Cfg.repaired rfl rfl rfl rfl .whole siteFS [] siteMatch (fun _ => false) siteSegs none
    (by decide)
  rw [show (none : Option (List Char × List Spec.Word)).map (·.1) = none from rfl] at h
  rw [h]
  decide

/-- `printf 'n[1-2]\\n#include d/more\\n' | pdsh -w - -w k1 -x ^d/down`: STANDARD INPUT as a source (read by
    the byte-level reader, its include looked up in `.`), a word after it, an exclusion file with the same include -/
def stdinSegs : List Seg :=
  [.tfile "-".toList [.br "n".toList [⟨"1".toList, some "2".toList⟩] [] none, .plain "m7".toList],
   .cw (.tgt (.plain "k1".toList)),
   .xfile "d/down".toList [.plain "m7".toList, .plain "r1n2".toList]]

def stdinFS : FS := siteFS ++ [⟨"./d/more".toList, true, "m7 # spare\n".toList⟩]

example : targetDomain Cfg.repaired repairedReader stdinFS "n[1-2]\n#include d/more\n".toList siteMatch (fun _ => false)
    stdinSegs none = true := by decide

example : targetList Cfg.repaired (envOf repairedReader stdinFS "n[1-2]\n#include d/more\n".toList siteMatch
      (fun _ => false) stdinSegs none) none (stdinSegs.map Seg.text) =
    .ok ["n1".toList, "n2".toList, "k1".toList] := by
  have h := target_list_end_to_end Cfg.repaired rfl rfl rfl rfl repairedReader stdinFS
    "n[1-2]\n#include d/more\n".toList siteMatch (fun _ => false) stdinSegs none (by decide)
  rw [show (none : Option (List Char × List Spec.Word)).map (·.1) = none from rfl] at h
  rw [h]
  decide

/-- two stdin sources are outside the domain (the second finds end of file: `stdin_read_once`) -/
example : targetDomain Cfg.repaired .whole [] "a\n".toList (fun _ _ => none) (fun _ => false)
    [.tfile "-".toList [.plain "a".toList], .tfile "-".toList [.plain "a".toList]] none = false := by decide

/-- the same list named by WCOLL alone (no target segment): WCOLL's file is read -/
example : targetDomain Cfg.repaired .whole siteFS [] siteMatch (fun _ => false)
    [.cw (.xcl (.plain "n2".toList))]
    (some ("d/all".toList, [.br "n".toList [⟨"1".toList, some "3".toList⟩] [] none, .plain "m7".toList])) = true := by
  decide

end EndToEnd

/-! ## the empty list: "no remote hosts specified", exit 1 -/
section EmptyList
open PdshVerif.Hostlist PdshVerif.Opt.Targets

/-- no target segment (only exclusions and filters) and no WCOLL: `opt->wcoll` stays NULL -/
theorem no_source_no_list (cfg : Cfg) (env : Exclude.Env) (segs : List Seg)
    (hok : ∀ s ∈ segs, SegOk cfg env s) (hfine : ∀ s ∈ segs, SegFine cfg s)
    (hnone : segs.any Seg.isTgt = false) :
    targetList cfg env none (segs.map Seg.text) = .nohosts := by
  obtain ⟨_, _, _, i4⟩ := foldl_step_spec cfg segs {} [] (by simp [WInv]) hfine
  rw [hnone] at i4
  have hw : (segs.foldl (step cfg) {}).wcoll = none := by
    cases h : (segs.foldl (step cfg) {}).wcoll with
    | none => rfl
    | some e => rw [h] at i4; simp at i4
  unfold targetList
  rw [argsProcess_segs cfg env segs {} hok]
  simp only [hw, Exclude.finish]

/-- what `opt_verify` asks of the list: `opt->wcoll != NULL && hostlist_count (opt->wcoll) != 0` -/
def listPresent : Exclude.Res → Bool
  | .ok (_ :: _) => true
  | _ => false

/-- EMPTY LIST IS REFUSED: when the list stayed NULL (no source of targets) or every target was excluded or
filtered out, `opt_verify` (C18's model, the list's presence supplied by this property) fails, `opt_args`
ends with exit 1, and the exit status of a refused run is 1 (C08 `refused_exit1`), whatever the other settings -/
theorem empty_list_exit1 (r : Exclude.Res) (hr : r = .nohosts ∨ r = .ok [])
    (fx : PdshVerif.Opt.Fixes) (d : PdshVerif.Opt.Defaults) (p : PdshVerif.Opt.Pers) (c : PdshVerif.Opt.Cfg)
    (nops : Nat) (hplain : c.pcpServer = false ∧ c.pcpClient = false)
    (fx' : PdshVerif.Dsh.Exit.Fixes) (fl : PdshVerif.Dsh.Exit.Flags) :
    PdshVerif.Opt.optVerify fx d p { c with hasWcoll := listPresent r } nops = false ∧
    PdshVerif.Dsh.Exit.mainExit fx' fl .refused = 1 := by
  refine ⟨?_, rfl⟩
  have hl : listPresent r = false := by rcases hr with rfl | rfl <;> rfl
  simp [PdshVerif.Opt.optVerify, PdshVerif.Opt.optVerifyPlain, hl, hplain.1, hplain.2]

/-- `pdsh -w n1,n2 -x n[1-2]`: every target is excluded — through `target_list_end_to_end` the list is empty -/
example : targetList Cfg.repaired (envOf .whole [] [] (fun _ _ => none) (fun _ => false)
      [.cw (.tgt (.plain "n1".toList)), .cw (.tgt (.plain "n2".toList)),
       .cw (.xcl (.br "n".toList [⟨"1".toList, some "2".toList⟩] [] none))] none) none
    ["n1".toList, "n2".toList, "-n[1-2]".toList] = .ok [] := by
  have h := target_list_end_to_end Cfg.repaired rfl rfl rfl rfl .whole [] [] (fun _ _ => none) (fun _ => false)
    [.cw (.tgt (.plain "n1".toList)), .cw (.tgt (.plain "n2".toList)),
     .cw (.xcl (.br "n".toList [⟨"1".toList, some "2".toList⟩] [] none))] none (by decide)
  rw [show (none : Option (List Char × List Spec.Word)).map (·.1) = none from rfl] at h
  exact h.trans (by decide)

end EmptyList

end PdshVerif.Props.C10
