/-
  C02  An excluded or filtered-out host is never contacted; all others survive.
  PROPERTY THEOREMS ONLY (helper lemmas live in PdshVerif/Opt/ExcludeLemmas.lean and
  PdshVerif/Hostlist/Lemmas*.lean).

  Model: PdshVerif/Opt/Exclude.lean (opt.c exclusion / filter path over the editable host list of
  C16).  Spec: PdshVerif/Opt/ExcludeSpec.lean.  `cfg : Cfg` carries the defect switches.
-/
import PdshVerif.Opt.ExcludeLemmas

namespace PdshVerif.C02
open PdshVerif.Hostlist PdshVerif.Opt PdshVerif.Opt.Exclude

/-- TERMINATION (repaired D2): the buffer loop of `list_push_hostlist` stops within 12 doublings
    whatever the length of the exclusion text -/
theorem pushHostlist_terminates (len : Nat) : ∃ n, pushLoop true len PUSH_FUEL 4096 = some n :=
  pushLoop_fixed_terminates len 12 4096 (by decide)

/-- D2: the unchanged loop (`n*=2 < 0x7fffff`, i.e. `n *= 1`) never ends once the ranged form of an
    exclusion file needs 4095 bytes or more — no amount of fuel gets `pdsh` out of `opt_args` -/
theorem pushHostlist_unchanged_diverges (len : Nat) (h : len ≥ 4095) :
    ∀ fuel, pushLoop false len fuel 4096 = none :=
  pushLoop_unchanged_diverges len h

/-- … and below that size the unchanged loop is not entered at all -/
theorem pushHostlist_unchanged_small (len : Nat) (h : len < 4095) (fuel : Nat) :
    pushLoop false len (fuel + 1) 4096 = some 4096 := by
  unfold pushLoop
  have : ¬ len ≥ 4096 - 1 := by omega
  simp [this]

end PdshVerif.C02
