/-
  C02  An excluded or filtered-out host is never contacted; all others survive.
  PROPERTY THEOREMS ONLY (helper lemmas: PdshVerif/Opt/Exclude{Lemmas,Filter,Compose,Order,Contact}.lean and
  PdshVerif/Hostlist/Lemmas{Find,FindComplete,DeleteName,Delete,Pop}.lean).

  Model: PdshVerif/Opt/Exclude.lean (opt.c exclusion / filter path over the editable host list of C16) — the
  definitions `pdshmodel hl xcl` executes.  Spec: PdshVerif/Opt/ExcludeSpec.lean.  `cfg : Cfg` carries the defect
  switches (probed from the code on every run); theorems hold for all variants unless they name a switch.

  clause of the property text                               theorem
  --------------------------------------------------------  ---------------------------------------------------------
  (the oracle of the check is the theorems' right side)     `oracle_is_spec`
  final list = assembled targets minus every occurrence     `exclusion_correct` (words), `exclusion_correct_options`
    of every excluded host, filters applied                   (-w / -x arguments: list_split, the dash of -x),
                                                              `file_contents_to_contacted` (file CONTENTS, includes,
                                                              WCOLL, two-bracket words: C10's theorem imported)
  -x list / `-` word / -x ^file / -^file                    `x_option_is_dash_words` (every variant),
                                                              `exclusion_correct_options`; files: C10
                                                              `target_list_end_to_end` + `excluded_file_same_reader`
  /re/ keeps only matches, dash /re/ removes all matches    `filterRegex_hosts`, `applyRegex_hosts`,
                                                              `filter_keep_drop_complement`, `filter_matches_everything`,
                                                              `filter_matches_nothing`
  regardless of the order of targets, exclusions, filters   `model_order_independent`, `grouping_independent` (the MODEL),
                                                              `spec_order_independent` (the specification)
  whole names exactly (foo1 / foo10 / foo01 / foo1-ib)      `find_complete` + C16 `find_sound`, `delete_host_exact`,
                                                              `exclusion_only_named`
  survivors keep relative order and multiplicity            `exclusion_repaired`, `filterRegex_hosts` (list equalities)
  never CONTACTED / the others are contacted                `excluded_never_contacted` (C03's fan-out LTS imported)
  always terminates whatever the size of the exclusions     `pipeline_terminates`, `pushHostlist_terminates`,
                                                              `pushHostlistR_terminates_whole`, `exclusion_file_whole`
                                                              (the loop of /repo b20e58e: NO ceiling, the entry is the
                                                              whole text or — from 2^63-1 bytes on — `errx`); the loop
                                                              as it was before (F02-XFILE-4MIB, FIXED):
                                                              `exclusion_file_ceiling_whole`, `exclusion_file_cut`;
                                                              unchanged D2: `pushHostlist_unchanged_diverges`
  a recognisable class of command lines                     `domain_syntactic`, `entry_ok_syntactic`,
                                                              `exclusion_correct_syntactic` (`SynOk`: a Boolean on the
                                                              words, computed without the model ⇒ `Domain`, `EntryOk`)
  rank of a host = its index in the final list              `rank_is_index` (the list OBJECT `cliWordsL`; C01 `iter_all`
                                                              imported), `contacted_with_rank` (C09 `rank_is_position`
                                                              and C03's fan-out imported)
  whatever was parsed before (stale errno = ERANGE after    `name_parse_order_independent` (hostname_create with errno as
    a 20+ digit tail; names in any order in the list)         explicit state = the pure parse the model executes, for every
                                                              list and every incoming errno), `long_tail_is_plain_host`
  the driver executes the definitions of the theorems       `fast_path_is_model`, `fast_path_is_cliFinal` (the linear
                                                              path Opt/ExcludeFast.lean = `cliFinalW`, every input)
  Witnesses (`decide`): D1, F02-2BR end to end through `cliFinal`; instances derived THROUGH the theorems:
  `exclusion_correct_instance`, `exclusion_correct_options_instance`, the examples after each theorem.

  What is assumed of regcomp / regexec: see the note in section "regex filters" (nothing about WHAT matches).

  NOT proved: `hostlist_filter_regex` for the UNCHANGED `hostlist_remove` (D19: the iterator revisits hosts; the
  test is idempotent; correspondence only — /repo carries the repair); exclusion words whose names have a numeric
  tail > 2^25 (`SmallName`, F16-BIGSUFFIX at the library level); that dsh.c refines C03's LTS (C03's trace
  correspondence) and that `dsh()` is the loop `dshThreads` describes (read off dsh.c:1135-1142, checked by the exec
  observations of the check: `%n` is C09's); `SynOk` ⇒ `Domain` for TWO-bracket words and for names longer than 15
  characters (there `Domain` stays a per-command-line decidable hypothesis); `SynOk` is stated on the words by meaning
  (`CW`), the step from the argv TEXT to the words is `oracle_is_spec`'s `ReadsRight` (C01's `Spec.classify`);
  exclusion FILES in the syntactic class (C10's `targetDomain` asks their ranged text to be < 4095 bytes; the model
  itself, `exclusion_file_whole`, has no such bound).
-/
import PdshVerif.Opt.ExcludeContact
import PdshVerif.Opt.ExcludeBridge
import PdshVerif.Opt.ExcludeSyntax
import PdshVerif.Opt.ExcludeFast
import PdshVerif.Opt.ExcludeRank
import PdshVerif.Opt.ExcludeLongTail
import PdshVerif.Props.C01
import PdshVerif.Props.C09
import PdshVerif.Props.C10

namespace PdshVerif.C02
open PdshVerif.Hostlist PdshVerif.Opt.Exclude
open PdshVerif.Opt hiding Str Cfg Env Fixes

/-! ### whole-name matching -/
/-- FIND is COMPLETE on small names: a name the records denote is found (`SmallName`: the name's
    whole trailing digit run, read as a number, is ≤ MAX_HOST_SUFFIX = 2^25; without it the
    statement is false: `C16.find_miss_big_suffix`) -/
theorem find_complete (rs : List HRange) (name : Str) (hg : ∀ r ∈ rs, r.Good) (hsm : SmallName name)
    (hmem : name ∈ hostsL rs) : (findRanges rs name).1 ≠ none := by
  intro h
  generalize hf : findRanges rs name = fr at h
  obtain ⟨res, rs'⟩ := fr
  simp only at h
  subst h
  exact findLoop_none_not_mem name hsm rs 0 rs' hg hf hmem

/-- ONE `hostlist_delete_host(x)` (every variant, any iterators): it answers 1 and erases a host
    that is EXACTLY `x`, or answers 0 and changes nothing — and then a small `x` was not there -/
theorem delete_host_exact (cfg : Cfg) (e : EL) (x : Str) (hg : e.Good) :
    (deleteHostE cfg e x).2.Good ∧
    (((deleteHostE cfg e x).1 = 1 ∧ ∃ i, e.hosts[i]? = some x ∧ (deleteHostE cfg e x).2.hosts = e.hosts.eraseIdx i) ∨
     ((deleteHostE cfg e x).1 = 0 ∧ (deleteHostE cfg e x).2.hosts = e.hosts ∧ (SmallName x → x ∉ e.hosts))) :=
  deleteHostE_spec cfg e x hg

/-- ALL OTHERS SURVIVE (every variant): whatever names an exclusion entry hands to
    `hostlist_delete_host`, a host whose name is not among them keeps every occurrence —
    excluding foo1 never takes foo10, foo01 or foo1-ib -/
theorem exclusion_only_named (cfg : Cfg) (y : Str) (names : List Str) (e : EL) (hg : e.Good) (hy : y ∉ names) :
    (names.foldl (fun acc x => (deleteNameE cfg acc x).2) e).hosts.count y = e.hosts.count y :=
  (foldl_deleteNameE_other cfg y names e hg hy).2

/-- NEVER CONTACTED (repaired D1): after `wcoll_apply_excluded` exactly the hosts that no entry
    names are left, in their order and multiplicity (`EntryOk`: the entry parses, its temporary
    list is in order, its names are small) -/
theorem exclusion_repaired (cfg : Cfg) (hfix : cfg.fixDeleteAll = true) (es : List (Str × List Str)) (e : EL)
    (hg : e.Good) (hok : ∀ p ∈ es, EntryOk cfg p.1 p.2) :
    ∃ e', applyExcluded cfg (es.map (·.1)) e = .ok e' ∧ e'.Good ∧
      e'.hosts = e.hosts.filter (fun h => !(es.flatMap (·.2)).contains h) :=
  applyExcluded_repaired cfg hfix es e hg hok

/-! ### regex filters -/
/-- FILTER (repaired D19): `hostlist_filter_regex(hl, re)` — a live iterator over the list, a
    `hostlist_remove` for every host the filter rejects, through range splits, shrinking records and
    records that go away — leaves exactly `hosts.filter keep`, in order and multiplicity.
    (`IdsOk`: distinct record identities; `PrintsFull`: D17 repaired or narrow numbers; no other
    live iterator; the oracle answers for every host of the list) -/
theorem filterRegex_hosts (cfg : Cfg) (hfix : cfg.fixRemoveDepth = true) (m : Str → Option Bool) (exclude : Bool)
    (pat : Str) (e : EL) (hid : e.IdsOk) (hg : e.Good) (hf : ∀ q ∈ e.ranges, q.PrintsFull cfg) (hits : e.its = [])
    (hm : ∀ h ∈ e.hosts, (m h).isSome = true) :
    ∃ e', filterRegex cfg m exclude pat e = .ok e' ∧ e'.hosts = e.hosts.filter (keepOf m exclude) ∧ e'.Good := by
  obtain ⟨e', h1, h2, _, h4, _, _⟩ := filterRegex_spec cfg hfix (·.PrintsFull cfg)
    (fun _ _ h hw hh hs => narrow_of_le h hw hh hs) (fun _ h => h) m exclude pat e hid hg hf hits hm
  exact ⟨e', h1, h2, h4⟩

/-- `wcoll_apply_regex` (repaired D19): the hosts that pass EVERY filter of `regex_list` stay;
    since `keepAll` is a conjunction the order of the filters does not matter -/
theorem applyRegex_hosts (cfg : Cfg) (hfix : cfg.fixRemoveDepth = true) (env : Env) (rs : List (Bool × Str)) (e : EL)
    (hid : e.IdsOk) (hg : e.Good) (hf : ∀ q ∈ e.ranges, q.PrintsFull cfg) (hits : e.its = [])
    (hm : ∀ p ∈ rs, ∀ h ∈ e.hosts, (env.rematch p.2 h).isSome = true) :
    ∃ e', applyRegex cfg env rs e = .ok e' ∧ e'.hosts = e.hosts.filter (keepAll env rs) ∧ e'.Good := by
  obtain ⟨e', h1, h2, _, h4, _, _⟩ := applyRegex_spec cfg hfix (·.PrintsFull cfg)
    (fun _ _ h hw hh hs => narrow_of_le h hw hh hs) (fun _ h => h) env rs e hid hg hf hits hm
  exact ⟨e', h1, h2, h4⟩

/-! What is assumed of `regcomp` / `regexec`: NOTHING about which strings a pattern matches.  The theorems hold for
    every oracle `m : host → Option Bool` (for every table `env.rematch : pattern → host → Option Bool`): all they
    use is that the verdict on a host is a function of (pattern, host name) — the same name gets the same verdict
    wherever it stands in the list and however often it is asked — and that `regcomp`'s refusal is a function of
    the pattern (`env.badre`).  The check fills the table with libc's answers for the flags of
    `regex_info_create` (REG_EXTENDED | REG_NOSUB, eflags 0; harness/regex_oracle.c); a pattern that matches the
    empty string or every name, or none, is just a constant oracle: -/

/-- KEEP and DROP are complements: the filter written slash re slash and the same pattern behind a dash split
    the list — every occurrence of every host is in exactly one of the two results -/
theorem filter_keep_drop_complement (cfg : Cfg) (hfix : cfg.fixRemoveDepth = true) (m : Str → Option Bool)
    (pat : Str) (e : EL) (hid : e.IdsOk) (hg : e.Good) (hf : ∀ q ∈ e.ranges, q.PrintsFull cfg) (hits : e.its = [])
    (hm : ∀ h ∈ e.hosts, (m h).isSome = true) :
    ∃ ek ed, filterRegex cfg m false pat e = .ok ek ∧ filterRegex cfg m true pat e = .ok ed ∧
      ∀ x, ek.hosts.count x + ed.hosts.count x = e.hosts.count x := by
  obtain ⟨ek, h1, h2, _⟩ := filterRegex_hosts cfg hfix m false pat e hid hg hf hits hm
  obtain ⟨ed, h3, h4, _⟩ := filterRegex_hosts cfg hfix m true pat e hid hg hf hits hm
  exact ⟨ek, ed, h1, h3, fun x => by rw [h2, h4]; exact filter_keep_drop_count m x e.hosts hm⟩

/-- a pattern that matches EVERY host of the list (the empty pattern, `.*`, `^`, `x*` …): as a keep filter it
    removes nobody, as a drop filter it leaves nobody -/
theorem filter_matches_everything (cfg : Cfg) (hfix : cfg.fixRemoveDepth = true) (m : Str → Option Bool)
    (pat : Str) (e : EL) (hid : e.IdsOk) (hg : e.Good) (hf : ∀ q ∈ e.ranges, q.PrintsFull cfg) (hits : e.its = [])
    (hm : ∀ h ∈ e.hosts, m h = some true) :
    (∃ e', filterRegex cfg m false pat e = .ok e' ∧ e'.hosts = e.hosts) ∧
    (∃ e', filterRegex cfg m true pat e = .ok e' ∧ e'.hosts = []) := by
  have hs : ∀ h ∈ e.hosts, (m h).isSome = true := fun h hh => by rw [hm h hh]; rfl
  obtain ⟨ek, h1, h2, _⟩ := filterRegex_hosts cfg hfix m false pat e hid hg hf hits hs
  obtain ⟨ed, h3, h4, _⟩ := filterRegex_hosts cfg hfix m true pat e hid hg hf hits hs
  refine ⟨⟨ek, h1, ?_⟩, ⟨ed, h3, ?_⟩⟩
  · rw [h2]; exact filter_all_true fun h hh => keepOf_keep (hm h hh)
  · rw [h4]; exact filter_all_false fun h hh => by rw [keepOf_drop (hm h hh)]; rfl

/-- a pattern that matches NO host of the list (`^$`, `q`): as a keep filter it leaves nobody ("no remote hosts
    specified"), as a drop filter it removes nobody -/
theorem filter_matches_nothing (cfg : Cfg) (hfix : cfg.fixRemoveDepth = true) (m : Str → Option Bool)
    (pat : Str) (e : EL) (hid : e.IdsOk) (hg : e.Good) (hf : ∀ q ∈ e.ranges, q.PrintsFull cfg) (hits : e.its = [])
    (hm : ∀ h ∈ e.hosts, m h = some false) :
    (∃ e', filterRegex cfg m false pat e = .ok e' ∧ e'.hosts = []) ∧
    (∃ e', filterRegex cfg m true pat e = .ok e' ∧ e'.hosts = e.hosts) := by
  have hs : ∀ h ∈ e.hosts, (m h).isSome = true := fun h hh => by rw [hm h hh]; rfl
  obtain ⟨ek, h1, h2, _⟩ := filterRegex_hosts cfg hfix m false pat e hid hg hf hits hs
  obtain ⟨ed, h3, h4, _⟩ := filterRegex_hosts cfg hfix m true pat e hid hg hf hits hs
  refine ⟨⟨ek, h1, ?_⟩, ⟨ed, h3, ?_⟩⟩
  · rw [h2]; exact filter_all_false fun h hh => keepOf_keep (hm h hh)
  · rw [h4]; exact filter_all_true fun h hh => by rw [keepOf_drop (hm h hh)]; rfl

/-! ### composition -/
/-- EXCLUSION CORRECT.  `ws`: the comma words of the command line by meaning — target words
    (`pre[ranges]suffix` or plain names), exclusion words (`-` + such a word), filters (`/re/`, and the
    same behind a `-`) in ANY order.  With D1, D17, D19 repaired and inside `Domain` (word shapes; one-bracket
    targets; exclusion entries parse, their names are small; the regex oracle answers for every
    target; numbers below 10^15) the hosts pdsh goes on with are
        targets.filter (· ∉ excluded) |>.filter (passes every filter)
    with the targets in command-line order, multiplicities kept (`specWords`; `expand₁ = expand₂`
    for one-bracket words, `expand₂_oneBracket`).  `cliFinal` is `cliWords` on the split options.
    Holds for the code as found AND with F02-2BR repaired (`cfg.fix2Br`, re-expansion before the
    exclusions and filters; `Domain.entries2` is the hypothesis the repaired order adds). -/
theorem exclusion_correct (cfg : Cfg) (hD1 : cfg.fixDeleteAll = true) (hD17 : cfg.fixIterSuffix = true)
    (hD19 : cfg.fixRemoveDepth = true) (env : Env) (ws : List CW) (hd : Domain cfg env ws) :
    cliWords cfg env (ws.map CW.text) = .ok (specWords env ws) :=
  cliWords_correct cfg hD1 hD17 hD19 env ws hd

/-- the domain is inhabited: targets foo[1-3] and bar, foo2 excluded, names matching `3` dropped —
    pdsh goes on with foo1 and bar, BY the theorem (`demo_domain` proves every hypothesis) -/
theorem exclusion_correct_instance :
    cliWords Cfg.repaired demoEnv (demoWords.map CW.text) = .ok ["foo1".toList, "bar".toList] :=
  demo_correct


/-! ### a recognisable class of command lines -/
/-- SYNTAX ⇒ DOMAIN.  `SynOk` (Opt/ExcludeSyntax.lean) is a decidable predicate on the WORDS of the command line,
    computed without the list model: ≥ 1 target word; every target / exclusion word a well-formed expression (C01's
    `WF`, `wordDom`) with at most one bracket pair whose first character makes `wcoll_arg_process` take it as a host
    word; every name at most 15 characters; every excluded name ending in at most 7 digits.  It implies every
    model-level hypothesis of `Domain` — `EntryOk` of every exclusion entry (`entry_ok_syntactic`), the bound on the
    assembled numbers — so that `exclusion_correct` holds for the whole class, not per instance.  What remains is
    about the ENVIRONMENT: `regcomp` accepts the patterns and the oracle table answers for them. -/
theorem domain_syntactic (cfg : Cfg) (env : Env) (ws : List CW) (hs : SynOk cfg ws = true)
    (hre : ∀ p ∈ regs ws, env.badre p.2 = false)
    (ho : ∀ p ∈ regs ws, ∀ h ∈ Spec.expand₁ (tgts ws), (env.rematch p.2 h).isSome = true) : Domain cfg env ws :=
  domain_of_syntax cfg env ws hs hre ho

/-- one exclusion entry: the text of a well-formed word whose names are short and end in at most 7 digits parses, its
    temporary list is in order and it denotes exactly the names the word stands for -/
theorem entry_ok_syntactic (cfg : Cfg) (w : Spec.Word) (hw : w.WF = true) (hd : wordDom cfg w)
    (hn : ∀ n ∈ w.expand₁, nameOk n = true) : EntryOk cfg (Spec.renderWord w) w.expand₁ :=
  entryOk_of_syntax cfg w hw hd hn

/-- EXCLUSION CORRECT FOR THE SYNTACTIC CLASS: no hypothesis mentions the model -/
theorem exclusion_correct_syntactic (cfg : Cfg) (hD1 : cfg.fixDeleteAll = true) (hD17 : cfg.fixIterSuffix = true)
    (hD19 : cfg.fixRemoveDepth = true) (env : Env) (ws : List CW) (hs : SynOk cfg ws = true)
    (hre : ∀ p ∈ regs ws, env.badre p.2 = false)
    (ho : ∀ p ∈ regs ws, ∀ h ∈ Spec.expand₁ (tgts ws), (env.rematch p.2 h).isSome = true) :
    cliWords cfg env (ws.map CW.text) = .ok (specWords env ws) ∧ (cliWords cfg env (ws.map CW.text)).ends = true :=
  ⟨exclusion_correct cfg hD1 hD17 hD19 env ws (domain_of_syntax cfg env ws hs hre ho),
   cliWords_ends cfg hD1 hD17 hD19 env ws (domain_of_syntax cfg env ws hs hre ho)⟩

/-- non-vacuity: the demo command line is in the class (ONE `decide` of a Boolean on the words), and so is a command
    line with a padded range, a suffix and a bracketed exclusion: `-w node[08-11]-ib,x9 -x node[09-10]-ib,x9` -/
example : SynOk Cfg.repaired demoWords = true ∧
    SynOk Cfg.repaired
      [.tgt (.br "node".toList [⟨"08".toList, some "11".toList⟩] "-ib".toList none), .tgt (.plain "x9".toList),
       .xcl (.br "node".toList [⟨"09".toList, some "10".toList⟩] "-ib".toList none), .xcl (.plain "x9".toList)] = true := by
  constructor <;> decide

/-! ### order independence OF THE MODEL, the option level, termination -/
/-- REGARDLESS OF THE ORDER (the model, not only the specification): `b` is a permutation of the words `a` in
    which the target words keep their relative order — exclusions and filters may stand before, between or after
    the targets, in any order.  `wcoll_arg_process` on every word, then `wcoll_apply_excluded`, `wcoll_apply_regex`,
    `wcoll_expand` give the same hosts for both (`Domain` is asked of ONE of the two: it only depends on which
    words there are). -/
theorem model_order_independent (cfg : Cfg) (hD1 : cfg.fixDeleteAll = true) (hD17 : cfg.fixIterSuffix = true)
    (hD19 : cfg.fixRemoveDepth = true) (env : Env) (a b : List CW) (hd : Domain cfg env a)
    (hp : a.Perm b) (ht : tgts a = tgts b) :
    cliWords cfg env (b.map CW.text) = cliWords cfg env (a.map CW.text) :=
  cliWords_order_independent cfg hD1 hD17 hD19 env a b hd hp ht

/-- non-vacuity: the exclusion first, the filter between the two targets — same hosts as `demoWords` -/
example : cliWords Cfg.repaired demoEnv
    ([CW.xcl (.plain "foo2".toList), .tgt (.br "foo".toList [⟨"1".toList, some "3".toList⟩] [] none),
      .re true "3".toList, .tgt (.plain "bar".toList)].map CW.text) =
    .ok ["foo1".toList, "bar".toList] := by
  rw [model_order_independent Cfg.repaired rfl rfl rfl demoEnv demoWords _ demo_domain
    ((List.Perm.swap _ _ _).trans (.cons _ (.cons _ (.swap _ _ [])))) rfl]
  exact demo_correct

/-- FROM THE OPTIONS: the command line as `getopt` hands it over — a list of `-w LIST` and `-x LIST` arguments,
    the words grouped into options in any way (`OptG.ok`, decidable: every piece survives `list_split`: non-empty,
    no comma outside brackets, brackets balanced) — `list_split`, the dash `wcoll_append_excluded` puts in front
    of every piece of a `-x` argument, and the rest of `opt_args` lead to the specification's hosts -/
theorem exclusion_correct_options (cfg : Cfg) (hD1 : cfg.fixDeleteAll = true) (hD17 : cfg.fixIterSuffix = true)
    (hD19 : cfg.fixRemoveDepth = true) (env : Env) (gs : List OptG) (hok : ∀ g ∈ gs, g.ok = true)
    (hd : Domain cfg env (gs.flatMap OptG.words)) :
    cliFinal cfg env (gs.map OptG.ev) = .ok (specWords env (gs.flatMap OptG.words)) :=
  cliFinal_options cfg hD1 hD17 hD19 env gs hok hd

/-- `pdsh -w foo[1-3] -x foo2 -w bar,WORD` with WORD = dash slash 3 slash: foo1 and bar, through the theorem -/
def demoOptions : List OptG :=
  [.w [.tgt (.br "foo".toList [⟨"1".toList, some "3".toList⟩] [] none)], .x [.xcl (.plain "foo2".toList)],
   .w [.tgt (.plain "bar".toList), .re true "3".toList]]

example : demoOptions.map OptG.ev = [.w "foo[1-3]".toList, .x "foo2".toList, .w "bar,-/3/".toList] := by decide

theorem exclusion_correct_options_instance :
    cliFinal Cfg.repaired demoEnv (demoOptions.map OptG.ev) = .ok ["foo1".toList, "bar".toList] := by
  rw [exclusion_correct_options Cfg.repaired rfl rfl rfl demoEnv demoOptions (by decide) demo_domain]
  decide

/-- EVERY SOURCE OF EXCLUSIONS IS ONE MECHANISM: a `-x LIST` option and a `-w` option holding the same pieces behind
    dashes are the same words for `wcoll_arg_process` — host words, caret-file words (an exclusion file) and filters
    alike — so `opt_args` ends with the same list; for EVERY variant of the code, whatever stands before and after -/
theorem x_option_is_dash_words (cfg : Cfg) (env : Env) (pre post : List Ev) (ps : List Str)
    (hok : ∀ p ∈ ps, Wcoll.pieceOK p = true) (hok' : ∀ p ∈ ps, Wcoll.pieceOK ('-' :: p) = true)
    (hd : optText (ps.map ('-' :: ·)) ≠ ['-']) :
    cliFinal cfg env (pre ++ [.x (optText ps)] ++ post) =
      cliFinal cfg env (pre ++ [.w (optText (ps.map ('-' :: ·)))] ++ post) :=
  cliFinal_x_eq_dash_w cfg env pre post ps hok hok' hd

/-- the option `-x foo2,^F,/3/` and the `-w` option with the same three pieces behind dashes (the hypotheses are
    decidable) -/
example : optText ["foo2".toList, "^F".toList, "/3/".toList] = "foo2,^F,/3/".toList ∧
    optText (["foo2".toList, "^F".toList, "/3/".toList].map ('-' :: ·)) = "-foo2,-^F,-/3/".toList ∧
    (∀ p ∈ ["foo2".toList, "^F".toList, "/3/".toList], Wcoll.pieceOK p = true ∧ Wcoll.pieceOK ('-' :: p) = true) := by
  decide

/-- ... and neither the grouping of the words into options nor their order matters -/
theorem grouping_independent (cfg : Cfg) (hD1 : cfg.fixDeleteAll = true) (hD17 : cfg.fixIterSuffix = true)
    (hD19 : cfg.fixRemoveDepth = true) (env : Env) (g1 g2 : List OptG) (h1 : ∀ g ∈ g1, g.ok = true)
    (h2 : ∀ g ∈ g2, g.ok = true) (hd : Domain cfg env (g1.flatMap OptG.words))
    (hp : (g1.flatMap OptG.words).Perm (g2.flatMap OptG.words))
    (ht : tgts (g1.flatMap OptG.words) = tgts (g2.flatMap OptG.words)) :
    cliFinal cfg env (g2.map OptG.ev) = cliFinal cfg env (g1.map OptG.ev) :=
  cliFinal_grouping_independent cfg hD1 hD17 hD19 env g1 g2 h1 h2 hd hp ht

/-- ALWAYS TERMINATES, whatever the size of the exclusion list: inside `Domain` (which bounds neither the number
    of exclusion words nor the number of names each denotes nor the number of filters) the model of `opt_args`,
    run with the fuel the driver passes, never reports `diverge` or exhausted fuel -/
theorem pipeline_terminates (cfg : Cfg) (hD1 : cfg.fixDeleteAll = true) (hD17 : cfg.fixIterSuffix = true)
    (hD19 : cfg.fixRemoveDepth = true) (env : Env) (ws : List CW) (hd : Domain cfg env ws) :
    (cliWords cfg env (ws.map CW.text)).ends = true :=
  cliWords_ends cfg hD1 hD17 hD19 env ws hd

/-- THE ORACLE IS THE THEOREM'S RIGHT-HAND SIDE: the executable specification `ExcludeSpec.final` (what
    `pdshmodel hl xspec` prints; the real pdsh is compared with it on every generated command line) and the
    `specWords` of `exclusion_correct` are the same list, for command lines whose words the text-level reading
    (`ExcludeSpec.names`, i.e. C01's `Spec.classify`) reads as what they mean (`ReadsRight`, decidable per command
    line; in general it is C01's statement about `classify`) -/
theorem oracle_is_spec (env : Env) (ws : List CW) (hr : ReadsRight ws)
    (ho : ∀ p ∈ regs ws, ∀ h ∈ Spec.expand₁ (tgts ws), (env.rematch p.2 h).isSome = true) :
    ExcludeSpec.final (specEnv env) (ws.map CW.item) = .hosts (specWords env ws) :=
  final_eq_specWords env ws hr ho

/-- hence model = oracle, by the two theorems, on the demo command line -/
example : cliWords Cfg.repaired demoEnv (demoWords.map CW.text) = .ok ["foo1".toList, "bar".toList] ∧
    ExcludeSpec.final (specEnv demoEnv) (demoWords.map CW.item) = .hosts ["foo1".toList, "bar".toList] := by
  refine ⟨demo_correct, ?_⟩
  rw [oracle_is_spec demoEnv demoWords ⟨by decide, by decide⟩ demo_domain.oracle]
  decide

/-! ### up to the hosts contacted (C02 ∘ C03) -/
/-- NEVER CONTACTED / ALL OTHERS SURVIVE, at the level of `rcmd_connect`.  `hosts`: what `opt_args` leaves in
    `opt->wcoll` for the words `ws` (C02's model); `dsh()` makes one target per host, in list order, and C03's
    fan-out LTS (every schedule of dispatcher and workers, either wait construct, any fanout, spurious wake-ups)
    starts the connects.  In EVERY execution `ls`, finished or not:
      * every host a connect was started for is a target that no exclusion names and that passes every filter,
      * no position of the list gets a second connect;
    and once `dsh()` has returned the hosts contacted are exactly the specification's list, every occurrence
    once (as a multiset: the ORDER of the connects belongs to the scheduler).
    Imports C03 `each_op_once`, `none_else`, `exit_after_all`; that dsh.c refines the LTS is C03's correspondence. -/
theorem excluded_never_contacted (cfg : Cfg) (hD1 : cfg.fixDeleteAll = true) (hD17 : cfg.fixIterSuffix = true)
    (hD19 : cfg.fixRemoveDepth = true) (env : Env) (ws : List CW) (hd : Domain cfg env ws) (hosts : List Str)
    (hc : cliWords cfg env (ws.map CW.text) = .ok hosts)
    (v : Dsh.Fan.Variant) (f : Nat) (ls : List Dsh.Fan.Label) (s : Dsh.Fan.St)
    (he : Dsh.Fan.Exec (Dsh.Fan.init v f hosts.length) ls s) :
    (∀ h ∈ contacted hosts ls, h ∈ Spec.expand₁ (tgts ws) ∧ h ∉ Spec.expand₁ (xcls ws) ∧
        keepAll env (regs ws) h = true) ∧
    (started ls).Nodup ∧
    (Dsh.Fan.Final s → (contacted hosts ls).Perm (specWords env ws)) := by
  have hh : hosts = specWords env ws := by
    rw [exclusion_correct cfg hD1 hD17 hD19 env ws hd] at hc
    exact (Res.ok.inj hc).symm
  refine ⟨fun h hm => ?_, (started_nodup_lt he).1, fun hf => ?_⟩
  · have := contacted_mem hosts ls h hm
    rw [hh] at this
    unfold specWords at this
    obtain ⟨h1, h2⟩ := List.mem_filter.mp this
    obtain ⟨h3, h4⟩ := List.mem_filter.mp h1
    refine ⟨h3, ?_, h2⟩
    intro hx
    have h5 : ¬ h ∈ Spec.expand₁ (xcls ws) := by simpa using h4
    exact h5 hx
  · have := contacted_perm hosts he hf
    rwa [hh] at this ⊢

/-- non-vacuity: the demo command line (hosts foo1, bar) and a complete run of the fan-out with fanout 1 (one
    spurious wake-up): both hosts contacted, foo1 first -/
example : ∃ ls s, Dsh.Fan.Exec (Dsh.Fan.init .whileWait 1 ["foo1".toList, "bar".toList].length) ls s ∧
    Dsh.Fan.Final s ∧ contacted ["foo1".toList, "bar".toList] ls = ["foo1".toList, "bar".toList] := by
  let ls : List Dsh.Fan.Label :=
    [.d .lock, .d (.create 0), .d .unlock, .d .lock, .d .wait,
     .w 0 .connectBegin, .w 0 .connectEnd, .w 0 .destroyBegin, .w 0 .destroyEnd, .w 0 .lock, .w 0 .signal,
     .d (.wake false), .w 0 .unlock, .d .relock, .d (.create 1), .d .unlock, .d .lock, .d .wait,
     .d (.wake true), .d .relock, .d .wait,
     .w 1 .connectBegin, .w 1 .connectEnd, .w 1 .destroyBegin, .w 1 .destroyEnd, .w 1 .lock, .w 1 .signal,
     .w 1 .unlock, .d (.wake false), .d .relock, .d .unlock, .d .ret]
  have hr : (Dsh.Fan.run (Dsh.Fan.init .whileWait 1 2) ls).isSome = true := by decide
  obtain ⟨s, hs⟩ := Option.isSome_iff_exists.mp hr
  refine ⟨ls, s, Dsh.Fan.exec_of_run hs, ?_, by decide⟩
  have hd : (Dsh.Fan.run (Dsh.Fan.init .whileWait 1 2) ls).map (·.dpc) = some .returned := by decide
  rw [hs] at hd
  exact Option.some.inj hd

/-! ### the final list as an object: the rank of a host is its index (C02 ∘ C01 ∘ C09 ∘ C03) -/
/-- RANK = INDEX IN THE FINAL LIST.  Inside `Domain`, `opt_args` leaves in `opt->wcoll` a list OBJECT `L`
    (`cliWordsL`; `cliWords` is its denotation) that is good and denotes the specification's hosts; `dsh()` walks it
    with a fresh iterator — C01 `iter_all` imported: `hostlist_next` until NULL hands out exactly `L.hosts`, in order —
    and numbers the names as they come (`t[i].host`, `t[i].nodeid = i`, `dshThreads`).  Hence thread i is for the i-th
    host of `targets.filter (· ∉ excluded) |>.filter passes`, and its rank is i: ranks are counted AFTER the exclusions
    and filters, along the final list -/
theorem rank_is_index (cfg : Cfg) (hD1 : cfg.fixDeleteAll = true) (hD17 : cfg.fixIterSuffix = true)
    (hD19 : cfg.fixRemoveDepth = true) (env : Env) (ws : List CW) (hd : Domain cfg env ws) :
    ∃ L, cliWordsL cfg env (ws.map CW.text) = .ok L ∧ L.Good ∧
      cliWords cfg env (ws.map CW.text) = .ok L.hosts ∧
      iterAll cfg L L.nhosts.toNat = specWords env ws ∧
      dshThreads cfg L = (specWords env ws).zipIdx := by
  obtain ⟨L, hL, hg, hh⟩ := cliWordsL_correct cfg hD1 hD17 hD19 env ws hd
  have hit : iterAll cfg L L.nhosts.toNat = specWords env ws := by
    rw [PdshVerif.C01.iter_all_repaired cfg hD17 L hg _ (by have := hg.2; omega), hh]
  refine ⟨L, hL, hg, ?_, hit, ?_⟩
  · rw [cliWords_eq_cliWordsL, hL]
  · unfold dshThreads
    rw [hit]

/-- … composed with the transport (C09 `rank_is_position` imported: `connectAll` hands the transport of target k the
    rank k) and with the fan-out (C03, through `started_nodup_lt`): in EVERY execution, a connect started for list
    position i goes to the i-th host of the specification's list, with rank i — for every registry of `user@` /
    `rcmd_type:` words and every configuration of the transports -/
theorem contacted_with_rank (cfg : Cfg) (hD1 : cfg.fixDeleteAll = true) (hD17 : cfg.fixIterSuffix = true)
    (hD19 : cfg.fixRemoveDepth = true) (env : Env) (ws : List CW) (hd : Domain cfg env ws)
    (rcfg : Rcmd.Cfg) (rwords : List Rcmd.Word) (lines : List Rcmd.Line)
    (v : Dsh.Fan.Variant) (f : Nat) (ls : List Dsh.Fan.Label) (s : Dsh.Fan.St)
    (he : Dsh.Fan.Exec (Dsh.Fan.init v f (specWords env ws).length) ls s) :
    ∃ L, cliWordsL cfg env (ws.map CW.text) = .ok L ∧
      (Rcmd.run rcfg rwords (iterAll cfg L L.nhosts.toNat) = .lines lines →
        ∀ i ∈ started ls, ∃ (h1 : i < lines.length) (h2 : i < (specWords env ws).length),
          lines[i].rank = i ∧ lines[i].host = (specWords env ws)[i] ∧
          (dshThreads cfg L)[i]? = some ((specWords env ws)[i], i)) := by
  obtain ⟨L, hL, _, _, hit, hth⟩ := rank_is_index cfg hD1 hD17 hD19 env ws hd
  refine ⟨L, hL, fun hrun i hi => ?_⟩
  rw [hit] at hrun
  obtain ⟨hlen, hall⟩ := PdshVerif.C09.rank_is_position rcfg rwords _ lines hrun
  have hlt : i < (specWords env ws).length := (started_nodup_lt he).2 i hi
  have h1 : i < lines.length := by omega
  refine ⟨h1, hlt, (hall i h1 hlt).1, (hall i h1 hlt).2, ?_⟩
  rw [hth, List.getElem?_zipIdx, List.getElem?_eq_getElem hlt]
  simp

/-- non-vacuity, through the theorem: the demo command line (`-w foo[1-3],bar -x foo2`, names matching `3` dropped)
    leaves foo1 with rank 0 and bar with rank 1 — bar is the FOURTH name typed and the second of the final list -/
example : ∃ L, cliWordsL Cfg.repaired demoEnv (demoWords.map CW.text) = .ok L ∧
    dshThreads Cfg.repaired L = [("foo1".toList, 0), ("bar".toList, 1)] := by
  obtain ⟨L, hL, _, _, _, hth⟩ := rank_is_index Cfg.repaired rfl rfl rfl demoEnv demoWords demo_domain
  refine ⟨L, hL, ?_⟩
  rw [hth]
  have : specWords demoEnv demoWords = ["foo1".toList, "bar".toList] := by
    have h1 := exclusion_correct Cfg.repaired rfl rfl rfl demoEnv demoWords demo_domain
    rw [demo_correct] at h1
    exact (Res.ok.inj h1).symm
  rw [this]
  rfl

/-! ### the buffer loop of `list_push_hostlist` (D2, F02-XFILE-4MIB) -/
/-- TERMINATION (the repaired loop of /repo b20e58e, no ceiling): whatever the length of the exclusion text the loop
    ends within the fuel the driver passes (`PUSH_FUEL`, inside it `GROW_FUEL` = 52 doublings from 4096 to 2^63) -/
theorem pushHostlist_terminates (len : Nat) : ∃ n, pushLoop true len PUSH_FUEL 4096 = some n :=
  pushLoop_fixed_terminates len

/-- `pushHostlistR` (the repaired `list_push_hostlist`) TERMINATES FOR EVERY LIST, and never hands on a cut text:
    the entry pushed on `exclude_list` is the whole ranged text of the exclusion file, or — only when that text has
    2^63 - 1 bytes or more, where `n` can no longer be doubled in a `size_t` — pdsh ends with a diagnostic -/
theorem pushHostlistR_terminates_whole (hl : EL) :
    pushHostlistR hl = .ok (rangedText hl.ranges) ∨
    (pushHostlistR hl = .error (.fatal "exclusion list too long") ∧ (rangedText hl.ranges).length ≥ 2 ^ 63 - 1) :=
  pushHostlist_fixed Cfg.repaired rfl hl

/-- D2: the unchanged loop (`n*=2 < 0x7fffff`, i.e. `n *= 1`) never ends once the ranged form of an
    exclusion file needs 4095 bytes or more — no amount of fuel gets `pdsh` out of `opt_args` -/
theorem pushHostlist_unchanged_diverges (len : Nat) (h : len ≥ 4095) :
    ∀ fuel, pushLoop false len fuel 4096 = none :=
  pushLoop_unchanged_diverges len h

/-- … and below that size the unchanged loop is not entered at all -/
theorem pushHostlist_unchanged_small (len : Nat) (h : len < 4095) (fuel : Nat) :
    pushLoop false len (fuel + 1) 4096 = some 4096 := by
  unfold pushLoop
  have : ¬ len ≥ 4096 - 1 := by omega
  simp [this]

/-- EXCLUSION FILE, D2 repaired (every `cfg` with the switch; the model `pdshmodel hl xcl` runs with the probed
    one): the entry pushed on `exclude_list` is the WHOLE ranged text — no ceiling at 4 MiB or anywhere else a
    text can reach -/
theorem exclusion_file_whole (cfg : Cfg) (hfix : cfg.fixPushLoop = true) (hl : EL)
    (h : (rangedText hl.ranges).length < 2 ^ 63 - 1) : pushHostlist cfg hl = .ok (rangedText hl.ranges) :=
  pushHostlist_whole cfg hfix hl h

/-- `pushHostlistR` IS `pushHostlist` under the D2 switch -/
theorem exclusion_file_repaired (cfg : Cfg) (hfix : cfg.fixPushLoop = true) (hl : EL) :
    pushHostlist cfg hl = pushHostlistR hl :=
  pushHostlist_eq_R cfg hfix hl

/-- non-vacuity: a list of two records (`a`, `b[1-2]`), its ranged text, pushed whole -/
example : pushHostlistR ⟨[⟨0, ⟨"a".toList, 0, 0, 0, true⟩⟩, ⟨1, ⟨"b".toList, 1, 2, 1, false⟩⟩], 3, 2, []⟩ =
    .ok "a,b[1-2]".toList := by
  rw [← exclusion_file_repaired Cfg.repaired rfl, exclusion_file_whole Cfg.repaired rfl _ (by decide)]
  exact congrArg Except.ok (by decide)

/-- F02-XFILE-4MIB (repaired in /repo by b20e58e; the loop as it was before, `pushHostlistCeil`, is NOT what the
    model executes): with the ceiling `(n *= 2) < 0x7fffff` the entry was whole below 2^22 - 1 bytes ... -/
theorem exclusion_file_ceiling_whole (hl : EL) (h : (rangedText hl.ranges).length < 2 ^ 22 - 1) :
    pushHostlistCeil hl = .ok (rangedText hl.ranges) :=
  pushHostlistCeil_whole hl h

/-- ... and from 2^22 - 1 bytes on the ceiling ended the loop after the attempt with a 4 MiB block, whose CUT text
    was pushed: the hosts behind the cut were still contacted (observed on the real pdsh before b20e58e: a file of
    10^6 names, the 500 000th and the last are contacted).  A revert of b20e58e is reported by the check with the
    file of exactly 2^22 - 1 bytes as replay (checks/c02.py `big_xfile`). -/
theorem exclusion_file_cut (hl : EL) (h : (rangedText hl.ranges).length ≥ 2 ^ 22 - 1) :
    pushHostlistCeil hl = .error (.ub "exclusion text cut at 4 MiB") :=
  pushHostlistCeil_cut hl h

/-! ### what the driver executes -/
/-- THE DRIVER EXECUTES THE MODEL: `pdshmodel hl xcl` runs `cliFinalWF` (Opt/ExcludeFast.lean: the lists kept last
    record first, the pop loop of `hostlist_delete` replaced by what `popAll_spec` proves it returns when that lemma's
    decidable side conditions hold — linear in the size of the exclusion files, so that a file of 4 MiB runs through the
    model) and for EVERY variant, environment, `WCOLL` and command line it returns what the model `cliFinalW` returns -/
theorem fast_path_is_model (cfg : Cfg) (env : Env) (wcollEnv : Option Str) (evs : List Ev) :
    cliFinalWF cfg env wcollEnv evs = cliFinalW cfg env wcollEnv evs :=
  cliFinalWF_eq cfg env wcollEnv evs

/-- … in particular, without `WCOLL`, what the theorems above call `cliFinal` -/
theorem fast_path_is_cliFinal (cfg : Cfg) (env : Env) (evs : List Ev) :
    cliFinalWF cfg env none evs = cliFinal cfg env evs := by
  rw [cliFinalWF_eq, cliFinalW_none]

/-! ### the specification -/
/-- ORDER INDEPENDENCE: exclusions and filters may stand anywhere among the targets (and in any
    order among themselves) -/
theorem spec_order_independent (env : ExcludeSpec.Env) (i1 i2 : List ExcludeSpec.Item)
    (ht : i1.filter SpecLemmas.isTarget = i2.filter SpecLemmas.isTarget)
    (hp : (i1.filter fun i => !SpecLemmas.isTarget i).Perm (i2.filter fun i => !SpecLemmas.isTarget i)) :
    ExcludeSpec.final env i1 = ExcludeSpec.final env i2 :=
  SpecLemmas.final_order_independent env i1 i2 ht hp

/-! ### witnesses, end to end through the model of `opt_args` -/
def noEnv : Env := { files := [], rematch := fun _ _ => none, badre := fun _ => false }

def shownRes : Res → List String
  | .ok hs => hs.map String.ofList
  | .nohosts => ["<no hosts>"]
  | .fatal w => ["fatal: " ++ w]
  | .diverge => ["<never returns>"]
  | .ub w => ["UB: " ++ w]
  | .tablemiss _ _ => ["<table>"]

/-- D1: `pdsh -w foo[1-3],foo[2-4] -x foo[2-3]` — the unchanged code still contacts foo2 and foo3,
    the repaired one does not -/
theorem d1_witness :
    shownRes (cliFinal Cfg.unchanged noEnv [.w "foo[1-3],foo[2-4]".toList, .x "foo[2-3]".toList]) =
      ["foo1", "foo2", "foo3", "foo4"] ∧
    shownRes (cliFinal Cfg.repaired noEnv [.w "foo[1-3],foo[2-4]".toList, .x "foo[2-3]".toList]) =
      ["foo1", "foo4"] := by
  decide

/-- F02-2BR: as found, `pdsh -w foo[1-2]-[0-1] -x foo1-0` contacts foo1-0 (the exclusion acts on the
    first-level names `foo1-[0-1]`, `foo2-[0-1]`); repaired (findings/C02-2BR.patch: re-expansion first,
    exclusion arguments name by name) foo1-0 is left out, and a two-bracket exclusion works as well -/
theorem two_bracket_witness :
    shownRes (cliFinal { Cfg.repaired with fix2Br := false } noEnv [.w "foo[1-2]-[0-1]".toList, .x "foo1-0".toList]) =
      ["foo1-0", "foo1-1", "foo2-0", "foo2-1"] ∧
    shownRes (cliFinal Cfg.repaired noEnv [.w "foo[1-2]-[0-1]".toList, .x "foo1-0".toList]) =
      ["foo1-1", "foo2-0", "foo2-1"] ∧
    shownRes (cliFinal Cfg.repaired noEnv [.w "foo[1-2]-[0-1]".toList, .x "foo[1-2]-0".toList]) =
      ["foo1-1", "foo2-1"] := by
  decide

/-! ### from the file CONTENTS to the hosts contacted (C10 ∘ C02 ∘ C01 ∘ C03) -/
section EndToEnd
open PdshVerif.Opt.Targets
open PdshVerif.Opt.Wcoll (LineMode FS)

/-- what the whole command line means: every target word expanded (C01's `expand₂`, two bracket levels), the words
    of `^files` standing where the file stands (includes inlined), WCOLL's file when no option names a target —
    minus every name an exclusion word or exclusion file denotes, filtered by every regex -/
def meant (mode : LineMode) (fs : FS) (stdin : List Char) (rematch : List Char → List Char → Option Bool) (badre : List Char → Bool)
    (segs : List Seg) (wenv : Option (List Char × List Spec.Word)) : List (List Char) :=
  ((Spec.expand₂ (tgtWords segs wenv)).filter fun h => !(segs.flatMap Seg.xnames).contains h).filter
    (keepAll (envOf mode fs stdin rematch badre segs wenv) (segs.flatMap Seg.reg))

/-- THE WHOLE CHAIN.  Starting from the CONTENTS of the files (`fs`; comments, blank lines and `#include`s read by
    C10's model of wcoll.c), the TEXT of the option words (`segs.map Seg.text`: target words with one or two
    bracket pairs, caret-file words, exclusion words and files, filters) and the WCOLL variable, with D1, D17, D19
    and F02-2BR repaired (as /repo is) and inside C10's decidable `targetDomain`:
      * `opt_args` ends with exactly `meant` in `opt->wcoll` (C10 `target_list_end_to_end`, which chains C10's
        reader, this file's `exclusion_correct` machinery and C01's `wcoll_expand₂`), and
      * in every execution of the fan-out over that list (C03: any schedule, fanout, wait construct) the hosts a
        connect is started for are targets no exclusion names and every filter passes, no list position twice —
        and exactly the list once `dsh()` has returned. -/
theorem file_contents_to_contacted (cfg : Cfg) (hD1 : cfg.fixDeleteAll = true) (hD17 : cfg.fixIterSuffix = true)
    (hD19 : cfg.fixRemoveDepth = true) (h2Br : cfg.fix2Br = true) (mode : LineMode) (fs : FS) (stdin : List Char)
    (rematch : List Char → List Char → Option Bool) (badre : List Char → Bool) (segs : List Seg)
    (wenv : Option (List Char × List Spec.Word))
    (hdom : targetDomain cfg mode fs stdin rematch badre segs wenv = true)
    (v : Dsh.Fan.Variant) (f : Nat) (ls : List Dsh.Fan.Label) (s : Dsh.Fan.St)
    (he : Dsh.Fan.Exec (Dsh.Fan.init v f (meant mode fs stdin rematch badre segs wenv).length) ls s) :
    targetList cfg (envOf mode fs stdin rematch badre segs wenv) (wenv.map (·.1)) (segs.map Seg.text) =
      .ok (meant mode fs stdin rematch badre segs wenv) ∧
    (∀ h ∈ contacted (meant mode fs stdin rematch badre segs wenv) ls,
      h ∈ Spec.expand₂ (tgtWords segs wenv) ∧ h ∉ segs.flatMap Seg.xnames ∧
      keepAll (envOf mode fs stdin rematch badre segs wenv) (segs.flatMap Seg.reg) h = true) ∧
    (started ls).Nodup ∧
    (Dsh.Fan.Final s → (contacted (meant mode fs stdin rematch badre segs wenv) ls).Perm
      (meant mode fs stdin rematch badre segs wenv)) := by
  refine ⟨PdshVerif.Props.C10.target_list_end_to_end cfg hD1 hD17 hD19 h2Br mode fs stdin rematch badre segs wenv hdom,
    fun h hm => ?_, (started_nodup_lt he).1, fun hf => contacted_perm _ he hf⟩
  have := contacted_mem _ ls h hm
  unfold meant at this
  obtain ⟨h1, h2⟩ := List.mem_filter.mp this
  obtain ⟨h3, h4⟩ := List.mem_filter.mp h1
  refine ⟨h3, ?_, h2⟩
  intro hx
  have h5 : ¬ h ∈ segs.flatMap Seg.xnames := by simpa using h4
  exact h5 hx

/-- non-vacuity: C10's site (a target file with an include, a two-bracket word, an exclusion file with the same
    include, a drop filter) is in the domain and means five hosts — the hypotheses can be met, and the list is
    obtained THROUGH the theorem -/
example : targetDomain Cfg.repaired .whole PdshVerif.Props.C10.siteFS [] PdshVerif.Props.C10.siteMatch (fun _ => false)
      PdshVerif.Props.C10.siteSegs none = true ∧
    meant .whole PdshVerif.Props.C10.siteFS [] PdshVerif.Props.C10.siteMatch (fun _ => false)
      PdshVerif.Props.C10.siteSegs none =
    ["n1".toList, "n2".toList, "r1n1".toList, "r2n1".toList, "r2n2".toList] := by
  constructor <;> decide

end EndToEnd

/-! ### names whose digit tail overflows `strtoul` (errno left at ERANGE) -/
section LongTail
open PdshVerif.Opt.LongTail

/-- `hostname_create` run on the names of an exclusion list one after the other in ONE process, `errno` threaded
    through as the C library keeps it (set by an overflowing `strtoul`, never cleared): every name gets the
    components the pure `hostnameCreate` of the model gives it — whatever stands before it, whatever `errno` was -/
theorem name_parse_order_independent (errno : Bool) (before after : List Str) (s : Str) :
    parseAllE errno (before ++ s :: after) = (before ++ s :: after).map hostnameCreate ∧
    (parseAllE errno (before ++ s :: after))[before.length]? = some (hostnameCreate s) :=
  ⟨parseAllE_eq errno _, parse_position_independent errno before after s⟩

/-- a name whose digit tail is above ULONG_MAX is a plain, un-numbered host (its record denotes exactly that name)
    and leaves ERANGE behind -/
theorem long_tail_is_plain_host (n : Str) (hv : dval (n.drop (hostPrefixLen n)) > ULONG_MAX) :
    (hostnameCreate n).suffix = none ∧ (hostRecord n).hosts = [n] ∧ ∀ e, (hostnameCreateE e n).2 = true :=
  ⟨(hostnameCreate_longtail n hv).1, (hostRecord_spec n).2, (hostnameCreate_longtail n hv).2.2.2⟩

/-- non-vacuity: the name of seeded change C02-13 -/
example : (hostnameCreate "job20240929102030123456789".toList).suffix = none ∧
    (parseAllE false ["job20240929102030123456789".toList, "foo3".toList])[1]? =
      some ⟨"foo".toList, 3, some "3".toList, false⟩ := by
  refine ⟨(long_tail_is_plain_host _ (by decide)).1, ?_⟩
  exact ((name_parse_order_independent false ["job20240929102030123456789".toList] [] "foo3".toList).2).trans (by decide)

end LongTail

end PdshVerif.C02
