/-
  C02  An excluded or filtered-out host is never contacted; all others survive.
  PROPERTY THEOREMS ONLY (helper lemmas live in PdshVerif/Opt/ExcludeLemmas.lean and
  PdshVerif/Hostlist/Lemmas{Find,FindComplete,DeleteName,Delete,Pop}.lean).

  Model: PdshVerif/Opt/Exclude.lean (opt.c exclusion / filter path over the editable host list of
  C16).  Spec: PdshVerif/Opt/ExcludeSpec.lean.  `cfg : Cfg` carries the defect switches (probed
  from the code on every run); theorems hold for all variants unless they name a switch.

  Proved:
   * whole-name matching, both directions: `hostlist_find` reports only positions that hold exactly
     the name (zero padding, digit-ending prefixes, wider numbers) and — for names whose trailing
     digit run is ≤ 2^25 — finds every name the list denotes;
   * every variant: an exclusion never removes a host with another name (count preserved);
   * repaired D1: `wcoll_apply_excluded` leaves exactly the hosts no entry names, order and
     multiplicity kept;  unchanged: witness that a host named twice survives;
   * the buffer loop of `list_push_hostlist`: repaired terminates within 12 doublings, unchanged
     never ends from 4095 bytes on (D2);
   * the specification is order independent.
  Witnesses (`decide`): D1, F02-2BR, F02-BIGSUFFIX end to end through `cliFinal`.
   * repaired D19: `hostlist_filter_regex` (iterate + `hostlist_remove`) leaves exactly the hosts
     the filter keeps, and `wcoll_apply_regex` the hosts that pass every filter (order, multiplicity);
   * COMPOSITION (`exclusion_correct`): with D1, D17, D19 repaired, for one-bracket target words and
     small names, the words `wcoll_arg_process` sees lead to exactly
     targets.filter (not excluded) |>.filter (passes every regex) — assembling, exclusion stack,
     filter stack and `wcoll_expand` chained, record identities / iterators / bounds tracked through.
  NOT proved: the same for the UNCHANGED `hostlist_remove` (D19: the iterator revisits hosts; the
  test is idempotent, covered by the correspondence runs); `^file` words and `-x`/`-w` option
  splitting are outside the composition theorem (files: C10; splitting: `evWords` is executable).
-/
import PdshVerif.Opt.ExcludeCompose

namespace PdshVerif.C02
open PdshVerif.Hostlist PdshVerif.Opt PdshVerif.Opt.Exclude

/-! ### whole-name matching -/
/-- FIND is COMPLETE on small names: a name the records denote is found (`SmallName`: the name's
    whole trailing digit run, read as a number, is ≤ MAX_HOST_SUFFIX = 2^25; without it the
    statement is false: `C16.find_miss_big_suffix`) -/
theorem find_complete (rs : List HRange) (name : Str) (hg : ∀ r ∈ rs, r.Good) (hsm : SmallName name)
    (hmem : name ∈ hostsL rs) : (findRanges rs name).1 ≠ none := by
  intro h
  generalize hf : findRanges rs name = fr at h
  obtain ⟨res, rs'⟩ := fr
  simp only at h
  subst h
  exact findLoop_none_not_mem name hsm rs 0 rs' hg hf hmem

/-- ONE `hostlist_delete_host(x)` (every variant, any iterators): it answers 1 and erases a host
    that is EXACTLY `x`, or answers 0 and changes nothing — and then a small `x` was not there -/
theorem delete_host_exact (cfg : Cfg) (e : EL) (x : Str) (hg : e.Good) :
    (deleteHostE cfg e x).2.Good ∧
    (((deleteHostE cfg e x).1 = 1 ∧ ∃ i, e.hosts[i]? = some x ∧ (deleteHostE cfg e x).2.hosts = e.hosts.eraseIdx i) ∨
     ((deleteHostE cfg e x).1 = 0 ∧ (deleteHostE cfg e x).2.hosts = e.hosts ∧ (SmallName x → x ∉ e.hosts))) :=
  deleteHostE_spec cfg e x hg

/-- ALL OTHERS SURVIVE (every variant): whatever names an exclusion entry hands to
    `hostlist_delete_host`, a host whose name is not among them keeps every occurrence —
    excluding foo1 never takes foo10, foo01 or foo1-ib -/
theorem exclusion_only_named (cfg : Cfg) (y : Str) (names : List Str) (e : EL) (hg : e.Good) (hy : y ∉ names) :
    (names.foldl (fun acc x => (deleteNameE cfg acc x).2) e).hosts.count y = e.hosts.count y :=
  (foldl_deleteNameE_other cfg y names e hg hy).2

/-- NEVER CONTACTED (repaired D1): after `wcoll_apply_excluded` exactly the hosts that no entry
    names are left, in their order and multiplicity (`EntryOk`: the entry parses, its temporary
    list is in order, its names are small) -/
theorem exclusion_repaired (cfg : Cfg) (hfix : cfg.fixDeleteAll = true) (es : List (Str × List Str)) (e : EL)
    (hg : e.Good) (hok : ∀ p ∈ es, EntryOk cfg p.1 p.2) :
    ∃ e', applyExcluded cfg (es.map (·.1)) e = .ok e' ∧ e'.Good ∧
      e'.hosts = e.hosts.filter (fun h => !(es.flatMap (·.2)).contains h) :=
  applyExcluded_repaired cfg hfix es e hg hok

/-! ### regex filters -/
/-- FILTER (repaired D19): `hostlist_filter_regex(hl, re)` — a live iterator over the list, a
    `hostlist_remove` for every host the filter rejects, through range splits, shrinking records and
    records that go away — leaves exactly `hosts.filter keep`, in order and multiplicity.
    (`IdsOk`: distinct record identities; `PrintsFull`: D17 repaired or narrow numbers; no other
    live iterator; the oracle answers for every host of the list) -/
theorem filterRegex_hosts (cfg : Cfg) (hfix : cfg.fixRemoveDepth = true) (m : Str → Option Bool) (exclude : Bool)
    (pat : Str) (e : EL) (hid : e.IdsOk) (hg : e.Good) (hf : ∀ q ∈ e.ranges, q.PrintsFull cfg) (hits : e.its = [])
    (hm : ∀ h ∈ e.hosts, (m h).isSome = true) :
    ∃ e', filterRegex cfg m exclude pat e = .ok e' ∧ e'.hosts = e.hosts.filter (keepOf m exclude) ∧ e'.Good := by
  obtain ⟨e', h1, h2, _, h4, _, _⟩ := filterRegex_spec cfg hfix (·.PrintsFull cfg)
    (fun _ _ h hw hh hs => narrow_of_le h hw hh hs) (fun _ h => h) m exclude pat e hid hg hf hits hm
  exact ⟨e', h1, h2, h4⟩

/-- `wcoll_apply_regex` (repaired D19): the hosts that pass EVERY filter of `regex_list` stay;
    since `keepAll` is a conjunction the order of the filters does not matter -/
theorem applyRegex_hosts (cfg : Cfg) (hfix : cfg.fixRemoveDepth = true) (env : Env) (rs : List (Bool × Str)) (e : EL)
    (hid : e.IdsOk) (hg : e.Good) (hf : ∀ q ∈ e.ranges, q.PrintsFull cfg) (hits : e.its = [])
    (hm : ∀ p ∈ rs, ∀ h ∈ e.hosts, (env.rematch p.2 h).isSome = true) :
    ∃ e', applyRegex cfg env rs e = .ok e' ∧ e'.hosts = e.hosts.filter (keepAll env rs) ∧ e'.Good := by
  obtain ⟨e', h1, h2, _, h4, _, _⟩ := applyRegex_spec cfg hfix (·.PrintsFull cfg)
    (fun _ _ h hw hh hs => narrow_of_le h hw hh hs) (fun _ h => h) env rs e hid hg hf hits hm
  exact ⟨e', h1, h2, h4⟩

/-! ### composition -/
/-- EXCLUSION CORRECT.  `ws`: the comma words of the command line by meaning — target words
    (`pre[ranges]suffix` or plain names), exclusion words (`-` + such a word), filters (`/re/`, and the
    same behind a `-`) in ANY order.  With D1, D17, D19 repaired and inside `Domain` (word shapes; one-bracket
    targets; exclusion entries parse, their names are small; the regex oracle answers for every
    target; numbers below 10^15) the hosts pdsh goes on with are
        targets.filter (· ∉ excluded) |>.filter (passes every filter)
    with the targets in command-line order, multiplicities kept (`specWords`; `expand₁ = expand₂`
    for one-bracket words, `expand₂_oneBracket`).  `cliFinal` is `cliWords` on the split options.
    Holds for the code as found AND with F02-2BR repaired (`cfg.fix2Br`, re-expansion before the
    exclusions and filters; `Domain.entries2` is the hypothesis the repaired order adds). -/
theorem exclusion_correct (cfg : Cfg) (hD1 : cfg.fixDeleteAll = true) (hD17 : cfg.fixIterSuffix = true)
    (hD19 : cfg.fixRemoveDepth = true) (env : Env) (ws : List CW) (hd : Domain cfg env ws) :
    cliWords cfg env (ws.map CW.text) = .ok (specWords env ws) :=
  cliWords_correct cfg hD1 hD17 hD19 env ws hd

/-- the domain is inhabited: targets foo[1-3] and bar, foo2 excluded, names matching `3` dropped —
    pdsh goes on with foo1 and bar, BY the theorem (`demo_domain` proves every hypothesis) -/
theorem exclusion_correct_instance :
    cliWords Cfg.repaired demoEnv (demoWords.map CW.text) = .ok ["foo1".toList, "bar".toList] :=
  demo_correct

/-! ### the buffer loop of `list_push_hostlist` (D2) -/
/-- TERMINATION (repaired D2): the loop stops within 12 doublings whatever the length of the
    exclusion text -/
theorem pushHostlist_terminates (len : Nat) : ∃ n, pushLoop true len PUSH_FUEL 4096 = some n :=
  pushLoop_fixed_terminates len 12 4096 (by decide)

/-- D2: the unchanged loop (`n*=2 < 0x7fffff`, i.e. `n *= 1`) never ends once the ranged form of an
    exclusion file needs 4095 bytes or more — no amount of fuel gets `pdsh` out of `opt_args` -/
theorem pushHostlist_unchanged_diverges (len : Nat) (h : len ≥ 4095) :
    ∀ fuel, pushLoop false len fuel 4096 = none :=
  pushLoop_unchanged_diverges len h

/-- … and below that size the unchanged loop is not entered at all -/
theorem pushHostlist_unchanged_small (len : Nat) (h : len < 4095) (fuel : Nat) :
    pushLoop false len (fuel + 1) 4096 = some 4096 := by
  unfold pushLoop
  have : ¬ len ≥ 4096 - 1 := by omega
  simp [this]

/-! ### the specification -/
/-- ORDER INDEPENDENCE: exclusions and filters may stand anywhere among the targets (and in any
    order among themselves) -/
theorem spec_order_independent (env : ExcludeSpec.Env) (i1 i2 : List ExcludeSpec.Item)
    (ht : i1.filter SpecLemmas.isTarget = i2.filter SpecLemmas.isTarget)
    (hp : (i1.filter fun i => !SpecLemmas.isTarget i).Perm (i2.filter fun i => !SpecLemmas.isTarget i)) :
    ExcludeSpec.final env i1 = ExcludeSpec.final env i2 :=
  SpecLemmas.final_order_independent env i1 i2 ht hp

/-! ### witnesses, end to end through the model of `opt_args` -/
def noEnv : Env := { files := [], rematch := fun _ _ => none, badre := fun _ => false }

def shownRes : Res → List String
  | .ok hs => hs.map String.ofList
  | .nohosts => ["<no hosts>"]
  | .fatal w => ["fatal: " ++ w]
  | .diverge => ["<never returns>"]
  | .ub w => ["UB: " ++ w]
  | .tablemiss _ _ => ["<table>"]

/-- D1: `pdsh -w foo[1-3],foo[2-4] -x foo[2-3]` — the unchanged code still contacts foo2 and foo3,
    the repaired one does not -/
theorem d1_witness :
    shownRes (cliFinal Cfg.unchanged noEnv [.w "foo[1-3],foo[2-4]".toList, .x "foo[2-3]".toList]) =
      ["foo1", "foo2", "foo3", "foo4"] ∧
    shownRes (cliFinal Cfg.repaired noEnv [.w "foo[1-3],foo[2-4]".toList, .x "foo[2-3]".toList]) =
      ["foo1", "foo4"] := by
  decide

/-- F02-2BR: as found, `pdsh -w foo[1-2]-[0-1] -x foo1-0` contacts foo1-0 (the exclusion acts on the
    first-level names `foo1-[0-1]`, `foo2-[0-1]`); repaired (findings/C02-2BR.patch: re-expansion first,
    exclusion arguments name by name) foo1-0 is left out, and a two-bracket exclusion works as well -/
theorem two_bracket_witness :
    shownRes (cliFinal { Cfg.repaired with fix2Br := false } noEnv [.w "foo[1-2]-[0-1]".toList, .x "foo1-0".toList]) =
      ["foo1-0", "foo1-1", "foo2-0", "foo2-1"] ∧
    shownRes (cliFinal Cfg.repaired noEnv [.w "foo[1-2]-[0-1]".toList, .x "foo1-0".toList]) =
      ["foo1-1", "foo2-0", "foo2-1"] ∧
    shownRes (cliFinal Cfg.repaired noEnv [.w "foo[1-2]-[0-1]".toList, .x "foo[1-2]-0".toList]) =
      ["foo1-1", "foo2-1"] := by
  decide

end PdshVerif.C02
