import PdshVerif.Pcp.Isolated
import PdshVerif.Pcp.Commute
import PdshVerif.Pcp.Spec
import PdshVerif.Pcp.Multi
import PdshVerif.Pcp.SessionLemmas
import PdshVerif.Pcp.PacedTree
import PdshVerif.Pcp.Refused
import PdshVerif.Pcp.Mixed
import PdshVerif.Pcp.MeetsSpec
import PdshVerif.Pcp.Overwrite
import PdshVerif.Pcp.Merge
import PdshVerif.Pcp.Recopy
import PdshVerif.Pcp.FanOut
import PdshVerif.Pcp.DeepSession
import PdshVerif.Pcp.Response
import PdshVerif.Props.C03

/-! # C11  pdcp/rpdcp reproduce the source tree exactly on every target

Theorems about the sender model (`send`, Pcp/Send.lean: `pcp_expand_dirs` walk + `pcp_sendfile`
records) and the receiver model (`sink`/`run`, Pcp/Sink.lean: `_sink` as a byte automaton) over the
file-system model Pcp/FS.lean, for **all** trees in the domain of C11 (`SrcsOk`, `GoodKids`), all
sizes, all option settings, every probed variant of sender and receiver (name rule none / slash-or-
dotdot / scp; chmod after mkdir or not; microseconds sent or not; sentinel repair or not), without
write faults (`o.fsize = none`).  Times are in microseconds, the resolution of the `T` record.

* `copy_roundtrip`   -- `sink` applied to the byte stream `send` produces for the sources installs
                        exactly `recvKids` (the source trees under the names sent, recursively: every
                        file with its bytes, every directory with its entries) into a destination
                        directory in which those names are not yet present, and every reply is a positive
                        acknowledgement.  By mutual structural induction on trees (`feed_tree`,
                        `feed_kids`) on top of the record-level lemmas `feed_T/C/D/E`.
* `copy_meets_spec`  -- model refines spec: the file system `copy_roundtrip` describes passes `Spec.checkKids` -- the very
                        function the check's oracle evaluates on the real destination -- without a discrepancy (names,
                        structure, bytes; with -p modes and microsecond times), for the pair as repaired.
* `existing_file_replaced`
                     -- a regular file that already exists on the target, with any old contents, holds exactly the
                        bytes sent afterwards (the `ftruncate` step: new size 0, a block multiple, old file barely or
                        much longer); old mode kept, or with -p the mode sent; nothing else changes.
* `copy_onto_existing`, `overwritten_exact`
                     -- the destination already holds (an older version of) the tree: nodes of the same kind at any depth
                        (`CompatKids`).  The receiver ends with `mergeKids`: existing regular files hold exactly the bytes
                        sent, existing directories are entered (with -p re-moded, and re-timed after their entries), what is
                        missing is created as in `copy_roundtrip`, what the source does not name stays; all replies positive
                        (`feed_tree_merge`, Pcp/Merge.lean; generalises `feed_tree`: on fresh names `mergeKids = recvKids`).
* `copy_twice`       -- copying the same sources again: what the first copy left is compatible with them
                        (`compat_after_copy`), the second copy is acknowledged throughout and leaves every file with
                        exactly the source's bytes.
* `file_any_size`    -- the single-file case spelled out at the byte level: record + data + NUL, any
                        length (0, 1, ..., beyond several BUFSIZ blocks: `foldl_data` = blocks_concat).
* `received_file`, `preserve_meta_file`
                     -- what a regular file arrives as: same bytes; with -p same twelve mode bits and the
                        modification time the sender transmits: to the microsecond with the repaired
                        sender (`subsec`), whole seconds with the code as found (F11-MTIME-SUBSEC).
* `received_dir`, `preserve_meta_dir`, `preserve_meta_dir_repaired`
                     -- a directory arrives with the mode `mkdir` gives it, so with -p its mode is
                        preserved PROVIDED it has no set-ID bit and the parent no set-group-ID bit
                        (F11-DIRMODE-SETID); with the repaired receiver (`dirChmod`: chmod after mkdir)
                        unconditionally.
* `reverse_names`    -- in a reverse copy an entry the user named `dir/base` is sent as `base.host`.
* `copy_with_write_faults`, `received_file_toobig`
                     -- `error_isolated` for WRITE failures: under a file size limit (short write / EFBIG, like
                        a full disk) the receiver still consumes the whole stream, sends exactly one error
                        record per file that does not fit, and every file that fits -- before, after, at any
                        depth -- is exactly the source's (`received_file`).
* `error_isolated_open`
                     -- `error_isolated` for OPEN failures: a file whose name is taken by a directory on the
                        target gets one error record, the interactive sender skips its data, exactly its
                        records are consumed, and the result is as if it had not been sent.
* `no_other_entries` -- the `names` clause: after the copy a path exists only if it existed before or is a node
                        of one of the source trees below its name.
* `reverse_many_seq`, `reverse_roundtrip`
                     -- rpdcp with N targets: whatever the order in which the local receiver processes the N
                        streams, it ends with the same file system, one copy per target under `SRC.host`
                        (`recvKids_perm`: sibling trees under different names commute).

* `dir_mtime_after_entries`
                     -- with -p a directory ends with the source's modification time although its entries were
                        created after it: the receiver sets the time after it has populated the directory.
* `error_isolated_session`
                     -- the last clause of C11 for the INTERACTIVE client in its repaired form (it reads every reply:
                        Pcp/Session.lean), for any mixture in any order of sources that arrive, regular files whose
                        name is taken by a directory and directories whose name is taken by a regular file: client and
                        receiver stay in step, exactly one error record per source that cannot be written, and the file
                        system ends exactly as if those sources had not been named (induction `session_items`,
                        Pcp/Mixed.lean).  Generalises `error_isolated_refused_dir` (one refused directory, first) and
                        lifts `error_isolated_open` from the byte stream `itemsBytes` to the dialogue.
* `error_isolated_deep`
                     -- the last clause for a copy ONTO AN EXISTING destination with entries of the wrong kind AT ANY
                        DEPTH (Pcp/Deep.lean, Pcp/DeepSession.lean): every node of every source tree is classified by what
                        the target holds at its place (`DTree`: arrives / regular file vs directory / directory vs regular
                        file / directory entered, recursively); the interactive client in its repaired form and the receiver
                        stay in step, the file system ends as `dTopFs` -- what can be written is there, an entry that cannot
                        be written leaves no trace, what is in its way and everything below it is untouched --, and there is
                        EXACTLY one error record per entry that cannot be written (mutual induction `session_dtree` /
                        `session_dkids`).  Generalises `error_isolated_session` from the top level to any depth.
* `copy_onto_anything`
                     -- the same with NO hypothesis about what the target holds: the classification `classifyTop` of the
                        sources against the target's file system is total (arrives / replaces a regular file / merged into a
                        directory / kinds disagree) and always in the domain (`dOk_classify`, for every file system in which
                        what exists lies in existing directories).  `pdshmodel pcp deep` executes exactly these definitions
                        against the real run of every conflict and overwrite case.
* `forward_every_target`, `forward_copy_all_targets`, `forward_target_alone`
                     -- a FORWARD copy to N targets: the product of dsh()'s fan-out LTS (Props/C03, imported) with one
                        receiver per target on that target's own file system (Pcp/FanOut.lean).  In every execution -- any
                        fanout, any schedule, the byte transfers of different targets interleaved in any way -- once dsh()
                        has returned every target of the list has had exactly one connection (`exit_after_all`), has been
                        fed every byte of its client's stream exactly once, and its receiver is in the state `run o fs
                        stream` all other theorems speak about; hence (`copy_roundtrip`, `copy_meets_spec` per target) every
                        target holds the copy, acknowledged throughout, and passes the specification.  `forward_target_alone`:
                        in ANY reachable state a target whose worker has begun its tear-down holds the complete result,
                        wherever the other targets are (slow, hanging, not yet started).
* Pcp/Statics.lean, Pcp/ClientStatics.lean
                     -- what K receivers (rpdcp) resp. K client threads (pdcp) of one process share besides the file
                        system / the read-only file list: the static objects and the process-wide calls of pcp_server.c and
                        pcp_client.c, compared with the translation units on every run (pcp_client.c defines NONE).
* Pcp/Response.lean `readAll_wire`, `response_wire`, `response_wire_long`
                     -- the client's reply reader at the BYTE level (`pcp_response` + `fd_read_line` with `char
                        errstr[BUFSIZ]`): reading reply after reply from the bytes the receiver wrote (NUL / `\01`+text+
                        newline) yields exactly the records sent, in order, as long as every error text fits the buffer --
                        the premise under which `Sess.read` (Pcp/Session.lean) may treat the replies as a list; a text that
                        does not fit is cut and its tail stays in the stream (`response_wire_long`; seeded change C11-13).
                        Hypothesis, not proved: the receiver's error texts are shorter than BUFSIZ - 2 (they carry the target
                        path: < PATH_MAX + NAME_MAX + the strerror text for a sender that sends names of existing files).

Modelled, not proved: the threads of the real rpdcp receiver are represented by sequential
processing in an arbitrary order (assumption: the kernel serialises operations per path, and the
targets' names are distinct, so the threads work on disjoint sub-trees).  `copy_onto_anything` is about the client in
its repaired form and without write faults; kinds other than regular file and directory on the target (symbolic links:
C12 `escapes_only_through_links`; devices, sockets: not modelled) are outside `FS`.
A source that cannot be READ: the repaired client (da13fc3) checks every entry with access(2) while it expands the
sources and ends before the first byte is sent (stated, not modelled: the model's trees are readable; pinned end-to-end
case `unreadable` as uid 1000 and the four refused-source kinds).
Forward copy: a target whose connection FAILS is outside the fan-out LTS's alphabet (a failed connect goes through the
same operations, C03) -- its stream is empty and its receiver never runs; the statement per target depends on that
target's own data only.  That dsh.c refines the fan-out LTS is C03's correspondence, that the remote command line is
the one the receiver model is started with is C09's (`cmdf`/`cmdr` here).
For the client AS FOUND a directory that cannot be created scatters its entries (finding F11-DIRFAIL-SCATTER, fixed
in /repo: `dirfail_scatter_witness`).
-/
namespace PdshVerif.Props.C11
open PdshVerif.Pcp PdshVerif.Gen

/-- **Round trip, with write faults** (`error_isolated` for write failures).  `dest` resolves to an
existing directory `D`; the names the sources are sent under are good, pairwise distinct, short enough,
and not yet present below `D`; the receiver may run under a file size limit (`o.fsize`: a write beyond
it is short or fails, like a full disk).  Then the receiver fed with the sender's stream -- the sender
sends every file completely, the error arrives after the data -- ends with the file system
`recvKids o so.subsec fs D (namedSrcs so srcs)`, in which every file that fits is exactly the source's
(`received_file`, at every depth) and every file that does not fit holds the bytes that fitted; it has
consumed the whole stream and answered with acknowledgements and EXACTLY ONE error record per file that
did not fit (`Rs`). -/
theorem copy_with_write_faults (o : Opts) (hc : CntOk o) (so : SOpts)
    (hp : so.preserve = o.preserve) (fs : FS)
    (D : Path) (srcs : List (Str × Tree)) (budget : Nat)
    (hres : resolve fs o.cwd o.dest = some D) (hdir : fs.isDir D = true)
    (hsrc : SrcsOk so srcs) (hb : o.dest.length + budget < PCP_PATH_MAX)
    (hgood : GoodKids budget (namedSrcs so srcs))
    (hfresh : ∀ n k, (n, k) ∈ namedSrcs so srcs → FreshBelow fs (D ++ [n])) :
    (sink o fs (send so srcs)).1 = recvKids o so.subsec fs D (namedSrcs so srcs) ∧
    ∃ rs, (sink o fs (send so srcs)).2.1 = .ack :: rs ∧ Rs rs (faultsKids o (namedSrcs so srcs)) ∧
      (run o fs (send so srcs)).phase = .done ∧ DirMono fs (sink o fs (send so srcs)).1 := by
  have hv : VerifyOk o fs := fun _ => ⟨D, hres, hdir⟩
  have h0 : enter o (St.init fs) o.dest =
      { St.init fs with out := [.ack],
                        stack := [{ targ := o.dest, targisdir := true, setimes := false, mt := default, atm := default }],
                        phase := .start } := by
    rw [enter_ok (p := D) hv hres hdir]
    rfl
  have hat : AtDir o (enter o (St.init fs) o.dest)
      { targ := o.dest, targisdir := true, setimes := false, mt := default, atm := default } [] D := by
    rw [h0]
    exact ⟨rfl, rfl, rfl, hres, hdir, hv, ⟨usecOk_zero _, usecOk_zero _⟩⟩
  have hfresh' : ∀ n k, (n, k) ∈ namedSrcs so srcs → FreshBelow (enter o (St.init fs) o.dest).fs (D ++ [n]) := by
    rw [h0]; exact hfresh
  have hfed := feed_kids hc so.subsec (namedSrcs so srcs) budget _ _ [] D hat (fun e => by cases e) hb hgood hfresh'
  rw [← hp, ← send_eq so srcs hsrc] at hfed
  generalize hst : (send so srcs).foldl (step o) (enter o (St.init fs) o.dest) = st' at hfed
  obtain ⟨⟨f', hat', _, _⟩, hfs, hmono, rs, hrs, hrsa⟩ := hfed
  have hfin : finish o st' = { st' with stack := [], phase := .done } := by
    unfold finish
    simp only [hat'.phase]
    unfold leave
    simp only [hat'.stack]
    rfl
  have hrun : run o fs (send so srcs) = { st' with stack := [], phase := .done } := by
    unfold run; rw [hst, hfin]
  refine ⟨?_, rs.reverse, ?_, ?_, ?_, ?_⟩
  · simp only [sink, hrun, hfs]
    rw [h0]
    rfl
  · simp only [sink, hrun, hrs]
    rw [h0]
    simp
  · exact ⟨fun r hr => hrsa.1 r (List.mem_reverse.1 hr), by rw [List.count_reverse]; exact hrsa.2⟩
  · rw [hrun]
  · simp only [sink, hrun]
    rw [h0] at hmono
    exact hmono

/-- **Round trip.**  Without a file size limit (no write faults): the receiver fed with the sender's
stream ends with the file system `recvKids o so.subsec fs D (namedSrcs so srcs)` and has answered with
acknowledgements only. -/
theorem copy_roundtrip (o : Opts) (hc : CntOk o) (hnf : o.fsize = none) (so : SOpts)
    (hp : so.preserve = o.preserve) (fs : FS)
    (D : Path) (srcs : List (Str × Tree)) (budget : Nat)
    (hres : resolve fs o.cwd o.dest = some D) (hdir : fs.isDir D = true)
    (hsrc : SrcsOk so srcs) (hb : o.dest.length + budget < PCP_PATH_MAX)
    (hgood : GoodKids budget (namedSrcs so srcs))
    (hfresh : ∀ n k, (n, k) ∈ namedSrcs so srcs → FreshBelow fs (D ++ [n])) :
    (sink o fs (send so srcs)).1 = recvKids o so.subsec fs D (namedSrcs so srcs) ∧
    ∀ r ∈ (sink o fs (send so srcs)).2.1, r = Reply.ack := by
  obtain ⟨h1, rs, h2, h3, _, _⟩ := copy_with_write_faults o hc so hp fs D srcs budget hres hdir hsrc hb hgood hfresh
  refine ⟨h1, ?_⟩
  rw [h2, faultsKids_none o hnf] at *
  intro r hr
  simp only [List.mem_cons] at hr
  rcases hr with rfl | hr
  · rfl
  · exact h3.all_ack r hr

/-- **The copy meets the specification** (model refines spec).  `Spec.checkKids` is the function the check's
oracle evaluates on a snapshot of the REAL destination (`pdshmodel pcp spec11`): same kind, same bytes, for
directories exactly the same entry names, recursively, and with -p the same twelve permission bits and the same
modification time to the microsecond.  Under the hypotheses of `copy_roundtrip`, for the sender/receiver pair as
repaired (`Faithful`: no write faults; with -p microseconds are sent and a created directory is chmod'ed), the
file system the receiver ends with passes it WITHOUT A SINGLE DISCREPANCY, `listing` being the paths that exist
afterwards.  (Mutual induction `check_tree`/`check_kids`, Pcp/MeetsSpec.lean.) -/
theorem copy_meets_spec (o : Opts) (hc : CntOk o) (so : SOpts) (hp : so.preserve = o.preserve)
    (hf : Faithful o so.subsec) (fs : FS) (D : Path) (srcs : List (Str × Tree)) (budget : Nat)
    (hres : resolve fs o.cwd o.dest = some D) (hdir : fs.isDir D = true)
    (hsrc : SrcsOk so srcs) (hb : o.dest.length + budget < PCP_PATH_MAX)
    (hgood : GoodKids budget (namedSrcs so srcs))
    (hfresh : ∀ n k, (n, k) ∈ namedSrcs so srcs → FreshBelow fs (D ++ [n]))
    (listing : List Path) (hl : ∀ x, x ∈ listing ↔ (sink o fs (send so srcs)).1 x ≠ none) :
    Spec.checkKids o.preserve (sink o fs (send so srcs)).1 listing D (namedSrcs so srcs) = [] := by
  obtain ⟨h1, _⟩ := copy_roundtrip o hc hf.nofault so hp fs D srcs budget hres hdir hsrc hb hgood hfresh
  apply check_kids o so.subsec hf (namedSrcs so srcs) budget fs D hgood hfresh
  · intro n k _ x _
    rw [h1]
  · intro n k _ x _
    exact hl x

/-- **Copying onto a destination that already holds (an older version of) the tree.**  `dest` resolves to an
existing directory `D`; at the names the sources are sent under there is nothing, or something OF THE SAME KIND,
recursively (`CompatKids`: a regular file where the source has a regular file, a directory where it has a
directory -- e.g. whatever an earlier copy left).  Then the receiver fed with the sender's stream ends with
`mergeKids …`: every regular file of the source holds exactly the source's bytes whatever it held before
(`merged_file_data`: the old tail is cut off), existing directories are entered (with -p re-moded and, after
their entries, re-timed), missing nodes are created as in `copy_roundtrip`, entries the source does not name
stay; and every reply is a positive acknowledgement.  (`feed_tree_merge`/`feed_kids_merge`, Pcp/Merge.lean; on names
that are not present `mergeKids` is `recvKids`: `mergeKids_fresh`.) -/
theorem copy_onto_existing (o : Opts) (hc : CntOk o) (hnf : o.fsize = none) (so : SOpts)
    (hp : so.preserve = o.preserve) (fs : FS)
    (D : Path) (srcs : List (Str × Tree)) (budget : Nat)
    (hres : resolve fs o.cwd o.dest = some D) (hdir : fs.isDir D = true)
    (hsrc : SrcsOk so srcs) (hb : o.dest.length + budget < PCP_PATH_MAX)
    (hgood : GoodKids budget (namedSrcs so srcs))
    (hcompat : CompatKids fs D (namedSrcs so srcs)) :
    (sink o fs (send so srcs)).1 = mergeKids o so.subsec fs D (namedSrcs so srcs) ∧
    (∀ r ∈ (sink o fs (send so srcs)).2.1, r = Reply.ack) ∧
    (run o fs (send so srcs)).phase = .done := by
  have hv : VerifyOk o fs := fun _ => ⟨D, hres, hdir⟩
  have h0 : enter o (St.init fs) o.dest =
      { St.init fs with out := [.ack],
                        stack := [{ targ := o.dest, targisdir := true, setimes := false, mt := default, atm := default }],
                        phase := .start } := by
    rw [enter_ok (p := D) hv hres hdir]
    rfl
  have hat : AtDir o (enter o (St.init fs) o.dest)
      { targ := o.dest, targisdir := true, setimes := false, mt := default, atm := default } [] D := by
    rw [h0]
    exact ⟨rfl, rfl, rfl, hres, hdir, hv, ⟨usecOk_zero _, usecOk_zero _⟩⟩
  have hcompat' : CompatKids (enter o (St.init fs) o.dest).fs D (namedSrcs so srcs) := by
    rw [h0]; exact hcompat
  have hfed := feed_kids_merge hc hnf so.subsec (namedSrcs so srcs) budget _ _ [] D hat (fun e => by cases e) hb hgood
    hcompat'
  rw [← hp, ← send_eq so srcs hsrc] at hfed
  generalize hst : (send so srcs).foldl (step o) (enter o (St.init fs) o.dest) = st' at hfed
  obtain ⟨⟨f', hat', _, _⟩, hfs, _, rs, hrs, hrsa⟩ := hfed
  have hfin : finish o st' = { st' with stack := [], phase := .done } := by
    unfold finish
    simp only [hat'.phase]
    unfold leave
    simp only [hat'.stack]
    rfl
  have hrun : run o fs (send so srcs) = { st' with stack := [], phase := .done } := by
    unfold run; rw [hst, hfin]
  refine ⟨?_, ?_, ?_⟩
  · simp only [sink, hrun, hfs]
    rw [h0]
    rfl
  · intro r hr
    simp only [sink, hrun, hrs, List.mem_reverse, List.mem_append] at hr
    rcases hr with hr | hr
    · exact hrsa.all_ack r hr
    · rw [h0] at hr
      simpa using hr
  · rw [hrun]

/-- ... in which every regular file of the sources holds exactly the source's bytes, whatever was there -/
theorem overwritten_exact (o : Opts) (hnf : o.fsize = none) (ss : Bool) (fs : FS) (q : Path)
    (kids : List (Str × Tree)) (n : Str) (m t a : Nat) (d : Str) (hm : (n, Tree.file m t a d) ∈ kids)
    (hd : kids.Pairwise (fun a b => a.1 ≠ b.1)) :
    ∃ mo tm, mergeKids o ss fs q kids (q ++ [n]) = some (.file mo tm d) :=
  merged_file_data o hnf ss fs q kids n m t a d hm hd

/-- **Copying the same sources again.**  Under the hypotheses of `copy_roundtrip`, what the first copy leaves
behind is compatible with the sources (`compat_after_copy`), so the second copy falls under `copy_onto_existing`:
it is acknowledged record by record and every regular file holds exactly the source's bytes again
(`overwritten_exact`). -/
theorem copy_twice (o : Opts) (hc : CntOk o) (hnf : o.fsize = none) (so : SOpts)
    (hp : so.preserve = o.preserve) (fs : FS)
    (D : Path) (srcs : List (Str × Tree)) (budget : Nat)
    (hres : resolve fs o.cwd o.dest = some D) (hdir : fs.isDir D = true)
    (hsrc : SrcsOk so srcs) (hb : o.dest.length + budget < PCP_PATH_MAX)
    (hgood : GoodKids budget (namedSrcs so srcs))
    (hfresh : ∀ n k, (n, k) ∈ namedSrcs so srcs → FreshBelow fs (D ++ [n])) :
    (sink o (sink o fs (send so srcs)).1 (send so srcs)).1 =
      mergeKids o so.subsec (sink o fs (send so srcs)).1 D (namedSrcs so srcs) ∧
    ∀ r ∈ (sink o (sink o fs (send so srcs)).1 (send so srcs)).2.1, r = Reply.ack := by
  obtain ⟨h1, _, _, _, _, hmono⟩ := copy_with_write_faults o hc so hp fs D srcs budget hres hdir hsrc hb hgood hfresh
  have hc1 : CompatKids (sink o fs (send so srcs)).1 D (namedSrcs so srcs) := by
    rw [h1]
    exact compat_after_copy o so.subsec _ budget fs D hgood hfresh
  obtain ⟨a, b, _⟩ := copy_onto_existing o hc hnf so hp _ D srcs budget (resolve_mono hmono hres) (hmono _ hdir) hsrc hb
    hgood hc1
  exact ⟨a, b⟩

/-- **One file of any size** at the byte level (`feed_C` re-stated): at a record boundary in a
directory, `C<mode> <size> <name>\n` + the bytes + NUL create exactly that file, with two
acknowledgements. -/
theorem file_any_size (o : Opts) (hc : CntOk o) (hnf : o.fsize = none) (st : St) (f : Frame)
    (rest : List Frame) (q : Path)
    (hat : AtDir o st f rest q) (hns : f.setimes = false) (n : Str) (hn : GoodName n)
    (hfresh : st.fs (q ++ [n]) = none) (hlen : f.targ.length + n.length + 1 < PCP_PATH_MAX)
    (m : Nat) (d : Str) (hsz : d.length < 2 ^ 63) :
    let st' := (cRecord m d.length n ++ d ++ [0]).foldl (step o) st
    st'.fs (q ++ [n]) = some (.file (maskOff (m &&& RCP_MODEMASK) o.eumask) none d) ∧
    st'.out = .ack :: .ack :: st.out ∧ st'.touched = (q ++ [n]) :: st.touched ∧ st'.phase = .start := by
  simp only
  have hfit : o.fitsB d.length = true := by simp [Opts.fitsB, hnf]
  rw [feed_C hc hat.phase hat.stack hat.isdir hat.res hat.dir hn hfresh hlen m d hsz hfit hat.us]
  simp [hns, set_self, recvFile]

/-- **An existing regular file is replaced, not patched** (`feed_C_over`).  At a record boundary in a directory,
the name `n` being taken by a regular file with ANY old contents `od` (shorter, one byte longer, blocks longer),
`C<mode> <size> <name>\n` + the bytes + NUL leave exactly those bytes in it -- the final `ftruncate(ofd, size)`
cuts the old tail off, for every new size including 0 and the multiples of the transfer block --, with the old mode
or, with -p, the mode sent; nothing else changes (the parent directory is not even re-timed), two
acknowledgements. -/
theorem existing_file_replaced (o : Opts) (hc : CntOk o) (hnf : o.fsize = none) (st : St) (f : Frame)
    (rest : List Frame) (q : Path) (hat : AtDir o st f rest q) (n : Str) (hn : GoodName n)
    (om : Nat) (ot : Option Time) (od : Str) (hold : st.fs (q ++ [n]) = some (.file om ot od))
    (hlen : f.targ.length + n.length + 1 < PCP_PATH_MAX) (m : Nat) (d : Str) (hsz : d.length < 2 ^ 63) :
    let st' := (cRecord m d.length n ++ d ++ [0]).foldl (step o) st
    st'.fs (q ++ [n]) = some (.file (overMode o om (m &&& RCP_MODEMASK)) (if f.setimes then some f.mt else none) d) ∧
    (∀ x, x ≠ q ++ [n] → st'.fs x = st.fs x) ∧
    st'.out = .ack :: .ack :: st.out ∧ st'.phase = .start := by
  simp only
  have hfit : o.fitsB d.length = true := by simp [Opts.fitsB, hnf]
  rw [feed_C_over hc hat.phase hat.stack hat.isdir hat.res hat.dir hn hold hlen m d hsz hfit hat.us]
  exact ⟨set_self _ _ _, fun x hx => set_other _ _ _ _ hx, rfl, rfl⟩

/-! ## what arrives -/

/-- **Files arrive with their bytes**: the node for a regular file among the received siblings. -/
theorem received_file (o : Opts) (ss : Bool) (fs : FS) (q : Path) (kids : List (Str × Tree)) (n : Str)
    (m t a : Nat) (d : Str) (hm : (n, Tree.file m t a d) ∈ kids) (hd : kids.Pairwise (fun a b => a.1 ≠ b.1))
    (hfit : o.fitsB d.length = true) :
    recvKids o ss fs q kids (q ++ [n]) =
      some (.file (maskOff (m &&& RCP_MODEMASK) o.eumask) (if o.preserve then some (sentTime ss t) else none) d) := by
  obtain ⟨fs0, h⟩ := recvKids_lookup o ss fs q kids n _ hm hd
  rw [h]
  simp [recvTree, set_self, recvFile, recvFileNode, hfit]

/-- a file that does not fit the receiver's file size limit holds the bytes that fitted -- at its own
path; no other path is affected (`recvKids_lookup`/`recvTree_other`) -/
theorem received_file_toobig (o : Opts) (ss : Bool) (fs : FS) (q : Path) (kids : List (Str × Tree)) (n : Str)
    (m t a : Nat) (d : Str) (hm : (n, Tree.file m t a d) ∈ kids) (hd : kids.Pairwise (fun a b => a.1 ≠ b.1))
    (hfit : o.fitsB d.length = false) :
    recvKids o ss fs q kids (q ++ [n]) =
      some (.file (maskOff (m &&& RCP_MODEMASK) o.eumask) none (o.writable d)) := by
  obtain ⟨fs0, h⟩ := recvKids_lookup o ss fs q kids n _ hm hd
  rw [h]
  simp [recvTree, set_self, recvFileNode, hfit]

/-- **-p preserves mode and modification time of files**: to the microsecond with the repaired sender,
to the second with the code as found. -/
theorem preserve_meta_file (o : Opts) (hp : o.preserve = true) (ss : Bool) (fs : FS) (q : Path)
    (kids : List (Str × Tree)) (n : Str) (m t a : Nat) (d : Str) (hm : (n, Tree.file m t a d) ∈ kids)
    (hd : kids.Pairwise (fun a b => a.1 ≠ b.1)) (hfit : o.fitsB d.length = true) :
    recvKids o ss fs q kids (q ++ [n]) =
      some (.file (m % 4096) (some ⟨((t / USEC : Nat) : Int), ((if ss then t % USEC else 0 : Nat) : Int)⟩) d) := by
  rw [received_file o ss fs q kids n m t a d hm hd hfit]
  simp [hp, Opts.eumask, maskOff_zero, sentUsec]

/-- **Directories arrive** with the mode `recvDirMode` (what `mkdir` gives: permission and sticky bits
of the source mode under the umask, set-group-ID inherited from the parent; or, repaired receiver with
-p, the source's twelve bits) and, with -p, the source's modification time. -/
theorem received_dir (o : Opts) (ss : Bool) (fs : FS) (q : Path) (n : Str) (m t a : Nat)
    (kids : List (Str × Tree)) :
    recvTree o ss fs q n (.dir m t a kids) (q ++ [n]) =
      some (.dir (recvDirMode o fs q n m) (if o.preserve then some (sentTime ss t) else none)) ∨
    (o.preserve = false ∧ ∃ tm, recvTree o ss fs q n (.dir m t a kids) (q ++ [n]) =
      some (.dir (recvDirMode o fs q n m) tm)) := by
  have h1 : ((fs.bumpDir q).set (q ++ [n]) (recvDirNode o fs q n m)) (q ++ [n]) =
      some (.dir (recvDirMode o fs q n m) none) := by
    rw [set_self]; rfl
  obtain ⟨tm', h2⟩ := recvKids_parent o ss _ (q ++ [n]) kids _ _ h1
  simp only [recvTree]
  by_cases hp : o.preserve = true
  · left
    simp only [hp, ↓reduceIte]
    unfold setMtimeAt
    rw [h2]
    simp [set_self, Node.setMtime]
  · right
    have hp' : o.preserve = false := by simpa using hp
    exact ⟨hp', tm', by simp only [hp', Bool.false_eq_true, ↓reduceIte]; exact h2⟩

/-- **-p preserves mode and modification time of directories** whose mode has no set-ID bit, below a
parent without set-group-ID (otherwise not, with the receiver as found: finding F11-DIRMODE-SETID). -/
theorem preserve_meta_dir (o : Opts) (hp : o.preserve = true) (ss : Bool) (fs : FS) (q : Path) (n : Str)
    (m t a : Nat) (kids : List (Str × Tree)) (hm : m % 4096 < 1024)
    (hpar : parentMode fs (q ++ [n]) &&& 0o2000 = 0) :
    recvTree o ss fs q n (.dir m t a kids) (q ++ [n]) = some (.dir (m % 4096) (some (sentTime ss t))) := by
  rcases received_dir o ss fs q n m t a kids with h | ⟨h, _⟩
  · rw [h]
    have hmask : m &&& RCP_MODEMASK = m % 4096 := by
      rw [MODEMASK_eq]; exact Nat.and_two_pow_sub_one_eq_mod m 12
    have hmm : recvDirMode o fs q n m = m % 4096 := by
      unfold recvDirMode
      split
      · rw [hmask, Nat.mod_mod]
      · simp only [hp, Opts.eumask, ↓reduceIte, mkdirMode, maskOff_zero, hpar, Nat.or_zero]
        have := Nat.and_two_pow_sub_one_eq_mod (m % 4096) 10
        simp only [Nat.reducePow, Nat.add_one_sub_one] at this
        rw [show (0o1777 : Nat) = 1023 from rfl, this]
        omega
    simp only [hp, ↓reduceIte, hmm]
  · rw [hp] at h; cases h

/-- with the repaired receiver (chmod after mkdir) -p preserves every directory mode -/
theorem preserve_meta_dir_repaired (o : Opts) (hp : o.preserve = true) (hfix : o.dirChmod = true) (ss : Bool)
    (fs : FS) (q : Path) (n : Str) (m t a : Nat) (kids : List (Str × Tree)) :
    recvTree o ss fs q n (.dir m t a kids) (q ++ [n]) = some (.dir (m % 4096) (some (sentTime ss t))) := by
  rcases received_dir o ss fs q n m t a kids with h | ⟨h, _⟩
  · rw [h]
    have hmask : m &&& RCP_MODEMASK = m % 4096 := by
      rw [MODEMASK_eq]; exact Nat.and_two_pow_sub_one_eq_mod m 12
    simp only [hp, ↓reduceIte, recvDirMode, hfix, Bool.and_self, hmask, Nat.mod_mod]
  · rw [hp] at h; cases h

/-- **A directory's modification time survives its own entries** (-p).  Creating the entries of a directory
refreshes its modification time (`FS.bumpDir`, as the kernel does), so the receiver must set the time AFTER it
has populated the directory -- pcp_server.c calls `utimes` after the recursive `_sink` has returned, `recvTree`
mirrors that order.  Whatever the directory holds (`sub`: any entries, any depth), wherever it stands among its
siblings, it ends with the source's modification time. -/
theorem dir_mtime_after_entries (o : Opts) (hp : o.preserve = true) (ss : Bool) (fs : FS) (q : Path)
    (kids : List (Str × Tree)) (n : Str) (m t a : Nat) (sub : List (Str × Tree))
    (hm : (n, Tree.dir m t a sub) ∈ kids) (hd : kids.Pairwise (fun a b => a.1 ≠ b.1)) :
    ∃ md, recvKids o ss fs q kids (q ++ [n]) = some (.dir md (some (sentTime ss t))) := by
  obtain ⟨fs0, h⟩ := recvKids_lookup o ss fs q kids n _ hm hd
  rw [h]
  rcases received_dir o ss fs0 q n m t a sub with h1 | ⟨h1, _⟩
  · refine ⟨recvDirMode o fs0 q n m, ?_⟩
    rw [h1]
    simp [hp]
  · rw [hp] at h1; cases h1

/-- the hypotheses of `preserve_meta_dir` are satisfiable: mode 0755 below a 0755 parent -/
example : (0o755 % 4096 < 1024) ∧ ((0o755 : Nat) &&& 0o2000 = 0) := by decide

/-! ## error isolation and "nothing else" -/

/-- **`error_isolated` for files that cannot be opened.**  The entries sent into `D` are trees whose
names are free there (`Item.good`) and regular files whose name is taken by a directory on the target
(`Item.blocked`); all names are distinct.  The stream is that of the interactive sender, which after
the error reply to a `C` record sends neither the file's data nor the NUL.  Then the receiver consumes
the whole stream; it ends with the file system `recvKids … (goods items)` -- exactly as if the blocked
files had not been there, so every other file is identical to the source (`received_file`); and it
answers with acknowledgements, one "cannot open" error record per blocked file and one "can't
truncate" error record per file beyond the file size limit. -/
theorem error_isolated_open (o : Opts) (hc : CntOk o) (ss : Bool) (fs : FS) (D : Path) (items : List Item)
    (budget : Nat) (hres : resolve fs o.cwd o.dest = some D) (hdir : fs.isDir D = true)
    (hb : o.dest.length + budget < PCP_PATH_MAX) (hok : ItemsOk budget fs D items) :
    (sink o fs (itemsBytes o.preserve ss items)).1 = recvKids o ss fs D (goods items) ∧
    ∃ rs, (sink o fs (itemsBytes o.preserve ss items)).2.1 = .ack :: rs ∧
      RsI rs (faultsKids o (goods items)) (blockedCount items) ∧
      (run o fs (itemsBytes o.preserve ss items)).phase = .done := by
  have hv : VerifyOk o fs := fun _ => ⟨D, hres, hdir⟩
  have h0 : enter o (St.init fs) o.dest =
      { St.init fs with out := [.ack],
                        stack := [{ targ := o.dest, targisdir := true, setimes := false, mt := default, atm := default }],
                        phase := .start } := by
    rw [enter_ok (p := D) hv hres hdir]
    rfl
  have hat : AtDir o (enter o (St.init fs) o.dest)
      { targ := o.dest, targisdir := true, setimes := false, mt := default, atm := default } [] D := by
    rw [h0]
    exact ⟨rfl, rfl, rfl, hres, hdir, hv, ⟨usecOk_zero _, usecOk_zero _⟩⟩
  have hok' : ItemsOk budget (enter o (St.init fs) o.dest).fs D items := by
    rw [h0]; exact hok
  have hfed := feed_items hc ss items budget _ _ [] D hat (fun e => by cases e) hb hok'
  generalize hst : (itemsBytes o.preserve ss items).foldl (step o) (enter o (St.init fs) o.dest) = st' at hfed
  obtain ⟨⟨f', hat', _, _⟩, hfs, rs, hrs, hrsa⟩ := hfed
  have hfin : finish o st' = { st' with stack := [], phase := .done } := by
    unfold finish
    simp only [hat'.phase]
    unfold leave
    simp only [hat'.stack]
    rfl
  have hrun : run o fs (itemsBytes o.preserve ss items) = { st' with stack := [], phase := .done } := by
    unfold run; rw [hst, hfin]
  refine ⟨?_, rs.reverse, ?_, ?_, ?_⟩
  · simp only [sink, hrun, hfs]
    rw [h0]
    rfl
  · simp only [sink, hrun, hrs]
    rw [h0]
    simp
  · exact ⟨fun r hr => hrsa.1 r (List.mem_reverse.1 hr), by rw [List.count_reverse]; exact hrsa.2.1,
      by rw [List.count_reverse]; exact hrsa.2.2⟩
  · rw [hrun]

/-- **The destination holds nothing but the installed trees and what was there before** (the `names`
clause of `Spec.check`): after the copy of `copy_with_write_faults`, a path that exists either existed
before or is a node of one of the source trees below its name in `D`. -/
theorem no_other_entries (o : Opts) (ss : Bool) (fs : FS) (D : Path) (kids : List (Str × Tree)) (budget : Nat)
    (hdir : fs.isDir D = true) (hfresh : ∀ n k, (n, k) ∈ kids → FreshBelow fs (D ++ [n]))
    (hgood : GoodKids budget kids) (x : Path) (hx : recvKids o ss fs D kids x ≠ none) :
    fs x ≠ none ∨ ∃ c rel, x = D ++ [c] ++ rel ∧ kidsHave kids c rel = true := by
  by_cases hp : D <+: x
  · obtain ⟨r, rfl⟩ := hp
    cases r with
    | nil =>
      left
      rw [List.append_nil]
      intro hn
      simp [FS.isDir, hn] at hdir
    | cons c rel =>
      have e : D ++ c :: rel = D ++ [c] ++ rel := by simp
      rw [e] at hx ⊢
      rcases recvKids_only o ss fs D kids budget hfresh hgood c rel hx with h | h
      · exact Or.inl h
      · exact Or.inr ⟨c, rel, rfl, h⟩
  · left
    rw [recvKids_other o ss fs D kids x (fun e => hp (e ▸ List.prefix_refl _))
      (fun n _ _ hpre => hp ((List.prefix_append _ _).trans hpre))] at hx
    exact hx

/-! ## reverse copy names -/

/-- **`.host` naming**: in a reverse copy (`pdcp -Z files host` on the remote side) an entry the user
named `dir/base` (or just `base`) is sent under the name `base.host`. -/
theorem reverse_names (so : SOpts) (hrev : so.reverse = true) (dir base : Str) (hb : cSlash ∉ base)
    (hh : cSlash ∉ so.host) :
    sentName so (dir ++ cSlash :: base) true = base ++ cDot :: so.host ∧
    sentName so base true = base ++ cDot :: so.host := by
  have hbh : cSlash ∉ base ++ cDot :: so.host := by
    intro hm
    simp only [List.mem_append, List.mem_cons] at hm
    rcases hm with h | h | h
    · exact hb h
    · revert h; decide
    · exact hh h
  constructor
  · simp only [sentName, hrev, Bool.and_self, ↓reduceIte]
    have : dir ++ cSlash :: base ++ cDot :: so.host = dir ++ cSlash :: (base ++ cDot :: so.host) := by simp
    rw [this, xbasename_join _ _ hbh]
  · simp only [sentName, hrev, Bool.and_self, ↓reduceIte]
    unfold xbasename
    rw [splitSlash_noslash _ hbh]
    rfl

/-- a forward copy sends the base name -/
theorem forward_names (so : SOpts) (hrev : so.reverse = false) (dir base : Str) (hb : cSlash ∉ base) :
    sentName so (dir ++ cSlash :: base) true = base := by
  simp only [sentName, hrev, Bool.false_and, Bool.false_eq_true, ↓reduceIte]
  exact xbasename_join _ _ hb

/-! ## rpdcp: several targets into one directory -/

/-- the streams of the targets `ts`, processed in the order given, install every target's trees -/
theorem reverse_many_seq (o : Opts) (hc : CntOk o) (ss : Bool) (D : Path) (budget : Nat)
    (hb : o.dest.length + budget < PCP_PATH_MAX) (ts : List Target) :
    ∀ (fs : FS), (∀ t ∈ ts, t.so.preserve = o.preserve ∧ t.so.subsec = ss ∧ SrcsOk t.so t.srcs) →
      resolve fs o.cwd o.dest = some D → fs.isDir D = true → GoodKids budget (allNamed ts) →
      (∀ n k, (n, k) ∈ allNamed ts → FreshBelow fs (D ++ [n])) →
      runMany o fs (ts.map Target.stream) = recvKids o ss fs D (allNamed ts) := by
  induction ts with
  | nil => intro fs _ _ _ _ _; rfl
  | cons t r ih =>
    intro fs hts hres hdir hgood hfresh
    rw [allNamed_cons] at hgood hfresh ⊢
    obtain ⟨hg1, hg2, hcross⟩ := goodKids_append hgood
    obtain ⟨hp, hss, hsrc⟩ := hts t List.mem_cons_self
    obtain ⟨h1, _, _, _, _, hmono⟩ := copy_with_write_faults o hc t.so hp fs D t.srcs budget hres hdir hsrc hb hg1
      (fun n k hm => hfresh n k (List.mem_append_left _ hm))
    simp only [List.map_cons, runMany, List.foldl_cons]
    show runMany o (sink o fs t.stream).1 (r.map Target.stream) = _
    have hfs' : (sink o fs t.stream).1 = recvKids o ss fs D t.named := by
      rw [← hss]; exact h1
    rw [ih (sink o fs t.stream).1 (fun t' ht' => hts t' (List.mem_cons_of_mem _ ht'))
      (resolve_mono hmono hres) (hmono _ hdir) hg2 ?_, hfs', recvKids_append]
    intro n k hm x hx
    rw [hfs', recvKids_other o ss fs D t.named x (prefix_snoc_ne hx)
      (fun n' k' hm' => ne_prefix_snoc' (hcross (n', k') hm' (n, k) hm) hx)]
    exact hfresh n k (List.mem_append_right _ hm) x hx

/-- **Reverse round trip, N targets, any order.**  Each target `t ∈ ts` runs the client on its own
trees and sends them under its own names (`SRC.host`, see `reverse_names`); the names of all targets
are pairwise distinct and free in the local destination `D` (`GoodKids` of `allNamed ts`,
`FreshBelow`).  In whatever order `ts'` (a permutation of `ts`) the local receiver processes the
streams, it ends with the SAME file system: `recvKids … (allNamed ts)` -- exactly one copy per target
under its own name (`received_file`/`received_dir` for every node, `no_other_entries`). -/
theorem reverse_roundtrip (o : Opts) (hc : CntOk o) (ss : Bool) (fs : FS) (D : Path) (budget : Nat)
    (hb : o.dest.length + budget < PCP_PATH_MAX) (ts : List Target)
    (hts : ∀ t ∈ ts, t.so.preserve = o.preserve ∧ t.so.subsec = ss ∧ SrcsOk t.so t.srcs)
    (hres : resolve fs o.cwd o.dest = some D) (hdir : fs.isDir D = true)
    (hgood : GoodKids budget (allNamed ts))
    (hfresh : ∀ n k, (n, k) ∈ allNamed ts → FreshBelow fs (D ++ [n]))
    (ts' : List Target) (hperm : ts'.Perm ts) :
    runMany o fs (ts'.map Target.stream) = recvKids o ss fs D (allNamed ts) := by
  have hpn : (allNamed ts').Perm (allNamed ts) := by
    unfold allNamed
    exact hperm.flatMap_right _
  have hgood' : GoodKids budget (allNamed ts') := goodKids_perm hpn.symm hgood
  rw [reverse_many_seq o hc ss D budget hb ts' fs (fun t ht => hts t (hperm.mem_iff.1 ht)) hres hdir hgood'
    (fun n k hm => hfresh n k (hpn.mem_iff.1 hm))]
  exact recvKids_perm o ss D hpn ((goodKids_iff _ _).1 hgood').2 fs

/-- different hosts give different names for the same base name -/
theorem host_names_distinct (base h1 h2 : Str) (h : h1 ≠ h2) : base ++ cDot :: h1 ≠ base ++ cDot :: h2 := by
  intro e
  have := List.append_cancel_left e
  simp at this
  exact h this

/-! ## the hypotheses of `copy_roundtrip` are satisfiable -/

/-- `/w` is the working directory, `/w/d` the (empty) destination -/
def xfs : FS := fun p =>
  if p = [] then some (.dir 0o755 none)
  else if p = [[119]] then some (.dir 0o755 none)
  else if p = [[119], [100]] then some (.dir 0o755 none)
  else none

def xo : Opts :=
  { preserve := true, targetIsDir := true, umask := 0o22, cnt := 8192, rule := .slashDotdot, dirChmod := false,
    fsize := none, cwd := [[119]], dest := [100] }

def xso : SOpts := { preserve := true, reverse := false, host := [], subsec := true, sentinelFix := false }

/-- `pdcp -r -p t /w/d` with `t/` holding the one-byte file `e` (times in microseconds) -/
def xsrcs : List (Str × Tree) :=
  [([116], .dir 0o750 1000000007 2000000000 [([101], .file 0o640 3000000250 4000000000 [88])])]

example :
    (sink xo xfs (send xso xsrcs)).1 = recvKids xo true xfs [[119], [100]] (namedSrcs xso xsrcs) ∧
    (∀ r ∈ (sink xo xfs (send xso xsrcs)).2.1, r = Reply.ack) ∧
    recvKids xo true xfs [[119], [100]] (namedSrcs xso xsrcs) [[119], [100], [116], [101]] =
      some (.file 0o640 (some ⟨3000, 250⟩) [88]) := by
  have h := copy_roundtrip xo ⟨by decide, by decide⟩ rfl xso rfl xfs [[119], [100]] xsrcs 100
    (by decide +kernel) (by decide +kernel)
    (by simp only [xsrcs, SrcsOk, KidNamesOk, KidListOk]; decide)
    (by decide)
    (by
      have e : namedSrcs xso xsrcs = xsrcs := by
        have : sentName xso [116] true = [116] := by decide +kernel
        simp [namedSrcs, xsrcs, this]
      rw [e]
      simp only [xsrcs, GoodKids, GoodTree]
      refine ⟨⟨goodName_single _ (by decide) (by decide) (by decide) (by decide), by decide, by decide, by decide,
        ⟨goodName_single _ (by decide) (by decide) (by decide) (by decide), by decide, by decide, by decide, by decide⟩,
        by simp, trivial⟩, by simp, trivial⟩)
    (by
      intro n k _ x hx
      have hl := hx.length_le
      simp only [List.length_append, List.length_cons, List.length_nil] at hl
      unfold xfs
      have h1 : x ≠ [] := by intro e; subst e; simp at hl
      have h2 : x ≠ [[119]] := by intro e; subst e; simp at hl
      have h3 : x ≠ [[119], [100]] := by intro e; subst e; simp at hl
      simp [h1, h2, h3])
  refine ⟨h.1, h.2, by decide +kernel⟩

/-- `copy_meets_spec` on the same instance with the repaired receiver: no discrepancy; and the specification is
not trivially satisfied -- the sender as found (whole seconds) leaves the sub-second modification times of
`t` and `t/e` behind (finding F11-MTIME-SUBSEC, fixed in /repo) -/
example :
    Spec.checkKids true (sink { xo with dirChmod := true } xfs (send xso xsrcs)).1
      [[], [[119]], [[119], [100]], [[119], [100], [116]], [[119], [100], [116], [101]]] [[119], [100]]
      (namedSrcs xso xsrcs) = [] ∧
    Spec.checkKids true (sink { xo with dirChmod := true } xfs (send { xso with subsec := false } xsrcs)).1
      [[], [[119]], [[119], [100]], [[119], [100], [116]], [[119], [100], [116], [101]]] [[119], [100]]
      (namedSrcs xso xsrcs) = [([[119], [100], [116]], .mtime), ([[119], [100], [116], [101]], .mtime)] := by
  refine ⟨by decide +kernel, by decide +kernel⟩

/-! ## the hypotheses of `reverse_roundtrip` are satisfiable -/

def ro : Opts :=
  { preserve := false, targetIsDir := false, umask := 0o22, cnt := 8192, rule := .slashDotdot, dirChmod := true,
    fsize := none, cwd := [[119]], dest := [100] }

/-- target `a` holds the file `t` with contents `X`, target `b` with contents `Y` -/
def ta : Target :=
  { so := { preserve := false, reverse := true, host := [97], subsec := true, sentinelFix := true },
    srcs := [([116], .file 0o644 0 0 [88])] }
def tb : Target :=
  { so := { preserve := false, reverse := true, host := [98], subsec := true, sentinelFix := true },
    srcs := [([116], .file 0o644 0 0 [89])] }

example :
    runMany ro xfs ([tb, ta].map Target.stream) = recvKids ro true xfs [[119], [100]] (allNamed [ta, tb]) ∧
    recvKids ro true xfs [[119], [100]] (allNamed [ta, tb]) [[119], [100], [116, 46, 97]] =
      some (.file 0o644 none [88]) ∧
    recvKids ro true xfs [[119], [100]] (allNamed [ta, tb]) [[119], [100], [116, 46, 98]] =
      some (.file 0o644 none [89]) := by
  have ea : sentName ta.so [116] true = [116, 46, 97] := by decide +kernel
  have eb : sentName tb.so [116] true = [116, 46, 98] := by decide +kernel
  have en : allNamed [ta, tb] = [([116, 46, 97], .file 0o644 0 0 [88]), ([116, 46, 98], .file 0o644 0 0 [89])] := by
    simp [allNamed, Target.named, namedSrcs, ta, tb] at ea eb ⊢
    exact ⟨ea, eb⟩
  refine ⟨?_, by rw [en]; decide +kernel, by rw [en]; decide +kernel⟩
  apply reverse_roundtrip ro ⟨by decide, by decide⟩ true xfs [[119], [100]] 100 (by decide) [ta, tb]
  · intro t ht
    simp only [List.mem_cons, List.not_mem_nil, or_false] at ht
    rcases ht with rfl | rfl
    · exact ⟨rfl, rfl, by simp only [ta, SrcsOk, KidNamesOk]; decide⟩
    · exact ⟨rfl, rfl, by simp only [tb, SrcsOk, KidNamesOk]; decide⟩
  · decide +kernel
  · decide +kernel
  · rw [en]
    simp only [GoodKids, GoodTree]
    refine ⟨⟨⟨⟨by decide, by decide, by decide, by decide⟩, ⟨by decide, by decide⟩, by decide⟩, by decide,
      by decide, by decide, by decide⟩, by simp, ⟨⟨⟨by decide, by decide, by decide, by decide⟩,
      ⟨by decide, by decide⟩, by decide⟩, by decide, by decide, by decide, by decide⟩, by simp, trivial⟩
  · intro n k _ x hx
    have hl := hx.length_le
    simp only [List.length_append, List.length_cons, List.length_nil] at hl
    unfold xfs
    have h1 : x ≠ [] := by intro e; subst e; simp at hl
    have h2 : x ≠ [[119]] := by intro e; subst e; simp at hl
    have h3 : x ≠ [[119], [100]] := by intro e; subst e; simp at hl
    simp [h1, h2, h3]
  · exact List.Perm.swap _ _ _

/-! ## Several receivers in one process (rpdcp serves its targets by threads of one process) -/

/-- `receivers_independent` (routing).  In the product of receivers over one shared file system, events
of other connections -- any number, in any interleaving, including their error replies -- leave
connection `j`'s own state untouched: its reply stream, its stack of directory levels and its parser
state change only by events of connection `j`.  (The seeded change C11-4, a reply `FILE*` cached across
calls, breaks exactly this; the check runs the real receivers as threads of one process against it.) -/
theorem receivers_independent (os : List Opts) (m : Multi) (sched : List Event) (j : Nat)
    (h : ∀ e ∈ sched, e.1 ≠ j) : (m.run os sched).conns[j]? = m.conns[j]? :=
  run_other os j sched h m

/-- The product restricted to one connection IS the single receiver: with only connection `i` active,
its replies and the shared file system are those of `run` on its stream, whatever the number and the
options of the other (idle) receivers. -/
theorem receiver_alone (os : List Opts) (i : Nat) (o : Opts) (ho : os[i]? = some o) (fs : FS) (stream : Str) :
    ((Multi.init os fs).run os (soloSched i stream)).fs = (run o fs stream).fs ∧
    ((Multi.init os fs).run os (soloSched i stream)).conns[i]? = some (run o fs stream).loc := by
  have hfs : (enter o (St.init fs) o.dest).fs = fs := by
    unfold enter
    split
    · simp [leave, St.reply, St.init]
    · rfl
  have hl : (Multi.init os fs).conns[i]? = some (enter o (St.init fs) o.dest).loc := by
    simp [Multi.init, ho]
  have hb := run_bytes os i o ho stream (Multi.init os fs) _ hl
  have he : St.ofLoc (Multi.init os fs).fs (enter o (St.init fs) o.dest).loc = enter o (St.init fs) o.dest := by
    have := St.ofLoc_loc (enter o (St.init fs) o.dest)
    rw [hfs] at this
    exact this
  rw [he] at hb
  obtain ⟨h1, h2⟩ := hb
  have hi : i < ((Multi.init os fs).run os (stream.map fun b => (i, some b))).conns.length := by
    rcases Nat.lt_or_ge i ((Multi.init os fs).run os (stream.map fun b => (i, some b))).conns.length with h | h
    · exact h
    · rw [List.getElem?_eq_none h] at h2; cases h2
  have hrun : (Multi.init os fs).run os (soloSched i stream) =
      (((Multi.init os fs).run os (stream.map fun b => (i, some b))).stepAt os (i, none)) := by
    simp [Multi.run, soloSched, List.foldl_append]
  rw [hrun]
  have hst := St.ofLoc_loc (stream.foldl (step o) (enter o (St.init fs) o.dest))
  rw [← h1] at hst
  simp only [Multi.stepAt, ho, h2, hst]
  exact ⟨rfl, by simp only [List.getElem?_set, hi, if_true]; rfl⟩

/-- `receivers_independent` holds as stated above for the schedules in which no two `_error()` calls
overlap (events are atomic).  With the REPAIRED `_error()` (reply stream in an automatic variable) it also
holds when a receiver is overtaken inside `_error()`: the overlapped step of `a` together with the events
of the receivers overtaking it leaves every other connection untouched. -/
theorem receivers_independent_repaired (os : List Opts) (m : Multi) (ea : Event) (inner : List Event) (j : Nat)
    (ha : j ≠ ea.1) (hin : ∀ e ∈ inner, e.1 ≠ j) :
    (m.overlapAt false os ea inner).conns[j]? = m.conns[j]? :=
  overlapAt_other os m ea inner j ha hin

/-- `/w/d` holds the directories `f` and `g`: a regular file of either name cannot be written -/
def rfs : FS := fun p =>
  if p = [] then some (.dir 0o755 none)
  else if p = [[119]] then some (.dir 0o755 none)
  else if p = [[119], [100]] then some (.dir 0o755 none)
  else if p = [[119], [100], [102]] then some (.dir 0o755 none)
  else if p = [[119], [100], [103]] then some (.dir 0o755 none)
  else none

/-- `C0644 1 f\n` without its newline, and `C0644 1 g\n` -/
def recF : Str := [67, 48, 54, 52, 52, 32, 49, 32, 102]
def recG : Str := [67, 48, 54, 52, 52, 32, 49, 32, 103, 10]

/-- Finding F11-ERRFP-RACE mirrored: with the shared `static FILE *fp` of the unchanged `_error()`, when
receiver 0 is overtaken inside `_error()` by receiver 1 reporting an error of its own, BOTH records end up
on connection 1 and connection 0 gets nothing beyond the greeting; with the repaired `_error()` each
connection gets its own record. -/
theorem errfp_race_witness :
    ((((Multi.init [ro, ro] rfs).run [ro, ro] (recF.map fun b => (0, some b))).overlapAt true [ro, ro] (0, some 10)
        (recG.map fun b => (1, some b))).conns.map (·.out) = [[.ack], [.err .path, .err .path, .ack]]) ∧
    ((((Multi.init [ro, ro] rfs).run [ro, ro] (recF.map fun b => (0, some b))).overlapAt false [ro, ro] (0, some 10)
        (recG.map fun b => (1, some b))).conns.map (·.out) = [[.err .path, .ack], [.err .path, .ack]]) := by
  decide +kernel

/-! ## The interactive sender (pcp_client.c with its reaction to replies, Pcp/Session.lean) -/

/-- In a session -- the client model reacting to every reply, against the receiver automaton -- the
receiver's state is `step` folded over exactly the bytes the client has sent. -/
theorem session_receiver_in_step (so : SOpts) (co : COpts) (o : Opts) (fs : FS) (es : List Entry) :
    (session so co o fs es).st = (session so co o fs es).sent.foldl (step o) (enter o (St.init fs) o.dest) :=
  session_sync so co o fs es

/-- A session in which no reply read by the client was negative has sent exactly `send so srcs`: the
all-positive sender model of Send.lean is what the interactive client does on such runs (either form of
the client). -/
theorem session_without_error_sends (so : SOpts) (co : COpts) (o : Opts) (fs : FS) (srcs : List (Str × Tree))
    (hf : (session so co o fs (expandAll srcs)).failed = false) :
    (session so co o fs (expandAll srcs)).sent = send so srcs :=
  session_clean so co o fs srcs hf

/-- ... and then the session ends in the state `run o fs (send so srcs)` that `copy_roundtrip`,
`copy_with_write_faults` and the `received_*`/`preserve_meta_*` theorems describe. -/
theorem session_without_error_is_run (so : SOpts) (co : COpts) (o : Opts) (fs : FS) (srcs : List (Str × Tree))
    (hf : (session so co o fs (expandAll srcs)).failed = false) :
    sessionEnd so co o fs srcs = run o fs (send so srcs) := by
  unfold sessionEnd run
  rw [session_sync, session_clean so co o fs srcs hf]

/-- **Round trip of the interactive protocol.**  Under the hypotheses of `copy_roundtrip` the DIALOGUE
between the client (either form) and the receiver -- the client sends one record, reads one reply, goes
on only if it is positive -- draws no negative reply (every record and the data of every file are answered
by exactly one acknowledgement, `paced_tree`), the client has therefore sent exactly `send so srcs`, and
the dialogue ends in the copied tree, with acknowledgements only. -/
theorem session_roundtrip (o : Opts) (hc : CntOk o) (hnf : o.fsize = none) (so : SOpts) (co : COpts)
    (hp : so.preserve = o.preserve) (fs : FS)
    (D : Path) (srcs : List (Str × Tree)) (budget : Nat)
    (hres : resolve fs o.cwd o.dest = some D) (hdir : fs.isDir D = true)
    (hsrc : SrcsOk so srcs) (hb : o.dest.length + budget < PCP_PATH_MAX)
    (hgood : GoodKids budget (namedSrcs so srcs))
    (hfresh : ∀ n k, (n, k) ∈ namedSrcs so srcs → FreshBelow fs (D ++ [n])) :
    (session so co o fs (expandAll srcs)).failed = false ∧
    (session so co o fs (expandAll srcs)).sent = send so srcs ∧
    (sessionEnd so co o fs srcs).fs = recvKids o so.subsec fs D (namedSrcs so srcs) ∧
    ∀ r ∈ (sessionEnd so co o fs srcs).out, r = Reply.ack := by
  have hv : VerifyOk o fs := fun _ => ⟨D, hres, hdir⟩
  have h0 : enter o (St.init fs) o.dest =
      { St.init fs with out := [.ack],
                        stack := [{ targ := o.dest, targisdir := true, setimes := false, mt := default, atm := default }],
                        phase := .start } := by
    rw [enter_ok (p := D) hv hres hdir]
    rfl
  have hat : AtDir o (enter o (St.init fs) o.dest)
      { targ := o.dest, targisdir := true, setimes := false, mt := default, atm := default } [] D := by
    rw [h0]
    exact ⟨rfl, rfl, rfl, hres, hdir, hv, ⟨usecOk_zero _, usecOk_zero _⟩⟩
  have hfresh' : ∀ n k, (n, k) ∈ namedSrcs so srcs → FreshBelow (enter o (St.init fs) o.dest).fs (D ++ [n]) := by
    rw [h0]; exact hfresh
  have hpaced := paced_kids hc hnf so.subsec (namedSrcs so srcs) budget _ _ [] D hat (fun e => by cases e) hb hgood
    hfresh'
  rw [← hp, ← chunks_eq so srcs hsrc] at hpaced
  have hf := session_paced so co o fs (expandAll srcs) (by rw [h0]) hpaced
  have hrun := session_without_error_is_run so co o fs srcs hf
  obtain ⟨c1, c2⟩ := copy_roundtrip o hc hnf so hp fs D srcs budget hres hdir hsrc hb hgood hfresh
  refine ⟨hf, session_clean so co o fs srcs hf, ?_, ?_⟩
  · rw [hrun]; exact c1
  · rw [hrun]
    intro r hr
    exact c2 r (by simp only [sink]; exact List.mem_reverse.2 hr)

/-- **A directory the target refuses costs exactly that subtree** (repaired client, `skipRefused`; the
general form of `dirfail_scatter_witness`).  The first source is a directory whose name is taken by a regular
file on the target; the other sources satisfy the hypotheses of `copy_roundtrip`.  The dialogue: the `D`
record (after its `T` record with -p) draws ONE error record, the client skips the directory's list
elements and its leave-directory sentinel, the receiver is still at the level it was (`refused_entries`),
and every other source arrives exactly as in `copy_roundtrip` -- all further replies are acknowledgements,
the file in the way is untouched (it is not below any name of `post`). -/
theorem error_isolated_refused_dir (o : Opts) (hc : CntOk o) (hnf : o.fsize = none) (so : SOpts) (co : COpts)
    (hco : co.skipRefused = true) (hp : so.preserve = o.preserve) (fs : FS) (D : Path)
    (path : Str) (m t a : Nat) (kids : List (Str × Tree)) (post : List (Str × Tree)) (budget : Nat)
    (hres : resolve fs o.cwd o.dest = some D) (hdir : fs.isDir D = true)
    (hpath : path ≠ sentinelName ∨ so.sentinelFix = true)
    (hname : GoodName (sentName so path true))
    (hnlen : o.dest.length + (sentName so path true).length + 1 < PCP_PATH_MAX)
    (ht : t < 2 ^ 63) (ha : a < 2 ^ 63)
    {fm : Nat} {ft : Option Time} {fd : Str} (hblk : fs (D ++ [sentName so path true]) = some (.file fm ft fd))
    (hsrc : SrcsOk so post) (hb : o.dest.length + budget < PCP_PATH_MAX)
    (hgood : GoodKids budget (namedSrcs so post))
    (hfresh : ∀ n k, (n, k) ∈ namedSrcs so post → FreshBelow fs (D ++ [n])) :
    (sessionEnd so co o fs ((path, Tree.dir m t a kids) :: post)).fs = recvKids o so.subsec fs D (namedSrcs so post) ∧
    (∃ rs, (sessionEnd so co o fs ((path, Tree.dir m t a kids) :: post)).out =
        rs ++ (Reply.err .path :: ((if o.preserve then [Reply.ack] else []) ++ [Reply.ack])) ∧
      ∀ r ∈ rs, r = Reply.ack) ∧
    (sessionEnd so co o fs ((path, Tree.dir m t a kids) :: post)).phase = .done := by
  have hv : VerifyOk o fs := fun _ => ⟨D, hres, hdir⟩
  have h0 : enter o (St.init fs) o.dest =
      { St.init fs with out := [.ack],
                        stack := [{ targ := o.dest, targisdir := true, setimes := false, mt := default, atm := default }],
                        phase := .start } := by
    rw [enter_ok (p := D) hv hres hdir]
    rfl
  have hat : AtDir o (enter o (St.init fs) o.dest)
      { targ := o.dest, targisdir := true, setimes := false, mt := default, atm := default } [] D := by
    rw [h0]
    exact ⟨rfl, rfl, rfl, hres, hdir, hv, ⟨usecOk_zero _, usecOk_zero _⟩⟩
  have hfs0 : (enter o (St.init fs) o.dest).fs = fs := by rw [h0]; rfl
  have hout0 : (enter o (St.init fs) o.dest).out = [.ack] := by rw [h0]
  -- the greeting
  have hr := read_ack (s := { st := enter o (St.init fs) o.dest, sent := [], consumed := 0, failed := false,
                              skip := 0, dead := false }) (old := []) rfl hout0
  have hi : InSync ({ st := enter o (St.init fs) o.dest, sent := [], consumed := 0 + 1, failed := false,
                      skip := 0, dead := false } : Sess) := ⟨rfl, rfl, by simp [hout0]⟩
  -- the optional `T` record and the refused `D` record
  obtain ⟨f1, hat1, hpend1, hf1t, hfs1, hpT, hout1⟩ :=
    after_optional_T (o := o) hat (fun e => by cases e) so.subsec t a ht ha
  generalize hst1 : (if o.preserve then [timesRecord so.subsec t a] else []).flatten.foldl (step o)
      (enter o (St.init fs) o.dest) = st1 at hat1 hfs1 hout1
  have hD := feed_D_blocked (o := o) hat1.phase hat1.stack hat1.isdir hat1.res hat1.dir hname
    (by rw [hfs1, hfs0]; exact hblk) (by rw [hf1t]; exact hnlen) m
  have hcond : ¬ (path = sentinelName && !(so.sentinelFix && true)) = true := by
    rcases hpath with h | h
    · simp [h]
    · simp [h]
  have hTeq : (if so.preserve then
      [tRecord (t / USEC) (if so.subsec then t % USEC else 0) (a / USEC) (if so.subsec then a % USEC else 0)] else []) =
      (if o.preserve then [timesRecord so.subsec t a] else []) := by
    rw [hp]; rfl
  obtain ⟨e1, e2, e3⟩ := refused_entries (o := o) so co hco hi path true m t a kids hcond
    (by rw [hTeq]; exact hpT) .path (by
      rw [hTeq]
      show ((dRecord m (sentName so path true)).foldl (step o) _).out = _
      rw [hst1, hD])
  rw [hTeq] at e3
  have e3' : ((expandTree path true (Tree.dir m t a kids)).foldl (clientStep so co o)
      { st := enter o (St.init fs) o.dest, sent := [], consumed := 0 + 1, failed := false, skip := 0, dead := false }).st =
      { st1 with out := .err .path :: st1.out, phase := .start } := by
    rw [e3]
    show (dRecord m (sentName so path true)).foldl (step o) _ = _
    rw [hst1, hD]
  generalize hs2 : (expandTree path true (Tree.dir m t a kids)).foldl (clientStep so co o)
      { st := enter o (St.init fs) o.dest, sent := [], consumed := 0 + 1, failed := false, skip := 0, dead := false } = s2
    at e1 e2 e3'
  -- the receiver is where it was
  have hat2 : AtDir o s2.st f1 [] D := by
    rw [e3']
    exact ⟨rfl, hat1.stack, hat1.isdir, hat1.res, hat1.dir, hat1.ver, hat1.us⟩
  have hfs2 : s2.st.fs = fs := by rw [e3']; show st1.fs = fs; rw [hfs1, hfs0]
  have hfresh2 : ∀ n k, (n, k) ∈ namedSrcs so post → FreshBelow s2.st.fs (D ++ [n]) := by
    rw [hfs2]; exact hfresh
  -- the other sources
  have hpaced := paced_kids hc hnf so.subsec (namedSrcs so post) budget s2.st f1 [] D hat2 hpend1
    (by rw [hf1t]; exact hb) hgood hfresh2
  have hfed := feed_kids hc so.subsec (namedSrcs so post) budget s2.st f1 [] D hat2 hpend1
    (by rw [hf1t]; exact hb) hgood hfresh2
  rw [← hp, ← chunks_eq so post hsrc] at hpaced
  obtain ⟨i1, i2, i3⟩ := foldl_paced so co (expandAll post) e1 hpaced
  rw [chunks_eq so post hsrc, kidsChunks_flatten, hp] at i3
  rw [← i3] at hfed
  -- the session
  have hsess : (session so co o fs (expandAll ((path, Tree.dir m t a kids) :: post))).st =
      ((expandAll post).foldl (clientStep so co o) s2).st := by
    unfold session
    dsimp only
    rw [hr]
    simp only [Bool.not_true, Bool.false_eq_true, if_false, expandAll, List.foldl_append]
    rw [hs2]
  unfold sessionEnd
  rw [hsess]
  generalize ((expandAll post).foldl (clientStep so co o) s2).st = st3 at hfed
  obtain ⟨⟨f3, hat3, _, _⟩, hfs3, _, rs, hrs, hrsa⟩ := hfed
  have hfin : finish o st3 = { st3 with stack := [], phase := .done } := by
    unfold finish
    simp only [hat3.phase]
    unfold leave
    simp only [hat3.stack]
    rfl
  rw [hfin]
  refine ⟨?_, ⟨rs, ?_, ?_⟩, rfl⟩
  · show st3.fs = _
    rw [hfs3, hfs2]
  · show st3.out = _
    rw [hrs, e3']
    show rs ++ (Reply.err .path :: st1.out) = _
    rw [hout1, hout0]
  · rw [faultsKids_none o hnf] at hrsa
    exact hrsa.all_ack

/-- **`error_isolated` for the dialogue** (the last clause of C11, repaired client, any mixture of sources).
The user names the sources `items`, in any order: trees that arrive (`SItem.good`), regular files whose name is
taken by a directory on the target (`SItem.blockedFile`), directories whose name is taken by a regular file
(`SItem.refusedDir`).  The client READS every reply and reacts (Pcp/Session.lean): after the error reply to a `C`
record it sends neither data nor NUL, after the error reply to a `D` record it skips the directory's list elements
and its leave-directory sentinel.  Then client and receiver stay in step through the whole list, the receiver
consumes everything and ends at the top level, the file system is `recvKids … (sGoods so items)` -- EXACTLY as if
the sources that cannot be written had not been named, so every other file is identical to its source
(`received_file`, `received_dir` for every node, `no_other_entries`) and what was in the way is untouched -- and the
replies are acknowledgements and exactly ONE error record per source that cannot be written (`sBad items`). -/
theorem error_isolated_session (o : Opts) (hc : CntOk o) (hnf : o.fsize = none) (so : SOpts) (co : COpts)
    (hco : co.skipRefused = true) (hp : so.preserve = o.preserve) (fs : FS) (D : Path) (items : List SItem)
    (budget : Nat) (hres : resolve fs o.cwd o.dest = some D) (hdir : fs.isDir D = true)
    (hb : o.dest.length + budget < PCP_PATH_MAX) (hok : SItemsOk so budget fs D items) :
    (sessionEnd so co o fs (items.map SItem.src)).fs = recvKids o so.subsec fs D (sGoods so items) ∧
    (∃ rs, (sessionEnd so co o fs (items.map SItem.src)).out.reverse = .ack :: rs ∧ RsI rs 0 (sBad items)) ∧
    (sessionEnd so co o fs (items.map SItem.src)).phase = .done := by
  have hv : VerifyOk o fs := fun _ => ⟨D, hres, hdir⟩
  have h0 : enter o (St.init fs) o.dest =
      { St.init fs with out := [.ack],
                        stack := [{ targ := o.dest, targisdir := true, setimes := false, mt := default, atm := default }],
                        phase := .start } := by
    rw [enter_ok (p := D) hv hres hdir]
    rfl
  have hat : AtDir o (enter o (St.init fs) o.dest)
      { targ := o.dest, targisdir := true, setimes := false, mt := default, atm := default } [] D := by
    rw [h0]
    exact ⟨rfl, rfl, rfl, hres, hdir, hv, ⟨usecOk_zero _, usecOk_zero _⟩⟩
  have hfs0 : (enter o (St.init fs) o.dest).fs = fs := by rw [h0]; rfl
  have hout0 : (enter o (St.init fs) o.dest).out = [.ack] := by rw [h0]
  have hr := read_ack (s := { st := enter o (St.init fs) o.dest, sent := [], consumed := 0, failed := false,
                              skip := 0, dead := false }) (old := []) rfl hout0
  have hi : InSync ({ st := enter o (St.init fs) o.dest, sent := [], consumed := 0 + 1, failed := false,
                      skip := 0, dead := false } : Sess) := ⟨rfl, rfl, by simp [hout0]⟩
  obtain ⟨_, ⟨f2, hat2, _, _⟩, j3, rs, hout, hrs⟩ := session_items hc hnf so co hco hp budget [] D items
    { st := enter o (St.init fs) o.dest, sent := [], consumed := 0 + 1, failed := false, skip := 0, dead := false }
    _ hi hat (fun e => by cases e) hb (by show SItemsOk so budget (enter o (St.init fs) o.dest).fs D items; rw [hfs0]; exact hok)
  have hsess : (session so co o fs (expandAll (items.map SItem.src))).st =
      ((expandAll (items.map SItem.src)).foldl (clientStep so co o)
        { st := enter o (St.init fs) o.dest, sent := [], consumed := 0 + 1, failed := false, skip := 0,
          dead := false }).st := by
    unfold session
    dsimp only
    rw [hr]
    simp only [Bool.not_true, Bool.false_eq_true, if_false]
  unfold sessionEnd
  rw [hsess]
  generalize ((expandAll (items.map SItem.src)).foldl (clientStep so co o)
      { st := enter o (St.init fs) o.dest, sent := [], consumed := 0 + 1, failed := false, skip := 0,
        dead := false }).st = st3 at hat2 j3 hout
  have hfin : finish o st3 = { st3 with stack := [], phase := .done } := by
    unfold finish
    simp only [hat2.phase]
    unfold leave
    simp only [hat2.stack]
    rfl
  rw [hfin]
  refine ⟨?_, ⟨rs.reverse, ?_, ?_⟩, rfl⟩
  · show st3.fs = _
    rw [j3, hfs0]
  · show st3.out.reverse = _
    rw [hout, hout0]
    simp
  · exact ⟨fun r hr => hrs.1 r (List.mem_reverse.1 hr), by rw [List.count_reverse]; exact hrs.2.1,
      by rw [List.count_reverse]; exact hrs.2.2⟩

/-- `/w/d` holds a regular FILE `t`: the directory `t` cannot be created -/
def sfs : FS := fun p =>
  if p = [] then some (.dir 0o755 none)
  else if p = [[119]] then some (.dir 0o755 none)
  else if p = [[119], [100]] then some (.dir 0o755 none)
  else if p = [[119], [100], [116]] then some (.file 0o644 none [90])
  else none

def sso : SOpts := { preserve := false, reverse := false, host := [], subsec := true, sentinelFix := true }

/-- `pdcp -r t /w/d` with `t/` holding the one-byte file `e` -/
def ssrcs : List (Str × Tree) := [([116], .dir 0o755 0 0 [([101], .file 0o644 0 0 [88])])]

/-- Finding F11-DIRFAIL-SCATTER mirrored in the session model, and its repair.  The target refuses the
directory `t` (a file is in the way).  The client as it is goes on with its list: the entry `e` of `t`
lands in the PARENT `/w/d`.  The repaired client (`skipRefused`) sends the `D` record and nothing else,
and `/w/d/e` does not appear. -/
theorem dirfail_scatter_witness :
    ((sessionEnd sso ⟨false⟩ ro sfs ssrcs).fs [[119], [100], [101]]).isSome = true ∧
    ((sessionEnd sso ⟨true⟩ ro sfs ssrcs).fs [[119], [100], [101]]).isSome = false ∧
    (session sso ⟨true⟩ ro sfs (expandAll ssrcs)).sent = dRecord 0o755 [116] ∧
    (sessionEnd sso ⟨true⟩ ro sfs ssrcs).out.reverse = [.ack, .err .path] := by
  decide +kernel

/-- the hypotheses of `error_isolated_session` are satisfiable, with one source of each kind: in `/w/d` the name
`f` is taken by a directory and `g` by a regular file; the user copies the file `f`, the tree `t` and the
directory `g` -/
def mfs : FS := fun p =>
  if p = [] then some (.dir 0o755 none)
  else if p = [[119]] then some (.dir 0o755 none)
  else if p = [[119], [100]] then some (.dir 0o755 none)
  else if p = [[119], [100], [102]] then some (.dir 0o755 none)
  else if p = [[119], [100], [103]] then some (.file 0o644 none [90])
  else none

def mitems : List SItem :=
  [.blockedFile [102] 0o644 0 0 [65, 66], .good [116] (.dir 0o755 0 0 [([101], .file 0o644 0 0 [88])]),
   .refusedDir [103] 0o755 0 0 [([107], .file 0o600 0 0 [89])]]

example :
    (sessionEnd sso ⟨true⟩ ro mfs (mitems.map SItem.src)).fs [[119], [100], [116], [101]] = some (.file 0o644 none [88]) ∧
    (sessionEnd sso ⟨true⟩ ro mfs (mitems.map SItem.src)).fs [[119], [100], [103]] = some (.file 0o644 none [90]) ∧
    (sessionEnd sso ⟨true⟩ ro mfs (mitems.map SItem.src)).fs [[119], [100], [107]] = none ∧
    (sessionEnd sso ⟨true⟩ ro mfs (mitems.map SItem.src)).out.reverse =
      [.ack, .err .path, .ack, .ack, .ack, .ack, .err .path] := by
  decide +kernel

/-- ... and they are in the domain of `error_isolated_session`, whose conclusion is the run above -/
example :
    (sessionEnd sso ⟨true⟩ ro mfs (mitems.map SItem.src)).fs = recvKids ro true mfs [[119], [100]] (sGoods sso mitems) ∧
    (∃ rs, (sessionEnd sso ⟨true⟩ ro mfs (mitems.map SItem.src)).out.reverse = .ack :: rs ∧ RsI rs 0 2) := by
  have e102 : sentName sso [102] true = [102] := by decide +kernel
  have e116 : sentName sso [116] true = [116] := by decide +kernel
  have e103 : sentName sso [103] true = [103] := by decide +kernel
  have h := error_isolated_session ro ⟨by decide, by decide⟩ rfl sso ⟨true⟩ rfl rfl mfs [[119], [100]] mitems 100
    (by decide +kernel) (by decide +kernel) (by decide) (by
      simp only [mitems, SItemsOk, e102, e116, e103, SItem.path, KidNamesOk, KidListOk, GoodTree, GoodKids]
      refine ⟨Or.inl (by decide), goodName_single _ (by decide) (by decide) (by decide) (by decide), by decide, by decide,
        by decide, by decide, ⟨0o755, none, by decide +kernel⟩,
        Or.inl (by decide), ⟨by decide, trivial, trivial⟩,
        ⟨goodName_single _ (by decide) (by decide) (by decide) (by decide), by decide, by decide, by decide,
          ⟨goodName_single _ (by decide) (by decide) (by decide) (by decide), by decide, by decide, by decide, by decide⟩,
          by simp, trivial⟩, ?_, ?_,
        Or.inl (by decide), goodName_single _ (by decide) (by decide) (by decide) (by decide), by decide, by decide,
        by decide, ⟨0o644, none, [90], by decide +kernel⟩, trivial⟩
      · intro x hx
        have hl := hx.length_le
        simp only [List.length_append, List.length_cons, List.length_nil] at hl
        unfold mfs
        have h1 : x ≠ [] := by intro e; subst e; simp at hl
        have h2 : x ≠ [[119]] := by intro e; subst e; simp at hl
        have h3 : x ≠ [[119], [100]] := by intro e; subst e; simp at hl
        have h4 : x ≠ [[119], [100], [102]] := by intro e; subst e; simp at hx
        have h5 : x ≠ [[119], [100], [103]] := by intro e; subst e; simp at hx
        simp [h1, h2, h3, h4, h5]
      · intro it hit
        simp only [List.mem_cons, List.not_mem_nil, or_false] at hit
        subst hit
        simp only [SItem.path, e103]
        decide)
  exact ⟨h.1, h.2.1⟩

/-- `/w/d/f` holds three bytes; `C0600 1 f\nX\0` without -p leaves the one byte `X` and the old mode 0644 -/
example :
    (sink ro (fun p => if p = [[119], [100], [102]] then some (.file 0o644 none [90, 90, 90]) else xfs p)
      [67, 48, 54, 48, 48, 32, 49, 32, 102, 10, 88, 0]).1 [[119], [100], [102]] = some (.file 0o644 none [88]) := by
  decide +kernel

/-- `/w/d/t` and `/w/d/t/e` are already there -- an older version of `e`, two bytes longer, other mode --: copying
`t` again with -p replaces the contents, takes over mode and time, and every record is acknowledged
(`copy_onto_existing` on a concrete instance) -/
def efs : FS := fun p =>
  if p = [[119], [100], [116]] then some (.dir 0o700 none)
  else if p = [[119], [100], [116], [101]] then some (.file 0o600 none [90, 90, 90])
  else xfs p

example :
    (sink xo efs (send xso xsrcs)).1 [[119], [100], [116], [101]] = some (.file 0o640 (some ⟨3000, 250⟩) [88]) ∧
    (sink xo efs (send xso xsrcs)).1 [[119], [100], [116]] = some (.dir 0o750 (some ⟨1000, 7⟩)) ∧
    (∀ r ∈ (sink xo efs (send xso xsrcs)).2.1, r = Reply.ack) := by
  decide +kernel

/-- `copy_twice` on the instance of `copy_roundtrip`'s example: the second copy of `t` is acknowledged throughout and
`t/e` holds the source's byte, mode and time again -/
example :
    (sink xo (sink xo xfs (send xso xsrcs)).1 (send xso xsrcs)).1 [[119], [100], [116], [101]] =
      some (.file 0o640 (some ⟨3000, 250⟩) [88]) ∧
    (∀ r ∈ (sink xo (sink xo xfs (send xso xsrcs)).1 (send xso xsrcs)).2.1, r = Reply.ack) := by
  decide +kernel

/-! ## entries of the wrong kind at any depth of a destination that already exists -/

/-- **`error_isolated` for a copy onto an existing destination, at any depth** (the last clause of C11: "a file that
cannot be ... written is reported for that host without corrupting any other file").  The user names the sources
`items`; for each node of each source tree `DTree` says what the target holds at its place: nothing (`good`: the
subtree arrives), a directory where the source has a regular file (`blockedFile`), a regular file where the source
has a directory (`refusedDir`), or a directory where the source has one (`into`: entered, and the same question is
asked for each of its entries -- to any depth).  For the interactive client in its repaired form: client and
receiver stay in step through the whole list, the receiver consumes everything and ends at the top level; the file
system is `dTopFs` -- every subtree that can be written is there exactly as `copy_roundtrip` describes, an existing
directory that is entered keeps what the source does not name, and an entry that cannot be written leaves NO
trace: what is in its way, and everything below it, is untouched (`dFs` of a blocked entry is the identity;
`dFs_other`: nothing outside a tree's own name changes but the parent directory's time) --; and the replies are
acknowledgements and EXACTLY ONE error record per entry that cannot be written (`dTopBad`; entries below a refused
directory are not sent and not counted).  Generalises `error_isolated_session` (disagreement at the top level). -/
theorem error_isolated_deep (o : Opts) (hc : CntOk o) (hnf : o.fsize = none) (so : SOpts) (co : COpts)
    (hco : co.skipRefused = true) (hp : so.preserve = o.preserve) (fs : FS) (D : Path) (items : List (Str × DTree))
    (budget : Nat) (hres : resolve fs o.cwd o.dest = some D) (hdir : fs.isDir D = true)
    (hb : o.dest.length + budget < PCP_PATH_MAX) (hok : DTopOk so budget fs D items) :
    (sessionEnd so co o fs (dTopSrcs items)).fs = dTopFs o so fs D items ∧
    (∃ rs, (sessionEnd so co o fs (dTopSrcs items)).out.reverse = .ack :: rs ∧ RsI rs 0 (dTopBad items)) ∧
    (sessionEnd so co o fs (dTopSrcs items)).phase = .done := by
  have hv : VerifyOk o fs := fun _ => ⟨D, hres, hdir⟩
  have h0 : enter o (St.init fs) o.dest =
      { St.init fs with out := [.ack],
                        stack := [{ targ := o.dest, targisdir := true, setimes := false, mt := default, atm := default }],
                        phase := .start } := by
    rw [enter_ok (p := D) hv hres hdir]
    rfl
  have hat : AtDir o (enter o (St.init fs) o.dest)
      { targ := o.dest, targisdir := true, setimes := false, mt := default, atm := default } [] D := by
    rw [h0]
    exact ⟨rfl, rfl, rfl, hres, hdir, hv, ⟨usecOk_zero _, usecOk_zero _⟩⟩
  have hfs0 : (enter o (St.init fs) o.dest).fs = fs := by rw [h0]; rfl
  have hout0 : (enter o (St.init fs) o.dest).out = [.ack] := by rw [h0]
  have hr := read_ack (s := { st := enter o (St.init fs) o.dest, sent := [], consumed := 0, failed := false,
                              skip := 0, dead := false }) (old := []) rfl hout0
  have hi : InSync ({ st := enter o (St.init fs) o.dest, sent := [], consumed := 0 + 1, failed := false,
                      skip := 0, dead := false } : Sess) := ⟨rfl, rfl, by simp [hout0]⟩
  obtain ⟨_, ⟨f2, hat2, _, _⟩, j3, _, rs, hout, hrs⟩ := session_dsrcs hc hnf so co hco hp budget [] D items
    { st := enter o (St.init fs) o.dest, sent := [], consumed := 0 + 1, failed := false, skip := 0, dead := false }
    _ hi hat (fun e => by cases e) hb (by show DTopOk so budget (enter o (St.init fs) o.dest).fs D items; rw [hfs0]; exact hok)
  have hsess : (session so co o fs (expandAll (dTopSrcs items))).st =
      ((expandAll (dTopSrcs items)).foldl (clientStep so co o)
        { st := enter o (St.init fs) o.dest, sent := [], consumed := 0 + 1, failed := false, skip := 0,
          dead := false }).st := by
    unfold session
    dsimp only
    rw [hr]
    simp only [Bool.not_true, Bool.false_eq_true, if_false]
  unfold sessionEnd
  rw [hsess]
  generalize ((expandAll (dTopSrcs items)).foldl (clientStep so co o)
      { st := enter o (St.init fs) o.dest, sent := [], consumed := 0 + 1, failed := false, skip := 0,
        dead := false }).st = st3 at hat2 j3 hout
  have hfin : finish o st3 = { st3 with stack := [], phase := .done } := by
    unfold finish
    simp only [hat2.phase]
    unfold leave
    simp only [hat2.stack]
    rfl
  rw [hfin]
  refine ⟨?_, ⟨rs.reverse, ?_, ?_⟩, rfl⟩
  · show st3.fs = _
    rw [j3, hfs0]
  · show st3.out.reverse = _
    rw [hout, hout0]
    simp
  · exact ⟨fun r hr => hrs.1 r (List.mem_reverse.1 hr), by rw [List.count_reverse]; exact hrs.2.1,
      by rw [List.count_reverse]; exact hrs.2.2⟩

/-- **A copy onto ANYTHING** -- the last clause of C11 with no hypothesis about what the target holds.  `fs` is any
file system (without symbolic links: Props/C12, Pcp/Links.lean) in which what exists lies in directories that exist
(`FsClosed`); the sources are in the domain of `copy_roundtrip`; the destination resolves to a directory.  Then the
dialogue of the repaired client with the receiver runs to its end in step, the file system is `dTopFs` of the sources
CLASSIFIED against `fs` (`classifyTop`, total: every node of every source tree either arrives, replaces a regular
file, is merged into a directory, or cannot be written because the kinds disagree), and the replies are
acknowledgements plus exactly one error record per disagreement.  `dOk_classify`: the classification is always in
the domain of `error_isolated_deep`. -/
theorem copy_onto_anything (o : Opts) (hc : CntOk o) (hnf : o.fsize = none) (so : SOpts) (co : COpts)
    (hco : co.skipRefused = true) (hp : so.preserve = o.preserve) (fs : FS) (hcl : FsClosed fs) (D : Path)
    (srcs : List (Str × Tree)) (budget : Nat) (hres : resolve fs o.cwd o.dest = some D) (hdir : fs.isDir D = true)
    (hb : o.dest.length + budget < PCP_PATH_MAX) (hsrc : SrcsOk so srcs)
    (hgood : GoodKids budget (namedSrcs so srcs)) :
    (sessionEnd so co o fs srcs).fs = dTopFs o so fs D (classifyTop so fs D srcs) ∧
    (∃ rs, (sessionEnd so co o fs srcs).out.reverse = .ack :: rs ∧
      RsI rs 0 (dTopBad (classifyTop so fs D srcs))) ∧
    (sessionEnd so co o fs srcs).phase = .done := by
  have h := error_isolated_deep o hc hnf so co hco hp fs D (classifyTop so fs D srcs) budget hres hdir hb
    (dTopOk_classify so hcl budget D srcs hsrc hgood)
  rw [classifyTop_srcs] at h
  exact h

/-- `/w/d/t` is already there and holds a DIRECTORY `x` (with a file `x/k` in it) and a regular FILE `y`; the user
copies `t`, which holds a new file `e`, a regular file `x` and a directory `y` with a file `y/z` -/
def dfs : FS := fun p =>
  if p = [] then some (.dir 0o755 none)
  else if p = [[119]] then some (.dir 0o755 none)
  else if p = [[119], [100]] then some (.dir 0o755 none)
  else if p = [[119], [100], [116]] then some (.dir 0o755 none)
  else if p = [[119], [100], [116], [120]] then some (.dir 0o700 none)
  else if p = [[119], [100], [116], [120], [107]] then some (.file 0o600 none [75])
  else if p = [[119], [100], [116], [121]] then some (.file 0o644 none [90])
  else none

def ditems : List (Str × DTree) :=
  [([116], .into 0o755 0 0 [([101], .good (.file 0o644 0 0 [88])), ([120], .blockedFile 0o644 0 0 [65, 66]),
                           ([121], .refusedDir 0o755 0 0 [([122], .file 0o600 0 0 [89])])])]

/-- the run: `t/e` arrives, the directory `t/x` and the file in it and the file `t/y` are what they were, nothing of
`t/y/z` appears, and exactly two of the replies are error records -/
example :
    (sessionEnd sso ⟨true⟩ ro dfs (dTopSrcs ditems)).fs [[119], [100], [116], [101]] = some (.file 0o644 none [88]) ∧
    (sessionEnd sso ⟨true⟩ ro dfs (dTopSrcs ditems)).fs [[119], [100], [116], [120]] = some (.dir 0o700 none) ∧
    (sessionEnd sso ⟨true⟩ ro dfs (dTopSrcs ditems)).fs [[119], [100], [116], [120], [107]] = some (.file 0o600 none [75]) ∧
    (sessionEnd sso ⟨true⟩ ro dfs (dTopSrcs ditems)).fs [[119], [100], [116], [121]] = some (.file 0o644 none [90]) ∧
    (sessionEnd sso ⟨true⟩ ro dfs (dTopSrcs ditems)).fs [[119], [100], [116], [121], [122]] = none ∧
    (sessionEnd sso ⟨true⟩ ro dfs (dTopSrcs ditems)).out.reverse =
      [.ack, .ack, .ack, .ack, .err .path, .err .path, .ack] := by
  decide +kernel

/-- ... and it is in the domain of `error_isolated_deep`, whose conclusion is the run above -/
example :
    (sessionEnd sso ⟨true⟩ ro dfs (dTopSrcs ditems)).fs = dTopFs ro sso dfs [[119], [100]] ditems ∧
    (∃ rs, (sessionEnd sso ⟨true⟩ ro dfs (dTopSrcs ditems)).out.reverse = .ack :: rs ∧ RsI rs 0 2) := by
  have e116 : sentName sso [116] true = [116] := by decide +kernel
  have h := error_isolated_deep ro ⟨by decide, by decide⟩ rfl sso ⟨true⟩ rfl rfl dfs [[119], [100]] ditems 100
    (by decide +kernel) (by decide +kernel) (by decide) (by
      simp only [ditems, DTopOk, DOk, DKidsOk, e116, KidNamesOk, GoodTree]
      refine ⟨Or.inl (by decide), ⟨goodName_single _ (by decide) (by decide) (by decide) (by decide), by decide, by decide,
        by decide, ⟨0o755, none, by decide +kernel⟩,
        by decide, ⟨⟨goodName_single _ (by decide) (by decide) (by decide) (by decide), by decide, by decide, by decide,
          by decide⟩, trivial, ?_⟩, by simp,
        by decide, ⟨goodName_single _ (by decide) (by decide) (by decide) (by decide), by decide, by decide, by decide,
          by decide, ⟨0o700, none, by decide +kernel⟩⟩, by simp,
        by decide, ⟨goodName_single _ (by decide) (by decide) (by decide) (by decide), by decide, by decide, by decide,
          ⟨0o644, none, [90], by decide +kernel⟩⟩, by simp, trivial⟩, by simp, trivial⟩
      intro x hx
      have hl := hx.length_le
      simp only [List.length_append, List.length_cons, List.length_nil] at hl
      unfold dfs
      have h1 : x ≠ [] := by intro e; subst e; simp at hl
      have h2 : x ≠ [[119]] := by intro e; subst e; simp at hl
      have h3 : x ≠ [[119], [100]] := by intro e; subst e; simp at hl
      have h4 : x ≠ [[119], [100], [116]] := by intro e; subst e; simp at hl
      have h5 : x ≠ [[119], [100], [116], [120]] := by intro e; subst e; simp at hx
      have h6 : x ≠ [[119], [100], [116], [120], [107]] := by intro e; subst e; simp at hx
      have h7 : x ≠ [[119], [100], [116], [121]] := by intro e; subst e; simp at hx
      simp [h1, h2, h3, h4, h5, h6, h7])
  exact ⟨h.1, h.2.1⟩

/-! ## forward copy to N targets: the fan-out LTS of C03 composed with one sender session per target -/

open PdshVerif.Dsh in
/-- **Every target of a forward copy gets exactly one complete sender session.**  In EVERY execution of the
product of `dsh()`'s fan-out LTS (Props/C03) with one receiver per target on that target's own file system
(Pcp/FanOut.lean) -- any fanout, either wait construct, any schedule of dispatcher and workers, the byte transfers of
different targets interleaved in any way -- once `dsh()` has returned, for every target `i` of the list:
the remote command was started exactly once and torn down exactly once (C03 `exit_after_all`, imported), the
client thread wrote each byte of its stream exactly once, and the receiver on that target is in the state
`run o fs stream`: the single-receiver run every other theorem of this file speaks about. -/
theorem forward_every_target {v : Fan.Variant} {f : Nat} {ts : List FanOut.Target} {ls : List FanOut.PLabel}
    {s : FanOut.PSt} (he : FanOut.PExec ts (FanOut.pinit v f ts) ls s) (hf : Fan.Final s.fan)
    (i : Nat) (t : FanOut.Target) (ht : ts[i]? = some t) :
    s.rcv[i]? = some (run t.o t.fs t.stream, t.stream.length) ∧
    (FanOut.proj ls).count (.w i .connectBegin) = 1 ∧ (FanOut.proj ls).count (.w i .destroyEnd) = 1 ∧
    ls.count (.byte i) = t.stream.length := by
  have hfe := FanOut.proj_exec he
  have hi : i < ts.length := (List.getElem?_eq_some_iff.1 ht).1
  have hinv := FanOut.pinv_exec he
  have hfi : Fan.Inv s.fan := Fan.inv_exec (Fan.inv_init v f ts.length) hfe
  have hlen : s.fan.ws.length = ts.length := by have := (Fan.exec_params hfe).2.2; simpa [FanOut.pinit, Fan.init] using this
  have hdone : Fan.pc s.fan i = .done := hfi.fin (by rw [hf]; rfl) i (by omega)
  have hw : s.fan.ws[i]? = some .done := Fan.getElem?_of_getD hdone (by decide)
  have hir : i < s.rcv.length := by rw [hinv.len]; exact hi
  obtain ⟨r, hr⟩ : ∃ r, s.rcv[i]? = some r := ⟨_, List.getElem?_eq_getElem hir⟩
  have hg := hinv.good i t .done r ht hw hr
  simp only [FanOut.Good] at hg
  obtain ⟨c1, c2, _⟩ := C03.exit_after_all hfe hf i hi
  refine ⟨by rw [hr, hg], c1, c2, ?_⟩
  have := FanOut.fed_count he i r hr
  rw [hg] at this
  exact this.symm

open PdshVerif.Dsh in
/-- **A target's copy does not wait for, and is not disturbed by, the other targets.**  In ANY reachable state of the
product -- `dsh()` need not have returned, other targets may be anywhere in their sessions, hang, or never be
started -- a target whose worker has begun to tear its connection down holds the result of the complete
single-receiver run, and so does it in every later state (the same statement there). -/
theorem forward_target_alone {v : Fan.Variant} {f : Nat} {ts : List FanOut.Target} {ls : List FanOut.PLabel}
    {s : FanOut.PSt} (he : FanOut.PExec ts (FanOut.pinit v f ts) ls s)
    (i : Nat) (t : FanOut.Target) (ht : ts[i]? = some t) (w : Fan.W) (hw : s.fan.ws[i]? = some w)
    (hover : FanOut.sessionOver w = true) :
    s.rcv[i]? = some (run t.o t.fs t.stream, t.stream.length) := by
  have hinv := FanOut.pinv_exec he
  have hi : i < ts.length := (List.getElem?_eq_some_iff.1 ht).1
  have hir : i < s.rcv.length := by rw [hinv.len]; exact hi
  obtain ⟨r, hr⟩ : ∃ r, s.rcv[i]? = some r := ⟨_, List.getElem?_eq_getElem hir⟩
  rw [hr, FanOut.good_over hover (hinv.good i t w r ht hw hr)]

open PdshVerif.Dsh in
/-- **Every reachable target holds a copy** (`copy_roundtrip` and `copy_meets_spec` on every target of the final
list).  The targets may differ in everything that belongs to the host -- file system, working directory, umask --;
each satisfies the hypotheses of `copy_roundtrip` for ITS file system, and its client thread sends `send so srcs`
(the sessions share only the pre-expanded list, which no thread writes: Pcp/ClientStatics.lean).  Then, whatever the
schedule, after `dsh()` has returned EVERY target `i` holds `recvKids ... (namedSrcs so srcs)` below its destination,
has acknowledged every record, and -- for the pair as repaired -- passes `Spec.checkKids` without a discrepancy. -/
theorem forward_copy_all_targets {v : Fan.Variant} {f : Nat} {ts : List FanOut.Target} {ls : List FanOut.PLabel}
    {s : FanOut.PSt} (he : FanOut.PExec ts (FanOut.pinit v f ts) ls s) (hf : Fan.Final s.fan)
    (so : SOpts) (srcs : List (Str × Tree)) (budget : Nat) (hsrc : SrcsOk so srcs)
    (hgood : GoodKids budget (namedSrcs so srcs))
    (hall : ∀ t ∈ ts, t.stream = send so srcs ∧ CntOk t.o ∧ so.preserve = t.o.preserve ∧ t.o.fsize = none ∧
      t.o.dest.length + budget < PCP_PATH_MAX ∧
      ∃ D, resolve t.fs t.o.cwd t.o.dest = some D ∧ t.fs.isDir D = true ∧
        ∀ n k, (n, k) ∈ namedSrcs so srcs → FreshBelow t.fs (D ++ [n]))
    (i : Nat) (t : FanOut.Target) (ht : ts[i]? = some t) :
    ∃ st D, s.rcv[i]? = some (st, (send so srcs).length) ∧ resolve t.fs t.o.cwd t.o.dest = some D ∧
      st.fs = recvKids t.o so.subsec t.fs D (namedSrcs so srcs) ∧ (∀ r ∈ st.out, r = Reply.ack) ∧
      (Faithful t.o so.subsec → ∀ listing : List Path, (∀ x, x ∈ listing ↔ st.fs x ≠ none) →
        Spec.checkKids t.o.preserve st.fs listing D (namedSrcs so srcs) = []) := by
  obtain ⟨hstream, hc, hp, hnf, hb, D, hres, hdir, hfresh⟩ := hall t (List.mem_of_getElem? ht)
  obtain ⟨h1, _⟩ := forward_every_target he hf i t ht
  obtain ⟨r1, r2⟩ := copy_roundtrip t.o hc hnf so hp t.fs D srcs budget hres hdir hsrc hb hgood hfresh
  refine ⟨run t.o t.fs t.stream, D, by rw [h1, hstream], hres, ?_, ?_, ?_⟩
  · rw [hstream]; exact r1
  · intro r hr
    rw [hstream] at hr
    exact r2 r (by simp only [sink, List.mem_reverse]; exact hr)
  · intro hfa listing hl
    rw [hstream] at hl ⊢
    exact copy_meets_spec t.o hc so hp hfa t.fs D srcs budget hres hdir hsrc hb hgood hfresh listing hl

/-- non-vacuity: two targets with the file system, options and sources of `copy_roundtrip`'s example, fanout 2, the
two sessions interleaved BYTE BY BYTE: the schedule is an execution of the product, `dsh()` returns, and both
targets hold `t/e` with the source's byte, mode and time -/
def fwdTargets : List FanOut.Target := [⟨xo, xfs, send xso xsrcs⟩, ⟨xo, xfs, send xso xsrcs⟩]

open PdshVerif.Dsh.Fan FanOut.PLabel in
def fwdSched : List FanOut.PLabel :=
  [fan (.d .lock), fan (.d (.create 0)), fan (.d .unlock), fan (.d .lock), fan (.d (.create 1)), fan (.d .unlock),
   fan (.w 0 .connectBegin), fan (.w 1 .connectBegin), fan (.w 0 .connectEnd), fan (.w 1 .connectEnd)] ++
  (List.replicate (send xso xsrcs).length [byte 0, byte 1]).flatten ++
  [fan (.w 1 .destroyBegin), fan (.w 0 .destroyBegin), fan (.w 0 .destroyEnd), fan (.w 1 .destroyEnd),
   fan (.w 0 .lock), fan (.w 0 .signal), fan (.w 0 .unlock), fan (.w 1 .lock), fan (.w 1 .signal), fan (.w 1 .unlock),
   fan (.d .lock), fan (.d .unlock), fan (.d .ret)]

example :
    ∃ s, FanOut.PExec fwdTargets (FanOut.pinit .whileWait 2 fwdTargets) fwdSched s ∧ Dsh.Fan.Final s.fan ∧
      ∀ i, i < 2 → ∃ st k, s.rcv[i]? = some (st, k) ∧
        st.fs [[119], [100], [116], [101]] = some (.file 0o640 (some ⟨3000, 250⟩) [88]) := by
  have hsome : (FanOut.prun fwdTargets (FanOut.pinit .whileWait 2 fwdTargets) fwdSched).isSome = true := by
    decide +kernel
  obtain ⟨s, hs⟩ := Option.isSome_iff_exists.1 hsome
  have hfin : ((FanOut.prun fwdTargets (FanOut.pinit .whileWait 2 fwdTargets) fwdSched).map (·.fan.dpc)) =
      some .returned := by decide +kernel
  have he := FanOut.pexec_of_prun fwdSched hs
  have hf : Dsh.Fan.Final s.fan := by
    rw [hs] at hfin
    simpa [Dsh.Fan.Final] using hfin
  refine ⟨s, he, hf, ?_⟩
  intro i hi
  have hti : fwdTargets[i]? = some ⟨xo, xfs, send xso xsrcs⟩ := by
    match i, hi with
    | 0, _ => rfl
    | 1, _ => rfl
  obtain ⟨h1, _⟩ := forward_every_target he hf i _ hti
  refine ⟨_, _, h1, ?_⟩
  show (sink xo xfs (send xso xsrcs)).1 [[119], [100], [116], [101]] = _
  decide +kernel

end PdshVerif.Props.C11
