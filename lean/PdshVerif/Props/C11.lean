import PdshVerif.Pcp.Spec

/-! # C11  pdcp/rpdcp reproduce the source tree exactly on every target -/
namespace PdshVerif.Props.C11
open PdshVerif.Pcp

/-- placeholder while the correspondence is brought up -/
theorem xbasename_plain (n : Str) (h : cSlash ∉ n) : splitSlash n = [n] := by
  induction n with
  | nil => rfl
  | cons c cs ih =>
    have hc : c ≠ cSlash := fun e => h (e ▸ List.mem_cons_self)
    have hcs : cSlash ∉ cs := fun m => h (List.mem_cons_of_mem _ m)
    simp [splitSlash, hc, ih hcs]

end PdshVerif.Props.C11
