import PdshVerif.Dsh.FanLive
import PdshVerif.Dsh.FanExec
import PdshVerif.Dsh.FanGLive
import PdshVerif.Dsh.FanGExec
import PdshVerif.Dsh.FanRelay
import PdshVerif.Dsh.FanPoll
import PdshVerif.Dsh.FanX
import PdshVerif.Props.C05

/-!
# C03 — every target gets exactly one command; pdsh ends when all are done

Models.  `Dsh/Fan.lean`: the labelled transition system of dsh()'s dispatch loop, worker epilogue and drain loop
(dispatcher D, workers W i, POSIX mutex/condvar semantics including spurious wake-ups) with the worker epilogue as
in the pinned text (`lock; threadcount--; signal; unlock`).  `Dsh/FanG.lean`: the same LTS with the SIGNALLING
DISCIPLINE LEFT OPEN — each worker chooses whether its wake-up call comes inside or after the critical section, and
`pthread_cond_signal` | `pthread_cond_broadcast` is no distinction (one waiter).  `Fan` is the sub-LTS of `FanG` in
which nobody unlocks first (`Dsh/FanGEmbed.lean: exec_of_fan`).  `Dsh/FanRelay.lean`: `FanG` composed with the relay
of property C05.  `Exec (init v f n) ls s`: the label sequence `ls` (the history, oldest first) is an execution from
the initial state with wait construct `v`, fanout `f`, `n` targets, ending in `s`.  All theorems hold for BOTH wait
constructs (`if` as pinned, `while` as repaired), every fanout ≥ 1 (only `progress` needs f ≥ 1), every `n`, every
label sequence: every schedule and any number of spurious wake-ups.

clause of the property                         | pinned discipline (section Pinned) | every discipline (`G.`) | composed
-----------------------------------------------|------------------------------------|-------------------------|---------
command started exactly once per target        | `once_only`, `each_op_once`        | `G.once_only`, `G.each_op_once` | `EndToEnd.returns_after_output_delivered` (1)
no command for anything else                   | `none_else`                        | `G.none_else`           |
returns only after every command has finished  | `exit_after_all`, `return_after_teardown` | `G.exit_after_all`, `G.return_after_teardown` | (2)
... and its output has been delivered          | (monitor)                          | (monitor)               | `EndToEnd.returns_after_output_delivered` (3), importing `C05.relay_lossless_any_interleaving`
nothing happens after the return               | `final_is_end`                     | `G.final_only_late` (only late wake-up calls), `G.final_is_end` |
no lost completion notification / no deadlock  | `progress`, `progress_enabled`, `stuck_is_final` | `G.progress`, `G.progress_enabled`, `G.stuck_is_final` |
pdsh ends                                      | `rank_decreases`, `steps_bounded`  | `G.rank_decreases`, `G.steps_bounded` (≤ 18n + 13 + 3k steps with k spurious wake-ups, late calls included) |
... or stops LOUDLY when a worker cannot be created | (every discipline, `Dsh/FanX.lean`: `pthread_create` failure and the RLIMIT_NOFILE prologue as transitions) `X.all_once_or_loud_exit`, `X.once_only`, `X.exit_is_end`, `X.progress` |
the worker's read loop is left only at EOF of both streams, everything read and written | (no longer a guard of the composition) `EndToEnd.returns_after_output_delivered_poll` over `Dsh/FanPoll.lean` = protocol × `pollStep` of C05; the guard of `destroyBegin` is the code's loop condition; imports `Relay/Poll.pollRun_inv` (C05 `poll_loop_left_only_at_eof_of_both`, `worker_done_has_delivered_everything`) |

The trace acceptor (`Driver/FanDrv.lean`, `pdshmodel fan`) runs `FanG.step`; it maps an observed call to a label
by what the call does in the state it is made in (an unlock before the wake-up call is `unlockFirst`, a signal or
broadcast after the unlock is `signalAfter`), so the harness recognises the discipline of the code under test by
behaviour and the evidence records which one it saw.

The connect outcome is not part of these LTS (a failed connect goes through the same operations); where an
outcome matters (the Timed LTS of C07, the monitors) it is success / failure, never a descriptor: the
correspondence maps `rcmd_connect() ≥ 0` to success, and the descriptor VALUE the scripted transport returns is
generated over {0, 1, 2, ≥ 3} (harness key `lowfds`, pinned cases in every run); `checks/c03.py` also runs the real
`pdsh -R exec` with descriptor 0 closed.

Not proved here: that dsh.c refines the LTS (trace correspondence of `checks/c03.py`: every run's projected trace is
replayed through `FanG.step` -- outside relay mode through `FanX.step`, which wraps it: the pinned `createfail` runs
(worker i's first `pthread_create` returns EAGAIN, i = 0..2, fanout 1..3, with and without -k) and the `nofile` /
`nofile_soft` runs (`_increase_nofile_limit` as a function: fanout in use and soft limit reported by the harness and
compared with `FanX.increaseNofile`) included --, incl. the pdcp worker `_rcp_thread`); fairness of the real scheduler;
workers whose command never ends (C07: `immortal_never_returns`) and cancellation (^C^Z, C20) are outside these
models; that `-k` really reaches the running commands when a create fails (`termSent` is the call of `_fwd_signal`,
monitors only); fanout 0 (the dispatcher then waits forever: C18).  WHICH ADDRESS a target's command is sent to is not in the LTS
(a target is its index): monitor only -- pinned runs with a transport that wants resolved addresses (harness key
`resolve`: the harness's resolver has ONE static result buffer like libc's, the instant after a mutex is dropped is a
scheduling point, the stub checks the address it is handed; 120 schedules, fanout 2 and 3).  `FanPoll` (the loop as code) is not under a trace
acceptor of its own: its worker component IS C05's `pollStep` (differential execution in checks/c05.py), its protocol
component IS `FanG.step`; the acceptor's relay mode keeps running the per-stream composition `FanRelay`.  The composed LTS of `EndToEnd` is tied to
dsh.c the same way: runs whose reads / closes are logged go through `FanRelay.step` (relay mode of `pdshmodel fan`:
a read outside the worker's loop, or a worker leaving its loop before its polled streams are over, is rejected);
what the relay writes for given chunks is C05's correspondence; a worker that gives up on its host at a timeout is
the Timed LTS's business (C07 `healthy_complete`).
-/
namespace PdshVerif.Props.C03
section Pinned
open PdshVerif.Dsh.Fan

/-- every worker operation (connect begin/end, destroy begin/end, lock, signal, unlock) happens at
    most once per target in any execution -/
theorem each_op_once {v : Variant} {f n : Nat} {ls : List Label} {s : St}
    (he : Exec (init v f n) ls s) (i : Nat) (a : WAct) : ls.count (.w i a) ≤ 1 := by
  rw [hist_exec he i a]; split <;> omega

/-- C03: the remote command is started at most once for each target -/
theorem once_only {v : Variant} {f n : Nat} {ls : List Label} {s : St}
    (he : Exec (init v f n) ls s) (i : Nat) : ls.count (.w i .connectBegin) ≤ 1 :=
  each_op_once he i .connectBegin

/-- C03: no command is started for anything but the `n` targets -/
theorem none_else {v : Variant} {f n : Nat} {ls : List Label} {s : St}
    (he : Exec (init v f n) ls s) {j : Nat} (hm : Label.w j .connectBegin ∈ ls) : j < n := by
  have hc := hist_exec he j .connectBegin
  have hpos : 0 < ls.count (.w j .connectBegin) := List.count_pos_iff.mpr hm
  rw [hc] at hpos
  split at hpos
  · rename_i hle
    have hne : pc s j ≠ .idle := by intro h; rw [h] at hle; simp [ord, WAct.post] at hle
    have := lt_of_getElem? (getElem?_of_getD (w := pc s j) rfl hne)
    rw [(exec_params he).2.2] at this
    simpa [init] using this
  · omega

/-- C03: when dsh() has returned, every target's command was started exactly once, torn down
    exactly once, and its worker has finished its epilogue (decrement, signal, unlock) -/
theorem exit_after_all {v : Variant} {f n : Nat} {ls : List Label} {s : St}
    (he : Exec (init v f n) ls s) (hf : Final s) (i : Nat) (hi : i < n) :
    ls.count (.w i .connectBegin) = 1 ∧ ls.count (.w i .destroyEnd) = 1 ∧ ls.count (.w i .unlock) = 1 := by
  have hinv := inv_exec (inv_init v f n) he
  have hlen : s.ws.length = n := by have := (exec_params he).2.2; simpa [init] using this
  have hdone : pc s i = .done := hinv.fin (by rw [hf]; rfl) i (by omega)
  refine ⟨?_, ?_, ?_⟩ <;> rw [hist_exec he, hdone] <;> simp [ord, WAct.post]

/-- in particular the return of dsh() comes after the last teardown: at the moment of `D.return`
    every `destroyEnd` is already in the history -/
theorem return_after_teardown {v : Variant} {f n : Nat} {ls : List Label} {s : St}
    (he : Exec (init v f n) (ls ++ [.d .ret]) s) (i : Nat) (hi : i < n) : Label.w i .destroyEnd ∈ ls := by
  have hfin : Final s := by
    obtain ⟨s1, _, hs⟩ := exec_snoc_inv he
    simp only [step] at hs
    split at hs <;> simp at hs
    subst hs; rfl
  have := (exit_after_all he hfin i hi).2.1
  have hpos : 0 < (ls ++ [Label.d DAct.ret]).count (.w i .destroyEnd) := by omega
  have hm := List.count_pos_iff.mp hpos
  simpa using hm

/-- after dsh() has returned nothing happens any more (no worker is left running) -/
theorem final_is_end {v : Variant} {f n : Nat} {s : St} (h : Reach v f n s) (hf : Final s) (l : Label) :
    step s l = none := by
  have hinv := inv_reach h
  cases hs : step s l with
  | none => rfl
  | some s' =>
    exfalso
    cases l with
    | d a =>
      have hd : s.dpc = .returned := hf
      cases a <;> simp [step, hd] at hs
    | w i a =>
      obtain ⟨hpre, _, _⟩ := w_step_facts hs
      have := hinv.fin (by rw [hf]; rfl) i (lt_of_getElem? hpre)
      have hp : pc s i = a.pre := getD_of_getElem? hpre
      rw [hp] at this
      cases a <;> cases this

/-- C03 (no lost wake-up, no deadlock): in every reachable state in which dsh() has not returned,
    some operation other than a spurious wake-up is enabled -/
theorem progress {v : Variant} {f n : Nat} {s : St} (hf : 0 < f) (h : Reach v f n s) (hnf : ¬ Final s) :
    ∃ l s', l.spurious = false ∧ step s l = some s' := by
  have hinv := inv_reach h
  have hfs : 0 < s.f := by rw [(reach_params h).2.1]; exact hf
  obtain ⟨l, hsp, hen⟩ := progress_inv hinv hfs hnf
  cases hs : step s l with
  | none => rw [hs] at hen; cases hen
  | some s' => exact ⟨l, s', hsp, hs⟩

/-- the same in terms of the enabled sets the trace acceptor compares with the harness's runnable
    set at every step: before dsh() has returned the dispatcher or some worker of a target is enabled
    (so a run of the real code that the acceptor accepts cannot be deadlocked without a mismatch) -/
theorem progress_enabled {v : Variant} {f n : Nat} {s : St} (hf : 0 < f) (h : Reach v f n s) (hnf : ¬ Final s) :
    dEnabled s = true ∨ ∃ i, i < n ∧ wEnabled s i = true := by
  obtain ⟨l, s', hsp, hs⟩ := progress hf h hnf
  have hen := enabled_of_step hsp (by rw [hs]; rfl)
  cases l with
  | d a => exact Or.inl hen
  | w i a => exact Or.inr ⟨i, by rw [← (reach_params h).2.2]; exact hen.2, hen.1⟩

/-- a state in which no non-spurious operation is enabled is a state in which dsh() has returned -/
theorem stuck_is_final {v : Variant} {f n : Nat} {s : St} (hf : 0 < f) (h : Reach v f n s)
    (hstuck : ∀ l, l.spurious = false → step s l = none) : Final s := by
  by_cases hd : s.dpc = .returned
  · exact hd
  · obtain ⟨l, s', hsp, hs⟩ := progress hf h hd
    rw [hstuck l hsp] at hs; cases hs

/-- every non-spurious step decreases the rank; a spurious wake-up increases it by at most 2 -/
theorem rank_decreases {v : Variant} {f n : Nat} {s s' : St} {l : Label} (h : Reach v f n s)
    (hs : step s l = some s') : (l.spurious = false → rank s' < rank s) ∧ rank s' ≤ rank s + 2 :=
  rank_step (inv_reach h) hs

theorem rank_init_le (v : Variant) (f n : Nat) : rank (init v f n) ≤ 18 * n + 13 := by
  have hs : ∀ n, ((List.replicate n W.idle).map wrank).sum = 11 * n := by
    intro n; induction n with
    | zero => rfl
    | succ k ih => simp [List.replicate_succ, wrank] at ih ⊢; omega
  simp only [rank, init, hs]
  split <;> simp [drank] <;> omega

/-- termination: an execution with k spurious wake-ups has at most 18·n + 13 + 3·k steps -/
theorem steps_bounded {v : Variant} {f n : Nat} {ls : List Label} {s : St} (he : Exec (init v f n) ls s) :
    ls.length + rank s ≤ 18 * n + 13 + 3 * ls.countP Label.spurious := by
  have key : ∀ {ls s}, Exec (init v f n) ls s →
      ls.length + rank s ≤ rank (init v f n) + 3 * ls.countP Label.spurious := by
    intro ls s he
    induction he with
    | nil => simp
    | snoc he' hs ih =>
      rename_i ls0 s0 l0 s1
      have hr := rank_step (inv_exec (inv_init v f n) he') hs
      rw [List.length_append, List.countP_append]
      cases hsp : l0.spurious with
      | false =>
        have := hr.1 hsp
        simp [hsp]; omega
      | true =>
        have := hr.2
        simp [hsp]; omega
  have := key he
  have := rank_init_le v f n
  omega

/-- non-vacuity: a complete run (f = 1, n = 2, one spurious wake-up in the drain loop) reaches `Final` -/
example : (run (init .whileWait 1 2)
    [.d .lock, .d (.create 0), .d .unlock, .d .lock, .d .wait,
     .w 0 .connectBegin, .w 0 .connectEnd, .w 0 .destroyBegin, .w 0 .destroyEnd, .w 0 .lock, .w 0 .signal,
     .d (.wake false), .w 0 .unlock, .d .relock, .d (.create 1), .d .unlock, .d .lock, .d .wait,
     .d (.wake true), .d .relock, .d .wait,
     .w 1 .connectBegin, .w 1 .connectEnd, .w 1 .destroyBegin, .w 1 .destroyEnd, .w 1 .lock, .w 1 .signal,
     .w 1 .unlock, .d (.wake false), .d .relock, .d .unlock, .d .ret]).map (·.dpc) = some .returned := by decide

end Pinned

/-! ## the same, for every signalling discipline (`Dsh/FanG.lean`)

From here on the LTS is `FanG`: each worker chooses freely whether its wake-up call comes before or after its
unlock, and the call may be `pthread_cond_signal` or `pthread_cond_broadcast` (no distinction of the LTS: the
dispatcher is the only waiter).  The executions of `Fan` above are the executions of `FanG` in which no worker
chooses `unlockFirst`.  Statements that change: when dsh() has returned every worker has given its slot back and
dropped the mutex, but may still owe a (then pointless) wake-up call -- so `exit_after_all` speaks of "one of the two
unlocks", and `final_is_end` becomes `final_only_late`. -/
namespace G
open PdshVerif.Dsh.FanG

/-- every worker operation happens at most once per target in any execution -/
theorem each_op_once {v : Variant} {f n : Nat} {ls : List Label} {s : St}
    (he : Exec (init v f n) ls s) (i : Nat) (a : WAct) : ls.count (.w i a) ≤ 1 := by
  have hh := hist_exec he
  have h1 := hh.sigs i
  have h2 := hh.unls i
  cases a
  case signal => revert h1; split <;> omega
  case signalAfter => revert h1; split <;> omega
  case unlock => revert h2; split <;> omega
  case unlockFirst => revert h2; split <;> omega
  all_goals (rw [hh.common i _ rfl]; split <;> omega)

/-- C03: the remote command is started at most once for each target -/
theorem once_only {v : Variant} {f n : Nat} {ls : List Label} {s : St}
    (he : Exec (init v f n) ls s) (i : Nat) : ls.count (.w i .connectBegin) ≤ 1 :=
  each_op_once he i .connectBegin

/-- C03: no command is started for anything but the `n` targets -/
theorem none_else {v : Variant} {f n : Nat} {ls : List Label} {s : St}
    (he : Exec (init v f n) ls s) {j : Nat} (hm : Label.w j .connectBegin ∈ ls) : j < n := by
  have hc := (hist_exec he).common j .connectBegin rfl
  have hpos : 0 < ls.count (.w j .connectBegin) := List.count_pos_iff.mpr hm
  rw [hc] at hpos
  split at hpos
  · rename_i hle
    have hne : pc s j ≠ .idle := by intro h; rw [h] at hle; simp [ord, WAct.post] at hle
    have := lt_of_getElem? (getElem?_of_getD (w := pc s j) rfl hne)
    rw [(exec_params he).2.2] at this
    simpa [init] using this
  · omega

/-- C03: when dsh() has returned, every target's command was started exactly once, torn down exactly once, and its
    worker has given its slot back (`lock` = lock and `threadcount--`) and released the mutex (one of the two
    unlocks) -- whatever the discipline -/
theorem exit_after_all {v : Variant} {f n : Nat} {ls : List Label} {s : St}
    (he : Exec (init v f n) ls s) (hf : Final s) (i : Nat) (hi : i < n) :
    ls.count (.w i .connectBegin) = 1 ∧ ls.count (.w i .destroyEnd) = 1 ∧ ls.count (.w i .lock) = 1 ∧
      ls.count (.w i .unlock) + ls.count (.w i .unlockFirst) = 1 := by
  have hinv := inv_exec (inv_init v f n) he
  have hlen : s.ws.length = n := by have := (exec_params he).2.2; simpa [init] using this
  have hout : isOut (pc s i) = true := hinv.fin (by rw [hf]; rfl) i (by omega)
  have hh := hist_exec he
  refine ⟨?_, ?_, ?_, ?_⟩
  · rw [hh.common i _ rfl]; revert hout; cases pc s i <;> simp [isOut, ord, WAct.post]
  · rw [hh.common i _ rfl]; revert hout; cases pc s i <;> simp [isOut, ord, WAct.post]
  · rw [hh.common i _ rfl]; revert hout; cases pc s i <;> simp [isOut, ord, WAct.post]
  · rw [hh.unls i, hout]; rfl

/-- the return of dsh() comes after the last teardown -/
theorem return_after_teardown {v : Variant} {f n : Nat} {ls : List Label} {s : St}
    (he : Exec (init v f n) (ls ++ [.d .ret]) s) (i : Nat) (hi : i < n) : Label.w i .destroyEnd ∈ ls := by
  have hfin : Final s := by
    obtain ⟨s1, _, hs⟩ := exec_snoc_inv he
    simp only [step] at hs
    split at hs <;> simp at hs
    subst hs; rfl
  have := (exit_after_all he hfin i hi).2.1
  have hpos : 0 < (ls ++ [Label.d DAct.ret]).count (.w i .destroyEnd) := by omega
  have hm := List.count_pos_iff.mp hpos
  simpa using hm

/-- after dsh() has returned nothing happens any more except wake-up calls that workers which chose to unlock first
    still owe (they find nobody waiting) -/
theorem final_only_late {v : Variant} {f n : Nat} {s s' : St} (h : Reach v f n s) (hf : Final s) {l : Label}
    (hs : step s l = some s') : l.late = true := by
  have hinv := inv_reach h
  cases l with
  | d a =>
    have hd : s.dpc = .returned := hf
    cases a <;> simp [step, hd] at hs
  | w i a =>
    obtain ⟨hpre, _, _⟩ := w_step_facts hs
    have := hinv.fin (by rw [hf]; rfl) i (lt_of_getElem? hpre)
    have hp : pc s i = a.pre := getD_of_getElem? hpre
    rw [hp] at this
    cases a <;> simp [isOut, WAct.pre] at this ⊢
    rfl

/-- ... and in the disciplines of the pinned kind (wake-up call inside the critical section) nothing at all: a
    state in which no worker is `released` and dsh() has returned is dead -/
theorem final_is_end {v : Variant} {f n : Nat} {s : St} (h : Reach v f n s) (hf : Final s)
    (hnr : ∀ j, pc s j ≠ .released) (l : Label) : step s l = none := by
  cases hs : step s l with
  | none => rfl
  | some s' =>
    exfalso
    have hl := final_only_late h hf hs
    cases l with
    | d a => simp [Label.late] at hl
    | w i a =>
      obtain ⟨hpre, _, _⟩ := w_step_facts hs
      have hp : pc s i = a.pre := getD_of_getElem? hpre
      cases a <;> simp [Label.late] at hl
      exact hnr i hp

/-- C03 (no lost wake-up, no deadlock), every discipline: in every reachable state in which dsh() has not returned,
    some operation other than a spurious wake-up is enabled -/
theorem progress {v : Variant} {f n : Nat} {s : St} (hf : 0 < f) (h : Reach v f n s) (hnf : ¬ Final s) :
    ∃ l s', l.spurious = false ∧ step s l = some s' := by
  have hinv := inv_reach h
  have hfs : 0 < s.f := by rw [(reach_params h).2.1]; exact hf
  obtain ⟨l, hsp, hen⟩ := progress_inv hinv hfs hnf
  cases hs : step s l with
  | none => rw [hs] at hen; cases hen
  | some s' => exact ⟨l, s', hsp, hs⟩

/-- the same in terms of the enabled sets the trace acceptor compares with the harness's runnable set -/
theorem progress_enabled {v : Variant} {f n : Nat} {s : St} (hf : 0 < f) (h : Reach v f n s) (hnf : ¬ Final s) :
    dEnabled s = true ∨ ∃ i, i < n ∧ wEnabled s i = true := by
  obtain ⟨l, s', hsp, hs⟩ := progress hf h hnf
  have hen := enabled_of_step hsp (by rw [hs]; rfl)
  cases l with
  | d a => exact Or.inl hen
  | w i a => exact Or.inr ⟨i, by rw [← (reach_params h).2.2]; exact hen.2, hen.1⟩

/-- a state in which no non-spurious operation is enabled is a state in which dsh() has returned -/
theorem stuck_is_final {v : Variant} {f n : Nat} {s : St} (hf : 0 < f) (h : Reach v f n s)
    (hstuck : ∀ l, l.spurious = false → step s l = none) : Final s := by
  by_cases hd : s.dpc = .returned
  · exact hd
  · obtain ⟨l, s', hsp, hs⟩ := progress hf h hd
    rw [hstuck l hsp] at hs; cases hs

/-- every non-spurious step decreases the rank; a spurious wake-up increases it by at most 2 -/
theorem rank_decreases {v : Variant} {f n : Nat} {s s' : St} {l : Label} (h : Reach v f n s)
    (hs : step s l = some s') : (l.spurious = false → rank s' < rank s) ∧ rank s' ≤ rank s + 2 :=
  rank_step (inv_reach h) hs

theorem rank_init_le (v : Variant) (f n : Nat) : rank (init v f n) ≤ 18 * n + 13 := by
  have hs : ∀ n, ((List.replicate n W.idle).map wrank).sum = 11 * n := by
    intro n; induction n with
    | zero => rfl
    | succ k ih => simp [List.replicate_succ, wrank] at ih ⊢; omega
  simp only [rank, init, hs]
  split <;> simp [drank] <;> omega

/-- termination, every discipline: an execution with k spurious wake-ups has at most 18·n + 13 + 3·k steps (late
    wake-up calls after the return included) -/
theorem steps_bounded {v : Variant} {f n : Nat} {ls : List Label} {s : St} (he : Exec (init v f n) ls s) :
    ls.length + rank s ≤ 18 * n + 13 + 3 * ls.countP Label.spurious := by
  have key : ∀ {ls s}, Exec (init v f n) ls s →
      ls.length + rank s ≤ rank (init v f n) + 3 * ls.countP Label.spurious := by
    intro ls s he
    induction he with
    | nil => simp
    | snoc he' hs ih =>
      rename_i ls0 s0 l0 s1
      have hr := rank_step (inv_exec (inv_init v f n) he') hs
      rw [List.length_append, List.countP_append]
      cases hsp : l0.spurious with
      | false =>
        have := hr.1 hsp
        simp [hsp]; omega
      | true =>
        have := hr.2
        simp [hsp]; omega
  have := key he
  have := rank_init_le v f n
  omega

/-- non-vacuity: a complete run (f = 1, n = 2) in which worker 0 signals inside the critical section and worker 1
    unlocks first; dsh() returns BEFORE worker 1's late wake-up call, which then finds nobody waiting -/
example : (run (init .whileWait 1 2)
    [.d .lock, .d (.create 0), .d .unlock, .d .lock, .d .wait,
     .w 0 .connectBegin, .w 0 .connectEnd, .w 0 .destroyBegin, .w 0 .destroyEnd, .w 0 .lock, .w 0 .signal,
     .d (.wake false), .w 0 .unlock, .d .relock, .d (.create 1), .d .unlock,
     .w 1 .connectBegin, .w 1 .connectEnd, .w 1 .destroyBegin, .w 1 .destroyEnd, .w 1 .lock, .w 1 .unlockFirst,
     .d .lock, .d .unlock, .d .ret, .w 1 .signalAfter]).map (fun s => (s.dpc, s.ws)) =
    some (.returned, [.done, .done]) := by decide

end G

/-! ## when resources run out: `pthread_create` fails, the descriptor limit is tight (`Dsh/FanX.lean`)

The protocol LTS wrapped in its environment: the prologue `_increase_nofile_limit` (any limits, `getrlimit` /
`setrlimit` working or not) and, wherever the dispatcher is about to create a worker, the possibility that
`pthread_create` fails.  The statement of C03 survives in the only form it can: EITHER every target gets its command
exactly once and dsh() returns after all of them, OR pdsh stops with a message and exit status 1 -- it never goes on
without the target whose worker it could not create, and never reports success. -/
namespace X
open PdshVerif.Dsh PdshVerif.Dsh.FanX

/-- whatever the environment does, no target's command is started twice, and none for a non-target -/
theorem once_only {v : FanG.Variant} {setting n : Nat} {k : Bool} {ls : List FanX.Label} {s : FanX.St}
    (he : FanX.Exec (FanX.init v setting n k) ls s) (i : Nat) :
    (ls.filterMap FanX.projLabel).count (.w i .connectBegin) ≤ 1 ∧
    (FanG.Label.w i .connectBegin ∈ ls.filterMap FanX.projLabel → i < n) :=
  ⟨G.once_only (proj_exec he).1 i, fun h => G.none_else (proj_exec he).1 h⟩

/-- EACH TARGET EXACTLY ONCE, OR A LOUD NON-ZERO EXIT.  Every execution (every limit, every schedule, `pthread_create`
    failing at any point) is in exactly one of three situations: nothing has happened yet; pdsh is running, no create
    has failed, the descriptor limit has not changed the fanout (`s.g.f = setting`), and IF dsh() has returned then
    every target was started exactly once and torn down exactly once; or pdsh has exited with status 1 right after
    the failed `pthread_create` for a target `j < n` whose command had NOT been started -- with `-k` having forwarded
    SIGTERM first -- and dsh() has not returned (no exit status 0, no silent skip). -/
theorem all_once_or_loud_exit {v : FanG.Variant} {setting n : Nat} {k : Bool} {ls : List FanX.Label} {s : FanX.St}
    (he : FanX.Exec (FanX.init v setting n k) ls s) :
    (s.ph = .prologue ∧ ls = []) ∨
    (s.ph = .running ∧ ls.any FanX.Label.isFail = false ∧ s.g.f = setting ∧
      (FanG.Final s.g → ∀ i, i < n → (ls.filterMap FanX.projLabel).count (.w i .connectBegin) = 1 ∧
        (ls.filterMap FanX.projLabel).count (.w i .destroyEnd) = 1)) ∨
    (s.ph = .exited 1 ∧ s.termSent = k ∧ ¬ FanG.Final s.g ∧
      ∃ j ls0, j < n ∧ ls = ls0 ++ [.createFail j] ∧ ls0.any FanX.Label.isFail = false ∧
        (ls.filterMap FanX.projLabel).count (.w j .connectBegin) = 0) := by
  obtain ⟨hex, _, hpro, hrun, hexit⟩ := proj_exec he
  cases hp : s.ph with
  | prologue => exact Or.inl ⟨rfl, (hpro hp).1⟩
  | running =>
    refine Or.inr (Or.inl ⟨rfl, (hrun hp).1, (FanG.exec_params hex).2.1, fun hf i hi => ?_⟩)
    have := G.exit_after_all hex hf i hi
    exact ⟨this.1, this.2.1⟩
  | exited c =>
    obtain ⟨hc, ht, hd, hlt, ls0, hls, hnf⟩ := hexit c hp
    subst hc
    refine Or.inr (Or.inr ⟨rfl, ht, (by intro hf; rw [hf] at hd; cases hd), s.g.i, ls0, hlt, hls, hnf, ?_⟩)
    have hinv := FanG.inv_exec (FanG.inv_init v setting n) hex
    have hidle : FanG.pc s.g s.g.i = .idle := (hinv.front s.g.i).mpr (by simp [FanG.frontier, hd])
    have := (FanG.hist_exec hex).common s.g.i .connectBegin rfl
    rw [this, hidle]; rfl

/-- after the exit nothing happens: no further command is started, dsh() does not return -/
theorem exit_is_end {s : FanX.St} {c : Nat} (h : s.ph = .exited c) (l : FanX.Label) : FanX.step s l = none :=
  exited_stuck h l

/-- and pdsh does not hang either: while it is running (fanout setting ≥ 1, any descriptor limit) and dsh() has not
    returned, some operation other than a spurious wake-up is enabled -/
theorem progress {v : FanG.Variant} {setting n : Nat} {k : Bool} {ls : List FanX.Label} {s : FanX.St}
    (hpos : 0 < setting) (he : FanX.Exec (FanX.init v setting n k) ls s) (hr : s.ph = .running)
    (hnf : ¬ FanG.Final s.g) : ∃ l s', l.spurious = false ∧ FanX.step s (.g l) = some s' := by
  obtain ⟨l, g', hsp, hs⟩ := G.progress hpos ⟨_, (proj_exec he).1⟩ hnf
  exact ⟨l, { s with g := g' }, hsp, by simp [FanX.step, hr, hs]⟩

/-- non-vacuity: limit 33 = hard limit (nothing to raise), fanout 1, two targets, `-k`; worker 0 runs, the create for
    worker 1 fails: exit 1 with SIGTERM forwarded, target 0 started once, target 1 never -/
example : (FanX.run (FanX.init .whileWait 1 2 true)
    [.nofile 33 33 true true, .g (.d .lock), .g (.d (.create 0)), .g (.d .unlock), .g (.w 0 .connectBegin),
     .g (.d .lock), .g (.d .wait), .g (.w 0 .connectEnd), .g (.w 0 .destroyBegin), .g (.w 0 .destroyEnd),
     .g (.w 0 .lock), .g (.w 0 .signal), .g (.d (.wake false)), .g (.w 0 .unlock), .g (.d .relock),
     .createFail 1]).map (fun s => (s.ph, s.termSent, s.g.f, s.soft)) = some (.exited 1, true, 1, 33) := by decide

end X

/-! ## end to end: "returns only after every started command has finished and its output has been delivered"

The protocol LTS (every signalling discipline) composed with the relay of property C05 (`Dsh/FanRelay.lean`): relay
events of a target's streams happen while its worker is in the poll / read loop, the worker leaves the loop when
its polled streams have finished, everything else is free.  The relay theorem `C05.relay_lossless_any_interleaving`
is IMPORTED, not assumed. -/
namespace EndToEnd
open PdshVerif.Dsh PdshVerif.Dsh.FanRelay PdshVerif.Relay

/-- C03, whole statement, for every fanout ≥ 0, number of targets, schedule of dispatcher, workers and relay
    events, cutting of the output into chunks, number of spurious wake-ups, wait construct and signalling
    discipline: when dsh() has returned, for every target `i` the command was started exactly once and torn down
    exactly once, and -- if its connect succeeded -- for each of its polled streams the stdio calls found in the GLOBAL output (all hosts
    interleaved) write exactly what the remote side sent on that stream, complete, in order, once, under `i`'s label
    (for contents in the relay's domain `Dom05`: no NUL byte, bounded line length, no rc marker split across the
    buffer — see Props/C05). -/
theorem returns_after_output_delivered (cfg : Cfg) (names : Nat → Bytes) {sizeMeta : Nat}
    (hg : growthOk sizeMeta = true) {b0 : PBuf} (hb0 : mkFifoBuf sizeMeta = some b0)
    {v : FanG.Variant} {f n : Nat} {sopt : Bool} {ls : List FanRelay.Label} {s : FanRelay.St}
    (he : FanRelay.Exec (FanRelay.init v f n sopt) ls s) (hf : FanG.Final s.fan) (i : Nat) (hi : i < n)
    (hconn : s.nofd.contains i = false) (strm : Bool) (hstrm : strm = true → sopt = true)
    (hdom : Spec.Dom05 (markerOf (!strm)) (chunksOf s.evs (i, strm)).flatten = true) :
    (ls.filterMap projLabel).count (.w i .connectBegin) = 1 ∧
    (ls.filterMap projLabel).count (.w i .destroyEnd) = 1 ∧
    PdshVerif.C05.written (logOf (s.evs.foldl (gstep fifoOps cfg names) (ginit b0)) (i, strm)) =
      Spec.render (labelPrefix cfg.labels cfg.keep (names i)) (chunksOf s.evs (i, strm)).flatten := by
  have hfe := fan_refinement he
  have h1 := G.exit_after_all hfe hf i hi
  refine ⟨h1.1, h1.2.1, ?_⟩
  have hk := final_streams_complete he hf i hi hconn strm hstrm
  exact PdshVerif.C05.relay_lossless_any_interleaving cfg names hg hb0 s.evs (i, strm)
    (chunksOf s.evs (i, strm)) hk hdom

/-- non-vacuity of the composed system: one target, fanout 1; the worker connects, two chunks arrive on stdout, the
    stream finishes, the worker tears down, unlocks FIRST and signals late; dsh() returns -/
def demoTrace : List FanRelay.Label :=
  [.fan (.d .lock), .fan (.d (.create 0)), .fan (.d .unlock), .fan (.w 0 .connectBegin), .fan (.w 0 .connectEnd),
   .ev (0, false) (.feed [104, 105]), .ev (0, false) (.feed [10]), .ev (0, false) .finish,
   .fan (.w 0 .destroyBegin), .fan (.w 0 .destroyEnd), .fan (.w 0 .lock), .fan (.w 0 .unlockFirst),
   .fan (.d .lock), .fan (.d .unlock), .fan (.d .ret)]

example : ∃ s, FanRelay.Exec (FanRelay.init .whileWait 1 1 false) demoTrace s ∧ FanG.Final s.fan ∧
    chunksOf s.evs (0, false) = [[104, 105], [10]] := by
  have h : (FanRelay.run (FanRelay.init .whileWait 1 1 false) demoTrace).map
      (fun s => (s.fan.dpc, chunksOf s.evs (0, false))) = some (.returned, [[104, 105], [10]]) := by decide
  cases hr : FanRelay.run (FanRelay.init .whileWait 1 1 false) demoTrace with
  | none => rw [hr] at h; cases h
  | some s => rw [hr] at h; simp at h; exact ⟨s, exec_of_run hr, h.1, h.2⟩


/-! ### the same with the worker's loop as CODE (no hypothesis about when the loop is left)

`FanRelay` lets `W i.destroyBegin` happen "when every polled stream of `i` has finished".  `Dsh/FanPoll.lean` composes
the protocol with the poll / read loop of `_rsh_thread` as property C05 models it (`pollStep`: arrivals, hang-ups,
`xpoll` returns reporting any subset, short reads, EAGAIN, EINTR, in any order): there the worker leaves the loop when
its loop condition `xpfds[0].fd >= 0 || xpfds[1].fd >= 0` is false, and that the streams are then over, read to the
end and written is the relay's theorem (`Relay/Poll.lean: pollRun_inv`, the invariant behind
`C05.poll_loop_left_only_at_eof_of_both` and `C05.worker_done_has_delivered_everything`), imported here. -/

open PdshVerif.Dsh.FanPoll in
/-- C03, whole statement, worker loop included: for every fanout, number of targets, wait construct, signalling
    discipline, schedule of dispatcher and workers, and every behaviour of the remote sides and of `xpoll` / `read`
    (what arrives when, which descriptors each poll reports, short reads, EAGAIN, EINTR): when dsh() has returned,
    for every target `i` the command was started exactly once and torn down exactly once, the worker's loop was left
    with both poll slots retired, and -- if its connect succeeded -- the stdio calls of its stdout handler (final
    flush included, made before `rcmd_destroy`) write exactly what the remote side sent on stdout before closing it,
    labelled, complete, in order, once; likewise stderr (with `-s`; without it the stderr slot is never polled and
    nothing is written for it).  No hypothesis about the loop: its guard is the code's own loop condition. -/
theorem returns_after_output_delivered_poll (P : FanPoll.Params) {sizeMeta : Nat}
    (hg : growthOk sizeMeta = true) (hb0 : mkFifoBuf sizeMeta = some P.b0)
    {v : FanG.Variant} {f n : Nat} {ls : List FanPoll.Label} {s : FanPoll.St}
    (he : FanPoll.Exec P (FanPoll.init v f n) ls s) (hf : FanG.Final s.fan) (i : Nat) (hi : i < n)
    (hconn : s.nofd.contains i = false)
    (hdO : Spec.Dom05 (markerOf true) (acceptedOf false (FanPoll.evsOf s.evs i) false) = true)
    (hdE : Spec.Dom05 (markerOf false) (acceptedOf true (FanPoll.evsOf s.evs i) (!P.sopt)) = true) :
    (ls.filterMap FanPoll.projLabel).count (.w i .connectBegin) = 1 ∧
    (ls.filterMap FanPoll.projLabel).count (.w i .destroyEnd) = 1 ∧
    PdshVerif.C05.writtenBy (workerFinish fifoOps P.cfg (P.names i) (P.names 0) (FanPoll.worker P s i)) false =
      Spec.render (labelPrefix P.cfg.labels P.cfg.keep (P.names i)) (acceptedOf false (FanPoll.evsOf s.evs i) false) ∧
    PdshVerif.C05.writtenBy (workerFinish fifoOps P.cfg (P.names i) (P.names 0) (FanPoll.worker P s i)) true =
      Spec.render (labelPrefix P.cfg.labels P.cfg.keep (P.names i))
        (acceptedOf true (FanPoll.evsOf s.evs i) (!P.sopt)) := by
  have hfe := FanPoll.fan_refinement he
  have h1 := G.exit_after_all hfe hf i hi
  refine ⟨h1.1, h1.2.1, ?_⟩
  have hleft := FanPoll.final_loops_left he hf i hi hconn
  have hwO : (FanPoll.initW P.sopt P.b0).out.1.weof = false := by cases hs : P.sopt <;> simp [FanPoll.initW, Worker.init]
  have hwE : (FanPoll.initW P.sopt P.b0).err.1.weof = !P.sopt := by cases hs : P.sopt <;> simp [FanPoll.initW, Worker.init]
  have hinv := pollRun_inv P.cfg (P.names i) (dom_room hdO) (dom_room hdE) (FanPoll.evsOf s.evs i)
    (FanPoll.initW P.sopt P.b0) [] [] (by rw [hwO]; simp) (by rw [hwE]; simp)
    (FanPoll.initW_inv P.cfg (P.names i) P.sopt hg hb0)
  have hw : FanPoll.worker P s i =
      (FanPoll.evsOf s.evs i).foldl (pollStep fifoOps P.cfg (P.names i)) (FanPoll.initW P.sopt P.b0) := rfl
  rw [← hw] at hinv
  generalize FanPoll.worker P s i = w at hinv hleft ⊢
  simp only [Worker.loopLeft, Bool.and_eq_true] at hleft
  obtain ⟨_, hpo⟩ := hinv.out.2 hleft.1
  obtain ⟨_, hpe⟩ := hinv.err.2 hleft.2
  obtain ⟨xo, hxo, hfo, h0o⟩ := stream_closed_form P.cfg (P.names i) 1 true (P.names 0) hdO hinv.out.1
  obtain ⟨xe, hxe, hfe', h0e⟩ := stream_closed_form P.cfg (P.names i) 2 false (P.names 0) hdE hinv.err.1
  rw [hpo, List.append_nil] at hxo
  rw [hpe, List.append_nil] at hxe
  subst hxo; subst hxe
  constructor
  · unfold PdshVerif.C05.writtenBy
    rw [workerFinish_logOf, hinv.logO]
    simp only [Bool.false_eq_true, ↓reduceIte]
    rw [hfo]
    exact PdshVerif.C05.written_of_closed_form P.cfg (P.names i) 1 _ h0o
  · unfold PdshVerif.C05.writtenBy
    rw [workerFinish_logOf, hinv.logE]
    simp only [↓reduceIte]
    rw [hfe']
    exact PdshVerif.C05.written_of_closed_form P.cfg (P.names i) 2 _ h0e

/-- non-vacuity of the composition with the loop: one target, fanout 1, no `-s`; "hi" then "\n" arrive on stdout, a
    poll with a short read of 1 byte, an interrupted poll, a poll that reads the rest, the remote side closes, the
    poll that sees EOF retires the slot; only then can the worker tear down; dsh() returns -/
def demoPoll : List FanPoll.Label :=
  [.fan (.d .lock), .fan (.d (.create 0)), .fan (.d .unlock), .fan (.w 0 .connectBegin), .fan (.w 0 .connectEnd),
   .pev 0 (.arrive false [104, 105]), .pev 0 (.poll (some (some 1)) none), .pev 0 .eintr,
   .pev 0 (.arrive false [10]), .pev 0 (.poll (some none) none), .pev 0 (.hup false), .pev 0 (.poll (some none) none),
   .fan (.w 0 .destroyBegin), .fan (.w 0 .destroyEnd), .fan (.w 0 .lock), .fan (.w 0 .unlockFirst),
   .fan (.d .lock), .fan (.d .unlock), .fan (.d .ret)]

example : ∀ b0, mkFifoBuf 1 = some b0 →
    let P : FanPoll.Params := ⟨⟨true, false, false, false, false⟩, fun _ => [104], b0, false⟩
    ((FanPoll.run P (FanPoll.init .whileWait 1 1) demoPoll).map fun s => s.fan.dpc) = some .returned ∧
    -- the worker cannot leave the loop one poll earlier (EOF not yet seen): the guard is the loop condition
    (FanPoll.run P (FanPoll.init .whileWait 1 1) (demoPoll.take 11 ++ [.fan (.w 0 .destroyBegin)])).isNone = true := by
  intro b0 h
  simp [mkFifoBuf, Cbuf.Spec.create, Gen.RELAY_CBUF_MIN, Gen.RELAY_CBUF_MAX] at h
  subst h
  decide

end EndToEnd

end PdshVerif.Props.C03
