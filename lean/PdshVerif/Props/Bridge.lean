/-
  BRIDGE THEOREMS — "the hand-written model mirrors the code", checked by the kernel against the CURRENT
  source on every run.

  tools/c2lean.py translates the small pure C functions listed in tools/c2lean_targets.json from the tree
  under check into `PdshVerif.Gen.Fn.<Unit>` (regenerated on every run; `none` = undefined behaviour or
  fuel exhausted, see tools/c2lean.md).  Each theorem below says, for ALL arguments inside the C ranges,
  that the translated function computes what the hand-written model definition computes.  When a
  maintainer changes the behaviour of one of these functions the regenerated definition changes and the
  theorem no longer builds: P-BROKEN for every property whose model uses that definition.

  C function (file)                       model definition                      theorem            properties
  --------------------------------------  ------------------------------------  -----------------  -----------
  _zero_padded (hostlist.c)               Hostlist.zeroPadded                   zero_padded        C01 C14 C16
  _width_equiv (hostlist.c)               Hostlist.widthEquiv                   width_equiv        C01 C14 C16
  host_prefix_end (hostlist.c)            Hostlist.hostPrefixLen                host_prefix_end    C01 C16
  hostrange_count (hostlist.c)            Hostlist.HRange.count                 hostrange_count    C01 C14 C16
  hostrange_empty (hostlist.c)            Hostlist.HRange.empty                 hostrange_empty    C16
  hostrange_prefix_cmp (hostlist.c)       Hostlist.prefixCmp                    hostrange_prefix_cmp  C01 C14 C16
  hostrange_within_range (hostlist.c)     Hostlist.Print.withinRange            hostrange_within_range  C14
  hostrange_width_combine (hostlist.c)    Hostlist.widthCombine                 hostrange_width_combine  C01 C14 C16
  hostrange_cmp (hostlist.c)              Hostlist.hostrangeCmp                 hostrange_cmp      C16
  hostrange_join (hostlist.c)             Hostlist.hostrangeJoin                hostrange_join     C16
  cbuf_shrink (cbuf.c)                    (no-op premise of Cbuf.dropper)       cbuf_shrink        C13 C05
  cbuf_dropper (cbuf.c)                   Cbuf.dropper                          cbuf_dropper       C13 C05
  cbuf_find_unread_line (cbuf.c)          Cbuf.findUnreadLine                   cbuf_find_unread_line  C13 C05 C06
  _thd_connect_timeout (dsh.c)            Dsh.Timed.killed, connecting part     thd_connect_timeout  C07
  _thd_command_timeout (dsh.c)            Dsh.Timed.killed, reading part        thd_command_timeout, wdog_decision  C07
  _dir_permission_error (mod.c)           Mod.dirOk                             dir_permission_error  C17
  find_host (rcmd.c)                      predicate of Opt.Rcmd.lookup          find_host, registry_lookup  C09
  find_rcmd_module (rcmd.c)               membership in Cfg.loaded              find_rcmd_module   C09

  Not proved here: anything about functions outside the translator's subset (tools/c2lean.md lists the
  ones tried); that clang's AST, the translator and the libc models of C2Lean/Prelude.lean are right
  (trusted); that callers respect the stated argument ranges (each theorem lists them as hypotheses).
-/
import PdshVerif.Bridge.Hostlist
import PdshVerif.Bridge.Cbuf
import PdshVerif.Bridge.Dsh
import PdshVerif.Bridge.Mod
import PdshVerif.Bridge.Rcmd

namespace PdshVerif.Props.Bridge
open PdshVerif

/-! ### hostlist.c -/
section hostlist
open PdshVerif.Hostlist PdshVerif.Gen.Fn.Hostlist PdshVerif.Bridge.Hostlist

theorem zero_padded (fuel num w : Nat) (hf : 20 ≤ fuel) (hn : num < U64) (hw : w ≤ 2147483647) :
    _zero_padded fuel num (w : Int) = some ((zeroPadded num w : Nat) : Int) :=
  zero_padded_bridge fuel num w hf hn hw

theorem width_equiv (fuel n wn m wm : Nat) (hf : 20 ≤ fuel) (hn : n < U64) (hm : m < U64)
    (hwn : wn ≤ 2147483647) (hwm : wm ≤ 2147483647) :
    _width_equiv fuel n (wn : Int) m (wm : Int) =
      some (if (widthEquiv n wn m wm).1 then 1 else 0,
            ((widthEquiv n wn m wm).2.1 : Int), ((widthEquiv n wn m wm).2.2 : Int)) :=
  width_equiv_bridge fuel n wn m wm hf hn hm hwn hwm

theorem host_prefix_end (fuel : Nat) (s : Str) (hb : ∀ c ∈ s, c.toNat < 256) (hl : s.length < 2147483647)
    (hf : s.length < fuel) :
    Gen.Fn.Hostlist.host_prefix_end fuel s = some ((hostPrefixLen s : Int) - 1) :=
  host_prefix_end_bridge fuel s hb hl hf

theorem hostrange_count (r : HRange) (h : InC r) :
    Gen.Fn.Hostlist.hostrange_count (toC r) = some r.count :=
  hostrange_count_bridge r h

theorem hostrange_empty (r : HRange) :
    Gen.Fn.Hostlist.hostrange_empty (toC r) = some (if r.empty then 1 else 0) :=
  hostrange_empty_bridge r

theorem hostrange_prefix_cmp (a b : HRange) (ha : InC a) (hb : InC b) :
    Gen.Fn.Hostlist.hostrange_prefix_cmp (toC a) (toC b) = some (prefixCmp a b) :=
  hostrange_prefix_cmp_bridge a b ha hb

theorem hostrange_within_range (a b : HRange) (ha : InC a) (hb : InC b) :
    Gen.Fn.Hostlist.hostrange_within_range (toC a) (toC b) = some (if Print.withinRange a b then 1 else 0) :=
  hostrange_within_range_bridge a b ha hb

theorem hostrange_width_combine (fuel : Nat) (h0 h1 : HRange) (hf : 20 ≤ fuel) (i0 : InC h0) (i1 : InC h1) :
    Gen.Fn.Hostlist.hostrange_width_combine fuel (toC h0) (toC h1) =
      some (if (widthCombine h0 h1).1 then 1 else 0, toC (combined h0 h1).1, toC (combined h0 h1).2) :=
  hostrange_width_combine_bridge fuel h0 h1 hf i0 i1

theorem hostrange_cmp (cfg : Cfg) (fuel : Nat) (a b : HRange)
    (hcfg : cfg.fixCmpTrunc = PdshVerif.Gen.FIX_D26_CMPTRUNC) (hf : 20 ≤ fuel) (ia : InC a) (ib : InC b) :
    Gen.Fn.Hostlist.hostrange_cmp fuel (toC a) (toC b) =
      some (hostrangeCmp cfg a b,
            if prefixCmp a b = 0 then toC (combined a b).1 else toC a,
            if prefixCmp a b = 0 then toC (combined a b).2 else toC b) :=
  hostrange_cmp_bridge cfg fuel a b hcfg hf ia ib

theorem hostrange_join (fuel : Nat) (a b : HRange) (hf : 20 ≤ fuel) (ia : InC a) (ib : InC b) :
    Gen.Fn.Hostlist.hostrange_join fuel (toC a) (toC b) =
      some ((hostrangeJoin a b).1.getD (-1), toC (hostrangeJoin a b).2.1, toC (hostrangeJoin a b).2.2) :=
  hostrange_join_bridge fuel a b hf ia ib

/-- non-vacuity: a record inside the C ranges -/
example : InC (HRange.mk' "node".toList 1 12 2) :=
  ⟨by decide, by decide, by decide, by decide⟩

end hostlist

/-! ### cbuf.c -/
section cbuf
open PdshVerif.Cbuf PdshVerif.Gen.Fn.Cbuf PdshVerif.Bridge.Cbuf

theorem cbuf_shrink (c : Cbuf) (h : InC c) : Gen.Fn.Cbuf.cbuf_shrink (toC c) = some 0 :=
  cbuf_shrink_bridge c h

theorem cbuf_dropper (c : Cbuf) (len : Nat) (h : InC c) (hl : len ≤ c.used) :
    Gen.Fn.Cbuf.cbuf_dropper (toC c) (len : Int) = some ((len : Int), toC (dropper c len)) :=
  cbuf_dropper_bridge c len h hl

theorem cbuf_find_unread_line (c : Cbuf) (hi : Inv c) (h : InC c) (fuel : Nat) (chars lines : Int)
    (hc : IsInt chars) (hl : IsInt lines) (hf : c.size + 2 ≤ fuel) :
    Gen.Fn.Cbuf.cbuf_find_unread_line fuel (toC c) chars lines =
      some (((findUnreadLine c chars lines).1 : Int), ((findUnreadLine c chars lines).2 : Int)) :=
  cbuf_find_unread_line_bridge c hi h fuel chars lines hc hl hf

end cbuf

/-! ### dsh.c -/
section dsh
open PdshVerif.Dsh.Timed PdshVerif.Gen.Fn.Dsh PdshVerif.Bridge.Dsh

theorem thd_connect_timeout (ct now : Nat) (h : Host) (hct : ct ≤ 2147483647) (hs : h.start < 2 ^ 62) :
    _thd_connect_timeout (ct : Int) (now : Int) (toC h) = some (if 0 < ct ∧ h.start + ct < now then 1 else 0) :=
  thd_connect_timeout_bridge ct now h hct hs

theorem thd_command_timeout (ut now : Nat) (h : Host) (hut : ut ≤ 2147483647) (hs : h.conn < 2 ^ 62) :
    _thd_command_timeout (ut : Int) (now : Int) (toC h) = some (if 0 < ut ∧ h.conn + ut < now then 1 else 0) :=
  thd_command_timeout_bridge ut now h hut hs

/-- the watchdog decision of the C07 model, written with the two translated functions -/
theorem wdog_decision (c : Cfg) (now : Nat) (h : Host) (hct : c.ct ≤ 2147483647) (hut : c.ut ≤ 2147483647)
    (hs : h.start < 2 ^ 62) (hc : h.conn < 2 ^ 62) :
    killed c now h =
      ((h.ph == .connecting && (_thd_connect_timeout (c.ct : Int) (now : Int) (toC h) != some 0)) ||
       (h.ph == .reading && (_thd_command_timeout (c.ut : Int) (now : Int) (toC h) != some 0))) :=
  killed_bridge c now h hct hut hs hc

end dsh

/-! ### mod.c -/
section modc
open PdshVerif.Mod PdshVerif.Gen.Fn.Mod PdshVerif.Bridge.Mod

theorem dir_permission_error (uid owner : Nat) (st : FStat) :
    (_dir_permission_error uid (toC st) owner = some 0) ↔ dirOk uid owner st = true :=
  dir_permission_error_bridge uid owner st

theorem dir_permission_error_defined (uid owner : Nat) (st : FStat) :
    ∃ r, _dir_permission_error uid (toC st) owner = some r ∧ r ≤ 3 :=
  dir_permission_error_total uid owner st

end modc

/-! ### rcmd.c -/
section rcmd
open PdshVerif.Opt.Rcmd PdshVerif.Gen.Fn.Rcmd PdshVerif.Bridge.Rcmd

theorem find_host (e : Entry) (h : Str) (he : Bytes e.host) (hh : Bytes h) :
    Gen.Fn.Rcmd.find_host { hostname := e.host } h = some (if e.host = h then 1 else 0) :=
  find_host_bridge e h he hh

theorem registry_lookup (reg : List Entry) (h : Str) (hr : ∀ e ∈ reg, Bytes e.host) (hh : Bytes h) :
    lookup reg h = reg.find? (fun e => Gen.Fn.Rcmd.find_host { hostname := e.host } h != some 0) :=
  lookup_bridge reg h hr hh

theorem find_rcmd_module (m t : Str) (hm : Bytes m) (ht : Bytes t) :
    Gen.Fn.Rcmd.find_rcmd_module { name := m } t = some (if m = t then 1 else 0) :=
  find_rcmd_module_bridge m t hm ht

theorem loaded_contains (loaded : List Str) (t : Str) (hl : ∀ m ∈ loaded, Bytes m) (ht : Bytes t) :
    loaded.contains t = loaded.any (fun m => Gen.Fn.Rcmd.find_rcmd_module { name := m } t != some 0) :=
  loaded_contains_bridge loaded t hl ht

end rcmd

end PdshVerif.Props.Bridge
