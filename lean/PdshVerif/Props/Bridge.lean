/-
  BRIDGE THEOREMS — "the hand-written model mirrors the code", checked by the kernel against the CURRENT
  source on every run.

  tools/c2lean.py translates the small pure C functions listed in tools/c2lean_targets.json from the tree
  under check into `PdshVerif.Gen.Fn.<Unit>` (regenerated on every run; `none` = undefined behaviour or
  fuel exhausted, see tools/c2lean.md).  Each theorem below says, for ALL arguments inside the C ranges,
  that the translated function computes what the hand-written model definition computes.  When a
  maintainer changes the behaviour of one of these functions the regenerated definition changes and the
  theorem no longer builds: P-BROKEN for every property whose model uses that definition.

  C function (file)                       model definition                      theorem            properties
  --------------------------------------  ------------------------------------  -----------------  -----------
  _zero_padded (hostlist.c)               Hostlist.zeroPadded                   zero_padded        C01 C14 C16
  _width_equiv (hostlist.c)               Hostlist.widthEquiv                   width_equiv        C01 C14 C16
  host_prefix_end (hostlist.c)            Hostlist.hostPrefixLen                host_prefix_end    C01 C16
  hostrange_count (hostlist.c)            Hostlist.HRange.count                 hostrange_count    C01 C14 C16
  hostrange_empty (hostlist.c)            Hostlist.HRange.empty                 hostrange_empty    C16
  hostrange_prefix_cmp (hostlist.c)       Hostlist.prefixCmp                    hostrange_prefix_cmp  C01 C14 C16
  hostrange_within_range (hostlist.c)     Hostlist.Print.withinRange            hostrange_within_range  C14
  hostrange_width_combine (hostlist.c)    Hostlist.widthCombine                 hostrange_width_combine  C01 C14 C16
  hostrange_cmp (hostlist.c)              Hostlist.hostrangeCmp                 hostrange_cmp      C16
  hostrange_join (hostlist.c)             Hostlist.hostrangeJoin                hostrange_join     C16
  cbuf_shrink (cbuf.c)                    (no-op premise of Cbuf.dropper)       cbuf_shrink        C13 C05
  cbuf_dropper (cbuf.c)                   Cbuf.dropper                          cbuf_dropper       C13 C05
  cbuf_find_unread_line (cbuf.c)          Cbuf.findUnreadLine                   cbuf_find_unread_line  C13 C05 C06
  _thd_connect_timeout (dsh.c)            Dsh.Timed.killed, connecting part     thd_connect_timeout  C07
  _thd_command_timeout (dsh.c)            Dsh.Timed.killed, reading part        thd_command_timeout, wdog_decision  C07
  _dir_permission_error (mod.c)           Mod.dirOk                             dir_permission_error  C17
  find_host (rcmd.c)                      predicate of Opt.Rcmd.lookup          find_host, registry_lookup  C09
  find_rcmd_module (rcmd.c)               membership in Cfg.loaded              find_rcmd_module   C09
  -- round 2b: fragments (the `if` condition / statement / loop body found by a regex inside a large function),
  --           `switch`, recorded effects, `strtol` + `errno`
  switch of _wdog (dsh.c)                 per-slot decision; Dsh.Timed.killed   wdog_slot, killed_is_wdog_slot  C07
  test of _fwd_signal (dsh.c)             Sig.sStep .fwd (READING only)         fwd_signal_slot    C08
  body of _cancel_pending_threads (dsh.c) Sig.cancelT / isPending               cancel_pending_slot  C08
  switch of _list_slowthreads (dsh.c)     Sig.isListed                          list_slowthreads_slot  C08
  _handle_sigint (dsh.c)                  Sig.sStep (.sigwait .int / .time)     handle_sigint      C08
  _handle_sigtstp (dsh.c)                 Sig.sStep (.time at .tstpT)           handle_sigtstp     C08
  -S loop body of dsh() (dsh.c)           Exit.aggLoop / aggregate              exit_agg_step, exit_aggregate  C11
  3 file tests of _mod_load_dynamic_modules (mod.c)  Mod.fileOk                 mod_file_isreg, mod_file_owner, mod_file_mode, file_ok  C17
  2 tests of _parse_single_range (hostlist.c)  Hostlist.rangeCheck              parse_range_order, parse_range_toobig  C01 C15
  last test of hostrange_hn_within (hostlist.c)  Hostlist.hnMatch               hn_within_final    C16
  string_to_int (opt.c)                   Opt.stringToInt (repaired, D5)        string_to_int      C18 C19
  "piece ends the line" (wcoll.c)         Opt.Wcoll.chunksGo's newline rule     piece_continues    C10
  name test of _sink (pcp_server.c)       Pcp.narrowNameOk                      sink_name_bad      C12
  mode digit / read result of _sink       (octal digit; EOF or error)           sink_mode_digit_bad, sink_read_failed  C12

  Translated but NOT yet bridged: pipecmd_format_arg (pipecmd.c) vs Exec.fmtLoop (Bridge/Pipecmd.lean says what
  is missing).

  Not proved here: anything about functions outside the translator's subset (tools/c2lean.md lists the
  ones tried); that clang's AST, the translator and the libc models of C2Lean/Prelude.lean are right
  (trusted); that callers respect the stated argument ranges (each theorem lists them as hypotheses).
-/
import PdshVerif.Bridge.Hostlist
import PdshVerif.Bridge.Cbuf
import PdshVerif.Bridge.Dsh
import PdshVerif.Bridge.DshSignals
import PdshVerif.Bridge.DshSignals2
import PdshVerif.Bridge.DshExit
import PdshVerif.Bridge.PcpServerName
import PdshVerif.Bridge.Pipecmd
import PdshVerif.Bridge.Mod
import PdshVerif.Bridge.Rcmd
import PdshVerif.Bridge.Opt
import PdshVerif.Bridge.Wcoll
import PdshVerif.Bridge.PcpServer

namespace PdshVerif.Props.Bridge
open PdshVerif

/-! ### hostlist.c -/
section hostlist
open PdshVerif.Hostlist PdshVerif.Gen.Fn.Hostlist PdshVerif.Bridge.Hostlist

theorem zero_padded (fuel num w : Nat) (hf : 20 ≤ fuel) (hn : num < U64) (hw : w ≤ 2147483647) :
    _zero_padded fuel num (w : Int) = some ((zeroPadded num w : Nat) : Int) :=
  zero_padded_bridge fuel num w hf hn hw

theorem width_equiv (fuel n wn m wm : Nat) (hf : 20 ≤ fuel) (hn : n < U64) (hm : m < U64)
    (hwn : wn ≤ 2147483647) (hwm : wm ≤ 2147483647) :
    _width_equiv fuel n (wn : Int) m (wm : Int) =
      some (if (widthEquiv n wn m wm).1 then 1 else 0,
            ((widthEquiv n wn m wm).2.1 : Int), ((widthEquiv n wn m wm).2.2 : Int)) :=
  width_equiv_bridge fuel n wn m wm hf hn hm hwn hwm

theorem host_prefix_end (fuel : Nat) (s : Str) (hb : ∀ c ∈ s, c.toNat < 256) (hl : s.length < 2147483647)
    (hf : s.length < fuel) :
    Gen.Fn.Hostlist.host_prefix_end fuel s = some ((hostPrefixLen s : Int) - 1) :=
  host_prefix_end_bridge fuel s hb hl hf

theorem hostrange_count (r : HRange) (h : InC r) :
    Gen.Fn.Hostlist.hostrange_count (toC r) = some r.count :=
  hostrange_count_bridge r h

theorem hostrange_empty (r : HRange) :
    Gen.Fn.Hostlist.hostrange_empty (toC r) = some (if r.empty then 1 else 0) :=
  hostrange_empty_bridge r

theorem hostrange_prefix_cmp (a b : HRange) (ha : InC a) (hb : InC b) :
    Gen.Fn.Hostlist.hostrange_prefix_cmp (toC a) (toC b) = some (prefixCmp a b) :=
  hostrange_prefix_cmp_bridge a b ha hb

theorem hostrange_within_range (a b : HRange) (ha : InC a) (hb : InC b) :
    Gen.Fn.Hostlist.hostrange_within_range (toC a) (toC b) = some (if Print.withinRange a b then 1 else 0) :=
  hostrange_within_range_bridge a b ha hb

theorem hostrange_width_combine (fuel : Nat) (h0 h1 : HRange) (hf : 20 ≤ fuel) (i0 : InC h0) (i1 : InC h1) :
    Gen.Fn.Hostlist.hostrange_width_combine fuel (toC h0) (toC h1) =
      some (if (widthCombine h0 h1).1 then 1 else 0, toC (combined h0 h1).1, toC (combined h0 h1).2) :=
  hostrange_width_combine_bridge fuel h0 h1 hf i0 i1

theorem hostrange_cmp (cfg : Cfg) (fuel : Nat) (a b : HRange)
    (hcfg : cfg.fixCmpTrunc = PdshVerif.Gen.FIX_D26_CMPTRUNC) (hf : 20 ≤ fuel) (ia : InC a) (ib : InC b) :
    Gen.Fn.Hostlist.hostrange_cmp fuel (toC a) (toC b) =
      some (hostrangeCmp cfg a b,
            if prefixCmp a b = 0 then toC (combined a b).1 else toC a,
            if prefixCmp a b = 0 then toC (combined a b).2 else toC b) :=
  hostrange_cmp_bridge cfg fuel a b hcfg hf ia ib

theorem hostrange_join (fuel : Nat) (a b : HRange) (hf : 20 ≤ fuel) (ia : InC a) (ib : InC b) :
    Gen.Fn.Hostlist.hostrange_join fuel (toC a) (toC b) =
      some ((hostrangeJoin a b).1.getD (-1), toC (hostrangeJoin a b).2.1, toC (hostrangeJoin a b).2.2) :=
  hostrange_join_bridge fuel a b hf ia ib

/-- non-vacuity: a record inside the C ranges -/
example : InC (HRange.mk' "node".toList 1 12 2) :=
  ⟨by decide, by decide, by decide, by decide⟩

end hostlist

/-! ### cbuf.c -/
section cbuf
open PdshVerif.Cbuf PdshVerif.Gen.Fn.Cbuf PdshVerif.Bridge.Cbuf

theorem cbuf_shrink (c : Cbuf) (h : InC c) : Gen.Fn.Cbuf.cbuf_shrink (toC c) = some 0 :=
  cbuf_shrink_bridge c h

theorem cbuf_dropper (c : Cbuf) (len : Nat) (h : InC c) (hl : len ≤ c.used) :
    Gen.Fn.Cbuf.cbuf_dropper (toC c) (len : Int) = some ((len : Int), toC (dropper c len)) :=
  cbuf_dropper_bridge c len h hl

theorem cbuf_find_unread_line (c : Cbuf) (hi : Inv c) (h : InC c) (fuel : Nat) (chars lines : Int)
    (hc : IsInt chars) (hl : IsInt lines) (hf : c.size + 2 ≤ fuel) :
    Gen.Fn.Cbuf.cbuf_find_unread_line fuel (toC c) chars lines =
      some (((findUnreadLine c chars lines).1 : Int), ((findUnreadLine c chars lines).2 : Int)) :=
  cbuf_find_unread_line_bridge c hi h fuel chars lines hc hl hf

end cbuf

/-! ### dsh.c -/
section dsh
open PdshVerif.Dsh.Timed PdshVerif.Gen.Fn.Dsh PdshVerif.Bridge.Dsh

theorem thd_connect_timeout (ct now : Nat) (h : Host) (hct : ct ≤ 2147483647) (hs : h.start < 2 ^ 62) :
    _thd_connect_timeout (ct : Int) (now : Int) (toC h) = some (if 0 < ct ∧ h.start + ct < now then 1 else 0) :=
  thd_connect_timeout_bridge ct now h hct hs

theorem thd_command_timeout (ut now : Nat) (h : Host) (hut : ut ≤ 2147483647) (hs : h.conn < 2 ^ 62) :
    _thd_command_timeout (ut : Int) (now : Int) (toC h) = some (if 0 < ut ∧ h.conn + ut < now then 1 else 0) :=
  thd_command_timeout_bridge ut now h hut hs

/-- the watchdog decision of the C07 model, written with the two translated functions -/
theorem wdog_decision (c : Cfg) (now : Nat) (h : Host) (hct : c.ct ≤ 2147483647) (hut : c.ut ≤ 2147483647)
    (hs : h.start < 2 ^ 62) (hc : h.conn < 2 ^ 62) :
    killed c now h =
      ((h.ph == .connecting && (_thd_connect_timeout (c.ct : Int) (now : Int) (toC h) != some 0)) ||
       (h.ph == .reading && (_thd_command_timeout (c.ut : Int) (now : Int) (toC h) != some 0))) :=
  killed_bridge c now h hct hut hs hc

end dsh

/-! ### mod.c -/
section modc
open PdshVerif.Mod PdshVerif.Gen.Fn.Mod PdshVerif.Bridge.Mod

theorem dir_permission_error (uid owner : Nat) (st : FStat) :
    (_dir_permission_error uid (toC st) owner = some 0) ↔ dirOk uid owner st = true :=
  dir_permission_error_bridge uid owner st

theorem dir_permission_error_defined (uid owner : Nat) (st : FStat) :
    ∃ r, _dir_permission_error uid (toC st) owner = some r ∧ r ≤ 3 :=
  dir_permission_error_total uid owner st

end modc

/-! ### rcmd.c -/
section rcmd
open PdshVerif.Opt.Rcmd PdshVerif.Gen.Fn.Rcmd PdshVerif.Bridge.Rcmd

theorem find_host (e : Entry) (h : Str) (he : Bytes e.host) (hh : Bytes h) :
    Gen.Fn.Rcmd.find_host { hostname := e.host } h = some (if e.host = h then 1 else 0) :=
  find_host_bridge e h he hh

theorem registry_lookup (reg : List Entry) (h : Str) (hr : ∀ e ∈ reg, Bytes e.host) (hh : Bytes h) :
    lookup reg h = reg.find? (fun e => Gen.Fn.Rcmd.find_host { hostname := e.host } h != some 0) :=
  lookup_bridge reg h hr hh

theorem find_rcmd_module (m t : Str) (hm : Bytes m) (ht : Bytes t) :
    Gen.Fn.Rcmd.find_rcmd_module { name := m } t = some (if m = t then 1 else 0) :=
  find_rcmd_module_bridge m t hm ht

theorem loaded_contains (loaded : List Str) (t : Str) (hl : ∀ m ∈ loaded, Bytes m) (ht : Bytes t) :
    loaded.contains t = loaded.any (fun m => Gen.Fn.Rcmd.find_rcmd_module { name := m } t != some 0) :=
  loaded_contains_bridge loaded t hl ht

end rcmd

/-! ### round 2b: fragments of large functions, `switch`, recorded effects, `strtol` + `errno` -/

section dsh2
open PdshVerif.Dsh.Timed PdshVerif.Gen.Fn.Dsh PdshVerif.Bridge.Dsh PdshVerif.Bridge.DshSignals PdshVerif.Bridge.DshSignals2 PdshVerif.Bridge.DshExit

theorem wdog_slot (c : Cfg) (now tid : Nat) (h : Host) (hct : c.ct ≤ 2147483647) (hut : c.ut ≤ 2147483647)
    (hs : h.start < 2 ^ 62) (hc : h.conn < 2 ^ 62) :
    Gen.Fn.Dsh.wdog_slot (c.ct : Int) (c.ut : Int) (now : Int) (toCS h tid) =
      some (if signalled c now h then [⟨"pthread_kill", [.int (tid : Int), .int 14]⟩] else []) :=
  wdog_slot_bridge c now tid h hct hut hs hc

theorem killed_is_wdog_slot (c : Cfg) (now : Nat) (h : Host) :
    killed c now h = (h.ph != .rcmd && signalled c now h) :=
  killed_wdog_slot c now h

open PdshVerif.Dsh.Sig in
theorem fwd_signal_slot (t : TS) : Gen.Fn.Dsh.fwd_signal_slot (slotOf t) = some (decide (t = .reading)) :=
  fwd_signal_slot_bridge t

open PdshVerif.Dsh.Sig in
theorem cancel_pending_slot (t : TS) (n : Nat) (hn : n < 2147483647) :
    Gen.Fn.Dsh.cancel_pending_slot (slotOf t) (n : Int) =
      some (slotOf (cancelT t), ((n + (if isPending t then 1 else 0) : Nat) : Int)) :=
  cancel_pending_slot_bridge t n hn

open PdshVerif.Dsh.Sig in
theorem list_slowthreads_slot (t : TS) (ct ut now now2 : Nat) (start conn ttl : Int)
    (hct : ct ≤ 2147483647) (hut : ut ≤ 2147483647) (hn : now < 2 ^ 62) (hn2 : now2 < 2 ^ 62)
    (hs : -(2 ^ 62) < start ∧ start < 2 ^ 62) (hc : -(2 ^ 62) < conn ∧ conn < 2 ^ 62) :
    ∃ ttl' ev, Gen.Fn.Dsh.list_slowthreads_slot (ut : Int) 0 (ct : Int) (now : Int) (now2 : Int)
        { slotOf t with start := start, connect := conn } ttl = some (ttl', ev) ∧
      (ev ≠ [] ↔ isListed t = true) :=
  list_slowthreads_slot_bridge t ct ut now now2 start conn ttl hct hut hn hn2 hs hc

open PdshVerif.Dsh.Sig in
theorem handle_sigint (batch : Bool) (now now2 last : Nat) (h1 : now < 2 ^ 62) (h2 : last < 2 ^ 62) :
    ∃ last' ev, Gen.Fn.Dsh._handle_sigint (if batch then 1 else 0) false (now : Int) (now2 : Int) (last : Int) = some (last', ev) ∧
      (last', names ev) =
        (if batch then ((last : Int), ["_fwd_signal", "errx"])
         else if now - last > INTR then ((now2 : Int), ["err", "err", "_list_slowthreads"])
         else ((last : Int), ["_fwd_signal", "errx"])) :=
  handle_sigint_bridge batch now now2 last h1 h2

open PdshVerif.Dsh.Sig in
theorem handle_sigtstp (now last : Nat) (h1 : now < 2 ^ 62) (h2 : last < 2 ^ 62) :
    ∃ ev, Gen.Fn.Dsh._handle_sigtstp false (now : Int) (last : Int) = some ev ∧
      names ev = (if now - last > INTR then ["raise"] else ["_cancel_pending_threads"]) :=
  handle_sigtstp_bridge now last h1 h2

open PdshVerif.Dsh.Exit in
theorem exit_agg_step (fx : Fixes) (hd8 : fx.d8 = true) (hc : fx.canc = true) (rc : Int) (h : PdshVerif.Dsh.Exit.Host) :
    Gen.Fn.Dsh.exit_agg_step (exitSlot h) rc = some (aggStep fx rc h) :=
  exit_agg_step_bridge fx hd8 hc rc h

open PdshVerif.Dsh.Exit in
theorem exit_aggregate (fx : Fixes) (hd8 : fx.d8 = true) (hc : fx.canc = true) (hs : List PdshVerif.Dsh.Exit.Host) :
    aggregate fx hs = hs.foldl (fun rc h => (Gen.Fn.Dsh.exit_agg_step (exitSlot h) rc).getD rc) 0 :=
  exit_aggregate_bridge fx hd8 hc hs

end dsh2

section mod2
open PdshVerif.Mod PdshVerif.Gen.Fn.Mod PdshVerif.Bridge.Mod

theorem mod_file_isreg (st : FStat) : Gen.Fn.Mod.mod_file_isreg (toC st) = some (!isReg st.mode) :=
  mod_file_isreg_bridge st

theorem mod_file_owner (uid owner : Nat) (st : FStat) :
    Gen.Fn.Mod.mod_file_owner uid (toC st) owner = some (!ownerOk uid owner st) :=
  mod_file_owner_bridge uid owner st

theorem mod_file_mode (st : FStat) : Gen.Fn.Mod.mod_file_mode (toC st) = some (st.mode &&& S_IWOTH != 0) :=
  mod_file_mode_bridge st

theorem file_ok (uid owner : Nat) (st : FStat) :
    fileOk uid owner st = true ↔
      (Gen.Fn.Mod.mod_file_isreg (toC st) = some false ∧ Gen.Fn.Mod.mod_file_owner uid (toC st) owner = some false ∧
       Gen.Fn.Mod.mod_file_mode (toC st) = some false) :=
  file_ok_bridge uid owner st

end mod2

section hostlist2
open PdshVerif.Hostlist PdshVerif.Gen.Fn.Hostlist PdshVerif.Bridge.Hostlist

theorem parse_range_order (lo hi : Nat) : Gen.Fn.Hostlist.parse_range_order (rangeC lo hi) = some (decide (lo > hi)) :=
  parse_range_order_bridge lo hi

theorem parse_range_toobig (cfg : Cfg) (hcfg : cfg.fixUlongMax = PdshVerif.Gen.FIX_D15_ULONGMAX)
    (lo hi : Nat) (hle : lo ≤ hi) (hhi : hi < U64) :
    Gen.Fn.Hostlist.parse_range_toobig (rangeC lo hi) = some (rangeTooBig lo hi || ulongMaxRejected cfg hi) :=
  parse_range_toobig_bridge cfg hcfg lo hi hle hhi

theorem hn_within_final (r : HRange) (hn : Hostname) (hr : InC r) (hb : ∀ c ∈ hn.pre, c.toNat < 256) :
    Gen.Fn.Hostlist.hn_within_final (r.pre.length : Int) (hn.pre.length : Int) (hnC hn) (toC r) = some (hnMatch r hn) :=
  hn_within_final_bridge r hn hr hb

end hostlist2

section opt
open PdshVerif.Bridge.Opt

theorem string_to_int (fx : PdshVerif.Opt.Fixes) (h5 : fx.d5 = true) (e0 : Int) (s : List Char)
    (hb : ∀ c ∈ s, c.toNat % 256 ≠ 0) (p2 : Int) :
    ∃ e', Gen.Fn.Opt.string_to_int e0 s p2 =
      some (match PdshVerif.Opt.stringToInt fx s with | none => ((-1 : Int), p2, e') | some v => ((0 : Int), v, e')) :=
  string_to_int_bridge fx h5 e0 s hb p2

end opt

section wcoll
open PdshVerif.Bridge.Wcoll

theorem piece_continues (buf : List Char) (hb : ∀ c ∈ buf, c.toNat < 256) :
    Gen.Fn.Wcoll.piece_continues buf = some (!buf.contains '\n') :=
  piece_continues_bridge buf hb

end wcoll

section pcp
open PdshVerif.Pcp PdshVerif.Bridge.PcpServer

theorem sink_name_bad (n : List UInt8) : Gen.Fn.PcpServer.sink_name_bad (cstr n) = some (!narrowNameOk n) :=
  sink_name_bad_bridge n

theorem sink_mode_digit_bad (s : List UInt8) :
    Gen.Fn.PcpServer.sink_mode_digit_bad (cstr s) =
      some (match s.head? with | some b => decide (b.toNat < 48 ∨ b.toNat > 55) | none => true) :=
  sink_mode_digit_bad_bridge s

theorem sink_read_failed (j : Int) : Gen.Fn.PcpServer.sink_read_failed j = some (decide (j ≤ 0)) :=
  sink_read_failed_bridge j

end pcp

end PdshVerif.Props.Bridge
