import PdshVerif.Dsh.SignalsLive
import PdshVerif.Dsh.SignalsBatch
import PdshVerif.Dsh.SignalsSingle
import PdshVerif.Dsh.SignalsCancel
import PdshVerif.Dsh.SignalsGuarded
import PdshVerif.Dsh.SignalsFan
import PdshVerif.Dsh.SignalsRank
import PdshVerif.Dsh.SignalsBound
import PdshVerif.Dsh.SignalsOnce
import PdshVerif.Dsh.SignalsList
import PdshVerif.Dsh.SignalsOrder
import PdshVerif.Dsh.SignalsExit
import PdshVerif.Dsh.SignalsOutput
import PdshVerif.Dsh.SignalsMask
import PdshVerif.Dsh.SignalsClock
import PdshVerif.Props.C03
import PdshVerif.Props.C04

/-!
# C20 — interrupts: batch ^C stops everything, interactive ^C only reports

Model: the labelled transition system `Dsh/Signals.lean` = the fan-out protocol of `dsh()` (dispatcher `D`,
workers `W i`, POSIX mutex/condvar semantics incl. spurious wake-ups, both wait constructs) extended by the
signals thread `S` (`_signals_thread` → `_handle_sigint`/`_handle_sigtstp` → `_fwd_signal`,
`_list_slowthreads`, `_cancel_pending_threads`), the environment (`deliver INT|TSTP`, clock `tick`),
`thd_mutex`, and `t[i].state` with every write under the mutex dsh.c takes for it.
`Exec (init v g sw f n b t0) ls s`: `ls` is an execution (any schedule, any arrival times of any number of signals,
any clock) from the initial state with wait construct `v`, shutdown form `sw` (false = the pinned source: the watchdog touches no protocol object and runs on; true =
the repair of F07-STALEID: the watchdog takes thd_mutex around each slot, and dsh() cancels and joins it before it
cancels the signals thread; `watchdog_stopped_first`), worker form `g` (false = the blind first state write
`a->state = DSH_RCMD` of the pinned source, true = the repaired, guarded one; probed by behaviour on every run of the
check), fanout `f`, `n` targets, batch flag `b`, clock `t0`.  Every theorem below holds for both `g` unless it names one.

What is proved (for every `v`, `f`, `n`, every schedule and arrival time unless said otherwise):

* `batch_int_enters_abort`, `batch_never_reports`, `batch_int_aborts`
      -b: a SIGINT taken by sigwait puts S on the abort path; S is never in the report branch; on the abort
      path S can only take thd_mutex, signal the READING hosts one by one in slot order, release the mutex
      having signalled *exactly* the READING hosts (`s.fwds = readingUpTo s.ts n`: all of them, only them, each
      once: `forwarded_*`), and call exit(1); each such operation decreases `arank ≤ 2n + 3` ("promptly");
* `double_int_aborts`
      not -b: an interrupt handled when `now − last_intr ≤ INTR_TIME` enters the same abort path; otherwise it
      enters the report branch, which sets `last_intr := now`;
* `decision_depends_on_difference_only`, `window_at_any_clock`, `c_subtraction_wide_enough`   (`Dsh/SignalsClock.lean`)
      the clock as an input: the step that takes the INTR_TIME decision (of ^C and of ^Z), records the instant of a
      report, or reads the clock while listing commutes with moving the clock and `last_intr` by the same amount `k`, for
      EVERY `k` (2^31, 2^32, 2^33 ...: the LTS keeps time in unbounded naturals); two states that agree except for their
      stamps and have the same difference `now − last_intr` take the same decision; the C expression
      `time(NULL) - last_intr > INTR_TIME` equals the model's test when evaluated in a signed type that holds both stamps
      (`time_t`, 64 bits here) and `last_intr ≤ now`; narrowing the difference to `w` bits is harmless only while the
      difference itself fits (`wrapTo_fits`), and the named witnesses show a 32-bit `int` failing at the instants 2^31,
      2^32, 2^33 for the FIRST interrupt (difference = the whole clock, `last_intr` = 0).  The real dsh.c is run at those
      clocks, with the one-second boundary straddling 2^31 and 2^32, by vlib/sigthread.py (AT_CLOCK).  `c_test_any_order`
      (Dsh/SignalsClock.lean): also with the clock set BACK between the two interrupts the signed C difference (negative)
      and the model's truncated difference (0) decide alike: abort / cancel (scenarios double-back5, cancel-back5).  Corner mirrored,
      not a defect of practical interest: `last_intr` starts at 0, so at clock 0 and 1 a first ^C is "within INTR_TIME";
* `erase_commutes`, `single_int_harmless`
      commutation of the S steps with all others on the observable projection: any run in which S never
      forwards, exits or cancels is, with the S steps and deliveries erased, again an execution (a signal-free
      run) ending in a state with the same worker program counters, `t[i].state`, threadcount, dispatcher state
      and exit status; and: not -b, clock past INTR_TIME, at most one signal delivered in the whole run and
      that a SIGINT ⇒ S never forwards, exits or cancels, for every schedule and arrival time;
* `listing_names_connecting_or_running`, `listing_printed_is_the_snapshot`, `both_listing_disciplines`
      what the ^C listing names: taking thd_mutex in `_list_slowthreads` records exactly the slots that are RCMD
      ("connecting") or READING ("command in progress") at that moment; each such host has a worker that has marked
      itself and not yet recorded the end of its command; every host whose command is running is named, and every host
      inside or around rcmd_connect unless ^Z canceled it; the recorded list is what is printed *whenever* it is printed:
      the LTS accepts "print with thd_mutex held" (dsh.c as pinned: `listing k` → … → `listing 0` → unlock), "copy, unlock,
      print" (harmless change C20-H2: unlock at `listing k` → `printing (k-1)` → …) and every mixture, and EVERY theorem
      of this file holds for all of them (they are proved of the one `step`); both pure disciplines are shown to be
      runs with the same final state;
* `lock_order`
      lock discipline over all four kinds of threads (dispatcher, workers, signals thread, watchdog) and both mutexes,
      for every schedule, arrival time and watchdog scan: no thread ever holds threadcount_mutex and thd_mutex together,
      the watchdog never holds threadcount_mutex, and whoever holds either mutex has an enabled operation of its own
      that acquires nothing — a holder never waits, so the wait-for graph has no cycle; in particular the signals
      thread and the watchdog cannot hold each other's mutex in reverse order;
* `normal_exit_records_whole`, `abort_tears_at_most_the_last_record`, `no_deadlock_with_stdio`, `product_projects`
      "never corrupts the output of hosts that complete": the product of the LTS with one output stream under what stdio
      guarantees — per-call atomicity (`Dsh/SignalsOutput.lean`: a call locks the FILE, copies its bytes, unlocks; one
      call = one record, as C06 `line_records_atomic` shows of dsh.c; a thread inside a call performs no protocol
      operation; exit() stops everything wherever the others are).  At a normal end no call is in progress and the stream
      is the concatenation of whole records; at ANY moment — so also when an abort calls exit() while workers are inside
      fputs — the stream is whole records followed by at most one incomplete record, which is the last thing in the
      stream, a prefix of what its owner was writing, and owned by the signals thread or by a worker that has not
      completed: the records of every host that completed are whole (that one record can be cut anywhere is witnessed by
      the example).  The FILE lock is a third mutex and a leaf: its holder — even the signals thread printing a listing
      with thd_mutex held, or the canceled count with threadcount_mutex held — never waits; the product never deadlocks;
* `canceled_run_S_nonzero`, `harmless_same_exit_status`   (composition with C08's model of the -S loop, `Dsh/Exit.lean`)
      a run in which ^C ^Z cancels a target that was not started and that goes on to its normal end exits non-zero under
      -S (repaired worker, repaired loop: the slot is still CANCELED when dsh() returns and the loop counts it); after a
      harmless interrupt the loop reads the same slots as after the signal-free run: same exit status.  With
      `exit_nonzero_on_abort` (= C08 `sigint_abort_nonzero`) every way a run with interrupts ends has its status;
* `tstp_window`, `tstp_cancels_only_pending`, `canceled_new_never_started`, `dispatcher_skips_canceled`
      ^Z within INTR_TIME of the last report cancels, else stops; the cancellation changes no worker's program
      counter, only NEW/RCMD slots (whose worker, by the invariant `TInv`, has not recorded a connection) and
      leaves READING/DONE/FAILED slots alone; a canceled slot without a thread never gets one (no worker
      operation for it ever happens, in any continuation); the dispatcher never creates a thread for a
      CANCELED slot (check and create under one mutex);
* `canceled_count_printed_is_the_snapshot`
      "Canceled n pending threads.": n is fixed when threadcount_mutex is taken and nothing else changes it; the LTS and
      the product with the output stream accept the message printed inside the critical section (dsh.c as pinned) and
      after the unlock (harmless change C20-H4); the correspondence compares the number when the handler is done;
* `canceled_created_slot_runs`  **witness of the defect F20-LOSTCANCEL** (decided on a concrete run, N = 1): a
      slot whose thread exists but has not yet written DSH_RCMD is canceled, counted, and then connected: the
      blind `a->state = DSH_RCMD` overwrites DSH_CANCELED.  With the blind worker (`g = false`) "a canceled host
      is never started" therefore holds for slots without a thread (`canceled_new_never_started`), not for all;
* `canceled_unmarked_never_connected`, `canceled_never_relays`, `tstp_cancels_for_good`  (repaired worker, `g = true`)
      full strength: a slot CANCELED while NEW — no thread yet, or a thread that has not marked itself — is never
      connected in any continuation and stays DSH_CANCELED (so -S and the summary count it); no canceled host,
      whether found NEW or RCMD, ever reaches the read loop (its output is never relayed).  (A host already
      marked RCMD is "still connecting": its rcmd_connect may begin and end after the cancel, then the
      connection is dropped.)
* `no_deadlock_with_signals`, `no_nested_locks`
      until dsh() has returned or exit() was called some thread of pdsh (not the environment, not a spurious
      wake-up) can take a step; no thread ever holds threadcount_mutex and thd_mutex together, so there is no
      lock order to violate;
* `rank_decreases_with_signals`, `steps_bounded_with_signals`
      termination: every step of a thread of pdsh other than a spurious wake-up decreases `trank`; a spurious
      wake-up adds at most 2, a delivery at most `2n + 8`, a clock tick nothing, the watchdog's return from sleep at
      most `2n`; an execution with `k` spurious wake-ups, `d` delivered signals and `w` watchdog wake-ups contains at
      most `27n + 19 + 2k + (2n + 8)d + 2n·w` steps of pdsh's threads.
      With `no_deadlock_with_signals`: every run with finitely many spurious wake-ups and signals that is continued
      as long as a thread of pdsh can move ends, and it ends with dsh() returned or exit(1) called;
* `cancel_requested_after_drain`, `signals_thread_ended_before_return`, `ended_thread_is_silent`,
  `progress_needs_only_sigwait`, `watchdog_stopped_first`, `thread_array_not_touched_after_free`
      the shutdown tail ("an interrupt during the final drain"): pthread_cancel(thread_sig) is a *request* (`St.scan`);
      the thread runs on and ends (`SAct.die`) at a cancellation point — the model lets that be any point of a handler,
      at the latest sigwait, so every C library is covered.  The request is made only when every worker is done and no
      slot is RCMD or READING (and, repaired shutdown, the watchdog is joined); with the repaired shutdown (`sw`, which
      now also stands for the join of the signals thread, the repair of F20-LATEINT) dsh() returns — and frees `t[]` —
      only after the thread has ended, and an ended thread takes no step; until then the handler that was running
      can take every one of its steps (or whoever holds the mutex it needs can move): progress never depends on a
      cancellation point other than sigwait.  A batch ^C taken just before the request still ends in exit(1)
      (example at the end);
* `set_up_run_is_a_run`, `inherited_state_makes_no_difference`, `signals_queued_while_dsh_runs`,
  `signal_outside_sigwait_only_when_idle`   (the set-up code as steps: `Dsh/SignalsMask.lean`)
      `_mask_signals (SIG_BLOCK)` / `(SIG_UNBLOCK)` are steps of a wrapper of the LTS whose parameter `Inh` is what pdsh
      inherits (SIGINT/SIGTSTP ignored or not, blocked or not: `pdsh … &` from a script, nohup-like wrappers, pdsh's own
      prompt mode), with the kernel's rule for a signal sent to the process (some thread has it unblocked: discarded if
      ignored, else default action — SIGINT ends pdsh, SIGTSTP stops it; otherwise queued *whatever its disposition* and
      taken by sigwait).  The dispatcher acts only between the two calls; a run of the wrapper is a run of the LTS (so
      every theorem here holds of it); every run of the LTS is, for EVERY inherited state, a run of the wrapper in which
      no signal was discarded or took its default action; a signal is acted on outside sigwait only before dsh() has
      blocked anything or after it has asked the signals thread to end — when no host is connecting or running;
* `exit_nonzero_on_abort`  whenever exit() was called its status is 1;
* `fanout_respected_always`, `once_only_always`
      C04 and C03 of *every* run of the signal-extended LTS, proved directly (no projection): with the `while` wait
      construct threadcount ≤ fanout and at most `fanout` workers hold a connection, whatever signals arrive and
      whatever ^Z cancels; every target is connected at most once;
* `projects_to_fan`, `fanout_respected_without_cancel`, `once_only_without_cancel`
      projection onto the Fan LTS of C03/C04: every run in which `_cancel_pending_threads` does not run (no
      signal at all, or interrupts that only report, or an abort) is, with thd_mutex, `t[i].state`, the signals
      thread and the environment forgotten, a run of `Dsh/Fan.lean` with stutter steps — so the C03/C04 theorems
      hold of it (two of them are restated here).

Not proved here: that dsh.c refines the LTS (trace correspondence of `checks/c20.py`: every event enabled, equal
threadcount / t[i].state / enabled sets, the hosts the listing names = `St.listed`; plus the real dsh.c on real threads
with real signals, `harness/sigthread_harness.c`, which is what decides WHICH signals `_mask_signals` blocks and the
sigwait set contains, under every inherited disposition/mask — the LTS sees only THAT dsh() calls pthread_sigmask, and where);
POSIX leaves open whether a blocked signal whose disposition is SIG_IGN is queued (Linux queues it: modelled); fairness of
the real scheduler (`no_deadlock_with_signals` says a step is *possible*); the content of relayed output (which bytes
a record consists of is C05/C06; here a record is an opaque call, and per-call atomicity of stdio is the modelled
guarantee, not something proved of libc; glibc's exit() flushing a FILE without taking its lock can, beyond the model,
also duplicate buffered bytes of a fully-buffered stdout — runtime behaviour, see the MANIFEST note); the deadlines of connect/command
time-outs (C07's Timed model is not composed: here a connect may fail and a read loop may be given up — `W.lockTF`, result
DSH_FAILED — at ANY moment, and the watchdog locks, signals and unlocks whenever the schedule lets it, which
over-approximates every deadline; all theorems above hold of that); -k, pthread_create/rcmd_create failure; plain-memory races below the granularity of
wrapped calls (`_cancel_pending_threads`' check-then-write vs. `_update_connect_state`); exit() racing with stdio locks.
-/
namespace PdshVerif.Props.C20
open PdshVerif.Dsh.Sig
open PdshVerif.Dsh.Fan (Variant DPC)

/-! ## abort: batch ^C, second ^C -/

/-- C20 (-b): sigwait of a SIGINT in batch mode leads straight to the abort path -/
theorem batch_int_enters_abort {v : Variant} {g sw : Bool} {f n t0 : Nat} {s s' : St} (h : Reach v g sw f n true t0 s)
    (hs : step s (.s (.sigwait .int)) = some s') : s'.spc = .abLock := by
  have hb : s.batch = true := (reach_params h).2.2.1
  have hd := step_s hs
  simp only [sStep] at hd
  split at hd <;> (try split at hd) <;> simp at hd
  subst hd; rfl

/-- C20 (-b): in batch mode the signals thread is never in the report-only branch -/
theorem batch_never_reports {v : Variant} {g sw : Bool} {f n t0 : Nat} {s : St} (h : Reach v g sw f n true t0 s) :
    s.spc.reports = false := by
  obtain ⟨ls, he⟩ := h
  have hb : s.batch = true := (exec_params he).2.2.1
  cases hr : s.spc.reports with
  | false => rfl
  | true =>
    have := reports_exec he (by simp [init, SPC.reports]) hr
    rw [hb] at this; cases this

/-- C20: the abort path.  From `abLock` (entered by a batch ^C or a second ^C) the only operations of the
    signals thread are: take thd_mutex; forward SIGINT to the next READING slot (in slot order); release
    thd_mutex — at that moment the forwarded hosts are exactly the READING hosts; exit(1).  Every such
    operation decreases `arank ≤ 2n + 3`, until exit.  (`a ≠ .die`: short of the thread ending on dsh()'s
    cancellation request, which is made only when no command is running any more: `cancel_requested_after_drain`.) -/
theorem batch_int_aborts {v : Variant} {g sw : Bool} {f n t0 : Nat} {b : Bool} {s s' : St} {a : SAct} (h : Reach v g sw f n b t0 s)
    (hs : step s (.s a) = some s') (hnd : a ≠ .die) :
    (s.spc = .abLock → a = .lockT ∧ s'.spc = .fwding 0 ∧ s'.thd = .s ∧ s'.fwds = s.fwds) ∧
    (∀ k, s.spc = .fwding k →
      (∃ j, a = .fwd j ∧ k ≤ j ∧ j < n ∧ tsAt s j = .reading ∧ s'.spc = .fwding (j + 1) ∧ s'.fwds = s.fwds ++ [j]) ∨
      (a = .unlockT ∧ s'.spc = .exiting ∧ s'.thd = .none ∧ s'.fwds = s.fwds ∧ s.fwds = readingUpTo s.ts n)) ∧
    (s.spc = .exiting → a = .exit 1 ∧ s'.exited = some 1) ∧
    (s.spc.aborting = true → (arank s' < arank s ∧ s'.spc.aborting = true) ∨ s'.exited = some 1) ∧
    arank s ≤ 2 * n + 3 := by
  have ha := ainv_reach h
  have hd := step_s hs
  have hn : s.ts.length = n := (reach_params h).2.2.2.2
  refine ⟨abort_lock hnd hd, fun k hk => ?_, abort_exit hnd hd, abort_rank ha hnd hd, ?_⟩
  · have := abort_fwd ha hnd hd hk; rw [hn] at this; exact this
  · simp only [arank]; split <;> omega

/-- the forwarded hosts are READING hosts ... -/
theorem forwarded_are_reading (ts : List TS) (k j : Nat) (hj : j ∈ readingUpTo ts k) :
    j < k ∧ ts.getD j .new = .reading := by
  simp only [readingUpTo, List.mem_filter, List.mem_range] at hj
  exact ⟨hj.1, by simpa using hj.2⟩

/-- ... all of them ... -/
theorem forwarded_all_reading (ts : List TS) (k j : Nat) (hj : j < k) (hr : ts.getD j .new = .reading) :
    j ∈ readingUpTo ts k := by
  simp only [readingUpTo, List.mem_filter, List.mem_range]
  exact ⟨hj, by simpa using hr⟩

/-- ... each signalled once -/
theorem forwarded_once (ts : List TS) (k : Nat) : (readingUpTo ts k).Nodup :=
  List.Nodup.sublist List.filter_sublist List.nodup_range

/-- C20 (no -b): the INTR_TIME window of `_handle_sigint`: a ^C handled within INTR_TIME of the last report
    aborts like batch mode, a later one reports (and a report records its time) -/
theorem double_int_aborts {s s' : St} {v : Nat} (hs : step s (.s (.time v)) = some s') :
    (s.spc = .intT → s.now - s.last ≤ INTR → s'.spc = .abLock) ∧
    (s.spc = .intT → INTR < s.now - s.last → s'.spc = .intT2) ∧
    (s.spc = .intT2 → s'.last = s.now ∧ s'.spc = .listLock) := by
  have hd := step_s hs
  simp only [sStep] at hd
  split at hd
  · refine ⟨fun hw hle => ?_, fun hw hlt => ?_, fun hw => ?_⟩
    · rw [hw] at hd; simp only [Option.some.injEq] at hd; subst hd
      have : ¬ INTR < s.now - s.last := by omega
      simp [this]
    · rw [hw] at hd; simp only [Option.some.injEq] at hd; subst hd
      simp [hlt]
    · rw [hw] at hd; simp only [Option.some.injEq] at hd; subst hd
      exact ⟨rfl, rfl⟩
  · simp at hd

/-- C20: whenever exit() was called (only the signals thread calls it here) the status is 1, not 0 -/
theorem exit_nonzero_on_abort {v : Variant} {g sw : Bool} {f n t0 : Nat} {b : Bool} {s : St} {c : Nat} (h : Reach v g sw f n b t0 s)
    (hx : s.exited = some c) : c = 1 ∧ c ≠ 0 ∧ s.spc = .exiting := by
  have := (ainv_reach h).ex (by rw [hx]; rfl)
  rw [hx] at this
  have hc : c = 1 := by simpa using this.2
  exact ⟨hc, by omega, this.1⟩

/-! ## a single interactive ^C is harmless -/

/-- C20 (commutation, general form): a run in which the signals thread never forwards, exits or cancels is,
    with the steps of the signals thread and the deliveries erased, again a run — a signal-free one — and it
    ends in a state with the same observables -/
theorem erase_commutes {v : Variant} {g sw : Bool} {f n t0 : Nat} {b : Bool} {ls : List Label} {s : St}
    (he : Exec (init v g sw f n b t0) ls s) (hh : ∀ l ∈ ls, l.harmless = true) :
    Exec (init v g sw f n b t0) (erase ls) (strip s) ∧ obs (strip s) = obs s ∧ ∀ l ∈ erase ls, l.erased = false := by
  have := erase_exec (inv_init v g sw f n b t0) he hh
  rw [strip_init] at this
  exact ⟨this, obs_strip s, erase_no_signal ls⟩

/-- C20: not in batch mode, clock past INTR_TIME, at most one signal delivered during the whole run and that
    one a SIGINT (no second signal): whatever the schedule and the arrival time, the signals thread only
    reports; erasing its steps leaves a signal-free run with the same per-host program counters and
    `t[i].state`, the same threadcount and dispatcher state; exit() is not called -/
theorem single_int_harmless {v : Variant} {g sw : Bool} {f n t0 : Nat} {ls : List Label} {s : St} (ht : INTR < t0)
    (he : Exec (init v g sw f n false t0) ls s) (h1 : ls.countP Label.isDeliver ≤ 1) (ho : OnlyInt ls) :
    (∀ l ∈ ls, l.harmless = true) ∧
    Exec (init v g sw f n false t0) (erase ls) (strip s) ∧ obs (strip s) = obs s ∧ (∀ l ∈ erase ls, l.erased = false) ∧
    s.exited = none := by
  obtain ⟨hj, hh⟩ := single_int_only_lists ht he h1 ho
  obtain ⟨e1, e2, e3⟩ := erase_commutes he hh
  have ha := ainv_reach ⟨ls, he⟩
  refine ⟨hh, e1, e2, e3, ?_⟩
  cases hx : s.exited with
  | none => rfl
  | some c =>
    exfalso
    have hex := (ha.ex (by rw [hx]; rfl)).1
    by_cases hz : ls.countP Label.isSigwait = 0
    · rcases (hj.zero hz).2 with h | h | h <;> rw [hex] at h <;> cases h
    · rcases hj.one (by omega) with h | h | h | h | h | h
      · rw [hex] at h; cases h.1
      · rw [hex] at h; cases h
      · rw [hex] at h; cases h
      · rw [hex] at h; cases h
      · rw [hex] at h; cases h
      · rw [hex] at h; cases h

/-! ## what the listing names (both locking disciplines) -/

/-- C20: the ^C listing.  `_list_slowthreads` takes thd_mutex and records (`St.listed`, one clock reading per entry
    scheduled) exactly the slots that are RCMD or READING at that moment, in slot order.  Every host it names is still
    connecting — its worker has marked itself DSH_RCMD and not yet recorded the outcome of rcmd_connect — or running —
    connected, in its read loop; every host whose command is running is named; a host inside or around rcmd_connect is
    named unless ^Z has canceled its slot meanwhile. -/
theorem listing_names_connecting_or_running {v : Variant} {g sw : Bool} {f n t0 : Nat} {b : Bool} {s s' : St}
    (h : Reach v g sw f n b t0 s) (hs : step s (.s .lockT) = some s') (hw : s.spc = .listLock) :
    s'.listed = listedNow s ∧ s'.spc = .listing s'.listed.length ∧
    (∀ j ∈ s'.listed, j < n ∧ ((tsAt s j = .rcmd ∧ connectingPC (pc s j) = true) ∨
                               (tsAt s j = .reading ∧ runningPC (pc s j) = true))) ∧
    (∀ j, j < n → pc s j = .reading → j ∈ s'.listed) ∧
    (∀ j, j < n → connectingPC (pc s j) = true → j ∈ s'.listed ∨ tsAt s j = .canceled ∨ tsAt s j = .failed) := by
  obtain ⟨h1, h2, _, _⟩ := listing_is_snapshot hs hw
  rw [h1]
  refine ⟨rfl, h2, fun j hj => listed_connecting_or_running h hj, fun j hj hp => (running_is_listed h hj).1 hp,
    fun j hj hp => (running_is_listed h hj).2 hp⟩

/-- C20: what was recorded under the mutex is what is printed, whenever the printing happens: no step other than the
    signals thread taking thd_mutex for a new listing changes `St.listed` — not a worker changing state while the
    lines are printed after the unlock, not a delivery, not the clock -/
theorem listing_printed_is_the_snapshot {s s' : St} {l : Label} (hs : step s l = some s')
    (hl : ¬ (l = .s .lockT ∧ s.spc = .listLock)) : s'.listed = s.listed := by
  rcases listed_frozen hs with h | h
  · exact h
  · exact absurd h hl

/-- C20 is indifferent to the locking discipline of the listing: from the moment the snapshot is taken, "print the `k`
    lines, then unlock" (dsh.c as pinned) and "unlock, then print the `k` lines" (C20-H2) are both runs of the model and
    end in the same state: signals thread back in sigwait, thd_mutex free, everything else untouched -/
theorem both_listing_disciplines {s : St} {k : Nat} (hx : s.exited = none) (hw : s.spc = .listing k) :
    run s (times s.now k ++ [.s .unlockT]) = some { s with spc := .waiting, thd := .none } ∧
    run s ([.s .unlockT] ++ times s.now k) = some { s with spc := .waiting, thd := .none } :=
  both_disciplines hx hw

/-- non-vacuity: N = 2, fanout 2, h0 running, h1 connecting when ^C arrives: the listing names both; printed after the
    unlock (C20-H2's discipline) while h1's connect completes in between — accepted, and `listed` is still [0, 1] -/
example : (run (init .whileWait true false 2 2 false 10)
    ([.d .createS, .d .lock, .d (.create 0), .d .unlock, .d .lock, .d (.create 1), .d .unlock,
      .w 0 .lockT, .w 0 .unlockT, .w 0 .connectBegin, .w 0 (.connectEnd true), .w 0 .lockT, .w 0 .time, .w 0 .unlockT,
      .w 1 .lockT, .w 1 .unlockT, .w 1 .connectBegin] ++
     [.e (.deliver .int), .s (.sigwait .int), .s (.time 10), .s (.time 10), .s .lockT, .s .unlockT,
      .w 1 (.connectEnd true), .w 1 .lockT, .s (.time 10), .w 1 .time, .w 1 .unlockT, .s (.time 10)])).map
      (fun s => (s.listed, decide (s.spc = .waiting), s.ts)) = some ([0, 1], true, [.reading, .reading]) := by decide

/-! ## lock discipline: dispatcher, workers, signals thread and watchdog -/

/-- C20 (never deadlocks — the mutex part, watchdog included): in every reachable state in which pdsh is still
    running, no thread holds threadcount_mutex and thd_mutex together; the watchdog never holds threadcount_mutex; and
    the holder of thd_mutex, and the holder of threadcount_mutex, each has an enabled operation *of its own* that
    acquires no mutex (it reads the clock, signals, creates, waits on the condition variable — which releases — or
    unlocks).  A thread that holds a mutex therefore never waits for one: there is no lock order to violate, between
    any two of dispatcher, workers, signals thread and watchdog, under any schedule.  (`s.spc ≠ .cancelled`: short of
    the signals thread having ended on dsh()'s request, which is made only after the final drain.) -/
theorem lock_order {v : Variant} {g sw : Bool} {f n t0 : Nat} {b : Bool} {s : St} (h : Reach v g sw f n b t0 s)
    (hx : s.exited = none) (hnc : s.spc ≠ .cancelled) :
    (∀ t, t ≠ .none → ¬ (s.own = t ∧ s.thd = t)) ∧ s.own ≠ .g ∧
    (s.thd ≠ .none → RunsOn s s.thd) ∧ (s.own ≠ .none → RunsOn s s.own) := by
  have hinv := inv_reach h
  exact ⟨fun t ht => never_both hinv hnc t ht, hinv.w.ownG, fun ht => thd_holder_runs hinv hx ht hnc,
    fun ho => own_holder_runs hinv hx ho hnc⟩

/-- non-vacuity (repaired shutdown, N = 1): the watchdog holds thd_mutex around slot 0 when ^C arrives; the signals
    thread, which wants thd_mutex for the listing, cannot take it — and the watchdog can release it -/
example : (run (init .whileWait true true 1 1 false 10)
    [.d .createG, .d .createS, .d .lock, .d (.create 0), .d .unlock, .g .lockT,
     .e (.deliver .int), .s (.sigwait .int), .s (.time 10), .s (.time 10)]).map
      (fun s => (decide (s.thd = .g ∧ s.spc = .listLock), (step s (.s .lockT)).isSome, (step s (.g .unlockT)).isSome)) =
    some (true, false, true) := by decide

/-- non-vacuity, an interrupt while the watchdog times a host out (-b, N = 1, repaired shutdown): the watchdog holds
    thd_mutex around slot 0 (it sends SIGALRM to the worker) when ^C arrives; the signals thread must wait for the
    mutex; once it has it, host 0 — whose worker has not yet recorded the failure — is still READING and gets the
    SIGINT; exit(1).  In the other order (last line) the worker gives its read loop up first (`lockTF`: DSH_FAILED) and
    nothing is left to signal -/
example :
    (run (init .whileWait true true 1 1 true 10)
      ([.d .createG, .d .createS, .d .lock, .d (.create 0), .d .unlock,
        .w 0 .lockT, .w 0 .unlockT, .w 0 .connectBegin, .w 0 (.connectEnd true), .w 0 .lockT, .w 0 .time, .w 0 .unlockT,
        .g .lockT, .e (.deliver .int), .s (.sigwait .int)])).map
        (fun s => ((step s (.s .lockT)).isSome, (step s (.g .unlockT)).isSome)) = some (false, true) ∧
    (run (init .whileWait true true 1 1 true 10)
      ([.d .createG, .d .createS, .d .lock, .d (.create 0), .d .unlock,
        .w 0 .lockT, .w 0 .unlockT, .w 0 .connectBegin, .w 0 (.connectEnd true), .w 0 .lockT, .w 0 .time, .w 0 .unlockT,
        .g .lockT, .e (.deliver .int), .s (.sigwait .int), .g .unlockT, .s .lockT, .s (.fwd 0), .s .unlockT,
        .s (.exit 1)])).map (fun s => (s.fwds, s.exited)) = some ([0], some 1) ∧
    (run (init .whileWait true true 1 1 true 10)
      ([.d .createG, .d .createS, .d .lock, .d (.create 0), .d .unlock,
        .w 0 .lockT, .w 0 .unlockT, .w 0 .connectBegin, .w 0 (.connectEnd true), .w 0 .lockT, .w 0 .time, .w 0 .unlockT,
        .g .lockT, .e (.deliver .int), .s (.sigwait .int), .g .unlockT, .w 0 .lockTF, .w 0 .unlockT, .s .lockT,
        .s .unlockT, .s (.exit 1)])).map (fun s => (s.fwds, s.ts, s.exited)) = some ([], [.failed], some 1) := by
  refine ⟨?_, ?_, ?_⟩ <;> decide

/-! ## the exit status, composed with the -S loop of C08 -/

/-- C20 + C08: ^C ^Z with -S.  Repaired worker, repaired -S loop (F08-CANCELED), per-target codes in 0..255: if
    `_cancel_pending_threads` finds target `j` not yet started, then however the run continues, when it comes to its
    normal end the exit status under -S is not 0 — the canceled target is still DSH_CANCELED when dsh() returns and the
    loop at the end of dsh() (C08's `aggregate`) counts it as a failure -/
theorem canceled_run_S_nonzero {v : Variant} {sw : Bool} {f n t0 : Nat} {b : Bool} {s s' s'' : St} {ls : List Label} {j : Nat}
    (h : Reach v true sw f n b t0 s) (hs : step s (.s .lock) = some s') (he : Exec s' ls s'') (hj : j < n)
    (hnew : tsAt s j = .new) (fx : PdshVerif.Dsh.Exit.Fixes) (hc : fx.canc = true) (k : Bool) (rcs : List Int)
    (hl : rcs.length = n) (hrc : ∀ r ∈ rcs, 0 ≤ r ∧ r ≤ 255) :
    PdshVerif.Dsh.Exit.mainExit fx ⟨true, k⟩ (.started (finalHosts s''.ts rcs)) ≠ 0 :=
  PdshVerif.Dsh.Sig.canceled_run_S_nonzero h hs he hj hnew fx hc k rcs hl hrc

/-- C20 + C08: "the run continues unharmed to its normal result" includes the exit status: erasing a harmless
    interrupt (`erase_commutes`) leaves the slots the -S loop reads unchanged, so the status is that of the
    signal-free run, whatever the flags -/
theorem harmless_same_exit_status (s : St) (fx : PdshVerif.Dsh.Exit.Fixes) (fl : PdshVerif.Dsh.Exit.Flags) (rcs : List Int) :
    PdshVerif.Dsh.Exit.mainExit fx fl (.started (finalHosts (strip s).ts rcs)) =
      PdshVerif.Dsh.Exit.mainExit fx fl (.started (finalHosts s.ts rcs)) :=
  PdshVerif.Dsh.Sig.harmless_same_exit_status s fx fl rcs

/-- non-vacuity of `canceled_run_S_nonzero`: the run of the example further down (N = 2, fanout 1, ^C ^Z cancels host 1,
    host 0 completes, dsh() returns) with codes [0, 0] under -S: status 254, not 0 -/
example : PdshVerif.Dsh.Exit.mainExit PdshVerif.Dsh.Exit.Fixes.all ⟨true, false⟩
    (.started (finalHosts [.done, .canceled] [0, 0])) = 254 := by decide

/-! ## interrupts and the output stream: what an abort can tear; the stdio lock as third mutex -/

/-- the protocol part of a run of the product (protocol LTS × one output stream under per-call atomicity,
    `Dsh/SignalsOutput.lean`) is a run of the protocol LTS: every theorem of this file holds of it -/
theorem product_projects {v : Variant} {g sw : Bool} {f n t0 : Nat} {b : Bool} {ls : List PLabel} {p : PSt}
    (he : PExec (pinit v g sw f n b t0) ls p) :
    Exec (init v g sw f n b t0) (ls.filterMap fun l => match l with | .proto x => some x | _ => none) p.p :=
  pexec_proj he

/-- C20 ("never corrupts the output of hosts that complete"), normal end: with the repaired shutdown, when dsh() has
    returned — whatever interrupts arrived, whatever was listed or canceled — no stdio call is in progress and the stream
    is exactly the concatenation of the records written: nothing is torn, nothing is interleaved -/
theorem normal_exit_records_whole {v : Variant} {g : Bool} {f n t0 : Nat} {b : Bool} {ls : List PLabel} {p : PSt}
    (he : PExec (pinit v g true f n b t0) ls p) (hr : p.p.dpc = .returned) :
    p.out.cur = none ∧ content p.out = p.out.done.flatMap (·.bytes) := by
  obtain ⟨hinv, ho⟩ := pexec_invs he
  have hsw : p.p.sw = true := by
    have := exec_sw (pexec_proj he); simpa [pinit, init] using this
  exact normal_end_whole hinv ho hsw hr

/-- C20, the abort (`errx` from the signals thread while workers are inside `fputs`) — and every other moment: the
    stream is a sequence of WHOLE records followed by at most ONE incomplete record; the incomplete one is the last
    thing in the stream and a prefix of the record its owner was writing; its owner is the signals thread or a worker
    that has not completed; a host that has completed (result recorded, buffers flushed) has no call in progress, so
    all its records are whole.  This is exactly what per-call atomicity of stdio gives, and all of it: the record in
    progress when exit() is called may be cut anywhere -/
theorem abort_tears_at_most_the_last_record {v : Variant} {g sw : Bool} {f n t0 : Nat} {b : Bool} {ls : List PLabel}
    {p : PSt} (he : PExec (pinit v g sw f n b t0) ls p) :
    (p.out.cur = none → content p.out = p.out.done.flatMap (·.bytes)) ∧
    (∀ c k, p.out.cur = some (c, k) →
      content p.out = p.out.done.flatMap (·.bytes) ++ c.bytes.take k ∧ k ≤ c.bytes.length ∧
      (c.owner = .s ∨ ∃ j, c.owner = .w j ∧ completedW (pc p.p j) = false)) ∧
    (∀ j, completedW (pc p.p j) = true → inCall p.out (.w j) = false) := by
  obtain ⟨hinv, ho⟩ := pexec_invs he
  exact ⟨(stream_shape hinv ho).1, (stream_shape hinv ho).2, fun j hj => completed_host_not_in_call ho hj⟩

/-- C20 (never deadlocks), with the stdio lock as a third mutex: whoever is inside a stdio call — possibly the signals
    thread holding thd_mutex (listing) or threadcount_mutex (canceled count) — can always go on (the FILE lock is a
    leaf: lock order  threadcount_mutex | thd_mutex → FILE, never back), and until dsh() has returned or exit() was
    called some thread of pdsh can take a step in the product -/
theorem no_deadlock_with_stdio {v : Variant} {g sw : Bool} {f n t0 : Nat} {b : Bool} {ls : List PLabel} {p : PSt}
    (hf : 0 < f) (he : PExec (pinit v g sw f n b t0) ls p) (hnf : ¬ Final p.p) :
    (∀ c k, p.out.cur = some (c, k) → (pstep p .copy).isSome = true ∨ (pstep p .finish).isSome = true) ∧
    ∃ l, l.proper = true ∧ (pstep p l).isSome = true := by
  obtain ⟨hinv, ho⟩ := pexec_invs he
  have hx : p.p.exited = none := by
    cases hx : p.p.exited with
    | none => rfl
    | some c => exact absurd (Or.inr (by rw [hx]; rfl)) hnf
  have hr : p.p.dpc ≠ .returned := fun hc => hnf (Or.inl hc)
  have hfs : 0 < p.p.f := by
    have := (exec_params (pexec_proj he)).2.1
    rw [this]; simpa [pinit, init] using hf
  exact ⟨fun c k hc => file_holder_runs ho hx hc, product_progress hinv ho hfs hx hr⟩

/-- non-vacuity, an abort that tears a record: -b, N = 1; host 0 is in its read loop and has put 2 of the 3 bytes of a
    record into the stream when ^C arrives; the signals thread forwards SIGINT and calls exit(1) while the worker is
    still inside its call: the stream ends with the 2-byte prefix, after the one whole record written before -/
example : (prun (pinit .whileWait true false 1 1 true 10)
    ([.d .createS, .d .lock, .d (.create 0), .d .unlock, .w 0 .lockT, .w 0 .unlockT, .w 0 .connectBegin,
      .w 0 (.connectEnd true), .w 0 .lockT, .w 0 .time, .w 0 .unlockT].map .proto ++
     [.begin ⟨.w 0, [1, 2]⟩, .copy, .copy, .finish, .begin ⟨.w 0, [7, 8, 9]⟩, .copy, .copy] ++
     [.e (.deliver .int), .s (.sigwait .int), .s .lockT, .s (.fwd 0), .s .unlockT, .s (.exit 1)].map .proto)).map
      (fun p => (content p.out, p.p.exited, p.p.fwds)) = some ([1, 2, 7, 8], some 1, [0]) := by decide

/-- ... and a worker inside a call cannot perform a protocol operation, nor can a second call begin -/
example : (prun (pinit .whileWait true false 1 1 true 10)
    ([.d .createS, .d .lock, .d (.create 0), .d .unlock, .w 0 .lockT, .w 0 .unlockT, .w 0 .connectBegin,
      .w 0 (.connectEnd true), .w 0 .lockT, .w 0 .time, .w 0 .unlockT].map .proto ++
     [.begin ⟨.w 0, [7, 8, 9]⟩, .copy])).map
      (fun p => ((pstep p (.proto (.w 0 .lockT))).isSome, (pstep p (.begin ⟨.s, [5]⟩)).isSome, (pstep p .copy).isSome)) =
    some (false, false, true) := by decide

/-! ## ^C ^Z -/

/-- C20: the INTR_TIME window of `_handle_sigtstp`: within INTR_TIME of the last report ^Z cancels, later it
    stops the process (default behaviour) -/
theorem tstp_window {s s' : St} {v : Nat} (hs : step s (.s (.time v)) = some s') (hw : s.spc = .tstpT) :
    (s.now - s.last ≤ INTR → s'.spc = .cancLock) ∧ (INTR < s.now - s.last → s'.spc = .stopping) := by
  have hd := step_s hs
  simp only [sStep] at hd
  split at hd
  · rw [hw] at hd; simp only [Option.some.injEq] at hd; subst hd
    refine ⟨fun hle => ?_, fun hlt => ?_⟩
    · have : ¬ INTR < s.now - s.last := by omega
      simp [this]
    · simp [hlt]
  · simp at hd

/-- C20, the clock as an input: the step of the signals thread that reads the clock (the INTR_TIME decision of
    `_handle_sigint` and `_handle_sigtstp`, `last_intr = time(NULL)`, the instants read while listing) commutes with
    moving the clock and `last_intr` by the same `k` seconds, for every `k`: no value of the clock is special -/
theorem window_at_any_clock {s s' : St} {v : Nat} (k : Nat) (hs : step s (.s (.time v)) = some s') :
    step (shiftClock k s) (.s (.time (v + k))) = some (shiftClock k s') ∧ (shiftClock k s').spc = s'.spc :=
  ⟨step_time_shift k hs, rfl⟩

/-- C20: the decision (abort or report for ^C, cancel or stop for ^Z) depends only on the DIFFERENCE of the two
    stamps: two states in the same place of the same handler whose stamps differ by the same amount decide alike -/
theorem decision_depends_on_difference_only {s1 s2 s1' s2' : St} {v1 v2 : Nat}
    (h1 : step s1 (.s (.time v1)) = some s1') (h2 : step s2 (.s (.time v2)) = some s2')
    (hpc : s1.spc = s2.spc) (hw : s1.spc = .intT ∨ s1.spc = .tstpT) (hd : s1.now - s1.last = s2.now - s2.last) :
    s1'.spc = s2'.spc ∧
    (s1.spc = .intT → s1'.spc = if past s1.now s1.last then .intT2 else .abLock) ∧
    (s1.spc = .tstpT → s1'.spc = if past s1.now s1.last then .stopping else .cancLock) := by
  have d1 := double_int_aborts h1
  have d2 := double_int_aborts h2
  rcases hw with hw | hw
  · have hw2 : s2.spc = .intT := hpc ▸ hw
    by_cases q : INTR < s1.now - s1.last
    · have q2 : INTR < s2.now - s2.last := hd ▸ q
      have r1 := d1.2.1 hw q
      have r2 := d2.2.1 hw2 q2
      simp [r1, r2, hw, past, q]
    · have q2 : ¬ INTR < s2.now - s2.last := hd ▸ q
      have r1 := d1.1 hw (by omega)
      have r2 := d2.1 hw2 (by omega)
      simp [r1, r2, hw, past, q]
  · have hw2 : s2.spc = .tstpT := hpc ▸ hw
    have t1 := tstp_window h1 hw
    have t2 := tstp_window h2 hw2
    by_cases q : INTR < s1.now - s1.last
    · have q2 : INTR < s2.now - s2.last := hd ▸ q
      have r1 := t1.2 q
      have r2 := t2.2 q2
      simp [r1, r2, hw, past, q]
    · have q2 : ¬ INTR < s2.now - s2.last := hd ▸ q
      have r1 := t1.1 (by omega)
      have r2 := t2.1 (by omega)
      simp [r1, r2, hw, past, q]

/-- C20: the C expression `time(NULL) - last_intr > INTR_TIME`, evaluated in a signed type that holds both stamps
    (`time_t`), is the model's test; through a `w`-bit integer it still is as long as the difference fits in `w` bits
    (and not otherwise: the witnesses in Dsh/SignalsClock.lean: a 32-bit `int` at the instants 2^31, 2^32, 2^33) -/
theorem c_subtraction_wide_enough (now last w : Nat) (h : last ≤ now) (hw : 0 < w) (hf : now - last < 2 ^ (w - 1)) :
    decide (wrapTo w ((now : Int) - (last : Int)) > (INTR : Int)) = past now last := by
  have hx : ((now : Int) - (last : Int)) = ((now - last : Nat) : Int) := by omega
  have h2 : (((now - last : Nat) : Int)) < 2 ^ (w - 1) := by exact_mod_cast hf
  have hp : (0 : Int) < 2 ^ (w - 1) := Int.pow_pos (by decide)
  rw [wrapTo_fits w hw _ (by omega) (by omega)]
  exact c_test_exact now last h

/-- non-vacuity: the same ^C decision at clock 5 and at clock 2^32 + 5, three seconds after the last report -/
example : ∀ s', sStep { (init .whileWait true true 1 1 false 5) with spc := .intT, last := 2 } (.time 5) = some s' →
    sStep (shiftClock (2 ^ 32) { (init .whileWait true true 1 1 false 5) with spc := .intT, last := 2 }) (.time (5 + 2 ^ 32)) =
      some (shiftClock (2 ^ 32) s') ∧ s'.spc = .intT2 := by
  intro s' h
  refine ⟨by rw [sStep_time_shift, h]; rfl, ?_⟩
  simp only [sStep] at h
  simp at h
  obtain ⟨_, rfl⟩ := h
  decide

/-- C20: `_cancel_pending_threads` touches no worker and no counter; it changes only slots that are NEW or
    RCMD — slots whose host is not yet started or still connecting as far as the worker has recorded
    (`preConnect`) — to CANCELED, and leaves READING / DONE / FAILED hosts exactly as they are; the number it
    prints is the number of slots it changed -/
theorem tstp_cancels_only_pending {v : Variant} {g sw : Bool} {f n t0 : Nat} {b : Bool} {s s' : St} (h : Reach v g sw f n b t0 s)
    (hs : step s (.s .lock) = some s') :
    s'.ws = s.ws ∧ s'.tc = s.tc ∧ s'.dpc = s.dpc ∧ s'.ncanc = s.ts.countP isPending ∧
    ∀ j, j < n →
      (tsAt s' j ≠ tsAt s j → isPending (tsAt s j) = true ∧ tsAt s' j = .canceled ∧ preConnect (pc s j) = true) ∧
      (tsAt s j = .reading ∨ tsAt s j = .done ∨ tsAt s j = .failed → tsAt s' j = tsAt s j) := by
  obtain ⟨hws, hts, hnc, htc, hdpc, _⟩ := cancel_effect (step_s hs)
  have hinv := inv_reach h
  have hn : s.ts.length = n := (reach_params h).2.2.2.2
  refine ⟨hws, htc, hdpc, hnc, fun j hj => ?_⟩
  have hat := tsAt_map_cancel hts j (by omega)
  rw [hat]
  refine ⟨fun hne => ?_, fun hr => ?_⟩
  · have hp : isPending (tsAt s j) = true := by
      cases hh : isPending (tsAt s j) with
      | true => rfl
      | false => simp [cancelT, hh] at hne
    exact ⟨hp, by simp [cancelT, hp], okTS_pending (hinv.t.ok j) hp⟩
  · rcases hr with hr | hr | hr <;> rw [hr] <;> rfl

/-- C20: the number in "Canceled n pending threads." is the count taken under threadcount_mutex, whenever the message is
    printed: no step other than the signals thread taking threadcount_mutex for a new cancellation changes `St.ncanc` —
    so dsh.c as pinned (err() before the unlock) and C20-H4 (err() after the unlock, while the dispatcher and finishing
    workers already run on) print the same number; in the product with the output stream the signals thread may be
    inside that stdio call at `cancUnlock` (mutex held) and at `waiting` (mutex released): `emitS` -/
theorem canceled_count_printed_is_the_snapshot {s s' : St} {l : Label} (hs : step s l = some s')
    (hl : ¬ (l = .s .lock ∧ s.spc = .cancLock)) : s'.ncanc = s.ncanc := by
  rcases ncanc_frozen hs with h | h
  · exact h
  · exact absurd h hl

/-- non-vacuity, both disciplines of the message in the product model: N = 1, ^C ^Z cancels slot 0 whose worker was
    created; the record of the message (one stdio call) is written with threadcount_mutex held, or after the unlock
    while the worker (repaired form) already finds itself canceled — both are runs, same stream, same count -/
example :
    (prun (pinit .whileWait true false 1 1 false 10)
      ([.d .createS, .d .lock, .d (.create 0), .d .unlock,
        .e (.deliver .int), .s (.sigwait .int), .s (.time 10), .s (.time 10), .s .lockT, .s .unlockT,
        .e (.deliver .tstp), .s (.sigwait .tstp), .s (.time 10), .s .lock].map .proto ++
       [.begin ⟨.s, [5]⟩, .copy, .finish, .proto (.s .unlock), .proto (.w 0 .lockT)])).map
      (fun p => (content p.out, p.p.ncanc, p.p.own)) = some ([5], 1, .none) ∧
    (prun (pinit .whileWait true false 1 1 false 10)
      ([.d .createS, .d .lock, .d (.create 0), .d .unlock,
        .e (.deliver .int), .s (.sigwait .int), .s (.time 10), .s (.time 10), .s .lockT, .s .unlockT,
        .e (.deliver .tstp), .s (.sigwait .tstp), .s (.time 10), .s .lock].map .proto ++
       [.proto (.s .unlock), .begin ⟨.s, [5]⟩, .proto (.w 0 .lockT), .copy, .finish])).map
      (fun p => (content p.out, p.p.ncanc, p.p.own)) = some ([5], 1, .none) := by
  constructor <;> decide

/-- C20: a canceled slot for which no thread exists never gets one: in every continuation, under every
    schedule, no operation of worker `j` — in particular no connect — ever happens, and the slot stays CANCELED -/
theorem canceled_new_never_started {v : Variant} {g sw : Bool} {f n t0 : Nat} {b : Bool} {s s' : St} {ls : List Label} {j : Nat}
    (h : Reach v g sw f n b t0 s) (hp : pc s j = .idle) (hc : tsAt s j = .canceled) (he : Exec s ls s') :
    (∀ a, Label.w j a ∉ ls) ∧ pc s' j = .idle ∧ tsAt s' j = .canceled := by
  obtain ⟨⟨h1, h2⟩, h3⟩ := canceled_idle_exec (inv_reach h) he hp hc
  exact ⟨h3, h1, h2⟩

/-- C20: the dispatcher never creates a thread for a CANCELED slot (the check `t[i].state == DSH_CANCELED` and
    `pthread_create` happen under threadcount_mutex, which `_cancel_pending_threads` also holds), and every
    slot it steps over is CANCELED -/
theorem dispatcher_skips_canceled {v : Variant} {g sw : Bool} {f n t0 : Nat} {b : Bool} {s s' : St} {j : Nat}
    (h : Reach v g sw f n b t0 s) (hs : step s (.d (.create j)) = some s') :
    tsAt s j ≠ .canceled ∧ s.own = .d ∧ ∀ k, s.i ≤ k → k < j → tsAt s k = .canceled := by
  have hinv := inv_reach h
  have hd := step_d hs
  simp only [dStep] at hd
  split at hd <;> simp at hd
  rename_i hdp
  obtain ⟨⟨hj, hlt⟩, _⟩ := hd
  refine ⟨?_, hinv.m.ownD.mpr (by rw [hdp]; rfl), fun k h1 h2 => ?_⟩
  · rw [hj]; exact skip_stop s.ts s.i (by rw [← hj, hinv.t.len]; exact hlt)
  · exact skip_canceled s.ts s.i k h1 (by rw [← hj]; exact h2)

/-- **the defect F20-LOSTCANCEL, decided on a concrete run** (N = 1, fanout 1, not batch, clock 10): the thread of
    slot 0 is created; ^C is reported; ^Z cancels slot 0 (state CANCELED, counted: `ncanc = 1`) while its worker has
    not yet marked itself; the worker then overwrites CANCELED with RCMD and connects.  So the statement
    "no canceled host is ever connected" is false of dsh.c for slots whose thread already exists. -/
theorem canceled_created_slot_runs :
    (run (init .whileWait false false 1 1 false 10)
      [.d .createS, .d .lock, .d (.create 0), .d .unlock,
       .e (.deliver .int), .s (.sigwait .int), .s (.time 10), .s (.time 10), .s .lockT, .s .unlockT,
       .e (.deliver .tstp), .s (.sigwait .tstp), .s (.time 10), .s .lock]).map (fun s => (s.ts, s.ncanc, s.ws))
      = some ([.canceled], 1, [.started]) ∧
    (run (init .whileWait false false 1 1 false 10)
      [.d .createS, .d .lock, .d (.create 0), .d .unlock,
       .e (.deliver .int), .s (.sigwait .int), .s (.time 10), .s (.time 10), .s .lockT, .s .unlockT,
       .e (.deliver .tstp), .s (.sigwait .tstp), .s (.time 10), .s .lock, .s .unlock,
       .w 0 .lockT, .w 0 .unlockT, .w 0 .connectBegin]).map (fun s => (s.ts, s.ws))
      = some ([.rcmd], [.connecting]) := by
  constructor <;> decide

/-- the repaired worker on the schedule of the witness: it finds its slot CANCELED under thd_mutex, releases the
    mutex and goes straight to its epilogue (state still CANCELED); a connect is not possible -/
example :
    (run (init .whileWait true false 1 1 false 10)
      [.d .createS, .d .lock, .d (.create 0), .d .unlock,
       .e (.deliver .int), .s (.sigwait .int), .s (.time 10), .s (.time 10), .s .lockT, .s .unlockT,
       .e (.deliver .tstp), .s (.sigwait .tstp), .s (.time 10), .s .lock, .s .unlock,
       .w 0 .lockT, .w 0 .unlockT]).map (fun s => (s.ts, s.ws)) = some ([.canceled], [.torn]) ∧
    (run (init .whileWait true false 1 1 false 10)
      [.d .createS, .d .lock, .d (.create 0), .d .unlock,
       .e (.deliver .int), .s (.sigwait .int), .s (.time 10), .s (.time 10), .s .lockT, .s .unlockT,
       .e (.deliver .tstp), .s (.sigwait .tstp), .s (.time 10), .s .lock, .s .unlock,
       .w 0 .lockT, .w 0 .unlockT, .w 0 .connectBegin]).isSome = false := by
  constructor <;> decide

/-! ## ^C ^Z with the repaired worker (`g = true`): cancellation is for good -/

theorem reach_g {v : Variant} {g sw : Bool} {f n t0 : Nat} {b : Bool} {s : St} (h : Reach v g sw f n b t0 s) : s.g = g := by
  obtain ⟨ls, he⟩ := h
  have := exec_g he
  simpa [init] using this

/-- C20 (repaired worker): a slot that is CANCELED while NEW — no thread yet, *or a thread that exists but has not
    yet marked itself* — is never connected: in every continuation, under every schedule, `rcmd_connect` is not
    called for it, it never reaches the read loop, and its state stays DSH_CANCELED (which is what -S and the
    debug summary count).  False of the unrepaired worker: `canceled_created_slot_runs`. -/
theorem canceled_unmarked_never_connected {v : Variant} {sw : Bool} {f n t0 : Nat} {b : Bool} {s s' : St} {ls : List Label}
    {j : Nat} (h : Reach v true sw f n b t0 s) (hp : pc s j = .idle ∨ pc s j = .started) (hc : tsAt s j = .canceled)
    (he : Exec s ls s') :
    Label.w j .connectBegin ∉ ls ∧ tsAt s' j = .canceled ∧ pc s' j ≠ .reading := by
  have hsk : skipsConnect (pc s j) = true := by rcases hp with hp | hp <;> rw [hp] <;> rfl
  obtain ⟨⟨h1, h2⟩, h3⟩ := canceled_skip_exec (reach_g h) (inv_reach h) he hsk hc
  refine ⟨h3, h2, ?_⟩
  intro hr; rw [hr] at h1; cases h1

/-- C20 (repaired worker): no canceled host — canceled before its thread existed, before its thread marked itself,
    or while connecting — ever reaches the read loop: its command output is never relayed -/
theorem canceled_never_relays {v : Variant} {sw : Bool} {f n t0 : Nat} {b : Bool} {s s' : St} {ls : List Label} {j : Nat}
    (h : Reach v true sw f n b t0 s) (hc : tsAt s j = .canceled) (he : Exec s ls s') : pc s' j ≠ .reading := by
  have hinv := inv_reach h
  have hj : j < s.ts.length := by
    apply Nat.lt_of_not_le; intro hge
    have : tsAt s j = .new := getD_ge' hge
    rw [this] at hc; cases hc
  exact dropped_not_reading (dropped_exec (reach_g h) hinv he hj (dropped_of_canceled hinv.t hc))

/-- C20 (repaired worker), `tstp_cancels_only_pending` at full strength: after `_cancel_pending_threads` has run,
    every slot it found NEW is never connected and stays CANCELED, and every slot it left CANCELED (found NEW or
    RCMD) never has its output relayed — whatever happens afterwards -/
theorem tstp_cancels_for_good {v : Variant} {sw : Bool} {f n t0 : Nat} {b : Bool} {s s' s'' : St} {ls : List Label} {j : Nat}
    (h : Reach v true sw f n b t0 s) (hs : step s (.s .lock) = some s') (he : Exec s' ls s'') (hj : j < n) :
    (tsAt s j = .new → Label.w j .connectBegin ∉ ls ∧ tsAt s'' j = .canceled) ∧
    (isPending (tsAt s j) = true → pc s'' j ≠ .reading) := by
  obtain ⟨ls0, he0⟩ := h
  have h' : Reach v true sw f n b t0 s' := ⟨ls0 ++ [.s .lock], Exec.snoc he0 hs⟩
  have hinv := inv_reach ⟨ls0, he0⟩
  obtain ⟨hws, hts, _⟩ := cancel_effect (step_s hs)
  have hn : s.ts.length = n := (reach_params ⟨ls0, he0⟩).2.2.2.2
  have hat := tsAt_map_cancel hts j (by omega)
  refine ⟨fun hnew => ?_, fun hpend => ?_⟩
  · have hc : tsAt s' j = .canceled := by rw [hat, hnew]; rfl
    have hp : pc s' j = .idle ∨ pc s' j = .started := by
      rw [pc_congr hws]
      have := hinv.t.ok j
      rw [hnew] at this
      revert this; cases pc s j <;> simp [okTS]
    have := canceled_unmarked_never_connected h' hp hc he
    exact ⟨this.1, this.2.1⟩
  · have hc : tsAt s' j = .canceled := by rw [hat]; simp [cancelT, hpend]
    exact canceled_never_relays h' hc he

/-! ## no deadlock -/

/-- C20: until dsh() has returned or exit() was called, some thread of pdsh — dispatcher, a worker or the
    signals thread; not the environment, not a spurious wake-up — can take a step: an interrupt arriving at any
    moment never deadlocks pdsh -/
theorem no_deadlock_with_signals {v : Variant} {g sw : Bool} {f n t0 : Nat} {b : Bool} {s : St} (hf : 0 < f)
    (h : Reach v g sw f n b t0 s) (hnf : ¬ Final s) :
    ∃ l s', l.spurious = false ∧ l.isEnv = false ∧ step s l = some s' := by
  have hinv := inv_reach h
  have hfs : 0 < s.f := by rw [(reach_params h).2.1]; exact hf
  have hx : s.exited = none := by
    cases hx : s.exited with
    | none => rfl
    | some c => exact absurd (Or.inr (by rw [hx]; rfl)) hnf
  have hr : s.dpc ≠ .returned := fun hc => hnf (Or.inl hc)
  obtain ⟨l, hp, hen⟩ := progress_move hinv hfs hx hr
  cases hs : step s l with
  | none => rw [hs] at hen; cases hen
  | some s' =>
    simp only [Label.proper, Bool.and_eq_true, Bool.not_eq_true'] at hp
    exact ⟨l, s', hp.1, hp.2, hs⟩

/-- C20 (termination): a step of a thread of pdsh other than a spurious wake-up decreases the rank `trank`; a
    spurious wake-up adds at most 2, the delivery of a signal at most `2n + 8`, a clock tick nothing, the watchdog's
    return from its sleep (repaired shutdown only) at most `2n` -/
theorem rank_decreases_with_signals {v : Variant} {g sw : Bool} {f n t0 : Nat} {b : Bool} {s s' : St} {l : Label}
    (h : Reach v g sw f n b t0 s) (hs : step s l = some s') :
    (l.proper = true → trank s' < trank s) ∧ (l.spurious = true → trank s' ≤ trank s + 2) ∧
    (l.isDeliver = true → trank s' ≤ trank s + (2 * n + 8)) ∧ (l.isTick = true → trank s' = trank s) ∧
    (l.isWdogWake = true → trank s' ≤ trank s + 2 * n) := by
  have := rank_step (inv_reach h) hs
  have hl : s.ts.length = n := (reach_params h).2.2.2.2
  have hn : sigCredit s = 2 * n + 8 := by simp [sigCredit, hl]
  rw [hn, hl] at this; exact this

/-- C20 (termination): an execution with `k` spurious wake-ups, `d` delivered signals and `w` returns of the watchdog
    from its sleep contains at most `27n + 19 + 2k + (2n + 8)d + 2n·w` steps of pdsh's own threads, whatever the
    schedule, the arrival times, the clock -/
theorem steps_bounded_with_signals {v : Variant} {g sw : Bool} {f n t0 : Nat} {b : Bool} {ls : List Label} {s : St}
    (he : Exec (init v g sw f n b t0) ls s) :
    ls.countP Label.proper + trank s ≤
      27 * n + 19 + 2 * ls.countP Label.spurious + (2 * n + 8) * ls.countP Label.isDeliver +
        2 * n * ls.countP Label.isWdogWake :=
  steps_bounded he

/-- C20 with the repaired shutdown (`sw`, the repair of F07-STALEID): dsh() asks the signals thread to end only after
    the watchdog has been cancelled and joined; the watchdog has ended by then and holds nothing; and the
    watchdog never holds threadcount_mutex.  (With `no_deadlock_with_signals`: the join cannot hang — while dsh()
    waits for the watchdog the signals thread is still alive and releases thd_mutex, which is why the watchdog is
    stopped first.) -/
theorem watchdog_stopped_first {v : Variant} {g : Bool} {f n t0 : Nat} {b : Bool} {s : St}
    (h : Reach v g true f n b t0 s) (hc : s.scan = true) :
    s.gjoin = true ∧ s.gpc = .ended ∧ s.thd ≠ .g ∧ s.own ≠ .g := by
  have hinv := inv_reach h
  have hsw : s.sw = true := by
    obtain ⟨ls, he⟩ := h
    have := exec_sw he
    simpa [init] using this
  have hj := hinv.c.joined hc hsw
  have he := (hinv.w.join hj).2
  refine ⟨hj, he, ?_, hinv.w.ownG⟩
  intro ht; have := hinv.w.thdG2 ht; rw [he] at this; cases this

/-! ## the shutdown tail: deferred cancellation of the signals thread -/

/-- C20: dsh() asks the signals thread to end (pthread_cancel, deferred) only when it is past the final drain: every
    worker is done (or its slot was canceled before a thread existed) and no slot is "connecting" or "in
    progress" — an abort that the request cuts short leaves no running command unsignalled -/
theorem cancel_requested_after_drain {v : Variant} {g sw : Bool} {f n t0 : Nat} {b : Bool} {s : St}
    (h : Reach v g sw f n b t0 s) (hc : s.scan = true) :
    (s.dpc = .finishing ∨ s.dpc = .returned) ∧
    ∀ j, j < n → (pc s j = .done ∨ pc s j = .idle) ∧ tsAt s j ≠ .rcmd ∧ tsAt s j ≠ .reading := by
  have hinv := inv_reach h
  have hd := hinv.c.fin hc
  have hfin : s.dpc.finished = true := by rcases hd with h' | h' <;> rw [h'] <;> rfl
  have hn : s.ts.length = n := (reach_params h).2.2.2.2
  refine ⟨hd, fun j hj => ?_⟩
  have hp := hinv.f.fin hfin j (by rw [← hinv.t.len, hn]; exact hj)
  have hok := hinv.t.ok j
  rcases hp with hp | hp
  · refine ⟨Or.inl hp, ?_, ?_⟩ <;> (intro hc'; rw [hp, hc'] at hok; simp [okTS] at hok)
  · refine ⟨Or.inr hp, ?_, ?_⟩ <;> (intro hc'; rw [hp, hc'] at hok; simp [okTS] at hok)

/-- C20, the repair of F20-LATEINT (the repaired shutdown `sw` joins the signals thread): when dsh() has returned —
    it goes on to free `t[]` — the signals thread has ended: whatever handler was running when the cancellation was
    requested has run to its end first -/
theorem signals_thread_ended_before_return {v : Variant} {g : Bool} {f n t0 : Nat} {b : Bool} {s : St}
    (h : Reach v g true f n b t0 s) (hr : s.dpc = .returned) : s.scan = true ∧ s.spc = .cancelled := by
  have hinv := inv_reach h
  have hsw : s.sw = true := by
    obtain ⟨ls, he⟩ := h
    have := exec_sw he
    simpa [init] using this
  have := hinv.c.ret hr
  exact ⟨this.1, this.2 hsw⟩

/-- ... and a thread that has ended takes no step: nothing walks `t[]` after the return -/
theorem ended_thread_is_silent {s : St} (hc : s.spc = .cancelled) (a : SAct) : step s (.s a) = none := by
  simp only [step]
  split
  · rfl
  · cases a <;> simp [sStep, hc]

/-- C20, the set-up / tear-down that fix f3532d1 (F20-LATEINT) and 7eedfb6 (F07-STALEID) repaired, as one statement: with
    the repaired shutdown, once dsh() has returned — it goes on to free `t[]` — neither the signals thread nor the
    watchdog takes another step, under any schedule and whatever signals are still delivered: nothing walks the
    thread array after it is freed.  (Both were asked to end only after the final drain, `cancel_requested_after_drain`,
    and dsh() waited for both, `watchdog_stopped_first`, `signals_thread_ended_before_return`.) -/
theorem thread_array_not_touched_after_free {v : Variant} {g : Bool} {f n t0 : Nat} {b : Bool} {s : St}
    (h : Reach v g true f n b t0 s) (hr : s.dpc = .returned) :
    (∀ a, step s (.s a) = none) ∧ (∀ a, step s (.g a) = none) ∧ (∀ i a, step s (.w i a) = none) := by
  have hinv := inv_reach h
  obtain ⟨hsc, hsp⟩ := signals_thread_ended_before_return h hr
  obtain ⟨_, hge, _, _⟩ := watchdog_stopped_first h hsc
  refine ⟨fun a => ended_thread_is_silent hsp a, fun a => ?_, fun i a => ?_⟩
  · simp only [step]
    split
    · rfl
    · cases a <;> simp [gStep, hge]
  · simp only [step]
    split
    · rfl
    · simp only [wStep]
      cases hp : s.ws[i]? with
      | none => rfl
      | some p =>
        have hi : i < s.ws.length := lt_of_getElem?' hp
        have hpc : pc s i = p := getD_of_getElem?' hp
        rcases hinv.f.fin (by rw [hr]; rfl) i hi with h1 | h1 <;> rw [hpc] at h1 <;> subst h1 <;>
          cases a <;> simp [wNext]

/-- C20: the cancellation takes effect only after it was requested -/
theorem ends_only_on_request {s s' : St} (hs : step s (.s .die) = some s') : s.scan = true ∧ s'.spc = .cancelled := by
  have hd := step_s hs
  simp only [sStep] at hd
  split at hd <;> simp at hd
  rename_i hg
  subst hd
  exact ⟨hg.1, rfl⟩

/-- C20 (progress during the shutdown tail, and everywhere else): until dsh() has returned or exit() was called some
    thread of pdsh can take a step *that is not the signals thread giving way to the cancellation request* — the
    handler that was running when dsh() asked it to end can take every one of its steps, or the holder of the mutex
    it needs can move — unless the signals thread is back in sigwait with the request pending, where it ends.  So
    progress depends on no cancellation point other than sigwait, whichever calls the C library treats as such -/
theorem progress_needs_only_sigwait {v : Variant} {g sw : Bool} {f n t0 : Nat} {b : Bool} {s : St} (hf : 0 < f)
    (h : Reach v g sw f n b t0 s) (hnf : ¬ Final s) :
    (∃ l s', l.spurious = false ∧ l.isEnv = false ∧ l ≠ .s .die ∧ step s l = some s') ∨
    (s.scan = true ∧ s.spc = .waiting) := by
  have hinv := inv_reach h
  have hfs : 0 < s.f := by rw [(reach_params h).2.1]; exact hf
  have hx : s.exited = none := by
    cases hx : s.exited with
    | none => rfl
    | some c => exact absurd (Or.inr (by rw [hx]; rfl)) hnf
  have hr : s.dpc ≠ .returned := fun hc => hnf (Or.inl hc)
  rcases progress_inv hinv hfs hx hr with ⟨l, hp, hne, hen⟩ | hw
  · left
    cases hs : step s l with
    | none => rw [hs] at hen; cases hen
    | some s' =>
      simp only [Label.proper, Bool.and_eq_true, Bool.not_eq_true'] at hp
      exact ⟨l, s', hp.1, hp.2, hne, hs⟩
  · exact Or.inr hw

/-- C20: no thread of pdsh holds threadcount_mutex and thd_mutex at the same time (hence no thread waits for one
    mutex while holding the other: the lock graph has no edges, let alone a cycle) -/
theorem no_nested_locks {v : Variant} {g sw : Bool} {f n t0 : Nat} {b : Bool} {s : St} (h : Reach v g sw f n b t0 s) :
    (∀ j, ¬ (s.own = .w j ∧ s.thd = .w j)) ∧ s.thd ≠ .d ∧ (s.spc ≠ .cancelled → ¬ (s.own = .s ∧ s.thd = .s)) :=
  PdshVerif.Dsh.Sig.no_nested_locks (inv_reach h).m

/-- after exit() nothing happens any more -/
theorem exit_is_end {s : St} (hx : s.exited.isSome = true) (l : Label) : step s l = none := by
  simp [step, hx]

/-! ## the set-up code as steps: `_mask_signals`, and what pdsh inherits -/

/-- C20: with `_mask_signals (SIG_BLOCK)` / `(SIG_UNBLOCK)` as steps and the inherited dispositions and mask as a
    parameter, a run is still a run of the LTS (set-up steps and signals acted on outside sigwait forgotten): every
    theorem of this file holds of it -/
theorem set_up_run_is_a_run {inh : Inh} {v : Variant} {g sw : Bool} {f n t0 : Nat} {b : Bool} {ls : List MLabel} {m : MSt}
    (h : MExec (minit inh v g sw f n b t0) ls m) : Reach v g sw f n b t0 m.p :=
  mexec_projects h

/-- C20: **what pdsh inherits makes no difference while dsh() runs**: every run of the LTS in which dsh() has not
    returned is — for every inherited state: SIGINT/SIGTSTP ignored or not, blocked or not — a run of the wrapper from
    `_mask_signals (SIG_BLOCK)` on, in which no signal was discarded, none ended or stopped the process: each was queued
    for the signals thread (the class of seeded change C20-12, where the sigwait set depended on the disposition) -/
theorem inherited_state_makes_no_difference (inh : Inh) {v : Variant} {g sw : Bool} {f n t0 : Nat} {b : Bool}
    {ls : List Label} {s : St} (h : Exec (init v g sw f n b t0) ls s) (hr : ∀ l ∈ ls, l ≠ .d .ret) :
    MExec (minit inh v g sw f n b t0) (.mask :: ls.map .proto)
      { p := s, inh := inh, ph := .masked, killed := false, stops := 0, dropped := 0 } :=
  every_run_is_masked inh h hr

/-- C20: between the two `_mask_signals` calls a signal sent to pdsh is pending for the signals thread afterwards —
    ignored or not, blocked at start or not — and nothing else has happened -/
theorem signals_queued_while_dsh_runs {m m' : MSt} {g : Sg} (hp : m.ph = .masked)
    (hs : mstep m (.proto (.e (.deliver g))) = some m') :
    g ∈ m'.p.pend ∧ m'.killed = m.killed ∧ m'.stops = m.stops ∧ m'.dropped = m.dropped ∧ m'.ph = .masked :=
  queued_while_masked hp hs

/-- C20: a signal is discarded, or ends or stops pdsh by its default action, only in a step that starts before dsh() has
    blocked anything (nothing was started) or that ends after dsh() has asked the signals thread to end — and then every
    worker is done and no host is connecting or running: no command is left unsignalled, no listing is owed -/
theorem signal_outside_sigwait_only_when_idle {inh : Inh} {v : Variant} {g sw : Bool} {f n t0 : Nat} {b : Bool}
    {ls : List MLabel} {m m' : MSt} {l : MLabel} (h : MExec (minit inh v g sw f n b t0) ls m) (hs : mstep m l = some m')
    (hc : m'.killed ≠ m.killed ∨ m'.stops ≠ m.stops ∨ m'.dropped ≠ m.dropped) :
    m.ph = .fresh ∨
    ∀ j, j < n → (pc m'.p j = .done ∨ pc m'.p j = .idle) ∧ tsAt m'.p j ≠ .rcmd ∧ tsAt m'.p j ≠ .reading := by
  rcases acted_on_only_outside hs hc with h1 | h1
  · exact Or.inl h1
  · right
    have h' : MExec (minit inh v g sw f n b t0) (ls ++ [l]) m' := .snoc h hs
    exact (cancel_requested_after_drain (mexec_projects h') (unmasked_after_cancel h' rfl h1)).2

/-- non-vacuity: -b, N = 1, pdsh started with SIGINT *ignored and blocked*; ^C while host 0 runs is queued, taken by
    sigwait, forwarded, exit(1) — as with default dispositions; the same signal before dsh() has blocked anything, default
    disposition and nothing blocked: pdsh dies of it; ignored: discarded -/
example :
    let ign : Inh := { ign := fun _ => true, blk := fun _ => true }
    let dfl : Inh := { ign := fun _ => false, blk := fun _ => false }
    let ig : Inh := { ign := fun _ => true, blk := fun _ => false }
    (mrun (minit ign .whileWait true true 1 1 true 10)
      (.mask :: ([.d .createG, .d .createS, .d .lock, .d (.create 0), .d .unlock, .w 0 .lockT, .w 0 .unlockT, .w 0 .connectBegin,
        .w 0 (.connectEnd true), .w 0 .lockT, .w 0 .time, .w 0 .unlockT,
        .e (.deliver .int), .s (.sigwait .int), .s .lockT, .s (.fwd 0), .s .unlockT, .s (.exit 1)].map .proto))).map
      (fun m => (m.p.exited, m.p.fwds, m.killed, m.dropped)) = some (some 1, [0], false, 0) ∧
    (mrun (minit dfl .whileWait true true 1 1 true 10) [.proto (.e (.deliver .int))]).map
      (fun m => (m.killed, m.p.pend)) = some (true, []) ∧
    (mrun (minit dfl .whileWait true true 1 1 true 10) [.proto (.e (.deliver .int)), .mask]) = none ∧
    (mrun (minit ig .whileWait true true 1 1 true 10) [.proto (.e (.deliver .int)), .mask]).map
      (fun m => (m.killed, m.dropped, m.p.pend)) = some (false, 1, []) ∧
    -- the dispatcher does nothing before `mask`
    (mrun (minit dfl .whileWait true true 1 1 true 10) [.proto (.d .createG)]) = none := by
  decide

/-! ## projection onto the Fan LTS (C03/C04) -/

/-- a run without cancellation is a run of the fan-out LTS of C03/C04 (with stutter steps) -/
theorem projects_to_fan {v : Variant} {g sw : Bool} {f n t0 : Nat} {b : Bool} {ls : List Label} {s : St}
    (he : Exec (init v g sw f n b t0) ls s) (hl : ∀ l ∈ ls, l ≠ .s .lock) :
    PdshVerif.Dsh.Fan.Exec (PdshVerif.Dsh.Fan.init v f n) (ls.filterMap projL) (proj s) :=
  (proj_exec he hl).1

/-- C04 carried over: with the `while` wait construct, whatever interrupts arrive (as long as none cancels), never
    more than `fanout` connections are in flight -/
theorem fanout_respected_without_cancel {g sw : Bool} {f n t0 : Nat} {b : Bool} {ls : List Label} {s : St}
    (he : Exec (init .whileWait g sw f n b t0) ls s) (hl : ∀ l ∈ ls, l ≠ .s .lock) :
    PdshVerif.Dsh.Fan.inflight (proj s) ≤ f :=
  PdshVerif.Props.C04.inflight_le_fanout ⟨_, projects_to_fan he hl⟩

/-- C03 carried over: each target is connected at most once -/
theorem once_only_without_cancel {v : Variant} {g sw : Bool} {f n t0 : Nat} {b : Bool} {ls : List Label} {s : St}
    (he : Exec (init v g sw f n b t0) ls s) (hl : ∀ l ∈ ls, l ≠ .s .lock) (i : Nat) :
    (ls.filterMap projL).count (.w i .connectBegin) ≤ 1 :=
  PdshVerif.Props.C03.once_only (projects_to_fan he hl) i

/-! ## C04 and C03 of every run, cancellations included -/

/-- C04 at full strength: `while` wait construct, every run — whatever signals arrive, whatever ^Z cancels —
    threadcount never exceeds the fanout, and the workers that hold a connection (from the begin of rcmd_connect to
    the end of rcmd_destroy) are at most `fanout` -/
theorem fanout_respected_always {g sw : Bool} {f n t0 : Nat} {b : Bool} {ls : List Label} {s : St}
    (he : Exec (init .whileWait g sw f n b t0) ls s) : s.tc ≤ f ∧ s.ws.countP connected ≤ f := by
  have hb := binv_exec he
  have hf : s.f = f := by
    have := (exec_params he).2.1
    simpa [init] using this
  have hinv := inv_exec (inv_init .whileWait g sw f n b t0) he
  have h1 : s.tc ≤ f := by rw [← hf]; exact hb.le
  refine ⟨h1, ?_⟩
  have h2 : s.ws.countP connected ≤ s.ws.countP counted :=
    List.countP_mono_left (fun p _ h => connected_counted p h)
  rw [← hinv.f.cnt] at h2
  exact Nat.le_trans h2 h1

/-- C03 at full strength: in every run, cancellations and aborts included, rcmd_connect is begun at most once per
    target -/
theorem once_only_always {v : Variant} {g sw : Bool} {f n t0 : Nat} {b : Bool} {ls : List Label} {s : St}
    (he : Exec (init v g sw f n b t0) ls s) (i : Nat) : ls.count (.w i .connectBegin) ≤ 1 := by
  have := oinv_exec (inv_init v g sw f n b t0) he (pc_init v g sw f n b t0) i
  split at this <;> omega

/-! ## non-vacuity: complete runs -/

/-- -b, N = 1: ^C while the command runs: SIGINT is forwarded to host 0 and pdsh exits with status 1 -/
example : (run (init .whileWait false false 1 1 true 10)
    [.d .createS, .d .lock, .d (.create 0), .d .unlock, .d .lock, .d .wait,
     .w 0 .lockT, .w 0 .unlockT, .w 0 .connectBegin, .w 0 (.connectEnd true), .w 0 .lockT, .w 0 .time, .w 0 .unlockT,
     .e (.deliver .int), .s (.sigwait .int), .s .lockT, .s (.fwd 0), .s .unlockT, .s (.exit 1)]).map
      (fun s => (s.fwds, s.exited)) = some ([0], some 1) := by decide

/-- not -b, N = 2, fanout 1: ^C (listing host 0), ^Z cancels host 1 (no thread yet); host 0 completes, the
    dispatcher breaks out of the loop and dsh() returns without host 1 ever being started -/
example : (run (init .whileWait false false 1 2 false 10)
    ([.d .createS, .d .lock, .d (.create 0), .d .unlock, .d .lock, .d .wait,
      .w 0 .lockT, .w 0 .unlockT, .w 0 .connectBegin, .w 0 (.connectEnd true), .w 0 .lockT, .w 0 .time, .w 0 .unlockT] ++
     [.e (.deliver .int), .s (.sigwait .int), .s (.time 10), .s (.time 10), .s .lockT, .s (.time 10), .s .unlockT,
      .e (.deliver .tstp), .s (.sigwait .tstp), .s (.time 10), .s .lock, .s .unlock] ++
     [.w 0 .lockT, .w 0 .unlockT, .w 0 .destroyBegin, .w 0 .destroyEnd, .w 0 .lock, .w 0 .signal, .w 0 .unlock,
      .d (.wake false), .d .relock, .d .unlock, .d .lock, .d .unlock, .d .cancelS, .d .ret])).map
      (fun s => (decide (s.dpc = .returned ∧ s.listed = [0] ∧ s.ncanc = 1), s.ts, s.ws)) =
    some (true, [.done, .canceled], [.done, .idle]) := by decide

/-- -b, N = 1, repaired worker and shutdown: the command has completed, dsh() has stopped the watchdog; ^C arrives and
    sigwait takes it just before dsh() asks the signals thread to end.  The request is deferred: the handler runs on
    (nothing is READING, nothing is signalled) and calls exit(1) while dsh() waits in pthread_join -/
example : (run (init .whileWait true true 1 1 true 10)
    ([.d .createG, .d .createS, .d .lock, .d (.create 0), .d .unlock, .d .lock, .d .wait,
      .w 0 .lockT, .w 0 .unlockT, .w 0 .connectBegin, .w 0 (.connectEnd true), .w 0 .lockT, .w 0 .time, .w 0 .unlockT] ++
     [.w 0 .lockT, .w 0 .unlockT, .w 0 .destroyBegin, .w 0 .destroyEnd, .w 0 .lock, .w 0 .signal, .w 0 .unlock,
      .d (.wake false), .d .relock, .d .unlock, .d .cancelG, .g .lockT, .g .unlockT, .d .joinG] ++
     [.e (.deliver .int), .s (.sigwait .int), .d .cancelS, .s .lockT, .s .unlockT, .s (.exit 1)])).map
      (fun s => (decide (s.scan = true ∧ s.dpc = .finishing), s.fwds, s.exited)) = some (true, [], some 1) := by decide

/-- the same run without the interrupt: the signals thread, in sigwait, ends on the request; dsh() joins it and
    returns; a ^C delivered afterwards is taken by nobody -/
example : (run (init .whileWait true true 1 1 true 10)
    ([.d .createG, .d .createS, .d .lock, .d (.create 0), .d .unlock, .d .lock, .d .wait,
      .w 0 .lockT, .w 0 .unlockT, .w 0 .connectBegin, .w 0 (.connectEnd true), .w 0 .lockT, .w 0 .time, .w 0 .unlockT] ++
     [.w 0 .lockT, .w 0 .unlockT, .w 0 .destroyBegin, .w 0 .destroyEnd, .w 0 .lock, .w 0 .signal, .w 0 .unlock,
      .d (.wake false), .d .relock, .d .unlock, .d .cancelG, .g .lockT, .g .unlockT, .d .joinG] ++
     [.d .cancelS, .s .die, .d .ret, .e (.deliver .int)])).map
      (fun s => (decide (s.dpc = .returned ∧ s.spc = .cancelled), (step s (.s (.sigwait .int))).isSome, s.exited)) =
    some (true, false, none) := by decide

/-- ... and dsh() cannot return before the thread has ended (repaired shutdown) -/
example : (run (init .whileWait true true 1 1 true 10)
    ([.d .createG, .d .createS, .d .lock, .d (.create 0), .d .unlock, .d .lock, .d .wait,
      .w 0 .lockT, .w 0 .unlockT, .w 0 .connectBegin, .w 0 (.connectEnd true), .w 0 .lockT, .w 0 .time, .w 0 .unlockT] ++
     [.w 0 .lockT, .w 0 .unlockT, .w 0 .destroyBegin, .w 0 .destroyEnd, .w 0 .lock, .w 0 .signal, .w 0 .unlock,
      .d (.wake false), .d .relock, .d .unlock, .d .cancelG, .g .lockT, .g .unlockT, .d .joinG] ++
     [.e (.deliver .int), .s (.sigwait .int), .d .cancelS, .s .lockT])).map
      (fun s => (step s (.d .ret)).isSome) = some false := by decide

end PdshVerif.Props.C20
