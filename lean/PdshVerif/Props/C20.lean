import PdshVerif.Dsh.Signals

/-!
# C20 — interrupts: batch ^C stops everything, interactive ^C only reports (work in progress)
-/
namespace PdshVerif.Props.C20
open PdshVerif.Dsh.Sig

/-- C20: when pdsh aborts on an interrupt it calls exit with a non-zero status -/
theorem exit_nonzero_on_abort {s s' : St} {c : Nat} (hs : step s (.s (.exit c)) = some s') :
    c = 1 ∧ s'.exited = some 1 := by
  simp only [step] at hs
  split at hs
  · simp at hs
  · simp only [sStep] at hs
    split at hs
    · split at hs
      · simp only [Option.some.injEq] at hs; subst hs; simp_all
      · simp at hs
    · simp at hs

end PdshVerif.Props.C20
