import PdshVerif.Dsh.Fan
namespace PdshVerif.Props.C04
open PdshVerif.Dsh.Fan
theorem placeholder : (init .whileWait 1 0).tc = 0 := rfl
end PdshVerif.Props.C04
