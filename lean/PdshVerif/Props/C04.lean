import PdshVerif.Dsh.FanLive
import PdshVerif.Dsh.FanExec
import PdshVerif.Dsh.FanGLive
import PdshVerif.Dsh.FanGExec
import PdshVerif.Dsh.FanX

/-!
# C04 — never more than `fanout` remote commands are in flight

Model: the labelled transition system `Dsh/Fan.lean` of `dsh()`'s dispatch loop, worker epilogue
and drain loop (threads D and W i; POSIX mutex/condvar semantics including spurious wake-ups).
`Reach v f n s` = `s` is reachable from the initial state with wait construct `v`, fanout `f` and
`n` targets by ANY sequence of labels, i.e. under every schedule and with any number of spurious
wake-ups.  `inflight s` = number of targets whose connect has begun and whose teardown has not
finished.

What is proved: the bound for the `while` construct (all f, n, schedules), that the bound FAILS for
the `if` construct of the pinned source (a decided 10-step witness with one spurious wake-up,
f = 1, n = 2), that it holds for both constructs on executions without spurious wake-ups, and work
conservation for both constructs.  What is not proved here: that dsh.c
refines the LTS (that is the trace correspondence of `checks/c04.py`), and anything about real
pthread scheduling.

The full statement `∀ v, Reach v f n s → inflight s ≤ f` is FALSE of the code as pinned
(`if_variant_exceeds`); it is proved under the explicit hypothesis `v = whileWait`.

EVERY SIGNALLING DISCIPLINE (section `G`, LTS `Dsh/FanG.lean`: each worker's wake-up call inside or after the
critical section, `pthread_cond_signal` | `pthread_cond_broadcast` no distinction; `Fan` is its sub-LTS,
`Dsh/FanGEmbed.lean`):

clause                                   | pinned discipline          | every discipline
-----------------------------------------|----------------------------|------------------------------------------
in flight ≤ fanout (`while`)             | `inflight_le_fanout`, `threadcount_le_fanout` | `G.inflight_le_fanout`, `G.threadcount_le_fanout`
`if` construct breaks it                 | `if_variant_exceeds` (one spurious wake-up), `bound_without_spurious` (only then) | `G.if_after_exceeds_without_spurious` (a LATE wake-up call does it with NO spurious wake-up: `bound_without_spurious` is a fact about the pinned discipline only), `G.while_refuses_late_witness`
next target started without waiting for anything but the dispatcher | `work_conserving`, `waits_only_when_full`, `room_enabled` | `G.work_conserving` (fanout slots accounted for by counted / locked / RELEASED workers), `G.parked_with_room_has_waker`, `G.waits_only_when_full`, `G.room_enabled`
the bound is about the fanout IN USE, which is the setting whatever RLIMIT_NOFILE is; it survives failing `pthread_create` | | `X.inflight_le_fanout_in_use`, `X.nofile_prologue` (`Dsh/FanX.lean`: the prologue `_increase_nofile_limit` and create failure as transitions around `FanG.step`; the acceptor runs `FanX.step`, the harness reports `opt->fanout` and the soft limit after dsh(): keys `nofile`, `nofile_soft`)
-/
namespace PdshVerif.Props.C04
section Pinned
open PdshVerif.Dsh.Fan

/-- `threadcount` never exceeds the fanout (`while` construct). -/
theorem threadcount_le_fanout {f n : Nat} {s : St} (h : Reach .whileWait f n s) : s.tc ≤ f := by
  obtain ⟨ls, he⟩ := h
  have hb := bound_exec (s0 := init .whileWait f n) rfl (inv_init _ f n) (bound_init _ f n) he
  have := (exec_params he).2.1
  simp [init] at this
  rw [← this]; exact hb.le

/-- C04, first clause: at every reachable state — every schedule, any number of spurious wake-ups,
    every fanout and number of targets — at most `fanout` connections are in flight (`while`). -/
theorem inflight_le_fanout {f n : Nat} {s : St} (h : Reach .whileWait f n s) : inflight s ≤ f := by
  have h1 := threadcount_le_fanout h
  have h2 := (inv_reach h).cnt
  have h3 := flying_le_counted s.ws
  unfold inflight; omega

/-- The pinned source's `if`: D creates W0, parks with threadcount = fanout = 1, is woken
    spuriously, does not re-test, creates W1; both connect. -/
def witnessTrace : List Label :=
  [.d .lock, .d (.create 0), .d .unlock, .d .lock, .d .wait, .d (.wake true), .d .relock, .d (.create 1),
   .w 0 .connectBegin, .w 1 .connectBegin]

/-- C04 is violated by the `if` construct: fanout 1, two targets, ONE spurious wake-up, two
    connections in flight.  (This is defect D3 of the pinned source; the harness reproduces exactly
    this schedule on the real dsh.c.) -/
theorem if_variant_exceeds :
    ∃ s, Exec (init .ifWait 1 2) witnessTrace s ∧ witnessTrace.countP Label.spurious = 1 ∧
      s.f = 1 ∧ inflight s = 2 := by
  have h : (run (init .ifWait 1 2) witnessTrace).map (fun s => (s.f, inflight s)) = some (1, 2) := by decide
  cases hr : run (init .ifWait 1 2) witnessTrace with
  | none => rw [hr] at h; cases h
  | some s =>
    rw [hr] at h; simp at h
    exact ⟨s, exec_of_run hr, by decide, h.1, h.2⟩

/-- ... and ONLY a spurious wake-up can break the bound: an execution of EITHER construct that
    contains no spurious wake-up keeps at most `fanout` connections in flight.  (This is why the open
    finding's signature is restricted to schedules that contain a spurious wake-up: an excess without
    one would be a different, new defect.) -/
theorem bound_without_spurious {v : Variant} {f n : Nat} {ls : List Label} {s : St}
    (he : Exec (init v f n) ls s) (hns : ∀ l ∈ ls, l.spurious = false) : inflight s ≤ f := by
  have hb := boundNS_exec (inv_init v f n) (boundNS_init v f n) he hns
  have hf := (exec_params he).2.1
  simp [init] at hf
  have h2 := (inv_exec (inv_init v f n) he).cnt
  have h3 := flying_le_counted s.ws
  have := hb.le
  unfold inflight; omega

/-- the same ten labels are not an execution of the repaired construct: after the spurious wake-up
    the dispatcher waits again -/
theorem while_variant_refuses_witness : run (init .whileWait 1 2) witnessTrace = none := by decide

/-- C04, second clause (work conservation), both constructs: whenever the dispatcher is parked in the
    dispatch loop and has not been signalled, `fanout` slots are taken — by workers that are counted
    in `threadcount`, or by the one worker that has already decremented it and is about to signal
    (it holds the mutex).  So the dispatcher never sits in `pthread_cond_wait` while there is room and
    nobody is on the way to wake it. -/
theorem work_conserving {v : Variant} {f n : Nat} {s : St} (h : Reach v f n s)
    (hp : s.dpc = .parked) (hs : s.sig = false) : s.tc + s.ws.countP isLocked = f := by
  have := (inv_reach h).park hp hs
  rw [(reach_params h).2.1] at this; exact this

/-- the dispatcher decides to wait only when `threadcount = fanout` (both constructs) -/
theorem waits_only_when_full {v : Variant} {f n : Nat} {s : St} (h : Reach v f n s)
    (hp : s.dpc = .wait) : s.tc = f := by
  have := (inv_reach h).waitEq hp
  rw [(reach_params h).2.1] at this; exact this

/-- with room (`threadcount ≠ fanout`) the dispatcher's lock leads straight to `pthread_create`: it
    waits for nothing but being scheduled and the mutex -/
theorem room_enabled {s : St} (hd : s.dpc = .top) (ho : s.own = .none) (hr : s.f ≠ s.tc) :
    ∃ s', step s (.d .lock) = some s' ∧ s'.dpc = .create := by
  refine ⟨_, by simp only [step, hd, ho]; rfl, ?_⟩
  simp [roomTest, hr]

/-- non-vacuity: a reachable state of the `while` construct with `fanout` connections in flight -/
example : ∃ s, Reach .whileWait 2 3 s ∧ inflight s = 2 := by
  have h : (run (init .whileWait 2 3)
      [.d .lock, .d (.create 0), .d .unlock, .d .lock, .d (.create 1), .d .unlock, .d .lock, .d .wait,
       .w 0 .connectBegin, .w 1 .connectBegin]).map inflight = some 2 := by decide
  cases hr : run (init .whileWait 2 3)
      [.d .lock, .d (.create 0), .d .unlock, .d .lock, .d (.create 1), .d .unlock, .d .lock, .d .wait,
       .w 0 .connectBegin, .w 1 .connectBegin] with
  | none => rw [hr] at h; cases h
  | some s => rw [hr] at h; simp at h; exact ⟨s, ⟨_, exec_of_run hr⟩, h⟩

end Pinned

/-! ## the same, for every signalling discipline (`Dsh/FanG.lean`)

`FanG` leaves open where each worker's wake-up call sits (before or after its unlock) and which call it is
(`pthread_cond_signal` | `pthread_cond_broadcast`: the dispatcher is the only waiter, no distinction).  The bound of
the `while` construct does not depend on any of that.  Work conservation changes its wording: a worker that unlocks
first leaves a window in which the dispatcher is parked although `threadcount < fanout`; what holds is that in that
window somebody who WILL wake the dispatcher exists.  And the `if` construct is worse off than under the pinned
discipline: a late wake-up call breaks the bound without any spurious wake-up. -/
namespace G
open PdshVerif.Dsh.FanG

/-- `threadcount` never exceeds the fanout (`while` construct), whatever the discipline. -/
theorem threadcount_le_fanout {f n : Nat} {s : St} (h : Reach .whileWait f n s) : s.tc ≤ f := by
  obtain ⟨ls, he⟩ := h
  have hb := bound_exec (s0 := init .whileWait f n) rfl (inv_init _ f n) (bound_init _ f n) he
  have := (exec_params he).2.1
  simp [init] at this
  rw [← this]; exact hb.le

/-- C04, first clause, every discipline: at every reachable state — every schedule, any number of spurious
    wake-ups, every fanout and number of targets, wake-up calls inside or after the critical section in any
    mixture — at most `fanout` connections are in flight (`while`). -/
theorem inflight_le_fanout {f n : Nat} {s : St} (h : Reach .whileWait f n s) : inflight s ≤ f := by
  have h1 := threadcount_le_fanout h
  have h2 := (inv_reach h).cnt
  have h3 := flying_le_counted s.ws
  unfold inflight; omega

/-- C04, second clause (work conservation), both constructs, every discipline: whenever the dispatcher is parked in
    the dispatch loop and has not been signalled, `fanout` slots are accounted for — by workers counted in
    `threadcount`, by workers that have decremented it and hold the mutex (about to signal or to unlock), or by
    workers that have unlocked and are about to make their wake-up call. -/
theorem work_conserving {v : Variant} {f n : Nat} {s : St} (h : Reach v f n s)
    (hp : s.dpc = .parked) (hs : s.sig = false) :
    f ≤ s.tc + s.ws.countP isLocked + s.ws.countP isReleased := by
  have := (inv_reach h).park hp hs
  rw [(reach_params h).2.1] at this; exact this

/-- so: parked, not signalled, and yet there is room — then a worker whose wake-up call is still to come exists (and
    that call is enabled or one step away: `Props/C03.G.progress`).  The dispatcher never sits in
    `pthread_cond_wait` with room and NOBODY on the way to wake it. -/
theorem parked_with_room_has_waker {v : Variant} {f n : Nat} {s : St} (h : Reach v f n s)
    (hp : s.dpc = .parked) (hs : s.sig = false) (hroom : s.tc < f) :
    ∃ j, pc s j = .locked ∨ pc s j = .released := by
  have hw := work_conserving h hp hs
  by_cases hl : 0 < s.ws.countP isLocked
  · obtain ⟨j, hj, _⟩ := exists_of_countP_pos isLocked hl
    refine ⟨j, Or.inl ?_⟩
    show s.ws.getD j .idle = .locked
    revert hj; cases s.ws.getD j .idle <;> simp [isLocked]
  · have hr : 0 < s.ws.countP isReleased := by omega
    obtain ⟨j, hj, _⟩ := exists_of_countP_pos isReleased hr
    refine ⟨j, Or.inr ?_⟩
    show s.ws.getD j .idle = .released
    revert hj; cases s.ws.getD j .idle <;> simp [isReleased]

/-- the dispatcher decides to wait only when `threadcount = fanout` (both constructs, every discipline) -/
theorem waits_only_when_full {v : Variant} {f n : Nat} {s : St} (h : Reach v f n s)
    (hp : s.dpc = .wait) : s.tc = f := by
  have := (inv_reach h).waitEq hp
  rw [(reach_params h).2.1] at this; exact this

/-- with room the dispatcher's lock leads straight to `pthread_create` -/
theorem room_enabled {s : St} (hd : s.dpc = .top) (ho : s.own = .none) (hr : s.f ≠ s.tc) :
    ∃ s', step s (.d .lock) = some s' ∧ s'.dpc = .create := by
  refine ⟨_, by simp only [step, hd, ho]; rfl, ?_⟩
  simp [roomTest, hr]

/-- fanout 2, five targets, `if` construct, NO spurious wake-up: worker 0 gives its slot back and unlocks, worker 1
    finishes with an ordinary signal, the dispatcher starts workers 2 and 3 and parks again (threadcount = 2);
    worker 0's wake-up call arrives only now, the `if` does not re-test, worker 4 is started: three in flight. -/
def lateWitness : List Label :=
  [.d .lock, .d (.create 0), .d .unlock, .d .lock, .d (.create 1), .d .unlock, .d .lock, .d .wait,
   .w 0 .connectBegin, .w 0 .connectEnd, .w 0 .destroyBegin, .w 0 .destroyEnd, .w 0 .lock, .w 0 .unlockFirst,
   .w 1 .connectBegin, .w 1 .connectEnd, .w 1 .destroyBegin, .w 1 .destroyEnd, .w 1 .lock, .w 1 .signal,
   .w 1 .unlock, .d (.wake false), .d .relock, .d (.create 2), .d .unlock, .d .lock, .d (.create 3), .d .unlock,
   .d .lock, .d .wait, .w 0 .signalAfter, .d (.wake false), .d .relock, .d (.create 4),
   .w 2 .connectBegin, .w 3 .connectBegin, .w 4 .connectBegin]

/-- `Props/C04.bound_without_spurious` (the pinned `if` keeps the bound as long as no wake-up is spurious) is a fact
    about the pinned discipline ONLY: with the wake-up call after the unlock the `if` construct exceeds the fanout
    without a single spurious wake-up.  The harmless-looking "signal after unlock" is harmless because of the
    `while`. -/
theorem if_after_exceeds_without_spurious :
    ∃ s, Exec (init .ifWait 2 5) lateWitness s ∧ lateWitness.countP Label.spurious = 0 ∧
      s.f = 2 ∧ inflight s = 3 := by
  have h : (run (init .ifWait 2 5) lateWitness).map (fun s => (s.f, inflight s)) = some (2, 3) := by decide
  cases hr : run (init .ifWait 2 5) lateWitness with
  | none => rw [hr] at h; cases h
  | some s =>
    rw [hr] at h; simp at h
    exact ⟨s, exec_of_run hr, by decide, h.1, h.2⟩

/-- the repaired construct refuses that trace: after the late wake-up call the dispatcher re-tests and waits -/
theorem while_refuses_late_witness : run (init .whileWait 2 5) lateWitness = none := by decide

/-- non-vacuity: a reachable state of the `while` construct with `fanout` connections in flight, the dispatcher
    parked with room (threadcount 1 < 2) while worker 0 is between its unlock and its wake-up call -/
example : ∃ s, Reach .whileWait 2 3 s ∧ s.dpc = .parked ∧ s.sig = false ∧ s.tc = 1 ∧ pc s 0 = .released := by
  have h : (run (init .whileWait 2 3)
      [.d .lock, .d (.create 0), .d .unlock, .d .lock, .d (.create 1), .d .unlock, .d .lock, .d .wait,
       .w 0 .connectBegin, .w 0 .connectEnd, .w 0 .destroyBegin, .w 0 .destroyEnd, .w 0 .lock,
       .w 0 .unlockFirst]).map (fun s => (s.dpc, s.sig, s.tc, pc s 0)) = some (.parked, false, 1, .released) := by
    decide
  cases hr : run (init .whileWait 2 3)
      [.d .lock, .d (.create 0), .d .unlock, .d .lock, .d (.create 1), .d .unlock, .d .lock, .d .wait,
       .w 0 .connectBegin, .w 0 .connectEnd, .w 0 .destroyBegin, .w 0 .destroyEnd, .w 0 .lock,
       .w 0 .unlockFirst] with
  | none => rw [hr] at h; cases h
  | some s => rw [hr] at h; simp at h; exact ⟨s, ⟨_, exec_of_run hr⟩, h.1, h.2.1, h.2.2.1, h.2.2.2⟩

end G

/-! ## the fanout IN USE (`Dsh/FanX.lean`: the descriptor limit and failing `pthread_create` as transitions)

`_increase_nofile_limit` runs before the dispatch loop and may raise the soft descriptor limit; what the loop then
compares `threadcount` with is `opt->fanout` as that prologue left it -- the fanout in use.  In the code it IS the
setting, for every limit (`FanX.increaseNofile_fanout`); the bound is proved for the fanout in use and hence for the
setting, in every environment: any soft / hard limit, `getrlimit` / `setrlimit` failing, `pthread_create` failing. -/
namespace X
open PdshVerif.Dsh PdshVerif.Dsh.FanX

/-- C04 in every environment (`while`): at every point of every execution at most `fanout in use` connections are in
    flight, the fanout in use is the setting, and so is the bound -- whatever RLIMIT_NOFILE is, whether or not it could
    be raised, and also when pdsh stops because a worker could not be created -/
theorem inflight_le_fanout_in_use {setting n : Nat} {k : Bool} {ls : List FanX.Label} {s : FanX.St}
    (he : FanX.Exec (FanX.init .whileWait setting n k) ls s) :
    FanG.inflight s.g ≤ s.g.f ∧ s.g.f = setting ∧ s.g.tc ≤ setting := by
  have hex := (proj_exec he).1
  have hf : s.g.f = setting := (FanG.exec_params hex).2.1
  exact ⟨by rw [hf]; exact G.inflight_le_fanout ⟨_, hex⟩, hf, G.threadcount_le_fanout ⟨_, hex⟩⟩

/-- the prologue as a function: a soft limit below the hard limit and not above 2·fanout+32 is raised to the hard
    limit when `setrlimit` works, otherwise left alone; never lowered; the fanout comes back unchanged -/
theorem nofile_prologue (fanout cur max : Nat) (getOk setOk : Bool) :
    (increaseNofile fanout cur max getOk setOk).2 = fanout ∧
    cur ≤ (increaseNofile fanout cur max getOk setOk).1 ∧
    (getOk = true → setOk = true → cur < max → cur ≤ 2 * fanout + 32 →
      (increaseNofile fanout cur max getOk setOk).1 = max) :=
  ⟨increaseNofile_fanout .., (increaseNofile_soft ..).1, by
    intro h1 h2 h3 h4; subst h1; subst h2; simp [increaseNofile, nfds, h3, h4]⟩

/-- non-vacuity, limits 30 / 40 (the soft limit is raised, the fanout stays 2): three targets, two in flight, the
    dispatcher waits -/
example : (FanX.run (FanX.init .whileWait 2 3 false)
    [.nofile 30 40 true true, .g (.d .lock), .g (.d (.create 0)), .g (.d .unlock), .g (.d .lock), .g (.d (.create 1)),
     .g (.d .unlock), .g (.w 0 .connectBegin), .g (.w 1 .connectBegin), .g (.d .lock), .g (.d .wait)]).map
      (fun s => (s.soft, s.g.f, FanG.inflight s.g, s.g.dpc)) = some (40, 2, 2, .parked) := by decide

end X

end PdshVerif.Props.C04
