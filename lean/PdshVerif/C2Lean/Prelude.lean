/-
  Hand-written support for the GENERATED files `PdshVerif/Gen/Fn*.lean` (tools/c2lean.py): the Lean
  models of the few libc functions translated code may call, and of reads from NUL-terminated strings.
  Core Lean only.  TRUSTED (tools/c2lean.md, "what is trusted"): these definitions are not derived from
  glibc; they state what the C standard / the C locale say.

  * a C string is a `List Char` whose code points are byte values 1..255 (no NUL); position
    `s.length` holds the terminating NUL and may be read, positions beyond may not (the translator emits
    that bound as an undefined-behaviour check at every read);
  * plain `char` is SIGNED on x86-64 (gcc and clang): bytes 128..255 read as -128..-1;
  * `is*()` are modelled by their TRUTH VALUE only (glibc returns a mask bit, not 1): the translator refuses
    any use of their value other than as a condition;
  * `strcmp` is modelled by the SIGN of the first byte difference (bytes compared as `unsigned char`);
    the C standard specifies no more than the sign.
-/
namespace PdshVerif.C2Lean

/-- the value of a byte read through a (signed) `char` lvalue -/
def schar (c : Char) : Int :=
  if c.toNat % 256 < 128 then ((c.toNat % 256 : Nat) : Int) else ((c.toNat % 256 : Nat) : Int) - 256

/-- `s[i]` for `0 ≤ i ≤ strlen(s)`; the cell at `strlen(s)` is the NUL -/
def strAt (s : List Char) (i : Nat) : Int :=
  match s[i]? with
  | some c => schar c
  | none => 0

/-- C locale `isdigit(c) != 0` for an `int` argument -/
def isdigitP (c : Int) : Prop := 48 ≤ c ∧ c ≤ 57
instance (c : Int) : Decidable (isdigitP c) := by unfold isdigitP; exact inferInstance

/-- C locale `isspace(c) != 0`: SP, \t \n \v \f \r -/
def isspaceP (c : Int) : Prop := c = 32 ∨ (9 ≤ c ∧ c ≤ 13)
instance (c : Int) : Decidable (isspaceP c) := by unfold isspaceP; exact inferInstance

def isupperP (c : Int) : Prop := 65 ≤ c ∧ c ≤ 90
instance (c : Int) : Decidable (isupperP c) := by unfold isupperP; exact inferInstance
def islowerP (c : Int) : Prop := 97 ≤ c ∧ c ≤ 122
instance (c : Int) : Decidable (islowerP c) := by unfold islowerP; exact inferInstance
def isalphaP (c : Int) : Prop := isupperP c ∨ islowerP c
instance (c : Int) : Decidable (isalphaP c) := by unfold isalphaP; exact inferInstance
def isalnumP (c : Int) : Prop := isalphaP c ∨ isdigitP c
instance (c : Int) : Decidable (isalnumP c) := by unfold isalnumP; exact inferInstance
def isxdigitP (c : Int) : Prop := isdigitP c ∨ (65 ≤ c ∧ c ≤ 70) ∨ (97 ≤ c ∧ c ≤ 102)
instance (c : Int) : Decidable (isxdigitP c) := by unfold isxdigitP; exact inferInstance

/-- sign of `strcmp(a, b)` -/
def strcmpS : List Char → List Char → Int
  | [], [] => 0
  | [], _ :: _ => -1
  | _ :: _, [] => 1
  | a :: as, b :: bs =>
    if a.toNat % 256 = b.toNat % 256 then strcmpS as bs
    else if a.toNat % 256 < b.toNat % 256 then -1 else 1

/-- the byte `strchr` looks for: its `int` argument converted to `char` -/
def toChar (c : Int) : Int := (c + 128) % 256 - 128

/-- `strchr(s, c) != NULL`: the byte occurs in the string or is the terminating NUL itself -/
def strchrP (s : List Char) (c : Int) : Prop := (s.any fun ch => schar ch == toChar c) = true ∨ toChar c = 0
instance (s : List Char) (c : Int) : Decidable (strchrP s c) := by unfold strchrP; exact inferInstance

/-- an argument of a recorded call: integers and read-only strings are kept, everything else
    (pointers the translated code does not look through, format strings) is `other` -/
inductive Arg where
  | int (v : Int)
  | str (s : List Char)
  | other
  deriving DecidableEq, Repr

/-- one call of a function the registry declares as an EFFECT of the translated function: the
    translated function returns the list of these calls, in order, as its last result -/
structure Ev where
  name : String
  args : List Arg
  deriving DecidableEq, Repr

end PdshVerif.C2Lean
