/-
  The arithmetic on the C locals of `cbuf_find_replay_line` (n, chars, lines, m, l), free of any
  notion of buffer: what happens for one byte, when the loop stops, what is done before and after
  the loop.  Shared by the index model (`ModelLine.lean`: the loop walks the circular array
  backwards from i_out to i_rep) and by the specification (`SpecLine.lean`: the same steps over
  the list of replayable bytes, newest first).
-/
namespace PdshVerif.Cbuf

/-- the C locals n, chars, lines, m, l -/
structure RScan where
  n : Nat
  chars : Int
  lines : Int
  m : Nat
  l : Int
  deriving Repr, DecidableEq

/-- the body of the loop for the byte `b` found at the (already decremented) index -/
def RScan.feed (s : RScan) (b : UInt8) : RScan :=
  let n := s.n + 1
  let chars := if s.chars > 0 then s.chars - 1 else s.chars
  let isNl := b = 10
  { n := n, chars := chars,
    lines := if isNl ∧ s.lines > 0 then s.lines - 1 else s.lines,
    m := if isNl then n - 1 else s.m,            -- "do not include preceding '\n'"
    l := if isNl then s.l + 1 else s.l }

/-- `if ((chars == 0) || (lines == 0)) break;` -/
def RScan.stop (s : RScan) : Bool := decide (s.chars = 0 ∨ s.lines = 0)

/-- before the loop, given whether the newest replayable byte is a newline: (scan state, nl).
    "Since the most recent line of replay data is considered implicitly terminated, decrement the
    char count to account for the newline if one is not present, or increment the line count if
    one is." -/
def replayInit (lastIsNl : Bool) (chars lines : Int) : RScan × Nat :=
  let chars := if lines > 0 then -1 else chars + 1
  if lastIsNl then ({ n := 0, chars := chars, lines := if lines > 0 then lines + 1 else lines, m := 0, l := -1 }, 0)
  else ({ n := 0, chars := chars - 1, lines := lines, m := 0, l := 0 }, 1)

/-- after the loop: "the first line written in does not need a preceding newline" (only when the
    data never wrapped), then all or none; (bytes, lines found) -/
def replayFinish (gotWrap : Bool) (s : RScan) : Nat × Int :=
  let s := if !gotWrap ∧ (s.chars > 0 ∨ s.lines > 0) then
      { s with lines := if s.lines > 0 then s.lines - 1 else s.lines, m := s.n, l := s.l + 1 }
    else s
  if s.lines > 0 then (0, 0) else (s.m, s.l)

/-- the loop over a list of bytes, newest first -/
def scanList : List UInt8 → RScan → RScan
  | [], s => s
  | b :: rest, s => let s' := s.feed b; if s'.stop then s' else scanList rest s'

/-- the scan never reports more bytes than it has seen, and sees at most the whole list -/
theorem scanList_bounds (l : List UInt8) (s : RScan) (h : s.m ≤ s.n) :
    (scanList l s).m ≤ (scanList l s).n ∧ (scanList l s).n ≤ s.n + l.length ∧ s.n ≤ (scanList l s).n := by
  induction l generalizing s with
  | nil => exact ⟨h, by simp [scanList], by simp [scanList]⟩
  | cons b rest ih =>
    have hf1 : (s.feed b).m ≤ (s.feed b).n := by
      simp only [RScan.feed]; split <;> omega
    have hf2 : (s.feed b).n = s.n + 1 := rfl
    have hrec := ih (s.feed b) hf1
    simp only [scanList, List.length_cons]
    generalize s.feed b = s' at hf1 hf2 hrec ⊢
    by_cases hst : s'.stop = true
    · simp only [hst, if_true]; omega
    · simp only [hst, if_false, Bool.false_eq_true]; omega

theorem replayFinish_le (w : Bool) (s : RScan) (h : s.m ≤ s.n) : (replayFinish w s).1 ≤ s.n := by
  unfold replayFinish
  by_cases h1 : ((!w) = true ∧ (s.chars > 0 ∨ s.lines > 0))
  · simp only [h1, and_self, if_true]
    by_cases h2 : (if s.lines > 0 then s.lines - 1 else s.lines) > 0
    · simp only [h2, if_true]; exact Nat.zero_le _
    · simp only [h2, if_false]; exact Nat.le_refl _
  · simp only [h1, if_false]
    by_cases h2 : s.lines > 0
    · simp only [h2, if_true]; exact Nat.zero_le _
    · simp only [h2, if_false]; exact h

end PdshVerif.Cbuf
