/-
  `cbuf_find_unread_line` scans exactly the unread contents: list-level reformulation and its
  relation to the specification's line functions.
-/
import PdshVerif.Cbuf.Refine

namespace PdshVerif.Cbuf

/-- the scan loop of `cbuf_find_unread_line` over the list of unread bytes -/
def findList : List UInt8 → Nat → Int → Int → Nat → Nat → Nat × Nat × Int
  | [], _, _, lines, m, l => (m, l, lines)
  | b :: rest, n, chars, lines, m, l =>
    let n := n + 1
    let chars := if chars > 0 then chars - 1 else chars
    let isNl := b = 10
    let lines := if isNl ∧ lines > 0 then lines - 1 else lines
    let m := if isNl then n else m
    let l := if isNl then l + 1 else l
    if chars = 0 ∨ lines = 0 then (m, l, lines)
    else findList rest n chars lines m l

theorem findLoop_eq_findList (d : Array UInt8) (size iIn : Nat) (k : Nat) :
    ∀ (fuel i n : Nat) (chars lines : Int) (m l : Nat),
      k < fuel → i ≤ size → k ≤ size → iIn ≤ size →
      ((i + k < size + 1 → iIn = i + k) ∧ (size + 1 ≤ i + k → iIn + (size + 1) = i + k)) →
      findLoop d size iIn fuel i n chars lines m l =
        findList (circRead d (size + 1) i k) n chars lines m l := by
  induction k with
  | zero =>
    intro fuel i n chars lines m l hf hi _ _ hrel
    have : i = iIn := by omega
    cases fuel with
    | zero => omega
    | succ fuel => simp [findLoop, this, circRead, findList]
  | succ k ih =>
    intro fuel i n chars lines m l hf hi hk hin hrel
    cases fuel with
    | zero => omega
    | succ fuel =>
      have hne : i ≠ iIn := by omega
      simp only [findLoop, hne, if_false, circRead, findList]
      have himod : i % (size + 1) = i := Nat.mod_eq_of_lt (by omega)
      rw [himod]
      have hnext := @wrap_cases (i + 1) (size + 1) (by omega)
      rw [ih fuel ((i + 1) % (size + 1)) (n + 1) _ _ _ _ (by omega)
            (by have := Nat.mod_lt (i + 1) (show 0 < size + 1 by omega); omega) (by omega) hin (by omega)]
      rw [circRead_mod]

/-- on a valid buffer the scan runs over the unread contents -/
theorem findLoop_contents {c : Cbuf} (hi : Inv c) (chars lines : Int) :
    findLoop c.data c.size c.iIn (c.size + 2) c.iOut 0 chars lines 0 0 =
      findList (contents c) 0 chars lines 0 0 := by
  have := hi.used; have := hi.iout; have := hi.iin; have := hi.inout
  exact findLoop_eq_findList c.data c.size c.iIn c.used (c.size + 2) c.iOut 0 chars lines 0 0
    (by omega) (by omega) (by omega) (by omega) (by omega)

end PdshVerif.Cbuf

namespace PdshVerif.Cbuf

/-! ### `lines > 0`: exactly that many lines, all or nothing -/

theorem findList_lines_some (q : List UInt8) :
    ∀ (n m l k p : Nat), 0 < k → Spec.afterNthNl q k = some p →
      findList q n (-1) (k : Int) m l = (n + p, l + k, 0) := by
  induction q with
  | nil =>
    intro n m l k p hk h
    cases k with
    | zero => omega
    | succ k => simp [Spec.afterNthNl] at h
  | cons b r ih =>
    intro n m l k p hk h
    cases k with
    | zero => omega
    | succ k =>
      simp only [Spec.afterNthNl] at h
      simp only [findList]
      have hch : ¬ ((-1 : Int) > 0) := by omega
      simp only [hch, if_false]
      by_cases hb : b = 10
      · simp only [hb, if_true] at h
        have hpos : ((k + 1 : Nat) : Int) > 0 := by omega
        simp only [hb, true_and, hpos, if_true]
        cases hr : Spec.afterNthNl r k with
        | none => simp [hr] at h
        | some p' =>
          simp only [hr, Option.map_some, Option.some.injEq] at h
          by_cases hk0 : k = 0
          · subst hk0
            simp only [Spec.afterNthNl, Option.some.injEq] at hr
            subst hr; subst h
            simp
          · have hne : ¬ ((-1 : Int) = 0 ∨ ((k + 1 : Nat) : Int) - 1 = 0) := by omega
            simp only [hne, if_false]
            have hcast : ((k + 1 : Nat) : Int) - 1 = (k : Int) := by omega
            rw [hcast, ih (n + 1) (n + 1) (l + 1) k p' (by omega) hr]
            subst h
            simp only [Prod.mk.injEq, and_true]
            omega
      · simp only [hb, if_false] at h
        simp only [hb, false_and, if_false]
        cases hr : Spec.afterNthNl r (k + 1) with
        | none => simp [hr] at h
        | some p' =>
          simp only [hr, Option.map_some, Option.some.injEq] at h
          have hne : ¬ ((-1 : Int) = 0 ∨ ((k + 1 : Nat) : Int) = 0) := by omega
          simp only [hne, if_false]
          rw [ih (n + 1) m l (k + 1) p' (by omega) hr]
          subst h
          simp only [Prod.mk.injEq, and_true, true_and]
          omega

theorem findList_lines_none (q : List UInt8) :
    ∀ (n m l k : Nat), 0 < k → Spec.afterNthNl q k = none →
      (findList q n (-1) (k : Int) m l).2.2 > 0 := by
  induction q with
  | nil =>
    intro n m l k hk _
    simp only [findList]; omega
  | cons b r ih =>
    intro n m l k hk h
    cases k with
    | zero => omega
    | succ k =>
      simp only [Spec.afterNthNl] at h
      simp only [findList]
      have hch : ¬ ((-1 : Int) > 0) := by omega
      simp only [hch, if_false]
      by_cases hb : b = 10
      · simp only [hb, if_true] at h
        have hpos : ((k + 1 : Nat) : Int) > 0 := by omega
        simp only [hb, true_and, hpos, if_true]
        cases hr : Spec.afterNthNl r k with
        | some p' => simp [hr] at h
        | none =>
          have hk0 : k ≠ 0 := by
            intro h0; subst h0; simp [Spec.afterNthNl] at hr
          have hne : ¬ ((-1 : Int) = 0 ∨ ((k + 1 : Nat) : Int) - 1 = 0) := by omega
          simp only [hne, if_false]
          have hcast : ((k + 1 : Nat) : Int) - 1 = (k : Int) := by omega
          rw [hcast]
          exact ih (n + 1) (n + 1) (l + 1) k (by omega) hr
      · simp only [hb, if_false] at h
        simp only [hb, false_and, if_false]
        cases hr : Spec.afterNthNl r (k + 1) with
        | some p' => simp [hr] at h
        | none =>
          have hne : ¬ ((-1 : Int) = 0 ∨ ((k + 1 : Nat) : Int) = 0) := by omega
          simp only [hne, if_false]
          exact ih (n + 1) m l (k + 1) (by omega) hr

end PdshVerif.Cbuf

namespace PdshVerif.Cbuf

/-! ### `lines = -1`: as many whole lines as fit into `chars` bytes -/

theorem wholeLinesLen_nil : Spec.wholeLinesLen [] = 0 := by simp [Spec.wholeLinesLen]

theorem wholeLinesLen_cons (b : UInt8) (t : List UInt8) :
    Spec.wholeLinesLen (b :: t) =
      if Spec.wholeLinesLen t > 0 then Spec.wholeLinesLen t + 1 else if b = 10 then 1 else 0 := by
  unfold Spec.wholeLinesLen
  simp only [List.reverse_cons, List.dropWhile_append]
  generalize List.dropWhile (fun x => decide (x ≠ 10)) t.reverse = D
  cases D with
  | nil =>
    simp only [List.isEmpty_nil, if_true, List.length_nil, Nat.lt_irrefl, if_false, gt_iff_lt]
    by_cases hb : b = 10 <;> simp [List.dropWhile, hb]
  | cons x xs => simp

theorem findList_chars (q : List UInt8) :
    ∀ (n m l ch : Nat), 0 < ch →
      findList q n (ch : Int) (-1) m l =
        ((if Spec.wholeLinesLen (q.take ch) = 0 then m else n + Spec.wholeLinesLen (q.take ch)),
         l + (q.take ch).count 10, -1) := by
  induction q with
  | nil => intro n m l ch _; simp [findList, wholeLinesLen_nil]
  | cons b r ih =>
    intro n m l ch hch
    cases ch with
    | zero => omega
    | succ ch =>
      simp only [findList, List.take_succ_cons]
      have hpos : ((ch + 1 : Nat) : Int) > 0 := by omega
      have hl : ¬ ((-1 : Int) > 0) := by omega
      simp only [hpos, if_true, hl, and_false, if_false]
      have hcast : ((ch + 1 : Nat) : Int) - 1 = (ch : Int) := by omega
      rw [hcast]
      simp only [wholeLinesLen_cons]
      by_cases hc0 : ch = 0
      · subst hc0
        simp only [Int.natCast_zero, true_or, if_true, List.take_zero, wholeLinesLen_nil, Nat.lt_irrefl, if_false]
        by_cases hb : b = 10 <;> simp [hb]
      · have hne : ¬ ((ch : Int) = 0 ∨ (-1 : Int) = 0) := by omega
        simp only [hne, if_false]
        rw [ih (n + 1) _ _ ch (by omega)]
        by_cases hw : Spec.wholeLinesLen (r.take ch) = 0
        · simp only [hw, if_true, Nat.lt_irrefl, if_false]
          by_cases hb : b = 10 <;> simp [hb, List.count_cons] <;> omega
        · have hwp : Spec.wholeLinesLen (r.take ch) > 0 := by omega
          simp only [hw, if_false, hwp, if_true]
          have : ¬ (Spec.wholeLinesLen (r.take ch) + 1 = 0) := by omega
          simp only [this, if_false]
          by_cases hb : b = 10 <;> simp [hb, List.count_cons] <;> omega

/-- `cbuf_find_unread_line` returns the specification's byte count -/
theorem findUnreadLine_refines {c : Cbuf} (hi : Inv c) (chars lines : Int) (hl : lines ≥ -1) :
    (findUnreadLine c chars lines).1 = Spec.lineBytes (abs c) chars lines := by
  unfold findUnreadLine Spec.lineBytes
  simp only [abs_q]
  by_cases h1 : lines = 0 ∨ (lines ≤ -1 ∧ chars ≤ 0)
  · simp only [h1, if_true]
    rcases h1 with h | h
    · subst h; simp
    · have h2 : ¬ lines > 0 := by omega
      have h3 : ¬ (lines = -1 ∧ chars > 0) := by omega
      simp [h2, h3]
  · simp only [h1, if_false]
    by_cases hu : c.used = 0
    · have hq : contents c = [] := List.eq_nil_of_length_eq_zero (by rw [contents_length]; exact hu)
      simp only [hu, if_true, hq]
      by_cases hp : lines > 0
      · have : ∃ k, lines.toNat = k + 1 := ⟨lines.toNat - 1, by omega⟩
        obtain ⟨k, hk⟩ := this
        simp [hp, hk, Spec.afterNthNl]
      · simp [hp, wholeLinesLen_nil]
    · simp only [hu, if_false]
      rw [findLoop_contents hi]
      by_cases hp : lines > 0
      · simp only [hp, if_true]
        have hcast : lines = (lines.toNat : Int) := by omega
        cases ha : Spec.afterNthNl (contents c) lines.toNat with
        | some p =>
          rw [hcast, findList_lines_some (contents c) 0 0 0 lines.toNat p (by omega) ha]
          simp
        | none =>
          have := findList_lines_none (contents c) 0 0 0 lines.toNat (by omega) ha
          rw [← hcast] at this
          simp only [Option.getD_none]
          generalize findList (contents c) 0 (-1) lines 0 0 = res at this
          obtain ⟨m, l, ln⟩ := res
          simp only at this
          simp [this]
      · have hm1 : lines = -1 := by omega
        have hcp : chars > 0 := by omega
        subst hm1
        simp only [hp, if_false, hcp, and_self, if_true]
        have hcast : chars = (chars.toNat : Int) := by omega
        rw [hcast, findList_chars (contents c) 0 0 0 chars.toNat (by omega)]
        simp only [Int.toNat_natCast]
        by_cases hw : Spec.wholeLinesLen ((contents c).take chars.toNat) = 0 <;> simp [hw]

/-- `cbuf_lines_used` counts the newlines among the unread bytes -/
theorem linesUsed_refines {c : Cbuf} (hi : Inv c) : linesUsed c = Spec.linesUsed (abs c) := by
  have hsp := hi.spos; have hu := hi.used
  unfold linesUsed Spec.linesUsed Spec.countNl findUnreadLine
  simp only [abs_q]
  have h1 : ¬ ((-1 : Int) = 0 ∨ ((-1 : Int) ≤ -1 ∧ (c.size : Int) ≤ 0)) := by omega
  simp only [h1, if_false]
  by_cases hu0 : c.used = 0
  · have hq : contents c = [] := List.eq_nil_of_length_eq_zero (by rw [contents_length]; exact hu0)
    simp [hu0, hq]
  · have hp : ¬ ((-1 : Int) > 0) := by omega
    simp only [hu0, if_false, hp]
    rw [findLoop_contents hi, findList_chars (contents c) 0 0 0 c.size (by omega)]
    simp only [hp, if_false]
    rw [List.take_of_length_le (by rw [contents_length]; exact hu)]
    simp

end PdshVerif.Cbuf

namespace PdshVerif.Cbuf

theorem afterNthNl_le (q : List UInt8) : ∀ k p, Spec.afterNthNl q k = some p → p ≤ q.length := by
  induction q with
  | nil => intro k p h; cases k <;> simp [Spec.afterNthNl] at h; omega
  | cons b r ih =>
    intro k p h
    cases k with
    | zero => simp [Spec.afterNthNl] at h; omega
    | succ k =>
      simp only [Spec.afterNthNl] at h
      split at h
      · cases hr : Spec.afterNthNl r k with
        | none => simp [hr] at h
        | some p' => simp [hr] at h; have := ih k p' hr; simp; omega
      · cases hr : Spec.afterNthNl r (k + 1) with
        | none => simp [hr] at h
        | some p' => simp [hr] at h; have := ih (k + 1) p' hr; simp; omega

theorem wholeLinesLen_le (l : List UInt8) : Spec.wholeLinesLen l ≤ l.length := by
  induction l with
  | nil => simp [wholeLinesLen_nil]
  | cons b t ih =>
    rw [wholeLinesLen_cons]
    simp only [List.length_cons]
    split
    · omega
    · split <;> omega

theorem lineBytes_le (f : Spec.Fifo) (chars lines : Int) : Spec.lineBytes f chars lines ≤ f.q.length := by
  unfold Spec.lineBytes
  split
  · cases h : Spec.afterNthNl f.q lines.toNat with
    | none => simp
    | some p => simpa using afterNthNl_le _ _ _ h
  · split
    · have := wholeLinesLen_le (f.q.take chars.toNat)
      simp at this; omega
    · omega

theorem afterNthNl_getLast (q : List UInt8) : ∀ (k p : Nat), 0 < k → Spec.afterNthNl q k = some p →
    (q.take p).getLast? = some 10 := by
  induction q with
  | nil => intro k p hk h; cases k <;> simp [Spec.afterNthNl] at h; omega
  | cons b r ih =>
    intro k p hk h
    cases k with
    | zero => omega
    | succ k =>
      simp only [Spec.afterNthNl] at h
      split at h
      · rename_i hb
        cases hr : Spec.afterNthNl r k with
        | none => simp [hr] at h
        | some p' =>
          simp [hr] at h; subst h
          by_cases hk0 : k = 0
          · subst hk0; simp [Spec.afterNthNl] at hr; subst hr; simp [hb]
          · have := ih k p' (by omega) hr
            rw [List.take_succ_cons, List.getLast?_cons_of_ne_nil]
            · exact this
            · intro hnil; rw [hnil] at this; simp at this
      · cases hr : Spec.afterNthNl r (k + 1) with
        | none => simp [hr] at h
        | some p' =>
          simp [hr] at h; subst h
          have := ih (k + 1) p' (by omega) hr
          rw [List.take_succ_cons, List.getLast?_cons_of_ne_nil]
          · exact this
          · intro hnil; rw [hnil] at this; simp at this

theorem wholeLinesLen_getLast (l : List UInt8) : Spec.wholeLinesLen l ≠ 0 →
    (l.take (Spec.wholeLinesLen l)).getLast? = some 10 := by
  induction l with
  | nil => simp [wholeLinesLen_nil]
  | cons b t ih =>
    intro h
    rw [wholeLinesLen_cons] at h
    simp only [wholeLinesLen_cons]
    by_cases hw : Spec.wholeLinesLen t > 0
    · simp only [hw, if_true] at h ⊢
      have := ih (by omega)
      rw [List.take_succ_cons, List.getLast?_cons_of_ne_nil]
      · exact this
      · intro hnil; rw [hnil] at this; simp at this
    · simp only [hw, if_false] at h ⊢
      by_cases hb : b = 10
      · simp [hb]
      · simp [hb] at h

/-- whatever a line operation removes ends in a newline -/
theorem lineBytes_ends_nl (f : Spec.Fifo) (chars lines : Int) :
    Spec.lineBytes f chars lines > 0 →
      (f.q.take (Spec.lineBytes f chars lines)).getLast? = some 10 := by
  unfold Spec.lineBytes
  by_cases hp : lines > 0
  · simp only [hp, if_true]
    cases ha : Spec.afterNthNl f.q lines.toNat with
    | none => simp
    | some p =>
      intro _
      simpa using afterNthNl_getLast f.q lines.toNat p (by omega) ha
  · simp only [hp, if_false]
    by_cases hc : lines = -1 ∧ chars > 0
    · simp only [hc, and_self, if_true]
      intro h
      have h1 := wholeLinesLen_getLast (f.q.take chars.toNat) (by omega)
      have h2 := wholeLinesLen_le (f.q.take chars.toNat)
      rw [List.take_take] at h1
      have : min (Spec.wholeLinesLen (f.q.take chars.toNat)) chars.toNat =
          Spec.wholeLinesLen (f.q.take chars.toNat) := by
        simp at h2; omega
      rw [this] at h1
      exact h1
    · simp [hc]

theorem abs_dropper (c : Cbuf) (n : Nat) (h : n ≤ c.used) :
    abs (dropper c n) = { abs c with q := (abs c).q.drop n } := by
  simp only [abs, dropper_contents c n h]
  simp [dropper]

theorem peekLine_refines {c : Cbuf} (hi : Inv c) (len lines : Int) :
    peekLine c len lines = Spec.peekLine (abs c) len lines := by
  unfold peekLine Spec.peekLine
  by_cases h : len < 0 ∨ lines < -1
  · simp [h]
  · simp only [h, if_false]
    have hl : lines ≥ -1 := by omega
    by_cases h0 : lines = 0
    · subst h0; simp [Spec.lineBytes]
    · simp only [h0, if_false, lineGet]
      have hf := findUnreadLine_refines hi (len - 1) lines hl
      generalize findUnreadLine c (len - 1) lines = res at hf
      obtain ⟨n, l⟩ := res
      simp only at hf ⊢
      subst hf
      by_cases hn : Spec.lineBytes (abs c) (len - 1) lines > 0
      · by_cases hlen : len > 0
        · have hn' : (Spec.lineBytes (abs c) (len - 1) lines : Int) > 0 := by omega
          simp [hn, hlen, hn', reader_eq]
        · have hn' : (Spec.lineBytes (abs c) (len - 1) lines : Int) > 0 := by omega
          simp [hn, hlen, hn']
      · have hn' : ¬ (Spec.lineBytes (abs c) (len - 1) lines : Int) > 0 := by omega
        simp [hn, hn']

theorem readLine_refines {c : Cbuf} (hi : Inv c) (len lines : Int) :
    (readLine c len lines).1 = (Spec.readLine (abs c) len lines).1 ∧
    (readLine c len lines).2.1 = (Spec.readLine (abs c) len lines).2.1 ∧
    abs (readLine c len lines).2.2 = (Spec.readLine (abs c) len lines).2.2 ∧ Inv (readLine c len lines).2.2 := by
  have hp := peekLine_refines hi len lines
  unfold readLine Spec.readLine
  rw [← hp]
  unfold peekLine
  by_cases h : len < 0 ∨ lines < -1
  · simp [h, hi]
  · simp only [h, if_false]
    have hl : lines ≥ -1 := by omega
    by_cases h0 : lines = 0
    · subst h0; simp [hi]
    · simp only [h0, if_false, lineGet]
      have hf := findUnreadLine_refines hi (len - 1) lines hl
      have hle := lineBytes_le (abs c) (len - 1) lines
      generalize findUnreadLine c (len - 1) lines = res at hf
      obtain ⟨n, l⟩ := res
      simp only at hf ⊢
      subst hf
      simp only [abs_q, contents_length] at hle
      by_cases hn : Spec.lineBytes (abs c) (len - 1) lines > 0
      · have hn' : (Spec.lineBytes (abs c) (len - 1) lines : Int) > 0 := by omega
        by_cases hlen : len > 0
        · simp only [hn, hlen, if_true, hn']
          refine ⟨trivial, trivial, ?_, inv_dropper hi _ hle⟩
          rw [abs_dropper c _ hle]; simp
        · simp only [hn, hlen, if_true, if_false, hn']
          refine ⟨trivial, trivial, ?_, inv_dropper hi _ hle⟩
          rw [abs_dropper c _ hle]; simp
      · have hn' : ¬ (Spec.lineBytes (abs c) (len - 1) lines : Int) > 0 := by omega
        simp only [hn, if_false, hn']
        exact ⟨trivial, trivial, trivial, hi⟩

theorem dropLine_refines {c : Cbuf} (hi : Inv c) (len lines : Int) :
    (dropLine c len lines).1 = (Spec.dropLine (abs c) len lines).1 ∧
    abs (dropLine c len lines).2 = (Spec.dropLine (abs c) len lines).2 ∧ Inv (dropLine c len lines).2 := by
  unfold dropLine Spec.dropLine
  by_cases h : len < 0 ∨ lines < -1
  · simp [h, hi]
  · simp only [h, if_false]
    have hl : lines ≥ -1 := by omega
    by_cases h0 : lines = 0
    · subst h0; simp [hi, Spec.lineBytes, abs]
    · simp only [h0, if_false]
      have hf := findUnreadLine_refines hi len lines hl
      have hle := lineBytes_le (abs c) len lines
      generalize findUnreadLine c len lines = res at hf
      obtain ⟨n, l⟩ := res
      simp only at hf ⊢
      subst hf
      simp only [abs_q, contents_length] at hle
      by_cases hn : Spec.lineBytes (abs c) len lines > 0
      · simp only [hn, if_true]
        refine ⟨trivial, ?_, inv_dropper hi _ hle⟩
        rw [abs_dropper c _ hle]
      · simp only [hn, if_false]
        have : Spec.lineBytes (abs c) len lines = 0 := by omega
        refine ⟨trivial, ?_, hi⟩
        rw [this]; simp [abs]

end PdshVerif.Cbuf
