/-
  `cbuf_copy` / `cbuf_move` refine the specification: copying the first bytes of `src` into `dst`
  is a `cbuf_write` of those bytes (although `cbuf_copier` stores only the last `size` of them when
  the destination wraps more than once, and therefore leaves different indices behind), and a move
  consumes them from `src` afterwards.
-/
import PdshVerif.Cbuf.Pair

namespace PdshVerif.Cbuf

theorem lastN_skip (q x : List UInt8) (n : Nat) :
    Spec.lastN n (q ++ x.drop (if x.length > n then x.length - n else 0)) = Spec.lastN n (q ++ x) := by
  by_cases h : x.length > n
  · simp only [h, if_true]
    unfold Spec.lastN
    rw [lastN_of_tail_ge q (x.drop (x.length - n)) n (by simp; omega), lastN_of_tail_ge q x n (by omega)]
    simp only [List.length_drop, List.drop_drop]
    congr 1
    omega
  · simp only [h, if_false, List.drop_zero]

/-- the bytes `cbuf_copier` stores -/
theorem copier_bytes {src : Cbuf} (len skip : Nat) (hle : len ≤ src.used) (hs : skip ≤ len) :
    circRead src.data (src.size + 1) ((src.iOut + skip) % (src.size + 1)) (len - skip) =
      ((contents src).take len).drop skip := by
  have h1 := circRead_drop src.data (src.size + 1) src.iOut src.used skip (by omega)
  have h2 := circRead_take src.data (src.size + 1) ((src.iOut + skip) % (src.size + 1)) (src.used - skip) (len - skip)
  have e : min (len - skip) (src.used - skip) = len - skip := by omega
  rw [e] at h2
  rw [h2, h1, List.drop_take]
  rfl

structure CopyOk (dst : Cbuf) (bs : List UInt8) (r : Int × Nat × Cbuf) : Prop where
  inv : Inv r.2.2
  spec : Spec.write (abs dst) bs r.2.2.size = some (r.1, r.2.1, abs r.2.2)
  whole : whole r.2.2 = Spec.lastN r.2.2.size (whole dst ++ bs.take r.1.toNat)
  ret : r.1 = -1 ∨ (0 ≤ r.1 ∧ r.1.toNat ≤ bs.length)

theorem copier_refines {src dst : Cbuf} (hd : Inv dst) (len0 : Nat) (pol : Policy := chunkPolicy) [Admissible pol] :
    CopyOk dst ((contents src).take len0) (copier src dst len0 pol) := by
  have hcs := contents_length src
  generalize hbs : (contents src).take len0 = bs
  have hbl : bs.length = min len0 src.used := by rw [← hbs]; simp [hcs]
  unfold copier
  rw [← hbl]
  by_cases h0 : bs.length = 0
  · have hnil : bs = [] := List.eq_nil_of_length_eq_zero h0
    simp only [h0, if_true]
    refine ⟨hd, by simp [Spec.write, hnil], ?_, Or.inr ⟨by omega, by simp⟩⟩
    simp only [Int.toNat_zero, List.take_zero]
    exact whole_unchanged hd
  · simp only [h0, if_false]
    have hpos : 0 < bs.length := by omega
    -- the same growth step and the same effective length as a `cbuf_write` of `bs`
    have hg := maybeGrow_ok hd bs.length pol
    have hgw := maybeGrow_whole hd bs.length pol
    generalize maybeGrow dst bs.length pol = p at hg hgw
    obtain ⟨c1, nfree⟩ := p
    simp only at hg hgw ⊢
    have hci := hg.inv
    have hu := hci.used; have hsp := hci.spos
    have hadm : Spec.admitSize (abs dst) c1.size = true := by
      have := hg.sizeLo; have := hci.smax; have := hg.maxsize
      rw [admitSize_iff]; simp only [abs_size, abs_maxsize]; omega
    have hen := hg.enough
    have hmx := hg.maxsize
    have hcl : (contents dst).length = c1.used := by rw [contents_length, hg.used]
    -- what the stores and the metadata update do, for an effective length `len`
    have hstore : ∀ len, 0 < len → len ≤ bs.length →
        Inv (copyStore src c1 nfree len) ∧ (copyStore src c1 nfree len).size = c1.size ∧
        (copyStore src c1 nfree len).mode = c1.mode ∧ (copyStore src c1 nfree len).minsize = c1.minsize ∧
        (copyStore src c1 nfree len).maxsize = c1.maxsize ∧
        contents (copyStore src c1 nfree len) = Spec.lastN c1.size (contents c1 ++ bs.take len) ∧
        whole (copyStore src c1 nfree len) = Spec.lastN c1.size (whole c1 ++ bs.take len) := by
      intro len hl1 hl2
      unfold copyStore
      simp only
      generalize hsk : (if len > c1.size then len - c1.size else 0) = skip
      have hskle : skip < len := by rw [← hsk]; split <;> omega
      have hnc : len - skip > 0 := by omega
      simp only [hnc, if_true]
      have hby := copier_bytes (src := src) len skip (by omega) (by omega)
      have hbt : ((contents src).take len).drop skip = (bs.take len).drop skip := by
        rw [← hbs, List.take_take]; congr 2; omega
      rw [hby, hbt]
      generalize hgot : (bs.take len).drop skip = got
      have hgl : got.length = len - skip := by rw [← hgot]; simp; omega
      rw [← hgl, hg.nfree]
      have hlast : ∀ q : List UInt8, Spec.lastN c1.size (q ++ got) = Spec.lastN c1.size (q ++ bs.take len) := by
        intro q
        have := lastN_skip q (bs.take len) c1.size
        have hl : (bs.take len).length = len := by simp; omega
        rw [hl, hsk, hgot] at this
        exact this
      refine ⟨inv_commit hci got (by omega), rfl, rfl, rfl, rfl, ?_, ?_⟩
      · rw [contents_commit hci got (by omega)]
        exact hlast (contents c1)
      · rw [whole_commit hci got (by omega)]
        exact hlast (whole c1)
    cases hmode : dst.mode with
    | noDrop =>
      have hm1 : c1.mode = .noDrop := by rw [hg.mode, hmode]
      simp only [effLen, hm1]
      have hlo : Spec.lossOk (abs dst) c1.size (decide (min bs.length (c1.size - c1.used) < bs.length)) = true :=
        lossOk_intro _ _ _ (by simp only [decide_eq_true_eq, abs_maxsize]; omega)
      by_cases hl : min bs.length (c1.size - c1.used) = 0
      · simp only [hl, if_true]
        have hm1' : ((-1 : Int)).toNat = 0 := rfl
        refine ⟨hci, ?_, ?_, Or.inl rfl⟩
        · simp only [Spec.write, h0, if_false, hadm, Bool.not_true, Bool.false_eq_true, abs_mode, hmode, absMode,
            abs_q, hcl, hlo, hl, if_true]
          simp [abs, hg.contents, hg.minsize, hg.maxsize, hm1, hmode, absMode]
          exact lossOk_intro _ _ _ (fun _ => by show c1.size = dst.maxsize; omega)
        · simp only [hm1', List.take_zero, List.append_nil]
          rw [← hgw, lastN_all _ _ (whole_le hci)]
      · simp only [hl, if_false]
        obtain ⟨k1, k2, k3, k4, k5, k6, k7⟩ := hstore (min bs.length (c1.size - c1.used)) (by omega) (by omega)
        generalize copyStore src c1 nfree (min bs.length (c1.size - c1.used)) = d' at k1 k2 k3 k4 k5 k6 k7 ⊢
        refine ⟨k1, ?_, ?_, Or.inr ⟨by omega, by rw [Int.toNat_natCast]; omega⟩⟩
        · rw [k2]
          simp only [Spec.write, h0, if_false, hadm, Bool.not_true, Bool.false_eq_true, abs_mode, hmode, absMode,
            abs_q, hcl, hlo, hl]
          have z1 : c1.used + min bs.length (c1.size - c1.used) - c1.size = 0 := by omega
          have z2 : min bs.length (c1.size - c1.used) - (c1.size - c1.used) = 0 := by omega
          simp [abs, Spec.lastN, k2, k3, k4, k5, k6, hg.contents, hg.minsize, hg.maxsize, hm1, hmode, absMode, hcl, z1, z2]
        · rw [k2, k7, hgw, Int.toNat_natCast]
    | wrapOnce =>
      have hm1 : c1.mode = .wrapOnce := by rw [hg.mode, hmode]
      simp only [effLen, hm1]
      obtain ⟨k1, k2, k3, k4, k5, k6, k7⟩ := hstore (min bs.length c1.size) (by omega) (by omega)
      generalize copyStore src c1 nfree (min bs.length c1.size) = d' at k1 k2 k3 k4 k5 k6 k7 ⊢
      have hlo : Spec.lossOk (abs dst) c1.size
          (decide (min bs.length c1.size < bs.length ∨ min bs.length c1.size > c1.size - c1.used)) = true :=
        lossOk_intro _ _ _ (by simp only [decide_eq_true_eq, abs_maxsize]; omega)
      refine ⟨k1, ?_, ?_, Or.inr ⟨by omega, by rw [Int.toNat_natCast]; omega⟩⟩
      · rw [k2]
        simp only [Spec.write, h0, if_false, hadm, Bool.not_true, Bool.false_eq_true, abs_mode, hmode, absMode,
          abs_q, hcl, hlo]
        simp [abs, Spec.lastN, k2, k3, k4, k5, k6, hg.contents, hg.minsize, hg.maxsize, hm1, hmode, absMode, hcl]
      · rw [k2, k7, hgw, Int.toNat_natCast]
    | wrapMany =>
      have hm1 : c1.mode = .wrapMany := by rw [hg.mode, hmode]
      simp only [effLen, hm1]
      obtain ⟨k1, k2, k3, k4, k5, k6, k7⟩ := hstore bs.length (by omega) (by omega)
      generalize copyStore src c1 nfree bs.length = d' at k1 k2 k3 k4 k5 k6 k7 ⊢
      have hlo : Spec.lossOk (abs dst) c1.size (decide (bs.length > c1.size - c1.used)) = true :=
        lossOk_intro _ _ _ (by simp only [decide_eq_true_eq, abs_maxsize]; omega)
      rw [List.take_length] at k6 k7
      refine ⟨k1, ?_, ?_, Or.inr ⟨by omega, by rw [Int.toNat_natCast]; omega⟩⟩
      · rw [k2]
        simp only [Spec.write, h0, if_false, hadm, Bool.not_true, Bool.false_eq_true, abs_mode, hmode, absMode,
          abs_q, hcl, hlo]
        simp [abs, Spec.lastN, k2, k3, k4, k5, k6, hg.contents, hg.minsize, hg.maxsize, hm1, hmode, absMode, hcl]
      · rw [k2, k7, hgw, Int.toNat_natCast, List.take_length]

end PdshVerif.Cbuf

namespace PdshVerif.Cbuf

theorem absR_eq_of_write {dst d' : Cbuf} (hd : Inv dst) (hi' : Inv d') (acc : List UInt8)
    (h : whole d' = Spec.lastN d'.size (whole dst ++ acc)) (phys : Nat)
    (hw : d'.gotWrap = Spec.wrappedAfterWrite (absR dst) phys (abs d')) :
    ({ f := abs d', hist := Spec.histAfterWrite (absR dst) acc (abs d'),
       wrapped := Spec.wrappedAfterWrite (absR dst) phys (abs d') } : Spec.RFifo) = absR d' := by
  rw [← hist_write hd hi' acc h, ← hw]; rfl

/-- nothing stored: the flag stays -/
theorem wrapped_zero {dst : Cbuf} (hd : Inv dst) (k : Nat) (hk : k = 0) :
    dst.gotWrap = Spec.wrappedAfterWrite (absR dst) k (abs dst) := by
  subst hk
  unfold Spec.wrappedAfterWrite
  simp only [absR_wrapped, absR_hist, absR_f, abs_q, abs_size]
  exact (wrapped_unchanged hd dst.size (Nat.le_refl _)).symm

/-- `cbuf_copier` in the specification's terms -/
theorem copier_flag {src dst : Cbuf} (hd : Inv dst) (len0 : Nat) (pol : Policy) [Admissible pol]
    (r : Int × Nat × Cbuf) (hr : copier src dst len0 pol = r) :
    r.2.2.gotWrap = Spec.wrappedAfterWrite (absR dst) (min r.1.toNat (abs r.2.2).size) (abs r.2.2) := by
  unfold Spec.wrappedAfterWrite
  simp only [absR_wrapped, absR_hist, absR_f, abs_q, abs_size, hist_length, contents_length]
  exact copier_gotWrap' hd len0 pol r hr

theorem copy_refines {src dst : Cbuf} (hd : Inv dst) (len : Int) (pol : Policy := chunkPolicy) [Admissible pol] :
    Spec.copy (absR src) (absR dst) len (copy src dst len pol).2.2.size =
      some ((copy src dst len pol).1, (copy src dst len pol).2.1, absR (copy src dst len pol).2.2) ∧
    Inv (copy src dst len pol).2.2 ∧
    ((copy src dst len pol).1 = -1 ∨ (0 ≤ (copy src dst len pol).1 ∧ (copy src dst len pol).1.toNat ≤ src.used)) := by
  have hcs := contents_length src
  unfold copy Spec.copy
  by_cases h : len < -1
  · simp [h, hd]
  · simp only [h, if_false, absR_f, abs_q]
    -- the bytes asked for
    have hbs : (if len = -1 then contents src else (contents src).take len.toNat) =
        (contents src).take (lenFd src len) := by
      unfold lenFd
      by_cases h1 : len = -1
      · simp only [h1, if_true]; rw [List.take_of_length_le (by omega)]
      · simp only [h1, if_false]
    rw [hbs]
    have hzero : ∀ bs : List UInt8, bs = [] →
        (Spec.write (abs dst) bs dst.size).map (fun x : Int × Nat × Spec.Fifo =>
          (x.1, x.2.1, ({ f := x.2.2, hist := Spec.histAfterWrite (absR dst) (bs.take x.1.toNat) x.2.2,
                          wrapped := Spec.wrappedAfterWrite (absR dst) (min x.1.toNat x.2.2.size) x.2.2 } : Spec.RFifo))) =
        some ((0 : Int), 0, absR dst) := by
      intro bs hb
      subst hb
      simp only [Spec.write, List.length_nil, if_true, abs_size, Option.map_some, Int.toNat_zero, List.take_zero]
      rw [absR_eq_of_write hd hd [] (whole_unchanged hd) (min 0 dst.size) (wrapped_zero hd _ (by omega))]
    by_cases h0 : len = 0
    · subst h0
      simp only [if_true]
      refine ⟨?_, hd, Or.inr ⟨by omega, by simp⟩⟩
      have : (contents src).take (lenFd src 0) = [] := by simp [lenFd]
      exact hzero _ this
    · simp only [h0, if_false]
      by_cases hl : lenFd src len > 0
      · simp only [hl, if_true]
        have hc := copier_refines (src := src) hd (lenFd src len) pol
        have hfl := copier_flag (src := src) hd (lenFd src len) pol _ rfl
        generalize copier src dst (lenFd src len) pol = r at hc hfl
        obtain ⟨r1, r2, r3⟩ := r
        obtain ⟨c1, c2, c3, c4⟩ := hc
        simp only at c1 c2 c3 c4 hfl ⊢
        refine ⟨?_, c1, ?_⟩
        · rw [c2]
          simp only [Option.map_some]
          rw [absR_eq_of_write hd c1 _ c3 _ hfl]
        · rcases c4 with c4 | ⟨c4, c5⟩
          · exact Or.inl c4
          · refine Or.inr ⟨c4, ?_⟩
            have : (List.take (lenFd src len) (contents src)).length ≤ src.used := by
              rw [List.length_take, hcs]; omega
            omega
      · simp only [hl, if_false]
        refine ⟨?_, hd, Or.inr ⟨by omega, by simp⟩⟩
        have : (contents src).take (lenFd src len) = [] := by
          have : lenFd src len = 0 := by omega
          rw [this]; rfl
        exact hzero _ this

theorem move_refines {src dst : Cbuf} (hs : Inv src) (hd : Inv dst) (len : Int)
    (pol : Policy := chunkPolicy) [Admissible pol] :
    Spec.move (absR src) (absR dst) len (move src dst len pol).2.2.2.size =
      some ((move src dst len pol).1, (move src dst len pol).2.1, absR (move src dst len pol).2.2.1,
        absR (move src dst len pol).2.2.2) ∧
    Inv (move src dst len pol).2.2.1 ∧ Inv (move src dst len pol).2.2.2 := by
  -- `cbuf_move` in terms of `cbuf_copy`
  have hm : move src dst len pol =
      ((copy src dst len pol).1, (copy src dst len pol).2.1,
        (if (copy src dst len pol).1 > 0 then dropper src (copy src dst len pol).1.toNat else src),
        (copy src dst len pol).2.2) := by
    unfold move copy
    by_cases h : len < -1
    · simp [h]
    · simp only [h, if_false]
      by_cases h0 : len = 0
      · simp [h0]
      · simp only [h0, if_false]
        by_cases hl : lenFd src len > 0
        · simp only [hl, if_true]
        · simp only [hl, if_false]; simp
  obtain ⟨c1, c2, c3⟩ := copy_refines (src := src) hd len pol
  rw [hm]
  simp only
  unfold Spec.move
  rw [c1]
  simp only [Option.map_some, absR_f, abs_q, absR_hist]
  generalize (copy src dst len pol).1 = n at c3 ⊢
  have hle : n.toNat ≤ src.used := by
    rcases c3 with c | ⟨_, c⟩
    · subst c; exact Nat.zero_le _
    · exact c
  by_cases hn : n > 0
  · simp only [hn, if_true]
    have hi' := inv_dropper hs n.toNat hle
    refine ⟨?_, hi', c2⟩
    have hsc : SameCells src (dropper src n.toNat) := ⟨rfl, rfl, rfl, rfl⟩
    have hh := hist_consume hs hi' hsc (by simp [dropper])
    have hq : abs (dropper src n.toNat) = { abs src with q := (contents src).drop n.toNat } := abs_dropper src _ hle
    have : absR (dropper src n.toNat) =
        { f := { abs src with q := (contents src).drop n.toNat }, hist := hist src ++ (contents src).take n.toNat,
          wrapped := src.gotWrap } := by
      simp only [absR, hh, hq]
      unfold Spec.histAfterConsume
      simp only [absR_hist, absR_f, abs_q, contents_length, List.length_drop]
      have e : src.used - (src.used - n.toNat) = n.toNat := by omega
      rw [e]
      rfl
    rw [this]
    rfl
  · simp only [hn, if_false]
    refine ⟨?_, hs, c2⟩
    have : n.toNat = 0 := by omega
    rw [this]
    simp [absR, abs]

end PdshVerif.Cbuf

namespace PdshVerif.Cbuf

def absR2 (s : Cbuf × Cbuf) : Spec.RFifo × Spec.RFifo := (absR s.1, absR s.2)

def Inv2 (s : Cbuf × Cbuf) : Prop := Inv s.1 ∧ Inv s.2

theorem step2_refines {s : Cbuf × Cbuf} (hi : Inv2 s) (op : Op2) (pol : Policy := chunkPolicy) [Admissible pol] :
    stepS2 (absR2 s) op (stepM2 s op pol).1.ret (sel (stepM2 s op pol).2 op.target).size =
      some ((stepM2 s op pol).1, absR2 (stepM2 s op pol).2) ∧ Inv2 (stepM2 s op pol).2 := by
  obtain ⟨a, b⟩ := s
  obtain ⟨h1, h2⟩ := hi
  simp only at h1 h2
  cases op with
  | on i op =>
    cases i with
    | false =>
      obtain ⟨k1, k2⟩ := stepR_refines h1 op pol
      simp only [stepS2, stepM2, sel, upd, absR2, Op2.target, Bool.false_eq_true, if_false, k1, Option.map_some]
      exact ⟨trivial, k2, h2⟩
    | true =>
      obtain ⟨k1, k2⟩ := stepR_refines h2 op pol
      simp only [stepS2, stepM2, sel, upd, absR2, Op2.target, if_true, k1, Option.map_some]
      exact ⟨trivial, h1, k2⟩
  | copy fs len =>
    cases fs with
    | false =>
      obtain ⟨k1, k2, _⟩ := copy_refines (src := a) h2 len pol
      simp only [stepS2, stepM2, sel, upd, absR2, Op2.target, Bool.not_false, Bool.false_eq_true, if_false, if_true,
        k1, Option.map_some]
      exact ⟨trivial, h1, k2⟩
    | true =>
      obtain ⟨k1, k2, _⟩ := copy_refines (src := b) h1 len pol
      simp only [stepS2, stepM2, sel, upd, absR2, Op2.target, Bool.not_true, Bool.false_eq_true, if_false, if_true,
        k1, Option.map_some]
      exact ⟨trivial, k2, h2⟩
  | move fs len =>
    cases fs with
    | false =>
      obtain ⟨k1, k2, k3⟩ := move_refines h1 h2 len pol
      simp only [stepS2, stepM2, sel, upd, absR2, Op2.target, Bool.not_false, Bool.false_eq_true, if_false, if_true,
        k1, Option.map_some]
      exact ⟨trivial, k2, k3⟩
    | true =>
      obtain ⟨k1, k2, k3⟩ := move_refines h2 h1 len pol
      simp only [stepS2, stepM2, sel, upd, absR2, Op2.target, Bool.not_true, Bool.false_eq_true, if_false, if_true,
        k1, Option.map_some]
      exact ⟨trivial, k3, k2⟩

def runM2 (s : Cbuf × Cbuf) (ops : List Op2) (pol : Policy := chunkPolicy) : List Out × (Cbuf × Cbuf) :=
  match ops with
  | [] => ([], s)
  | op :: ops => let (o, s') := stepM2 s op pol; let (os, s'') := runM2 s' ops pol; (o :: os, s'')

def acceptS2 (r : Spec.RFifo × Spec.RFifo) : List (Op2 × Out × Nat) → Option (Spec.RFifo × Spec.RFifo)
  | [] => some r
  | (op, o, sz) :: rest =>
    match stepS2 r op o.ret sz with
    | some (o', r') => if o' = o then acceptS2 r' rest else none
    | none => none

/-- the annotated history of the model: operation, answer, capacity of the buffer written to -/
def traceM2 (s : Cbuf × Cbuf) (ops : List Op2) (pol : Policy := chunkPolicy) : List (Op2 × Out × Nat) :=
  match ops with
  | [] => []
  | op :: ops =>
    (op, (stepM2 s op pol).1, (sel (stepM2 s op pol).2 op.target).size) :: traceM2 (stepM2 s op pol).2 ops pol

theorem run2_refines {s : Cbuf × Cbuf} (hi : Inv2 s) (ops : List Op2) (pol : Policy := chunkPolicy) [Admissible pol] :
    acceptS2 (absR2 s) (traceM2 s ops pol) = some (absR2 (runM2 s ops pol).2) ∧ Inv2 (runM2 s ops pol).2 := by
  induction ops generalizing s with
  | nil => exact ⟨rfl, hi⟩
  | cons op ops ih =>
    obtain ⟨h1, h2⟩ := step2_refines hi op pol
    simp only [traceM2, acceptS2, h1, if_true, runM2]
    exact ih h2

/-- two buffers, a different admissible policy at every step -/
def runM2p (s : Cbuf × Cbuf) : List (APolicy × Op2) → List Out × (Cbuf × Cbuf)
  | [] => ([], s)
  | (p, op) :: ops => let (o, s') := stepM2 s op p.pol; let (os, s'') := runM2p s' ops; (o :: os, s'')

def traceM2p (s : Cbuf × Cbuf) : List (APolicy × Op2) → List (Op2 × Out × Nat)
  | [] => []
  | (p, op) :: ops =>
    (op, (stepM2 s op p.pol).1, (sel (stepM2 s op p.pol).2 op.target).size) :: traceM2p (stepM2 s op p.pol).2 ops

theorem run2p_refines {s : Cbuf × Cbuf} (hi : Inv2 s) (ops : List (APolicy × Op2)) :
    acceptS2 (absR2 s) (traceM2p s ops) = some (absR2 (runM2p s ops).2) ∧ Inv2 (runM2p s ops).2 := by
  induction ops generalizing s with
  | nil => exact ⟨rfl, hi⟩
  | cons pop ops ih =>
    obtain ⟨p, op⟩ := pop
    haveI := p.adm
    obtain ⟨h1, h2⟩ := step2_refines hi op p.pol
    simp only [traceM2p, acceptS2, h1, if_true, runM2p]
    exact ih h2

end PdshVerif.Cbuf
