/-
  Refinement of the replay side: the abstraction is extended by the history of replayable bytes
  (`absR c = ⟨abs c, hist c⟩`) and every operation of the index model is shown to act on it as
  `SpecReplay.lean` says.
-/
import PdshVerif.Cbuf.Whole
import PdshVerif.Cbuf.SpecReplay
import PdshVerif.Cbuf.Ops

namespace PdshVerif.Cbuf

def absR (c : Cbuf) : Spec.RFifo := { f := abs c, hist := hist c, wrapped := c.gotWrap }

@[simp] theorem absR_f (c : Cbuf) : (absR c).f = abs c := rfl
@[simp] theorem absR_hist (c : Cbuf) : (absR c).hist = hist c := rfl
@[simp] theorem absR_wrapped (c : Cbuf) : (absR c).wrapped = c.gotWrap := rfl

/-- the two buffers have the same cells and the same ends of the region i_rep .. i_in -/
structure SameCells (c c' : Cbuf) : Prop where
  data : c'.data = c.data
  size : c'.size = c.size
  irep : c'.iRep = c.iRep
  iin  : c'.iIn = c.iIn

theorem SameCells.refl (c : Cbuf) : SameCells c c := ⟨rfl, rfl, rfl, rfl⟩

theorem whole_same {c c' : Cbuf} (hi : Inv c) (hi' : Inv c') (h : SameCells c c') :
    whole c' = whole c ∧ reused c' + c'.used = reused c + c.used := by
  obtain ⟨h1, _, h3⟩ := reused_facts hi
  obtain ⟨h1', _, h3'⟩ := reused_facts hi'
  rw [h.size, h.irep, h.iin] at h3'
  rw [h.size] at h1'
  have := hi.irep
  have a := @wrap_cases (c.iRep + (reused c + c.used)) (c.size + 1) (by omega)
  have b := @wrap_cases (c.iRep + (reused c' + c'.used)) (c.size + 1) (by omega)
  have e : reused c' + c'.used = reused c + c.used := by omega
  refine ⟨?_, e⟩
  unfold whole
  rw [h.data, h.size, h.irep, e]

/-- history after an operation that only consumed: the consumed prefix moved to the history -/
theorem hist_consume {c c' : Cbuf} (hi : Inv c) (hi' : Inv c') (h : SameCells c c') (hu : c'.used ≤ c.used) :
    hist c' = Spec.histAfterConsume (absR c) (abs c') := by
  obtain ⟨hw, hsum⟩ := whole_same hi hi' h
  rw [hist_eq_take hi', hw, whole_eq hi]
  unfold Spec.histAfterConsume
  simp only [absR_hist, absR_f, abs_q, contents_length]
  have e : reused c' = (hist c).length + (c.used - c'.used) := by rw [hist_length]; omega
  rw [e, List.take_length_add_append]

/-- history after a writing operation -/
theorem hist_write {c c' : Cbuf} (hi : Inv c) (hi' : Inv c') (acc : List UInt8)
    (h : whole c' = Spec.lastN c'.size (whole c ++ acc)) :
    hist c' = Spec.histAfterWrite (absR c) acc (abs c') := by
  unfold Spec.histAfterWrite
  simp only [absR_hist, absR_f, abs_q, abs_size, contents_length]
  rw [← whole_eq hi, ← h, whole_length, hist_eq_take hi']
  congr 1
  omega

/-! ### replay and rewind -/

theorem replayer_eq {c : Cbuf} (hi : Inv c) (len : Nat) : replayer c len = Spec.lastN len (hist c) := by
  have := hi.spos; have := hi.iout; have := hi.irep
  obtain ⟨h1, h2, _⟩ := reused_facts hi
  unfold replayer Spec.lastN
  simp only [hist_length]
  have hd := circRead_drop c.data (c.size + 1) c.iRep (reused c) (reused c - len) (by omega)
  unfold hist
  rw [← hd]
  have e1 : reused c - (reused c - len) = min len (reused c) := by omega
  rw [e1]
  congr 1
  have a := @wrap_cases (c.iRep + reused c) (c.size + 1) (by omega)
  have b := @wrap_cases (c.iRep + (reused c - len)) (c.size + 1) (by omega)
  have d := @wrap_cases (c.iOut + (c.size + 1) - min len (reused c)) (c.size + 1) (by omega)
  omega

theorem replay_refines {c : Cbuf} (hi : Inv c) (len : Int) : replay c len = Spec.replay (absR c) len := by
  unfold replay Spec.replay
  by_cases h : len < 0
  · simp [h]
  · by_cases h0 : len = 0
    · subst h0; simp [Spec.lastN]
    · simp only [h, h0, if_false, absR_hist, replayer_eq hi]

theorem rewind_refines {c : Cbuf} (hi : Inv c) (len : Int) :
    (rewind c len).1 = (Spec.rewind (absR c) len).1 ∧ absR (rewind c len).2 = (Spec.rewind (absR c) len).2 ∧
    Inv (rewind c len).2 := by
  have hsp := hi.spos; have hu := hi.used; have hin := hi.iin; have hout := hi.iout; have hrp := hi.irep
  have hio := hi.inout; have hr := hi.rep
  obtain ⟨h1, h2, h3⟩ := reused_facts hi
  unfold rewind Spec.rewind
  by_cases h : len < -1
  · simp [h, hi]
  · simp only [h, if_false, absR_hist, hist_length]
    by_cases h0 : len = 0
    · subst h0
      have : (0 : Int) ≠ -1 := by omega
      simp [hi, absR, Spec.lastN, this, abs, hist_length]
      exact (List.take_of_length_le (by rw [hist_length]; exact Nat.le_refl _)).symm
    · simp only [h0, if_false]
      generalize hn : (if len = -1 then reused c else min len.toNat (reused c)) = n
      have hnle : n ≤ reused c := by rw [← hn]; split <;> omega
      by_cases hpos : n > 0
      · simp only [hpos, if_true]
        -- the state after the rewind
        have hx := @wrap_cases (c.iOut + (c.size + 1) - n) (c.size + 1) (by omega)
        have hreu := @wrap_cases (c.iOut + (c.size + 1) - c.iRep) (c.size + 1) (by omega)
        have hreu' : reused c = (c.iOut + (c.size + 1) - c.iRep) % (c.size + 1) := rfl
        have a := @wrap_cases (c.iRep + reused c) (c.size + 1) (by omega)
        have hinv : Inv { c with used := c.used + n, iOut := (c.iOut + (c.size + 1) - n) % (c.size + 1) } := by
          refine ⟨hi.dsize, hi.spos, hi.smin, hi.smax, hi.alloc, ?_, hi.iin, ?_, hi.irep, ?_, hi.wrap, ?_, hi.mpos⟩
          all_goals simp only
          all_goals omega
        refine ⟨trivial, ?_, hinv⟩
        have hsc : SameCells c { c with used := c.used + n, iOut := (c.iOut + (c.size + 1) - n) % (c.size + 1) } :=
          ⟨rfl, rfl, rfl, rfl⟩
        obtain ⟨hw, hsum⟩ := whole_same hi hinv hsc
        simp only at hsum
        have hreused' : reused { c with used := c.used + n, iOut := (c.iOut + (c.size + 1) - n) % (c.size + 1) } =
            reused c - n := by omega
        have hh : hist { c with used := c.used + n, iOut := (c.iOut + (c.size + 1) - n) % (c.size + 1) } =
            (hist c).take (reused c - n) := by
          rw [hist_eq_take hinv, hw, hreused', whole_eq hi, List.take_append_of_le_length (by rw [hist_length]; omega)]
        have hq : contents { c with used := c.used + n, iOut := (c.iOut + (c.size + 1) - n) % (c.size + 1) } =
            Spec.lastN n (hist c) ++ contents c := by
          rw [contents_eq_drop hinv, hw, hreused', whole_eq hi, List.drop_append_of_le_length (by rw [hist_length]; omega)]
          simp only [Spec.lastN, hist_length]
        simp only [absR, abs, hh, hq]
      · have hn0 : n = 0 := by omega
        simp only [hn0, gt_iff_lt, Nat.lt_irrefl, if_false]
        refine ⟨trivial, ?_, hi⟩
        simp [absR, abs, Spec.lastN, hist_length]
        exact (List.take_of_length_le (by rw [hist_length]; exact Nat.le_refl _)).symm

/-! ### descriptor sinks -/

theorem readerFd_eq (c : Cbuf) (l cap : Nat) :
    readerFd c l cap = Spec.sinkRet ((contents c).take l) cap := by
  unfold readerFd Spec.sinkRet
  simp only [List.length_take, contents_length, reader_eq]
  by_cases h0 : min l c.used = 0
  · simp [h0]
  · simp only [h0, if_false]
    by_cases hc : cap = 0
    · simp [hc]
    · simp only [hc, if_false]
      have e : (contents c).take (min (min l c.used) cap) = ((contents c).take l).take cap := by
        rw [List.take_take]
        have : min (min l c.used) cap = min (min cap l) (contents c).length := by rw [contents_length]; omega
        rw [this, take_min_length]
      rw [e]
      have e2 : min (min (min l c.used) cap) c.used = min cap (min l c.used) := by omega
      rw [e2]

theorem peekToFd_refines (c : Cbuf) (len : Int) (cap : Nat) :
    peekToFd c len cap = Spec.peekToFd (absR c) len cap := by
  unfold peekToFd Spec.peekToFd lenFd
  by_cases h : len < -1
  · simp [h]
  · simp only [h, if_false, absR_f, abs_q]
    by_cases h1 : len = -1
    · subst h1
      simp only [if_true]
      by_cases hu : c.used > 0
      · simp only [hu, if_true, readerFd_eq]
        rw [List.take_of_length_le (by rw [contents_length]; omega)]
      · simp only [hu, if_false]
        have : contents c = [] := List.eq_nil_of_length_eq_zero (by rw [contents_length]; omega)
        simp [Spec.sinkRet, this]
    · simp only [h1, if_false]
      by_cases hl : len.toNat > 0
      · simp only [hl, if_true, readerFd_eq]
      · simp only [hl, if_false]
        have : len.toNat = 0 := by omega
        simp [Spec.sinkRet, this]

theorem sinkRet_facts (want : List UInt8) (cap : Nat) :
    (Spec.sinkRet want cap).2 = want.take (Spec.sinkRet want cap).2.length ∧
    ((Spec.sinkRet want cap).1 > 0 → (Spec.sinkRet want cap).1 = ((Spec.sinkRet want cap).2.length : Int)) ∧
    (¬ (Spec.sinkRet want cap).1 > 0 → (Spec.sinkRet want cap).2 = []) := by
  unfold Spec.sinkRet
  by_cases h0 : want.length = 0
  · simp [h0]
  · simp only [h0, if_false]
    by_cases hc : cap = 0
    · simp [hc]
    · simp only [hc, if_false, List.length_take]
      refine ⟨(take_min_length want cap).symm, fun _ => trivial, ?_⟩
      intro hn; exfalso; apply hn
      have : 0 < min cap want.length := by omega
      omega

theorem readToFd_refines {c : Cbuf} (hi : Inv c) (len : Int) (cap : Nat) :
    (readToFd c len cap).1 = (Spec.readToFd (absR c) len cap).1 ∧
    (readToFd c len cap).2.1 = (Spec.readToFd (absR c) len cap).2.1 ∧
    absR (readToFd c len cap).2.2 = (Spec.readToFd (absR c) len cap).2.2 ∧ Inv (readToFd c len cap).2.2 := by
  have hp := peekToFd_refines c len cap
  unfold Spec.readToFd
  rw [← hp]
  -- what the model does in terms of its own peek
  have hm : readToFd c len cap =
      ((peekToFd c len cap).1, (peekToFd c len cap).2,
        if (peekToFd c len cap).1 > 0 then dropper c (peekToFd c len cap).2.length else c) := by
    unfold readToFd peekToFd
    by_cases h : len < -1
    · simp [h]
    · simp only [h, if_false]
      by_cases hl : lenFd c len > 0
      · simp only [hl, if_true]
      · simp only [hl, if_false]; simp
  rw [hm]
  simp only
  -- the bytes sent are a prefix of the unread bytes
  have hpre : (peekToFd c len cap).2 = (contents c).take (peekToFd c len cap).2.length ∧
      ((peekToFd c len cap).1 > 0 → True) ∧
      (¬ (peekToFd c len cap).1 > 0 → (peekToFd c len cap).2 = []) := by
    rw [hp]
    unfold Spec.peekToFd
    by_cases h : len < -1
    · simp [h]
    · simp only [h, if_false, absR_f, abs_q]
      obtain ⟨f1, _, f3⟩ := sinkRet_facts (if len = -1 then contents c else (contents c).take len.toNat) cap
      refine ⟨?_, fun _ => trivial, f3⟩
      generalize Spec.sinkRet (if len = -1 then contents c else (contents c).take len.toNat) cap = res at f1
      by_cases h1 : len = -1
      · simp only [h1, if_true] at f1; exact f1
      · simp only [h1, if_false] at f1
        have hk := congrArg List.length f1
        simp only [List.length_take, contents_length] at hk
        conv => lhs; rw [f1]
        rw [List.take_take]
        congr 1
        omega
  obtain ⟨hb, _, hb0⟩ := hpre
  generalize (peekToFd c len cap).2 = bs at hb hb0
  generalize (peekToFd c len cap).1 = n at hb0
  have hle : bs.length ≤ c.used := by
    have := congrArg List.length hb
    rw [List.length_take, contents_length] at this
    omega
  refine ⟨trivial, trivial, ?_, ?_⟩
  · by_cases hn : n > 0
    · simp only [hn, if_true]
      have hi' := inv_dropper hi bs.length hle
      have hsc : SameCells c (dropper c bs.length) := ⟨rfl, rfl, rfl, rfl⟩
      have hh := hist_consume hi hi' hsc (by simp [dropper])
      simp only [absR, hh, abs_dropper c _ hle]
      unfold Spec.histAfterConsume
      simp only [absR_hist, absR_f, abs_q, contents_length, List.length_drop]
      have e : c.used - (c.used - bs.length) = bs.length := by omega
      rw [e, ← hb]
      rfl
    · simp only [hn, if_false]
      rw [hb0 hn]
      simp [absR, abs]
  · by_cases hn : n > 0
    · simp only [hn, if_true]; exact inv_dropper hi _ hle
    · simp only [hn, if_false]; exact hi

theorem replayToFd_refines {c : Cbuf} (hi : Inv c) (len : Int) (cap : Nat) :
    replayToFd c len cap = Spec.replayToFd (absR c) len cap := by
  have := hi.spos; have := hi.iout; have := hi.irep
  obtain ⟨h1, h2, _⟩ := reused_facts hi
  have key : ∀ l, l > 0 → replayerFd c l cap = Spec.sinkRet (Spec.lastN l (hist c)) cap := by
    intro l hl
    unfold replayerFd Spec.sinkRet
    have hlen : (Spec.lastN l (hist c)).length = min l (reused c) := by
      simp only [Spec.lastN, List.length_drop, hist_length]; omega
    rw [hlen]
    by_cases h0 : min l (reused c) = 0
    · simp [h0]
    · simp only [h0, if_false]
      by_cases hc : cap = 0
      · simp [hc]
      · simp only [hc, if_false]
        have e : circRead c.data (c.size + 1) ((c.iOut + (c.size + 1) - min l (reused c)) % (c.size + 1))
            (min (min l (reused c)) cap) = (Spec.lastN l (hist c)).take cap := by
          rw [← replayer_eq hi l]
          unfold replayer
          rw [Nat.min_comm (min l (reused c)) cap, circRead_take]
        rw [e]
  unfold replayToFd Spec.replayToFd
  by_cases h : len < -1
  · simp [h]
  · simp only [h, if_false, absR_f, absR_hist, abs_size, abs_q, contents_length]
    generalize (if len = -1 then c.size - c.used else len.toNat) = l
    by_cases hl : l > 0
    · simp only [hl, if_true, key l hl]
    · have : l = 0 := by omega
      subst this
      simp [Spec.sinkRet, Spec.lastN]

end PdshVerif.Cbuf
