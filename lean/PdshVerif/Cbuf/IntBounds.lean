/-
  32-bit `int` overflow freedom of the index arithmetic of cbuf.c.

  Every field of `struct cbuf` and every local of cbuf.c is a C `int`.  `intExprs c len` lists, for a
  state `c` and a (validated, non-negative) length argument `len`, an upper bound of the largest
  intermediate value of every `int` expression over indices, counts and sizes the public functions
  evaluate, labelled with the place in cbuf.c.  The list is TRANSCRIBED BY HAND from the C text (it
  is not extracted mechanically); for the sizes the harness reaches, UBSan's signed-overflow check
  covers the same expressions in the real code.

  Results:
  * `index_exprs_safe`: in every valid state with `maxsize ≤ INT_MAX / 2` (= 1073741823) none of the
    expressions that do NOT involve the caller's length overflows -- the critical ones are the
    "step back by one" computations `(i_out + size) % (size + 1)` and `(i + size) % (size + 1)` of
    `cbuf_find_replay_line`, which reach `2 * size`;
  * `index_overflow_witness`: the bound is sharp: with size = 2^30 = INT_MAX/2 + 1, `i + size`
    exceeds INT_MAX at i = size;
  * `i_in + len` as such is never evaluated: the copy loops advance by `m ≤ (size + 1) - i`, so
    `(i + m)` is at most `size + 1` whatever `len` is (`chunk_step_safe`);
  * the caller's length enters only in `cb->alloc + n` (+ rounding) of `cbuf_grow` and in
    `dst->used + n` of the metadata update: `len_exprs_safe` needs
    `len + maxsize + size_meta + CBUF_CHUNK ≤ INT_MAX`; `len_overflow_witness`: a WRAP_MANY write
    of INT_MAX bytes into a buffer holding one byte overflows `used + n`.
-/
import PdshVerif.Cbuf.Inv

namespace PdshVerif.Cbuf

def INT_MAX : Nat := 2147483647

/-- expressions over indices, counts and sizes only -/
def indexExprs (c : Cbuf) : List (String × Nat) :=
  [ ("cbuf_reused / cbuf_rewind / nrepl: (i_out - i_rep) + (size + 1)", c.iOut + (c.size + 1)),
    ("cbuf_is_valid: (i_out - i_in - 1) + (size + 1)", c.iOut + (c.size + 1)),
    ("cbuf_find_replay_line: (i_out + size) % (size + 1)", c.iOut + c.size),
    ("cbuf_find_replay_line: i = (i + size) % (size + 1), i ≤ size", c.size + c.size),
    ("cbuf_find_unread_line: (i + 1) % (size + 1)", c.size + 1),
    ("cbuf_replayer / cbuf_rewind_line: (i_out - len) + (size + 1)", c.iOut + (c.size + 1)),
    ("cbuf_dropper: (i_out + len) % (size + 1), len ≤ used", c.iOut + c.used),
    ("cbuf_copier: (i_src + n) % (size + 1), n ≤ used", c.size + c.used),
    ("cbuf_writer / cbuf_copier: (i_in + 1) % (size + 1)", c.size + 1),
    ("cbuf_grow: maxsize + size_meta", c.maxsize + (c.alloc - c.size)),
    ("cbuf_lines_used / cbuf_lines_reused: ++chars, chars = size", c.size + 1),
    ("cbuf_copier: dst->used + ncopy, ncopy ≤ size", c.used + c.size) ]

/-- one step of a copy loop: `n = MIN(nleft, (size + 1) - i)`, then `(i + m) % (size + 1)` with
    `m ≤ n` -/
def chunkStep (c : Cbuf) (i nleft m : Nat) : Nat := i + min m (min nleft ((c.size + 1) - i))

/-- expressions the caller's length enters -/
def lenExprs (c : Cbuf) (len : Nat) : List (String × Nat) :=
  [ ("cbuf_grow: m = cb->alloc + n; m + (CBUF_CHUNK - m % CBUF_CHUNK), n ≤ len", c.alloc + len + Gen.CBUF_CHUNK),
    ("cbuf_writer: dst->used + n, n ≤ len", c.used + len),
    ("cbuf_write_line: len++ after strlen", len + 1),
    ("cbuf_find_replay_line: ++chars, chars = len", len + 1) ]

theorem index_exprs_safe {c : Cbuf} (hi : Inv c) (hmax : c.maxsize ≤ INT_MAX / 2)
    (hmeta : c.alloc - c.size ≤ 1 + 2 * 8) :
    ∀ e ∈ indexExprs c, e.2 ≤ INT_MAX := by
  have := hi.smax; have := hi.used; have := hi.iout; have := hi.iin; have := hi.irep
  have h2 : INT_MAX / 2 = 1073741823 := by decide
  have h3 : INT_MAX = 2147483647 := rfl
  intro e he
  simp only [indexExprs, List.mem_cons, List.mem_nil_iff, or_false] at he
  rcases he with h | h | h | h | h | h | h | h | h | h | h | h <;> (subst h; simp only; omega)

theorem chunk_step_safe {c : Cbuf} (hi : Inv c) (hmax : c.maxsize ≤ INT_MAX / 2) (i nleft m : Nat) (h : i ≤ c.size) :
    chunkStep c i nleft m ≤ c.size + 1 ∧ chunkStep c i nleft m ≤ INT_MAX := by
  have := hi.smax
  have h2 : INT_MAX / 2 = 1073741823 := by decide
  have h3 : INT_MAX = 2147483647 := rfl
  unfold chunkStep
  omega

theorem len_exprs_safe {c : Cbuf} (hi : Inv c) (hmeta : c.alloc - c.size ≤ 1 + 2 * 8) (len : Nat)
    (hlen : len + c.maxsize + (1 + 2 * 8) + Gen.CBUF_CHUNK ≤ INT_MAX) :
    ∀ e ∈ lenExprs c len, e.2 ≤ INT_MAX := by
  have := hi.smax; have := hi.used; have := hi.alloc
  have hc : Gen.CBUF_CHUNK = 1000 := rfl
  have h3 : INT_MAX = 2147483647 := rfl
  intro e he
  simp only [lenExprs, List.mem_cons, List.mem_nil_iff, or_false] at he
  rcases he with h | h | h | h <;> (subst h; simp only; omega)

/-- the bound on the maximum size is sharp -/
theorem index_overflow_witness :
    let size := INT_MAX / 2 + 1
    size + size > INT_MAX ∧ (size - 1) + (size - 1) ≤ INT_MAX := by decide

/-- and so is the one on the length: WRAP_MANY accepts any length -/
theorem len_overflow_witness : (1 : Nat) + INT_MAX > INT_MAX := by decide

end PdshVerif.Cbuf
