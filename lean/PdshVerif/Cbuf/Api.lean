/-
  Which definition of the model stands for which function of the public header cbuf.h.
  `Gen.CBUF_API` is regenerated from the header of the tree under test on every run
  (harness/consts/cbuf.c); `Props/C13.lean : header_covered` proves that every declared function
  occurs in this table, so a function ADDED to cbuf.h breaks the build of the theorems.
-/
import PdshVerif.Cbuf.PairRefine

namespace PdshVerif.Cbuf

inductive ApiKind where
  | op         -- a constructor of `OpR` / `Op2`: a step of the histories the theorems are about
  | observer   -- a getter: a function of the state, proved equal to the abstract value
  | lifecycle  -- creation / destruction: start and end of a history
  deriving DecidableEq, Repr

/-- C function ↦ (kind, the definition of the model that mirrors it, the theorem that carries it) -/
def apiModelled : List (String × ApiKind × String × String) := [
  ("cbuf_create",        .lifecycle, "Cbuf.create",               "create_refines, create_none_iff, create_refines_replay"),
  ("cbuf_destroy",       .lifecycle, "end of a history (no state)", "none needed: the harness destroys every buffer under ASan + lock check"),
  ("cbuf_flush",         .op,        "Op.flush / Cbuf.flush",     "history_refines_fifo"),
  ("cbuf_size",          .observer,  "Cbuf.size",                 "size_bounds; the spec takes it as the implementation's choice"),
  ("cbuf_free",          .observer,  "Cbuf.free",                 "getters_agree, counters_agree"),
  ("cbuf_used",          .observer,  "Cbuf.used",                 "counters_agree"),
  ("cbuf_lines_used",    .observer,  "Cbuf.linesUsed",            "counters_agree"),
  ("cbuf_reused",        .observer,  "Cbuf.reused",               "counters_agree"),
  ("cbuf_lines_reused",  .observer,  "Cbuf.linesReused",          "getters_agree"),
  ("cbuf_is_empty",      .observer,  "Cbuf.isEmpty",              "getters_agree, counters_agree"),
  ("cbuf_opt_get",       .observer,  "Cbuf.optGet",               "getters_agree"),
  ("cbuf_opt_set",       .op,        "Op.optSet / Cbuf.optSet",   "history_refines_fifo"),
  ("cbuf_drop",          .op,        "Op.drop / Cbuf.drop",       "history_refines_fifo"),
  ("cbuf_peek",          .op,        "Op.peek / Cbuf.peek",       "history_refines_fifo"),
  ("cbuf_read",          .op,        "Op.read / Cbuf.read",       "history_refines_fifo"),
  ("cbuf_replay",        .op,        "OpR.replay / Cbuf.replay",  "history_refines_replay_fifo"),
  ("cbuf_rewind",        .op,        "OpR.rewind / Cbuf.rewind",  "history_refines_replay_fifo"),
  ("cbuf_write",         .op,        "Op.write / Cbuf.write",     "history_refines_fifo"),
  ("cbuf_drop_line",     .op,        "Op.dropLine / Cbuf.dropLine", "history_refines_fifo"),
  ("cbuf_peek_line",     .op,        "Op.peekLine / Cbuf.peekLine", "history_refines_fifo"),
  ("cbuf_read_line",     .op,        "Op.readLine / Cbuf.readLine", "history_refines_fifo"),
  ("cbuf_replay_line",   .op,        "OpR.replayLine / Cbuf.replayLine", "history_refines_replay_fifo"),
  ("cbuf_rewind_line",   .op,        "OpR.rewindLine / Cbuf.rewindLine", "history_refines_replay_fifo"),
  ("cbuf_write_line",    .op,        "Op.writeLine / Cbuf.writeLine", "history_refines_fifo"),
  ("cbuf_peek_to_fd",    .op,        "OpR.peekToFd / Cbuf.peekToFd", "history_refines_replay_fifo"),
  ("cbuf_read_to_fd",    .op,        "OpR.readToFd / Cbuf.readToFd", "history_refines_replay_fifo"),
  ("cbuf_replay_to_fd",  .op,        "OpR.replayToFd / Cbuf.replayToFd", "history_refines_replay_fifo"),
  ("cbuf_write_from_fd", .op,        "Op.writeFromFd / Cbuf.writeFromFd", "history_refines_fifo"),
  ("cbuf_copy",          .op,        "Op2.copy / Cbuf.copy",      "pair_history_refines_fifo"),
  ("cbuf_move",          .op,        "Op2.move / Cbuf.move",      "pair_history_refines_fifo")]

def apiCovers (f : String) : Bool := apiModelled.any (fun p => p.1 == f)

end PdshVerif.Cbuf
