/-
  `size_meta = alloc - size` (the sentinel cell, plus the two magic cookies when assertions are
  compiled in) and the bounds `minsize` / `maxsize` NEVER change after `cbuf_create`: a proved
  invariant of every operation of the model, for every admissible growth policy.

  cbuf_grow recomputes `size_meta = cb->alloc - cb->size` from the state on every call; that the
  value it finds is the one `cbuf_create` put there is what makes `maxsize + size_meta` (and so the
  overflow bound of IntBounds.lean) a constant of the buffer.  No validity hypothesis is needed:
  only that the policy returns at least `alloc + n` (Admissible).
-/
import PdshVerif.Cbuf.PairRefine

namespace PdshVerif.Cbuf

/-- same geometry constants -/
structure SameGeo (c c' : Cbuf) : Prop where
  smeta : c'.alloc - c'.size = c.alloc - c.size
  minsize : c'.minsize = c.minsize
  maxsize : c'.maxsize = c.maxsize

theorem SameGeo.refl (c : Cbuf) : SameGeo c c := ⟨rfl, rfl, rfl⟩

theorem SameGeo.trans {a b c : Cbuf} (h1 : SameGeo a b) (h2 : SameGeo b c) : SameGeo a c :=
  ⟨h2.smeta.trans h1.smeta, h2.minsize.trans h1.minsize, h2.maxsize.trans h1.maxsize⟩

theorem grow_geo (c : Cbuf) (n : Nat) (pol : Policy) [hadm : Admissible pol] : SameGeo c (grow c n pol).1 := by
  have hp := hadm.enough c.alloc n c.minsize c.maxsize
  unfold grow
  split
  · exact SameGeo.refl c
  · simp only
    split
    · refine ⟨?_, rfl, rfl⟩
      simp only
      omega
    · refine ⟨?_, rfl, rfl⟩
      simp only
      omega

theorem maybeGrow_geo (c : Cbuf) (len : Nat) (pol : Policy) [Admissible pol] : SameGeo c (maybeGrow c len pol).1 := by
  unfold maybeGrow
  simp only
  split
  · exact grow_geo c _ pol
  · exact SameGeo.refl c

theorem commit_geo (c : Cbuf) (nfree : Nat) (d : Array UInt8) (i n : Nat) : SameGeo c (commit c nfree d i n) :=
  ⟨rfl, rfl, rfl⟩

theorem dropper_geo (c : Cbuf) (n : Nat) : SameGeo c (dropper c n) := ⟨rfl, rfl, rfl⟩

theorem writer_geo (c : Cbuf) (len : Nat) (src : Src) (pol : Policy) [Admissible pol] :
    SameGeo c (writer c len src pol).c := by
  have hg := maybeGrow_geo c len pol
  unfold writer
  simp only
  split
  · exact hg
  · split
    · exact hg.trans ⟨rfl, rfl, rfl⟩
    · exact hg.trans (commit_geo _ _ _ _ _)

theorem write_geo (c : Cbuf) (bs : List UInt8) (pol : Policy) [Admissible pol] : SameGeo c (write c bs pol).2.2 := by
  unfold write
  split
  · exact SameGeo.refl c
  · exact writer_geo c _ _ pol

theorem writeFromFd_geo (c : Cbuf) (len : Int) (av : List UInt8) (eof : Bool) (pol : Policy) [Admissible pol] :
    SameGeo c (writeFromFd c len av eof pol).2.2 := by
  unfold writeFromFd
  simp only
  repeat' split
  all_goals first | exact SameGeo.refl c | exact writer_geo c _ _ pol

theorem writeLine_geo (c : Cbuf) (s : List UInt8) (pol : Policy) [Admissible pol] :
    SameGeo c (writeLine c s pol).2.2 := by
  unfold writeLine
  simp only
  generalize (if s.length = 0 ∨ s.getLast? ≠ some 10 then s.length + 1 else s.length) = len
  have h0 : SameGeo c (if len > c.size - c.used ∧ c.size < c.maxsize then (grow c (len - (c.size - c.used)) pol).1 else c) := by
    split
    · exact grow_geo c _ pol
    · exact SameGeo.refl c
  generalize (if len > c.size - c.used ∧ c.size < c.maxsize then (grow c (len - (c.size - c.used)) pol).1 else c) = c1 at h0 ⊢
  by_cases hr : lineRefused c1 len = true
  · simp only [hr, if_true]; exact h0
  · simp only [hr, Bool.false_eq_true, if_false]
    generalize (if len > c1.size then len - c1.size else 0) = nd0
    by_cases hc : s.length - nd0 > 0 <;> by_cases hn : (s.length = 0 ∨ s.getLast? ≠ some 10) <;>
      simp only [hc, hn, if_true, if_false]
    · exact h0.trans ((writer_geo _ _ _ pol).trans (writer_geo _ _ _ pol))
    · exact h0.trans (writer_geo _ _ _ pol)
    · exact h0.trans (writer_geo _ _ _ pol)
    · exact h0

theorem stepM_geo (c : Cbuf) (op : Op) (pol : Policy) [Admissible pol] : SameGeo c (stepM c op pol).2 := by
  cases op with
  | write bs => exact write_geo c bs pol
  | writeFromFd len av eof => exact writeFromFd_geo c len av eof pol
  | writeLine s => exact writeLine_geo c s pol
  | read len =>
    simp only [stepM, read]
    repeat' split
    all_goals first | exact SameGeo.refl c | exact dropper_geo c _
  | peek len => exact SameGeo.refl c
  | drop len =>
    simp only [stepM, drop]
    repeat' split
    all_goals first | exact SameGeo.refl c | exact dropper_geo c _
  | readLine len lines =>
    simp only [stepM, readLine]
    repeat' split
    all_goals first | exact SameGeo.refl c | exact dropper_geo c _
  | peekLine len lines => exact SameGeo.refl c
  | dropLine len lines =>
    simp only [stepM, dropLine]
    repeat' split
    all_goals first | exact SameGeo.refl c | exact dropper_geo c _
  | flush => exact ⟨rfl, rfl, rfl⟩
  | optSet v =>
    simp only [stepM, optSet]
    split
    · exact ⟨rfl, rfl, rfl⟩
    · exact SameGeo.refl c

theorem stepMR_geo (c : Cbuf) (op : OpR) (pol : Policy) [Admissible pol] : SameGeo c (stepMR c op pol).2 := by
  cases op with
  | base op => exact stepM_geo c op pol
  | replay len => exact SameGeo.refl c
  | rewind len =>
    simp only [stepMR, rewind]
    repeat' split
    all_goals first | exact SameGeo.refl c | exact ⟨rfl, rfl, rfl⟩
  | peekToFd len cap => exact SameGeo.refl c
  | readToFd len cap =>
    simp only [stepMR, readToFd]
    repeat' split
    all_goals first | exact SameGeo.refl c | exact dropper_geo c _
  | replayToFd len cap => exact SameGeo.refl c
  | replayLine len lines => exact SameGeo.refl c
  | rewindLine len lines =>
    simp only [stepMR, rewindLine]
    repeat' split
    all_goals first | exact SameGeo.refl c | exact ⟨rfl, rfl, rfl⟩

/-- over a whole history, a different admissible policy at every step -/
theorem runMRp_geo (ops : List (APolicy × OpR)) : ∀ c : Cbuf, SameGeo c (runMRp c ops).2 := by
  induction ops with
  | nil => intro c; exact SameGeo.refl c
  | cons pop ops ih =>
    intro c
    obtain ⟨p, op⟩ := pop
    haveI := p.adm
    simp only [runMRp]
    exact (stepMR_geo c op p.pol).trans (ih _)

theorem runMR_geo (ops : List OpR) (pol : Policy) [Admissible pol] : ∀ c : Cbuf, SameGeo c (runMR c ops pol).2 := by
  induction ops with
  | nil => intro c; exact SameGeo.refl c
  | cons op ops ih =>
    intro c
    simp only [runMR]
    exact (stepMR_geo c op pol).trans (ih _)

/-- buffer to buffer: the destination of a copy / move keeps its geometry, so does the source -/
theorem copier_geo (src dst : Cbuf) (len : Nat) (pol : Policy) [Admissible pol] :
    SameGeo dst (copier src dst len pol).2.2 := by
  have hg := maybeGrow_geo dst (min len src.used) pol
  unfold copier
  simp only
  split
  · exact SameGeo.refl dst
  · split
    · exact hg
    · refine hg.trans ?_
      unfold copyStore
      simp only
      repeat' split
      all_goals first | exact commit_geo _ _ _ _ _ | exact SameGeo.refl _

/-- what `cbuf_create` establishes -/
theorem create_geo {mn mx : Int} {sm : Nat} {c : Cbuf} (h : create mn mx sm = some c) :
    c.alloc - c.size = sm ∧ (c.minsize : Int) = mn ∧ (c.maxsize : Int) = max mn mx := by
  unfold create at h
  split at h
  · simp at h
  · simp only [Option.some.injEq] at h
    subst h
    simp only
    split <;> omega

end PdshVerif.Cbuf
