/-
  `got_wrap` under `cbuf_grow` and `cbuf_writer`: the flag is set exactly when "replayable +
  unread + stored" exceeds the capacity, i.e. when the buffer stops holding everything written
  since it was created or flushed.  `cbuf_grow` leaves it alone.
-/
import PdshVerif.Cbuf.Whole

namespace PdshVerif.Cbuf

theorem grow_gotWrap (c : Cbuf) (n : Nat) (pol : Policy) : (grow c n pol).1.gotWrap = c.gotWrap := by
  unfold grow
  by_cases h : c.size = c.maxsize
  · simp only [h, if_true]
  · simp only [h, if_false]
    by_cases h2 : c.iRep > c.iIn
    · simp only [h2, if_true]
    · simp only [h2, if_false]

theorem maybeGrow_meta {c0 : Cbuf} (hi : Inv c0) (len0 : Nat) (pol : Policy := chunkPolicy) [Admissible pol] :
    (maybeGrow c0 len0 pol).1.gotWrap = c0.gotWrap ∧ reused (maybeGrow c0 len0 pol).1 = reused c0 := by
  have := hi.used
  unfold maybeGrow
  by_cases h : len0 > c0.size - c0.used ∧ c0.size < c0.maxsize
  · simp only [h, and_self, if_true]
    exact ⟨grow_gotWrap _ _ _, (grow_ok hi _ h.2 (by omega) pol).nrepl⟩
  · simp only [h, if_false]
    refine ⟨?_, ?_⟩ <;> first | rfl | trivial

theorem decide_congr {p q : Prop} [Decidable p] [Decidable q] (h : p ↔ q) : decide p = decide q := by
  by_cases hp : p
  · simp [hp, h.mp hp]
  · have : ¬ q := fun hq => hp (h.mpr hq)
    simp [hp, this]

/-- `cbuf_writer`: got_wrap afterwards (stated for any name `r` of the result, so that the case
    analysis runs on the hypothesis and not under the `decide`) -/
theorem writer_gotWrap' {c0 : Cbuf} (hi : Inv c0) (len0 : Nat) (hl : 0 < len0) (src : Src) (hs : src.ok len0)
    (pol : Policy) [Admissible pol] (r : WResult) (hr : writer c0 len0 src pol = r) :
    r.c.gotWrap = (c0.gotWrap || decide (reused c0 + c0.used + r.ret.toNat > r.c.size)) := by
  have hg := maybeGrow_ok hi len0 pol
  obtain ⟨hgw, hgr⟩ := maybeGrow_meta hi len0 pol
  unfold writer at hr
  generalize maybeGrow c0 len0 pol = p at hg hgw hgr hr
  obtain ⟨c, nfree⟩ := p
  simp only at hg hgw hgr hr
  have hci := hg.inv
  have hsum := (reused_facts hci).1
  have hu := hg.used
  have hcu := hci.used
  have hno : decide (reused c0 + c0.used + 0 > c.size) = false := by
    simp only [decide_eq_false_iff_not]; omega
  cases hel : effLen c len0 with
  | none =>
    rw [hel] at hr
    simp only at hr
    subst hr
    have hm1 : ((-1 : Int)).toNat = 0 := rfl
    simp only [hm1, hno, Bool.or_false]
    exact hgw
  | some len =>
    rw [hel] at hr
    simp only at hr
    have hlen : 0 < len ∧ len ≤ len0 := by
      have := hci.spos
      unfold effLen at hel
      split at hel
      · simp only at hel; split at hel <;> simp at hel; omega
      · simp at hel; omega
      · simp at hel; omega
    have hsok : src.ok len := by
      cases src with
      | mem bs => simp only [Src.ok] at hs ⊢; omega
      | fd _ _ => trivial
    have hloop := writerLoop_spec c.size (len + 1) c.data c.iIn len src 0 (by omega) hci.iin hsok hci.dsize
    generalize writerLoop c.size (len + 1) c.data c.iIn len src 0 = res at hloop hr
    obtain ⟨d, iDst, nleft, src', m⟩ := res
    simp only at hloop hr
    obtain ⟨_, _, hnl, hm⟩ := hloop
    have hgl : (src.avail len).length ≤ len := by cases src <;> simp [Src.avail] <;> omega
    by_cases h0 : (src.avail len).length = 0
    · have hn0 : len - nleft = 0 := by omega
      simp only [hn0, if_true] at hr
      subst hr
      have hret : m = src.emptyRet := (hm hlen.1 h0).1
      have hm0 : m.toNat = 0 := by
        rw [hret]; cases src with
        | mem _ => rfl
        | fd _ eof => simp only [Src.emptyRet]; split <;> rfl
      simp only [hm0, hno, Bool.or_false]
      exact hgw
    · have hn0 : ¬ (len - nleft = 0) := by omega
      simp only [hn0, if_false] at hr
      subst hr
      simp only [Int.toNat_natCast]
      have hnf := hg.nfree
      have hw : (commit c nfree d iDst (len - nleft)).gotWrap =
          (c.gotWrap || decide (len - nleft + reused c > nfree)) := rfl
      have hs : (commit c nfree d iDst (len - nleft)).size = c.size := rfl
      rw [hw, hs, hgw]
      congr 1
      apply decide_congr
      omega

theorem writer_gotWrap {c0 : Cbuf} (hi : Inv c0) (len0 : Nat) (hl : 0 < len0) (src : Src) (hs : src.ok len0)
    (pol : Policy := chunkPolicy) [Admissible pol] :
    (writer c0 len0 src pol).c.gotWrap =
      (c0.gotWrap || decide (reused c0 + c0.used + (writer c0 len0 src pol).ret.toNat >
        (writer c0 len0 src pol).c.size)) :=
  writer_gotWrap' hi len0 hl src hs pol _ rfl

end PdshVerif.Cbuf
