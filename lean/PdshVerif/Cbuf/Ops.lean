/-
  Operation histories: one step function for the index model and one for the FIFO
  specification (which takes the implementation's own choices - return value of a descriptor
  write, reported capacity - as inputs), and the step-wise refinement theorem.
-/
import PdshVerif.Cbuf.Lines
import PdshVerif.Cbuf.WriteLine

namespace PdshVerif.Cbuf

inductive Op where
  | write (bs : List UInt8)
  | writeFromFd (len : Int) (avail : List UInt8) (eof : Bool)
  | writeLine (s : List UInt8)
  | read (len : Int)
  | peek (len : Int)
  | drop (len : Int)
  | readLine (len lines : Int)
  | peekLine (len lines : Int)
  | dropLine (len lines : Int)
  | flush
  | optSet (v : Nat)
  deriving Repr

/-- observable answer of one operation: return value, drop count, bytes delivered -/
structure Out where
  ret : Int
  ndropped : Nat := 0
  bytes : Option (List UInt8) := none
  deriving DecidableEq, Repr

def stepM (c : Cbuf) (op : Op) (pol : Policy := chunkPolicy) : Out × Cbuf :=
  match op with
  | .write bs => let (r, d, c') := write c bs pol; ({ ret := r, ndropped := d }, c')
  | .writeFromFd len av eof => let (r, d, c') := writeFromFd c len av eof pol; ({ ret := r, ndropped := d }, c')
  | .writeLine s => let (r, d, c') := writeLine c s pol; ({ ret := r, ndropped := d }, c')
  | .read len => let (r, bs, c') := read c len; ({ ret := r, bytes := some bs }, c')
  | .peek len => let (r, bs) := peek c len; ({ ret := r, bytes := some bs }, c)
  | .drop len => let (r, c') := drop c len; ({ ret := r }, c')
  | .readLine len lines => let (r, o, c') := readLine c len lines; ({ ret := r, bytes := o }, c')
  | .peekLine len lines => let (r, o) := peekLine c len lines; ({ ret := r, bytes := o }, c)
  | .dropLine len lines => let (r, c') := dropLine c len lines; ({ ret := r }, c')
  | .flush => ({ ret := 0 }, flush c)
  | .optSet v => let (r, c') := optSet c v; ({ ret := r }, c')

/-- the specification's step: `implRet`/`implSize` are the implementation's own return value and
    reported capacity after the operation; `none` = the implementation's answer is not admissible -/
def stepS (f : Spec.Fifo) (op : Op) (implRet : Int) (implSize : Nat) : Option (Out × Spec.Fifo) :=
  match op with
  | .write bs => (Spec.write f bs implSize).map fun (r, d, f') => ({ ret := r, ndropped := d }, f')
  | .writeFromFd len av eof =>
    (Spec.writeFromFd f len av eof implRet implSize).map fun (r, d, f') => ({ ret := r, ndropped := d }, f')
  | .writeLine s => (Spec.writeLine f s implSize).map fun (r, d, f') => ({ ret := r, ndropped := d }, f')
  | .read len => let (r, bs, f') := Spec.read f len; some ({ ret := r, bytes := some bs }, f')
  | .peek len => let (r, bs) := Spec.peek f len; some ({ ret := r, bytes := some bs }, f)
  | .drop len => let (r, f') := Spec.drop f len; some ({ ret := r }, f')
  | .readLine len lines => let (r, o, f') := Spec.readLine f len lines; some ({ ret := r, bytes := o }, f')
  | .peekLine len lines => let (r, o) := Spec.peekLine f len lines; some ({ ret := r, bytes := o }, f)
  | .dropLine len lines => let (r, f') := Spec.dropLine f len lines; some ({ ret := r }, f')
  | .flush => some ({ ret := 0 }, Spec.flush f)
  | .optSet v => let (r, f') := Spec.optSet f v; some ({ ret := r }, f')

theorem step_refines {c : Cbuf} (hi : Inv c) (op : Op) (pol : Policy := chunkPolicy) [Admissible pol] :
    stepS (abs c) op (stepM c op pol).1.ret (stepM c op pol).2.size =
      some ((stepM c op pol).1, abs (stepM c op pol).2) ∧
    Inv (stepM c op pol).2 := by
  cases op with
  | write bs =>
    obtain ⟨h1, h2⟩ := write_refines hi bs pol
    simp only [stepM, stepS]
    exact ⟨by rw [h1]; rfl, h2⟩
  | writeFromFd len av eof =>
    obtain ⟨h1, h2⟩ := writeFromFd_refines hi len av eof pol
    simp only [stepM, stepS]
    exact ⟨by rw [h1]; rfl, h2⟩
  | writeLine s =>
    obtain ⟨h1, h2, _⟩ := writeLine_refines hi s pol
    simp only [stepM, stepS]
    exact ⟨by rw [h1]; rfl, h2⟩
  | read len =>
    obtain ⟨h1, h2, h3, h4⟩ := read_refines hi len
    simp only [stepM, stepS]
    exact ⟨by rw [← h1, ← h2, ← h3], h4⟩
  | peek len =>
    simp only [stepM, stepS, peek_refines c len]
    exact ⟨by first | rfl | trivial, hi⟩
  | drop len =>
    obtain ⟨h1, h2, h3⟩ := drop_refines hi len
    simp only [stepM, stepS]
    exact ⟨by rw [← h1, ← h2], h3⟩
  | readLine len lines =>
    obtain ⟨h1, h2, h3, h4⟩ := readLine_refines hi len lines
    simp only [stepM, stepS]
    exact ⟨by rw [← h1, ← h2, ← h3], h4⟩
  | peekLine len lines =>
    simp only [stepM, stepS, peekLine_refines hi len lines]
    exact ⟨by first | rfl | trivial, hi⟩
  | dropLine len lines =>
    obtain ⟨h1, h2, h3⟩ := dropLine_refines hi len lines
    simp only [stepM, stepS]
    exact ⟨by rw [← h1, ← h2], h3⟩
  | flush =>
    obtain ⟨h1, h2⟩ := flush_refines hi
    simp only [stepM, stepS]
    exact ⟨by rw [h1], h2⟩
  | optSet v =>
    obtain ⟨h1, h2, h3⟩ := optSet_refines hi v
    simp only [stepM, stepS]
    exact ⟨by rw [← h1, ← h2], h3⟩

/-- run a whole history on the model, collecting the answers -/
def runM (c : Cbuf) (ops : List Op) (pol : Policy := chunkPolicy) : List Out × Cbuf :=
  match ops with
  | [] => ([], c)
  | op :: ops => let (o, c') := stepM c op pol; let (os, c'') := runM c' ops pol; (o :: os, c'')

/-- check a whole history of (operation, implementation answer, reported capacity) against the spec -/
def acceptS (f : Spec.Fifo) : List (Op × Out × Nat) → Option Spec.Fifo
  | [] => some f
  | (op, o, sz) :: rest =>
    match stepS f op o.ret sz with
    | some (o', f') => if o' = o then acceptS f' rest else none
    | none => none

/-- the annotated history the model itself produces -/
def traceM (c : Cbuf) (ops : List Op) (pol : Policy := chunkPolicy) : List (Op × Out × Nat) :=
  match ops with
  | [] => []
  | op :: ops => (op, (stepM c op pol).1, (stepM c op pol).2.size) :: traceM (stepM c op pol).2 ops pol

theorem run_refines {c : Cbuf} (hi : Inv c) (ops : List Op) (pol : Policy := chunkPolicy) [Admissible pol] :
    acceptS (abs c) (traceM c ops pol) = some (abs (runM c ops pol).2) ∧ Inv (runM c ops pol).2 := by
  induction ops generalizing c with
  | nil => exact ⟨rfl, hi⟩
  | cons op ops ih =>
    obtain ⟨h1, h2⟩ := step_refines hi op pol
    simp only [traceM, acceptS, h1, if_true, runM]
    exact ih h2

end PdshVerif.Cbuf
