/-
  The TWO-lock protocol of cbuf_copy / cbuf_move, and why it cannot deadlock.

  Every public function of cbuf.c locks the one buffer it works on; cbuf_copy and cbuf_move work on
  two buffers and lock both:

      if (src == dst) { errno = EINVAL; return -1; }          -- refused BEFORE any lock is taken
      if (src < dst) { lock (src); lock (dst); } else { lock (dst); lock (src); }
      ... critical section on both ...
      unlock (src); unlock (dst);

  i.e. the locks are TAKEN in the order of their addresses, whatever the direction of the copy, and
  released in the order (src, dst).  This file models the protocol at the level of the mutexes only
  (what the critical sections do to the data is the subject of Lin.lean / PairRefine.lean): a lock is
  a natural number (its address, or its rank in any other fixed total order), a call is the list of
  locks it takes in program order and the list it releases in program order, a thread is a list of
  calls, a configuration is a list of threads; `step cfg i` lets thread `i` perform its next action
  under the semantics of non-recursive mutexes (`none` = blocked or finished).

  Theorems:
  * `deadlock_free`         in every well-formed configuration (every thread takes its locks in
                            ascending order) in which some thread is not finished, some thread can move;
  * `wf_step`, `wf_run`     well-formedness is an invariant of every execution;
  * `cbuf_calls_never_deadlock`  any number of threads, each running any sequence of single-buffer
                            calls and copies/moves between DISTINCT buffers in any directions: every
                            reachable configuration is either finished or has an enabled thread;
  * `step_work`, `run_length_le`  every action consumes one unit of a finite amount of work, so every
                            execution that keeps going ends, and then (deadlock freedom) with all calls
                            completed: `maximal_run_completes`;
  * `exclusive_step`        a lock is never held by two threads;
  * `naive_protocol_deadlocks`   WITHOUT the address comparison (source first) two threads copying in
                            opposite directions reach a configuration in which neither can ever move;
  * `same_buffer_self_deadlock`  and without the `src == dst` refusal one thread blocks on itself.
-/
namespace PdshVerif.Cbuf.LockOrder

/-- one public call, seen by the mutexes only -/
structure Call where
  /-- the locks it takes, in program order -/
  acq : List Nat
  /-- the locks it releases, in program order -/
  rel : List Nat
  deriving DecidableEq, Repr

/-- every function of cbuf.h that works on one buffer -/
def single (a : Nat) : Call := ⟨[a], [a]⟩

/-- `cbuf_copy (src, dst, ..)` / `cbuf_move (src, dst, ..)` with `src != dst` -/
def pair (src dst : Nat) : Call := ⟨if src < dst then [src, dst] else [dst, src], [src, dst]⟩

/-- the protocol without the address comparison: source first -/
def pairNaive (src dst : Nat) : Call := ⟨[src, dst], [src, dst]⟩

/-- ascending acquisition; everything taken is released -/
def Call.ok (c : Call) : Prop := c.acq.Pairwise (· < ·) ∧ ∀ a ∈ c.acq, a ∈ c.rel

theorem single_ok (a : Nat) : (single a).ok := by simp [single, Call.ok]

theorem pair_ok (src dst : Nat) (h : src ≠ dst) : (pair src dst).ok := by
  unfold pair Call.ok
  by_cases hlt : src < dst
  · simp [hlt]
  · simp only [hlt, if_false, List.pairwise_cons, List.mem_cons, List.not_mem_nil, or_false, false_imp_iff,
      implies_true, List.Pairwise.nil, and_true, forall_eq_or_imp, forall_eq, true_or, or_true]
    omega

structure Th where
  /-- locks of the call in progress still to take -/
  acq : List Nat := []
  /-- locks of the call in progress still to release -/
  rel : List Nat := []
  /-- locks this thread holds -/
  held : List Nat := []
  /-- the calls it will make afterwards -/
  later : List Call := []
  deriving DecidableEq, Repr

def Th.done (t : Th) : Bool := t.acq.isEmpty && t.rel.isEmpty && t.later.isEmpty

/-- the next action of a thread; `free l` = nobody holds `l` -/
def Th.step (free : Nat → Bool) (t : Th) : Option Th :=
  match t.acq with
  | l :: rest => if free l then some { t with acq := rest, held := l :: t.held } else none
  | [] =>
    match t.rel with
    | l :: rest => some { t with rel := rest, held := t.held.filter (· ≠ l) }
    | [] =>
      match t.later with
      | c :: cs => some { t with acq := c.acq, rel := c.rel, later := cs }
      | [] => none

def heldBy (cfg : List Th) (l : Nat) : Bool := cfg.any (fun t => decide (l ∈ t.held))

/-- thread `i` performs its next action (non-recursive mutexes: a lock is free when NO thread,
    the caller included, holds it) -/
def step (cfg : List Th) (i : Nat) : Option (List Th) :=
  match cfg[i]? with
  | none => none
  | some t => (t.step (fun l => !heldBy cfg l)).map (fun t' => cfg.set i t')

/-- an execution under a schedule (the thread that moves at every instant) -/
def run (cfg : List Th) : List Nat → Option (List Th)
  | [] => some cfg
  | i :: is =>
    match step cfg i with
    | none => none
    | some cfg' => run cfg' is

structure Th.WF (t : Th) : Prop where
  below : ∀ h ∈ t.held, ∀ a ∈ t.acq, h < a
  asc : t.acq.Pairwise (· < ·)
  heldRel : ∀ h ∈ t.held, h ∈ t.rel
  acqRel : ∀ a ∈ t.acq, a ∈ t.rel
  later : ∀ c ∈ t.later, c.ok

theorem Th.wf_step {free : Nat → Bool} {t t' : Th} (h : t.WF) (hs : t.step free = some t') : t'.WF := by
  unfold Th.step at hs
  split at hs
  · rename_i l rest hacq
    split at hs
    · simp only [Option.some.injEq] at hs
      subst hs
      have hasc := h.asc
      rw [hacq, List.pairwise_cons] at hasc
      refine ⟨?_, hasc.2, ?_, ?_, h.later⟩
      · intro x hx a ha
        simp only [List.mem_cons] at hx
        rcases hx with hx | hx
        · subst hx; exact hasc.1 a ha
        · exact h.below x hx a (by rw [hacq]; exact List.mem_cons_of_mem _ ha)
      · intro x hx
        simp only [List.mem_cons] at hx
        rcases hx with hx | hx
        · subst hx; exact h.acqRel x (by rw [hacq]; exact List.mem_cons_self)
        · exact h.heldRel x hx
      · intro a ha
        exact h.acqRel a (by rw [hacq]; exact List.mem_cons_of_mem _ ha)
    · simp at hs
  · rename_i hacq
    split at hs
    · rename_i l rest hrel
      simp only [Option.some.injEq] at hs
      subst hs
      refine ⟨?_, ?_, ?_, ?_, h.later⟩
      · intro x _ a ha; simp [hacq] at ha
      · simp [hacq]
      · intro x hx
        simp only [List.mem_filter, decide_eq_true_eq] at hx
        have := h.heldRel x hx.1
        rw [hrel, List.mem_cons] at this
        rcases this with e | e
        · exact absurd e hx.2
        · exact e
      · intro a ha; simp [hacq] at ha
    · rename_i hrel
      split at hs
      · rename_i c cs hl
        simp only [Option.some.injEq] at hs
        subst hs
        have hc : c.ok := h.later c (by rw [hl]; exact List.mem_cons_self)
        have hnone : ∀ x, x ∉ t.held := fun x hx => by have := h.heldRel x hx; simp [hrel] at this
        refine ⟨?_, hc.1, ?_, hc.2, ?_⟩
        · intro x hx; exact absurd hx (hnone x)
        · intro x hx; exact absurd hx (hnone x)
        · intro c' hc'; exact h.later c' (by rw [hl]; exact List.mem_cons_of_mem _ hc')
      · simp at hs

def WF (cfg : List Th) : Prop := ∀ t ∈ cfg, t.WF

theorem wf_step {cfg cfg' : List Th} {i : Nat} (h : WF cfg) (hs : step cfg i = some cfg') : WF cfg' := by
  unfold step at hs
  split at hs
  · simp at hs
  · rename_i t ht
    simp only [Option.map_eq_some_iff] at hs
    obtain ⟨t', h1, h2⟩ := hs
    subst h2
    intro x hx
    rcases List.mem_or_eq_of_mem_set hx with hx | hx
    · exact h x hx
    · subst hx
      exact Th.wf_step (h t (List.mem_of_getElem? ht)) h1

theorem wf_run (sched : List Nat) : ∀ {cfg cfg' : List Th}, WF cfg → run cfg sched = some cfg' → WF cfg' := by
  induction sched with
  | nil => intro cfg cfg' h hr; simp only [run, Option.some.injEq] at hr; subst hr; exact h
  | cons i is ih =>
    intro cfg cfg' h hr
    simp only [run] at hr
    split at hr
    · simp at hr
    · rename_i c1 hs
      exact ih (wf_step h hs) hr

/-- a non-empty list of numbers has a largest element -/
theorem exists_max (ws : List Nat) (h : ws ≠ []) : ∃ m ∈ ws, ∀ w ∈ ws, w ≤ m := by
  induction ws with
  | nil => exact absurd rfl h
  | cons a as ih =>
    by_cases has : as = []
    · subst has
      exact ⟨a, List.mem_cons_self, fun w hw => by simp at hw; omega⟩
    · obtain ⟨m, hm, hall⟩ := ih has
      by_cases ham : a ≤ m
      · refine ⟨m, List.mem_cons_of_mem _ hm, fun w hw => ?_⟩
        simp only [List.mem_cons] at hw
        rcases hw with e | e
        · omega
        · exact hall w e
      · refine ⟨a, List.mem_cons_self, fun w hw => ?_⟩
        simp only [List.mem_cons] at hw
        rcases hw with e | e
        · omega
        · have := hall w e; omega

theorem step_of_thread {cfg : List Th} {t : Th} (ht : t ∈ cfg)
    (h : (t.step (fun l => !heldBy cfg l)).isSome) : ∃ i, (step cfg i).isSome := by
  obtain ⟨i, hi⟩ := List.getElem?_of_mem ht
  refine ⟨i, ?_⟩
  unfold step
  rw [hi]
  simpa using h

/-- DEADLOCK FREEDOM of ordered locking: as long as some thread has not finished, some thread can
    perform its next action -/
theorem deadlock_free {cfg : List Th} (h : WF cfg) (hnd : ∃ t ∈ cfg, t.done = false) :
    ∃ i, (step cfg i).isSome := by
  -- a thread that is not acquiring and not finished can always move
  by_cases hrel : ∃ t ∈ cfg, t.acq = [] ∧ t.done = false
  · obtain ⟨t, ht, hacq, hd⟩ := hrel
    apply step_of_thread ht
    unfold Th.step
    rw [hacq]
    cases hr : t.rel with
    | cons l rest => simp
    | nil =>
      cases hl : t.later with
      | cons c cs => simp
      | nil => simp [Th.done, hacq, hr, hl] at hd
  · -- every unfinished thread is waiting for a lock: look at the one that wants the largest lock
    have hwait : ∀ t ∈ cfg, t.done = false → t.acq ≠ [] := fun t ht hd ha => hrel ⟨t, ht, ha, hd⟩
    obtain ⟨t0, ht0, hd0⟩ := hnd
    let ws := cfg.filterMap (fun t => t.acq.head?)
    have hws : ws ≠ [] := by
      have hne := hwait t0 ht0 hd0
      cases ha : t0.acq with
      | nil => exact absurd ha hne
      | cons a as =>
        have : a ∈ ws := List.mem_filterMap.2 ⟨t0, ht0, by simp [ha]⟩
        exact List.ne_nil_of_mem this
    obtain ⟨m, hm, hall⟩ := exists_max ws hws
    obtain ⟨t, ht, hhead⟩ := List.mem_filterMap.1 hm
    cases ha : t.acq with
    | nil => simp [ha] at hhead
    | cons a as =>
      simp only [ha, List.head?_cons, Option.some.injEq] at hhead
      subst hhead
      apply step_of_thread ht
      unfold Th.step
      rw [ha]
      by_cases hfree : heldBy cfg a = false
      · simp [hfree]
      · exfalso
        simp only [Bool.not_eq_false] at hfree
        unfold heldBy at hfree
        rw [List.any_eq_true] at hfree
        obtain ⟨t', ht', hin⟩ := hfree
        simp only [decide_eq_true_eq] at hin
        -- the holder is not finished, hence waits for a lock above everything it holds
        have hrel' := (h t' ht').heldRel a hin
        have hd' : t'.done = false := by
          cases hr : t'.rel with
          | nil => simp [hr] at hrel'
          | cons x xs => simp [Th.done, hr]
        have hne' := hwait t' ht' hd'
        cases ha' : t'.acq with
        | nil => exact hne' ha'
        | cons b bs =>
          have hlt := (h t' ht').below a hin b (by rw [ha']; exact List.mem_cons_self)
          have hb : b ∈ ws := List.mem_filterMap.2 ⟨t', ht', by simp [ha']⟩
          have := hall b hb
          omega

/-! ### the calls of cbuf.h -/

/-- a call of cbuf.h as the mutexes see it -/
def IsCbufCall (c : Call) : Prop := (∃ a, c = single a) ∨ (∃ s d, s ≠ d ∧ c = pair s d)

theorem cbufCall_ok {c : Call} (h : IsCbufCall c) : c.ok := by
  rcases h with ⟨a, rfl⟩ | ⟨s, d, hne, rfl⟩
  · exact single_ok a
  · exact pair_ok s d hne

/-- threads that have not started yet -/
def initial (progs : List (List Call)) : List Th := progs.map (fun p => { later := p })

theorem wf_initial (progs : List (List Call)) (h : ∀ p ∈ progs, ∀ c ∈ p, IsCbufCall c) : WF (initial progs) := by
  intro t ht
  simp only [initial, List.mem_map] at ht
  obtain ⟨p, hp, rfl⟩ := ht
  exact ⟨by simp, by simp, by simp, by simp, fun c hc => cbufCall_ok (h p hp c hc)⟩

/-- ANY number of threads, each making ANY sequence of cbuf calls (single-buffer calls, copies and
    moves between distinct buffers in any direction), under ANY schedule: a configuration in which
    nobody can move is one in which every call of every thread has returned -/
theorem cbuf_calls_never_deadlock (progs : List (List Call)) (h : ∀ p ∈ progs, ∀ c ∈ p, IsCbufCall c)
    (sched : List Nat) (cfg : List Th) (hr : run (initial progs) sched = some cfg) :
    (∀ t ∈ cfg, t.done = true) ∨ ∃ i, (step cfg i).isSome := by
  by_cases hd : ∀ t ∈ cfg, t.done = true
  · exact .inl hd
  · right
    apply deadlock_free (wf_run sched (wf_initial progs h) hr)
    false_or_by_contra
    rename_i hno
    apply hd
    intro t ht
    cases hdt : t.done with
    | true => rfl
    | false => exact absurd ⟨t, ht, hdt⟩ hno

/-! ### every execution ends -/

def Call.work (c : Call) : Nat := c.acq.length + c.rel.length + 1
def Th.work (t : Th) : Nat := t.acq.length + t.rel.length + (t.later.map Call.work).sum
def work (cfg : List Th) : Nat := (cfg.map Th.work).sum

theorem Th.step_work {free : Nat → Bool} {t t' : Th} (hs : t.step free = some t') : t'.work + 1 = t.work := by
  unfold Th.step at hs
  split at hs
  · rename_i l rest hacq
    split at hs
    · simp only [Option.some.injEq] at hs; subst hs
      simp only [Th.work, hacq, List.length_cons]; omega
    · simp at hs
  · rename_i hacq
    split at hs
    · rename_i l rest hrel
      simp only [Option.some.injEq] at hs; subst hs
      simp only [Th.work, hacq, hrel, List.length_cons]; omega
    · rename_i hrel
      split at hs
      · rename_i c cs hl
        simp only [Option.some.injEq] at hs; subst hs
        simp only [Th.work, hacq, hrel, hl, List.map_cons, List.sum_cons, Call.work, List.length_nil]; omega
      · simp at hs

theorem sum_set (l : List Th) (i : Nat) (t t' : Th) (hi : l[i]? = some t) :
    ((l.set i t').map Th.work).sum + t.work = (l.map Th.work).sum + t'.work := by
  induction l generalizing i with
  | nil => simp at hi
  | cons x xs ih =>
    cases i with
    | zero =>
      simp only [List.getElem?_cons_zero, Option.some.injEq] at hi
      subst hi
      simp only [List.set_cons_zero, List.map_cons, List.sum_cons]; omega
    | succ j =>
      simp only [List.getElem?_cons_succ] at hi
      have := ih j hi
      simp only [List.set_cons_succ, List.map_cons, List.sum_cons]; omega

/-- every action consumes exactly one unit of work -/
theorem step_work {cfg cfg' : List Th} {i : Nat} (hs : step cfg i = some cfg') : work cfg' + 1 = work cfg := by
  unfold step at hs
  split at hs
  · simp at hs
  · rename_i t ht
    simp only [Option.map_eq_some_iff] at hs
    obtain ⟨t', h1, h2⟩ := hs
    subst h2
    have := sum_set cfg i t t' ht
    have := Th.step_work h1
    unfold work
    omega

/-- no execution is longer than the work there is -/
theorem run_length_le (sched : List Nat) : ∀ {cfg cfg' : List Th}, run cfg sched = some cfg' →
    work cfg' + sched.length = work cfg := by
  induction sched with
  | nil => intro cfg cfg' hr; simp only [run, Option.some.injEq] at hr; subst hr; simp
  | cons i is ih =>
    intro cfg cfg' hr
    simp only [run] at hr
    split at hr
    · simp at hr
    · rename_i c1 hs
      have := ih hr
      have := step_work hs
      simp only [List.length_cons]; omega

/-- a schedule that cannot be extended (whatever thread is chosen next, it cannot move) has
    completed every call: with `run_length_le` (no schedule is longer than `work (initial progs)`)
    every execution of cbuf calls runs to completion -/
theorem maximal_run_completes (progs : List (List Call)) (h : ∀ p ∈ progs, ∀ c ∈ p, IsCbufCall c)
    (sched : List Nat) (cfg : List Th) (hr : run (initial progs) sched = some cfg)
    (hmax : ∀ i, step cfg i = none) : ∀ t ∈ cfg, t.done = true := by
  rcases cbuf_calls_never_deadlock progs h sched cfg hr with hd | ⟨i, hi⟩
  · exact hd
  · rw [hmax i] at hi; simp at hi

/-! ### mutual exclusion -/

/-- no lock is held twice (by two threads, or twice by one) -/
def Exclusive (cfg : List Th) : Prop :=
  ∀ l, ((cfg.map (fun t => t.held.count l)).sum) ≤ 1

theorem count_sum_zero_of_free {cfg : List Th} {l : Nat} (h : heldBy cfg l = false) :
    (cfg.map (fun t => t.held.count l)).sum = 0 := by
  induction cfg with
  | nil => rfl
  | cons x xs ih =>
    simp only [heldBy, List.any_cons, Bool.or_eq_false_iff, decide_eq_false_iff_not] at h
    simp only [List.map_cons, List.sum_cons, List.count_eq_zero_of_not_mem h.1, Nat.zero_add]
    exact ih (by simpa [heldBy] using h.2)

theorem sum_set_count (cfg : List Th) (i : Nat) (t t' : Th) (l : Nat) (hi : cfg[i]? = some t) :
    ((cfg.set i t').map (fun t => t.held.count l)).sum + t.held.count l =
      (cfg.map (fun t => t.held.count l)).sum + t'.held.count l := by
  induction cfg generalizing i with
  | nil => simp at hi
  | cons x xs ih =>
    cases i with
    | zero =>
      simp only [List.getElem?_cons_zero, Option.some.injEq] at hi
      subst hi
      simp only [List.set_cons_zero, List.map_cons, List.sum_cons]; omega
    | succ j =>
      simp only [List.getElem?_cons_succ] at hi
      have := ih j hi
      simp only [List.set_cons_succ, List.map_cons, List.sum_cons]; omega

/-- mutual exclusion is an invariant: a lock is taken only when nobody holds it -/
theorem exclusive_step {cfg cfg' : List Th} {i : Nat} (h : Exclusive cfg) (hs : step cfg i = some cfg') :
    Exclusive cfg' := by
  unfold step at hs
  split at hs
  · simp at hs
  · rename_i t ht
    simp only [Option.map_eq_some_iff] at hs
    obtain ⟨t', h1, h2⟩ := hs
    subst h2
    intro l
    have hsum := sum_set_count cfg i t t' l ht
    have hl := h l
    unfold Th.step at h1
    split at h1
    · rename_i a rest hacq
      split at h1
      · rename_i hfree
        simp only [Option.some.injEq] at h1; subst h1
        simp only [Bool.not_eq_eq_eq_not, Bool.not_true] at hfree
        by_cases hla : a = l
        · subst hla
          have hz := count_sum_zero_of_free hfree
          have : t.held.count a = 0 := by
            apply List.count_eq_zero_of_not_mem
            intro hin
            have : heldBy cfg a = true := by
              unfold heldBy
              rw [List.any_eq_true]
              exact ⟨t, List.mem_of_getElem? ht, by simpa using hin⟩
            rw [hfree] at this; cases this
          simp only [List.count_cons_self] at hsum
          omega
        · simp only [List.count_cons_of_ne hla] at hsum
          omega
      · simp at h1
    · split at h1
      · rename_i a rest hrel
        simp only [Option.some.injEq] at h1; subst h1
        have : (t.held.filter (· ≠ a)).count l ≤ t.held.count l := by
          simp only [List.count_eq_countP, List.countP_filter]
          apply List.countP_mono_left
          intro x _ hx
          simp only [Bool.and_eq_true] at hx
          exact hx.1
        simp only at hsum
        omega
      · split at h1
        · simp only [Option.some.injEq] at h1; subst h1
          simp only at hsum
          omega
        · simp at h1

theorem exclusive_run (sched : List Nat) : ∀ {cfg cfg' : List Th}, Exclusive cfg → run cfg sched = some cfg' →
    Exclusive cfg' := by
  induction sched with
  | nil => intro cfg cfg' h hr; simp only [run, Option.some.injEq] at hr; subst hr; exact h
  | cons i is ih =>
    intro cfg cfg' h hr
    simp only [run] at hr
    split at hr
    · simp at hr
    · rename_i c1 hs
      exact ih (exclusive_step h hs) hr

theorem exclusive_initial (progs : List (List Call)) : Exclusive (initial progs) := by
  intro l
  have : (List.map (fun t : Th => t.held.count l) (initial progs)).sum = 0 := by
    unfold initial
    induction progs with
    | nil => rfl
    | cons p ps ih => simp only [List.map_cons, List.sum_cons, List.count_nil, Nat.zero_add]; exact ih
  omega

/-! ### witnesses -/

/-- WITHOUT the address comparison two threads copying in opposite directions deadlock: after both
    have taken their source, neither can ever move, and neither has finished -/
theorem naive_protocol_deadlocks :
    ∃ cfg, run (initial [[pairNaive 0 1], [pairNaive 1 0]]) [0, 1, 0, 1] = some cfg ∧
      (∀ i, i < 2 → step cfg i = none) ∧ cfg.all (fun t => !t.done) = true := by
  refine ⟨_, rfl, ?_, ?_⟩
  · intro i hi
    match i, hi with
    | 0, _ => decide
    | 1, _ => decide
  · decide

/-- the same two calls under the protocol of the code: the same schedule is not even possible
    (thread 1 blocks on the lower lock while thread 0 holds it), and every schedule that runs to the
    end completes both copies -/
example : run (initial [[pair 0 1], [pair 1 0]]) [0, 1, 0, 1] = none ∧
    (run (initial [[pair 0 1], [pair 1 0]]) [0, 1, 0, 0, 0, 0, 1, 1, 1, 1]).map (fun c => c.all Th.done) = some true := by
  decide

/-- without the `src == dst` refusal a thread would block on itself: the mutex is not recursive -/
theorem same_buffer_self_deadlock :
    ∃ cfg, run (initial [[pairNaive 3 3]]) [0, 0] = some cfg ∧ step cfg 0 = none ∧ cfg.all (fun t => !t.done) = true := by
  exact ⟨_, rfl, by decide, by decide⟩

end PdshVerif.Cbuf.LockOrder
