/-
  The invariant of the cbuf index model (= the conjuncts of `cbuf_is_valid` in cbuf.c, plus
  the shape of the data array) and the reader-side refinement lemmas.
-/
import PdshVerif.Cbuf.Circ

namespace PdshVerif.Cbuf

structure Inv (c : Cbuf) : Prop where
  dsize : c.data.size = c.size + 1
  spos  : 0 < c.size
  smin  : c.minsize ≤ c.size
  smax  : c.size ≤ c.maxsize
  alloc : c.size < c.alloc
  used  : c.used ≤ c.size
  iin   : c.iIn ≤ c.size
  iout  : c.iOut ≤ c.size
  irep  : c.iRep ≤ c.size
  /-- i_in is `used` cells after i_out (cbuf_is_valid: size - used == nfree) -/
  inout : (c.iOut + c.used < c.size + 1 → c.iIn = c.iOut + c.used) ∧
          (c.size + 1 ≤ c.iOut + c.used → c.iIn + (c.size + 1) = c.iOut + c.used)
  wrap  : c.gotWrap = true ∨ c.iRep = 0
  /-- the replay index lies outside the unread region -/
  rep   : (c.iOut ≤ c.iIn → (c.iIn < c.iRep ∨ c.iRep ≤ c.iOut)) ∧
          (c.iIn < c.iOut → (c.iIn < c.iRep ∧ c.iRep ≤ c.iOut))
  mpos  : 0 < c.minsize

/-- executable mirror of the assertions of `cbuf_is_valid` (data pointer / magic cookies aside) -/
def isValid (c : Cbuf) : Bool :=
  decide (0 < c.alloc) && decide (c.size < c.alloc) && decide (0 < c.size) &&
  decide (c.minsize ≤ c.size) && decide (c.size ≤ c.maxsize) && decide (0 < c.minsize) &&
  decide (0 < c.maxsize) && decide (c.used ≤ c.size) && (c.gotWrap || decide (c.iRep = 0)) &&
  decide (c.iIn ≤ c.size) && decide (c.iOut ≤ c.size) && decide (c.iRep ≤ c.size) &&
  (if c.iIn ≥ c.iOut then decide (c.iRep > c.iIn ∨ c.iRep ≤ c.iOut)
   else decide (c.iRep > c.iIn ∧ c.iRep ≤ c.iOut)) &&
  decide (c.size - c.used = (c.iOut + (c.size + 1) - c.iIn - 1) % (c.size + 1))

theorem isValid_of_inv {c : Cbuf} (h : Inv c) : isValid c = true := by
  have hmin := h.mpos
  have := h.spos; have := h.smin; have := h.smax; have := h.alloc; have := h.used
  have := h.iin; have := h.iout; have := h.irep; have hio := h.inout; have hw := h.wrap
  have hr := h.rep
  have hmod : c.size - c.used = (c.iOut + (c.size + 1) - c.iIn - 1) % (c.size + 1) := by
    have := @wrap_cases (c.iOut + (c.size + 1) - c.iIn - 1) (c.size + 1) (by omega)
    omega
  unfold isValid
  simp only [Bool.and_eq_true, decide_eq_true_eq, Bool.or_eq_true]
  refine ⟨⟨⟨⟨⟨⟨⟨⟨⟨⟨⟨⟨⟨?_, ?_⟩, ?_⟩, ?_⟩, ?_⟩, ?_⟩, ?_⟩, ?_⟩, ?_⟩, ?_⟩, ?_⟩, ?_⟩, ?_⟩, hmod⟩
  all_goals first | omega | exact hw | skip
  split <;> simp <;> omega

theorem inv_create {mn mx : Int} {sm : Nat} {c : Cbuf} (hsm : 0 < sm) (h : create mn mx sm = some c) :
    Inv c ∧ contents c = [] := by
  unfold create at h
  split at h
  · simp at h
  · rename_i hmn
    simp only [Option.some.injEq] at h
    subst h
    refine ⟨⟨by simp, by simp; omega, by simp, ?_, by simp; omega, by simp, by simp, by simp, by simp,
      by simp, by simp, by simp, by simp; omega⟩, by simp [contents, circRead]⟩
    simp only
    split <;> omega

/-! ### reader side -/

theorem contents_length (c : Cbuf) : (contents c).length = c.used := by simp [contents]

theorem reader_eq (c : Cbuf) (len : Nat) : reader c len = (contents c).take len := by
  simp [reader, contents, circRead_take]

theorem dropper_contents (c : Cbuf) (len : Nat) (h : len ≤ c.used) :
    contents (dropper c len) = (contents c).drop len := by
  simp only [contents, dropper]
  exact circRead_drop c.data (c.size + 1) c.iOut c.used len h

theorem inv_dropper {c : Cbuf} (hi : Inv c) (len : Nat) (h : len ≤ c.used) : Inv (dropper c len) := by
  have := hi.spos; have := hi.smin; have := hi.smax; have := hi.alloc; have := hi.used
  have := hi.iin; have := hi.iout; have := hi.irep; have hio := hi.inout; have hw := hi.wrap
  have hr := hi.rep
  have hmod := @wrap_cases (c.iOut + len) (c.size + 1) (by omega)
  refine ⟨hi.dsize, hi.spos, hi.smin, hi.smax, hi.alloc, ?_, hi.iin, ?_, hi.irep, ?_, hw, ?_, hi.mpos⟩
  all_goals simp only [dropper]
  all_goals omega

end PdshVerif.Cbuf
