/-
  Model of the line-level replay side of src/pdsh/cbuf.c: `cbuf_find_replay_line` (the scan runs
  BACKWARDS from i_out to i_rep), `cbuf_replay_line`, `cbuf_rewind_line`, `cbuf_lines_reused`, and
  the remaining getters `cbuf_is_empty`, `cbuf_free`, `cbuf_opt_get`.
  Same conventions as Model.lean (C ints that may be negative are `Int`).
-/
import PdshVerif.Cbuf.Model
import PdshVerif.Cbuf.ScanLine

namespace PdshVerif.Cbuf

/-- `while (i != cb->i_rep) { i = (i + size) % (size + 1); ... }` -/
def findReplayLoop (d : Array UInt8) (size iRep : Nat) : Nat → Nat → RScan → RScan
  | 0, _, s => s
  | fuel + 1, i, s =>
    if i = iRep then s
    else
      let i' := (i + size) % (size + 1)
      let s' := s.feed (d.getD i' 0)
      if s'.stop then s' else findReplayLoop d size iRep fuel i' s'

/-- `cbuf_find_replay_line (cb, chars, &lines, &nl)`: (bytes, lines found, nl) -/
def findReplayLine (c : Cbuf) (chars lines : Int) : Nat × Int × Nat :=
  if lines = 0 ∨ (lines ≤ -1 ∧ chars ≤ 0) then (0, 0, 0)
  else if c.iOut = c.iRep then (0, 0, 0)
  else
    -- "cb->data[(O - 1 + (S+1)) % (S+1)] is the last replayable char"
    let lastIsNl := decide (c.data.getD ((c.iOut + c.size) % (c.size + 1)) 0 = 10)
    let (s0, nl) := replayInit lastIsNl chars lines
    let s := findReplayLoop c.data c.size c.iRep (c.size + 2) c.iOut s0
    let (m, l) := replayFinish c.gotWrap s
    (m, l, nl)

/-- what `cbuf_replay_line` stores and returns once the finder answered `(n, nl)` with n > 0;
    `newest m` = the newest `m` replayable bytes (`cbuf_replayer`) -/
def replayLineOut (newest : Nat → List UInt8) (n nl : Nat) (len : Int) : Int × Option (List UInt8) :=
  if len > 0 then
    let m := (max (min (n : Int) (len - 1 - nl)) 0).toNat
    let bs := if m > 0 then newest m else []
    -- "Append newline if needed and space allows."
    let bs := if nl = 1 ∧ len > 1 then bs ++ [10] else bs
    (n + nl, some bs)
  else (n, none)

/-- `cbuf_replay_line (src, dstbuf, len, lines)`: (ret, bytes stored before the NUL, or none when
    nothing is stored) -/
def replayLine (c : Cbuf) (len lines : Int) : Int × Option (List UInt8) :=
  if len < 0 ∨ lines < -1 then (-1, none)
  else if lines = 0 then (0, none)
  else
    let r := findReplayLine c (len - 1) lines
    if r.1 > 0 then replayLineOut (replayer c) r.1 r.2.2 len else (r.1, none)

/-- `cbuf_rewind_line (src, len, lines)` -/
def rewindLine (c : Cbuf) (len lines : Int) : Int × Cbuf :=
  if len < 0 ∨ lines < -1 then (-1, c)
  else if lines = 0 then (0, c)
  else
    let n := (findReplayLine c len lines).1
    if n > 0 then
      (n, { c with used := c.used + n, iOut := (c.iOut + (c.size + 1) - n) % (c.size + 1) })
    else (n, c)

/-- `cbuf_lines_reused` -/
def linesReused (c : Cbuf) : Int := (findReplayLine c c.size (-1)).2.1

/-- `cbuf_is_empty` -/
def isEmpty (c : Cbuf) : Bool := decide (c.used = 0)

/-- `cbuf_free` -/
def free (c : Cbuf) : Nat := c.size - c.used

/-- `cbuf_opt_get (cb, CBUF_OPT_OVERWRITE, &value)` -/
def optGet (c : Cbuf) : Nat :=
  match c.mode with
  | .noDrop => Gen.CBUF_NO_DROP
  | .wrapOnce => Gen.CBUF_WRAP_ONCE
  | .wrapMany => Gen.CBUF_WRAP_MANY

end PdshVerif.Cbuf
