/-
  Model of the line-level replay side of src/pdsh/cbuf.c: `cbuf_find_replay_line` (the scan runs
  BACKWARDS from i_out to i_rep), `cbuf_replay_line`, `cbuf_rewind_line`, `cbuf_lines_reused`.
  Same conventions as Model.lean (C ints that may be negative are `Int`).
-/
import PdshVerif.Cbuf.Model

namespace PdshVerif.Cbuf

/-- state of the scan loop of `cbuf_find_replay_line`: the C locals n, chars, lines, m, l -/
structure RScan where
  n : Nat
  chars : Int
  lines : Int
  m : Nat
  l : Int
  deriving Repr, DecidableEq

/-- the body of the loop for the byte `b` found at the (already decremented) index -/
def RScan.feed (s : RScan) (b : UInt8) : RScan :=
  let n := s.n + 1
  let chars := if s.chars > 0 then s.chars - 1 else s.chars
  let isNl := b = 10
  { n := n, chars := chars,
    lines := if isNl ∧ s.lines > 0 then s.lines - 1 else s.lines,
    m := if isNl then n - 1 else s.m,            -- "do not include preceding '\n'"
    l := if isNl then s.l + 1 else s.l }

/-- `if ((chars == 0) || (lines == 0)) break;` -/
def RScan.stop (s : RScan) : Bool := decide (s.chars = 0 ∨ s.lines = 0)

/-- `while (i != cb->i_rep) { i = (i + size) % (size + 1); ... }` -/
def findReplayLoop (d : Array UInt8) (size iRep : Nat) : Nat → Nat → RScan → RScan
  | 0, _, s => s
  | fuel + 1, i, s =>
    if i = iRep then s
    else
      let i' := (i + size) % (size + 1)
      let s' := s.feed (d.getD i' 0)
      if s'.stop then s' else findReplayLoop d size iRep fuel i' s'

/-- what `cbuf_find_replay_line` does before the loop, given whether the newest replayable byte is
    a newline: (initial scan state, nl) -/
def replayInit (lastIsNl : Bool) (chars lines : Int) : RScan × Nat :=
  let chars := if lines > 0 then -1 else chars + 1
  if lastIsNl then ({ n := 0, chars := chars, lines := if lines > 0 then lines + 1 else lines, m := 0, l := -1 }, 0)
  else ({ n := 0, chars := chars - 1, lines := lines, m := 0, l := 0 }, 1)

/-- what it does after the loop: "the first line written in does not need a preceding newline",
    then all or none; returns (bytes, lines found) -/
def replayFinish (gotWrap : Bool) (s : RScan) : Nat × Int :=
  let s := if !gotWrap ∧ (s.chars > 0 ∨ s.lines > 0) then
      { s with lines := if s.lines > 0 then s.lines - 1 else s.lines, m := s.n, l := s.l + 1 }
    else s
  if s.lines > 0 then (0, 0) else (s.m, s.l)

/-- `cbuf_find_replay_line (cb, chars, &lines, &nl)`: (bytes, lines found, nl) -/
def findReplayLine (c : Cbuf) (chars lines : Int) : Nat × Int × Nat :=
  if lines = 0 ∨ (lines ≤ -1 ∧ chars ≤ 0) then (0, 0, 0)
  else if c.iOut = c.iRep then (0, 0, 0)
  else
    let lastIsNl := c.data.getD ((c.iOut + c.size) % (c.size + 1)) 0 = 10
    let (s0, nl) := replayInit lastIsNl chars lines
    let s := findReplayLoop c.data c.size c.iRep (c.size + 2) c.iOut s0
    let (m, l) := replayFinish c.gotWrap s
    (m, l, nl)

/-- `cbuf_replay_line (src, dstbuf, len, lines)`: (ret, bytes stored before the NUL or none when
    nothing is stored) -/
def replayLine (c : Cbuf) (len lines : Int) : Int × Option (List UInt8) :=
  if len < 0 ∨ lines < -1 then (-1, none)
  else if lines = 0 then (0, none)
  else
    let (n, _, nl) := findReplayLine c (len - 1) lines
    if n > 0 then
      if len > 0 then
        let m := min (n : Int) (len - 1 - nl)
        let m := (max m 0).toNat
        let bs := if m > 0 then replayer c m else []
        let bs := if nl = 1 ∧ len > 1 then bs ++ [10] else bs
        (n + nl, some bs)
      else (n, none)
    else (n, none)

/-- `cbuf_rewind_line (src, len, lines)` -/
def rewindLine (c : Cbuf) (len lines : Int) : Int × Cbuf :=
  if len < 0 ∨ lines < -1 then (-1, c)
  else if lines = 0 then (0, c)
  else
    let (n, _, _) := findReplayLine c len lines
    if n > 0 then
      (n, { c with used := c.used + n, iOut := (c.iOut + (c.size + 1) - n) % (c.size + 1) })
    else (n, c)

/-- `cbuf_lines_reused` -/
def linesReused (c : Cbuf) : Int := (findReplayLine c c.size (-1)).2.1

/-- `cbuf_is_empty` -/
def isEmpty (c : Cbuf) : Bool := c.used = 0

/-- `cbuf_opt_get (cb, CBUF_OPT_OVERWRITE, &value)` -/
def optGet (c : Cbuf) : Nat :=
  match c.mode with
  | .noDrop => Gen.CBUF_NO_DROP
  | .wrapOnce => Gen.CBUF_WRAP_ONCE
  | .wrapMany => Gen.CBUF_WRAP_MANY

end PdshVerif.Cbuf
