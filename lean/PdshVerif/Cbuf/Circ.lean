/-
  Pointwise characterisation of the circular load/store primitives of the cbuf model.
-/
import PdshVerif.Cbuf.Model

namespace PdshVerif.Cbuf

theorem wrap_eq {x M : Nat} (h : x < 2 * M) : x % M = if x < M then x else x - M := by
  split
  · exact Nat.mod_eq_of_lt ‹_›
  · rename_i h1
    have h2 : M ≤ x := Nat.le_of_not_lt h1
    rw [Nat.mod_eq_sub_mod h2, Nat.mod_eq_of_lt (by omega)]

/-- omega-friendly form of `wrap_eq` (omega treats `x % M` as an atom) -/
theorem wrap_cases {x M : Nat} (h : x < 2 * M) : (x < M → x % M = x) ∧ (M ≤ x → x % M + M = x) := by
  constructor
  · intro h1; exact Nat.mod_eq_of_lt h1
  · intro h1; rw [Nat.mod_eq_sub_mod h1, Nat.mod_eq_of_lt (by omega)]; omega

@[simp] theorem circRead_length (d : Array UInt8) (m s n : Nat) : (circRead d m s n).length = n := by
  induction n generalizing s with
  | zero => simp [circRead]
  | succ n ih => simp [circRead, ih]

@[simp] theorem circWrite_size (d : Array UInt8) (m s : Nat) (bs : List UInt8) :
    (circWrite d m s bs).size = d.size := by
  induction bs generalizing d s with
  | nil => simp [circWrite]
  | cons b bs ih => simp [circWrite, ih]

theorem circRead_getElem (d : Array UInt8) (m s n k : Nat) (hm : 0 < m) (hk : k < (circRead d m s n).length) :
    (circRead d m s n)[k] = d.getD ((s + k) % m) 0 := by
  induction n generalizing s k with
  | zero => simp [circRead] at hk
  | succ n ih =>
    cases k with
    | zero => simp [circRead]
    | succ k =>
      simp only [circRead, List.getElem_cons_succ]
      rw [ih]
      congr 1
      have : s % m + 1 + k = s % m + (k + 1) := by omega
      rw [this, Nat.mod_add_mod]

end PdshVerif.Cbuf

namespace PdshVerif.Cbuf

/-- circular distance from cell `s` forward to cell `j` (both < m) -/
def dist (m s j : Nat) : Nat := if s ≤ j then j - s else j + m - s

theorem dist_cases (m s j : Nat) : (s ≤ j → dist m s j = j - s) ∧ (j < s → dist m s j = j + m - s) := by
  unfold dist; constructor <;> intro h <;> simp <;> omega

theorem getD_set (d : Array UInt8) (i j : Nat) (b : UInt8) (hi : i < d.size) :
    (d.setIfInBounds i b).getD j 0 = if i = j then b else d.getD j 0 := by
  simp only [Array.getD_eq_getD_getElem?, Array.getElem?_setIfInBounds]
  split <;> simp_all

/-- what a circular store of at most `m` bytes leaves in cell `j` -/
theorem circWrite_getD (d : Array UInt8) (m s : Nat) (bs : List UInt8) (j : Nat)
    (hd : d.size = m) (hj : j < m) (hl : bs.length ≤ m) :
    (circWrite d m s bs).getD j 0 =
      if h : dist m (s % m) j < bs.length then bs[dist m (s % m) j] else d.getD j 0 := by
  have hm : 0 < m := by omega
  induction bs generalizing d s with
  | nil => simp [circWrite]
  | cons b bs ih =>
    have hs : s % m < m := Nat.mod_lt _ hm
    simp only [circWrite]
    rw [ih (d.setIfInBounds (s % m) b) (s % m + 1) (by simp [hd]) (by simp at hl; omega)]
    rw [getD_set d (s % m) j b (by omega)]
    have hw : (s % m + 1) % m = if s % m + 1 < m then s % m + 1 else s % m + 1 - m :=
      wrap_eq (by omega)
    simp only [List.length_cons] at hl ⊢
    generalize (s % m + 1) % m = t at hw ⊢
    generalize s % m = s0 at hs hw ⊢
    by_cases hsj : s0 = j
    · subst hsj
      have h0 : dist m s0 s0 = 0 := by simp [dist]
      have h1 : ¬ dist m t s0 < bs.length := by
        rw [hw]; unfold dist; split <;> split <;> omega
      simp [h0, h1]
    · have hd' : dist m s0 j = dist m t j + 1 := by
        rw [hw]; unfold dist; split <;> split <;> split <;> omega
      simp only [hsj, if_false]
      by_cases hlt : dist m t j < bs.length
      · have : dist m s0 j < bs.length + 1 := by omega
        simp only [hlt, this, dite_true]
        simp [hd']
      · have : ¬ dist m s0 j < bs.length + 1 := by omega
        simp [hlt, this]

end PdshVerif.Cbuf

namespace PdshVerif.Cbuf

theorem circWrite_getD_in (d : Array UInt8) (m s : Nat) (bs : List UInt8) (j : Nat)
    (hd : d.size = m) (hj : j < m) (hl : bs.length ≤ m) (h : dist m (s % m) j < bs.length) :
    (circWrite d m s bs).getD j 0 = bs[dist m (s % m) j] := by
  rw [circWrite_getD d m s bs j hd hj hl]; simp [h]

theorem circWrite_getD_out (d : Array UInt8) (m s : Nat) (bs : List UInt8) (j : Nat)
    (hd : d.size = m) (hj : j < m) (hl : bs.length ≤ m) (h : ¬ dist m (s % m) j < bs.length) :
    (circWrite d m s bs).getD j 0 = d.getD j 0 := by
  rw [circWrite_getD d m s bs j hd hj hl]; simp [h]

theorem circRead_take (d : Array UInt8) (m s n a : Nat) :
    circRead d m s (min a n) = (circRead d m s n).take a := by
  induction n generalizing s a with
  | zero => simp [circRead]
  | succ n ih =>
    cases a with
    | zero => simp [circRead]
    | succ a =>
      have : min (a + 1) (n + 1) = min a n + 1 := by omega
      simp [this, circRead, ih]

theorem circRead_drop (d : Array UInt8) (m s n a : Nat) (ha : a ≤ n) :
    circRead d m ((s + a) % m) (n - a) = (circRead d m s n).drop a := by
  induction a generalizing s n with
  | zero =>
    cases n with
    | zero => simp [circRead]
    | succ n => simp [circRead]
  | succ a ih =>
    cases n with
    | zero => omega
    | succ n =>
      simp only [circRead, List.drop_succ_cons]
      rw [← ih (s % m + 1) n (by omega)]
      have : (s % m + 1 + a) = s % m + (a + 1) := by omega
      rw [this, Nat.mod_add_mod]
      congr 1
      omega

theorem circRead_mod (d : Array UInt8) (m s n : Nat) : circRead d m (s % m) n = circRead d m s n := by
  cases n with
  | zero => simp [circRead]
  | succ n => simp [circRead]

theorem circRead_append (d : Array UInt8) (m s a b : Nat) :
    circRead d m s (a + b) = circRead d m s a ++ circRead d m (s + a) b := by
  induction a generalizing s with
  | zero => simp [circRead]
  | succ a ih =>
    have : a + 1 + b = (a + b) + 1 := by omega
    rw [this]
    simp only [circRead, List.cons_append]
    rw [ih]
    congr 2
    rw [← circRead_mod d m (s % m + 1 + a), ← circRead_mod d m (s + (a + 1))]
    congr 1
    have : s % m + 1 + a = s % m + (a + 1) := by omega
    rw [this, Nat.mod_add_mod]

theorem circWrite_mod (d : Array UInt8) (m s : Nat) (bs : List UInt8) :
    circWrite d m (s % m) bs = circWrite d m s bs := by
  cases bs with
  | nil => simp [circWrite]
  | cons b bs => simp [circWrite]

theorem circWrite_append (d : Array UInt8) (m s : Nat) (a b : List UInt8) :
    circWrite d m s (a ++ b) = circWrite (circWrite d m s a) m (s + a.length) b := by
  induction a generalizing d s with
  | nil => simp [circWrite]
  | cons x a ih =>
    simp only [List.cons_append, circWrite, List.length_cons]
    rw [ih]
    rw [← circWrite_mod _ m (s % m + 1 + a.length), ← circWrite_mod _ m (s + (a.length + 1))]
    congr 1
    have : s % m + 1 + a.length = s % m + (a.length + 1) := by omega
    rw [this, Nat.mod_add_mod]

end PdshVerif.Cbuf

namespace PdshVerif.Cbuf

theorem dist_add (m x k : Nat) (hx : x < m) (hk : k < m) : dist m x ((x + k) % m) = k := by
  rw [wrap_eq (by omega)]
  unfold dist
  split <;> split <;> omega

/-- last writer wins: after a circular store of ANY length, the `t`-th byte is found where it was
    stored provided fewer than `m` bytes were stored after it -/
theorem circWrite_getD_last (d : Array UInt8) (m s : Nat) (bs : List UInt8) (t : Nat)
    (hd : d.size = m) (hm : 0 < m) (ht : t < bs.length) (hlast : bs.length - t ≤ m) :
    (circWrite d m s bs).getD ((s + t) % m) 0 = bs[t] := by
  let a := bs.length - min bs.length m
  have ha : a ≤ t := by omega
  have hta : (bs.take a).length = a := by simp; omega
  have hw : circWrite d m s bs = circWrite (circWrite d m s (bs.take a)) m (s + a) (bs.drop a) := by
    conv => lhs; rw [← List.take_append_drop a bs]
    rw [circWrite_append, hta]
  rw [hw]
  rw [circWrite_getD _ m (s + a) (bs.drop a) ((s + t) % m) (by simp [hd]) (Nat.mod_lt _ hm)
        (by simp; omega)]
  have hk : t - a < m := by omega
  have hst : (s + t) % m = ((s + a) % m + (t - a)) % m := by
    rw [Nat.mod_add_mod]; congr 1; omega
  rw [hst, dist_add m ((s + a) % m) (t - a) (Nat.mod_lt _ hm) hk]
  have hlt : t - a < (bs.drop a).length := by simp; omega
  simp only [hlt, dite_true]
  rw [List.getElem_drop]
  congr 1
  omega

end PdshVerif.Cbuf
