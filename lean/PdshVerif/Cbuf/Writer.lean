/-
  Closed form of the copy loop of `cbuf_writer` and the effect of `cbuf_writer` on the
  invariant and on the unread contents.
-/
import PdshVerif.Cbuf.Grow

namespace PdshVerif.Cbuf

/-- the bytes a source delivers in total for an overall request of `k` bytes -/
def Src.avail : Src → Nat → List UInt8
  | .mem bs, k => bs.take k
  | .fd av _, k => av.take k

/-- a memory source must hold at least the requested number of bytes (the C caller passes `len`) -/
def Src.ok : Src → Nat → Prop
  | .mem bs, k => k ≤ bs.length
  | .fd _ _, _ => True

/-- what `getf` reports when nothing at all could be delivered -/
def Src.emptyRet : Src → Int
  | .mem _ => 0
  | .fd _ eof => if eof then 0 else -1

theorem take_take_drop (l : List UInt8) (n k : Nat) :
    l.take n ++ (l.drop n).take k = l.take (n + k) := by
  rw [List.take_add]

theorem circWrite_append' (d : Array UInt8) (M s : Nat) (a b : List UInt8) (n : Nat) (h : a.length = n) :
    circWrite (circWrite d M s a) M ((s + n) % M) b = circWrite d M s (a ++ b) := by
  subst h; rw [circWrite_mod, circWrite_append]

theorem writerLoop_spec (size : Nat) (fuel : Nat) (d : Array UInt8) (iDst nleft : Nat) (src : Src) (m0 : Int)
    (hf : nleft < fuel) (hi : iDst ≤ size) (hs : src.ok nleft) (hd : d.size = size + 1) :
    let r := writerLoop size fuel d iDst nleft src m0
    r.1 = circWrite d (size + 1) iDst (src.avail nleft) ∧
    r.2.1 = (iDst + (src.avail nleft).length) % (size + 1) ∧
    r.2.2.1 = nleft - (src.avail nleft).length ∧
    (0 < nleft → (src.avail nleft).length = 0 → r.2.2.2.2 = src.emptyRet ∧ ∃ av eof, src = .fd av eof ∧ av = []) := by
  induction fuel generalizing d iDst nleft src m0 with
  | zero => omega
  | succ fuel ih =>
    simp only [writerLoop]
    by_cases hn0 : nleft = 0
    · subst hn0
      cases src <;> simp [Src.avail, circWrite, Nat.mod_eq_of_lt (show iDst < size + 1 by omega)]
    · simp only [hn0, if_false]
      have hnpos : 0 < min nleft (size + 1 - iDst) := by omega
      have hn1 : min nleft (size + 1 - iDst) ≤ nleft := by omega
      have hn2 : min nleft (size + 1 - iDst) ≤ size + 1 - iDst := by omega
      generalize min nleft (size + 1 - iDst) = n at hnpos hn1 hn2 ⊢
      have hidst : (iDst + n) % (size + 1) ≤ size := by
        have := Nat.mod_lt (iDst + n) (show 0 < size + 1 by omega); omega
      cases src with
      | mem bs =>
        simp only [Src.ok] at hs
        simp only [Src.get, Src.avail]
        have hmpos : ((n : Nat) : Int) > 0 := by omega
        simp only [hmpos, if_true, ne_eq, not_true_eq_false, if_false]
        have hlen : (bs.take n).length = n := by simp; omega
        rw [hlen]
        have hrec := ih (circWrite d (size + 1) iDst (bs.take n))
          ((iDst + n) % (size + 1)) (nleft - n) (.mem (bs.drop n)) (n : Nat)
          (by omega) hidst (by simp [Src.ok]; omega) (by simp [hd])
        simp only [Src.avail] at hrec
        obtain ⟨h1, h2, h3, _⟩ := hrec
        have htk : bs.take n ++ (bs.drop n).take (nleft - n) = bs.take nleft := by
          rw [take_take_drop]; congr 1; omega
        have hl2 : ((bs.drop n).take (nleft - n)).length = nleft - n := by simp; omega
        have hl3 : (bs.take nleft).length = nleft := by simp; omega
        refine ⟨?_, ?_, ?_, ?_⟩
        · rw [h1, circWrite_append' _ _ _ _ _ n hlen, htk]
        · rw [h2, hl2, hl3, Nat.mod_add_mod]; congr 1; omega
        · rw [h3, hl2, hl3]; omega
        · intro _ h0; rw [hl3] at h0; omega
      | fd av eof =>
        simp only [Src.get, Src.avail]
        by_cases hav : av = []
        · subst hav
          simp only [List.isEmpty_nil, if_true, List.take_nil, List.length_nil, circWrite, Nat.add_zero, Nat.sub_zero]
          have : ¬ ((if eof = true then (0 : Int) else -1) > 0) := by split <;> omega
          simp only [this, if_false]
          refine ⟨trivial, (Nat.mod_eq_of_lt (by omega)).symm, trivial, ?_⟩
          intro _ _
          exact ⟨by simp [Src.emptyRet], [], eof, rfl, rfl⟩
        · have hne : av.isEmpty = false := by cases av <;> simp_all
          have havl : 0 < av.length := by cases av <;> simp_all
          simp only [hne, Bool.false_eq_true, if_false]
          have hkpos : ((min n av.length : Nat) : Int) > 0 := by omega
          simp only [hkpos, if_true]
          have hlen : (av.take (min n av.length)).length = min n av.length := by simp
          rw [hlen]
          by_cases hshort : ((n : Nat) : Int) ≠ (min n av.length : Nat)
          · -- short read: the descriptor is drained
            rw [if_pos hshort]
            have hk : min n av.length = av.length := by omega
            have ht1 : av.take (min n av.length) = av := by rw [hk]; exact List.take_length
            have ht2 : av.take nleft = av := List.take_of_length_le (by omega)
            rw [ht1, ht2, hk]
            refine ⟨rfl, rfl, rfl, ?_⟩
            intro _ h0; omega
          · rw [if_neg hshort]
            have hk : min n av.length = n := by omega
            rw [hk]
            have hrec := ih (circWrite d (size + 1) iDst (av.take n))
              ((iDst + n) % (size + 1)) (nleft - n) (.fd (av.drop n) eof) (n : Nat)
              (by omega) hidst (by simp [Src.ok]) (by simp [hd])
            simp only [Src.avail] at hrec
            obtain ⟨h1, h2, h3, _⟩ := hrec
            have hlen' : (av.take n).length = n := by simp; omega
            have htk : av.take n ++ (av.drop n).take (nleft - n) = av.take nleft := by
              rw [take_take_drop]; congr 1; omega
            have hl2 : ((av.drop n).take (nleft - n)).length = min (nleft - n) (av.length - n) := by simp
            have hl3 : (av.take nleft).length = min nleft av.length := by simp
            refine ⟨?_, ?_, ?_, ?_⟩
            · rw [h1, circWrite_append' _ _ _ _ _ n hlen', htk]
            · rw [h2, hl2, hl3, Nat.mod_add_mod]; congr 1; omega
            · rw [h3, hl2, hl3]; omega
            · intro _ h0; rw [hl3] at h0; omega

end PdshVerif.Cbuf

namespace PdshVerif.Cbuf

/-- the virtual stream "old unread bytes, then the new bytes" laid out circularly from `o`:
    a new byte is found at its virtual position if fewer than `M` bytes follow it -/
theorem layout_new (d : Array UInt8) (M o u : Nat) (got : List UInt8) (t : Nat)
    (hd : d.size = M) (hM : 0 < M) (h1 : u ≤ t) (h2 : t - u < got.length) (h3 : u + got.length - t ≤ M) :
    (circWrite d M ((o + u) % M) got).getD ((o + t) % M) 0 = got[t - u] := by
  have := circWrite_getD_last d M ((o + u) % M) got (t - u) hd hM h2 (by omega)
  rw [Nat.mod_add_mod] at this
  rw [← this]
  congr 2
  omega

/-- an old byte survives at its virtual position if the whole tail from it fits below `M` -/
theorem layout_old (d : Array UInt8) (M o u : Nat) (got : List UInt8) (t : Nat)
    (hd : d.size = M) (hM : 0 < M) (h1 : t < u) (h3 : u + got.length - t < M) :
    (circWrite d M ((o + u) % M) got).getD ((o + t) % M) 0 = d.getD ((o + t) % M) 0 := by
  apply circWrite_getD_out d M _ got _ hd (Nat.mod_lt _ hM) (by omega)
  rw [Nat.mod_mod]
  -- the cell lies M - (u - t) steps after the start of the store
  have hcell : (o + t) % M = ((o + u) % M + (M - (u - t))) % M := by
    rw [Nat.mod_add_mod]
    have : o + u + (M - (u - t)) = o + t + M := by omega
    rw [this, Nat.add_mod_right]
  rw [hcell, dist_add M ((o + u) % M) (M - (u - t)) (Nat.mod_lt _ hM) (by omega)]
  omega

end PdshVerif.Cbuf

namespace PdshVerif.Cbuf

theorem inv_iIn_eq {c : Cbuf} (hi : Inv c) : c.iIn = (c.iOut + c.used) % (c.size + 1) := by
  have := hi.inout; have := hi.used; have := hi.iout
  have := @wrap_cases (c.iOut + c.used) (c.size + 1) (by omega)
  omega

/-- metadata update: the invariant is re-established -/
theorem inv_commit {c : Cbuf} (hi : Inv c) (got : List UInt8) (hn : 0 < got.length) :
    Inv (commit c (c.size - c.used) (circWrite c.data (c.size + 1) c.iIn got)
          ((c.iIn + got.length) % (c.size + 1)) got.length) := by
  have h1 := hi.spos; have h2 := hi.used; have h3 := hi.iin; have h4 := hi.iout; have h5 := hi.irep
  have hio := hi.inout; have hw := hi.wrap; have hr := hi.rep
  have hid : (c.iIn + got.length) % (c.size + 1) < c.size + 1 := Nat.mod_lt _ (by omega)
  have hnr := @wrap_cases (c.iOut + (c.size + 1) - c.iRep) (c.size + 1) (by omega)
  generalize hnrepl : (c.iOut + (c.size + 1) - c.iRep) % (c.size + 1) = nrepl at hnr
  have hsmall : got.length ≤ c.size → ((c.iIn + got.length < c.size + 1 → (c.iIn + got.length) % (c.size + 1) = c.iIn + got.length) ∧
      (c.size + 1 ≤ c.iIn + got.length → (c.iIn + got.length) % (c.size + 1) + (c.size + 1) = c.iIn + got.length)) :=
    fun h => @wrap_cases (c.iIn + got.length) (c.size + 1) (by omega)
  generalize hiD : (c.iIn + got.length) % (c.size + 1) = iDst at hid hsmall
  generalize hlen : got.length = n at hn hsmall
  have hnext := @wrap_cases (iDst + 1) (c.size + 1) (by omega)
  generalize hnx : (iDst + 1) % (c.size + 1) = nx at hnext
  by_cases hwrap : n + nrepl > c.size - c.used
  · by_cases hover : n > c.size - c.used
    · refine ⟨by simp [commit, hi.dsize], hi.spos, hi.smin, hi.smax, hi.alloc, ?_, ?_, ?_, ?_, ?_, ?_, ?_, hi.mpos⟩
      all_goals simp only [commit, hnrepl, hnx, hwrap, hover, decide_true, if_true, Bool.or_true]
      all_goals first | omega | simp
    · refine ⟨by simp [commit, hi.dsize], hi.spos, hi.smin, hi.smax, hi.alloc, ?_, ?_, ?_, ?_, ?_, ?_, ?_, hi.mpos⟩
      all_goals simp only [commit, hnrepl, hnx, hwrap, hover, decide_true, if_true, if_false, Bool.or_true]
      all_goals first | omega | simp
  · have hover : ¬ n > c.size - c.used := by omega
    refine ⟨by simp [commit, hi.dsize], hi.spos, hi.smin, hi.smax, hi.alloc, ?_, ?_, ?_, ?_, ?_, ?_, ?_, hi.mpos⟩
    all_goals simp only [commit, hnrepl, hnx, hwrap, hover, decide_false, if_false, Bool.or_false, Bool.false_eq_true]
    all_goals first | omega | exact hw

end PdshVerif.Cbuf

namespace PdshVerif.Cbuf

/-- metadata update: the unread contents become the newest `size` bytes of old ++ new -/
theorem contents_commit {c : Cbuf} (hi : Inv c) (got : List UInt8) (hn : 0 < got.length) :
    contents (commit c (c.size - c.used) (circWrite c.data (c.size + 1) c.iIn got)
          ((c.iIn + got.length) % (c.size + 1)) got.length) =
      (contents c ++ got).drop ((contents c ++ got).length - c.size) := by
  have h1 := hi.spos; have h2 := hi.used; have h4 := hi.iout
  have hM : 0 < c.size + 1 := by omega
  have hin := inv_iIn_eq hi
  have hcl := contents_length c
  have hcell : ∀ k, ((commit c (c.size - c.used) (circWrite c.data (c.size + 1) c.iIn got)
        ((c.iIn + got.length) % (c.size + 1)) got.length).iOut + k) % (c.size + 1) =
      (c.iOut + (c.used + got.length - c.size + k)) % (c.size + 1) := by
    intro k
    by_cases hover : got.length > c.size - c.used
    · have hwrap : got.length + (c.iOut + (c.size + 1) - c.iRep) % (c.size + 1) > c.size - c.used := by omega
      simp only [commit, hover, hwrap, decide_true, if_true]
      rw [Nat.mod_add_mod, hin, Nat.mod_add_mod]
      have e1 : (c.iOut + c.used + got.length) % (c.size + 1) + 1 + k =
          (c.iOut + c.used + got.length) % (c.size + 1) + (1 + k) := by omega
      rw [e1, Nat.mod_add_mod]
      have : c.iOut + c.used + got.length + (1 + k) =
          c.iOut + (c.used + got.length - c.size + k) + (c.size + 1) := by omega
      rw [this, Nat.add_mod_right]
    · simp only [commit, hover, if_false]
      congr 2; omega
  generalize hc' : commit c (c.size - c.used) (circWrite c.data (c.size + 1) c.iIn got)
        ((c.iIn + got.length) % (c.size + 1)) got.length = c' at hcell
  have hsz : c'.size = c.size := by rw [← hc']; rfl
  have hused : c'.used = min (c.used + got.length) c.size := by rw [← hc']; rfl
  have hdata : c'.data = circWrite c.data (c.size + 1) ((c.iOut + c.used) % (c.size + 1)) got := by
    rw [← hc']; simp only [commit]; rw [← hin]
  apply List.ext_getElem
  · simp only [contents_length, List.length_drop, List.length_append, hcl, hused]; omega
  · intro k hk1 hk2
    simp only [List.length_drop, List.length_append, hcl] at hk2
    rw [List.getElem_drop]
    simp only [List.length_append, hcl]
    simp only [contents, hsz] at hk1 ⊢
    rw [circRead_getElem _ _ _ _ _ hM, hcell, hdata]
    by_cases ht : c.used + got.length - c.size + k < c.used
    · rw [layout_old c.data (c.size + 1) c.iOut c.used got _ hi.dsize hM ht (by omega)]
      rw [List.getElem_append_left (by simp; exact ht)]
      rw [circRead_getElem _ _ _ _ _ hM]
    · rw [layout_new c.data (c.size + 1) c.iOut c.used got _ hi.dsize hM (by omega) (by omega) (by omega)]
      rw [List.getElem_append_right (by simp; omega)]
      congr 1
      simp

end PdshVerif.Cbuf

namespace PdshVerif.Cbuf

structure GrowStep (c0 c : Cbuf) (nfree len0 : Nat) : Prop where
  inv : Inv c
  contents : contents c = contents c0
  used : c.used = c0.used
  mode : c.mode = c0.mode
  minsize : c.minsize = c0.minsize
  maxsize : c.maxsize = c0.maxsize
  sizeLo : c0.size ≤ c.size
  nfree : nfree = c.size - c.used
  /-- grow before you lose: either the request now fits, or the buffer is at its maximum -/
  enough : len0 ≤ c.size - c.used ∨ c.size = c.maxsize

theorem maybeGrow_ok {c0 : Cbuf} (hi : Inv c0) (len0 : Nat) (pol : Policy := chunkPolicy) [Admissible pol] :
    GrowStep c0 (maybeGrow c0 len0 pol).1 (maybeGrow c0 len0 pol).2 len0 := by
  have := hi.used; have := hi.smax
  unfold maybeGrow
  by_cases h : len0 > c0.size - c0.used ∧ c0.size < c0.maxsize
  · simp only [h, and_self, if_true]
    have g := grow_ok hi (len0 - (c0.size - c0.used)) h.2 (by omega) pol
    have hen := g.enough (len0 - (c0.size - c0.used)) pol rfl
    refine ⟨g.inv, g.contents, g.used, g.mode, g.minsize, g.maxsize, by rw [g.size]; omega, ?_, ?_⟩
    · rw [g.size, g.used]; omega
    · rw [g.size, g.used, g.maxsize]; rw [g.size] at hen; omega
  · simp only [h, if_false]
    refine ⟨hi, rfl, rfl, rfl, rfl, rfl, Nat.le_refl _, rfl, ?_⟩
    omega

/-- what `cbuf_writer` does once the growth step is over (buffer `c`, `nfree = size - used`) -/
structure CoreOk (c : Cbuf) (len : Nat) (src : Src) (r : WResult) : Prop where
  none : (src.avail len).length = 0 → r.c = c ∧ r.ndropped = 0 ∧ r.ret = src.emptyRet
  some : 0 < (src.avail len).length →
    r.ret = ((src.avail len).length : Int) ∧ r.ndropped = (src.avail len).length - (c.size - c.used) ∧
    Inv r.c ∧ r.c.size = c.size ∧ r.c.mode = c.mode ∧ r.c.minsize = c.minsize ∧ r.c.maxsize = c.maxsize ∧
    contents r.c = (contents c ++ src.avail len).drop ((contents c ++ src.avail len).length - c.size)

theorem writer_ok {c0 : Cbuf} (hi : Inv c0) (len0 : Nat) (hl : 0 < len0) (src : Src) (hs : src.ok len0)
    (pol : Policy := chunkPolicy) [Admissible pol] :
    GrowStep c0 (maybeGrow c0 len0 pol).1 (maybeGrow c0 len0 pol).2 len0 ∧
    match effLen (maybeGrow c0 len0 pol).1 len0 with
    | .none => (writer c0 len0 src pol).ret = -1 ∧ (writer c0 len0 src pol).ndropped = 0 ∧
               (writer c0 len0 src pol).c = (maybeGrow c0 len0 pol).1
    | .some len => 0 < len ∧ len ≤ len0 ∧ CoreOk (maybeGrow c0 len0 pol).1 len src (writer c0 len0 src pol) := by
  have hg := maybeGrow_ok hi len0 pol
  refine ⟨hg, ?_⟩
  unfold writer
  generalize maybeGrow c0 len0 pol = p at hg
  obtain ⟨c, nfree⟩ := p
  simp only at hg ⊢
  cases hel : effLen c len0 with
  | none => simp
  | some len =>
    simp only
    have hci := hg.inv
    have hlen : 0 < len ∧ len ≤ len0 := by
      have := hci.spos
      unfold effLen at hel
      split at hel
      · simp only at hel; split at hel <;> simp at hel; omega
      · simp at hel; omega
      · simp at hel; omega
    have hsok : src.ok len := by
      cases src with
      | mem bs => simp only [Src.ok] at hs ⊢; omega
      | fd _ _ => trivial
    have hloop := writerLoop_spec c.size (len + 1) c.data c.iIn len src 0 (by omega) hci.iin hsok hci.dsize
    generalize writerLoop c.size (len + 1) c.data c.iIn len src 0 = res at hloop
    obtain ⟨d, iDst, nleft, src', m⟩ := res
    simp only at hloop ⊢
    obtain ⟨hd, hiD, hnl, hm⟩ := hloop
    have hgl : (src.avail len).length ≤ len := by cases src <;> simp [Src.avail] <;> omega
    refine ⟨hlen.1, hlen.2, ?_, ?_⟩
    · intro h0
      have hn0 : len - nleft = 0 := by omega
      simp only [hn0, if_true]
      have hnil : src.avail len = [] := List.eq_nil_of_length_eq_zero h0
      refine ⟨?_, by first | rfl | trivial, (hm hlen.1 h0).1⟩
      rw [hd, hnil]; simp [circWrite]
    · intro hpos
      have hn : len - nleft = (src.avail len).length := by omega
      have hn0 : ¬ (len - nleft = 0) := by omega
      simp only [hn0, if_false]
      rw [hn, hd, hiD, hg.nfree]
      refine ⟨by first | rfl | trivial, by first | rfl | trivial, inv_commit hci _ hpos,
        by first | rfl | trivial, by first | rfl | trivial, by first | rfl | trivial,
        by first | rfl | trivial, contents_commit hci _ hpos⟩

end PdshVerif.Cbuf
