/-
  `cbuf_find_replay_line` walks the circular array backwards from i_out to i_rep: that is the scan
  of the list of replayable bytes, newest first (`scanList (hist c).reverse`).  Hence
  `cbuf_replay_line`, `cbuf_rewind_line` and `cbuf_lines_reused` refine `SpecLine.lean`.
-/
import PdshVerif.Cbuf.Replay
import PdshVerif.Cbuf.ModelLine
import PdshVerif.Cbuf.SpecLine

namespace PdshVerif.Cbuf

theorem circRead_succ_reverse (d : Array UInt8) (M s k : Nat) :
    (circRead d M s (k + 1)).reverse = d.getD ((s + k) % M) 0 :: (circRead d M s k).reverse := by
  rw [circRead_append d M s k 1]
  simp [circRead]

/-- stepping back from cell `(iRep + (k+1)) % M` lands on cell `(iRep + k) % M` -/
theorem step_back (iRep k size : Nat) :
    ((iRep + (k + 1)) % (size + 1) + size) % (size + 1) = (iRep + k) % (size + 1) := by
  rw [Nat.mod_add_mod]
  have : iRep + (k + 1) + size = iRep + k + (size + 1) := by omega
  rw [this, Nat.add_mod_right]

theorem findReplayLoop_eq (d : Array UInt8) (size iRep : Nat) (hr : iRep ≤ size) :
    ∀ (k fuel : Nat) (s : RScan), k < fuel → k ≤ size →
      findReplayLoop d size iRep fuel ((iRep + k) % (size + 1)) s =
        scanList (circRead d (size + 1) iRep k).reverse s := by
  intro k
  induction k with
  | zero =>
    intro fuel s hf _
    cases fuel with
    | zero => omega
    | succ fuel =>
      have : iRep % (size + 1) = iRep := Nat.mod_eq_of_lt (by omega)
      simp only [Nat.add_zero, this, findReplayLoop, if_true, circRead, List.reverse_nil, scanList]
  | succ k ih =>
    intro fuel s hf hk
    cases fuel with
    | zero => omega
    | succ fuel =>
      have hne : (iRep + (k + 1)) % (size + 1) ≠ iRep := by
        have := @wrap_cases (iRep + (k + 1)) (size + 1) (by omega)
        omega
      simp only [findReplayLoop, hne, if_false, step_back, circRead_succ_reverse, scanList]
      rw [ih fuel _ (by omega) (by omega)]

/-- no replay data: i_out = i_rep -/
theorem reused_zero_iff {c : Cbuf} (hi : Inv c) : c.iOut = c.iRep ↔ reused c = 0 := by
  have := hi.iout; have := hi.irep; have := hi.spos
  obtain ⟨_, h2, _⟩ := reused_facts hi
  constructor
  · intro h
    unfold reused
    rw [h]
    have : c.iRep + (c.size + 1) - c.iRep = c.size + 1 := by omega
    rw [this, Nat.mod_self]
  · intro h
    rw [h, Nat.add_zero, Nat.mod_eq_of_lt (by omega)] at h2
    exact h2.symm

theorem findReplayLine_refines {c : Cbuf} (hi : Inv c) (chars lines : Int) :
    findReplayLine c chars lines = Spec.findReplay (hist c) c.gotWrap chars lines := by
  have hrp := hi.irep
  obtain ⟨hsum, hout, _⟩ := reused_facts hi
  unfold findReplayLine Spec.findReplay
  by_cases h1 : lines = 0 ∨ (lines ≤ -1 ∧ chars ≤ 0)
  · simp only [h1, if_true]
  · simp only [h1, if_false]
    have hz := reused_zero_iff hi
    unfold hist
    cases hk : reused c with
    | zero =>
      have : c.iOut = c.iRep := hz.mpr hk
      simp [this, circRead]
    | succ k =>
      have hne : ¬ c.iOut = c.iRep := fun h => by have := hz.mp h; omega
      simp only [hne, if_false, circRead_succ_reverse]
      -- the newest replayable byte and the start of the loop
      have hio : c.iOut = (c.iRep + (k + 1)) % (c.size + 1) := by rw [← hk]; exact hout.symm
      have hlast : (c.iOut + c.size) % (c.size + 1) = (c.iRep + k) % (c.size + 1) := by
        rw [hio]; exact step_back c.iRep k c.size
      have hloop : ∀ s, findReplayLoop c.data c.size c.iRep (c.size + 2) c.iOut s =
          scanList (c.data.getD ((c.iRep + k) % (c.size + 1)) 0 :: (circRead c.data (c.size + 1) c.iRep k).reverse) s := by
        intro s
        rw [hio, findReplayLoop_eq c.data c.size c.iRep hrp (k + 1) (c.size + 2) s (by omega) (by omega),
            circRead_succ_reverse]
      rw [hlast]
      generalize replayInit (decide (c.data.getD ((c.iRep + k) % (c.size + 1)) 0 = 10)) chars lines = ini
      obtain ⟨s0, nl⟩ := ini
      simp only [hloop]

theorem replayInit_zero (b : Bool) (chars lines : Int) :
    (replayInit b chars lines).1.n = 0 ∧ (replayInit b chars lines).1.m = 0 := by
  cases b <;> simp [replayInit]

/-- the finder never reports more bytes than are replayable -/
theorem findReplay_le (h : List UInt8) (w : Bool) (chars lines : Int) :
    (Spec.findReplay h w chars lines).1 ≤ h.length := by
  unfold Spec.findReplay
  split
  · exact Nat.zero_le _
  · cases hr : h.reverse with
    | nil => exact Nat.zero_le _
    | cons b rest =>
      simp only
      have hlen : (b :: rest).length = h.length := by rw [← hr]; simp
      have hz := replayInit_zero (decide (b = 10)) chars lines
      generalize replayInit (decide (b = 10)) chars lines = ini at hz
      obtain ⟨s0, nl⟩ := ini
      simp only at hz
      have h0 : s0.m ≤ s0.n ∧ s0.n = 0 := ⟨by omega, hz.1⟩
      have hb := scanList_bounds (b :: rest) s0 h0.1
      have hf := replayFinish_le w (scanList (b :: rest) s0) hb.1
      simp only
      generalize replayFinish w (scanList (b :: rest) s0) = fin at hf
      obtain ⟨m, l⟩ := fin
      simp only at hf ⊢
      omega

theorem replayLine_refines {c : Cbuf} (hi : Inv c) (len lines : Int) :
    replayLine c len lines = Spec.replayLine (absR c) len lines := by
  unfold replayLine Spec.replayLine
  simp only [absR_hist, absR_wrapped, findReplayLine_refines hi]
  by_cases h : len < 0 ∨ lines < -1
  · simp only [h, if_true]
  · simp only [h, if_false]
    by_cases h0 : lines = 0
    · simp only [h0, if_true]
    · simp only [h0, if_false]
      by_cases hp : (Spec.findReplay (hist c) c.gotWrap (len - 1) lines).1 > 0
      · simp only [hp, if_true]
        unfold replayLineOut Spec.replayLineOut
        simp only [replayer_eq hi]
      · simp only [hp, if_false]

/-- moving `n ≤ reused` bytes back into the unread region is a `cbuf_rewind` by `n` -/
theorem rewindBy_refines {c : Cbuf} (hi : Inv c) (n : Nat) (hle : n ≤ reused c) :
    (if n > 0 then ((n : Int), { c with used := c.used + n, iOut := (c.iOut + (c.size + 1) - n) % (c.size + 1) })
      else ((n : Int), c)).1 =
      (if n > 0 then ((n : Int), (Spec.rewind (absR c) (n : Int)).2) else ((n : Int), absR c)).1 ∧
    absR (if n > 0 then ((n : Int), { c with used := c.used + n, iOut := (c.iOut + (c.size + 1) - n) % (c.size + 1) })
      else ((n : Int), c)).2 =
      (if n > 0 then ((n : Int), (Spec.rewind (absR c) (n : Int)).2) else ((n : Int), absR c)).2 ∧
    Inv (if n > 0 then ((n : Int), { c with used := c.used + n, iOut := (c.iOut + (c.size + 1) - n) % (c.size + 1) })
      else ((n : Int), c)).2 := by
  by_cases hn : n > 0
  · simp only [hn, if_true]
    obtain ⟨_, r2, r3⟩ := rewind_refines hi (n : Int)
    have hrw : rewind c (n : Int) = ((n : Int),
        { c with used := c.used + n, iOut := (c.iOut + (c.size + 1) - n) % (c.size + 1) }) := by
      unfold rewind
      have a1 : ¬ ((n : Int) < -1) := by omega
      have a2 : ¬ ((n : Int) = 0) := by omega
      have a3 : ¬ ((n : Int) = -1) := by omega
      have a4 : min (n : Int).toNat (reused c) = n := by rw [Int.toNat_natCast]; omega
      simp only [a1, a2, a3, if_false, a4, hn, if_true]
    rw [hrw] at r2 r3
    exact ⟨trivial, r2, r3⟩
  · simp only [hn, if_false]; exact ⟨trivial, trivial, hi⟩

theorem rewindLine_refines {c : Cbuf} (hi : Inv c) (len lines : Int) :
    (rewindLine c len lines).1 = (Spec.rewindLine (absR c) len lines).1 ∧
    absR (rewindLine c len lines).2 = (Spec.rewindLine (absR c) len lines).2 ∧
    Inv (rewindLine c len lines).2 := by
  unfold rewindLine Spec.rewindLine
  simp only [absR_hist, absR_wrapped, findReplayLine_refines hi]
  by_cases h : len < 0 ∨ lines < -1
  · simp only [h, if_true]; exact ⟨trivial, trivial, hi⟩
  · simp only [h, if_false]
    by_cases h0 : lines = 0
    · simp only [h0, if_true]; exact ⟨trivial, trivial, hi⟩
    · simp only [h0, if_false]
      have hle := findReplay_le (hist c) c.gotWrap len lines
      rw [hist_length] at hle
      exact rewindBy_refines hi _ hle

theorem linesReused_refines {c : Cbuf} (hi : Inv c) : linesReused c = Spec.linesReused (absR c) := by
  unfold linesReused Spec.linesReused
  simp only [absR_hist, absR_wrapped, absR_f, abs_size, findReplayLine_refines hi]

end PdshVerif.Cbuf
