/-
  Specification of the replay side of the circular buffer: next to the FIFO of unread bytes
  there is a history `hist` of bytes that were already consumed (read or dropped) and are still
  held.  One rule governs every writing operation: the buffer holds the newest `size` bytes of the
  stream "history, unread, newly accepted", and the unread part is what the FIFO specification
  says; whatever precedes it is the history.  Consuming moves bytes from the queue to the end of
  the history, rewinding moves them back, flushing forgets everything.
-/
import PdshVerif.Cbuf.Spec

namespace PdshVerif.Cbuf.Spec

structure RFifo where
  f    : Fifo
  hist : List UInt8
  /-- some byte written since the buffer was created or flushed is no longer held, i.e. the
      history does not begin at the beginning of the stream (`got_wrap` in cbuf.c).  Only the
      line-level replay calls look at it: the oldest held byte starts a line iff nothing was lost. -/
  wrapped : Bool
  deriving Repr, Inhabited

/-- the flag after a writing operation that physically stored `phys` bytes and left the FIFO `f'`:
    set as soon as history + unread + stored bytes exceed the capacity -/
def wrappedAfterWrite (r : RFifo) (phys : Nat) (f' : Fifo) : Bool :=
  r.wrapped || decide (r.hist.length + r.f.q.length + phys > f'.size)

/-- history after a writing operation that accepted `acc` and left the FIFO `f'` -/
def histAfterWrite (r : RFifo) (acc : List UInt8) (f' : Fifo) : List UInt8 :=
  let w := lastN f'.size (r.hist ++ r.f.q ++ acc)
  w.take (w.length - f'.q.length)

/-- history after a consuming operation that left the FIFO `f'`: the consumed prefix is appended -/
def histAfterConsume (r : RFifo) (f' : Fifo) : List UInt8 :=
  r.hist ++ r.f.q.take (r.f.q.length - f'.q.length)

/-- `cbuf_replay`: the newest `len` bytes of the history, oldest first -/
def replay (r : RFifo) (len : Int) : Int × List UInt8 :=
  if len < 0 then (-1, []) else ((lastN len.toNat r.hist).length, lastN len.toNat r.hist)

/-- `cbuf_rewind`: the newest `len` (all for -1) bytes of the history become unread again -/
def rewind (r : RFifo) (len : Int) : Int × RFifo :=
  if len < -1 then (-1, r)
  else
    let n := if len = -1 then r.hist.length else min len.toNat r.hist.length
    (n, { r with f := { r.f with q := lastN n r.hist ++ r.f.q }, hist := r.hist.take (r.hist.length - n) })

/-- a descriptor that takes `cap` more bytes: what arrives there and what the call returns -/
def sinkRet (want : List UInt8) (cap : Nat) : Int × List UInt8 :=
  if want.length = 0 then (0, [])
  else if cap = 0 then (-1, [])
  else ((want.take cap).length, want.take cap)

def peekToFd (r : RFifo) (len : Int) (cap : Nat) : Int × List UInt8 :=
  if len < -1 then (-1, [])
  else sinkRet (if len = -1 then r.f.q else r.f.q.take len.toNat) cap

def readToFd (r : RFifo) (len : Int) (cap : Nat) : Int × List UInt8 × RFifo :=
  let (n, bs) := peekToFd r len cap
  (n, bs, { r with f := { r.f with q := r.f.q.drop bs.length }, hist := r.hist ++ bs })

/-- `cbuf_replay_to_fd`: -1 asks for as many bytes as the buffer has free -/
def replayToFd (r : RFifo) (len : Int) (cap : Nat) : Int × List UInt8 :=
  if len < -1 then (-1, [])
  else sinkRet (lastN (if len = -1 then r.f.size - r.f.q.length else len.toNat) r.hist) cap

/-- `cbuf_copy`: the first `len` (all for -1) unread bytes of `src` are written to `dst` as by
    `cbuf_write`; `sz` is the implementation's reported capacity of `dst` afterwards -/
def copy (src dst : RFifo) (len : Int) (sz : Nat) : Option (Int × Nat × RFifo) :=
  if len < -1 then (if sz = dst.f.size then some (-1, 0, dst) else none)
  else
    let bs := if len = -1 then src.f.q else src.f.q.take len.toNat
    (write dst.f bs sz).map fun (ret, nd, f') =>
      (ret, nd, { f := f', hist := histAfterWrite dst (bs.take ret.toNat) f',
                  -- `cbuf_copier` stores at most `size` bytes ("prevents copying data that will be
                  -- overwritten if the cbuf wraps multiple times")
                  wrapped := wrappedAfterWrite dst (min ret.toNat f'.size) f' })

/-- `cbuf_move` = copy, then the copied bytes are consumed from `src` -/
def move (src dst : RFifo) (len : Int) (sz : Nat) : Option (Int × Nat × RFifo × RFifo) :=
  (copy src dst len sz).map fun (ret, nd, dst') =>
    (ret, nd,
      { src with f := { src.f with q := src.f.q.drop ret.toNat }, hist := src.hist ++ src.f.q.take ret.toNat },
      dst')

end PdshVerif.Cbuf.Spec
